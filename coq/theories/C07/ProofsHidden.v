(* C07/ProofsHidden.v — what a checkpoint loses with shared encoders, for ALL agents: the restored hidden blocks hold values
   created during the restore ([restore_hidden_fresh_lemma]), hence never the saved ones ([share_hidden_lost_always_lemma]).
   Uses the store invariant [fresh_ok] (every allocated cell holds a content id that has been issued). *)
From Coq Require Import List NArith QArith Lia Bool.
From AgileV Require Import Evo.Heap Evo.Evo Evo.EvoProofs C07.Model C07.Proofs C07.ProofsAbs C07.ProofsShare.
Import ListNotations.
Open Scope N_scope.

(* ---------------------------------------------------------------------------------------------- *)
(* what the restored hidden blocks hold: values created during the load *)

(* every allocated cell holds a content id that has been issued *)
Definition fresh_ok (s : store) : Prop := forall l, l < s_next s -> rd s l < s_fresh s.
(* all contents of a block were issued at or after f *)
Definition newer (f : cval) (cs : list cval) : Prop := Forall (fun c => f <= c) cs.

Lemma alloc_fresh_content : forall n s,
  newer (s_fresh s) (map (rd (fst (alloc s (repeat FreshV n)))) (snd (alloc s (repeat FreshV n)))).
Proof.
  induction n as [|n IH]; intros s; cbn [repeat alloc map]; [constructor|].
  pose proof (IH (alloc1 s FreshV)) as IH'.
  pose proof (alloc_frame (repeat FreshV n) (alloc1 s FreshV) (s_next s)) as HF.
  destruct (alloc (alloc1 s FreshV) (repeat FreshV n)) as [s2 ls]. cbn [fst snd map] in *.
  constructor.
  - rewrite HF by (rewrite alloc1_next; lia). unfold rd. cbn [alloc1 s_heap]. rewrite hget_upd, N.eqb_refl. lia.
  - eapply Forall_impl; [|exact IH']. cbn beta. intros c Hc. cbn [alloc1 s_fresh] in Hc. lia.
Qed.

Lemma realloc_fresh_mono k srcs x : s_fresh (fst x) <= s_fresh (fst (realloc k srcs x)).
Proof.
  destruct x as [s a]. unfold realloc. cbn [fst snd]. pose proof (alloc_fresh_mono srcs s) as H.
  destruct (alloc s srcs) as [s' ls]. cbn [fst] in *. exact H.
Qed.

(* rebuild_nets: a block of B rebuilt with constructor values holds contents issued during the pass *)
Lemma rebuild_fresh : forall B x k u, okst x -> NoDup (map fst B) -> In (k, u) B -> is_net k = true ->
  In k (map fst (a_blocks (snd x))) -> ctor_src k u = repeat FreshV (length u) ->
  newer (s_fresh (fst x)) (cont (rebuild_nets B x) k).
Proof.
  induction B as [|kv r IH]; intros x k u OK ND Hin Hp Hk Hs; [contradiction|].
  unfold rebuild_nets. rewrite pass_cons. fold (rebuild_nets r).
  cbn [map] in ND. inversion ND as [|? ? Hn ND']; subst.
  destruct Hin as [Hin|Hin].
  - subst kv. cbn [fst snd] in *. rewrite Hp.
    set (x' := realloc k (ctor_src k u) x).
    destruct (pass_other is_net ctor_src r x' k (okst_step _ x (local_ok_realloc _ _) OK) Hn) as [P1 P2].
    unfold cont, rebuild_nets. rewrite P1. rewrite (map_ext_in _ (rd (fst x'))) by (intros l Hl; apply P2; auto).
    unfold x', realloc. destruct x as [s a]. cbn [fst snd] in *. rewrite Hs.
    pose proof (alloc_fresh_content (length u) s) as HC.
    destruct (alloc s (repeat FreshV (length u))) as [s' ls]. cbn [fst snd with_blocks a_blocks] in *.
    rewrite getb_setb_same by auto. exact HC.
  - match goal with |- context[if ?c then _ else _] => destruct c eqn:Ep end; [|apply (IH x k u); auto].
    match goal with |- context[rebuild_nets r ?y] => set (x' := y) end.
    assert (M : s_fresh (fst x) <= s_fresh (fst x')) by apply realloc_fresh_mono.
    assert (H' : newer (s_fresh (fst x')) (cont (rebuild_nets r x') k)).
    { apply (IH x' k u); auto.
      - apply okst_step; auto. apply local_ok_realloc.
      - apply has_key_step; auto. apply struct_ok_realloc. }
    eapply Forall_impl; [|exact H']. cbn beta. intros; lia.
Qed.

Lemma key_neq_cls o o' c c' : c <> c' -> key_eqb (o', c') (o, c) = false.
Proof. intros H. apply key_eqb_neq. intro E. injection E as _ E2. congruence. Qed.
Lemma key_neq_name o o' c c' : o' <> o -> key_eqb (o', c') (o, c) = false.
Proof. intros H. apply key_eqb_neq. intro E. injection E as E1 _. congruence. Qed.

(* one target's three steps of the share hook *)
Definition share_one (p o' : name) (x : lstate) : lstate :=
  wfresh (o', cBuf) (realloc (o', cEnc) [] (realloc (o', cHenc) (map CopyOf (blk (snd x) (p, cEnc))) x)).

Lemma share_hook_cons p o' r x : run_hook (HShare p (o' :: r)) x = run_hook (HShare p r) (share_one p o' x).
Proof. reflexivity. Qed.

Lemma okst_share_one p o' x : okst x -> okst (share_one p o' x).
Proof.
  intros OK. unfold share_one. apply okst_step; [apply local_ok_wfresh|]. apply okst_step; [apply local_ok_realloc|].
  apply okst_step; [apply local_ok_realloc|exact OK].
Qed.

(* a key that is none of the three keys of target o' keeps its contents *)
Lemma share_one_keeps p o' x k : okst x ->
  key_eqb (o', cHenc) k = false -> key_eqb (o', cEnc) k = false -> key_eqb (o', cBuf) k = false ->
  cont (share_one p o' x) k = cont x k.
Proof.
  intros OK E1 E2 E3. unfold share_one.
  set (x1 := realloc (o', cHenc) (map CopyOf (blk (snd x) (p, cEnc))) x).
  set (x2 := realloc (o', cEnc) [] x1).
  assert (OK1 : okst x1) by (apply okst_step; auto; apply local_ok_realloc).
  assert (OK2 : okst x2) by (apply okst_step; auto; apply local_ok_realloc).
  transitivity (cont x2 k); [apply (cont_keep _ _ x2 k (wr_ok_wfresh (o', cBuf)) OK2 E3)|].
  transitivity (cont x1 k); [apply (cont_keep _ _ x1 k (wr_ok_realloc (o', cEnc) []) OK1 E2)|].
  apply (cont_keep _ _ x k (wr_ok_realloc (o', cHenc) _) OK E1).
Qed.

Lemma share_rest_keeps p : forall r x k, okst x ->
  (forall o', In o' r -> key_eqb (o', cHenc) k = false /\ key_eqb (o', cEnc) k = false /\ key_eqb (o', cBuf) k = false) ->
  cont (run_hook (HShare p r) x) k = cont x k.
Proof.
  induction r as [|o' r IH]; intros x k OK H; [reflexivity|].
  rewrite share_hook_cons. rewrite IH.
  - destruct (H o' (or_introl eq_refl)) as (E1 & E2 & E3). apply share_one_keeps; auto.
  - apply okst_share_one; auto.
  - intros o'' Ho. apply H. right; auto.
Qed.

(* the share hook with duplicate-free targets that do not contain the policy: every target's hidden block holds the
   contents the policy's encoder block had when the hook ran *)
Lemma share_hook_copies p : forall others x o, okst x -> NoDup others -> ~ In p others -> In o others ->
  In (o, cHenc) (map fst (a_blocks (snd x))) ->
  cont (run_hook (HShare p others) x) (o, cHenc) = cont x (p, cEnc).
Proof.
  induction others as [|o' r IH]; intros x o OK ND Hp Hin Hk; [contradiction|].
  inversion ND as [|? ? Hn ND']; subst.
  rewrite share_hook_cons.
  assert (Hpo : o' <> p) by (intro; subst; apply Hp; left; auto).
  assert (Cp : cont (share_one p o' x) (p, cEnc) = cont x (p, cEnc)).
  { apply share_one_keeps; auto; apply key_neq_name; auto. }
  destruct (N.eqb_spec o' o) as [->|Hne].
  - rewrite share_rest_keeps.
    + unfold share_one.
      set (x1 := realloc (o, cHenc) (map CopyOf (blk (snd x) (p, cEnc))) x).
      set (x2 := realloc (o, cEnc) [] x1).
      assert (OK1 : okst x1) by (apply okst_step; auto; apply local_ok_realloc).
      assert (OK2 : okst x2) by (apply okst_step; auto; apply local_ok_realloc).
      transitivity (cont x2 (o, cHenc));
        [apply (cont_keep _ _ x2 (o, cHenc) (wr_ok_wfresh (o, cBuf)) OK2); apply key_neq_cls; unfold cBuf, cHenc; lia|].
      transitivity (cont x1 (o, cHenc));
        [apply (cont_keep _ _ x1 (o, cHenc) (wr_ok_realloc (o, cEnc) []) OK1); apply key_neq_cls; unfold cEnc, cHenc; lia|].
      unfold x1, cont, realloc. destruct x as [s a]. cbn [fst snd] in *.
      assert (Hall : Forall (fun l => l < s_next s) (blk a (p, cEnc))).
      { apply Forall_forall. intros l Hl. apply (okst_getb_bounded (s, a) (p, cEnc) l OK Hl). }
      pose proof (alloc_copy_content (blk a (p, cEnc)) s Hall) as HC.
      destruct (alloc s (map CopyOf (blk a (p, cEnc)))) as [s' ls]. cbn [fst snd with_blocks a_blocks] in *.
      rewrite getb_setb_same by auto. exact HC.
    + apply okst_share_one; auto.
    + intros o'' Ho. assert (o'' <> o) by (intro; subst; contradiction).
      repeat split; apply key_neq_name; auto.
  - destruct Hin as [Hin|Hin]; [congruence|].
    rewrite (IH (share_one p o' x) o); auto.
    + apply okst_share_one; auto.
    + intro H; apply Hp; right; auto.
    + unfold share_one. rewrite share_step_keys. exact Hk.
Qed.

Lemma ctor_src_sd_eq k u : is_sd k = true -> ctor_src k u = repeat FreshV (length u).
Proof.
  intros H. destruct (cls_sd_not k H) as (_ & _ & C & Hh & _). unfold ctor_src. unfold is_cc in C. rewrite C.
  unfold is_hidden in Hh. rewrite Hh. reflexivity.
Qed.

(* RESTORED HIDDEN BLOCKS — a registry whose only hook shares the policy's encoder with duplicate-free targets: in the restored
   agent every target's hidden block has the size of the policy's encoder block and holds only contents issued DURING the
   restore (the constructor values of the rebuilt policy encoder, copied by the hook before any state dict is loaded) *)
Theorem restore_hidden_fresh_lemma b x0 p others o u :
  okst x0 -> map fst (a_blocks (snd x0)) = map fst (bl_blocks b) -> keys_nodupb (map fst (bl_blocks b)) = true ->
  r_hooks (a_reg (snd x0)) = [HShare p others] -> NoDup others -> ~ In p others -> In o others ->
  In ((p, cEnc), u) (bl_blocks b) -> In (o, cHenc) (map fst (bl_blocks b)) ->
  newer (s_fresh (fst x0)) (cont (restore b x0) (o, cHenc)) /\
  length (cont (restore b x0) (o, cHenc)) = length u.
Proof.
  intros OK0 KE0 KN HH NDo Hp Ho Hin Hko.
  set (B := bl_blocks b) in *.
  assert (ND : NoDup (map fst B)) by (apply keys_nodupb_NoDup; auto).
  rewrite restore_unfold. fold B.
  set (x1 := rebuild_nets B x0).
  set (x2 := pure (fun a => with_arch a (bl_arch b)) x1).
  set (x3 := run_hooks x2).
  set (x4 := load_states B x3).
  set (x5 := adopt is_ost B x4).
  set (x6 := new_opts b x5).
  set (x7 := adopt is_attr B x6).
  assert (OK1 : okst x1) by (apply okst_step; auto; apply local_ok_rebuild_nets).
  assert (OK2 : okst x2) by (apply okst_step; auto; apply local_ok_pure; intros; reflexivity).
  assert (OK3 : okst x3) by (apply okst_step; auto; apply local_ok_run_hooks).
  assert (OK4 : okst x4) by (apply okst_step; auto; apply local_ok_load_states).
  assert (OK5 : okst x5) by (apply okst_step; auto; apply local_ok_adopt).
  assert (OK6 : okst x6) by (apply okst_step; auto; apply local_ok_pure; intros; reflexivity).
  assert (Hsd : is_sd (p, cEnc) = true) by reflexivity.
  assert (Hnet : is_net (p, cEnc) = true) by reflexivity.
  assert (Hhid : is_hidden (o, cHenc) = true) by reflexivity.
  destruct (cls_hidden_not (o, cHenc) Hhid) as (No & Na & Ns & _ & _ & _).
  assert (Kp0 : In (p, cEnc) (map fst (a_blocks (snd x0)))) by (rewrite KE0; apply (in_map fst _ _ Hin)).
  assert (R2 : a_reg (snd x2) = a_reg (snd x0)).
  { unfold x2, pure. cbn [snd with_arch a_reg]. apply (struct_ok_fields _ x0 (struct_ok_rebuild_nets B)). }
  assert (K2 : map fst (a_blocks (snd x2)) = map fst B).
  { unfold x2, pure. cbn [snd with_arch a_blocks]. rewrite <- KE0. apply (struct_ok_fields _ x0 (struct_ok_rebuild_nets B)). }
  assert (E : cont (set_attrs b x7) (o, cHenc) = cont x1 (p, cEnc)).
  { unfold set_attrs. rewrite pure_cont by reflexivity.
    unfold x7. rewrite (cont_keep is_attr _ x6 (o, cHenc) (wr_ok_adopt is_attr B) OK6 Na).
    unfold x6, new_opts. rewrite pure_cont by reflexivity.
    unfold x5. rewrite (cont_keep is_ost _ x4 (o, cHenc) (wr_ok_adopt is_ost B) OK4 No).
    unfold x4. rewrite (cont_keep is_sd _ x3 (o, cHenc) (wr_ok_load_states B) OK3 Ns).
    unfold x3, run_hooks. rewrite R2, HH. unfold seqL. cbn [map fold_left].
    transitivity (cont x2 (p, cEnc)); [apply (share_hook_copies p others x2 o OK2 NDo Hp Ho); rewrite K2; exact Hko|].
    unfold x2. apply pure_cont. reflexivity. }
  rewrite E. split.
  - unfold x1. apply (rebuild_fresh B x0 (p, cEnc) u OK0 ND Hin Hnet Kp0 (ctor_src_sd_eq (p, cEnc) u Hsd)).
  - unfold cont. rewrite map_length. unfold x1, rebuild_nets.
    rewrite (pass_len is_net ctor_src B x0 (p, cEnc) u OK0 ND Hin Hnet Kp0). apply ctor_src_sd; auto.
Qed.

Lemma copy_blocks_fresh_mono : forall bs s, s_fresh s <= s_fresh (fst (copy_blocks s bs)).
Proof.
  induction bs as [|kv r IH]; intros s; cbn [copy_blocks]; [cbn; lia|].
  pose proof (alloc_fresh_mono (map CopyOf (snd kv)) s) as H1.
  destruct (alloc s (map CopyOf (snd kv))) as [s1 ls]. specialize (IH s1).
  destruct (copy_blocks s1 r) as [s2 out]. cbn [fst] in *. lia.
Qed.

(* SHARE_HIDDEN_LOST, for ALL agents — whenever the registry's hook shares a non-empty policy encoder, the hidden encoder
   copy of every target in the restored agent differs from the saved one: what was saved had been issued before the save,
   what is restored was issued during the load *)
Theorem share_hidden_lost_always_lemma s a p others o :
  savable a = true -> bounded s (agent_locs a) -> fresh_ok s ->
  r_hooks (a_reg a) = [HShare p others] -> NoDup others -> ~ In p others -> In o others ->
  blk a (p, cEnc) <> [] -> In (p, cEnc) (map fst (a_blocks a)) -> In (o, cHenc) (map fst (a_blocks a)) ->
  let r := roundtrip s a in
  map (rd (fst r)) (blk (snd r) (o, cHenc)) <> map (rd s) (blk a (o, cHenc)).
Proof.
  intros SV B FO HH NDo Hp Ho Hne Kp Ko. cbn zeta. unfold roundtrip.
  destruct (save_spec_lemma s a) as (S1 & S2 & S3 & S4 & S5 & F1 & F2 & F3 & F4 & F5 & F6).
  specialize (S5 B).
  assert (FM : s_fresh s <= s_fresh (fst (save s a))).
  { unfold save. pose proof (copy_blocks_fresh_mono (mask_hidden (a_blocks a)) s) as H.
    destruct (copy_blocks s (mask_hidden (a_blocks a))) as [s1' bs]. cbn [fst] in *. exact H. }
  destruct (save s a) as [s1 b]. cbn [fst snd] in *.
  unfold savable in SV. apply andb_true_iff in SV as [SV KC]. apply andb_true_iff in SV as [KN LN].
  assert (KNb : keys_nodupb (map fst (bl_blocks b)) = true) by (rewrite S3; exact KN).
  assert (ND : NoDup (map fst (bl_blocks b))) by (apply keys_nodupb_NoDup; auto).
  assert (Kpb : In (p, cEnc) (map fst (bl_blocks b))) by (rewrite S3; exact Kp).
  apply in_map_iff in Kpb as ([k' u] & Ek & Hin). cbn [fst] in Ek. subst k'.
  assert (Lu : length u = length (blk a (p, cEnc))).
  { pose proof (contents_getb (rd s1) (rd s) (p, cEnc) _ _ S5) as HC. rewrite (getb_in _ u _ ND Hin) in HC.
    rewrite (getb_mask_visible (p, cEnc) eq_refl) in HC. apply (f_equal (@length _)) in HC. rewrite !map_length in HC. exact HC. }
  unfold load.
  destruct (restore_hidden_fresh_lemma b (s1, skeleton b) p others o u) as [NW LN']; auto.
  - split; cbn [fst snd]; rewrite skeleton_no_locs; [constructor|apply Forall_nil].
  - cbn [snd skeleton a_blocks]. rewrite map_map. reflexivity.
  - cbn [snd skeleton a_reg]. rewrite F6. exact HH.
  - rewrite S3. exact Ko.
  - cbn [fst] in NW. unfold cont in NW, LN'. unfold blk at 1.
    set (R := map (rd (fst (restore b (s1, skeleton b)))) (getb (o, cHenc) (a_blocks (snd (restore b (s1, skeleton b)))))) in *.
    intro E. destruct R as [|c R'] eqn:ER.
    + cbn in LN'. rewrite Lu in LN'. destruct (blk a (p, cEnc)); [contradiction|discriminate].
    + inversion NW as [|? ? Hc _]; subst.
      assert (Hin' : In c (map (rd s) (blk a (o, cHenc)))) by (rewrite <- E; left; reflexivity).
      apply in_map_iff in Hin' as (l & El & Hl).
      assert (Hb : l < s_next s).
      { unfold bounded, agent_locs in B. rewrite Forall_forall in B. apply B. eapply getb_incl; eauto. }
      specialize (FO l Hb). lia.
Qed.
