(* C06 — agent level: rl_hyperparam_mutation / reinit_opt / Mutations.mutation / clone.
   Everything in the first section holds for EVERY number carrier (so also for the binary64 instance
   the correspondence check runs); the range statements at the end are about the rational instance. *)
From Coq Require Import List Arith Bool ZArith QArith Lia Lqa.
Import ListNotations.
From AgileV Require Import C06.Model C06.Proofs.
Close Scope Q_scope.
Open Scope nat_scope.

Section Agent.
Context {T : Type} (O : numops T).

(* ---------------- attribute store ---------------- *)
Lemma getv_setv_same (vals : list (name * T)) n x : getv (setv vals n x) n = Some x.
Proof.
  induction vals as [|[m v] r IH]; cbn.
  - rewrite Nat.eqb_refl. reflexivity.
  - destruct (Nat.eqb m n) eqn:E; cbn; rewrite E; auto.
Qed.

Lemma getv_setv_other (vals : list (name * T)) n m x : m <> n -> getv (setv vals n x) m = getv vals m.
Proof.
  intros H. induction vals as [|[m0 v] r IH]; cbn.
  - destruct (Nat.eqb n m) eqn:E; auto. apply Nat.eqb_eq in E. congruence.
  - destruct (Nat.eqb m0 n) eqn:E; cbn.
    + apply Nat.eqb_eq in E. subst m0.
      destruct (Nat.eqb n m) eqn:E2; auto. apply Nat.eqb_eq in E2. congruence.
    + destruct (Nat.eqb m0 m); auto.
Qed.

Lemma getv_setv_some (vals : list (name * T)) n m x :
  (exists v, getv vals m = Some v) -> exists v, getv (setv vals n x) m = Some v.
Proof.
  intros [v Hv]. destruct (Nat.eq_dec m n) as [->|Hne].
  - exists x. apply getv_setv_same.
  - exists v. rewrite getv_setv_other; auto.
Qed.

(* ---------------- the cache ---------------- *)
Definition cached (h : hpent T) (c : T) : hpent T :=
  {| hp_name := hp_name h; hp_par := hp_par h; hp_cache := Some c |}.

Lemma set_cache_names (hps : list (hpent T)) k c : map hp_name (set_cache hps k c) = map hp_name hps.
Proof.
  revert k; induction hps as [|h r IH]; intros [|k]; cbn; auto. rewrite IH; reflexivity.
Qed.

Lemma set_cache_in (hps : list (hpent T)) k c h' :
  In h' (set_cache hps k c) ->
  (exists j, j <> k /\ nth_error hps j = Some h') \/
  (exists h, nth_error hps k = Some h /\ h' = cached h c).
Proof.
  revert k; induction hps as [|h r IH]; intros [|k] H; cbn in H; try contradiction.
  - destruct H as [<-|H].
    + right. exists h. split; reflexivity.
    + left. apply In_nth_error in H. destruct H as [j Hj]. exists (S j). split; [lia|exact Hj].
  - destruct H as [<-|H].
    + left. exists 0. split; [lia|reflexivity].
    + apply IH in H. destruct H as [(j & Hj & E)|(h0 & E & ->)].
      * left. exists (S j). split; [lia|exact E].
      * right. exists h0. split; [exact E|reflexivity].
Qed.

Lemma names_differ (hps : list (hpent T)) j k h h' :
  NoDup (map hp_name hps) -> j <> k -> nth_error hps j = Some h' -> nth_error hps k = Some h ->
  hp_name h' <> hp_name h.
Proof.
  intros ND Hne Hj Hk E.
  apply (map_nth_error hp_name) in Hj. apply (map_nth_error hp_name) in Hk.
  rewrite NoDup_nth_error in ND. apply Hne. apply ND.
  - apply nth_error_Some. congruence.
  - congruence.
Qed.

(* ---------------- well-formedness as a proposition ---------------- *)
Definition Wf (a : agent T) : Prop :=
  (forall h, In h (a_hps a) -> exists v, getv (a_vals a) (hp_name h) = Some v) /\
  NoDup (map hp_name (a_hps a)) /\
  (forall o, In o (a_opts a) -> o_cfg_lr o = o_lr_name o /\ exists v, getv (a_vals a) (o_lr_name o) = Some v).

Lemma has_attr_true (vals : list (name * T)) n : has_attr vals n = true -> exists v, getv vals n = Some v.
Proof. unfold has_attr. destruct (getv vals n); [eauto|discriminate]. Qed.

Lemma nodupb_sound l : nodupb l = true -> NoDup l.
Proof.
  induction l as [|x r IH]; cbn; intros H; constructor.
  - apply andb_prop in H. destruct H as [H _]. intros Hin.
    assert (existsb (Nat.eqb x) r = true) as E.
    { apply existsb_exists. exists x. split; [exact Hin|apply Nat.eqb_refl]. }
    rewrite E in H. discriminate.
  - apply andb_prop in H. apply IH, H.
Qed.

Lemma wf_agent_sound (a : agent T) : wf_agent a = true -> Wf a.
Proof.
  unfold wf_agent. intros H.
  apply andb_prop in H. destruct H as [H H3]. apply andb_prop in H. destruct H as [H1 H2].
  rewrite forallb_forall in H1, H3. repeat split.
  - intros h Hh. apply has_attr_true, H1, Hh.
  - apply nodupb_sound, H2.
  - apply H3 in H. apply andb_prop in H. apply Nat.eqb_eq, H.
  - apply H3 in H. apply andb_prop in H. apply has_attr_true, H.
Qed.

(* the constructor's check is what makes every later getattr succeed *)
Lemma registry_init_guard_lemma (vals : list (name * T)) (hps : list (hpent T)) :
  registry_init_ok vals hps = true <-> (forall h, In h hps -> exists v, getv vals (hp_name h) = Some v).
Proof.
  unfold registry_init_ok. rewrite forallb_forall. split; intros H h Hh.
  - apply has_attr_true, H, Hh.
  - destruct (H h Hh) as [v Hv]. unfold has_attr. rewrite Hv. reflexivity.
Qed.

(* the cached value of every configured hyperparameter is the individual's own current value *)
Definition CacheOk (a : agent T) : Prop :=
  forall h c, In h (a_hps a) -> hp_cache h = Some c -> getv (a_vals a) (hp_name h) = Some c.

(* every optimizer the agent steps runs with the agent's learning-rate attribute, in every param group *)
Definition Coherent (a : agent T) : Prop :=
  forall o, In o (a_opts a) ->
    exists v, getv (a_vals a) (o_lr_name o) = Some v /\ Forall (fun g => g = v) (o_groups o).

Definition Inv (a : agent T) : Prop := Wf a /\ CacheOk a /\ Coherent a.

Lemma fresh_cache_ok (a : agent T) : (forall h, In h (a_hps a) -> hp_cache h = None) -> CacheOk a.
Proof. intros H h c Hh Hc. rewrite (H h Hh) in Hc. discriminate. Qed.

(* ---------------- one mutation, unfolded ---------------- *)
Definition base_of (a : agent T) (h : hpent T) : option T := getv (a_vals a) (hp_name h).

Definition mutated (a : agent T) (k : nat) (u : T) (h : hpent T) (v : T) : agent T :=
  let nv := mutate_value O (hp_par h) u v in
  let vals' := setv (a_vals a) (hp_name h) nv in
  {| a_vals := vals'; a_hps := set_cache (a_hps a) k nv;
     a_opts := reinit_matching vals' (hp_name h) (a_opts a); a_mut := Some (hp_name h) |}.

Lemma rl_hp_unfold (a : agent T) k u h v :
  nth_error (a_hps a) k = Some h -> base_of a h = Some v ->
  rl_hp_mutation O a k u = mutated a k u h v.
Proof.
  intros Hk Hb. unfold rl_hp_mutation, mutated, base_of in *.
  destruct (a_hps a) as [|h0 t] eqn:E.
  - destruct k; discriminate.
  - rewrite Hk. rewrite Hb. reflexivity.
Qed.

Lemma base_is_own (a : agent T) h v :
  CacheOk a -> In h (a_hps a) -> getv (a_vals a) (hp_name h) = Some v -> base_of a h = Some v.
Proof.
  intros C Hh Hv. exact Hv.
Qed.

(* the three ways rl_hyperparam_mutation can go *)
Lemma rl_hp_cases (a : agent T) k u :
  Wf a -> CacheOk a ->
  (a_hps a = [] /\ rl_hp_mutation O a k u =
      {| a_vals := a_vals a; a_hps := a_hps a; a_opts := a_opts a; a_mut := None |}) \/
  (nth_error (a_hps a) k = None /\ rl_hp_mutation O a k u = a) \/
  (exists h v, nth_error (a_hps a) k = Some h /\ getv (a_vals a) (hp_name h) = Some v /\
               rl_hp_mutation O a k u = mutated a k u h v).
Proof.
  intros W C. destruct (a_hps a) as [|h0 t] eqn:E.
  - left. split; [reflexivity|]. unfold rl_hp_mutation. rewrite E. reflexivity.
  - right. destruct (nth_error (a_hps a) k) as [h|] eqn:Hk.
    + right. destruct W as (W1 & _ & _).
      assert (In h (a_hps a)) as Hin by (eapply nth_error_In; eauto).
      destruct (W1 h Hin) as [v Hv]. exists h, v. rewrite <- E. repeat split; auto.
      apply rl_hp_unfold; auto.
    + left. rewrite <- E. split; [exact Hk|]. unfold rl_hp_mutation. rewrite E. rewrite E in Hk. rewrite Hk. reflexivity.
Qed.

(* the earlier code (cache first) and the repaired code (own attribute) are the same function on every state
   in which the cache agrees with the attributes — i.e. on every reachable state of a population whose members own
   their configuration; they differ exactly when the cache is stale *)
Lemma cache_first_agrees (a : agent T) k u :
  CacheOk a -> rl_hp_mutation_cache_first O a k u = rl_hp_mutation O a k u.
Proof.
  intros C. unfold rl_hp_mutation_cache_first, rl_hp_mutation.
  destruct (a_hps a) as [|h0 t] eqn:E; [reflexivity|].
  destruct (nth_error (h0 :: t) k) as [h|] eqn:Hk; [|reflexivity].
  destruct (hp_cache h) as [c|] eqn:Hc; [|reflexivity].
  assert (In h (a_hps a)) as Hin by (rewrite E; eapply nth_error_In; eauto).
  rewrite (C h c Hin Hc). reflexivity.
Qed.

(* whatever the cache holds (stale, aliased, copied from another agent): the new value is the mutation of the
   individual's own attribute *)
Lemma hp_mutation_from_attribute (a : agent T) k u h v :
  nth_error (a_hps a) k = Some h -> getv (a_vals a) (hp_name h) = Some v ->
  getv (a_vals (rl_hp_mutation O a k u)) (hp_name h) = Some (mutate_value O (hp_par h) u v) /\
  (forall m, m <> hp_name h -> getv (a_vals (rl_hp_mutation O a k u)) m = getv (a_vals a) m).
Proof.
  intros Hk Hv. rewrite (rl_hp_unfold a k u h v Hk Hv). unfold mutated. cbn [a_vals]. split.
  - apply getv_setv_same.
  - intros m Hm. apply getv_setv_other; exact Hm.
Qed.

(* ---------------- optimizers ---------------- *)
Lemma reinit_matching_in (vals : list (name * T)) n opts o' :
  In o' (reinit_matching vals n opts) ->
  exists o, In o opts /\ o' = (if Nat.eqb n (o_cfg_lr o) then reinit_opt vals o else o).
Proof. unfold reinit_matching. intros H. apply in_map_iff in H. destruct H as (o & E & Hin). eauto. Qed.

Lemma reinit_opt_names (vals : list (name * T)) o :
  o_cfg_lr (reinit_opt vals o) = o_cfg_lr o /\ o_lr_name (reinit_opt vals o) = o_lr_name o.
Proof. unfold reinit_opt. destruct (getv vals (o_lr_name o)); split; reflexivity. Qed.

Lemma reinit_opt_lr (vals : list (name * T)) o lr :
  getv vals (o_lr_name o) = Some lr ->
  o_wlr (reinit_opt vals o) = lr /\ Forall (fun g => g = lr) (o_groups (reinit_opt vals o)) /\
  length (o_groups (reinit_opt vals o)) = length (o_groups o).
Proof.
  intros H. unfold reinit_opt. rewrite H. cbn. repeat split.
  - apply Forall_forall. intros g Hg. apply in_map_iff in Hg. destruct Hg as (? & E & _). auto.
  - apply map_length.
Qed.

Lemma reinit_matching_nth (vals : list (name * T)) n opts j :
  nth_error (reinit_matching vals n opts) j =
  option_map (fun o => if Nat.eqb n (o_cfg_lr o) then reinit_opt vals o else o) (nth_error opts j).
Proof. unfold reinit_matching. apply nth_error_map. Qed.

(* ---------------- the invariant is preserved ---------------- *)
Lemma wf_mutated (a : agent T) k u h v : Wf a -> Wf (mutated a k u h v).
Proof.
  intros (W1 & W2 & W3). unfold mutated. repeat split; cbn [a_vals a_hps a_opts].
  - intros h' Hin. apply getv_setv_some.
    assert (In (hp_name h') (map hp_name (set_cache (a_hps a) k (mutate_value O (hp_par h) u v)))) as Hn
      by (apply in_map; exact Hin).
    rewrite set_cache_names in Hn. apply in_map_iff in Hn. destruct Hn as (h0 & E & Hin0).
    rewrite <- E. apply W1, Hin0.
  - rewrite set_cache_names. exact W2.
  - apply reinit_matching_in in H. destruct H as (o0 & Hin0 & ->).
    destruct (W3 o0 Hin0) as [E _].
    destruct (Nat.eqb (hp_name h) (o_cfg_lr o0)); [|exact E].
    destruct (reinit_opt_names (setv (a_vals a) (hp_name h) (mutate_value O (hp_par h) u v)) o0) as [-> ->]. exact E.
  - apply reinit_matching_in in H. destruct H as (o0 & Hin0 & ->).
    destruct (W3 o0 Hin0) as [_ E]. apply getv_setv_some.
    destruct (Nat.eqb (hp_name h) (o_cfg_lr o0)); [|exact E].
    destruct (reinit_opt_names (setv (a_vals a) (hp_name h) (mutate_value O (hp_par h) u v)) o0) as [_ ->]. exact E.
Qed.

Lemma cache_ok_mutated (a : agent T) k u h v :
  Wf a -> CacheOk a -> nth_error (a_hps a) k = Some h -> CacheOk (mutated a k u h v).
Proof.
  intros (_ & ND & _) C Hk h' c Hin Hc. unfold mutated in *. cbn [a_vals a_hps] in *.
  apply set_cache_in in Hin. destruct Hin as [(j & Hj & E)|(h0 & E & ->)].
  - rewrite getv_setv_other.
    + apply C; [eapply nth_error_In; eauto|exact Hc].
    + eapply names_differ; eauto.
  - rewrite Hk in E. injection E as <-. cbn in Hc. injection Hc as <-. cbn. apply getv_setv_same.
Qed.

Lemma coherent_mutated (a : agent T) k u h v : Wf a -> Coherent a -> Coherent (mutated a k u h v).
Proof.
  intros (_ & _ & W3) Co o' Hin. unfold mutated in *. cbn [a_vals a_opts] in *.
  set (nv := mutate_value O (hp_par h) u v) in *.
  apply reinit_matching_in in Hin. destruct Hin as (o & Hin & ->).
  destruct (W3 o Hin) as [E _].
  destruct (Nat.eqb (hp_name h) (o_cfg_lr o)) eqn:Hm.
  - apply Nat.eqb_eq in Hm.
    assert (getv (setv (a_vals a) (hp_name h) nv) (o_lr_name o) = Some nv) as G
      by (rewrite <- E, <- Hm; apply getv_setv_same).
    destruct (reinit_opt_names (setv (a_vals a) (hp_name h) nv) o) as [_ N].
    destruct (reinit_opt_lr _ _ _ G) as (L1 & L2 & _).
    exists nv. rewrite N. auto.
  - apply Nat.eqb_neq in Hm. destruct (Co o Hin) as (w & G & L2).
    exists w. rewrite getv_setv_other; [auto|congruence].
Qed.

Lemma inv_rl_hp_mutation (a : agent T) k u : Inv a -> Inv (rl_hp_mutation O a k u).
Proof.
  intros (W & C & Co).
  destruct (rl_hp_cases a k u W C) as [(_ & ->)|[(_ & ->)|(h & v & Hk & Hv & ->)]].
  - split; [|split]; assumption.
  - split; [|split]; assumption.
  - split; [|split].
    + apply wf_mutated; exact W.
    + apply cache_ok_mutated; assumption.
    + apply coherent_mutated; assumption.
Qed.

(* the other mutation kinds re-create every optimizer with its own attribute: nothing observable moves *)
Lemma inv_other_mutation (a : agent T) : Inv a -> Inv (other_mutation a).
Proof.
  intros ((W1 & W2 & W3) & C & Co). unfold other_mutation. split; [|split].
  - repeat split; cbn [a_vals a_hps a_opts]; auto.
    + apply in_map_iff in H. destruct H as (o0 & <- & Hin).
      destruct (reinit_opt_names (a_vals a) o0) as [-> ->]. apply W3, Hin.
    + apply in_map_iff in H. destruct H as (o0 & <- & Hin).
      destruct (reinit_opt_names (a_vals a) o0) as [_ ->]. apply W3, Hin.
  - exact C.
  - intros o' Hin. cbn [a_vals a_opts] in *. apply in_map_iff in Hin. destruct Hin as (o0 & <- & Hin).
    destruct (W3 o0 Hin) as [_ [v G]].
    destruct (reinit_opt_names (a_vals a) o0) as [_ N].
    destruct (reinit_opt_lr _ _ _ G) as (L1 & L2 & _). exists v. rewrite N. auto.
Qed.

(* ... and under the invariant they change no learning rate of any param group *)
Lemma other_mutation_keeps_lrs (a : agent T) j o :
  Inv a -> nth_error (a_opts a) j = Some o ->
  exists o' v, nth_error (a_opts (other_mutation a)) j = Some o' /\
             getv (a_vals a) (o_lr_name o) = Some v /\
             Forall (fun g => g = v) (o_groups o) /\ Forall (fun g => g = v) (o_groups o') /\
             length (o_groups o') = length (o_groups o) /\ a_vals (other_mutation a) = a_vals a.
Proof.
  intros (_ & _ & Co) Hj. unfold other_mutation. cbn [a_opts a_vals].
  rewrite nth_error_map, Hj. cbn.
  destruct (Co o (nth_error_In _ _ Hj)) as (v & G & L2).
  destruct (reinit_opt_lr _ _ _ G) as (M1 & M2 & M3).
  eexists. exists v. split; [reflexivity|]. auto.
Qed.

(* restoring a checkpoint (in place, or as a new member): the restored individual carries the SAVED
   individual's attributes, cached values and optimizer groups, whatever the loader was before *)
Lemma inv_loaded_into (src dst : agent T) : Inv src -> Inv (loaded_into src dst).
Proof.
  intros ((W1 & W2 & W3) & C & Co). unfold loaded_into. split; [|split].
  - repeat split; cbn [a_vals a_hps a_opts]; auto.
    + apply in_map_iff in H. destruct H as (o0 & <- & Hin). cbn. apply W3, Hin.
    + apply in_map_iff in H. destruct H as (o0 & <- & Hin). cbn. apply W3, Hin.
  - exact C.
  - intros o' Hin. cbn [a_vals a_opts] in *. apply in_map_iff in Hin. destruct Hin as (o0 & <- & Hin).
    cbn. apply Co, Hin.
Qed.

Lemma loaded_into_state (src dst : agent T) :
  a_vals (loaded_into src dst) = a_vals src /\ a_hps (loaded_into src dst) = a_hps src /\
  a_mut (loaded_into src dst) = a_mut src /\
  map (@o_groups T) (a_opts (loaded_into src dst)) = map (@o_groups T) (a_opts src) /\
  map (@o_lr_name T) (a_opts (loaded_into src dst)) = map (@o_lr_name T) (a_opts src).
Proof.
  unfold loaded_into. cbn. repeat split; rewrite map_map; reflexivity.
Qed.

(* ---------------- what one mutation does (the property, agent level) ---------------- *)
(* exactly the sampled hyperparameter moves, to the mutation of the individual's OWN current value;
   the label names it *)
Lemma hp_mutation_result (a : agent T) k u h v :
  Wf a -> CacheOk a -> nth_error (a_hps a) k = Some h -> getv (a_vals a) (hp_name h) = Some v ->
  let a' := rl_hp_mutation O a k u in
  getv (a_vals a') (hp_name h) = Some (mutate_value O (hp_par h) u v) /\
  (forall m, m <> hp_name h -> getv (a_vals a') m = getv (a_vals a) m) /\
  a_mut a' = Some (hp_name h).
Proof.
  intros W C Hk Hv a'. subst a'.
  rewrite (rl_hp_unfold a k u h v Hk); [|apply base_is_own; auto; eapply nth_error_In; eauto].
  unfold mutated. cbn [a_vals a_mut]. repeat split.
  - apply getv_setv_same.
  - intros m Hm. apply getv_setv_other; exact Hm.
Qed.

(* a mutated learning rate is the learning rate of EVERY param group of EVERY optimizer registered
   with that lr name; optimizers registered with another name are left exactly as they were *)
Lemma lr_takes_effect_lemma (a : agent T) k u h v :
  Wf a -> CacheOk a -> nth_error (a_hps a) k = Some h -> getv (a_vals a) (hp_name h) = Some v ->
  let a' := rl_hp_mutation O a k u in
  let nv := mutate_value O (hp_par h) u v in
  (forall o', In o' (a_opts a') -> o_cfg_lr o' = hp_name h ->
      o_wlr o' = nv /\ Forall (fun g => g = nv) (o_groups o')) /\
  (forall j o, nth_error (a_opts a) j = Some o -> o_cfg_lr o <> hp_name h ->
      nth_error (a_opts a') j = Some o) /\
  length (a_opts a') = length (a_opts a).
Proof.
  intros W C Hk Hv a' nv. subst a'.
  rewrite (rl_hp_unfold a k u h v Hk); [|apply base_is_own; auto; eapply nth_error_In; eauto].
  unfold mutated. cbn [a_opts]. fold nv. destruct W as (_ & _ & W3). repeat split.
  - apply reinit_matching_in in H. destruct H as (o & Hin & ->).
    destruct (W3 o Hin) as [E _].
    destruct (Nat.eqb (hp_name h) (o_cfg_lr o)) eqn:Hm.
    + apply Nat.eqb_eq in Hm.
      assert (getv (setv (a_vals a) (hp_name h) nv) (o_lr_name o) = Some nv) as G
        by (rewrite <- E, <- Hm; apply getv_setv_same).
      apply (reinit_opt_lr _ _ _ G).
    + apply Nat.eqb_neq in Hm. congruence.
  - apply reinit_matching_in in H. destruct H as (o & Hin & ->).
    destruct (W3 o Hin) as [E _].
    destruct (Nat.eqb (hp_name h) (o_cfg_lr o)) eqn:Hm.
    + apply Nat.eqb_eq in Hm.
      assert (getv (setv (a_vals a) (hp_name h) nv) (o_lr_name o) = Some nv) as G
        by (rewrite <- E, <- Hm; apply getv_setv_same).
      apply (reinit_opt_lr _ _ _ G).
    + apply Nat.eqb_neq in Hm. congruence.
  - intros j o Hj Hne. rewrite reinit_matching_nth, Hj. cbn.
    destruct (Nat.eqb (hp_name h) (o_cfg_lr o)) eqn:Hm; [|reflexivity].
    apply Nat.eqb_eq in Hm. congruence.
  - unfold reinit_matching. apply map_length.
Qed.

(* ---------------- populations ---------------- *)
Lemma upd_nth_nth {X} (l : list X) i j x :
  nth_error (upd_nth l i x) j = if Nat.eqb j i then (if Nat.ltb i (length l) then Some x else None) else nth_error l j.
Proof.
  revert i j; induction l as [|h r IH]; intros i j.
  - cbn. destruct (Nat.eqb j i); destruct i, j; reflexivity.
  - destruct i, j; cbn [upd_nth nth_error length]; auto.
    rewrite IH. cbn [Nat.eqb]. destruct (Nat.eqb j i); auto.
Qed.

Lemma upd_nth_Forall {X} (P : X -> Prop) (l : list X) i x : Forall P l -> P x -> Forall P (upd_nth l i x).
Proof.
  intros H Hx. revert i; induction H as [|h r Hh Hr IH]; intros [|i]; cbn; constructor; auto.
Qed.

Lemma upd_nth_length {X} (l : list X) i x : length (upd_nth l i x) = length l.
Proof. revert i; induction l as [|h r IH]; intros [|i]; cbn; auto. Qed.

(* Mutations.mutation is local: individual j of the result is individual j mutated with ITS draws;
   nobody else's state enters *)
Lemma mutation_round_nth (pop : list (agent T)) draws j :
  nth_error (mutation_round O pop draws) j =
  match nth_error pop j, nth_error draws j with
  | Some a, Some (k, u) => Some (rl_hp_mutation O a k u)
  | Some a, None => Some a
  | None, _ => None
  end.
Proof.
  revert draws j; induction pop as [|a pop IH]; intros draws j.
  - cbn. destruct j; reflexivity.
  - destruct draws as [|[k u] draws].
    + cbn [mutation_round]. destruct (nth_error (a :: pop) j) eqn:E; [|reflexivity].
      destruct j; reflexivity.
    + cbn [mutation_round]. destruct j; cbn [nth_error]; [reflexivity|]. apply IH.
Qed.

Lemma mutation_round_length (pop : list (agent T)) draws : length (mutation_round O pop draws) = length pop.
Proof.
  revert draws; induction pop as [|a pop IH]; intros [|[k u] draws]; cbn; auto.
Qed.

Lemma mutation_round_inv (pop : list (agent T)) draws : Forall Inv pop -> Forall Inv (mutation_round O pop draws).
Proof.
  intros H. revert draws; induction H as [|a pop Ha Hp IH]; intros [|[k u] draws]; cbn; auto.
  constructor; [apply inv_rl_hp_mutation; exact Ha|apply IH].
Qed.

Lemma pop_step_inv (pop : list (agent T)) o : Forall Inv pop -> Forall Inv (pop_step O pop o).
Proof.
  intros H. destruct o as [draws|i k u|s d|draws|s d|s d|i0|i]; cbn.
  - apply mutation_round_inv; exact H.
  - destruct (nth_error pop i) as [a|] eqn:E; [|exact H].
    apply upd_nth_Forall; [exact H|]. apply inv_rl_hp_mutation.
    rewrite Forall_forall in H. apply H. eapply nth_error_In; eauto.
  - destruct (nth_error pop s) as [a|] eqn:E; [|exact H].
    apply upd_nth_Forall; [exact H|]. rewrite Forall_forall in H. apply H. eapply nth_error_In; eauto.
  - destruct H as [|a rest Ha Hr]; constructor; [|apply mutation_round_inv; exact Hr].
    destruct Ha as (W & C & Co). split; [exact W|split; [exact C|exact Co]].
  - destruct (nth_error pop s) as [a|] eqn:E; [|exact H].
    destruct (nth_error pop d) as [b|] eqn:E2; [|exact H].
    apply upd_nth_Forall; [exact H|]. apply inv_loaded_into.
    rewrite Forall_forall in H. apply H. eapply nth_error_In; eauto.
  - destruct (nth_error pop s) as [a|] eqn:E; [|exact H].
    apply upd_nth_Forall; [exact H|]. apply inv_loaded_into.
    rewrite Forall_forall in H. apply H. eapply nth_error_In; eauto.
  - exact H.
  - destruct (nth_error pop i) as [a|] eqn:E; [|exact H].
    apply upd_nth_Forall; [exact H|]. apply inv_other_mutation.
    rewrite Forall_forall in H. apply H. eapply nth_error_In; eauto.
Qed.

Lemma pop_run_inv (ops : list (pop_op T)) : forall pop, Forall Inv pop -> Forall Inv (pop_run O pop ops).
Proof.
  unfold pop_run. induction ops as [|o ops IH]; intros pop H; cbn; auto. apply IH, pop_step_inv, H.
Qed.

Lemma pop_step_length (pop : list (agent T)) o : length (pop_step O pop o) = length pop.
Proof.
  destruct o as [draws|i k u|s d|draws|s d|s d|i0|i]; cbn.
  - apply mutation_round_length.
  - destruct (nth_error pop i); auto using upd_nth_length.
  - destruct (nth_error pop s); auto using upd_nth_length.
  - destruct pop; cbn; [reflexivity|]. rewrite mutation_round_length. reflexivity.
  - destruct (nth_error pop s); [destruct (nth_error pop d)|]; auto using upd_nth_length.
  - destruct (nth_error pop s); auto using upd_nth_length.
  - reflexivity.
  - destruct (nth_error pop i); auto using upd_nth_length.
Qed.

Lemma pop_run_length (ops : list (pop_op T)) : forall pop, length (pop_run O pop ops) = length pop.
Proof.
  unfold pop_run. induction ops as [|o ops IH]; intros pop; cbn; auto. rewrite IH. apply pop_step_length.
Qed.

(* mutating individual i leaves every other individual exactly as it was *)
Lemma mutone_others (pop : list (agent T)) i k u j :
  j <> i -> nth_error (pop_step O pop (MutOne i k u)) j = nth_error pop j.
Proof.
  intros H. cbn. destruct (nth_error pop i); [|reflexivity].
  rewrite upd_nth_nth. apply Nat.eqb_neq in H. rewrite H. reflexivity.
Qed.

(* a freshly built population (every cache empty, registry well formed, optimizers created with
   the attribute values) satisfies the invariant *)
Lemma fresh_inv (a : agent T) :
  wf_agent a = true -> (forall h, In h (a_hps a) -> hp_cache h = None) -> Coherent a -> Inv a.
Proof. intros W F C. split; [apply wf_agent_sound, W|split; [apply fresh_cache_ok, F|exact C]]. Qed.

(* after ANY history, in every individual, every optimizer param group runs with the individual's
   learning-rate attribute and the cache agrees with the attribute *)
Lemma history_inv (pop : list (agent T)) ops a :
  Forall Inv pop -> In a (pop_run O pop ops) -> Wf a /\ CacheOk a /\ Coherent a.
Proof. intros H Hin. apply (pop_run_inv ops pop) in H. rewrite Forall_forall in H. apply H, Hin. Qed.

(* the whole property in one statement: after ANY history on a population that started well formed,
   a hyperparameter mutation of individual i changes exactly the sampled attribute to the mutation of
   i's own current value, labels it, makes it the lr of every group of every optimizer registered with
   that name, leaves every optimizer coherent with the attributes, and leaves every other individual
   exactly as it was *)
Lemma property_after_any_history_lemma (pop : list (agent T)) ops i a k u h v :
  Forall Inv pop ->
  nth_error (pop_run O pop ops) i = Some a ->
  nth_error (a_hps a) k = Some h -> getv (a_vals a) (hp_name h) = Some v ->
  let a' := rl_hp_mutation O a k u in
  let nv := mutate_value O (hp_par h) u v in
  getv (a_vals a') (hp_name h) = Some nv /\
  (forall m, m <> hp_name h -> getv (a_vals a') m = getv (a_vals a) m) /\
  a_mut a' = Some (hp_name h) /\
  (forall o', In o' (a_opts a') -> o_cfg_lr o' = hp_name h ->
      o_wlr o' = nv /\ Forall (fun g => g = nv) (o_groups o')) /\
  Coherent a' /\
  nth_error (pop_step O (pop_run O pop ops) (MutOne i k u)) i = Some a' /\
  (forall j, j <> i ->
      nth_error (pop_step O (pop_run O pop ops) (MutOne i k u)) j = nth_error (pop_run O pop ops) j).
Proof.
  intros HI Hi Hk Hv a' nv.
  destruct (history_inv pop ops a HI (nth_error_In _ _ Hi)) as (W & C & Co).
  destruct (hp_mutation_result a k u h v W C Hk Hv) as (R1 & R2 & R3).
  destruct (lr_takes_effect_lemma a k u h v W C Hk Hv) as (L1 & _ & _).
  split; [exact R1|]. split; [exact R2|]. split; [exact R3|]. split; [exact L1|]. split; [|split].
  - apply (inv_rl_hp_mutation a k u). split; [exact W|split; assumption].
  - cbn. rewrite Hi. rewrite upd_nth_nth, Nat.eqb_refl.
    assert (i < length (pop_run O pop ops)) as Hlt by (apply nth_error_Some; congruence).
    apply Nat.ltb_lt in Hlt. rewrite Hlt. reflexivity.
  - intros j Hj. apply mutone_others, Hj.
Qed.

(* ---------------- the pinned behaviours violate the property ---------------- *)
End Agent.

(* (1) only the first optimizer re-created: a TD3-shaped registry (actor / critic_1 / critic_2, the
   critics sharing lr name 1), lr_critic mutated from 1/1000 by the grow factor 2 *)
Local Open Scope Q_scope.
Definition td3_like : agent Q :=
  {| a_vals := [(0%nat, 1 # 10000); (1%nat, 1 # 1000)];
     a_hps := [ {| hp_name := 1%nat;
                   hp_par := {| p_min := 1 # 10000; p_max := 1 # 100; p_shrink := 1 # 2; p_grow := 2; p_int := false |};
                   hp_cache := None |} ];
     a_opts := [ {| o_cfg_lr := 0%nat; o_lr_name := 0%nat; o_wlr := 1 # 10000; o_groups := [1 # 10000] |};
                 {| o_cfg_lr := 1%nat; o_lr_name := 1%nat; o_wlr := 1 # 1000; o_groups := [1 # 1000] |};
                 {| o_cfg_lr := 1%nat; o_lr_name := 1%nat; o_wlr := 1 # 1000; o_groups := [1 # 1000] |} ];
     a_mut := None |}.

Lemma td3_like_wf : wf_agent td3_like = true.
Proof. reflexivity. Qed.

Lemma first_only_refuted_lemma :
  let a' := rl_hp_mutation_first_only QOps td3_like 0 (3 # 4) in
  exists o lr, In o (a_opts a') /\ getv (a_vals a') (o_lr_name o) = Some lr /\ ~ o_wlr o == lr.
Proof.
  cbn zeta. eexists. eexists. split; [|split].
  - vm_compute. right. right. left. reflexivity.
  - vm_compute. reflexivity.
  - vm_compute. discriminate.
Qed.

(* the repaired code on the same input: every optimizer follows *)
Lemma all_reinit_on_td3_like :
  let a' := rl_hp_mutation QOps td3_like 0 (3 # 4) in
  forallb (fun o => match getv (a_vals a') (o_lr_name o) with
                    | Some lr => Qeq_bool (o_wlr o) lr && forallb (Qeq_bool lr) (o_groups o)
                    | None => false end) (a_opts a') = true.
Proof. vm_compute. reflexivity. Qed.

(* (2) one configuration object shared by the population: individual 1 (lr 1/1000) is mutated from the
   value cached by individual 0 (lr 1/500 -> 1/250), not from its own *)
Definition shared_cfg : list (hpent Q) :=
  [ {| hp_name := 0%nat;
       hp_par := {| p_min := 1 # 10000; p_max := 1 # 100; p_shrink := 1 # 2; p_grow := 2; p_int := false |};
       hp_cache := None |} ].
Definition two_agents : list (agent Q) :=
  [ {| a_vals := [(0%nat, 1 # 500)]; a_hps := []; a_opts := []; a_mut := None |};
    {| a_vals := [(0%nat, 1 # 1000)]; a_hps := []; a_opts := []; a_mut := None |} ].

Lemma shared_config_refuted_lemma :
  exists a1 own got,
    nth_error (snd (shared_round QOps shared_cfg two_agents [(0%nat, 3 # 4); (0%nat, 3 # 4)])) 1 = Some a1 /\
    nth_error two_agents 1 = Some own /\
    getv (a_vals a1) 0%nat = Some got /\
    match getv (a_vals own) 0%nat with
    | Some v => ~ got == mutate_value QOps (hp_par (hd (Build_hpent 0%nat (Build_param 0 0 0 0 false) None) shared_cfg)) (3 # 4) v
    | None => False end.
Proof.
  eexists. eexists. eexists. split; [|split; [|split]].
  - vm_compute. reflexivity.
  - vm_compute. reflexivity.
  - vm_compute. reflexivity.
  - vm_compute. discriminate.
Qed.

(* (3) one RLParam(eter) object configured as lr_actor (name 0) AND lr_critic (name 1) under the earlier
   cache-first code: lr_critic 1/100 is shrunk to 1/200, then lr_actor (own value 1/10000) is "grown" to 1/100 *)
Definition lr_par : param Q := {| p_min := 1 # 10000; p_max := 1 # 100; p_shrink := 1 # 2; p_grow := 2; p_int := false |}.
Definition aliased_agent : agent Q :=
  {| a_vals := [(0%nat, 1 # 10000); (1%nat, 1 # 100)];
     a_hps := [ {| hp_name := 0%nat; hp_par := lr_par; hp_cache := None |};
                {| hp_name := 1%nat; hp_par := lr_par; hp_cache := None |} ];
     a_opts := []; a_mut := None |}.

Lemma aliased_parameter_refuted_lemma :
  let a1 := aliased_mutation QOps aliased_agent 0 1 1 (1 # 4) in
  let a2 := aliased_mutation QOps a1 0 1 0 (3 # 4) in
  exists own got, getv (a_vals a1) 0%nat = Some own /\ getv (a_vals a2) 0%nat = Some got /\
                  ~ got == mutate_value QOps lr_par (3 # 4) own.
Proof.
  cbn zeta. eexists. eexists. split; [|split].
  - vm_compute. reflexivity.
  - vm_compute. reflexivity.
  - vm_compute. discriminate.
Qed.

(* the repaired code on the same two steps: lr_actor is mutated from its own value *)
Lemma own_attribute_on_aliased_agent :
  let a1 := rl_hp_mutation QOps aliased_agent 1 (1 # 4) in
  let a1' := with_hps a1 (alias_cache (a_hps a1) 1 0) in
  match getv (a_vals (rl_hp_mutation QOps a1' 0 (3 # 4))) 0%nat with
  | Some got => Qeq_bool got (mutate_value QOps lr_par (3 # 4) (1 # 10000))
  | None => false end = true.
Proof. vm_compute. reflexivity. Qed.

(* with per-individual copies (the current code) individual 1 starts from its own value *)
Lemma own_copies_on_two_agents :
  let pop := map (fun a => with_hps a shared_cfg) two_agents in
  match nth_error (mutation_round QOps pop [(0%nat, 3 # 4); (0%nat, 3 # 4)]) 1 with
  | Some a1 => match getv (a_vals a1) 0%nat with Some got => Qeq_bool got (1 # 500) | None => false end
  | None => false end = true.
Proof. vm_compute. reflexivity. Qed.

(* ---------------- ranges (rational instance) ---------------- *)
Definition RangesOk (a : agent Q) : Prop := forall h, In h (a_hps a) -> range_ok (hp_par h).
Definition InRange (a : agent Q) : Prop :=
  forall h v, In h (a_hps a) -> getv (a_vals a) (hp_name h) = Some v -> p_min (hp_par h) <= v <= p_max (hp_par h).

Lemma set_cache_pars (hps : list (hpent Q)) k c h' :
  In h' (set_cache hps k c) -> exists h, In h hps /\ hp_name h' = hp_name h /\ hp_par h' = hp_par h.
Proof.
  intros H. apply set_cache_in in H. destruct H as [(j & _ & E)|(h & E & ->)].
  - exists h'. split; [eapply nth_error_In; eauto|auto].
  - exists h. split; [eapply nth_error_In; eauto|auto].
Qed.

Lemma names_unique (hps : list (hpent Q)) h1 h2 :
  NoDup (map hp_name hps) -> In h1 hps -> In h2 hps -> hp_name h1 = hp_name h2 -> h1 = h2.
Proof.
  intros ND H1 H2 E. apply In_nth_error in H1, H2. destruct H1 as [i Hi], H2 as [j Hj].
  destruct (Nat.eq_dec i j) as [->|Hne]; [congruence|].
  exfalso. eapply (names_differ hps i j); eauto.
Qed.

Lemma ranges_in_range_mutation (a : agent Q) k u :
  Inv a -> RangesOk a -> InRange a ->
  RangesOk (rl_hp_mutation QOps a k u) /\ InRange (rl_hp_mutation QOps a k u).
Proof.
  intros (W & C & Co) R I.
  destruct (rl_hp_cases QOps a k u W C) as [(_ & ->)|[(_ & ->)|(h & v & Hk & Hv & ->)]]; auto.
  assert (In h (a_hps a)) as Hh by (eapply nth_error_In; eauto).
  unfold mutated. split.
  - intros h' Hin. cbn [a_hps] in Hin. apply set_cache_pars in Hin. destruct Hin as (h0 & Hin0 & _ & ->). apply R, Hin0.
  - intros h' w Hin Hw. cbn [a_hps a_vals] in Hin, Hw.
    apply set_cache_pars in Hin. destruct Hin as (h0 & Hin0 & En & Ep). rewrite Ep. rewrite En in Hw.
    destruct (Nat.eq_dec (hp_name h0) (hp_name h)) as [E|Hne].
    + assert (h0 = h) by (destruct W as (_ & ND & _); eapply names_unique; eauto). subst h0.
      rewrite getv_setv_same in Hw. injection Hw as <-. apply mutate_value_in_range, R, Hh.
    + rewrite getv_setv_other in Hw by exact Hne. apply (I h0 w Hin0 Hw).
Qed.

Definition RInv (a : agent Q) : Prop := Inv a /\ RangesOk a /\ InRange a.

Lemma rinv_rl_hp_mutation (a : agent Q) k u : RInv a -> RInv (rl_hp_mutation QOps a k u).
Proof.
  intros (I & R & G). split; [apply inv_rl_hp_mutation, I|apply ranges_in_range_mutation; assumption].
Qed.

Lemma rinv_round (pop : list (agent Q)) draws : Forall RInv pop -> Forall RInv (mutation_round QOps pop draws).
Proof.
  intros H. revert draws; induction H as [|a pop Ha Hp IH]; intros [|[k u] draws]; cbn; auto.
  constructor; [apply rinv_rl_hp_mutation; exact Ha|apply IH].
Qed.

Lemma rinv_pop_step (pop : list (agent Q)) o : Forall RInv pop -> Forall RInv (pop_step QOps pop o).
Proof.
  intros H. destruct o as [draws|i k u|s d|draws|s d|s d|i0|i]; cbn.
  - apply rinv_round; exact H.
  - destruct (nth_error pop i) as [a|] eqn:E; [|exact H].
    apply upd_nth_Forall; [exact H|]. apply rinv_rl_hp_mutation.
    rewrite Forall_forall in H. apply H. eapply nth_error_In; eauto.
  - destruct (nth_error pop s) as [a|] eqn:E; [|exact H].
    apply upd_nth_Forall; [exact H|]. rewrite Forall_forall in H. apply H. eapply nth_error_In; eauto.
  - destruct H as [|a rest Ha Hr]; constructor; [|apply rinv_round; exact Hr].
    destruct Ha as ((W & C & Co) & R & G). split; [split; [exact W|split; [exact C|exact Co]]|split; [exact R|exact G]].
  - destruct (nth_error pop s) as [a|] eqn:E; [|exact H].
    destruct (nth_error pop d) as [b|] eqn:E2; [|exact H].
    apply upd_nth_Forall; [exact H|].
    rewrite Forall_forall in H. destruct (H a (nth_error_In _ _ E)) as (I & R & G).
    split; [apply inv_loaded_into, I|split; [exact R|exact G]].
  - destruct (nth_error pop s) as [a|] eqn:E; [|exact H].
    apply upd_nth_Forall; [exact H|].
    rewrite Forall_forall in H. destruct (H a (nth_error_In _ _ E)) as (I & R & G).
    split; [apply inv_loaded_into, I|split; [exact R|exact G]].
  - exact H.
  - destruct (nth_error pop i) as [a|] eqn:E; [|exact H].
    apply upd_nth_Forall; [exact H|].
    rewrite Forall_forall in H. destruct (H a (nth_error_In _ _ E)) as (I & R & G).
    split; [apply inv_other_mutation, I|split; [exact R|exact G]].
Qed.

(* every configured hyperparameter of every individual stays inside its range over any history *)
Lemma population_drift_bounded (ops : list (pop_op Q)) : forall pop,
  Forall RInv pop -> Forall RInv (pop_run QOps pop ops).
Proof.
  unfold pop_run. induction ops as [|o ops IH]; intros pop H; cbn; auto. apply IH, rinv_pop_step, H.
Qed.
