(* C06 — executable model of hyperparameter mutation:
     agilerl.algorithms.core.registry.RLParam(eter).mutate / HyperparameterConfig.sample,
     agilerl.hpo.mutation.Mutations.rl_hyperparam_mutation / reinit_opt / mutation (rl_hp only),
     the per-individual copy of the configuration made in EvolvableAlgorithm.__init__,
     the attribute check of _registry_init, and clone() as far as hyperparameters are concerned.
   Model only (no proofs) so that it still runs when a proof breaks.
   The model is generic in the number carrier: the Q instance is what the theorems are about,
   the PrimFloat (binary64) instance is bit-exact with CPython floats and is used by the
   correspondence check. *)
From Coq Require Import List Arith Bool ZArith QArith Qround PrimFloat.
Import ListNotations.
Close Scope Q_scope.
Open Scope nat_scope.

(* ------------------------------------------------------------------------------------------ *)
(* number carrier                                                                              *)
(* ------------------------------------------------------------------------------------------ *)
Record numops (T : Type) := {
  n_mul : T -> T -> T;        (* Python  a * b                                  *)
  n_ltb : T -> T -> bool;     (* Python  a < b   (a > b is  n_ltb b a)          *)
  n_trunc : T -> T;           (* Python  int(a)  (truncation toward zero)       *)
  n_half : T                  (* the constant 0.5 of  torch.rand(1).item() < 0.5 *)
}.
Arguments n_mul {T}. Arguments n_ltb {T}. Arguments n_trunc {T}. Arguments n_half {T}.

(* ------------------------------------------------------------------------------------------ *)
(* value level: RLParam(eter)                                                                    *)
(* ------------------------------------------------------------------------------------------ *)
Section Value.
Context {T : Type} (O : numops T).

Record param := { p_min : T; p_max : T; p_shrink : T; p_grow : T; p_int : bool (* dtype is int *) }.

(* builtin max(a, b) returns a unless b > a; min(a, b) returns a unless b < a *)
Definition pymax (a b : T) : T := if n_ltb O a b then b else a.
Definition pymin (a b : T) : T := if n_ltb O b a then b else a.

(* the coin: shrink iff the uniform draw is < 0.5 *)
Definition coin_shrink (u : T) : bool := n_ltb O u (n_half O).

(* RLParam(eter).mutate up to (and including) the final  min(max(new_value, self.min), self.max) *)
Definition mutate_raw (p : param) (u v : T) : T :=
  let nv :=
    if coin_shrink u then
      (if n_ltb O (p_min p) (n_mul O v (p_shrink p))      (* value*shrink > min *)
       then n_mul O v (p_shrink p) else p_min p)
    else
      (if n_ltb O (n_mul O v (p_grow p)) (p_max p)        (* value*grow < max *)
       then n_mul O v (p_grow p) else p_max p) in
  pymin (pymax nv (p_min p)) (p_max p).

(* self.value = self.dtype(new_value) *)
Definition cast (p : param) (x : T) : T := if p_int p then n_trunc O x else x.

Definition mutate_value (p : param) (u v : T) : T := cast p (mutate_raw p u v).

(* repeated mutate() on one RLParam(eter) object: value after every call *)
Fixpoint mutate_seq (p : param) (v : T) (us : list T) : list T :=
  match us with
  | [] => []
  | u :: us' => let v' := mutate_value p u v in v' :: mutate_seq p v' us'
  end.

Definition mutate_last (p : param) (v : T) (us : list T) : T :=
  fold_left (fun x u => mutate_value p u x) us v.

(* which branch fired (for the coverage histogram): 0 scaled, 1 clipped low, 2 clipped high *)
Definition branch_of (p : param) (u v : T) : nat :=
  if coin_shrink u then (if n_ltb O (p_min p) (n_mul O v (p_shrink p)) then 0 else 1)
  else (if n_ltb O (n_mul O v (p_grow p)) (p_max p) then 0 else 2).

(* ---------------------------------------------------------------------------------------- *)
(* agent level                                                                               *)
(* ---------------------------------------------------------------------------------------- *)
Definition name := nat.    (* attribute names are numbered by the harness *)

(* one entry of the individual's HyperparameterConfig: the RLParam(eter) with its cached value *)
Record hpent := { hp_name : name; hp_par : param; hp_cache : option T }.

(* one OptimizerConfig of the registry together with the OptimizerWrapper stored on the agent *)
Record optim := {
  o_cfg_lr : name;       (* OptimizerConfig.lr : the name rl_hyperparam_mutation matches on   *)
  o_lr_name : name;      (* OptimizerWrapper.lr_name : the attribute reinit_opt reads         *)
  o_wlr : T;             (* OptimizerWrapper.lr                                               *)
  o_groups : list T      (* lr of every param_group of every torch optimizer in the wrapper   *)
}.

Record agent := {
  a_vals : list (name * T);      (* attributes of the agent (hyperparameters)                *)
  a_hps : list hpent;            (* registry.hp_config — the individual's OWN copy            *)
  a_opts : list optim;           (* registry.optimizers, in registration order                *)
  a_mut : option name            (* agent.mut: Some attr, or None for the label "None"        *)
}.

Fixpoint getv (vals : list (name * T)) (n : name) : option T :=
  match vals with
  | [] => None
  | (m, v) :: r => if Nat.eqb m n then Some v else getv r n
  end.

(* setattr: overwrite the attribute (create it if absent) *)
Fixpoint setv (vals : list (name * T)) (n : name) (x : T) : list (name * T) :=
  match vals with
  | [] => [(n, x)]
  | (m, v) :: r => if Nat.eqb m n then (m, x) :: r else (m, v) :: setv r n x
  end.

Fixpoint set_cache (hps : list hpent) (k : nat) (c : T) : list hpent :=
  match hps, k with
  | [], _ => []
  | h :: r, 0 => {| hp_name := hp_name h; hp_par := hp_par h; hp_cache := Some c |} :: r
  | h :: r, S k' => h :: set_cache r k' c
  end.

(* reinit_opt(individual, optimizer=config): a new OptimizerWrapper over the same networks with
   lr = getattr(individual, opt.lr_name); every param group of every optimizer gets that lr *)
Definition reinit_opt (vals : list (name * T)) (o : optim) : optim :=
  match getv vals (o_lr_name o) with
  | Some lr => {| o_cfg_lr := o_cfg_lr o; o_lr_name := o_lr_name o; o_wlr := lr;
                  o_groups := map (fun _ => lr) (o_groups o) |}
  | None => o     (* AttributeError in the code; excluded by wf_agent *)
  end.

(* the loop over [cfg for cfg in registry.optimizers if mutate_attr == cfg.lr] *)
Definition reinit_matching (vals : list (name * T)) (n : name) (opts : list optim) : list optim :=
  map (fun o => if Nat.eqb n (o_cfg_lr o) then reinit_opt vals o else o) opts.

(* Mutations.rl_hyperparam_mutation; k = torch.randperm(len(config))[0], u = torch.rand(1).item() *)
Definition rl_hp_mutation (a : agent) (k : nat) (u : T) : agent :=
  match a_hps a with
  | [] => {| a_vals := a_vals a; a_hps := a_hps a; a_opts := a_opts a; a_mut := None |}
  | _ =>
    match nth_error (a_hps a) k with
    | None => a                                          (* unreachable: k < len(config) *)
    | Some h =>
      let n := hp_name h in
      (* mutate_param.value = getattr(individual, mutate_attr): the individual's own attribute is the base; the
         value kept in the configuration is only a cache of it (repaired semantics, fixes/C06-mutate-from-own-attribute;
         the earlier code read the cache when it was non-empty — the same value on every history that satisfies
         CacheOk, a stale one when an RLParam(eter) object is aliased or the configuration comes from another agent) *)
      let base := getv (a_vals a) n in
      match base with
      | None => a                                        (* AttributeError; excluded by wf_agent *)
      | Some v =>
        let nv := mutate_value (hp_par h) u v in
        let vals' := setv (a_vals a) n nv in
        {| a_vals := vals';
           a_hps := set_cache (a_hps a) k nv;
           a_opts := reinit_matching vals' n (a_opts a);  (* no-op unless n is an lr name *)
           a_mut := Some n |}
      end
    end
  end.

(* Mutations.mutation(population) with rl_hp the only option: agent i gets draws (k_i, u_i).
   The re-creation of shared networks and the mutation hook that follow do not touch
   hyperparameters, optimizers' learning rates or the label. *)
Fixpoint mutation_round (pop : list agent) (draws : list (nat * T)) : list agent :=
  match pop, draws with
  | a :: pop', (k, u) :: draws' => rl_hp_mutation a k u :: mutation_round pop' draws'
  | _, _ => pop
  end.

(* population-level operations *)
Inductive pop_op :=
| Round (draws : list (nat * T))       (* one Mutations.mutation call                           *)
| MutOne (i k : nat) (u : T)           (* rl_hyperparam_mutation on individual i only            *)
| Clone (src dst : nat)                (* population[dst] = population[src].clone()              *)
| RoundKeepElite (draws : list (nat * T))   (* Mutations(mutate_elite=False).mutation: member 0 gets no_mutation
                                               (label "None", nothing else), members 1.. are mutated with their draws *)
| LoadInto (src dst : nat)             (* population[src].save_checkpoint(f); population[dst].load_checkpoint(f) *)
| LoadNew (src dst : nat)              (* population[src].save_checkpoint(f); population[dst] = Algo.load(f)      *)
| Learn (i : nat)                      (* agent.learn(batch): touches no hyperparameter, optimizer lr or label *)
| OtherMut (i : nat).                  (* architecture / parameter / activation mutation of individual i:
                                          hyperparameters are not touched, reinit_opt(individual) re-creates
                                          EVERY optimizer with its own lr attribute; the label is not modelled *)

Fixpoint upd_nth {X} (l : list X) (i : nat) (x : X) : list X :=
  match l, i with
  | [], _ => []
  | _ :: r, 0 => x :: r
  | h :: r, S j => h :: upd_nth r j x
  end.

Definition other_mutation (a : agent) : agent :=
  {| a_vals := a_vals a; a_hps := a_hps a; a_opts := map (reinit_opt (a_vals a)) (a_opts a); a_mut := None |}.

(* load_checkpoint, in place: attributes (incl. the label), the registry with its cached values and the
   optimizer state (param groups with their lr) all come from the checkpoint of [src]; only the wrapper's
   own lr field is read from the loader's attribute BEFORE the attributes are restored (cosmetic: no param
   group uses it) *)
Definition loaded_into (src dst : agent) : agent :=
  {| a_vals := a_vals src; a_hps := a_hps src;
     a_opts := map (fun o => {| o_cfg_lr := o_cfg_lr o; o_lr_name := o_lr_name o;
                                o_wlr := match getv (a_vals dst) (o_lr_name o) with Some v => v | None => o_wlr o end;
                                o_groups := o_groups o |}) (a_opts src);
     a_mut := a_mut src |}.

Definition pop_step (pop : list agent) (o : pop_op) : list agent :=
  match o with
  | Round draws => mutation_round pop draws
  | MutOne i k u => match nth_error pop i with
                    | Some a => upd_nth pop i (rl_hp_mutation a k u)
                    | None => pop end
  | Clone s d => match nth_error pop s with
                 | Some a => upd_nth pop d a        (* deep copy: same values, own registry *)
                 | None => pop end
  | RoundKeepElite draws => match pop with
                            | [] => []
                            | a :: rest => {| a_vals := a_vals a; a_hps := a_hps a; a_opts := a_opts a; a_mut := None |}
                                           :: mutation_round rest draws
                            end
  | LoadInto s d => match nth_error pop s, nth_error pop d with
                    | Some a, Some b => upd_nth pop d (loaded_into a b)
                    | _, _ => pop end
  | LoadNew s d => match nth_error pop s with
                   | Some a => upd_nth pop d (loaded_into a a)   (* the new agent is constructed from the saved attributes *)
                   | None => pop end
  | Learn _ => pop
  | OtherMut i => match nth_error pop i with
                  | Some a => upd_nth pop i (other_mutation a)
                  | None => pop end
  end.

Definition pop_run (pop : list agent) (ops : list pop_op) : list agent := fold_left pop_step ops pop.

(* what _registry_init / the optimizer registration guarantee, computed on the registry the
   harness extracts from the real agent *)
Definition has_attr (vals : list (name * T)) (n : name) : bool :=
  match getv vals n with Some _ => true | None => false end.

Fixpoint nodupb (l : list name) : bool :=
  match l with [] => true | x :: r => negb (existsb (Nat.eqb x) r) && nodupb r end.

(* _registry_init: every configured hyperparameter must be an attribute, else AttributeError *)
Definition registry_init_ok (vals : list (name * T)) (hps : list hpent) : bool :=
  forallb (fun h => has_attr vals (hp_name h)) hps.

Definition wf_agent (a : agent) : bool :=
  forallb (fun h => has_attr (a_vals a) (hp_name h)) (a_hps a)      (* _registry_init *)
  && nodupb (map hp_name (a_hps a))                                  (* config is a dict *)
  && forallb (fun o => Nat.eqb (o_cfg_lr o) (o_lr_name o) && has_attr (a_vals a) (o_lr_name o)) (a_opts a).

(* ---------------------------------------------------------------------------------------- *)
(* models of the PINNED (pre-fix) behaviour, kept for the ..._refuted theorems                *)
(* ---------------------------------------------------------------------------------------- *)
(* (1) only the first optimizer with the mutated lr name was re-created *)
Fixpoint reinit_first (vals : list (name * T)) (n : name) (opts : list optim) : list optim :=
  match opts with
  | [] => []
  | o :: r => if Nat.eqb n (o_cfg_lr o) then reinit_opt vals o :: r else o :: reinit_first vals n r
  end.

Definition rl_hp_mutation_first_only (a : agent) (k : nat) (u : T) : agent :=
  let a' := rl_hp_mutation a k u in
  match a_mut a' with
  | Some n => {| a_vals := a_vals a'; a_hps := a_hps a';
                 a_opts := reinit_first (a_vals a') n (a_opts a); a_mut := a_mut a' |}
  | None => a'
  end.

(* (2) the earlier rl_hyperparam_mutation: the cached value, when there is one, is the base *)
Definition rl_hp_mutation_cache_first (a : agent) (k : nat) (u : T) : agent :=
  match a_hps a with
  | [] => {| a_vals := a_vals a; a_hps := a_hps a; a_opts := a_opts a; a_mut := None |}
  | _ =>
    match nth_error (a_hps a) k with
    | None => a
    | Some h =>
      let n := hp_name h in
      let base := match hp_cache h with
                  | Some c => Some c                     (* value cached by an earlier mutation *)
                  | None => getv (a_vals a) n            (* getattr(individual, mutate_attr)    *)
                  end in
      match base with
      | None => a
      | Some v =>
        let nv := mutate_value (hp_par h) u v in
        let vals' := setv (a_vals a) n nv in
        {| a_vals := vals';
           a_hps := set_cache (a_hps a) k nv;
           a_opts := reinit_matching vals' n (a_opts a);
           a_mut := Some n |}
      end
    end
  end.

(* one RLParam(eter) object configured under two names (positions i and j of the configuration): writing the
   cache of one writes the cache of the other *)
Definition alias_cache (hps : list hpent) (i j : nat) : list hpent :=
  match nth_error hps i with
  | Some h => match hp_cache h with Some c => set_cache hps j c | None => hps end
  | None => hps
  end.
Definition aliased_mutation (a : agent) (i j k : nat) (u : T) : agent :=
  let a' := rl_hp_mutation_cache_first a k u in
  {| a_vals := a_vals a'; a_opts := a_opts a'; a_mut := a_mut a';
     a_hps := if Nat.eqb k i then alias_cache (a_hps a') i j else if Nat.eqb k j then alias_cache (a_hps a') j i else a_hps a' |}.

(* (3) one HyperparameterConfig object shared by the whole initial population: the cache lives
   outside the individuals *)
Definition with_hps (a : agent) (hps : list hpent) : agent :=
  {| a_vals := a_vals a; a_hps := hps; a_opts := a_opts a; a_mut := a_mut a |}.

Fixpoint shared_round (shared : list hpent) (pop : list agent) (draws : list (nat * T))
  : list hpent * list agent :=
  match pop, draws with
  | a :: pop', (k, u) :: draws' =>
      let a' := rl_hp_mutation_cache_first (with_hps a shared) k u in
      let '(sh, rest) := shared_round (a_hps a') pop' draws' in
      (sh, a' :: rest)
  | _, _ => (shared, pop)
  end.
End Value.

Arguments param : clear implicits.
Arguments hpent : clear implicits.
Arguments optim : clear implicits.
Arguments agent : clear implicits.
Arguments pop_op : clear implicits.
Arguments Build_param {T}.
Arguments Build_hpent {T}.
Arguments Build_optim {T}.
Arguments Build_agent {T}.
Arguments Round {T}. Arguments MutOne {T}. Arguments Clone {T}. Arguments OtherMut {T}. Arguments Learn {T}. Arguments LoadInto {T}. Arguments LoadNew {T}. Arguments RoundKeepElite {T}.
Arguments p_min {T}. Arguments p_max {T}. Arguments p_shrink {T}. Arguments p_grow {T}. Arguments p_int {T}.
Arguments hp_name {T}. Arguments hp_par {T}. Arguments hp_cache {T}.
Arguments o_cfg_lr {T}. Arguments o_lr_name {T}. Arguments o_wlr {T}. Arguments o_groups {T}.
Arguments a_vals {T}. Arguments a_hps {T}. Arguments a_opts {T}. Arguments a_mut {T}.
Arguments getv {T}. Arguments setv {T}. Arguments set_cache {T}. Arguments has_attr {T}.
Arguments wf_agent {T}. Arguments with_hps {T}. Arguments registry_init_ok {T}.

(* ------------------------------------------------------------------------------------------ *)
(* instance 1: exact rationals (theorems)                                                      *)
(* ------------------------------------------------------------------------------------------ *)
Definition Qltb (a b : Q) : bool := if Qlt_le_dec a b then true else false.
Definition qtrunc (x : Q) : Z := if Qlt_le_dec x 0%Q then Qceiling x else Qfloor x.   (* int(x) *)
Definition QOps : numops Q :=
  {| n_mul := Qmult; n_ltb := Qltb; n_trunc := fun x => inject_Z (qtrunc x); n_half := (1 # 2)%Q |}.

(* ------------------------------------------------------------------------------------------ *)
(* instance 2: binary64 (correspondence check; bit-exact with CPython float arithmetic)        *)
(* ------------------------------------------------------------------------------------------ *)
Definition two52 : float := 0x1p52%float.
(* floor of a non-negative float: below 2^52, x + 2^52 is rounded to an integer (ties to even),
   the subtraction is exact, and one unit is taken back when the rounding went up *)
Definition ffloor_pos (x : float) : float :=
  if PrimFloat.ltb x two52
  then let r := PrimFloat.sub (PrimFloat.add x two52) two52 in
       if PrimFloat.ltb x r then PrimFloat.sub r 1%float else r
  else x.
(* float(int(x)) for finite x *)
Definition ftrunc (x : float) : float :=
  if PrimFloat.ltb x 0%float then PrimFloat.opp (ffloor_pos (PrimFloat.opp x)) else ffloor_pos x.
Definition FOps : numops float :=
  {| n_mul := PrimFloat.mul; n_ltb := PrimFloat.ltb; n_trunc := ftrunc; n_half := 0.5%float |}.
