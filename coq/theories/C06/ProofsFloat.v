(* C06 — the range statement for carriers that only offer an irreflexive "<", in particular binary64.
   This narrows the gap between the rational theorems and the float code that actually runs:
   for a float-typed hyperparameter the BINARY64 result of mutate() is never below min nor above max. *)
From Coq Require Import List Bool ZArith Floats.
Import ListNotations.
From AgileV Require Import C06.Model.

Section Generic.
Context {T : Type} (O : numops T).
Hypothesis ltb_irrefl : forall x, n_ltb O x x = false.

Lemma mutate_raw_in_range_generic (p : param T) (u v : T) :
  n_ltb O (p_max p) (p_min p) = false ->
  n_ltb O (mutate_raw O p u v) (p_min p) = false /\ n_ltb O (p_max p) (mutate_raw O p u v) = false.
Proof.
  intros H. unfold mutate_raw, pymin, pymax.
  set (nv := if coin_shrink O u then _ else _). clearbody nv.
  destruct (n_ltb O nv (p_min p)) eqn:E1.
  - destruct (n_ltb O (p_max p) (p_min p)) eqn:E2; [discriminate|].
    split; [apply ltb_irrefl|exact E2].
  - destruct (n_ltb O (p_max p) nv) eqn:E2.
    + split; [exact H|apply ltb_irrefl].
    + split; [exact E1|exact E2].
Qed.

(* over any number of successive mutations of a float-typed hyperparameter *)
Lemma mutate_seq_in_range_generic (p : param T) : p_int p = false -> n_ltb O (p_max p) (p_min p) = false ->
  forall us v, Forall (fun r => n_ltb O r (p_min p) = false /\ n_ltb O (p_max p) r = false) (mutate_seq O p v us).
Proof.
  intros Hf H us. induction us as [|u us IH]; intros v; cbn [mutate_seq]; constructor.
  - unfold mutate_value, cast. rewrite Hf. apply mutate_raw_in_range_generic, H.
  - apply IH.
Qed.
End Generic.

(* binary64 "<" is irreflexive (from the specification of PrimFloat.ltb in the standard library) *)
Lemma SFcompare_refl_not_lt s : SFcompare s s <> Some Lt.
Proof.
  destruct s as [b|b| |b m e]; cbn; try discriminate.
  - destruct b; discriminate.
  - rewrite Z.compare_refl, Pos.compare_cont_refl. destruct b; discriminate.
Qed.

Lemma float_ltb_irrefl (x : float) : PrimFloat.ltb x x = false.
Proof.
  rewrite ltb_spec. unfold SFltb. pose proof (SFcompare_refl_not_lt (Prim2SF x)) as H.
  destruct (SFcompare (Prim2SF x) (Prim2SF x)) as [[| |]|]; try reflexivity. congruence.
Qed.

Lemma float_mutate_in_range_lemma (p : param float) (u v : float) :
  p_int p = false -> PrimFloat.ltb (p_max p) (p_min p) = false ->
  PrimFloat.ltb (mutate_value FOps p u v) (p_min p) = false /\
  PrimFloat.ltb (p_max p) (mutate_value FOps p u v) = false.
Proof.
  intros Hf H. unfold mutate_value, cast. rewrite Hf.
  apply (mutate_raw_in_range_generic FOps float_ltb_irrefl p u v H).
Qed.

Lemma float_drift_bounded_lemma (p : param float) :
  p_int p = false -> PrimFloat.ltb (p_max p) (p_min p) = false ->
  forall us v, Forall (fun r => PrimFloat.ltb r (p_min p) = false /\ PrimFloat.ltb (p_max p) r = false)
                      (mutate_seq FOps p v us).
Proof. intros Hf H. apply (mutate_seq_in_range_generic FOps float_ltb_irrefl p Hf H). Qed.
