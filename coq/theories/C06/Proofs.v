(* C06 — value level: RLParam(eter).mutate on the rational instance. *)
From Coq Require Import List Arith Bool ZArith QArith Qround Lia Lqa.
Import ListNotations.
From AgileV Require Import C06.Model.
Local Open Scope Q_scope.

(* the specification the property text gives: scale by the factor the coin selects, clip, convert *)
Definition factor (p : param Q) (u : Q) : Q := if Qlt_le_dec u (1 # 2) then p_shrink p else p_grow p.
Definition clipQ (mn mx x : Q) : Q := if Qlt_le_dec x mn then mn else if Qlt_le_dec mx x then mx else x.
Definition castQ (p : param Q) (x : Q) : Q := if p_int p then inject_Z (qtrunc x) else x.

(* a well-formed range; integer-typed hyperparameters have integer bounds *)
Definition range_ok (p : param Q) : Prop :=
  p_min p <= p_max p /\
  (p_int p = true -> exists a b : Z, p_min p == inject_Z a /\ p_max p == inject_Z b).

Ltac dec_all :=
  repeat match goal with
  | |- context [Qlt_le_dec ?a ?b] => destruct (Qlt_le_dec a b)
  | H : context [Qlt_le_dec ?a ?b] |- _ => destruct (Qlt_le_dec a b)
  end.

Lemma mutate_raw_in_range (p : param Q) u v :
  p_min p <= p_max p -> p_min p <= mutate_raw QOps p u v <= p_max p.
Proof.
  intros H. unfold mutate_raw, pymin, pymax, coin_shrink. cbn [QOps n_ltb n_mul n_half]. unfold Qltb.
  set (a := v * p_shrink p). set (b := v * p_grow p). clearbody a b.
  dec_all; lra.
Qed.

Lemma mutate_raw_is_scaled_clip (p : param Q) u v :
  p_min p <= p_max p ->
  mutate_raw QOps p u v == clipQ (p_min p) (p_max p) (v * factor p u).
Proof.
  intros H. unfold mutate_raw, pymin, pymax, coin_shrink, clipQ, factor.
  cbn [QOps n_ltb n_mul n_half]. unfold Qltb.
  destruct (Qlt_le_dec u (1 # 2)).
  - set (a := v * p_shrink p). clearbody a. dec_all; lra.
  - set (b := v * p_grow p). clearbody b. dec_all; lra.
Qed.

(* int(x) stays between integer bounds *)
Lemma int_cast_in_range (mn mx : Z) (x : Q) :
  inject_Z mn <= x <= inject_Z mx -> (mn <= qtrunc x <= mx)%Z.
Proof.
  intros [H1 H2]. unfold qtrunc. destruct (Qlt_le_dec x 0).
  - split.
    + apply Qceiling_resp_le in H1. rewrite Qceiling_Z in H1. exact H1.
    + pose proof (Qceiling_lt x). assert (inject_Z (Qceiling x - 1) < inject_Z mx) by lra.
      rewrite <- Zlt_Qlt in H0. lia.
  - split.
    + pose proof (Qlt_floor x). assert (inject_Z mn < inject_Z (Qfloor x + 1)) by lra.
      rewrite <- Zlt_Qlt in H0. lia.
    + apply Qfloor_resp_le in H2. rewrite Qfloor_Z in H2. exact H2.
Qed.

Lemma qtrunc_comp x y : x == y -> qtrunc x = qtrunc y.
Proof.
  intros E. unfold qtrunc. destruct (Qlt_le_dec x 0), (Qlt_le_dec y 0); try lra.
  - apply Qceiling_comp; exact E.
  - apply Qfloor_comp; exact E.
Qed.

(* truncation moves toward zero by less than one *)
Lemma qtrunc_near x : inject_Z (qtrunc x) - 1 < x /\ x < inject_Z (qtrunc x) + 1.
Proof.
  unfold qtrunc. destruct (Qlt_le_dec x 0).
  - pose proof (Qceiling_lt x) as A. pose proof (Qle_ceiling x) as B.
    unfold Z.sub in A. rewrite inject_Z_plus, inject_Z_opp in A. change (inject_Z 1) with 1 in A. lra.
  - pose proof (Qlt_floor x) as A. pose proof (Qfloor_le x) as B.
    rewrite inject_Z_plus in A. change (inject_Z 1) with 1 in A. lra.
Qed.

Lemma cast_is_castQ (p : param Q) x : cast QOps p x = castQ p x.
Proof. reflexivity. Qed.

Lemma castQ_comp (p : param Q) x y : x == y -> castQ p x == castQ p y.
Proof.
  intros E. unfold castQ. destruct (p_int p); [|exact E].
  rewrite (qtrunc_comp x y E). reflexivity.
Qed.

Lemma mutate_value_in_range (p : param Q) u v :
  range_ok p -> p_min p <= mutate_value QOps p u v <= p_max p.
Proof.
  intros [H Hint]. unfold mutate_value. rewrite cast_is_castQ. unfold castQ.
  pose proof (mutate_raw_in_range p u v H) as R.
  destruct (p_int p) eqn:E; [|exact R].
  destruct (Hint eq_refl) as (a & b & Ha & Hb).
  assert (inject_Z a <= mutate_raw QOps p u v <= inject_Z b) as R' by (rewrite <- Ha, <- Hb; exact R).
  apply int_cast_in_range in R'. destruct R' as [R1 R2].
  rewrite Ha, Hb. split; rewrite <- Zle_Qle; assumption.
Qed.

Lemma mutate_value_is_cast_clip (p : param Q) u v :
  p_min p <= p_max p ->
  mutate_value QOps p u v == castQ p (clipQ (p_min p) (p_max p) (v * factor p u)).
Proof.
  intros H. unfold mutate_value. rewrite cast_is_castQ.
  apply castQ_comp. apply mutate_raw_is_scaled_clip; exact H.
Qed.

(* the result is an integer when the dtype is int *)
Lemma mutate_value_integral (p : param Q) u v :
  p_int p = true -> exists z : Z, mutate_value QOps p u v = inject_Z z.
Proof. intros E. unfold mutate_value, cast. rewrite E. cbn. eexists; reflexivity. Qed.

(* float dtype: the mutation is the identity only when the clip brings the value back *)
Lemma mutate_value_float_effect (p : param Q) u v :
  p_int p = false -> p_min p <= p_max p -> p_min p <= v <= p_max p ->
  ~ v * factor p u == v -> p_min p < v * factor p u < p_max p ->
  ~ mutate_value QOps p u v == v.
Proof.
  intros E H Hv Hne Hin Heq.
  rewrite (mutate_value_is_cast_clip p u v H) in Heq. unfold castQ in Heq. rewrite E in Heq.
  unfold clipQ in Heq. dec_all; lra.
Qed.

(* drift: any number of successive mutations keeps the value inside the range *)
Lemma mutate_seq_in_range (p : param Q) : range_ok p ->
  forall us v, Forall (fun r => p_min p <= r <= p_max p) (mutate_seq QOps p v us).
Proof.
  intros R us. induction us as [|u us IH]; intros v; cbn [mutate_seq]; constructor.
  - apply mutate_value_in_range; exact R.
  - apply IH.
Qed.

Lemma mutate_last_in_range (p : param Q) : range_ok p ->
  forall us v, p_min p <= v <= p_max p -> p_min p <= mutate_last QOps p v us <= p_max p.
Proof.
  intros R us. unfold mutate_last. induction us as [|u us IH]; intros v Hv; cbn [fold_left].
  - exact Hv.
  - apply IH. apply mutate_value_in_range; exact R.
Qed.

Lemma mutate_last_in_range_after_one (p : param Q) : range_ok p ->
  forall us v, us <> [] -> p_min p <= mutate_last QOps p v us <= p_max p.
Proof.
  intros R [|u us] v Hne; [congruence|]. unfold mutate_last. cbn [fold_left].
  apply (mutate_last_in_range p R us). apply mutate_value_in_range; exact R.
Qed.

(* the integer-bounds hypothesis is needed: min = 3/2, int dtype, the clipped value 3/2 truncates to 1 *)
Definition frac_min_param : param Q :=
  {| p_min := 3 # 2; p_max := 10; p_shrink := 1 # 2; p_grow := 2; p_int := true |}.
Lemma int_cast_refuted_for_fractional_min :
  mutate_value QOps frac_min_param (1 # 4) 2 < p_min frac_min_param.
Proof. vm_compute. reflexivity. Qed.
