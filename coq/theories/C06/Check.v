(* C06 — boolean comparison of the model with observations of the implementation (used by K only). *)
From Coq Require Import List Arith Bool ZArith QArith PrimFloat.
Import ListNotations.
From AgileV Require Import C06.Model.
Close Scope Q_scope.
Open Scope nat_scope.

Fixpoint list_eqb {X} (eqb : X -> X -> bool) (a b : list X) : bool :=
  match a, b with
  | [], [] => true
  | x :: a', y :: b' => eqb x y && list_eqb eqb a' b'
  | _, _ => false
  end.
Fixpoint all2 {X Y} (f : X -> Y -> bool) (a : list X) (b : list Y) : bool :=
  match a, b with
  | [], [] => true
  | x :: a', y :: b' => f x y && all2 f a' b'
  | _, _ => false
  end.
Definition opt_eqb {X} (eqb : X -> X -> bool) (a b : option X) : bool :=
  match a, b with Some x, Some y => eqb x y | None, None => true | _, _ => false end.

(* binary64 equality; the harness never produces NaN, and -0.0 = 0.0 is what Python's == says too *)
Definition feqb : float -> float -> bool := PrimFloat.eqb.

(* ---- value level ---- *)
(* results of successive RLParam(eter).mutate() calls, bit for bit *)
Definition check_value_f (p : param float) (v0 : float) (us rs : list float) : bool :=
  list_eqb feqb (mutate_seq FOps p v0 us) rs.

(* the same on the rational instance, for cases whose float arithmetic the harness has verified to be exact *)
Definition check_value_q (p : param Q) (v0 : Q) (us rs : list Q) : bool :=
  list_eqb Qeq_bool (mutate_seq QOps p v0 us) rs.

(* independent points (current value, draw, observed result) on one configuration *)
Definition check_points_f (p : param float) (pts : list (float * float * float)) : bool :=
  forallb (fun t => let '(v, u, r) := t in feqb (mutate_value FOps p u v) r) pts.
Definition check_points_q (p : param Q) (pts : list (Q * Q * Q)) : bool :=
  forallb (fun t => let '(v, u, r) := t in Qeq_bool (mutate_value QOps p u v) r) pts.

(* branch taken by the model at each call (0 scaled / 1 clipped low / 2 clipped high), for coverage *)
Fixpoint branches_f (p : param float) (v : float) (us : list float) : list nat :=
  match us with
  | [] => []
  | u :: r => branch_of FOps p u v :: branches_f p (mutate_value FOps p u v) r
  end.

(* ---- agent level ---- *)
(* observation of one agent: hyperparameter attributes, label, and per registered optimizer
   (wrapper lr, lr of every param group) *)
(* ... and, per attribute, whether its Python type is int *)
Definition agent_obs := (list (name * float) * option name * list (float * list float) * list (name * bool))%type.

(* the attribute named by the label was produced by cast: it is a Python int exactly when the configured dtype is int *)
Definition check_label_type (a : agent float) (tys : list (name * bool)) : bool :=
  match a_mut a with
  | None => true
  | Some n =>
      match find (fun h : hpent float => Nat.eqb (hp_name h) n) (a_hps a),
            find (fun t : name * bool => Nat.eqb (fst t) n) tys with
      | Some h, Some t => Bool.eqb (p_int (hp_par h)) (snd t)
      | None, _ => true            (* label of an attribute that is not configured: not ours *)
      | Some _, None => false
      end
  end.

Definition check_agent (a : agent float) (ob : agent_obs) : bool :=
  let '(vals, mut, opts, tys) := ob in
  check_label_type a tys &&
  forallb (fun nv => opt_eqb feqb (getv (a_vals a) (fst nv)) (Some (snd nv))) vals
  && Nat.eqb (length vals) (length (a_vals a))
  && opt_eqb Nat.eqb (a_mut a) mut
  && all2 (fun (o : optim float) (w : float * list float) =>
                 (* the wrapper's own lr field is bookkeeping (no param group reads it; it is stale after an
                    in-place load_checkpoint): only the param groups are compared *)
                 list_eqb feqb (o_groups o) (snd w)) (a_opts a) opts.

(* optimizer steps recorded while the op ran (learn): (individual, index of the registered optimizer,
   lr of its param groups at the moment of the step) — the optimizers the agent really steps must be
   the registered ones and run with the model's learning rates *)
Definition stepped := (nat * nat * list float)%type.
Definition check_stepped (pop : list (agent float)) (st : stepped) : bool :=
  let '(i, j, lrs) := st in
  match nth_error pop i with
  | Some a => match nth_error (a_opts a) j with
              (* a registered optimizer may be a list of torch optimizers (one per agent): the groups of the one
                 that was stepped are among the groups the model holds for the registered optimizer *)
              | Some o => forallb (fun l => existsb (feqb l) (o_groups o)) lrs
                          && negb (Nat.eqb (length lrs) 0) && Nat.leb (length lrs) (length (o_groups o))
              | None => false end
  | None => false
  end.

(* operations of a checked history: the modelled population operations, and an assignment made from OUTSIDE
   (setattr(agent, name, value) by the user / a schedule).  The assignment is not an operation of the library, so it
   is not part of Model.pop_op; theorem mutation_base_is_the_attribute holds in ANY state, hence also after it.
   The label is forgotten by the comparison after an assignment (the harness does not compare it either). *)
Inductive kop := K (o : pop_op float) | KSet (i : nat) (n : name) (v : float).
Definition kstep (pop : list (agent float)) (o : kop) : list (agent float) :=
  match o with
  | K o => pop_step FOps pop o
  | KSet i n v => match nth_error pop i with
                  | Some a => upd_nth pop i {| a_vals := setv (a_vals a) n v; a_hps := a_hps a;
                                               a_opts := a_opts a; a_mut := None |}
                  | None => pop end
  end.

Fixpoint check_trace (pop : list (agent float)) (ops : list kop)
         (obs : list (list agent_obs * list stepped)) : bool :=
  match ops, obs with
  | [], [] => true
  | o :: ops', (ob, st) :: obs' =>
      let pop' := kstep pop o in
      all2 check_agent pop' ob && forallb (check_stepped pop') st && check_trace pop' ops' obs'
  | _, _ => false
  end.

(* initial population as read from the real agents: must satisfy the guard of the theorems and
   agree with the first observation; then every operation is followed *)
(* hypotheses of the agent-level theorems, evaluated on the registry read from the real agents:
   wf_agent (computed), empty caches (by construction of the term), and Coherent up to binary64 equality *)
Definition coherentb (a : agent float) : bool :=
  forallb (fun o : optim float =>
             match getv (a_vals a) (o_lr_name o) with
             | Some v => feqb (o_wlr o) v && forallb (feqb v) (o_groups o)
             | None => false
             end) (a_opts a).
Definition fresh_cacheb (a : agent float) : bool :=
  forallb (fun h : hpent float => match hp_cache h with None => true | Some _ => false end) (a_hps a).

Definition check_pop (pop0 : list (agent float)) (ops : list kop) (obs0 : list agent_obs)
           (obs : list (list agent_obs * list stepped)) : bool :=
  forallb wf_agent pop0 && forallb fresh_cacheb pop0 && forallb coherentb pop0
  && all2 check_agent pop0 obs0 && check_trace pop0 ops obs.

(* _registry_init: construction is rejected exactly when a configured name is not an attribute.
   attrs = configured names that exist on an agent of that class; cfg = configured names in order *)
Definition check_init (attrs cfg : list name) (raised : bool) : bool :=
  Bool.eqb (registry_init_ok (map (fun n => (n, 0%float)) attrs)
                             (map (fun n => Build_hpent n (Build_param 0%float 0%float 0%float 0%float false) None) cfg))
           (negb raised).
