(* C13 — proofs, part 3: faults surface. From a clean environment (nothing pending, nothing in flight),
   after any number of healthy rounds: an exception raised by sub-environments during the pending
   command is re-raised by the matching *_wait with the type raised by a failing worker (the last one
   drained) and the state returns to DEFAULT; a sleeping worker makes a *_wait with a finite timeout
   report Timeout. *)
From Coq Require Import List Arith Bool Lia.
Import ListNotations.
From AgileV Require Import C13.Model C13.Proofs.

Definition fresh (w : worker) : Prop :=
  stat w = Idle /\ dropped w = false /\ inbox w = [] /\ outq w = [].
Definition clean (e : env) : Prop :=
  closed e = false /\ st e = DEFAULT /\ eq e = [] /\ Forall fresh (ws e) /\ NoDup (map idx (ws e)).

Definition next (w : worker) : behav := plan w (nseen w).
Definition calm (w : worker) : Prop := next w = Normal \/ exists x, next w = Raise x.
Definition raised1 (w : worker) : list (nat * nat) :=
  match next w with Raise x => [(idx w, x)] | _ => [] end.
Definition raised (l : list worker) : list (nat * nat) := flat_map raised1 l.
Definition after (w : worker) : worker := fst (react CEnv w []).
Definition msgof (w : worker) : bool * nat :=
  (match next w with Normal => true | _ => false end, nseen w).

Lemma react_q c w q : react c w q = (fst (react c w []), q ++ snd (react c w [])).
Proof.
  unfold react. destruct c; [destruct (plan w (nseen w))| |]; cbn; rewrite ?app_nil_r; reflexivity.
Qed.

Lemma react_raised w : snd (react CEnv w []) = raised1 w.
Proof. unfold react, raised1, next. destruct (plan w (nseen w)); reflexivity. Qed.

Lemma send_fresh l : Forall fresh l -> forall q, send_all CEnv l q = (None, map after l, q ++ raised l).
Proof.
  induction 1 as [|w l (Hs & Hd & _ & _) _ IH]; intros q; cbn [send_all map raised flat_map].
  - rewrite app_nil_r. reflexivity.
  - rewrite Hd. rewrite Hs. cbn [is_dead]. unfold deliver. rewrite Hs.
    rewrite (react_q CEnv w q), react_raised. rewrite IH. rewrite <- app_assoc. reflexivity.
Qed.

Lemma after_calm w : fresh w -> calm w ->
  dropped (after w) = false /\ outq (after w) = [msgof w] /\ idx (after w) = idx w /\
  nseen (after w) = S (nseen w) /\ plan (after w) = plan w /\
  (next w = Normal -> stat (after w) = Idle /\ inbox (after w) = []).
Proof.
  intros (Hs & Hd & Hi & Ho) Hc. unfold calm, after, react, msgof, next in *.
  destruct Hc as [Hn|(x & Hn)]; rewrite Hn; cbn; rewrite Ho, Hd, ?Hi; repeat split; auto; discriminate.
Qed.

Definition emptied (w : worker) : worker := set_outq (after w) [].

Lemma recv_after l : Forall fresh l -> Forall calm l ->
  forall q, recv_all (map after l) q = (None, map emptied l, q, map msgof l).
Proof.
  induction l as [|w l IH]; intros Hf Hc q; cbn [map recv_all]; [reflexivity|].
  inversion Hf; inversion Hc; subst.
  destruct (after_calm w H1 H5) as (Hd & Ho & _).
  unfold recv1. rewrite Hd, Ho. unfold msgof at 1. rewrite IH by assumption. reflexivity.
Qed.

Lemma poll_after l : Forall fresh l -> Forall calm l -> poll_all (map after l) = true.
Proof.
  unfold poll_all. induction l as [|w l IH]; intros Hf Hc; cbn; [reflexivity|].
  inversion Hf; inversion Hc; subst. destruct (after_calm w H1 H5) as (Hd & Ho & _).
  unfold pollable. rewrite Hd, Ho. cbn. apply IH; assumption.
Qed.

Lemma count_false_msgs l : Forall calm l -> count_false (map msgof l) = length (raised l).
Proof.
  induction 1 as [|w l Hc _ IH]; [reflexivity|].
  cbn [map raised flat_map]. rewrite app_length. fold (raised l). rewrite <- IH.
  unfold count_false in *. unfold msgof at 1, raised1. cbn [filter fst].
  destruct Hc as [Hn|(x & Hn)]; rewrite Hn; cbn; reflexivity.
Qed.

Lemma raised_idx l i : In i (map fst (raised l)) -> In i (map idx l).
Proof.
  induction l as [|w l IH]; cbn; auto. unfold raised in *. rewrite map_app, in_app_iff.
  intros [H|H]; auto. left. unfold raised1 in H. destruct (next w); cbn in H; try contradiction.
  destruct H as [H|[]]; auto.
Qed.

Lemma raised_NoDup l : NoDup (map idx l) -> NoDup (map fst (raised l)).
Proof.
  induction l as [|w l IH]; cbn; intros Hn; [constructor|].
  inversion Hn as [|? ? Hx Hn']; subst. unfold raised in *. cbn [flat_map]. rewrite map_app.
  unfold raised1 at 1. destruct (next w); cbn; auto.
  constructor; auto. intros Hin. apply Hx. apply raised_idx. exact Hin.
Qed.

Lemma last_cons {A} (x : A) l d : last (x :: l) d = last l x.
Proof. revert x d. induction l as [|y l IH]; intros x d; [reflexivity|]. cbn [last] in *. destruct l; auto. Qed.

Lemma drain_ok es : forall l lst rest,
  NoDup (map fst es) ->
  Forall (fun w => dropped w = true -> ~ In (idx w) (map fst es)) l ->
  exists l', drain (length es) (es ++ rest) l lst = (DOk (last (map snd es) lst), rest, l').
Proof.
  induction es as [|[i x] es IH]; intros l lst rest Hn Hf; cbn [length app drain map].
  - eexists. reflexivity.
  - inversion Hn as [|? ? Hi Hn']; subst. cbn [fst] in *.
    assert (Hd : is_dropped_idx i l = false).
    { unfold is_dropped_idx. destruct (existsb _ l) eqn:He; auto. exfalso.
      apply existsb_exists in He as (w & Hin & Hw). apply andb_true_iff in Hw as (H1 & H2).
      apply Nat.eqb_eq in H1. rewrite Forall_forall in Hf. apply (Hf w Hin H2). left. auto. }
    rewrite Hd. rewrite last_cons. apply IH; auto.
    unfold drop_idx. rewrite Forall_forall in *. intros w' Hin. apply in_map_iff in Hin as (w & <- & Hin).
    destruct (Nat.eqb_spec (idx w) i) as [He|Hne]; cbn.
    + intros _. rewrite He. exact Hi.
    + intros Hdw Hin'. apply (Hf w Hin Hdw). right. exact Hin'.
Qed.

(* ---- the pending command: every sub-environment answers or raises ---- *)
Theorem fault_surfaces_lemma k fin e :
  clean e -> Forall calm (ws e) -> raised (ws e) <> [] ->
  fst (async k e) = Ok /\
  let r := wait k fin (snd (async k e)) in
  fst r = Exc (last (map snd (raised (ws e))) 0) /\ In (last (map snd (raised (ws e))) 0) (map snd (raised (ws e))) /\
  st (snd r) = DEFAULT /\ closed (snd r) = false.
Proof.
  intros (Hc & Hst & Hq & Hf & Hn) Hcalm Hne.
  unfold async, async_cmd. rewrite Hc, Hst. cbn [pst_eqb negb].
  rewrite (send_fresh _ Hf). rewrite Hq. cbn [app fst snd]. split; [reflexivity|].
  unfold wait. cbn [closed st]. rewrite pst_eqb_refl. cbn [negb].
  unfold wait_core. cbn [ws eq]. rewrite (poll_after _ Hf Hcalm). rewrite andb_false_r.
  rewrite (recv_after _ Hf Hcalm). unfold finish. rewrite (count_false_msgs _ Hcalm).
  assert (Hz : Nat.eqb (length (raised (ws e))) 0 = false) by (destruct (raised (ws e)); [congruence | reflexivity]).
  rewrite Hz.
  destruct (drain_ok (raised (ws e)) (map emptied (ws e)) 0 [] (raised_NoDup _ Hn)) as (l' & Hd).
  { rewrite Forall_forall. intros w' Hin. apply in_map_iff in Hin as (w & <- & Hin).
    rewrite Forall_forall in Hf, Hcalm. destruct (after_calm w (Hf w Hin) (Hcalm w Hin)) as (Hdw & _).
    unfold emptied, set_outq. cbn. congruence. }
  rewrite app_nil_r in Hd. rewrite Hd. cbn.
  repeat split; auto.
  assert (map snd (raised (ws e)) <> []) by (destruct (raised (ws e)); [congruence | discriminate]).
  apply exists_last in H as (l0 & a & ->). rewrite last_last. apply in_or_app. right. left. reflexivity.
Qed.

(* ---- a healthy round returns the answers of this round and leaves a clean environment ---- *)
Lemma emptied_fresh w : fresh w -> next w = Normal -> fresh (emptied w).
Proof.
  intros Hf Hn. destruct (after_calm w Hf (or_introl Hn)) as (Hd & _ & _ & _ & _ & Hs).
  destruct (Hs Hn) as (H1 & H2). unfold emptied, set_outq, fresh. cbn. auto.
Qed.

Theorem healthy_round_lemma k fin e :
  clean e -> Forall (fun w => next w = Normal) (ws e) ->
  fst (async k e) = Ok /\
  let r := wait k fin (snd (async k e)) in
  fst r = Ok /\ clean (snd r) /\ got (snd r) = map nseen (ws e) /\
  map nseen (ws (snd r)) = map S (map nseen (ws e)) /\ map plan (ws (snd r)) = map plan (ws e) /\
  ws (snd r) = map emptied (ws e).
Proof.
  intros (Hc & Hst & Hq & Hf & Hn) Hnorm.
  assert (Hcalm : Forall calm (ws e)) by (eapply Forall_impl; [|exact Hnorm]; intros w H; left; exact H).
  assert (Hr : raised (ws e) = []).
  { clear -Hnorm. induction Hnorm as [|w l Hw _ IH]; [reflexivity|]. unfold raised in *. cbn.
    unfold raised1 at 1. rewrite Hw. exact IH. }
  unfold async, async_cmd. rewrite Hc, Hst. cbn [pst_eqb negb].
  rewrite (send_fresh _ Hf). rewrite Hq, Hr. cbn [app fst snd]. split; [reflexivity|].
  unfold wait. cbn [closed st]. rewrite pst_eqb_refl. cbn [negb].
  unfold wait_core. cbn [ws eq]. rewrite (poll_after _ Hf Hcalm). rewrite andb_false_r.
  rewrite (recv_after _ Hf Hcalm). unfold finish. rewrite (count_false_msgs _ Hcalm), Hr. cbn.
  cbn [fst snd ws closed st eq got].
  split; [reflexivity|]. split; [|split; [|split; [|split; [|reflexivity]]]].
  - unfold clean. cbn [ws closed st eq got]. split; [reflexivity|]. split; [reflexivity|]. split; [reflexivity|]. split.
    + rewrite Forall_forall in *. intros w' Hin. apply in_map_iff in Hin as (w & <- & Hin).
      apply emptied_fresh; auto.
    + rewrite map_map. erewrite map_ext_in; [exact Hn|]. intros w Hin. cbn.
      rewrite Forall_forall in Hf, Hcalm. destruct (after_calm w (Hf w Hin) (Hcalm w Hin)) as (_ & _ & Hi & _). exact Hi.
  - rewrite map_map. apply map_ext. intros w. reflexivity.
  - rewrite !map_map. apply map_ext_in. intros w Hin. cbn.
    rewrite Forall_forall in Hf, Hcalm. destruct (after_calm w (Hf w Hin) (Hcalm w Hin)) as (_ & _ & _ & Hs & _). exact Hs.
  - rewrite map_map. apply map_ext_in. intros w Hin. cbn.
    rewrite Forall_forall in Hf, Hcalm. destruct (after_calm w (Hf w Hin) (Hcalm w Hin)) as (_ & _ & _ & _ & Hp & _). exact Hp.
Qed.

(* ---- a sub-environment that sleeps past a finite timeout: the wait reports Timeout ---- *)
Lemma send_fresh_sleeper l : Forall fresh l -> Exists (fun w => next w = Sleep) l ->
  poll_all (map after l) = false.
Proof.
  unfold poll_all. intros Hf He. induction He as [w l Hs|w l _ IH]; inversion Hf as [|? ? Hw Hl]; subst; cbn.
  - destruct Hw as (H1 & H2 & H3 & H4). unfold pollable, after, react. fold (next w). rewrite Hs. cbn.
    rewrite H2, H4. reflexivity.
  - rewrite (IH Hl). apply andb_false_r.
Qed.

Theorem timeout_reported_lemma k e :
  clean e -> Exists (fun w => next w = Sleep) (ws e) ->
  fst (async k e) = Ok /\
  let r := wait k true (snd (async k e)) in fst r = Timeout /\ st (snd r) = DEFAULT /\ closed (snd r) = false.
Proof.
  intros (Hc & Hst & Hq & Hf & Hn) Hs.
  unfold async, async_cmd. rewrite Hc, Hst. cbn [pst_eqb negb].
  rewrite (send_fresh _ Hf). cbn [fst snd]. split; [reflexivity|].
  unfold wait. cbn [closed st]. rewrite pst_eqb_refl. cbn [negb].
  unfold wait_core. cbn [ws eq]. rewrite (send_fresh_sleeper _ Hf Hs). cbn. auto.
Qed.

(* ---- any number of healthy rounds first: the fault may sit at any command number ---- *)
Definition round (e : env) (k : kind) : env := snd (wait k false (snd (async k e))).
Definition rounds (ks : list kind) (e : env) : env := fold_left round ks e.
Definition healthy_for (m : nat) (e : env) : Prop :=
  Forall (fun w => forall j, j < m -> plan w (nseen w + j) = Normal) (ws e).

Lemma healthy_rounds_lemma ks : forall e,
  clean e -> healthy_for (length ks) e ->
  clean (rounds ks e) /\
  Forall2 (fun w w' => plan w' = plan w /\ nseen w' = nseen w + length ks /\ idx w' = idx w) (ws e) (ws (rounds ks e)).
Proof.
  induction ks as [|k ks IH]; intros e Hc Hh; cbn [rounds fold_left length].
  - split; auto. clear. induction (ws e); constructor; auto.
  - assert (Hn : Forall (fun w => next w = Normal) (ws e)).
    { eapply Forall_impl; [|exact Hh]. intros w H. unfold next. rewrite <- (Nat.add_0_r (nseen w)). apply H. cbn; lia. }
    destruct (healthy_round_lemma k false e Hc Hn) as (_ & _ & Hc2 & _ & _ & _ & Hws).
    fold (round e k) in Hc2, Hws.
    assert (Hem : forall w, In w (ws e) -> plan (emptied w) = plan w /\ nseen (emptied w) = S (nseen w) /\ idx (emptied w) = idx w).
    { intros w Hin. destruct Hc as (_ & _ & _ & Hf & _). rewrite Forall_forall in Hf, Hn.
      destruct (after_calm w (Hf w Hin) (or_introl (Hn w Hin))) as (_ & _ & Hi & Hs & Hp & _).
      unfold emptied, set_outq. cbn. auto. }
    destruct (IH (round e k) Hc2) as (Hc3 & HF).
    { unfold healthy_for. rewrite Hws. rewrite Forall_forall. intros w' Hin. apply in_map_iff in Hin as (w & <- & Hin).
      destruct (Hem w Hin) as (Hp & Hs & _). intros j Hj. rewrite Hp, Hs.
      unfold healthy_for in Hh. rewrite Forall_forall in Hh. replace (S (nseen w) + j) with (nseen w + S j) by lia.
      apply Hh; auto. cbn; lia. }
    split; [exact Hc3|]. fold (rounds ks (round e k)).
    rewrite Hws in HF. clear -HF Hem.
    revert HF Hem. generalize (ws (rounds ks (round e k))). induction (ws e) as [|w l IHl]; intros l' HF Hem; cbn in HF.
    + inversion HF. constructor.
    + inversion HF as [|? w2 ? l2 (Hp & Hs & Hi) HF']; subst. constructor.
      * destruct (Hem w (or_introl eq_refl)) as (Hp1 & Hs1 & Hi1). repeat split; try congruence. rewrite Hs, Hs1. cbn; lia.
      * apply IHl; auto. intros w0 Hin. apply Hem. right; auto.
Qed.

Lemma init_clean plans : clean (init plans).
Proof.
  unfold clean, init. cbn. repeat split; auto.
  - generalize 0. induction plans as [|p ps IH]; intros i; cbn; constructor; auto. repeat split; auto.
  - assert (H : forall i, map idx (mk_workers i plans) = seq i (length plans)).
    { induction plans as [|p ps IH]; intros i; cbn; [reflexivity|]. rewrite IH. reflexivity. }
    rewrite H. apply seq_NoDup.
Qed.

(* ---- the same for set_attr (send and receive in one call) ---- *)
Theorem set_attr_fault_surfaces_lemma e :
  clean e -> Forall calm (ws e) -> raised (ws e) <> [] ->
  fst (set_attr e) = Exc (last (map snd (raised (ws e))) 0) /\ st (snd (set_attr e)) = DEFAULT /\
  closed (snd (set_attr e)) = false.
Proof.
  intros (Hc & Hst & Hq & Hf & Hn) Hcalm Hne.
  unfold set_attr. rewrite Hc, Hst. cbn [pst_eqb negb].
  rewrite (send_fresh _ Hf). rewrite Hq. cbn [app].
  rewrite (recv_after _ Hf Hcalm). unfold finish. rewrite (count_false_msgs _ Hcalm).
  assert (Hz : Nat.eqb (length (raised (ws e))) 0 = false) by (destruct (raised (ws e)); [congruence | reflexivity]).
  rewrite Hz.
  destruct (drain_ok (raised (ws e)) (map emptied (ws e)) 0 [] (raised_NoDup _ Hn)) as (l' & Hd).
  { rewrite Forall_forall. intros w' Hin. apply in_map_iff in Hin as (w & <- & Hin).
    rewrite Forall_forall in Hf, Hcalm. destruct (after_calm w (Hf w Hin) (Hcalm w Hin)) as (Hdw & _).
    unfold emptied, set_outq. cbn. congruence. }
  rewrite app_nil_r in Hd. rewrite Hd. cbn. auto.
Qed.

Theorem set_attr_healthy_lemma e :
  clean e -> Forall (fun w => next w = Normal) (ws e) ->
  fst (set_attr e) = Ok /\ st (snd (set_attr e)) = DEFAULT /\ ws (snd (set_attr e)) = map emptied (ws e).
Proof.
  intros (Hc & Hst & Hq & Hf & Hn) Hnorm.
  assert (Hcalm : Forall calm (ws e)) by (eapply Forall_impl; [|exact Hnorm]; intros w H; left; exact H).
  assert (Hr : raised (ws e) = []).
  { clear -Hnorm. induction Hnorm as [|w l Hw _ IH]; [reflexivity|]. unfold raised in *. cbn.
    unfold raised1 at 1. rewrite Hw. exact IH. }
  unfold set_attr. rewrite Hc, Hst. cbn [pst_eqb negb].
  rewrite (send_fresh _ Hf). rewrite Hq, Hr. cbn [app].
  rewrite (recv_after _ Hf Hcalm). unfold finish. rewrite (count_false_msgs _ Hcalm), Hr. cbn. auto.
Qed.

(* ---- call_async of a forbidden name: every worker raises ValueError itself, call_wait re-raises it ---- *)
Definition rejected (w : worker) : worker := fst (react CBad w []).

Lemma send_bad l : Forall fresh l -> forall q,
  send_all CBad l q = (None, map rejected l, q ++ map (fun w => (idx w, EValueError)) l).
Proof.
  induction 1 as [|w l (Hs & Hd & _ & _) _ IH]; intros q; cbn [send_all map].
  - rewrite app_nil_r. reflexivity.
  - rewrite Hd. rewrite Hs. cbn [is_dead]. unfold deliver. rewrite Hs.
    rewrite (react_q CBad w q). cbn [react snd]. rewrite IH. rewrite <- app_assoc. reflexivity.
Qed.

Lemma recv_bad l : Forall fresh l -> forall q,
  recv_all (map rejected l) q = (None, map (fun w => set_outq (rejected w) []) l, q, map (fun _ => (false, 0)) l).
Proof.
  induction 1 as [|w l (Hs & Hd & _ & Ho) _ IH]; intros q; cbn [map recv_all]; [reflexivity|].
  unfold recv1, rejected at 1 2 3. cbn [react fst dropped outq]. rewrite Hd, Ho. cbn [app]. rewrite IH. reflexivity.
Qed.

Lemma last_const {A B} (c : B) (l : list A) d : l <> [] -> last (map (fun _ => c) l) d = c.
Proof.
  induction l as [|x l IH]; intros H; [congruence|]. cbn [map]. rewrite last_cons.
  destruct l as [|y l]; [reflexivity|]. rewrite <- (IH ltac:(discriminate)) at 2. cbn [map]. rewrite !last_cons. reflexivity.
Qed.

Theorem forbidden_call_surfaces_lemma fin e :
  clean e -> ws e <> [] ->
  fst (call_bad e) = Ok /\
  let r := wait KCall fin (snd (call_bad e)) in
  fst r = Exc EValueError /\ st (snd r) = DEFAULT /\ closed (snd r) = false.
Proof.
  intros (Hc & Hst & Hq & Hf & Hn) Hne.
  unfold call_bad, async_cmd. rewrite Hc, Hst. cbn [pst_eqb negb].
  rewrite (send_bad _ Hf). rewrite Hq. cbn [app fst snd]. split; [reflexivity|].
  unfold wait. cbn [closed st wst]. cbn [pst_eqb negb].
  unfold wait_core. cbn [ws eq].
  assert (Hp : poll_all (map rejected (ws e)) = true).
  { unfold poll_all. clear -Hf. induction Hf as [|w l (Hs & Hd & _ & Ho) _ IH]; cbn [map forallb]; [reflexivity|].
    rewrite IH. unfold pollable, rejected. cbn. rewrite Hd, Ho. reflexivity. }
  rewrite Hp, andb_false_r. rewrite (recv_bad _ Hf). unfold finish.
  set (es := map (fun w => (idx w, EValueError)) (ws e)).
  assert (Hcnt : count_false (map (fun _ : worker => (false, 0)) (ws e)) = length es).
  { unfold es, count_false. rewrite map_length. clear. induction (ws e); cbn; auto. }
  rewrite Hcnt.
  assert (Hz : Nat.eqb (length es) 0 = false) by (unfold es; destruct (ws e); [congruence | reflexivity]).
  rewrite Hz.
  assert (Hnd : NoDup (map fst es)) by (unfold es; rewrite map_map; cbn; exact Hn).
  destruct (drain_ok es (map (fun w => set_outq (rejected w) []) (ws e)) 0 [] Hnd) as (l' & Hd).
  { rewrite Forall_forall. intros w' Hin. apply in_map_iff in Hin as (w & <- & Hin).
    rewrite Forall_forall in Hf. destruct (Hf w Hin) as (_ & Hdw & _). unfold set_outq, rejected. cbn. congruence. }
  rewrite app_nil_r in Hd. rewrite Hd. cbn [fst snd st closed].
  repeat split; auto. f_equal.
  unfold es. rewrite map_map. cbn [snd]. apply last_const. exact Hne.
Qed.
