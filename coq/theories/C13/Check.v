(* C13 — boolean comparison of the model with observations of the implementation (used by K only). *)
From Coq Require Import List Arith Bool.
Import ListNotations.
From AgileV Require Import C13.Model.

(* canonical outcome classes of the harness: BrokenPipeError / ConnectionResetError / EOFError are one
   class ("the peer is gone"); CO_Other never matches *)
Inductive ocls := CO_Ok | CO_Pending | CO_NoCall | CO_Closed | CO_Exc (e : nat) | CO_Timeout
                | CO_Gone | CO_Attr | CO_Hang | CO_Other | CO_ArgErr.

Definition cls (o : outcome) : ocls :=
  match o with
  | Ok => CO_Ok | AlreadyPending => CO_Pending | NoAsyncCall => CO_NoCall | ClosedErr => CO_Closed
  | Exc e => CO_Exc e | Timeout => CO_Timeout | BrokenPipe => CO_Gone | EOFErr => CO_Gone
  | AttrErr => CO_Attr | Hang => CO_Hang
  end.

Definition ocls_eqb (a b : ocls) : bool :=
  match a, b with
  | CO_Ok, CO_Ok | CO_Pending, CO_Pending | CO_NoCall, CO_NoCall | CO_Closed, CO_Closed
  | CO_Timeout, CO_Timeout | CO_Gone, CO_Gone | CO_Attr, CO_Attr | CO_Hang, CO_Hang | CO_ArgErr, CO_ArgErr => true
  | CO_Exc x, CO_Exc y => Nat.eqb x y
  | _, _ => false
  end.

Fixpoint list_eqb {T} (eqb : T -> T -> bool) (a b : list T) : bool :=
  match a, b with
  | [], [] => true
  | x :: a', y :: b' => eqb x y && list_eqb eqb a' b'
  | _, _ => false
  end.

(* observation after one operation: outcome class, _state, closed flag, is_alive() of every worker,
   sequence numbers carried by the results of a successful *_wait *)
Definition obs1 := (ocls * pst * bool * list bool * option (list nat))%type.

Definition alive_flags (e : env) : list bool := map (fun w => negb (is_dead (stat w))) (ws e).

Definition check_one_c (c0 : ocls) (e : env) (ob : obs1) : bool :=
  let '(c, s, cl, al, g) := ob in
  ocls_eqb c0 c && Bool.eqb (closed e) cl && (cl || pst_eqb (st e) s) &&   (* _state is not observable after close *)
  list_eqb Bool.eqb (alive_flags e) al &&
  match g with Some l => list_eqb Nat.eqb (got e) l | None => true end.

Definition check_one (o : outcome) (e : env) (ob : obs1) : bool := check_one_c (cls o) e ob.

Fixpoint check_trace (v : variant) (e : env) (ops : list op) (obs : list obs1) : bool :=
  match ops, obs with
  | [], [] => true
  | o :: ops', ob :: obs' =>
      let '(r, e') := step_gen v e o in check_one r e' ob && check_trace v e' ops' obs'
  | _, _ => false
  end.

Definition check_run (v : variant) (plans : list (list behav)) (ops : list op) (obs : list obs1) : bool :=
  check_trace v (init (map plan_of plans)) ops obs.

(* model-side branch summary, for the coverage histogram *)
Definition outcomes (v : variant) (plans : list (list behav)) (ops : list op) : list ocls :=
  map cls (fst (run_gen v (init (map plan_of plans)) ops)).

(* staggered answers: X_async, then X_wait(T) with per-worker answer times ds; compare outcome class and state *)
Definition check_staggered (plans : list (list behav)) (k : kind) (T : nat) (ds : list nat) (c : ocls) (s : pst) : bool :=
  let e1 := snd (async k (init (map plan_of plans))) in
  let '(o, e2) := wait_timed false k T ds e1 in
  ocls_eqb (cls o) c && pst_eqb (st e2) s.

(* the synchronous wrappers reset() / step() / call() ([sync] of the model) and calls rejected for their arguments
   ([arg_rejected]: ValueError / AssertionError = class CO_ArgErr, or ClosedEnvironmentError after close) *)
Inductive xop := XOp (o : op) | XSync (k : kind) | XArg.
Definition step_x (v : variant) (e : env) (x : xop) : ocls * env :=
  match x with
  | XOp o => let '(r, e') := step_gen v e o in (cls r, e')
  | XSync k => let '(r, e') := sync k e in (cls r, e')
  | XArg => let '(bo, e') := arg_rejected e in ((if fst bo then CO_ArgErr else cls (snd bo)), e')
  end.
Fixpoint check_trace_x (v : variant) (e : env) (ops : list xop) (obs : list obs1) : bool :=
  match ops, obs with
  | [], [] => true
  | o :: ops', ob :: obs' =>
      let '(c, e') := step_x v e o in check_one_c c e' ob && check_trace_x v e' ops' obs'
  | _, _ => false
  end.
Definition check_run_x (v : variant) (plans : list (list behav)) (ops : list xop) (obs : list obs1) : bool :=
  check_trace_x v (init (map plan_of plans)) ops obs.
