(* C13 — proofs, part 4: the exception type a call re-raises was really raised by a sub-environment
   (or is the worker's own ValueError for a forbidden call) — in every reachable state, whatever
   stale answers, kills and timeouts came before. *)
From Coq Require Import List Arith Bool Lia.
Import ListNotations.
From AgileV Require Import C13.Model C13.Proofs C13.ProofsInv.

Section Genuine.
Variable plans0 : list (nat -> behav).

Definition real (x : nat) : Prop := x = EValueError \/ exists p n, In p plans0 /\ p n = Raise x.
Definition GW (l : list worker) : Prop := Forall (fun w => In (plan w) plans0) l.
Definition GQ (q : errq) : Prop := Forall (fun ie => real (snd ie)) q.

(* one worker: the plan never changes; new error records carry real types *)
Definition W (w : worker) (q : errq) (w' : worker) (q' : errq) : Prop :=
  plan w' = plan w /\ exists new, q' = q ++ new /\ (In (plan w) plans0 -> GQ new).

Lemma W_same w q w' : plan w' = plan w -> W w q w' q.
Proof. intros H. split; auto. exists []. rewrite app_nil_r. split; auto. intros _. constructor. Qed.

Lemma W_trans w q w1 q1 w2 q2 : W w q w1 q1 -> W w1 q1 w2 q2 -> W w q w2 q2.
Proof.
  intros (P1 & n1 & -> & G1) (P2 & n2 & -> & G2). split; [congruence|].
  exists (n1 ++ n2). rewrite app_assoc. split; auto. intros Hin. apply Forall_app. split; [apply G1; exact Hin|].
  apply G2. rewrite P1. exact Hin.
Qed.

Lemma react_W c w q : W w q (fst (react c w q)) (snd (react c w q)).
Proof.
  unfold react. destruct c; [destruct (plan w (nseen w)) eqn:Hp| |]; cbn [fst snd];
    try (apply W_same; reflexivity).
  - split; [reflexivity|]. exists [(idx w, e)]. split; auto. intros Hin. constructor; [|constructor].
    right. exists (plan w), (nseen w). auto.
  - split; [reflexivity|]. exists [(idx w, EValueError)]. split; auto. intros _. constructor; [|constructor].
    left. reflexivity.
Qed.

Lemma pump_W cs : forall w q, W w q (fst (pump cs w q)) (snd (pump cs w q)).
Proof.
  induction cs as [|c cs IH]; intros w q; cbn [pump].
  - apply W_same. reflexivity.
  - destruct (stat w).
    + pose proof (react_W c w q) as H. destruct (react c w q) as [w1 q1]. cbn [fst snd] in H.
      eapply W_trans; [exact H | apply IH].
    + apply W_same. reflexivity.
    + apply W_same. reflexivity.
Qed.

Lemma deliver_W c w q : W w q (fst (deliver c w q)) (snd (deliver c w q)).
Proof.
  unfold deliver. destruct (stat w); [apply react_W | apply W_same; reflexivity | apply W_same; reflexivity].
Qed.

Lemma release_W w q : W w q (fst (release w q)) (snd (release w q)).
Proof.
  unfold release. destruct (stat w); try (apply W_same; reflexivity).
  eapply W_trans; [|apply pump_W]. apply W_same. reflexivity.
Qed.

Lemma recv1_W w q : W w q (snd (fst (recv1 w q))) (snd (recv1 w q)).
Proof.
  unfold recv1. destruct (dropped w); [apply W_same; reflexivity|].
  destruct (outq w) as [|[ok s] rest].
  - destruct (stat w); try (apply W_same; reflexivity).
    pose proof (release_W w q) as H. destruct (release w q) as [w1 q1]. cbn [fst snd] in H.
    destruct (outq w1) as [|[ok s1] rest]; cbn [fst snd]; [exact H|].
    eapply W_trans; [exact H|]. apply W_same. reflexivity.
  - cbn [fst snd]. apply W_same. reflexivity.
Qed.

(* a pass over the workers *)
Definition LW (l : list worker) (q : errq) (l' : list worker) (q' : errq) : Prop :=
  Forall2 (fun w w' => plan w' = plan w) l l' /\ exists new, q' = q ++ new /\ (GW l -> GQ new).

Lemma LW_refl l q : LW l q l q.
Proof.
  split; [induction l; constructor; auto|]. exists []. rewrite app_nil_r. split; auto. intros _. constructor.
Qed.

Lemma LW_cons w q w' q1 l l' q2 : W w q w' q1 -> LW l q1 l' q2 -> LW (w :: l) q (w' :: l') q2.
Proof.
  intros (P & n1 & -> & G1) (F & n2 & -> & G2). split; [constructor; auto|].
  exists (n1 ++ n2). rewrite app_assoc. split; auto. intros Hg. inversion Hg; subst.
  apply Forall_app. split; [apply G1; assumption | apply G2; assumption].
Qed.

Lemma LW_keeps l q l' q' : LW l q l' q' -> GW l -> GQ q -> GW l' /\ GQ q'.
Proof.
  intros (F & new & -> & G) Hw Hq. split.
  - clear G Hq. induction F as [|w w' l l' P _ IH]; [constructor|].
    inversion Hw; subst. constructor; [congruence | apply IH; assumption].
  - apply Forall_app. split; [exact Hq | apply G; exact Hw].
Qed.

Lemma send_all_LW c l : forall q, LW l q (snd (fst (send_all c l q))) (snd (send_all c l q)).
Proof.
  induction l as [|w l IH]; intros q; cbn [send_all]; [apply LW_refl|].
  destruct (dropped w); [apply LW_refl|]. destruct (is_dead (stat w)); [apply LW_refl|].
  pose proof (deliver_W c w q) as H. destruct (deliver c w q) as [w1 q1]. cbn [fst snd] in H.
  specialize (IH q1). destruct (send_all c l q1) as [[r l1] q2]. cbn [fst snd] in *.
  eapply LW_cons; eauto.
Qed.

Lemma recv_all_LW l : forall q, LW l q (snd (fst (fst (recv_all l q)))) (snd (fst (recv_all l q))).
Proof.
  induction l as [|w l IH]; intros q; cbn [recv_all]; [apply LW_refl|].
  pose proof (recv1_W w q) as H. destruct (recv1 w q) as [[r w1] q1]. cbn [fst snd] in H.
  destruct r.
  - specialize (IH q1). destruct (recv_all l q1) as [[[o l1] q2] ms]. cbn [fst snd] in *. eapply LW_cons; eauto.
  - cbn [fst snd]. eapply LW_cons; [exact H | apply LW_refl].
  - cbn [fst snd]. eapply LW_cons; [exact H | apply LW_refl].
  - cbn [fst snd]. eapply LW_cons; [exact H | apply LW_refl].
Qed.

Lemma release_all_LW l : forall q, LW l q (fst (release_all l q)) (snd (release_all l q)).
Proof.
  induction l as [|w l IH]; intros q; cbn [release_all]; [apply LW_refl|].
  pose proof (release_W w q) as H. destruct (release w q) as [w1 q1]. cbn [fst snd] in H.
  specialize (IH q1). destruct (release_all l q1) as [l1 q2]. cbn [fst snd] in *. eapply LW_cons; eauto.
Qed.

Lemma kill_idx_GW i l : GW l -> GW (kill_idx i l).
Proof. unfold GW, kill_idx. induction 1; cbn; constructor; auto. destruct (Nat.eqb (idx x) i); auto. Qed.

Lemma drop_idx_GW i l : GW l -> GW (drop_idx i l).
Proof. unfold GW, drop_idx. induction 1; cbn; constructor; auto. destruct (Nat.eqb (idx x) i); auto. Qed.

(* _raise_if_errors: what is re-raised is the type of a record that was in the queue *)
Lemma drain_real n : forall q l d, GW l -> GQ q ->
  let '(r, q2, l2) := drain n q l d in
  GW l2 /\ GQ q2 /\ (forall x, r = DOk x -> x = d \/ real x) /\ (0 < n -> forall x, r = DOk x -> real x).
Proof.
  induction n as [|n IH]; intros q l d Hw Hq; cbn [drain].
  - repeat split; auto; [intros x [= <-]; auto | lia].
  - destruct q as [|[i e] q']; [repeat split; auto; discriminate|].
    inversion Hq as [|? ? He Hq']; subst. cbn [snd] in He.
    destruct (is_dropped_idx i l); [repeat split; auto; discriminate|].
    specialize (IH q' (drop_idx i l) e (drop_idx_GW i l Hw) Hq').
    destruct (drain n q' (drop_idx i l) e) as [[r q2] l2]. destruct IH as (H1 & H2 & H3 & _).
    repeat split; auto.
    + intros x Hx. destruct (H3 x Hx) as [->|]; auto.
    + intros _ x Hx. destruct (H3 x Hx) as [->|]; auto.
Qed.

Lemma finish_real e l q ms : GW l -> GQ q ->
  let '(o, e') := finish e l q ms in GW (ws e') /\ GQ (eq e') /\ (forall x, o = Exc x -> real x).
Proof.
  intros Hw Hq. unfold finish. destruct (Nat.eqb (count_false ms) 0) eqn:Hz.
  - cbn. repeat split; auto. discriminate.
  - apply Nat.eqb_neq in Hz. pose proof (drain_real (count_false ms) q l 0 Hw Hq) as H.
    destruct (drain (count_false ms) q l 0) as [[r q2] l2]. destruct H as (H1 & H2 & _ & H4).
    destruct r; cbn; repeat split; auto; try discriminate.
    intros x [= <-]. apply H4; [lia | reflexivity].
Qed.

Lemma recv_all_not_exc l : forall q x, fst (fst (fst (recv_all l q))) = Some (Exc x) -> False.
Proof.
  induction l as [|w l IH]; intros q x; cbn [recv_all]; [discriminate|].
  destruct (recv1 w q) as [[r w1] q1]. destruct r; cbn; try discriminate.
  specialize (IH q1 x). destruct (recv_all l q1) as [[[o l1] q2] ms1]. cbn in *. exact IH.
Qed.

Definition GE (e : env) : Prop := GW (ws e) /\ GQ (eq e).

Lemma wait_core_real fin e : GE e ->
  GE (snd (wait_core fin e)) /\ (forall x, fst (wait_core fin e) = Exc x -> real x).
Proof.
  intros (Hw & Hq). unfold wait_core. destruct (fin && negb (poll_all (ws e))).
  { cbn. repeat split; auto. discriminate. }
  pose proof (recv_all_LW (ws e) (eq e)) as H. pose proof (recv_all_not_exc (ws e) (eq e)) as Hne.
  destruct (recv_all (ws e) (eq e)) as [[[r l] q] ms]. cbn [fst snd] in H, Hne.
  destruct (LW_keeps _ _ _ _ H Hw Hq) as (Hw' & Hq').
  destruct r as [err|].
  - cbn. repeat split; auto. intros x Hx. subst err. exfalso. exact (Hne x eq_refl).
  - pose proof (finish_real e l q ms Hw' Hq') as Hf. destruct (finish e l q ms) as [o e']. cbn [fst snd].
    destruct Hf as (H1 & H2 & H3). repeat split; auto.
Qed.
End Genuine.

Lemma send_all_not_exc c l : forall q x, fst (fst (send_all c l q)) = Some (Exc x) -> False.
Proof.
  induction l as [|w l IH]; intros q x; cbn [send_all]; [discriminate|].
  destruct (dropped w); [discriminate|]. destruct (is_dead (stat w)); [discriminate|].
  destruct (deliver c w q) as [w1 q1]. specialize (IH q1 x). destruct (send_all c l q1) as [[r l1] q2]. exact IH.
Qed.

Definition GI (plans0 : list (nat -> behav)) (e : env) : Prop := closed e = true \/ GE plans0 e.

Lemma async_cmd_real plans0 c k e : GE plans0 e ->
  GE plans0 (snd (async_cmd c k e)) /\ (forall x, fst (async_cmd c k e) = Exc x -> real plans0 x).
Proof.
  intros (Hw & Hq). unfold async_cmd. destruct (closed e); [split; [split; auto | discriminate]|].
  destruct (negb (pst_eqb (st e) DEFAULT)); [split; [split; auto | discriminate]|].
  pose proof (send_all_LW plans0 c (ws e) (eq e)) as H. pose proof (send_all_not_exc c (ws e) (eq e)) as Hne.
  destruct (send_all c (ws e) (eq e)) as [[r l] q]. cbn [fst snd] in *.
  destruct (LW_keeps _ _ _ _ _ H Hw Hq) as (Hw' & Hq').
  destruct r; cbn; (split; [split; auto|]); intros x Hx; try discriminate.
  subst. exfalso. exact (Hne x eq_refl).
Qed.

Lemma wait_real plans0 k fin e : GE plans0 e ->
  GE plans0 (snd (wait k fin e)) /\ (forall x, fst (wait k fin e) = Exc x -> real plans0 x).
Proof.
  intros HG. unfold wait. destruct (closed e); [split; [exact HG | discriminate]|].
  destruct (negb (pst_eqb (st e) (wst k))); [split; [exact HG | discriminate]|].
  apply wait_core_real. exact HG.
Qed.

Lemma set_attr_real plans0 e : GE plans0 e ->
  GE plans0 (snd (set_attr e)) /\ (forall x, fst (set_attr e) = Exc x -> real plans0 x).
Proof.
  intros (Hw & Hq). unfold set_attr. destruct (closed e); [split; [split; auto | discriminate]|].
  destruct (negb (pst_eqb (st e) DEFAULT)); [split; [split; auto | discriminate]|].
  pose proof (send_all_LW plans0 CEnv (ws e) (eq e)) as H. pose proof (send_all_not_exc CEnv (ws e) (eq e)) as Hne.
  destruct (send_all CEnv (ws e) (eq e)) as [[r l] q]. cbn [fst snd] in *.
  destruct (LW_keeps _ _ _ _ _ H Hw Hq) as (Hw' & Hq').
  destruct r.
  { cbn. split; [split; auto|]. intros x Hx. subst. exfalso. exact (Hne x eq_refl). }
  pose proof (recv_all_LW plans0 l q) as H2. pose proof (recv_all_not_exc l q) as Hne2.
  destruct (recv_all l q) as [[[r2 l2] q2] ms]. cbn [fst snd] in *.
  destruct (LW_keeps _ _ _ _ _ H2 Hw' Hq') as (Hw2 & Hq2).
  destruct r2.
  { cbn. split; [split; auto|]. intros x Hx. subst. exfalso. exact (Hne2 x eq_refl). }
  pose proof (finish_real plans0 e l2 q2 ms Hw2 Hq2) as Hf. destruct (finish e l2 q2 ms) as [o e'].
  destruct Hf as (H3 & H4 & H5). cbn. split; [split; auto | auto].
Qed.

Lemma step_GI plans0 e o : Inv e -> GI plans0 e ->
  GI plans0 (snd (step e o)) /\ (forall x, fst (step e o) = Exc x -> real plans0 x).
Proof.
  intros HI HG. destruct (closed e) eqn:Hc.
  - (* closed: nothing raises any more *)
    destruct o; cbn [step step_gen];
      unfold async, call_bad, async_cmd, wait, set_attr, close_gen; rewrite ?Hc; cbn [fst snd];
      try (split; [left; exact Hc | discriminate]).
    + destruct (release_all (ws e) (eq e)) as [l q]. cbn. split; [left; reflexivity | discriminate].
    + split; [left; cbn; first [exact Hc | reflexivity] | discriminate].
  - destruct HG as [HG|HG]; [congruence|].
    destruct o; cbn [step step_gen].
    + destruct (async_cmd_real plans0 CEnv k e HG) as (H1 & H2). split; [right; exact H1 | exact H2].
    + destruct (wait_real plans0 k fin e HG) as (H1 & H2). split; [right; exact H1 | exact H2].
    + destruct (async_cmd_real plans0 CBad KCall e HG) as (H1 & H2). split; [right; exact H1 | exact H2].
    + destruct (set_attr_real plans0 e HG) as (H1 & H2). split; [right; exact H1 | exact H2].
    + destruct HI as [(Hc' & _)|(_ & HO)]; [congruence|].
      destruct (close_total_open fin term e Hc HO) as (H1 & H2 & _). unfold close in *.
      split; [left; exact H2|]. intros x Hx. rewrite H1 in Hx. discriminate.
    + destruct HG as (Hw & Hq). pose proof (release_all_LW plans0 (ws e) (eq e)) as H.
      destruct (release_all (ws e) (eq e)) as [l q]. cbn [fst snd] in *.
      destruct (LW_keeps _ _ _ _ _ H Hw Hq) as (Hw' & Hq'). split; [right; split; auto | discriminate].
    + destruct HG as (Hw & Hq). cbn. split; [right; split; [apply kill_idx_GW; auto | auto] | discriminate].
Qed.

Lemma run_real plans0 ops : forall e, Inv e -> GI plans0 e ->
  Forall (fun o => forall x, o = Exc x -> real plans0 x) (fst (run e ops)).
Proof.
  induction ops as [|o ops IH]; intros e HI HG; unfold run in *; cbn [run_gen]; [constructor|].
  pose proof (step_Inv e o HI) as HI'. destruct (step_GI plans0 e o HI HG) as (HG' & Hx).
  unfold step in *. destruct (step_gen V_current e o) as [r e1]. cbn [fst snd] in *.
  specialize (IH e1 HI' HG'). destruct (run_gen V_current e1 ops) as [rs e2]. cbn [fst] in *.
  constructor; auto.
Qed.

Lemma mk_workers_plan plans : forall i, map plan (mk_workers i plans) = plans.
Proof. induction plans as [|p ps IH]; intros i; cbn; [reflexivity|]. rewrite IH. reflexivity. Qed.

(* every exception type that any call of any run re-raises was raised by a sub-environment according to
   its plan, or is the workers' own ValueError (type 0) for a forbidden remote call *)
Theorem exception_is_genuine_lemma : forall plans ops x,
  In (Exc x) (fst (run (init plans) ops)) ->
  x = EValueError \/ exists p n, In p plans /\ p n = Raise x.
Proof.
  intros plans ops x Hin.
  assert (HG : GI plans (init plans)).
  { right. split; [|constructor]. unfold GW, init. cbn [ws]. rewrite Forall_forall. intros w Hw.
    pose proof (in_map plan _ _ Hw) as Hm. rewrite mk_workers_plan in Hm. exact Hm. }
  pose proof (run_real plans ops (init plans) (init_Inv plans) HG) as H.
  rewrite Forall_forall in H. exact (H (Exc x) Hin x eq_refl).
Qed.

(* the timeout path changes nothing but the state: every answer stays where it was (this is what leaves
   stale answers behind — the separately reported clause) *)
Lemma recv_all_err l : forall q o, fst (fst (fst (recv_all l q))) = Some o -> o = EOFErr \/ o = Hang \/ o = AttrErr.
Proof.
  induction l as [|w l IH]; intros q o; cbn [recv_all]; [discriminate|].
  destruct (recv1 w q) as [[r w1] q1]. destruct r; cbn; try (intros [= <-]; auto).
  specialize (IH q1 o). destruct (recv_all l q1) as [[[o' l1] q2] ms1]. cbn in *. exact IH.
Qed.

Theorem timeout_only_resets_state_lemma fin e :
  fst (wait_core fin e) = Timeout ->
  snd (wait_core fin e) = mkE DEFAULT (closed e) (ws e) (eq e) (got e) /\ fin = true /\ poll_all (ws e) = false.
Proof.
  unfold wait_core. destruct (fin && negb (poll_all (ws e))) eqn:Hc.
  - intros _. apply andb_true_iff in Hc as (-> & Hp). apply negb_true_iff in Hp. auto.
  - pose proof (recv_all_err (ws e) (eq e)) as He.
    destruct (recv_all (ws e) (eq e)) as [[[r l] q] ms]. cbn [fst] in He. destruct r as [o|].
    + cbn. intros ->. destruct (He Timeout eq_refl) as [H|[H|H]]; discriminate.
    + unfold finish. destruct (Nat.eqb (count_false ms) 0); [discriminate|].
      destruct (drain (count_false ms) q l 0) as [[d q2] l2]. destruct d; discriminate.
Qed.
