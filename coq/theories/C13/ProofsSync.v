(* C13 — proofs, part 7: the synchronous wrappers reset() / step() / call() (X_async, then X_wait without timeout)
   inherit every clause: misuse rejected and transparent, faults and deaths surface, healthy calls return this
   call's answers, the invariant of reachable states is kept (so close() stays total after any mix of wrappers and
   asynchronous calls), re-raised exception types are genuine, and a wrapper never leaves a call pending unless a
   worker is gone. Argument errors change nothing. *)
From Coq Require Import List Arith Bool Lia.
Import ListNotations.
From AgileV Require Import C13.Model C13.Proofs C13.ProofsInv C13.ProofsSurface C13.ProofsGenuine C13.ProofsDeath.

Lemma sync_closed k e : closed e = true -> sync k e = (ClosedErr, e).
Proof. intros H. unfold sync, async, async_cmd. rewrite H. reflexivity. Qed.

Lemma sync_pending k e : closed e = false -> st e <> DEFAULT -> sync k e = (AlreadyPending, e).
Proof.
  intros Hc Hs. unfold sync, async, async_cmd. rewrite Hc. apply pst_eqb_neq in Hs. rewrite Hs. reflexivity.
Qed.

Theorem sync_misuse_rejected_lemma k e :
  (closed e = true -> sync k e = (ClosedErr, e)) /\
  (closed e = false -> st e <> DEFAULT -> sync k e = (AlreadyPending, e)).
Proof. split; [apply sync_closed | apply sync_pending]. Qed.

Lemma sync_unfold k e : fst (async k e) = Ok -> sync k e = wait k false (snd (async k e)).
Proof. unfold sync. destruct (async k e) as [o1 e1]. cbn. intros ->. reflexivity. Qed.

Theorem sync_healthy_lemma k e :
  clean e -> Forall (fun w => next w = Normal) (ws e) ->
  fst (sync k e) = Ok /\ clean (snd (sync k e)) /\ got (snd (sync k e)) = map nseen (ws e) /\
  ws (snd (sync k e)) = map emptied (ws e).
Proof.
  intros Hc Hn. destruct (healthy_round_lemma k false e Hc Hn) as (Ha & H1 & H2 & H3 & _ & _ & H6).
  rewrite (sync_unfold k e Ha). auto.
Qed.

Theorem sync_fault_surfaces_lemma k e :
  clean e -> Forall calm (ws e) -> raised (ws e) <> [] ->
  fst (sync k e) = Exc (last (map snd (raised (ws e))) 0) /\ st (snd (sync k e)) = DEFAULT /\
  closed (snd (sync k e)) = false.
Proof.
  intros Hc Hm Hr. destruct (fault_surfaces_lemma k false e Hc Hm Hr) as (Ha & H1 & _ & H3 & H4).
  rewrite (sync_unfold k e Ha). auto.
Qed.

Theorem sync_death_surfaces_lemma k e :
  clean e -> Forall mortal (ws e) -> Exists (fun w => next w = Die) (ws e) ->
  fst (sync k e) = EOFErr /\ st (snd (sync k e)) = wst k /\ closed (snd (sync k e)) = false.
Proof.
  intros Hc Hm He. destruct (death_surfaces_lemma k false e Hc Hm He) as (Ha & H1 & H2 & H3).
  rewrite (sync_unfold k e Ha). auto.
Qed.

Theorem sync_Inv_lemma k e : Inv e -> Inv (snd (sync k e)).
Proof.
  intros HI. pose proof (step_Inv e (OAsync k) HI) as H1. cbn [step step_gen] in H1.
  unfold sync. destruct (async k e) as [o1 e1]. cbn [snd] in H1.
  destruct o1; try exact H1.
  pose proof (step_Inv e1 (OWait k false) H1) as H2. exact H2.
Qed.

Theorem close_total_from_inv_lemma fin term e : Inv e ->
  fst (close fin term e) = Ok /\ closed (snd (close fin term e)) = true /\
  Forall (fun w => stat w = Dead) (ws (snd (close fin term e))).
Proof.
  intros [(Hc & Hd)|(Hc & HI)].
  - unfold close, close_gen. rewrite Hc. cbn. auto.
  - apply close_total_open; auto.
Qed.

Theorem sync_genuine_lemma plans0 k e : Inv e -> GI plans0 e ->
  GI plans0 (snd (sync k e)) /\ (forall x, fst (sync k e) = Exc x -> real plans0 x).
Proof.
  intros HI HG. destruct (step_GI plans0 e (OAsync k) HI HG) as (G1 & X1).
  pose proof (step_Inv e (OAsync k) HI) as I1. cbn [step step_gen] in G1, X1, I1.
  unfold sync. destruct (async k e) as [o1 e1]. cbn [fst snd] in *.
  destruct o1; try (split; [exact G1 | exact X1]).
  destruct (step_GI plans0 e1 (OWait k false) I1 G1) as (G2 & X2). split; [exact G2 | exact X2].
Qed.

Lemma send_all_err c l : forall q o, fst (fst (send_all c l q)) = Some o -> o = AttrErr \/ o = BrokenPipe.
Proof.
  induction l as [|w l IH]; intros q o; cbn [send_all]; [discriminate|].
  destruct (dropped w); [intros [= <-]; auto|]. destruct (is_dead (stat w)); [intros [= <-]; auto|].
  destruct (deliver c w q) as [w1 q1]. specialize (IH q1 o). destruct (send_all c l q1) as [[r l1] q2]. exact IH.
Qed.

(* a wrapper leaves a call pending only when a worker is gone (EOF), a pipe was dropped, or it never returned *)
Theorem sync_leaves_nothing_pending_lemma k e :
  closed e = false -> st e = DEFAULT -> st (snd (sync k e)) <> DEFAULT ->
  fst (sync k e) = EOFErr \/ fst (sync k e) = Hang \/ fst (sync k e) = AttrErr.
Proof.
  intros Hc Hs. unfold sync, async, async_cmd. rewrite Hc, Hs. cbn [pst_eqb negb].
  pose proof (send_all_err CEnv (ws e) (eq e)) as Hse.
  destruct (send_all CEnv (ws e) (eq e)) as [[r l] q]. cbn [fst] in Hse. destruct r as [err|].
  - destruct (Hse err eq_refl) as [-> | ->]; cbn; intros H; exfalso; apply H; reflexivity.
  - unfold wait. cbn [closed st]. rewrite pst_eqb_refl. cbn [negb].
    unfold wait_core. cbn [andb ws eq].
    pose proof (recv_all_err l q) as He. destruct (recv_all l q) as [[[r2 l2] q2] ms]. cbn [fst] in He.
    destruct r2 as [err|].
    + cbn. intros _. exact (He err eq_refl).
    + unfold finish. destruct (Nat.eqb (count_false ms) 0).
      * cbn. intros H. exfalso. apply H. reflexivity.
      * destruct (drain (count_false ms) q2 l2 0) as [[d q3] l3]. destruct d; cbn; auto.
        intros H. exfalso. apply H. reflexivity.
Qed.

Theorem arg_rejected_unchanged_lemma e :
  snd (arg_rejected e) = e /\ (closed e = false -> fst (fst (arg_rejected e)) = true) /\
  (closed e = true -> fst (arg_rejected e) = (false, ClosedErr)).
Proof. unfold arg_rejected. destruct (closed e); cbn; repeat split; auto; discriminate. Qed.
