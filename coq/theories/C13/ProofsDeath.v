(* C13 — proofs, part 6: the death of a worker with a call pending surfaces, whatever the victim's index.
   Clean environment, any number of workers; on the pending command every sub-environment answers, raises or
   dies without a word (SIGKILL), at least one dies: X_async succeeds and the matching X_wait — with or without
   timeout — returns EOFError at once (never Hang, never a silent Ok), for a victim at ANY position. *)
From Coq Require Import List Arith Bool Lia.
Import ListNotations.
From AgileV Require Import C13.Model C13.Proofs C13.ProofsSurface.

Definition mortal (w : worker) : Prop := calm w \/ next w = Die.

Lemma after_die w : fresh w -> next w = Die ->
  dropped (after w) = false /\ outq (after w) = [] /\ stat (after w) = Dead.
Proof.
  intros (Hs & Hd & Hi & Ho) Hn. unfold after, react, next in *. rewrite Hn. cbn. auto.
Qed.

Lemma poll_after_mortal l : Forall fresh l -> Forall mortal l -> poll_all (map after l) = true.
Proof.
  unfold poll_all. induction l as [|w l IH]; intros Hf Hm; cbn; [reflexivity|].
  inversion Hf; inversion Hm; subst. rewrite IH by assumption. rewrite andb_true_r.
  unfold pollable. destruct H5 as [Hc|Hd].
  - destruct (after_calm w H1 Hc) as (Hdr & Ho & _). rewrite Hdr, Ho. reflexivity.
  - destruct (after_die w H1 Hd) as (Hdr & Ho & Hs). rewrite Hdr, Ho, Hs. reflexivity.
Qed.

Lemma recv_after_death l : Forall fresh l -> Forall mortal l -> Exists (fun w => next w = Die) l ->
  forall q, fst (fst (fst (recv_all (map after l) q))) = Some EOFErr.
Proof.
  induction l as [|w l IH]; intros Hf Hm He q; [inversion He|].
  inversion Hf; inversion Hm; subst. cbn [map recv_all].
  destruct H5 as [Hc|Hd].
  - destruct (after_calm w H1 Hc) as (Hdr & Ho & _).
    unfold recv1. rewrite Hdr, Ho. unfold msgof.
    assert (He' : Exists (fun w => next w = Die) l).
    { inversion He; subst; auto. exfalso. destruct Hc as [Hc|(x & Hc)]; congruence. }
    specialize (IH H2 H6 He' q). destruct (recv_all (map after l) q) as [[[o l1] q1] ms]. exact IH.
  - destruct (after_die w H1 Hd) as (Hdr & Ho & Hs).
    unfold recv1. rewrite Hdr, Ho, Hs. reflexivity.
Qed.

Theorem death_surfaces_lemma k fin e :
  clean e -> Forall mortal (ws e) -> Exists (fun w => next w = Die) (ws e) ->
  fst (async k e) = Ok /\
  let r := wait k fin (snd (async k e)) in
  fst r = EOFErr /\ st (snd r) = wst k /\ closed (snd r) = false.
Proof.
  intros (Hc & Hst & Hq & Hf & Hn) Hm He.
  unfold async, async_cmd. rewrite Hc, Hst. cbn [pst_eqb negb].
  rewrite (send_fresh _ Hf). cbn [fst snd]. split; [reflexivity|].
  unfold wait. cbn [closed st]. rewrite pst_eqb_refl. cbn [negb].
  unfold wait_core. cbn [ws eq]. rewrite (poll_after_mortal _ Hf Hm). rewrite andb_false_r.
  pose proof (recv_after_death _ Hf Hm He (eq e ++ raised (ws e))) as Hr.
  destruct (recv_all (map after (ws e)) (eq e ++ raised (ws e))) as [[[o l] q] ms]. cbn [fst] in Hr. subst o.
  cbn. auto.
Qed.
