(* C13 — proofs, part 8: workers may be killed (and sleepers may wake up) at ANY moment between X_async and the
   matching X_wait, any number of times, any indices: the wait never hangs — it returns answers, re-raises an
   exception or reports the death (EOFError) — and close() stays total. Unbounded in the number of workers, the
   fault plans, the history before the call and the sequence of kills / wake-ups. *)
From Coq Require Import List Arith Bool Lia.
Import ListNotations.
From AgileV Require Import C13.Model C13.Proofs C13.ProofsInv C13.ProofsGenuine C13.ProofsSync.

Lemma recv1_dor w q : dor w -> fst (fst (recv1 w q)) <> RHang.
Proof.
  intros Hd. unfold recv1. destruct (dropped w); [discriminate|].
  destruct (outq w) as [|[ok s] rest] eqn:Ho; [|discriminate].
  destruct (stat w) eqn:Hs.
  - exfalso. destruct Hd as [Hd|[Hd|Hd]].
    + unfold dead in Hd. congruence.
    + congruence.
    + rewrite Hs in Hd. discriminate.
  - pose proof (release_blocked_outq w q s Hs) as Hne. destruct (release w q) as [w1 q1]. cbn [fst] in Hne.
    destruct (outq w1) as [|[ok s1] rest]; [congruence | discriminate].
  - discriminate.
Qed.

Lemma recv_all_dor l : forall q, Forall dor l -> fst (fst (fst (recv_all l q))) <> Some Hang.
Proof.
  induction l as [|w l IH]; intros q Hd; cbn [recv_all]; [discriminate|].
  inversion Hd; subst. pose proof (recv1_dor w q H1) as Hr.
  destruct (recv1 w q) as [[r w1] q1]. cbn [fst] in Hr.
  destruct r; cbn; try discriminate; try congruence.
  specialize (IH q1 H2). destruct (recv_all l q1) as [[[o l1] q2] ms]. exact IH.
Qed.

Definition all_dor (e : env) : Prop := Forall dor (ws e).

Theorem wait_core_dor_no_hang fin e : InvOpen e -> all_dor e -> fst (wait_core fin e) <> Hang.
Proof.
  intros (HJ & _) Hd. unfold wait_core. destruct (fin && negb (poll_all (ws e))); [discriminate|].
  pose proof (recv_all_Sweep (ws e) (eq e)) as HS. pose proof (recv_all_dor (ws e) (eq e) Hd) as Hh.
  destruct (recv_all (ws e) (eq e)) as [[[r l] q] ms]. cbn [fst] in Hh.
  destruct HS as (c & HS & Hc). destruct (J_Sweep _ _ _ _ _ HJ HS) as (HJ' & Hle & _).
  destruct r as [err|].
  - cbn. intros ->. apply Hh. reflexivity.
  - rewrite (Hc eq_refl) in Hle. pose proof (finish_inv e l q ms HJ' Hle) as Hf.
    destruct (finish e l q ms) as [o e']. cbn. destruct Hf as (_ & Hn & _). exact Hn.
Qed.

(* kills and wake-ups, in any number and order *)
Definition harness_op (o : op) : Prop := match o with OKill _ | ORelease => True | _ => False end.

Lemma harness_step e o : harness_op o -> closed e = false -> InvOpen e -> all_dor e ->
  closed (snd (step e o)) = false /\ InvOpen (snd (step e o)) /\ all_dor (snd (step e o)) /\ st (snd (step e o)) = st e.
Proof.
  intros Ho Hc HI Hd. destruct o; try contradiction; cbn [step step_gen].
  - pose proof (release_op_inv e HI) as H1. pose proof (release_all_dor (ws e) (eq e) Hd) as H2.
    destruct (release_all (ws e) (eq e)) as [l q]. cbn [fst snd] in *. unfold all_dor. cbn [closed ws st].
    split; [exact Hc | split; [exact H1 | split; [exact H2 | reflexivity]]].
  - cbn [snd]. unfold all_dor. cbn [closed ws st].
    split; [exact Hc | split; [apply kill_op_inv; exact HI | split; [apply kill_idx_dor; exact Hd | reflexivity]]].
Qed.

Lemma harness_run ops : forall e, Forall harness_op ops -> closed e = false -> InvOpen e -> all_dor e ->
  closed (snd (run e ops)) = false /\ InvOpen (snd (run e ops)) /\ all_dor (snd (run e ops)) /\ st (snd (run e ops)) = st e.
Proof.
  induction ops as [|o ops IH]; intros e Hf Hc HI Hd; rewrite run_snd; cbn [fold_left]; [auto|].
  inversion Hf; subst. destruct (harness_step e o H1 Hc HI Hd) as (A & B & C & D).
  rewrite <- run_snd. destruct (IH (snd (step e o)) H2 A B C) as (A' & B' & C' & D').
  split; [exact A' | split; [exact B' | split; [exact C' | rewrite D'; exact D]]].
Qed.

Theorem kill_any_time_no_hang_lemma k fin ops e :
  closed e = false -> InvOpen e -> fst (async k e) = Ok -> Forall harness_op ops ->
  let e2 := snd (run (snd (async k e)) ops) in
  fst (wait k fin e2) <> Hang /\ fst (wait k fin e2) <> NoAsyncCall /\ fst (wait k fin e2) <> ClosedErr /\
  fst (close false false (snd (wait k fin e2))) = Ok.
Proof.
  intros Hc HI Ha Hops.
  assert (H1 : closed (snd (async k e)) = false /\ InvOpen (snd (async k e)) /\ all_dor (snd (async k e)) /\
               st (snd (async k e)) = wst k).
  { pose proof (async_cmd_inv CEnv k e HI) as Hinv. revert Ha Hinv. unfold async, async_cmd, all_dor. rewrite Hc.
    destruct (negb (pst_eqb (st e) DEFAULT)); [discriminate|].
    pose proof (send_all_dor CEnv (ws e) (eq e)) as Hd. pose proof (send_all_err CEnv (ws e) (eq e)) as Hse.
    destruct (send_all CEnv (ws e) (eq e)) as [[r l] q]. cbn [fst snd] in Hd, Hse.
    destruct r as [o|]; [cbn; intros Hx; destruct (Hse o eq_refl) as [X|X]; subst; discriminate|].
    cbn. intros _ Hinv. split; [reflexivity | split; [exact Hinv | split; [apply Hd; reflexivity | reflexivity]]]. }
  destruct H1 as (A & B & C & D).
  destruct (harness_run ops _ Hops A B C) as (A' & B' & C' & D'). cbn zeta.
  set (e2 := snd (run (snd (async k e)) ops)) in *.
  assert (Hw : wait k fin e2 = wait_core fin e2).
  { unfold wait. rewrite A', D', D, pst_eqb_refl. reflexivity. }
  rewrite Hw. pose proof (wait_core_dor_no_hang fin e2 B' C') as Hn.
  split; [exact Hn|]. split; [|split].
  - unfold wait_core. destruct (fin && negb (poll_all (ws e2))); [discriminate|].
    pose proof (recv_all_err (ws e2) (eq e2)) as He. destruct (recv_all (ws e2) (eq e2)) as [[[r l] q] ms]. cbn [fst] in He.
    destruct r as [o|]; [cbn; intros ->; destruct (He NoAsyncCall eq_refl) as [X|[X|X]]; discriminate|].
    unfold finish. destruct (Nat.eqb (count_false ms) 0); [discriminate|].
    destruct (drain (count_false ms) q l 0) as [[d q2] l2]. destruct d; discriminate.
  - unfold wait_core. destruct (fin && negb (poll_all (ws e2))); [discriminate|].
    pose proof (recv_all_err (ws e2) (eq e2)) as He. destruct (recv_all (ws e2) (eq e2)) as [[[r l] q] ms]. cbn [fst] in He.
    destruct r as [o|]; [cbn; intros ->; destruct (He ClosedErr eq_refl) as [X|[X|X]]; discriminate|].
    unfold finish. destruct (Nat.eqb (count_false ms) 0); [discriminate|].
    destruct (drain (count_false ms) q l 0) as [[d q2] l2]. destruct d; discriminate.
  - assert (HI2 : Inv (snd (wait_core fin e2))).
    { rewrite <- Hw. apply (step_Inv e2 (OWait k fin)). right. split; auto. }
    destruct HI2 as [(Hc2 & Hd2)|(Hc2 & HO2)].
    + unfold close, close_gen. rewrite Hc2. reflexivity.
    + apply close_total_open; auto.
Qed.
