(* C13 — proofs, part 2: an invariant of all reachable states and totality of close(). *)
From Coq Require Import List Arith Bool Lia.
Import ListNotations.
From AgileV Require Import C13.Model C13.Proofs.

(* ------------------------------------------------------------------ counting failure messages *)
Definition falses (w : worker) : nat := count_false (outq w).
Fixpoint sumf (l : list worker) : nat := match l with [] => 0 | w :: l' => falses w + sumf l' end.

Lemma count_false_app a b : count_false (a ++ b) = count_false a + count_false b.
Proof. unfold count_false. rewrite filter_app, app_length. reflexivity. Qed.
Lemma count_false_cons ok s r : count_false ((ok, s) :: r) = (if ok then 0 else 1) + count_false r.
Proof. unfold count_false. destruct ok; cbn; reflexivity. Qed.

(* ------------------------------------------------------------------ one worker, one event *)
Definition T (c : nat) (w : worker) (q : errq) (w' : worker) (q' : errq) : Prop :=
  idx w' = idx w /\ dropped w' = dropped w /\ (stat w = Dead -> stat w' = Dead) /\
  exists new, q' = q ++ new /\ Forall (fun ie => fst ie = idx w) new /\ (new <> [] -> stat w' = Dead) /\
              falses w' + c <= falses w + length new.

Lemma T_simple w q w' :
  idx w' = idx w -> dropped w' = dropped w -> (stat w = Dead -> stat w' = Dead) -> falses w' <= falses w ->
  T 0 w q w' q.
Proof.
  intros. repeat split; auto. exists []. rewrite app_nil_r. repeat split; auto; [congruence | cbn; lia].
Qed.
Ltac tsimple := apply T_simple; cbn; auto; try (intros; congruence); try (unfold falses; cbn; lia).
Lemma T_refl w q : T 0 w q w q.
Proof. apply T_simple; auto. Qed.

Lemma T_trans c1 c2 w q w1 q1 w2 q2 :
  T c1 w q w1 q1 -> T c2 w1 q1 w2 q2 -> T (c1 + c2) w q w2 q2.
Proof.
  intros (I1 & D1 & K1 & n1 & -> & F1 & N1 & L1) (I2 & D2 & K2 & n2 & -> & F2 & N2 & L2).
  repeat split; try congruence; auto.
  exists (n1 ++ n2). rewrite app_assoc. repeat split; auto.
  - apply Forall_app; split; auto. rewrite I1 in F2. exact F2.
  - intros H. destruct n2 as [|x n2]; [| apply N2; discriminate].
    rewrite app_nil_r in H. auto.
  - rewrite app_length. lia.
Qed.

Lemma react_T c w q : stat w = Idle -> T 0 w q (fst (react c w q)) (snd (react c w q)).
Proof.
  intros Hs. unfold T, react, falses.
  destruct c; [destruct (plan w (nseen w))| |]; cbn [fst snd idx dropped stat outq];
    repeat split; auto; try (rewrite Hs; discriminate).
  all: try (exists []; rewrite app_nil_r; repeat split; auto; try congruence;
            rewrite ?count_false_app; cbn; lia).
  all: eexists [_]; repeat split; auto; rewrite ?count_false_app; cbn; lia.
Qed.

Lemma pump_T cs : forall w q, T 0 w q (fst (pump cs w q)) (snd (pump cs w q)).
Proof.
  induction cs as [|c cs IH]; intros w q; cbn [pump].
  - tsimple.
  - destruct (stat w) eqn:Hs.
    + pose proof (react_T c w q Hs) as H. destruct (react c w q) as [w1 q1]. cbn [fst snd] in H.
      cbn iota. apply (T_trans 0 0 w q w1 q1); [exact H | apply IH].
    + tsimple.
    + tsimple.
Qed.

Lemma deliver_T c w q : T 0 w q (fst (deliver c w q)) (snd (deliver c w q)).
Proof.
  unfold deliver. destruct (stat w) eqn:Hs.
  - apply react_T; auto.
  - tsimple.
  - apply T_refl.
Qed.

Lemma release_T w q : T 0 w q (fst (release w q)) (snd (release w q)).
Proof.
  unfold release. destruct (stat w) eqn:Hs; try apply T_refl.
  eapply (T_trans 0 0); [| apply pump_T].
  apply T_simple; cbn [idx dropped stat]; auto.
  - intros; congruence.
  - unfold falses; cbn [outq]. rewrite count_false_app. cbn. lia.
Qed.

Definition cost (r : rres) : nat := match r with RMsg false _ => 1 | _ => 0 end.

Lemma set_outq_pop_T w q ok s rest :
  outq w = (ok, s) :: rest -> T (if ok then 0 else 1) w q (set_outq w rest) q.
Proof.
  intros Ho. repeat split; auto. exists []. rewrite app_nil_r. repeat split; auto; try congruence.
  unfold falses, set_outq; cbn [outq length]. rewrite Ho, count_false_cons. destruct ok; lia.
Qed.

Lemma cost_msg ok s : cost (RMsg ok s) = if ok then 0 else 1.
Proof. destruct ok; reflexivity. Qed.

Lemma recv1_T w q : T (cost (fst (fst (recv1 w q)))) w q (snd (fst (recv1 w q))) (snd (recv1 w q)).
Proof.
  unfold recv1. destruct (dropped w); [apply T_refl|].
  destruct (outq w) as [|[ok s] rest] eqn:Ho.
  - destruct (stat w) eqn:Hs; try apply T_refl.
    pose proof (release_T w q) as H. destruct (release w q) as [w1 q1]. cbn [fst snd] in H.
    destruct (outq w1) as [|[ok s1] rest] eqn:Ho1; cbn [fst snd]; auto.
    rewrite cost_msg.
    apply (T_trans 0 (if ok then 0 else 1) w q w1 q1); [exact H|]. eapply set_outq_pop_T; eauto.
  - cbn [fst snd]. rewrite cost_msg. eapply set_outq_pop_T; eauto.
Qed.

Lemma kill_T w q : T 0 w q (kill w) q.
Proof. tsimple. Qed.

(* ------------------------------------------------------------------ a pass over all workers *)
Inductive Sweep : nat -> list worker -> errq -> list worker -> errq -> Prop :=
| Sweep_nil q : Sweep 0 [] q [] q
| Sweep_cons c c1 c2 w q w' q1 l l' q2 :
    T c1 w q w' q1 -> Sweep c2 l q1 l' q2 -> c = c1 + c2 -> Sweep c (w :: l) q (w' :: l') q2.

Lemma Sweep_refl l q : Sweep 0 l q l q.
Proof. induction l; econstructor; eauto using T_refl. Qed.

Definition Rw (w w' : worker) : Prop :=
  idx w' = idx w /\ dropped w' = dropped w /\ (stat w = Dead -> stat w' = Dead).

Lemma Sweep_post c l q l' q' : Sweep c l q l' q' ->
  Forall2 Rw l l' /\
  exists new, q' = q ++ new /\
              Forall (fun ie => exists w', In w' l' /\ idx w' = fst ie /\ stat w' = Dead) new /\
              sumf l' + c <= sumf l + length new.
Proof.
  induction 1 as [q|c c1 c2 w q w' q1 l l' q2 HT HS IH Hc].
  - split; [constructor|]. exists []. rewrite app_nil_r. repeat split; auto.
  - destruct HT as (I1 & D1 & K1 & n1 & -> & F1 & N1 & L1).
    destruct IH as (F2 & n2 & -> & W2 & L2).
    split; [constructor; [repeat split; auto | auto]|].
    exists (n1 ++ n2). rewrite app_assoc. repeat split; auto.
    + apply Forall_app; split.
      * rewrite Forall_forall in *. intros ie Hin. exists w'. split; [left; auto|].
        split; [rewrite I1; symmetry; apply F1; auto|]. apply N1. intros ->. inversion Hin.
      * rewrite Forall_forall in *. intros ie Hin. destruct (W2 ie Hin) as (w2 & Hw2 & ? & ?).
        exists w2. split; [right; auto | auto].
    + cbn [sumf]. rewrite app_length. lia.
Qed.

(* ------------------------------------------------------------------ the list-level invariant *)
Definition J (l : list worker) (q : errq) : Prop :=
  Forall (fun w => dropped w = true -> stat w = Dead) l /\
  sumf l <= length q /\
  Forall (fun ie => Forall (fun w => idx w = fst ie -> stat w = Dead) l) q /\
  NoDup (map idx l).

Lemma Forall2_Rw_idx l l' : Forall2 Rw l l' -> map idx l' = map idx l.
Proof. induction 1 as [|w w' l l' (H & _) _ IH]; cbn; congruence. Qed.

Lemma NoDup_map_inj {A B} (f : A -> B) l a b :
  NoDup (map f l) -> In a l -> In b l -> f a = f b -> a = b.
Proof.
  induction l as [|x l IH]; cbn; intros Hn Ha Hb Hf; [contradiction|].
  inversion Hn as [|? ? Hx Hn']; subst.
  destruct Ha as [->|Ha], Hb as [->|Hb]; auto.
  - exfalso. apply Hx. rewrite Hf. apply in_map; auto.
  - exfalso. apply Hx. rewrite <- Hf. apply in_map; auto.
Qed.

Lemma Forall2_Rw_dead l l' : Forall2 Rw l l' ->
  forall i, Forall (fun w => idx w = i -> stat w = Dead) l -> Forall (fun w => idx w = i -> stat w = Dead) l'.
Proof.
  induction 1 as [|w w' l l' (I & D & K) _ IH]; intros i Hf; constructor; inversion Hf; subst; auto.
  intros Hi. apply K. apply H1. congruence.
Qed.

Lemma J_Sweep c l q l' q' : J l q -> Sweep c l q l' q' -> J l' q' /\ sumf l' + c <= length q' /\ Forall2 Rw l l'.
Proof.
  intros (J1 & J3 & J5 & J6) HS. destruct (Sweep_post _ _ _ _ _ HS) as (F2 & new & -> & W & L).
  pose proof (Forall2_Rw_idx _ _ F2) as Hidx.
  assert (J6' : NoDup (map idx l')) by (rewrite Hidx; auto).
  split; [|split; [rewrite app_length; lia | auto]].
  repeat split; auto.
  - clear -F2 J1. induction F2 as [|w w' l l' (I & D & K) _ IH]; constructor; inversion J1; subst; auto.
    intros Hd. apply K. apply H1. congruence.
  - rewrite app_length. lia.
  - apply Forall_app; split.
    + rewrite Forall_forall in *. intros ie Hin. eapply Forall2_Rw_dead; eauto.
    + rewrite Forall_forall in *. intros ie Hin. destruct (W ie Hin) as (wd & Hwd & Hi & Hd).
      rewrite Forall_forall. intros w2 Hw2 Hi2.
      assert (w2 = wd) by (eapply NoDup_map_inj; eauto; congruence). subst; auto.
Qed.

(* ------------------------------------------------------------------ the list functions are sweeps *)
Lemma send_all_Sweep c l : forall q, Sweep 0 l q (snd (fst (send_all c l q))) (snd (send_all c l q)).
Proof.
  induction l as [|w l IH]; intros q; cbn [send_all].
  - constructor.
  - destruct (dropped w); [apply Sweep_refl|]. destruct (is_dead (stat w)); [apply Sweep_refl|].
    pose proof (deliver_T c w q) as HT. destruct (deliver c w q) as [w1 q1]. cbn [fst snd] in HT.
    specialize (IH q1). destruct (send_all c l q1) as [[r l1] q2]. cbn [fst snd] in *.
    econstructor; eauto.
Qed.

Lemma release_all_Sweep l : forall q, Sweep 0 l q (fst (release_all l q)) (snd (release_all l q)).
Proof.
  induction l as [|w l IH]; intros q; cbn [release_all].
  - constructor.
  - pose proof (release_T w q) as HT. destruct (release w q) as [w1 q1]. cbn [fst snd] in HT.
    specialize (IH q1). destruct (release_all l q1) as [l1 q2]. cbn [fst snd] in *.
    econstructor; eauto.
Qed.

Lemma kill_idx_Sweep i l q : Sweep 0 l q (kill_idx i l) q.
Proof.
  induction l as [|w l IH]; cbn; [constructor|].
  eapply (Sweep_cons 0 0 0); [| exact IH | reflexivity].
  destruct (Nat.eqb (idx w) i); [apply kill_T | apply T_refl].
Qed.

Lemma recv_all_Sweep l : forall q,
  let '(r, l', q', ms) := recv_all l q in
  exists c, Sweep c l q l' q' /\ (r = None -> c = count_false ms).
Proof.
  induction l as [|w l IH]; intros q; cbn [recv_all].
  - exists 0. split; [constructor | reflexivity].
  - pose proof (recv1_T w q) as HT. destruct (recv1 w q) as [[r w1] q1]. cbn [fst snd] in HT.
    destruct r as [ok s| | |].
    + specialize (IH q1). destruct (recv_all l q1) as [[[o l1] q2] ms]. destruct IH as (c & HS & Hc).
      exists (cost (RMsg ok s) + c). split; [econstructor; eauto|].
      intros Ho. rewrite (Hc Ho), count_false_cons. destruct ok; reflexivity.
    + exists 0. split; [econstructor; [exact HT | apply Sweep_refl | reflexivity] | discriminate].
    + exists 0. split; [econstructor; [exact HT | apply Sweep_refl | reflexivity] | discriminate].
    + exists 0. split; [econstructor; [exact HT | apply Sweep_refl | reflexivity] | discriminate].
Qed.

Lemma send_close_Sweep v l : forall q, Sweep 0 l q (snd (fst (send_close v l q))) (snd (send_close v l q)).
Proof.
  induction l as [|w l IH]; intros q; cbn [send_close].
  - constructor.
  - destruct (dropped w).
    { specialize (IH q). destruct (send_close v l q) as [[r l1] q1]. cbn [fst snd] in *.
      econstructor; eauto using T_refl. }
    destruct (is_dead (stat w)).
    { destruct (tol v); [|apply Sweep_refl].
      specialize (IH q). destruct (send_close v l q) as [[r l1] q1]. cbn [fst snd] in *.
      econstructor; eauto using T_refl. }
    pose proof (deliver_T CClose w q) as HT. destruct (deliver CClose w q) as [w1 q1]. cbn [fst snd] in HT.
    specialize (IH q1). destruct (send_close v l q1) as [[r l1] q2]. cbn [fst snd] in *.
    econstructor; eauto.
Qed.

Lemma recv_close_Sweep v l : forall q,
  exists c, Sweep c l q (snd (fst (recv_close v l q))) (snd (recv_close v l q)).
Proof.
  induction l as [|w l IH]; intros q; cbn [recv_close].
  - exists 0. constructor.
  - destruct (dropped w).
    { destruct (IH q) as (c & HS). destruct (recv_close v l q) as [[r l1] q1]. cbn [fst snd] in *.
      exists (0 + c). econstructor; eauto using T_refl. }
    pose proof (recv1_T w q) as HT. destruct (recv1 w q) as [[r w1] q1]. cbn [fst snd] in HT.
    destruct r as [ok s| | |].
    + destruct (IH q1) as (c & HS). destruct (recv_close v l q1) as [[r l1] q2]. cbn [fst snd] in *.
      eexists. econstructor; eauto.
    + destruct (tol v).
      * destruct (IH q1) as (c & HS). destruct (recv_close v l q1) as [[r l1] q2]. cbn [fst snd] in *.
        eexists. econstructor; eauto.
      * eexists. cbn [fst snd]. econstructor; [exact HT | apply Sweep_refl | reflexivity].
    + eexists. cbn [fst snd]. econstructor; [exact HT | apply Sweep_refl | reflexivity].
    + eexists. cbn [fst snd]. econstructor; [exact HT | apply Sweep_refl | reflexivity].
Qed.

(* ------------------------------------------------------------------ _raise_if_errors keeps the invariant *)
Lemma drop_idx_Forall (P : worker -> Prop) i l :
  Forall P l -> (forall w, P w -> idx w = i -> P (drop w)) -> Forall P (drop_idx i l).
Proof.
  intros H Hd. unfold drop_idx. induction H as [|w l Hw _ IH]; cbn; constructor; auto.
  destruct (Nat.eqb_spec (idx w) i); auto.
Qed.
Lemma drop_idx_idx i l : map idx (drop_idx i l) = map idx l.
Proof. unfold drop_idx. induction l as [|w l IH]; cbn; [reflexivity|]. rewrite IH. destruct (Nat.eqb (idx w) i); reflexivity. Qed.
Lemma drop_idx_sumf i l : sumf (drop_idx i l) = sumf l.
Proof. unfold drop_idx. induction l as [|w l IH]; cbn; [reflexivity|]. rewrite IH. destruct (Nat.eqb (idx w) i); reflexivity. Qed.

Definition dead (w : worker) : Prop := stat w = Dead.

Lemma is_dropped_idx_dead i l :
  Forall (fun w => dropped w = true -> stat w = Dead) l -> is_dropped_idx i l = true -> Exists dead l.
Proof.
  unfold is_dropped_idx. intros H He. apply existsb_exists in He as (w & Hin & Hw).
  apply andb_true_iff in Hw as (_ & Hd). apply Exists_exists. exists w. split; auto.
  rewrite Forall_forall in H. apply H; auto.
Qed.

Lemma drop_idx_J1 i l :
  Forall (fun w => dropped w = true -> stat w = Dead) l -> Forall (fun w => idx w = i -> stat w = Dead) l ->
  Forall (fun w => dropped w = true -> stat w = Dead) (drop_idx i l).
Proof.
  unfold drop_idx. induction l as [|w l IH]; intros H1 H2; cbn; constructor;
    inversion H1; inversion H2; subst; auto.
  destruct (Nat.eqb_spec (idx w) i); cbn; auto.
Qed.

Lemma drain_J n : forall q l last, J l q -> sumf l + n <= length q ->
  let '(r, q2, l2) := drain n q l last in
  J l2 q2 /\ r <> DHang /\ (r = DAttr -> Exists dead l2).
Proof.
  induction n as [|n IH]; intros q l last HJ Hle; cbn [drain].
  - split; [exact HJ | split; discriminate].
  - destruct q as [|[i e] q']; [cbn in Hle; lia|].
    destruct HJ as (J1 & J3 & J5 & J6). inversion J5 as [|? ? Hi J5']; subst. cbn [fst] in Hi. cbn [length] in *.
    destruct (is_dropped_idx i l) eqn:Hd.
    + split; [repeat split; auto; lia | split; [discriminate|]]. intros _. eapply is_dropped_idx_dead; eauto.
    + apply IH.
      * repeat split.
        -- apply drop_idx_J1; auto.
        -- rewrite drop_idx_sumf. lia.
        -- rewrite Forall_forall in *. intros ie Hin. specialize (J5' ie Hin).
           apply drop_idx_Forall; auto.
        -- rewrite drop_idx_idx. auto.
      * rewrite drop_idx_sumf. lia.
Qed.

(* ------------------------------------------------------------------ readiness of workers for a pending call *)
Definition ready (w : worker) : Prop := outq w <> [] \/ is_blocked (stat w) = true.
Definition dor (w : worker) : Prop := dead w \/ ready w.

Lemma dor_split l : Forall dor l -> Exists dead l \/ Forall ready l.
Proof.
  induction 1 as [|w l [Hd|Hr] _ [IH|IH]]; auto.
Qed.

Lemma Exists_dead_Rw l l' : Forall2 Rw l l' -> Exists dead l -> Exists dead l'.
Proof.
  induction 1 as [|w w' l l' (I & D & K) _ IH]; intros He; inversion He; subst.
  - left. apply K. auto.
  - right. auto.
Qed.

Lemma existsb_dead l : existsb (fun w => is_dead (stat w)) l = true <-> Exists dead l.
Proof.
  rewrite existsb_exists, Exists_exists. split; intros (w & Hin & Hw); exists w; split; auto.
  - unfold dead. destruct (stat w); try discriminate; auto.
  - unfold dead in Hw. rewrite Hw. reflexivity.
Qed.

Lemma react_outq c w q : exists suf, outq (fst (react c w q)) = outq w ++ suf.
Proof.
  unfold react. destruct c; [destruct (plan w (nseen w))| |]; cbn; eauto; exists []; rewrite app_nil_r; auto.
Qed.

Lemma pump_outq cs : forall w q, exists suf, outq (fst (pump cs w q)) = outq w ++ suf.
Proof.
  induction cs as [|c cs IH]; intros w q; cbn [pump].
  - exists []. rewrite app_nil_r. reflexivity.
  - destruct (stat w).
    + destruct (react_outq c w q) as (s1 & H1). destruct (react c w q) as [w1 q1]. cbn [fst] in H1.
      destruct (IH w1 q1) as (s2 & H2). exists (s1 ++ s2). rewrite H2, H1, app_assoc. reflexivity.
    + exists []. rewrite app_nil_r. reflexivity.
    + exists []. rewrite app_nil_r. reflexivity.
Qed.

Lemma release_blocked_outq w q s : stat w = Blocked s -> outq (fst (release w q)) <> [].
Proof.
  intros Hs. unfold release. rewrite Hs.
  match goal with |- context[pump ?cs ?w0 ?q0] => destruct (pump_outq cs w0 q0) as (suf & H) end.
  rewrite H. cbn. destruct (outq w); discriminate.
Qed.

Lemma react_dor c w q : dor (fst (react c w q)).
Proof.
  unfold react, dor, dead, ready. destruct c; [destruct (plan w (nseen w))| |]; cbn; auto.
  right. left. destruct (outq w); discriminate.
Qed.

Lemma deliver_dor c w q : is_dead (stat w) = false -> dor (fst (deliver c w q)).
Proof.
  intros Hd. unfold deliver. destruct (stat w) eqn:Hs; try discriminate.
  - apply react_dor.
  - right. right. cbn. reflexivity.
Qed.

Lemma send_all_dor c l : forall q, fst (fst (send_all c l q)) = None -> Forall dor (snd (fst (send_all c l q))).
Proof.
  induction l as [|w l IH]; intros q; cbn [send_all]; [constructor|].
  destruct (dropped w); [discriminate|]. destruct (is_dead (stat w)) eqn:Hd; [discriminate|].
  pose proof (deliver_dor c w q Hd) as H. destruct (deliver c w q) as [w1 q1]. cbn [fst] in H.
  specialize (IH q1). destruct (send_all c l q1) as [[r l1] q2]. cbn [fst snd] in *.
  intros ->. constructor; auto.
Qed.

Lemma release_dor w q : dor w -> dor (fst (release w q)).
Proof.
  intros H. destruct (stat w) eqn:Hs.
  - unfold release. rewrite Hs. exact H.
  - right. left. eapply release_blocked_outq; eauto.
  - unfold release. rewrite Hs. exact H.
Qed.

Lemma release_all_dor l : forall q, Forall dor l -> Forall dor (fst (release_all l q)).
Proof.
  induction l as [|w l IH]; intros q H; cbn [release_all]; [constructor|].
  inversion H; subst.
  pose proof (release_dor w q H2) as Hw. destruct (release w q) as [w1 q1]. cbn [fst] in Hw.
  specialize (IH q1 H3). destruct (release_all l q1) as [l1 q2]. cbn [fst] in *. constructor; auto.
Qed.

Lemma kill_idx_dor i l : Forall dor l -> Forall dor (kill_idx i l).
Proof.
  unfold kill_idx. induction 1; cbn; constructor; auto.
  destruct (Nat.eqb (idx x) i); auto. left. reflexivity.
Qed.

Lemma ready_dor l : Forall ready l -> Forall dor l.
Proof. induction 1; constructor; auto. right; auto. Qed.

Lemma recv1_ready w q : ready w -> dropped w = false -> exists ok s, fst (fst (recv1 w q)) = RMsg ok s.
Proof.
  intros Hr Hd. unfold recv1. rewrite Hd. destruct (outq w) as [|[ok s] rest] eqn:Ho.
  - destruct Hr as [Hr|Hr]; [congruence|]. destruct (stat w) eqn:Hs; try discriminate.
    pose proof (release_blocked_outq w q s Hs) as Hne. destruct (release w q) as [w1 q1]. cbn [fst] in Hne.
    destruct (outq w1) as [|[ok s1] rest]; [congruence|]. cbn. eauto.
  - cbn. eauto.
Qed.

Lemma recv_all_ready l : forall q, Forall ready l -> Forall (fun w => dropped w = false) l ->
  fst (fst (fst (recv_all l q))) = None.
Proof.
  induction l as [|w l IH]; intros q Hr Hd; cbn [recv_all]; [reflexivity|].
  inversion Hr; inversion Hd; subst.
  destruct (recv1_ready w q H1 H5) as (ok & s & Hm).
  destruct (recv1 w q) as [[r w1] q1]. cbn [fst] in Hm. subst r.
  specialize (IH q1 H2 H6). destruct (recv_all l q1) as [[[o l1] q2] ms]. cbn [fst] in *. auto.
Qed.

(* ------------------------------------------------------------------ the invariant of open environments *)
Definition InvOpen (e : env) : Prop :=
  J (ws e) (eq e) /\ (st e <> DEFAULT -> Exists dead (ws e) \/ Forall ready (ws e)).

Lemma nodead_nodrop l : Forall (fun w => dropped w = true -> stat w = Dead) l ->
  existsb (fun w => is_dead (stat w)) l = false -> Forall (fun w => dropped w = false) l.
Proof.
  induction l as [|w l IH]; intros HF He.
  - constructor.
  - inversion HF as [|? ? Hw HF']; subst. cbn in He. apply orb_false_iff in He. destruct He as [H1 H2].
    constructor; [|apply IH; assumption].
    destruct (dropped w); [|reflexivity]. rewrite Hw in H1 by reflexivity. discriminate.
Qed.

Lemma finish_inv e l q ms : J l q -> sumf l + count_false ms <= length q ->
  let '(o, e') := finish e l q ms in
  J (ws e') (eq e') /\ o <> Hang /\ (st e' <> DEFAULT -> Exists dead (ws e')).
Proof.
  intros HJ Hle. unfold finish. destruct (Nat.eqb (count_false ms) 0).
  - cbn. split; [exact HJ | split; [discriminate | intros H; exfalso; apply H; reflexivity]].
  - pose proof (drain_J (count_false ms) q l 0 HJ Hle) as H.
    destruct (drain (count_false ms) q l 0) as [[r q2] l2]. destruct H as (HJ2 & Hh & Ha).
    destruct r; cbn [ws eq st]; (split; [exact HJ2 | split]); try discriminate; auto.
    + intros H; exfalso; apply H; reflexivity.
    + exfalso; apply Hh; reflexivity.
Qed.

Lemma wait_core_inv fin e : InvOpen e ->
  InvOpen (snd (wait_core fin e)) /\
  (st e <> DEFAULT -> existsb (fun w => is_dead (stat w)) (ws e) = false -> fst (wait_core fin e) <> Hang).
Proof.
  intros (HJ & H2). unfold wait_core.
  destruct (fin && negb (poll_all (ws e))).
  { cbn. split; [split; auto; congruence | discriminate]. }
  pose proof (recv_all_Sweep (ws e) (eq e)) as HS.
  pose proof (recv_all_ready (ws e) (eq e)) as HR.
  destruct (recv_all (ws e) (eq e)) as [[[r l] q] ms]. cbn [fst] in HR.
  destruct HS as (c & HS & Hc). destruct (J_Sweep _ _ _ _ _ HJ HS) as (HJ' & Hle & HF2).
  destruct r as [err|].
  - cbn [fst snd]. split.
    + split; cbn [ws eq st]; auto. intros Hst.
      destruct (existsb (fun w => is_dead (stat w)) (ws e)) eqn:Hex.
      * left. eapply Exists_dead_Rw; eauto. apply existsb_dead; auto.
      * exfalso. destruct (H2 Hst) as [Hd|Hr].
        -- apply existsb_dead in Hd. congruence.
        -- destruct HJ as (J1 & _). specialize (HR Hr (nodead_nodrop _ J1 Hex)). discriminate.
    + intros Hst Hex Herr. destruct (H2 Hst) as [Hd|Hr].
      * apply existsb_dead in Hd. congruence.
      * destruct HJ as (J1 & _). specialize (HR Hr (nodead_nodrop _ J1 Hex)). discriminate.
  - rewrite (Hc eq_refl) in Hle.
    pose proof (finish_inv e l q ms HJ' Hle) as Hf. destruct (finish e l q ms) as [o e']. cbn [fst snd].
    destruct Hf as (HJ2 & Hh & Hd). split; [split; auto | auto].
Qed.

Lemma send_all_inv c e l q r :
  J (ws e) (eq e) -> send_all c (ws e) (eq e) = (r, l, q) -> J l q /\ (r = None -> Exists dead l \/ Forall ready l).
Proof.
  intros HJ Hs. pose proof (send_all_Sweep c (ws e) (eq e)) as HS.
  pose proof (send_all_dor c (ws e) (eq e)) as Hd. rewrite Hs in HS, Hd. cbn [fst snd] in *.
  destruct (J_Sweep _ _ _ _ _ HJ HS) as (HJ' & _ & _). split; auto.
  intros ->. apply dor_split. auto.
Qed.

Lemma async_cmd_inv c k e : InvOpen e -> InvOpen (snd (async_cmd c k e)).
Proof.
  intros HI. unfold async_cmd. destruct (closed e); [exact HI|].
  destruct (negb (pst_eqb (st e) DEFAULT)) eqn:Hst; [exact HI|].
  apply negb_false_iff, pst_eqb_eq in Hst.
  destruct (send_all c (ws e) (eq e)) as [[r l] q] eqn:Hs.
  destruct HI as (HJ & _). destruct (send_all_inv c e l q r HJ Hs) as (HJ' & Hr).
  destruct r; cbn [snd]; (split; [exact HJ'|]); cbn [st ws].
  - intros H; exfalso; apply H; exact Hst.
  - intros _. apply Hr. reflexivity.
Qed.

Lemma set_attr_inv e : InvOpen e -> InvOpen (snd (set_attr e)).
Proof.
  intros HI. unfold set_attr. destruct (closed e); [exact HI|].
  destruct (negb (pst_eqb (st e) DEFAULT)) eqn:Hst; [exact HI|].
  apply negb_false_iff, pst_eqb_eq in Hst.
  destruct (send_all CEnv (ws e) (eq e)) as [[r l] q] eqn:Hs.
  destruct HI as (HJ & _). destruct (send_all_inv CEnv e l q r HJ Hs) as (HJ' & _).
  destruct r; [cbn [snd]; split; [exact HJ' | cbn [st]; intros H; exfalso; apply H; exact Hst]|].
  pose proof (recv_all_Sweep l q) as HS. destruct (recv_all l q) as [[[r2 l2] q2] ms].
  destruct HS as (c & HS & Hc). destruct (J_Sweep _ _ _ _ _ HJ' HS) as (HJ2 & Hle & _).
  destruct r2; [cbn [snd]; split; [exact HJ2 | cbn [st]; intros H; exfalso; apply H; exact Hst]|].
  rewrite (Hc eq_refl) in Hle.
  pose proof (finish_inv e l2 q2 ms HJ2 Hle) as Hf. destruct (finish e l2 q2 ms) as [o e'] eqn:Hfin.
  destruct Hf as (HJ3 & _ & _). cbn. split; auto.
  (* the state after set_attr is the state finish leaves: DEFAULT or st e = DEFAULT *)
  unfold finish in Hfin. destruct (Nat.eqb (count_false ms) 0); [inversion Hfin; cbn; congruence|].
  destruct (drain (count_false ms) q2 l2 0) as [[d q3] l3]. destruct d; inversion Hfin; cbn; congruence.
Qed.

Lemma wait_inv k fin e : InvOpen e -> InvOpen (snd (wait k fin e)).
Proof.
  intros HI. unfold wait. destruct (closed e); [exact HI|].
  destruct (negb (pst_eqb (st e) (wst k))); [exact HI|]. apply wait_core_inv; auto.
Qed.

Lemma release_op_inv e : InvOpen e ->
  InvOpen (let '(l, q) := release_all (ws e) (eq e) in mkE (st e) (closed e) l q (got e)).
Proof.
  intros (HJ & H2). pose proof (release_all_Sweep (ws e) (eq e)) as HS.
  pose proof (release_all_dor (ws e) (eq e)) as Hd.
  destruct (release_all (ws e) (eq e)) as [l q]. cbn [fst snd] in *.
  destruct (J_Sweep _ _ _ _ _ HJ HS) as (HJ' & _ & HF2). split; cbn; auto.
  intros Hst. destruct (H2 Hst) as [He|Hr].
  - left. eapply Exists_dead_Rw; eauto.
  - apply dor_split. apply Hd. apply ready_dor; auto.
Qed.

Lemma kill_op_inv i e : InvOpen e -> InvOpen (mkE (st e) (closed e) (kill_idx i (ws e)) (eq e) (got e)).
Proof.
  intros (HJ & H2). pose proof (kill_idx_Sweep i (ws e) (eq e)) as HS.
  destruct (J_Sweep _ _ _ _ _ HJ HS) as (HJ' & _ & HF2). split; cbn; auto.
  intros Hst. destruct (H2 Hst) as [He|Hr].
  - left. eapply Exists_dead_Rw; eauto.
  - apply dor_split. apply kill_idx_dor. apply ready_dor; auto.
Qed.

(* ------------------------------------------------------------------ close() *)
Definition closing (w : worker) : Prop :=
  stat w = Dead \/ (is_blocked (stat w) = true /\ exists cs, inbox w = cs ++ [CClose]).
Definition dc (w : worker) : Prop := dropped w = true \/ closing w.

Lemma pump_closing cs : forall w q, closing (fst (pump (cs ++ [CClose]) w q)).
Proof.
  induction cs as [|c cs IH]; intros w q; cbn [app pump].
  - destruct (stat w) eqn:Hs.
    + cbn. left. reflexivity.
    + right. cbn. split; [reflexivity | exists []; reflexivity].
    + left. reflexivity.
  - destruct (stat w) eqn:Hs.
    + destruct (react c w q) as [w1 q1]. apply IH.
    + right. cbn. split; [reflexivity | exists (c :: cs); reflexivity].
    + left. reflexivity.
Qed.

Lemma send_close_post l : forall q,
  fst (fst (send_close V_current l q)) = None /\ Forall dc (snd (fst (send_close V_current l q))).
Proof.
  induction l as [|w l IH]; intros q; cbn [send_close]; [split; [reflexivity | constructor]|].
  destruct (dropped w) eqn:Hd.
  { destruct (IH q) as (H1 & H2). destruct (send_close V_current l q) as [[r l1] q1]. cbn [fst snd] in *.
    split; auto. constructor; auto. left; auto. }
  destruct (is_dead (stat w)) eqn:Hdead.
  { cbn [tol V_current]. destruct (IH q) as (H1 & H2). destruct (send_close V_current l q) as [[r l1] q1].
    cbn [fst snd] in *. split; auto. constructor; auto. right. left. destruct (stat w); try discriminate; auto. }
  assert (Hc : closing (fst (deliver CClose w q))).
  { unfold deliver. destruct (stat w) eqn:Hs; try discriminate.
    - left. reflexivity.
    - right. cbn. split; [reflexivity | eauto]. }
  assert (Hdr : dropped (fst (deliver CClose w q)) = false).
  { pose proof (deliver_T CClose w q) as (_ & D & _). congruence. }
  destruct (deliver CClose w q) as [w1 q1]. cbn [fst] in *.
  destruct (IH q1) as (H1 & H2). destruct (send_close V_current l q1) as [[r l1] q2]. cbn [fst snd] in *.
  split; auto. constructor; auto. right; auto.
Qed.

Lemma set_outq_closing w o : closing w -> closing (set_outq w o).
Proof. intros H. exact H. Qed.

Lemma recv1_closing w q : dropped w = false -> closing w ->
  ((exists ok s, fst (fst (recv1 w q)) = RMsg ok s) \/ fst (fst (recv1 w q)) = REOF) /\
  closing (snd (fst (recv1 w q))).
Proof.
  intros Hd Hc. unfold recv1. rewrite Hd. destruct (outq w) as [|[ok s] rest] eqn:Ho.
  - destruct (stat w) eqn:Hs.
    + exfalso. destruct Hc as [Hc|(Hc & _)]; rewrite Hs in Hc; discriminate.
    + destruct Hc as [Hc|(_ & cs & Hcs)]; [rewrite Hs in Hc; discriminate|].
      pose proof (release_blocked_outq w q s Hs) as Hne.
      assert (Hcl : closing (fst (release w q))).
      { unfold release. rewrite Hs, Hcs. apply pump_closing. }
      destruct (release w q) as [w1 q1]. cbn [fst] in *.
      destruct (outq w1) as [|[ok s1] rest]; [congruence|]. cbn [fst snd]. split; eauto.
    + cbn. split; auto.
  - cbn [fst snd]. split; eauto.
Qed.

Lemma recv_close_post l : forall q, Forall dc l ->
  fst (fst (recv_close V_current l q)) = None /\ Forall dc (snd (fst (recv_close V_current l q))).
Proof.
  induction l as [|w l IH]; intros q Hdc; cbn [recv_close]; [split; [reflexivity | constructor]|].
  inversion Hdc as [|? ? Hw Hl]; subst.
  destruct (dropped w) eqn:Hd.
  { destruct (IH q Hl) as (H1 & H2). destruct (recv_close V_current l q) as [[r l1] q1]. cbn [fst snd] in *.
    split; auto. }
  destruct Hw as [Hw|Hw]; [congruence|].
  pose proof (recv1_closing w q Hd Hw) as (Hr & Hc).
  assert (Hdr : dropped (snd (fst (recv1 w q))) = false).
  { pose proof (recv1_T w q) as (_ & D & _). congruence. }
  destruct (recv1 w q) as [[r w1] q1]. cbn [fst snd] in *.
  destruct Hr as [(ok & s & ->)| ->]; cbn [tol V_current].
  - destruct (IH q1 Hl) as (H1 & H2). destruct (recv_close V_current l q1) as [[r l1] q2]. cbn [fst snd] in *.
    split; auto. constructor; auto. right; auto.
  - destruct (IH q1 Hl) as (H1 & H2). destruct (recv_close V_current l q1) as [[r l1] q2]. cbn [fst snd] in *.
    split; auto. constructor; auto. right; auto.
Qed.

Lemma dc_joinable l : Forall (fun w => dropped w = true -> stat w = Dead) l -> Forall dc l ->
  forallb joinable l = true.
Proof.
  induction l as [|w l IH]; intros H1 H2; [reflexivity|].
  inversion H1; inversion H2; subst. cbn. rewrite IH by assumption. rewrite andb_true_r.
  unfold joinable. destruct H7 as [Hd|[Hd|(Hb & _)]].
  - rewrite H3 by assumption. reflexivity.
  - rewrite Hd. reflexivity.
  - destruct (stat w); try discriminate; reflexivity.
Qed.

Lemma map_kill_dead l : Forall dead (map kill l).
Proof. induction l; cbn; constructor; auto. reflexivity. Qed.

(* the part of close_extras after the pending call has been dealt with *)
Lemma close_tail (s : pst) (g : list nat) (term' : bool) (l : list worker) (q : errq) : J l q ->
  let r : outcome * env :=
    if term' then (Ok, mkE s true (map kill l) q g)
    else
      let '(r, l1, q1) := send_close V_current l q in
      match r with
      | Some o => (o, mkE s false l1 q1 g)
      | None =>
          let '(r2, l2, q2) := recv_close V_current l1 q1 in
          match r2 with
          | Some o => (o, mkE s false l2 q2 g)
          | None => if forallb joinable l2 then (Ok, mkE s true (map kill l2) q2 g)
                    else (Hang, mkE s false l2 q2 g)
          end
      end in
  fst r = Ok /\ closed (snd r) = true /\ Forall dead (ws (snd r)).
Proof.
  intros HJ. destruct term'; cbn zeta.
  - cbn. repeat split; auto using map_kill_dead.
  - pose proof (send_close_post l q) as (H1 & H2). pose proof (send_close_Sweep V_current l q) as HS.
    destruct (send_close V_current l q) as [[r l1] q1]. cbn [fst snd] in *. subst r.
    destruct (J_Sweep _ _ _ _ _ HJ HS) as (HJ1 & _ & _).
    pose proof (recv_close_post l1 q1 H2) as (H3 & H4). destruct (recv_close_Sweep V_current l1 q1) as (c & HS2).
    destruct (recv_close V_current l1 q1) as [[r2 l2] q2]. cbn [fst snd] in *. subst r2.
    destruct (J_Sweep _ _ _ _ _ HJ1 HS2) as ((J1 & _) & _ & _).
    rewrite (dc_joinable l2 J1 H4). cbn. repeat split; auto using map_kill_dead.
Qed.

Theorem close_total_open fin term e : closed e = false -> InvOpen e ->
  fst (close fin term e) = Ok /\ closed (snd (close fin term e)) = true /\ Forall dead (ws (snd (close fin term e))).
Proof.
  intros Hc HI. unfold close, close_gen. rewrite Hc.
  destruct (pst_eqb (st e) DEFAULT) eqn:Hst.
  { destruct HI as (HJ & _). apply (close_tail (st e) (got e) term (ws e) (eq e) HJ). }
  cbn [deadchk V_current andb].
  destruct (existsb (fun w => is_dead (stat w)) (ws e)) eqn:Hex.
  { destruct HI as (HJ & _). apply (close_tail (st e) (got e) true (ws e) (eq e) HJ). }
  apply pst_eqb_neq in Hst.
  destruct (wait_core_inv (term || fin) e HI) as ((HJ' & _) & Hnh). specialize (Hnh Hst Hex).
  destruct (wait_core (term || fin) e) as [o e']. cbn [fst snd] in *.
  destruct o; change (tol V_current) with true; cbv iota;
    try (exfalso; apply Hnh; reflexivity);
    first [ apply (close_tail (st e') (got e') term (ws e') (eq e') HJ')
          | apply (close_tail (st e') (got e') true (ws e') (eq e') HJ') ].
Qed.

(* ------------------------------------------------------------------ every reachable state *)
Definition Inv (e : env) : Prop :=
  (closed e = true /\ Forall dead (ws e)) \/ (closed e = false /\ InvOpen e).

Lemma release_all_dead l : forall q, Forall dead l -> release_all l q = (l, q).
Proof.
  induction l as [|w l IH]; intros q H; cbn [release_all]; [reflexivity|].
  inversion H; subst. unfold release. rewrite H2. rewrite (IH q H3). reflexivity.
Qed.

Lemma kill_idx_dead i l : Forall dead l -> Forall dead (kill_idx i l).
Proof. unfold kill_idx. induction 1; cbn; constructor; auto. destruct (Nat.eqb (idx x) i); auto. reflexivity. Qed.

Ltac crush_closed :=
  repeat (match goal with
          | |- context[match ?x with _ => _ end] => destruct x eqn:?
          end; cbn [snd closed]); auto.

Lemma closed_async c k e : closed (snd (async_cmd c k e)) = closed e.
Proof. unfold async_cmd. crush_closed. Qed.
Lemma closed_finish e l q ms : closed (snd (finish e l q ms)) = closed e.
Proof. unfold finish. crush_closed. Qed.
Lemma closed_wait k fin e : closed (snd (wait k fin e)) = closed e.
Proof.
  unfold wait, wait_core. destruct (closed e) eqn:Hc; cbn [snd]; auto.
  destruct (negb (pst_eqb (st e) (wst k))); cbn [snd]; auto.
  destruct (fin && negb (poll_all (ws e))); cbn [snd closed]; auto.
  destruct (recv_all (ws e) (eq e)) as [[[r l] q] ms]. destruct r; cbn [snd closed]; auto.
  rewrite closed_finish. auto.
Qed.
Lemma closed_set_attr e : closed (snd (set_attr e)) = closed e.
Proof.
  unfold set_attr. destruct (closed e) eqn:Hc; cbn [snd]; auto.
  destruct (negb (pst_eqb (st e) DEFAULT)); cbn [snd]; auto.
  destruct (send_all CEnv (ws e) (eq e)) as [[r l] q]. destruct r; cbn [snd closed]; auto.
  destruct (recv_all l q) as [[[r2 l2] q2] ms]. destruct r2; cbn [snd closed]; auto.
  pose proof (closed_finish e l2 q2 ms) as H. destruct (finish e l2 q2 ms) as [o e']. cbn [snd closed] in *. congruence.
Qed.

Lemma step_Inv e o : Inv e -> Inv (snd (step e o)).
Proof.
  intros [(Hc & Hd)|(Hc & HI)].
  - (* closed: API calls change nothing, the surroundings only touch dead workers *)
    left. destruct o; cbn [step step_gen];
      unfold async, call_bad, async_cmd, wait, set_attr, close_gen; rewrite ?Hc; cbn [snd]; auto.
    + rewrite (release_all_dead _ _ Hd). cbn. auto.
    + cbn. split; auto. apply kill_idx_dead; auto.
  - destruct o; cbn [step step_gen].
    + right. split; [unfold async; rewrite closed_async; auto | apply async_cmd_inv; auto].
    + right. split; [rewrite closed_wait; auto | apply wait_inv; auto].
    + right. split; [unfold call_bad; rewrite closed_async; auto | apply async_cmd_inv; auto].
    + right. split; [rewrite closed_set_attr; auto | apply set_attr_inv; auto].
    + left. destruct (close_total_open fin term e Hc HI) as (_ & H2 & H3). split; auto.
    + right. pose proof (release_op_inv e HI) as H.
      destruct (release_all (ws e) (eq e)) as [l q]. cbn [snd]. split; auto.
    + right. cbn [snd]. split; auto. apply kill_op_inv; auto.
Qed.

Lemma run_snd ops : forall e, snd (run e (ops)) = fold_left (fun e o => snd (step e o)) ops e.
Proof.
  induction ops as [|o ops IH]; intros e; [reflexivity|].
  cbn [fold_left]. rewrite <- IH. unfold run, step. cbn [run_gen].
  destruct (step_gen V_current e o) as [r e1]. cbn [snd].
  destruct (run_gen V_current e1 ops) as [rs e2]. reflexivity.
Qed.

Lemma run_Inv ops : forall e, Inv e -> Inv (snd (run e ops)).
Proof.
  intros e. rewrite run_snd. revert e.
  induction ops as [|o ops IH]; intros e HI; cbn [fold_left]; auto.
  apply IH. apply step_Inv. exact HI.
Qed.

Lemma mk_workers_idx plans : forall i, map idx (mk_workers i plans) = seq i (length plans).
Proof. induction plans as [|p ps IH]; intros i; cbn; [reflexivity|]. rewrite IH. reflexivity. Qed.

Lemma mk_workers_fresh plans : forall i,
  Forall (fun w => dropped w = false /\ outq w = []) (mk_workers i plans).
Proof. induction plans as [|p ps IH]; intros i; cbn; constructor; auto. Qed.

Lemma init_Inv plans : Inv (init plans).
Proof.
  right. split; [reflexivity|]. split; [|intros H; exfalso; apply H; reflexivity].
  unfold init; cbn [ws eq]. pose proof (mk_workers_fresh plans 0) as HF. repeat split.
  - eapply Forall_impl; [|exact HF]. cbn. intros w (Hd & _) H. congruence.
  - cbn. assert (sumf (mk_workers 0 plans) = 0); [|lia].
    induction HF as [|w l (_ & Ho) _ IH]; cbn; auto. unfold falses. rewrite Ho, IH. reflexivity.
  - constructor.
  - rewrite mk_workers_idx. apply seq_NoDup.
Qed.

(* close() is total on every reachable state: whatever calls, misuse, faults, kills and releases
   came before, it returns normally, the environment is closed and no worker is alive *)
Theorem close_total_lemma : forall plans ops fin term,
  let e := snd (run (init plans) ops) in
  fst (close fin term e) = Ok /\ closed (snd (close fin term e)) = true /\
  Forall (fun w => stat w = Dead) (ws (snd (close fin term e))).
Proof.
  intros plans ops fin term e.
  destruct (run_Inv ops (init plans) (init_Inv plans)) as [(Hc & Hd)|(Hc & HI)]; fold e in Hc |- *.
  - unfold close, close_gen. rewrite Hc. cbn. auto.
  - apply close_total_open; auto.
Qed.
