(* C13 — executable model of the parent/worker protocol of
   agilerl.vector.pz_async_vec_env.AsyncPettingZooVecEnv (AsyncState guards, *_async / *_wait,
   set_attr, _poll_pipe_envs, _raise_if_errors, close / close_extras) and of the command loop
   of _async_worker (try / except / finally), with per-worker fault plans.
   Model only (no proofs) so that it still runs when a proof breaks.

   Conventions
   * A worker reacts to a command as soon as it is delivered (workers run to quiescence while the
     parent is between two pipe operations); a worker whose sub-environment sleeps is [Blocked]
     and queues further commands in its [inbox] until it is released.
   * [fin] = "a finite timeout was given"; a finite timeout is shorter than any sleep, so a
     blocked worker never answers within it.  A recv without timeout on a blocked worker waits
     until that worker wakes up (the worker is released), which is not a hang; a recv on an idle
     live worker with nothing outstanding never returns: outcome [Hang].
   * Exception types are numbers (0 = ValueError, the type the worker itself raises for a
     forbidden `call` name). *)
From Coq Require Import List Arith Bool.
Import ListNotations.

Inductive pst := DEFAULT | W_RESET | W_STEP | W_CALL.
Inductive kind := KReset | KStep | KCall.
Definition wst (k : kind) : pst := match k with KReset => W_RESET | KStep => W_STEP | KCall => W_CALL end.
Definition pst_eqb (a b : pst) : bool :=
  match a, b with
  | DEFAULT, DEFAULT | W_RESET, W_RESET | W_STEP, W_STEP | W_CALL, W_CALL => true
  | _, _ => false
  end.
(* getattr(self, f"{self._state.value}_wait") *)
Definition kind_of (s : pst) : kind := match s with W_STEP => KStep | W_CALL => KCall | _ => KReset end.

(* what the sub-environment does on the n-th command it executes *)
Inductive behav := Normal | Raise (e : nat) | Sleep | Die.
(* CEnv: reset / step / valid _call / _setattr (all enter the sub-environment);
   CBad: _call with a forbidden name (the worker raises ValueError itself); CClose *)
Inductive cmd := CEnv | CBad | CClose.
Inductive wstat := Idle | Blocked (s : nat) | Dead.

Definition is_dead (s : wstat) : bool := match s with Dead => true | _ => false end.
Definition is_blocked (s : wstat) : bool := match s with Blocked _ => true | _ => false end.

(* idx: worker index; dropped: parent_pipes[idx] is None; nseen: commands that entered the
   sub-environment; outq: messages in the pipe towards the parent, (success flag, sequence
   number of the sub-environment command that produced it) *)
Record worker := mkW {
  idx : nat; stat : wstat; dropped : bool; nseen : nat; plan : nat -> behav;
  inbox : list cmd; outq : list (bool * nat) }.

Definition errq := list (nat * nat).      (* error_queue: (worker index, exception type) *)

Definition EValueError := 0.

(* one iteration of the worker loop on an idle worker *)
Definition react (c : cmd) (w : worker) (q : errq) : worker * errq :=
  match c with
  | CEnv =>
      match plan w (nseen w) with
      | Normal  => (mkW (idx w) Idle (dropped w) (S (nseen w)) (plan w) (inbox w) (outq w ++ [(true, nseen w)]), q)
      | Raise e => (mkW (idx w) Dead (dropped w) (S (nseen w)) (plan w) [] (outq w ++ [(false, nseen w)]),
                    q ++ [(idx w, e)])                     (* except: error_queue.put; pipe.send((None, False)) *)
      | Sleep   => (mkW (idx w) (Blocked (nseen w)) (dropped w) (S (nseen w)) (plan w) (inbox w) (outq w), q)
      | Die     => (mkW (idx w) Dead (dropped w) (S (nseen w)) (plan w) [] (outq w), q)
      end
  | CBad   => (mkW (idx w) Dead (dropped w) (nseen w) (plan w) [] (outq w ++ [(false, 0)]), q ++ [(idx w, EValueError)])
  | CClose => (mkW (idx w) Dead (dropped w) (nseen w) (plan w) [] (outq w ++ [(true, 0)]), q)   (* send; break *)
  end.

(* the worker works through queued commands until it blocks, dies or runs out of commands *)
Fixpoint pump (cs : list cmd) (w : worker) (q : errq) : worker * errq :=
  match cs with
  | [] => (mkW (idx w) (stat w) (dropped w) (nseen w) (plan w) [] (outq w), q)
  | c :: cs' =>
      match stat w with
      | Idle => let '(w', q') := react c w q in pump cs' w' q'
      | Blocked _ => (mkW (idx w) (stat w) (dropped w) (nseen w) (plan w) (c :: cs') (outq w), q)
      | Dead => (mkW (idx w) Dead (dropped w) (nseen w) (plan w) [] (outq w), q)
      end
  end.

(* pipe.send(command) to a live worker *)
Definition deliver (c : cmd) (w : worker) (q : errq) : worker * errq :=
  match stat w with
  | Idle => react c w q
  | Blocked _ => (mkW (idx w) (stat w) (dropped w) (nseen w) (plan w) (inbox w ++ [c]) (outq w), q)
  | Dead => (w, q)
  end.

(* the sleeping sub-environment returns: answer the sleeping command, then the queued ones *)
Definition release (w : worker) (q : errq) : worker * errq :=
  match stat w with
  | Blocked s => pump (inbox w) (mkW (idx w) Idle (dropped w) (nseen w) (plan w) [] (outq w ++ [(true, s)])) q
  | _ => (w, q)
  end.

Definition kill (w : worker) : worker := mkW (idx w) Dead (dropped w) (nseen w) (plan w) [] (outq w).
Definition drop (w : worker) : worker := mkW (idx w) (stat w) true (nseen w) (plan w) (inbox w) (outq w).
Definition set_outq (w : worker) (o : list (bool * nat)) : worker :=
  mkW (idx w) (stat w) (dropped w) (nseen w) (plan w) (inbox w) o.

Inductive outcome := Ok | AlreadyPending | NoAsyncCall | ClosedErr | Exc (e : nat) | Timeout
                   | BrokenPipe | EOFErr | AttrErr | Hang.

Record env := mkE { st : pst; closed : bool; ws : list worker; eq : errq; got : list nat }.
(* [got]: sequence numbers of the results returned by the last successful *_wait *)

(* for pipe in self.parent_pipes: pipe.send(cmd)   -- sequential, may fail half-way *)
Fixpoint send_all (c : cmd) (l : list worker) (q : errq) : option outcome * list worker * errq :=
  match l with
  | [] => (None, [], q)
  | w :: l' =>
      if dropped w then (Some AttrErr, w :: l', q)            (* None.send *)
      else if is_dead (stat w) then (Some BrokenPipe, w :: l', q)
      else let '(w', q') := deliver c w q in
           let '(r, l'', q'') := send_all c l' q' in (r, w' :: l'', q'')
  end.

(* _poll_pipe_envs(timeout) with a finite timeout: every pipe present and readable (data or EOF) *)
Definition pollable (w : worker) : bool :=
  negb (dropped w) && (match outq w with [] => is_dead (stat w) | _ => true end).
Definition poll_all (l : list worker) : bool := forallb pollable l.

Inductive rres := RMsg (ok : bool) (s : nat) | REOF | RHang | RAttr.

(* pipe.recv() *)
Definition recv1 (w : worker) (q : errq) : rres * worker * errq :=
  if dropped w then (RAttr, w, q) else
  match outq w with
  | (ok, s) :: rest => (RMsg ok s, set_outq w rest, q)
  | [] =>
      match stat w with
      | Dead => (REOF, w, q)
      | Idle => (RHang, w, q)
      | Blocked _ =>
          let '(w', q') := release w q in
          match outq w' with
          | (ok, s) :: rest => (RMsg ok s, set_outq w' rest, q')
          | [] => (RHang, w', q')
          end
      end
  end.

Definition rres_outcome (r : rres) : outcome :=
  match r with REOF => EOFErr | RHang => Hang | RAttr => AttrErr | RMsg _ _ => Ok end.

(* [pipe.recv() for pipe in self.parent_pipes] *)
Fixpoint recv_all (l : list worker) (q : errq) : option outcome * list worker * errq * list (bool * nat) :=
  match l with
  | [] => (None, [], q, [])
  | w :: l' =>
      let '(r, w', q') := recv1 w q in
      match r with
      | RMsg ok s => let '(o, l'', q'', ms) := recv_all l' q' in (o, w' :: l'', q'', (ok, s) :: ms)
      | _ => (Some (rres_outcome r), w' :: l', q', [])
      end
  end.

Definition drop_idx (i : nat) (l : list worker) : list worker :=
  map (fun w => if Nat.eqb (idx w) i then drop w else w) l.
Definition is_dropped_idx (i : nat) (l : list worker) : bool :=
  existsb (fun w => Nat.eqb (idx w) i && dropped w) l.

(* _raise_if_errors: num_errors times: error_queue.get(); parent_pipes[index].close(); = None *)
Inductive dres := DOk (last : nat) | DHang | DAttr.
Fixpoint drain (n : nat) (q : errq) (l : list worker) (last : nat) : dres * errq * list worker :=
  match n with
  | 0 => (DOk last, q, l)
  | S n' =>
      match q with
      | [] => (DHang, q, l)                                  (* error_queue.get() blocks *)
      | (i, e) :: q' =>
          if is_dropped_idx i l then (DAttr, q', l)          (* None.close() *)
          else drain n' q' (drop_idx i l) e
      end
  end.

Definition count_false (ms : list (bool * nat)) : nat := length (filter (fun m => negb (fst m)) ms).

(* successes collected -> _raise_if_errors -> state DEFAULT *)
Definition finish (e : env) (l : list worker) (q : errq) (ms : list (bool * nat)) : outcome * env :=
  let nerr := count_false ms in
  if Nat.eqb nerr 0 then (Ok, mkE DEFAULT (closed e) l q (map snd ms))
  else match drain nerr q l 0 with
       | (DOk last, q2, l2) => (Exc last, mkE DEFAULT (closed e) l2 q2 (got e))
       | (DHang, q2, l2) => (Hang, mkE (st e) (closed e) l2 q2 (got e))
       | (DAttr, q2, l2) => (AttrErr, mkE (st e) (closed e) l2 q2 (got e))
       end.

(* body of reset_wait / step_wait / call_wait after the two guards *)
Definition wait_core (fin : bool) (e : env) : outcome * env :=
  if fin && negb (poll_all (ws e)) then (Timeout, mkE DEFAULT (closed e) (ws e) (eq e) (got e))
  else let '(r, l, q, ms) := recv_all (ws e) (eq e) in
       match r with
       | Some err => (err, mkE (st e) (closed e) l q (got e))      (* state NOT reset *)
       | None => finish e l q ms
       end.

Definition wait (k : kind) (fin : bool) (e : env) : outcome * env :=
  if closed e then (ClosedErr, e)
  else if negb (pst_eqb (st e) (wst k)) then (NoAsyncCall, e)
  else wait_core fin e.

Definition async_cmd (c : cmd) (k : kind) (e : env) : outcome * env :=
  if closed e then (ClosedErr, e)
  else if negb (pst_eqb (st e) DEFAULT) then (AlreadyPending, e)
  else let '(r, l, q) := send_all c (ws e) (eq e) in
       match r with
       | Some err => (err, mkE (st e) (closed e) l q (got e))
       | None => (Ok, mkE (wst k) (closed e) l q (got e))
       end.
Definition async (k : kind) := async_cmd CEnv k.
Definition call_bad := async_cmd CBad KCall.            (* call_async("reset") *)

Definition set_attr (e : env) : outcome * env :=
  if closed e then (ClosedErr, e)
  else if negb (pst_eqb (st e) DEFAULT) then (AlreadyPending, e)
  else let '(r, l, q) := send_all CEnv (ws e) (eq e) in
       match r with
       | Some err => (err, mkE (st e) (closed e) l q (got e))
       | None =>
           let '(r2, l2, q2, ms) := recv_all l q in
           match r2 with
           | Some err => (err, mkE (st e) (closed e) l2 q2 (got e))
           | None => let '(o, e') := finish e l2 q2 ms in (o, mkE (st e') (closed e') (ws e') (eq e') (got e))
           end
       end.

(* ---- close / close_extras ----
   variants of the code: tol = 3d4be93 (send/recv of "close" tolerate a dead peer, any failure of
   the pending call leads to terminate); deadchk = 8e80bc4 (a pending call is not waited for when
   a worker process is dead). Current tree: both true. *)
Record variant := mkV { tol : bool; deadchk : bool }.
Definition V_current := mkV true true.
Definition V_3d4be93 := mkV true false.
Definition V_pinned := mkV false false.

Fixpoint send_close (v : variant) (l : list worker) (q : errq) : option outcome * list worker * errq :=
  match l with
  | [] => (None, [], q)
  | w :: l' =>
      if dropped w then let '(r, l'', q') := send_close v l' q in (r, w :: l'', q')
      else if is_dead (stat w) then
             if tol v then let '(r, l'', q') := send_close v l' q in (r, w :: l'', q')
             else (Some BrokenPipe, w :: l', q)
      else let '(w', q') := deliver CClose w q in
           let '(r, l'', q'') := send_close v l' q' in (r, w' :: l'', q'')
  end.

Fixpoint recv_close (v : variant) (l : list worker) (q : errq) : option outcome * list worker * errq :=
  match l with
  | [] => (None, [], q)
  | w :: l' =>
      if dropped w then let '(r, l'', q') := recv_close v l' q in (r, w :: l'', q')
      else let '(r, w', q') := recv1 w q in
           match r with
           | RMsg _ _ => let '(r', l'', q'') := recv_close v l' q' in (r', w' :: l'', q'')
           | REOF => if tol v then let '(r', l'', q'') := recv_close v l' q' in (r', w' :: l'', q'')
                     else (Some EOFErr, w' :: l', q')
           | _ => (Some (rres_outcome r), w' :: l', q')
           end
  end.

(* process.join(): a blocked worker wakes up and ends (it reaches the queued "close", or its
   send fails on the closed pipe); an idle worker that was never told to close never ends *)
Definition joinable (w : worker) : bool := match stat w with Idle => false | _ => true end.

Definition close_gen (v : variant) (fin term : bool) (e : env) : outcome * env :=
  if closed e then (Ok, e) else
  let fin' := term || fin in                                  (* timeout = 0 if terminate else timeout *)
  let '(esc, term', e1) :=
    if pst_eqb (st e) DEFAULT then (None, term, e)
    else if deadchk v && existsb (fun w => is_dead (stat w)) (ws e) then (None, true, e)
    else let '(o, e') := wait_core fin' e in
         match o with
         | Ok => (None, term, e')
         | Hang => (Some Hang, term, e')
         | Timeout => (None, true, e')
         | _ => if tol v then (None, true, e') else (Some o, term, e')
         end in
  match esc with
  | Some o => (o, e1)
  | None =>
      if term' then (Ok, mkE (st e1) true (map kill (ws e1)) (eq e1) (got e1))
      else
        let '(r, l, q) := send_close v (ws e1) (eq e1) in
        match r with
        | Some o => (o, mkE (st e1) false l q (got e1))
        | None =>
            let '(r2, l2, q2) := recv_close v l q in
            match r2 with
            | Some o => (o, mkE (st e1) false l2 q2 (got e1))
            | None =>
                if forallb joinable l2 then (Ok, mkE (st e1) true (map kill l2) q2 (got e1))
                else (Hang, mkE (st e1) false l2 q2 (got e1))
            end
        end
  end.
Definition close := close_gen V_current.

(* ---- operations of a run (the last two are actions of the surroundings, not API calls) ---- *)
Inductive op :=
| OAsync (k : kind) | OWait (k : kind) (fin : bool) | OCallBad | OSetAttr
| OClose (fin term : bool) | ORelease | OKill (i : nat).

Fixpoint release_all (l : list worker) (q : errq) : list worker * errq :=
  match l with
  | [] => ([], q)
  | w :: l' => let '(w', q') := release w q in let '(l'', q'') := release_all l' q' in (w' :: l'', q'')
  end.
Definition kill_idx (i : nat) (l : list worker) : list worker :=
  map (fun w => if Nat.eqb (idx w) i then kill w else w) l.

Definition step_gen (v : variant) (e : env) (o : op) : outcome * env :=
  match o with
  | OAsync k => async k e
  | OWait k fin => wait k fin e
  | OCallBad => call_bad e
  | OSetAttr => set_attr e
  | OClose fin term => close_gen v fin term e
  | ORelease => let '(l, q) := release_all (ws e) (eq e) in (Ok, mkE (st e) (closed e) l q (got e))
  | OKill i => (Ok, mkE (st e) (closed e) (kill_idx i (ws e)) (eq e) (got e))
  end.
Definition step := step_gen V_current.

Fixpoint run_gen (v : variant) (e : env) (ops : list op) : list outcome * env :=
  match ops with
  | [] => ([], e)
  | o :: ops' => let '(r, e') := step_gen v e o in let '(rs, e'') := run_gen v e' ops' in (r :: rs, e'')
  end.
Definition run := run_gen V_current.

Fixpoint mk_workers (i : nat) (plans : list (nat -> behav)) : list worker :=
  match plans with
  | [] => []
  | p :: ps => mkW i Idle false 0 p [] [] :: mk_workers (S i) ps
  end.
Definition init (plans : list (nat -> behav)) : env := mkE DEFAULT false (mk_workers 0 plans) [] [].

(* a finite plan: listed behaviours, Normal afterwards *)
Definition plan_of (l : list behav) : nat -> behav := fun n => nth n l Normal.

(* ---- _poll_pipe_envs with time made explicit ----
   [ds]: for every pipe (in pipe order) the time, counted from the start of the wait, at which its answer becomes
   readable (0 = already there). The real loop computes ONE deadline  end_time = now + timeout  and polls pipe i
   with the remaining budget  delta = max(end_time - now, 0)  ([per_pipe = false]); the variant that hands the
   full timeout to every pipe is [per_pipe = true]. Result: (all pipes readable?, time at which the loop returns). *)
Fixpoint poll_loop (per_pipe : bool) (T now : nat) (ds : list nat) : bool * nat :=
  match ds with
  | [] => (true, now)
  | d :: ds' =>
      let delta := if per_pipe then T else T - now in
      if Nat.leb d (now + delta) then poll_loop per_pipe T (Nat.max now d) ds'    (* poll returns as soon as readable *)
      else (false, now + delta)                                                    (* poll(delta) expires *)
  end.

(* X_wait(timeout = T) when the workers that are still busy (Blocked) answer at the times [ds]: if the poll loop
   succeeds every answer has arrived (the sleepers have woken up) and the call proceeds as without timeout;
   otherwise Timeout, nothing consumed, state DEFAULT *)
Definition wait_timed (per_pipe : bool) (k : kind) (T : nat) (ds : list nat) (e : env) : outcome * env :=
  if closed e then (ClosedErr, e)
  else if negb (pst_eqb (st e) (wst k)) then (NoAsyncCall, e)
  else if fst (poll_loop per_pipe T 0 ds) then
         let '(l, q) := release_all (ws e) (eq e) in wait_core false (mkE (st e) (closed e) l q (got e))
       else (Timeout, mkE DEFAULT (closed e) (ws e) (eq e) (got e)).

(* ---- the synchronous wrappers reset() / step() / call() / get_attr():  self.X_async(...); return self.X_wait() ---- *)
Definition sync (k : kind) (e : env) : outcome * env :=
  let '(o1, e1) := async k e in
  match o1 with Ok => wait k false e1 | _ => (o1, e1) end.

(* ---- calls rejected because of their ARGUMENTS before anything else is looked at:
   set_attr(name, values) with len(values) != num_envs (ValueError) and reset_async(seed=[...]) of the wrong length
   (AssertionError) test the arguments right after _assert_is_running and before the pending-call guard:
   closed -> ClosedEnvironmentError, otherwise the argument error; nothing is sent, nothing changes.
   [true] = the argument error was raised. *)
Definition arg_rejected (e : env) : (bool * outcome) * env :=
  if closed e then ((false, ClosedErr), e) else ((true, Ok), e).
