(* C13 — proofs, part 1: misuse is rejected and changes nothing; witnesses of the pre-fix behaviours. *)
From Coq Require Import List Arith Bool Lia.
Import ListNotations.
From AgileV Require Import C13.Model.

Lemma pst_eqb_eq a b : pst_eqb a b = true <-> a = b.
Proof. destruct a, b; cbn; split; intro H; try reflexivity; try discriminate. Qed.
Lemma pst_eqb_refl a : pst_eqb a a = true.
Proof. destruct a; reflexivity. Qed.
Lemma pst_eqb_neq a b : pst_eqb a b = false <-> a <> b.
Proof. destruct a, b; cbn; split; intro H; try reflexivity; try discriminate; try congruence. Qed.

(* which calls are misuse in a given state, and the documented error they must produce *)
Definition misuse (e : env) (o : op) : option outcome :=
  match o with
  | ORelease | OKill _ => None
  | OClose _ _ => None                                   (* close is always legal (a second close is a no-op) *)
  | OWait k _ => if closed e then Some ClosedErr else if pst_eqb (st e) (wst k) then None else Some NoAsyncCall
  | OAsync _ | OCallBad | OSetAttr =>
      if closed e then Some ClosedErr else if pst_eqb (st e) DEFAULT then None else Some AlreadyPending
  end.

Lemma misuse_step v e o r : misuse e o = Some r -> step_gen v e o = (r, e).
Proof.
  destruct o; cbn; try discriminate;
    unfold async, call_bad, async_cmd, wait, set_attr;
    destruct (closed e); try (intros [= <-]; reflexivity);
    match goal with |- context[pst_eqb ?a ?b] => destruct (pst_eqb a b) end; cbn;
    try discriminate; intros [= <-]; reflexivity.
Qed.

Lemma misuse_run v e o r ops :
  misuse e o = Some r ->
  run_gen v e (o :: ops) = (r :: fst (run_gen v e ops), snd (run_gen v e ops)).
Proof.
  intros H. cbn [run_gen]. rewrite (misuse_step v e o r H).
  destruct (run_gen v e ops); reflexivity.
Qed.

Lemma wait_without_async v k fin e :
  closed e = false -> st e <> wst k -> step_gen v e (OWait k fin) = (NoAsyncCall, e).
Proof.
  intros Hc Hs. apply misuse_step. cbn. rewrite Hc.
  apply pst_eqb_neq in Hs. rewrite Hs. reflexivity.
Qed.

Lemma call_while_pending v e o :
  closed e = false -> st e <> DEFAULT ->
  (exists k, o = OAsync k) \/ o = OCallBad \/ o = OSetAttr ->
  step_gen v e o = (AlreadyPending, e).
Proof.
  intros Hc Hs Ho. apply misuse_step. apply pst_eqb_neq in Hs.
  destruct Ho as [[k ->]|[->| ->]]; cbn; rewrite Hc, Hs; reflexivity.
Qed.

Lemma use_after_close v e o :
  closed e = true ->
  match o with
  | ORelease | OKill _ => True
  | OClose _ _ => step_gen v e o = (Ok, e)
  | _ => step_gen v e o = (ClosedErr, e)
  end.
Proof.
  intros Hc. destruct o; auto; try (apply misuse_step; cbn; rewrite Hc; reflexivity).
  cbn. unfold close_gen. rewrite Hc. reflexivity.
Qed.

(* ---- behaviours of the earlier versions of close(), kept as refutations ---- *)
Definition all_dead (e : env) : bool := forallb (fun w => is_dead (stat w)) (ws e).

(* pinned tree (before 3d4be93): 2 workers, worker 0 is killed, close() -> BrokenPipeError, worker 1 stays alive *)
Definition ops_kill_close := [OKill 0; OClose false false].
(* tree with 3d4be93 only: step_async, worker 1 dies in step, step_wait -> EOFError (worker 0's answer consumed,
   state still WAITING_STEP), close() -> step_wait(None) blocks for ever on worker 0 *)

(* current tree: worker 0 sleeps in reset; reset_wait(timeout) -> Timeout and state DEFAULT; the worker wakes up;
   step_async; step_wait() returns the answer of the *reset* (sequence number 0) for worker 0 *)
Definition ops_stale := [OAsync KReset; OWait KReset true; ORelease; OAsync KStep; OWait KStep false].
Definition two_normal := [plan_of []; plan_of []].
Definition sleeper_first := [plan_of [Sleep]; plan_of []].

Lemma close_after_kill_witness :
  let '(rs, e) := run_gen V_pinned (init two_normal) ops_kill_close in
  rs = [Ok; BrokenPipe] /\ closed e = false /\ all_dead e = false.
Proof. vm_compute. auto. Qed.

Definition second_dies := [plan_of []; plan_of [Die]].
Definition ops_close_hang2 := [OAsync KStep; OWait KStep false; OClose false false].

Lemma close_hang_witness :
  let '(rs, e) := run_gen V_3d4be93 (init second_dies) ops_close_hang2 in
  rs = [Ok; EOFErr; Hang] /\ closed e = false /\ all_dead e = false.
Proof. vm_compute. auto. Qed.

Lemma close_hang_repaired :
  let '(rs, e) := run_gen V_current (init second_dies) ops_close_hang2 in
  rs = [Ok; EOFErr; Ok] /\ closed e = true /\ all_dead e = true.
Proof. vm_compute. auto. Qed.

Lemma timeout_stale_witness :
  let '(rs, e) := run_gen V_current (init sleeper_first) ops_stale in
  rs = [Ok; Timeout; Ok; Ok; Ok] /\ got e = [0; 0] /\ map outq (ws e) = [[(true, 1)]; [(true, 1)]].
Proof. vm_compute. auto. Qed.

(* the same, in the existential form used by props/C13.v *)
Lemma close_after_kill_refuted_lemma : exists plans ops,
  let '(rs, e) := run_gen V_pinned (init plans) ops in
  In BrokenPipe rs /\ closed e = false /\ all_dead e = false.
Proof. exists two_normal, ops_kill_close. vm_compute. auto. Qed.

Lemma close_hang_refuted_lemma : exists plans ops,
  let '(rs, e) := run_gen V_3d4be93 (init plans) ops in
  In Hang rs /\ closed e = false /\ all_dead e = false.
Proof. exists second_dies, ops_close_hang2. vm_compute. auto 6. Qed.

Lemma timeout_stale_refuted_lemma : exists plans ops,
  let '(rs, e) := run_gen V_current (init plans) ops in
  rs = [Ok; Timeout; Ok; Ok; Ok] /\ ops = [OAsync KReset; OWait KReset true; ORelease; OAsync KStep; OWait KStep false] /\
  got e = [0; 0] /\ map nseen (ws e) = [2; 2].
Proof. exists sleeper_first, ops_stale. vm_compute. auto. Qed.
