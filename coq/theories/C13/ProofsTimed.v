(* C13 — proofs, part 5: the poll loop shares ONE deadline among the pipes. With answer times ds (any number of
   workers, any times) a wait with timeout T reports Timeout iff some answer arrives after T — the maximum, not a
   per-pipe budget — and it does so AT time T. The per-pipe variant is refuted by a staggered witness. *)
From Coq Require Import List Arith Bool Lia.
Import ListNotations.
From AgileV Require Import C13.Model C13.Proofs C13.ProofsGenuine.

Lemma poll_shared_spec T ds : forall now, now <= T ->
  (fst (poll_loop false T now ds) = true <-> Forall (fun d => d <= T) ds) /\
  (fst (poll_loop false T now ds) = false -> snd (poll_loop false T now ds) = T) /\
  (fst (poll_loop false T now ds) = true -> snd (poll_loop false T now ds) <= T).
Proof.
  induction ds as [|d ds IH]; intros now Hn; cbn [poll_loop].
  - cbn. repeat split; auto; discriminate.
  - replace (now + (T - now)) with T by lia.
    destruct (Nat.leb_spec d T) as [Hd|Hd].
    + destruct (IH (Nat.max now d) ltac:(lia)) as (H1 & H2 & H3). repeat split; auto.
      * intros H. constructor; auto. apply H1; auto.
      * intros H. inversion H; subst. apply H1; auto.
    + cbn. repeat split; auto; try discriminate. intros H. inversion H; subst. lia.
Qed.

Lemma poll_deadline_lemma T ds :
  (fst (poll_loop false T 0 ds) = true <-> Forall (fun d => d <= T) ds) /\
  (Exists (fun d => T < d) ds -> poll_loop false T 0 ds = (false, T)).
Proof.
  destruct (poll_shared_spec T ds 0 ltac:(lia)) as (H1 & H2 & _). split; auto.
  intros He. destruct (poll_loop false T 0 ds) as [b t] eqn:Hp. cbn [fst snd] in *.
  destruct b.
  - exfalso. apply Exists_exists in He as (d & Hin & Hd).
    assert (HF : Forall (fun d => d <= T) ds) by (apply H1; reflexivity).
    rewrite Forall_forall in HF. specialize (HF d Hin). lia.
  - rewrite (H2 eq_refl). reflexivity.
Qed.

Theorem timeout_reported_staggered_lemma k T ds e :
  closed e = false -> st e = wst k ->
  (Exists (fun d => T < d) ds ->
     wait_timed false k T ds e = (Timeout, mkE DEFAULT (closed e) (ws e) (eq e) (got e)) /\
     snd (poll_loop false T 0 ds) = T) /\
  (Forall (fun d => d <= T) ds -> fst (wait_timed false k T ds e) <> Timeout).
Proof.
  intros Hc Hs. unfold wait_timed. rewrite Hc, Hs, pst_eqb_refl. cbn [negb].
  destruct (poll_deadline_lemma T ds) as (H1 & H2). split.
  - intros He. rewrite (H2 He). cbn. auto.
  - intros HF. apply H1 in HF. rewrite HF.
    destruct (release_all (ws e) (eq e)) as [l q]. intros Ht.
    destruct (timeout_only_resets_state_lemma false _ Ht) as (_ & Hf & _). discriminate.
Qed.

(* the per-pipe budget: worker 0 answers at 100 < T = 150, worker 1 at 230 in (T, 100 + T): no Timeout, the call
   returns at 230 *)
Lemma per_pipe_budget_refuted_lemma : exists T ds,
  Exists (fun d => T < d) ds /\ poll_loop true T 0 ds = (true, 230) /\ poll_loop false T 0 ds = (false, T).
Proof. exists 150, [100; 230]. split; [right; left; lia | split; vm_compute; reflexivity]. Qed.
