(* C17 — lemmas and proofs about the model of C17/Model.v. *)
From Coq Require Import List Arith ZArith QArith Lia Lqa Setoid Bool.
Import ListNotations.
From AgileV Require Import C17.Model.
Local Open Scope Q_scope.

Definition eqlQ := Forall2 Qeq.

(* ========================================================================================== *)
(* 1. one column                                                                              *)
(* ========================================================================================== *)
Lemma gae_col_cons g l r rs v vs d ds nv nd :
  gae_col g l (r :: rs) (v :: vs) (d :: ds) nv nd =
  let '(advs, v1, d1) := gae_col g l rs vs ds nv nd in
  let last := match advs with a :: _ => a | [] => 0 end in
  (adv_step g l r v v1 d1 last :: advs, v, d).
Proof. reflexivity. Qed.

(* value / done flag "following" a (possibly empty) tail *)
Definition bd (ds : list Q) (nd : Q) : Q := match ds with d :: _ => d | [] => nd end.

Lemma gae_head_d g l rs vs ds nv nd :
  length rs = length vs -> length rs = length ds ->
  snd (gae_col g l rs vs ds nv nd) = bd ds nd.
Proof.
  destruct rs, vs, ds; cbn [length]; intros; try discriminate; auto.
  rewrite gae_col_cons. destruct (gae_col g l rs vs ds nv nd) as [[a v1] d1]. reflexivity.
Qed.

Lemma gae_head_v g l rs vs ds nv nd :
  length rs = length vs -> length rs = length ds ->
  snd (fst (gae_col g l rs vs ds nv nd)) = bd vs nv.
Proof.
  destruct rs, vs, ds; cbn [length]; intros; try discriminate; auto.
  rewrite gae_col_cons. destruct (gae_col g l rs vs ds nv nd) as [[a v1] d1]. reflexivity.
Qed.

Lemma gae_col_length g l : forall rs vs ds nv nd,
  length rs = length vs -> length rs = length ds ->
  length (advs_of (gae_col g l rs vs ds nv nd)) = length rs.
Proof.
  induction rs as [|r rs IH]; intros [|v vs] [|d ds] nv nd L1 L2; try discriminate; auto.
  rewrite gae_col_cons. specialize (IH vs ds nv nd ltac:(cbn in L1; lia) ltac:(cbn in L2; lia)).
  destruct (gae_col g l rs vs ds nv nd) as [[a v1] d1]. cbn in *. lia.
Qed.

Lemma bd_ext xs x : bd xs x = ext xs x 0.
Proof. destruct xs; reflexivity. Qed.

(* ---- the loop computes the definition -------------------------------------------------- *)
Lemma adv_def_ext g l r v d r' v' d' : forall n t,
  (forall i, (t <= i)%nat -> r i == r' i) -> (forall i, (t <= i)%nat -> v i == v' i) ->
  (forall i, (t <= i)%nat -> d i == d' i) ->
  adv_def g l r v d n t == adv_def g l r' v' d' n t.
Proof.
  induction n as [|n IH]; intros t Hr Hv Hd; cbn [adv_def]; [reflexivity|].
  rewrite (Hr t), (Hv t), (Hv (S t)), (Hd (S t)) by lia.
  rewrite (IH (S t)); [reflexivity| | |]; intros; [apply Hr|apply Hv|apply Hd]; lia.
Qed.

Lemma adv_def_shift g l r v d : forall n t,
  adv_def g l (fun i => r (S i)) (fun i => v (S i)) (fun i => d (S i)) n t = adv_def g l r v d n (S t).
Proof. induction n as [|n IH]; intros t; cbn [adv_def]; [reflexivity|]. rewrite IH. reflexivity. Qed.

Lemma gae_is_def_lemma g l : forall rs vs ds nv nd t,
  length rs = length vs -> length rs = length ds ->
  nth t (advs_of (gae_col g l rs vs ds nv nd)) 0 ==
  adv_def g l (fun i => nth i rs 0) (ext vs nv) (ext ds nd) (length rs - t) t.
Proof.
  induction rs as [|r rs IH]; intros [|v vs] [|d ds] nv nd t L1 L2; try discriminate.
  - cbn. destruct t; reflexivity.
  - cbn [length] in L1, L2. injection L1 as L1. injection L2 as L2.
    pose proof (gae_head_d g l rs vs ds nv nd L1 L2) as Hd.
    pose proof (gae_head_v g l rs vs ds nv nd L1 L2) as Hv.
    pose proof (IH vs ds nv nd) as IH'.
    rewrite gae_col_cons.
    destruct (gae_col g l rs vs ds nv nd) as [[advs v1] d1]. cbn [fst snd advs_of] in *. subst v1 d1.
    destruct t as [|t].
    + cbn [nth length Nat.sub adv_def].
      assert (HL : match advs with a :: _ => a | [] => 0 end == adv_def g l (fun i => nth i (r :: rs) 0)
                      (ext (v :: vs) nv) (ext (d :: ds) nd) (length rs) 1).
      { specialize (IH' 0%nat L1 L2). rewrite Nat.sub_0_r in IH'.
        rewrite <- adv_def_shift.
        destruct advs; cbn [nth] in IH'; exact IH'. }
      unfold adv_step. rewrite HL, !bd_ext. reflexivity.
    + cbn [nth length Nat.sub].
      rewrite (IH' t L1 L2). rewrite <- adv_def_shift. reflexivity.
Qed.

(* one unfolding of the recursion, in the words of the property *)
Lemma gae_unfold_lemma g l : forall rs vs ds nv nd t,
  length rs = length vs -> length rs = length ds -> (t < length rs)%nat ->
  let A := fun t => nth t (advs_of (gae_col g l rs vs ds nv nd)) 0 in
  let V := ext vs nv in let d := ext ds nd in
  A t == (nth t rs 0 + g * V (S t) * (1 - d (S t)) - V t) + g * l * (1 - d (S t)) * A (S t)
  /\ A (length rs) == 0.
Proof.
  intros rs vs ds nv nd t L1 L2 Ht A V d. unfold A.
  rewrite !gae_is_def_lemma by assumption.
  replace (length rs - t)%nat with (S (length rs - S t)) by lia.
  rewrite Nat.sub_diag. cbn [adv_def]. split; reflexivity.
Qed.

(* ---- episode boundaries ---------------------------------------------------------------- *)
Lemma gae_no_leak_lemma g l : forall r1 v1 d1 r2 v2 d2 nv nd r2' v2' d2' nv' nd',
  length r1 = length v1 -> length r1 = length d1 -> r1 <> [] ->
  length r2 = length v2 -> length r2 = length d2 ->
  length r2' = length v2' -> length r2' = length d2' ->
  bd d2 nd == 1 -> bd d2' nd' == 1 ->
  eqlQ (firstn (length r1) (advs_of (gae_col g l (r1 ++ r2) (v1 ++ v2) (d1 ++ d2) nv nd)))
       (firstn (length r1) (advs_of (gae_col g l (r1 ++ r2') (v1 ++ v2') (d1 ++ d2') nv' nd'))).
Proof.
  induction r1 as [|r r1 IH]; intros v1 d1 r2 v2 d2 nv nd r2' v2' d2' nv' nd' L1 L2 NE T1 T2 T1' T2' B B'.
  - congruence.
  - destruct v1 as [|v v1]; [discriminate|]. destruct d1 as [|d d1]; [discriminate|].
    cbn [length] in L1, L2. injection L1 as L1. injection L2 as L2.
    cbn [app]. rewrite !gae_col_cons.
    destruct r1 as [|r' r1].
    + destruct v1; [|discriminate]. destruct d1; [|discriminate]. cbn [app length firstn].
      pose proof (gae_head_d g l r2 v2 d2 nv nd T1 T2) as H.
      pose proof (gae_head_d g l r2' v2' d2' nv' nd' T1' T2') as H'.
      destruct (gae_col g l r2 v2 d2 nv nd) as [[a w] e].
      destruct (gae_col g l r2' v2' d2' nv' nd') as [[a' w'] e'].
      cbn [snd] in H, H'. subst e e'. cbn [advs_of fst firstn].
      constructor; [|constructor].
      unfold adv_step. rewrite B, B'. ring.
    + specialize (IH v1 d1 r2 v2 d2 nv nd r2' v2' d2' nv' nd' L1 L2 ltac:(discriminate) T1 T2 T1' T2' B B').
      destruct v1 as [|v' v1]; [discriminate|]. destruct d1 as [|d' d1]; [discriminate|].
      cbn [app] in *. rewrite !gae_col_cons in *.
      destruct (gae_col g l (r1 ++ r2) (v1 ++ v2) (d1 ++ d2) nv nd) as [[a w] e].
      destruct (gae_col g l (r1 ++ r2') (v1 ++ v2') (d1 ++ d2') nv' nd') as [[a' w'] e'].
      cbn [advs_of fst length firstn] in *.
      inversion IH as [|x y lx ly Hxy Hrest]; subst.
      constructor.
      * unfold adv_step. rewrite Hxy. reflexivity.
      * constructor; assumption.
Qed.

(* ========================================================================================== *)
(* 2. the row-wise loop of the code is the column recursion in every column                    *)
(* ========================================================================================== *)
Definition wf (C : nat) (M : list (list Q)) : Prop := Forall (fun row => length row = C) M.

Lemma zip5_length f : forall a b c d e n,
  length a = n -> length b = n -> length c = n -> length d = n -> length e = n ->
  length (zip5 f a b c d e) = n.
Proof.
  induction a as [|x a IH]; intros [|y b] [|z c] [|u d] [|w e] n; cbn [length zip5]; intros; subst; try discriminate; auto.
Qed.

Lemma zip5_nth f : forall a b c d e i,
  (i < length a)%nat -> length b = length a -> length c = length a -> length d = length a -> length e = length a ->
  nth i (zip5 f a b c d e) 0 = f (nth i a 0) (nth i b 0) (nth i c 0) (nth i d 0) (nth i e 0).
Proof.
  induction a as [|x a IH]; intros [|y b] [|z c] [|u d] [|w e] i; cbn [length zip5]; intros; try discriminate; try lia.
  destruct i; cbn [nth]; auto. apply IH; lia.
Qed.

Lemma gae_rows_cons g l r rs v vs d ds nv nd :
  gae_rows g l (r :: rs) (v :: vs) (d :: ds) nv nd =
  let '(advs, v1, d1) := gae_rows g l rs vs ds nv nd in
  let last := match advs with a :: _ => a | [] => map (fun _ => 0) r end in
  (zip5 (adv_step g l) r v v1 d1 last :: advs, v, d).
Proof. reflexivity. Qed.

Lemma nth_zeros (r : list Q) c : nth c (map (fun _ => 0) r) 0 = 0.
Proof. revert c; induction r; intros [|c]; cbn; auto. Qed.

Lemma gae_rows_col_lemma g l C : forall rs vs ds nv nd c,
  wf C rs -> wf C vs -> wf C ds -> length nv = C -> length nd = C ->
  length rs = length vs -> length rs = length ds -> (c < C)%nat ->
  let '(advs, v1, d1) := gae_rows g l rs vs ds nv nd in
  let '(advc, v1c, d1c) := gae_col g l (col 0 c rs) (col 0 c vs) (col 0 c ds) (nth c nv 0) (nth c nd 0) in
  col 0 c advs = advc /\ nth c v1 0 = v1c /\ nth c d1 0 = d1c /\ wf C advs /\ length v1 = C /\ length d1 = C.
Proof.
  induction rs as [|r rs IH]; intros [|v vs] [|d ds] nv nd c Wr Wv Wd Lnv Lnd L1 L2 Hc; try discriminate.
  - cbn. repeat split; auto; try constructor.
  - pose proof (Forall_inv Wr) as Hr; pose proof (Forall_inv_tail Wr) as Wr'.
    pose proof (Forall_inv Wv) as Hv; pose proof (Forall_inv_tail Wv) as Wv'.
    pose proof (Forall_inv Wd) as Hd; pose proof (Forall_inv_tail Wd) as Wd'. cbn beta in Hr, Hv, Hd.
    cbn [length] in L1, L2. injection L1 as L1. injection L2 as L2.
    specialize (IH vs ds nv nd c Wr' Wv' Wd' Lnv Lnd L1 L2 Hc).
    rewrite gae_rows_cons. cbn [col map]. rewrite gae_col_cons.
    destruct (gae_rows g l rs vs ds nv nd) as [[advs v1] d1].
    fold (col 0 c rs) (col 0 c vs) (col 0 c ds).
    destruct (gae_col g l (col 0 c rs) (col 0 c vs) (col 0 c ds) (nth c nv 0) (nth c nd 0)) as [[advc v1c] d1c].
    destruct IH as (Ha & Hv1 & Hd1 & Wa & Lv1 & Ld1).
    assert (Llast : length (match advs with a :: _ => a | [] => map (fun _ => 0) r end) = length r).
    { destruct advs as [|a advs]; [apply map_length|]. pose proof (Forall_inv Wa) as Ha0. cbn beta in Ha0. lia. }
    assert (Hlast : nth c (match advs with a :: _ => a | [] => map (fun _ => 0) r end) 0
                    = match advc with a :: _ => a | [] => 0 end).
    { subst advc. destruct advs as [|a advs]; cbn [col map]; [apply nth_zeros|reflexivity]. }
    repeat split; auto.
    + cbn [col map]. f_equal; [|exact Ha].
      rewrite zip5_nth by lia. rewrite Hv1, Hd1, Hlast. reflexivity.
    + constructor; [|exact Wa]. apply zip5_length; lia.
Qed.

(* ========================================================================================== *)
(* 3. flattening index maps                                                                   *)
(* ========================================================================================== *)
Lemma nth_map_seq {B} (F : nat -> B) n i d : (i < n)%nat -> nth i (map F (seq 0 n)) d = F i.
Proof.
  intros H. rewrite nth_indep with (d' := F 0%nat) by (rewrite map_length, seq_length; exact H).
  rewrite map_nth, seq_nth by exact H. reflexivity.
Qed.

Section FlatLemmas.
Context {A : Type} (dflt : A).

Lemma flat_map_const_length {B} (f : B -> list A) n : forall (l : list B),
  (forall x, In x l -> length (f x) = n) -> length (flat_map f l) = (length l * n)%nat.
Proof.
  induction l as [|x l IH]; intros H; cbn [flat_map length]; [reflexivity|].
  rewrite app_length. rewrite H by (cbn; auto). rewrite IH by (intros; apply H; cbn; auto). cbn [Nat.mul]. lia.
Qed.

Lemma nth_flat_map_const {B} (db : B) (f : B -> list A) n : forall (l : list B) i j,
  (forall x, In x l -> length (f x) = n) -> (i < length l)%nat -> (j < n)%nat ->
  nth (i * n + j) (flat_map f l) dflt = nth j (f (nth i l db)) dflt.
Proof.
  induction l as [|x l IH]; intros i j H Hi Hj; cbn [length] in Hi; [lia|].
  cbn [flat_map]. destruct i as [|i].
  - cbn [Nat.mul Nat.add nth]. apply app_nth1. rewrite H by (cbn; auto). exact Hj.
  - replace (S i * n + j)%nat with (length (f x) + (i * n + j))%nat by (rewrite H by (cbn; auto); lia).
    rewrite app_nth2_plus. cbn [nth]. apply IH; [intros; apply H; cbn; auto|lia|exact Hj].
Qed.

Lemma col_length c (M : list (list A)) : length (col dflt c M) = length M.
Proof. apply map_length. Qed.

Lemma col_nth c (M : list (list A)) t : (t < length M)%nat ->
  nth t (col dflt c M) dflt = nth c (nth t M []) dflt.
Proof.
  intros Ht. unfold col.
  rewrite nth_indep with (d' := (fun row => nth c row dflt) []) by (rewrite map_length; exact Ht).
  exact (map_nth (fun row => nth c row dflt) M [] t).
Qed.

(* flatten_experiences: row e*T + t holds arr[t][e] *)
Lemma flat_ppo_nth_lemma E (M : list (list A)) t e :
  (t < length M)%nat -> (e < E)%nat ->
  nth (e * length M + t) (flat_ppo dflt E M) dflt = nth e (nth t M []) dflt.
Proof.
  intros Ht He. unfold flat_ppo.
  rewrite (nth_flat_map_const 0%nat) by (try rewrite seq_length; auto; intros; apply col_length).
  rewrite seq_nth by exact He. cbn [Nat.add]. apply col_nth; exact Ht.
Qed.

Lemma flat_ppo_length E (M : list (list A)) : length (flat_ppo dflt E M) = (E * length M)%nat.
Proof.
  unfold flat_ppo. rewrite (flat_map_const_length _ (length M)), seq_length; [reflexivity|].
  intros; apply col_length.
Qed.

Lemma flat_ppo_one (M : list (list A)) : flat_ppo dflt 1 M = col dflt 0 M.
Proof. unfold flat_ppo. cbn. apply app_nil_r. Qed.

(* IPPO flatten_by_agent: row a*(T*E) + t*E + e holds M[t][a*E + e] *)
Lemma flat_ippo_nth_lemma nA E (M : list (list A)) a t e :
  (a < nA)%nat -> (t < length M)%nat -> (e < E)%nat ->
  nth (a * (length M * E) + (t * E + e)) (flat_ippo dflt nA E M) dflt = nth (a * E + e) (nth t M []) dflt.
Proof.
  intros Ha Ht He. unfold flat_ippo.
  assert (Hin : forall (a0 : nat) (x : list A), In x M ->
            length (map (fun e0 => nth (a0 * E + e0) x dflt) (seq 0 E)) = E).
  { intros. rewrite map_length, seq_length. reflexivity. }
  rewrite (nth_flat_map_const 0%nat _ (length M * E)).
  - rewrite seq_nth by exact Ha. cbn [Nat.add].
    rewrite (nth_flat_map_const []) by (auto; apply Hin).
    rewrite nth_map_seq by exact He. reflexivity.
  - intros x _. apply flat_map_const_length. apply Hin.
  - rewrite seq_length; exact Ha.
  - nia.
Qed.

Lemma flat_ippo_length nA E (M : list (list A)) : length (flat_ippo dflt nA E M) = (nA * (length M * E))%nat.
Proof.
  unfold flat_ippo. rewrite (flat_map_const_length _ (length M * E)), seq_length; [reflexivity|].
  intros x _. apply flat_map_const_length. intros. rewrite map_length, seq_length. reflexivity.
Qed.

Definition wf3 (T E : nat) (Ms : list (list (list A))) : Prop :=
  Forall (fun M => length M = T /\ Forall (fun row => length row = E) M) Ms.

Lemma concat_flat_map (M : list (list A)) : concat M = flat_map (fun x => x) M.
Proof. induction M; cbn; congruence. Qed.

(* concatenate_experiences_into_batches: row a*(T*E) + t*E + e holds Ms[a][t][e] *)
Lemma flat_obs_nth_lemma T E (Ms : list (list (list A))) a t e :
  wf3 T E Ms -> (a < length Ms)%nat -> (t < T)%nat -> (e < E)%nat ->
  nth (a * (T * E) + (t * E + e)) (flat_obs Ms) dflt = nth e (nth t (nth a Ms []) []) dflt.
Proof.
  intros W Ha Ht He. unfold flat_obs.
  assert (WM : forall M, In M Ms -> length M = T /\ Forall (fun row => length row = E) M).
  { apply Forall_forall. exact W. }
  rewrite (nth_flat_map_const [] _ (T * E)).
  - destruct (WM (nth a Ms [])) as [LM WR]; [apply nth_In; exact Ha|].
    rewrite concat_flat_map.
    rewrite (nth_flat_map_const [] _ E); [reflexivity| |lia|exact He].
    apply Forall_forall. exact WR.
  - intros M HM. destruct (WM M HM) as [LM WR]. rewrite concat_flat_map.
    rewrite (flat_map_const_length _ E), LM; [reflexivity|]. apply Forall_forall. exact WR.
  - exact Ha.
  - nia.
Qed.

Lemma flat_obs_length T E (Ms : list (list (list A))) : wf3 T E Ms -> length (flat_obs Ms) = (length Ms * (T * E))%nat.
Proof.
  intros W. unfold flat_obs. apply flat_map_const_length. intros M HM.
  destruct (proj1 (Forall_forall _ _) W M HM) as [LM WR]. rewrite concat_flat_map.
  rewrite (flat_map_const_length _ E), LM; [reflexivity|]. apply Forall_forall. exact WR.
Qed.

(* vectorize_experiences_by_agent + reshape(T, -1): entry [t][a*E + e] holds Ms[a][t][e] *)
Lemma vectorize_length T (Ms : list (list (list A))) : length (vectorize T Ms) = T.
Proof. unfold vectorize. rewrite map_length, seq_length. reflexivity. Qed.

Lemma vectorize_nth_lemma T E (Ms : list (list (list A))) a t e :
  wf3 T E Ms -> (a < length Ms)%nat -> (t < T)%nat -> (e < E)%nat ->
  nth (a * E + e) (nth t (vectorize T Ms) []) dflt = nth e (nth t (nth a Ms []) []) dflt.
Proof.
  intros W Ha Ht He. unfold vectorize.
  rewrite nth_map_seq by exact Ht.
  rewrite (nth_flat_map_const [] _ E); [reflexivity| |exact Ha|exact He].
  intros M HM. destruct (proj1 (Forall_forall _ _) W M HM) as [LM WR].
  apply (proj1 (Forall_forall _ _) WR). apply nth_In. lia.
Qed.

Lemma vectorize_row_length T E (Ms : list (list (list A))) t :
  wf3 T E Ms -> (t < T)%nat -> length (nth t (vectorize T Ms) []) = (length Ms * E)%nat.
Proof.
  intros W Ht. unfold vectorize.
  rewrite nth_map_seq by exact Ht.
  apply flat_map_const_length.
  intros M HM. destruct (proj1 (Forall_forall _ _) W M HM) as [LM WR].
  apply (proj1 (Forall_forall _ _) WR). apply nth_In. lia.
Qed.
End FlatLemmas.

(* the two index maps are bijections between (position in the rollout) and (row number) *)
Lemma ppo_index_bij T E : forall r, (r < E * T)%nat ->
  exists t e, (t < T)%nat /\ (e < E)%nat /\ r = (e * T + t)%nat /\
  forall t' e', (t' < T)%nat -> r = (e' * T + t')%nat -> t' = t /\ e' = e.
Proof.
  intros r Hr. assert (T <> 0)%nat by (intro; subst; lia).
  exists (r mod T)%nat, (r / T)%nat.
  pose proof (Nat.div_mod r T H). pose proof (Nat.mod_upper_bound r T H).
  repeat split; try lia.
  - apply Nat.div_lt_upper_bound; lia.
  - subst r. rewrite Nat.add_comm, Nat.mod_add by lia. rewrite Nat.mod_small; lia.
  - subst r. rewrite Nat.add_comm, Nat.div_add by lia. rewrite Nat.div_small; lia.
Qed.

Lemma ippo_index_bij nA T E : forall r, (r < nA * (T * E))%nat ->
  exists a t e, (a < nA)%nat /\ (t < T)%nat /\ (e < E)%nat /\ r = (a * (T * E) + (t * E + e))%nat /\
  forall a' t' e', (t' < T)%nat -> (e' < E)%nat -> r = (a' * (T * E) + (t' * E + e'))%nat -> a' = a /\ t' = t /\ e' = e.
Proof.
  intros r Hr.
  assert (HT : (T * E <> 0)%nat) by (intro H0; rewrite H0 in Hr; lia).
  assert (HE : (E <> 0)%nat) by (intro; subst; lia).
  set (q := (r mod (T * E))%nat).
  pose proof (Nat.div_mod r (T * E) HT) as D1. pose proof (Nat.mod_upper_bound r (T * E) HT) as B1.
  pose proof (Nat.div_mod q E HE) as D2. pose proof (Nat.mod_upper_bound q E HE) as B2.
  fold q in D1, B1.
  exists (r / (T * E))%nat, (q / E)%nat, (q mod E)%nat.
  assert (Ha : (r / (T * E) < nA)%nat) by (apply Nat.div_lt_upper_bound; lia).
  assert (Ht : (q / E < T)%nat) by (apply Nat.div_lt_upper_bound; lia).
  split; [exact Ha|]. split; [exact Ht|]. split; [lia|]. split; [lia|].
  intros a' t' e' Ht' He' Hr'.
    assert (Hq : (t' * E + e' < T * E)%nat) by nia.
    assert (a' = r / (T * E))%nat.
    { subst r. rewrite Nat.add_comm, Nat.div_add by lia. rewrite Nat.div_small; lia. }
    assert (Hq' : q = (t' * E + e')%nat).
    { unfold q. subst r. rewrite Nat.add_comm, Nat.mod_add by lia. rewrite Nat.mod_small; lia. }
    split; [assumption|].
    rewrite Hq'. split.
    + rewrite Nat.add_comm, Nat.div_add by lia. rewrite Nat.div_small; lia.
    + rewrite Nat.add_comm, Nat.mod_add by lia. rewrite Nat.mod_small; lia.
Qed.

(* ========================================================================================== *)
(* 4. consequences for whole rollouts                                                          *)
(* ========================================================================================== *)
Lemma wf_col_length (M : list (list Q)) c : length (col 0 c M) = length M.
Proof. apply map_length. Qed.

Lemma gae_rows_col_advs g l C rs vs ds nv nd c :
  wf C rs -> wf C vs -> wf C ds -> length nv = C -> length nd = C ->
  length rs = length vs -> length rs = length ds -> (c < C)%nat ->
  col 0 c (advs_of (gae_rows g l rs vs ds nv nd)) =
    advs_of (gae_col g l (col 0 c rs) (col 0 c vs) (col 0 c ds) (nth c nv 0) (nth c nd 0))
  /\ wf C (advs_of (gae_rows g l rs vs ds nv nd))
  /\ length (advs_of (gae_rows g l rs vs ds nv nd)) = length rs.
Proof.
  intros Wr Wv Wd Lnv Lnd L1 L2 Hc.
  pose proof (gae_rows_col_lemma g l C rs vs ds nv nd c Wr Wv Wd Lnv Lnd L1 L2 Hc) as H.
  pose proof (gae_col_length g l (col 0 c rs) (col 0 c vs) (col 0 c ds) (nth c nv 0) (nth c nd 0)) as HL.
  destruct (gae_rows g l rs vs ds nv nd) as [[advs v1] d1].
  destruct (gae_col g l (col 0 c rs) (col 0 c vs) (col 0 c ds) (nth c nv 0) (nth c nd 0)) as [[advc v1c] d1c].
  cbn [advs_of fst] in *. destruct H as (Ha & _ & _ & Wa & _ & _).
  repeat split; auto.
  rewrite <- (wf_col_length advs c), Ha, HL; rewrite ?wf_col_length; auto.
Qed.

Lemma skipn_bd_ext : forall n (xs : list Q) x, (n <= length xs)%nat -> bd (skipn n xs) x = ext xs x n.
Proof.
  induction n as [|n IH]; intros xs x H; [apply bd_ext|].
  destruct xs as [|y xs]; cbn [length] in H; [lia|]. cbn [skipn]. rewrite IH by lia. reflexivity.
Qed.

(* index form of no-leak for one column: two rollouts that agree up to step k in this column and both
   start a new episode at k+1 give the same estimates up to step k *)
Lemma gae_col_no_leak_idx g l rs vs ds nv nd rs' vs' ds' nv' nd' k :
  length rs = length vs -> length rs = length ds -> length rs' = length vs' -> length rs' = length ds' ->
  (k < length rs)%nat -> (k < length rs')%nat ->
  firstn (S k) rs = firstn (S k) rs' -> firstn (S k) vs = firstn (S k) vs' -> firstn (S k) ds = firstn (S k) ds' ->
  ext ds nd (S k) == 1 -> ext ds' nd' (S k) == 1 ->
  eqlQ (firstn (S k) (advs_of (gae_col g l rs vs ds nv nd))) (firstn (S k) (advs_of (gae_col g l rs' vs' ds' nv' nd'))).
Proof.
  intros L1 L2 L1' L2' Hk Hk' Er Ev Ed B B'.
  assert (Lf : length (firstn (S k) rs) = S k) by (apply firstn_length_le; lia).
  assert (H : eqlQ
    (firstn (length (firstn (S k) rs)) (advs_of (gae_col g l (firstn (S k) rs ++ skipn (S k) rs)
        (firstn (S k) vs ++ skipn (S k) vs) (firstn (S k) ds ++ skipn (S k) ds) nv nd)))
    (firstn (length (firstn (S k) rs)) (advs_of (gae_col g l (firstn (S k) rs ++ skipn (S k) rs')
        (firstn (S k) vs ++ skipn (S k) vs') (firstn (S k) ds ++ skipn (S k) ds') nv' nd')))).
  { apply gae_no_leak_lemma.
    - rewrite !firstn_length. lia.
    - rewrite !firstn_length. lia.
    - intro H0. rewrite H0 in Lf. discriminate.
    - rewrite !skipn_length. lia.
    - rewrite !skipn_length. lia.
    - rewrite !skipn_length. lia.
    - rewrite !skipn_length. lia.
    - rewrite skipn_bd_ext by lia. exact B.
    - rewrite skipn_bd_ext by lia. exact B'. }
  rewrite Lf in H.
  rewrite (firstn_skipn (S k) rs), (firstn_skipn (S k) vs), (firstn_skipn (S k) ds) in H.
  rewrite Er, Ev, Ed in H. rewrite !firstn_skipn in H. exact H.
Qed.

Lemma gae_rows_no_leak_lemma g l C rs vs ds nv nd rs' vs' ds' nv' nd' c k :
  wf C rs -> wf C vs -> wf C ds -> length nv = C -> length nd = C -> length rs = length vs -> length rs = length ds ->
  wf C rs' -> wf C vs' -> wf C ds' -> length nv' = C -> length nd' = C -> length rs' = length vs' -> length rs' = length ds' ->
  (c < C)%nat -> (k < length rs)%nat -> (k < length rs')%nat ->
  firstn (S k) (col 0 c rs) = firstn (S k) (col 0 c rs') ->
  firstn (S k) (col 0 c vs) = firstn (S k) (col 0 c vs') ->
  firstn (S k) (col 0 c ds) = firstn (S k) (col 0 c ds') ->
  ext (col 0 c ds) (nth c nd 0) (S k) == 1 -> ext (col 0 c ds') (nth c nd' 0) (S k) == 1 ->
  eqlQ (firstn (S k) (col 0 c (advs_of (gae_rows g l rs vs ds nv nd))))
       (firstn (S k) (col 0 c (advs_of (gae_rows g l rs' vs' ds' nv' nd')))).
Proof.
  intros Wr Wv Wd Lnv Lnd L1 L2 Wr' Wv' Wd' Lnv' Lnd' L1' L2' Hc Hk Hk' Er Ev Ed B B'.
  destruct (gae_rows_col_advs g l C rs vs ds nv nd c Wr Wv Wd Lnv Lnd L1 L2 Hc) as (E1 & _ & _).
  destruct (gae_rows_col_advs g l C rs' vs' ds' nv' nd' c Wr' Wv' Wd' Lnv' Lnd' L1' L2' Hc) as (E2 & _ & _).
  rewrite E1, E2.
  apply gae_col_no_leak_idx; rewrite ?wf_col_length; auto; try lia.
Qed.

(* a column of the result depends on that column of the inputs only *)
Lemma gae_rows_columns_independent_lemma g l C rs vs ds nv nd rs' vs' ds' nv' nd' c :
  wf C rs -> wf C vs -> wf C ds -> length nv = C -> length nd = C -> length rs = length vs -> length rs = length ds ->
  wf C rs' -> wf C vs' -> wf C ds' -> length nv' = C -> length nd' = C -> length rs' = length vs' -> length rs' = length ds' ->
  (c < C)%nat ->
  col 0 c rs = col 0 c rs' -> col 0 c vs = col 0 c vs' -> col 0 c ds = col 0 c ds' ->
  nth c nv 0 = nth c nv' 0 -> nth c nd 0 = nth c nd' 0 ->
  col 0 c (advs_of (gae_rows g l rs vs ds nv nd)) = col 0 c (advs_of (gae_rows g l rs' vs' ds' nv' nd')).
Proof.
  intros Wr Wv Wd Lnv Lnd L1 L2 Wr' Wv' Wd' Lnv' Lnd' L1' L2' Hc Er Ev Ed Env End.
  destruct (gae_rows_col_advs g l C rs vs ds nv nd c Wr Wv Wd Lnv Lnd L1 L2 Hc) as (E1 & _ & _).
  destruct (gae_rows_col_advs g l C rs' vs' ds' nv' nd' c Wr' Wv' Wd' Lnv' Lnd' L1' L2' Hc) as (E2 & _ & _).
  rewrite E1, E2, Er, Ev, Ed, Env, End. reflexivity.
Qed.

(* ---- rows -------------------------------------------------------------------------------- *)
Definition dflt6 : row6 := (0%Z, 0%Z, 0%Z, 0, 0, 0).

Lemma combine6_nth : forall a b c d e f r,
  (r < length a)%nat -> length b = length a -> length c = length a -> length d = length a ->
  length e = length a -> length f = length a ->
  nth r (combine6 a b c d e f) dflt6 = (nth r a 0%Z, nth r b 0%Z, nth r c 0%Z, nth r d 0, nth r e 0, nth r f 0).
Proof.
  induction a as [|x a IH]; intros [|y b] [|z c] [|u d] [|v e] [|w f] r; cbn [length combine6]; intros; try discriminate; try lia.
  destruct r; cbn [nth]; auto. apply IH; lia.
Qed.

Lemma vec_add_length : forall a b, length b = length a -> length (vec_add a b) = length a.
Proof. induction a as [|x a IH]; intros [|y b] H; cbn in *; try discriminate; auto. Qed.

Lemma vec_add_nth : forall a b r, length b = length a -> (r < length a)%nat ->
  nth r (vec_add a b) 0 = nth r a 0 + nth r b 0.
Proof.
  induction a as [|x a IH]; intros [|y b] r H Hr; cbn [length] in *; try discriminate; try lia.
  destruct r; cbn [vec_add nth]; auto. apply IH; lia.
Qed.

Lemma mat_add_length : forall a b, length b = length a -> length (mat_add a b) = length a.
Proof. induction a as [|x a IH]; intros [|y b] H; cbn in *; try discriminate; auto. Qed.

Lemma mat_add_nth C : forall a b t e, length b = length a -> wf C a -> wf C b -> (t < length a)%nat -> (e < C)%nat ->
  nth e (nth t (mat_add a b) []) 0 = nth e (nth t a []) 0 + nth e (nth t b []) 0.
Proof.
  induction a as [|x a IH]; intros [|y b] t e H Wa Wb Ht He; cbn [length] in *; try discriminate; try lia.
  pose proof (Forall_inv Wa) as Hx. pose proof (Forall_inv Wb) as Hy. cbn beta in Hx, Hy.
  destruct t; cbn [mat_add nth].
  - apply vec_add_nth; lia.
  - apply IH; try lia; eapply Forall_inv_tail; eauto.
Qed.

Lemma flat_ppo_nth_T {A} (d : A) E T (M : list (list A)) t e :
  length M = T -> (t < T)%nat -> (e < E)%nat -> nth (e * T + t) (flat_ppo d E M) d = nth e (nth t M []) d.
Proof. intros; subst T. apply flat_ppo_nth_lemma; auto. Qed.

(* PPO: row e*T + t of every one of the six tensors belongs to (t, e), and the advantage in it is the
   estimate of column e at time t *)
Lemma ppo_rows_spec_lemma E g l obs act lp R V D nv nd T :
  length R = T -> length V = T -> length D = T -> length obs = T -> length act = T -> length lp = T ->
  wf E R -> wf E V -> wf E D -> length nv = E -> length nd = E ->
  forall t e, (t < T)%nat -> (e < E)%nat ->
  nth (e * T + t) (ppo_rows true E g l obs act lp R V D nv nd) dflt6 =
    let A := nth t (advs_of (gae_col g l (col 0 e R) (col 0 e V) (col 0 e D) (nth e nv 0) (nth e nd 0))) 0 in
    let v := nth e (nth t V []) 0 in
    (nth e (nth t obs []) 0%Z, nth e (nth t act []) 0%Z, nth e (nth t lp []) 0%Z, A, A + v, v).
Proof.
  intros LR LV LD Lo La Ll WR WV WD Lnv Lnd t e Ht He.
  destruct (gae_rows_col_advs g l E R V D nv nd e WR WV WD Lnv Lnd ltac:(lia) ltac:(lia) He) as (E1 & Wa & La').
  unfold ppo_rows. set (adv := advs_of (gae_rows g l R V D nv nd)) in *.
  assert (Lm : length (mat_add adv V) = T) by (rewrite mat_add_length; lia).
  assert (Hr : (e * T + t < E * T)%nat) by nia.
  rewrite combine6_nth by (rewrite ?flat_ppo_length; try lia; nia).
  rewrite !(flat_ppo_nth_T _ E T) by (auto; lia).
  rewrite (mat_add_nth E) by (auto; lia).
  assert (HA : nth e (nth t adv []) 0 = nth t (col 0 e adv) 0) by (symmetry; apply col_nth; lia).
  rewrite HA, E1. reflexivity.
Qed.

Lemma ppo_rows_length E g l obs act lp R V D nv nd T :
  length R = T -> length V = T -> length D = T -> length obs = T -> length act = T -> length lp = T ->
  wf E R -> wf E V -> wf E D -> length nv = E -> length nd = E -> (0 < E)%nat ->
  length (ppo_rows true E g l obs act lp R V D nv nd) = (E * T)%nat.
Proof.
  intros LR LV LD Lo La Ll WR WV WD Lnv Lnd HE.
  destruct (gae_rows_col_advs g l E R V D nv nd 0 WR WV WD Lnv Lnd ltac:(lia) ltac:(lia) HE) as (_ & Wa & La').
  unfold ppo_rows. set (adv := advs_of (gae_rows g l R V D nv nd)) in *.
  assert (Lm : length (mat_add adv V) = T) by (rewrite mat_add_length; lia).
  assert (forall a b c d e f n, length a = n -> length b = n -> length c = n -> length d = n -> length e = n -> length f = n ->
            length (combine6 a b c d e f) = n) as CL.
  { induction a as [|x a IH]; intros [|y b] [|z c] [|u d] [|v e] [|w f] n; cbn [length combine6]; intros; subst; try discriminate; auto. }
  apply CL; rewrite flat_ppo_length; lia.
Qed.

(* without an environment axis nothing is reshaped; this is the E = 1 case of the same map *)
Lemma ppo_rows_unvectorised_lemma g l obs act lp R V D nv nd :
  ppo_rows false 1 g l obs act lp R V D nv nd = ppo_rows true 1 g l obs act lp R V D nv nd.
Proof. unfold ppo_rows. rewrite !flat_ppo_one. reflexivity. Qed.

(* ---- IPPO ---------------------------------------------------------------------------------- *)
Lemma vectorize_wf {A} T E (Ms : list (list (list A))) :
  wf3 T E Ms -> Forall (fun row => length row = (length Ms * E)%nat) (vectorize T Ms).
Proof.
  intros W. apply Forall_forall. intros row Hin.
  destruct (In_nth _ _ [] Hin) as (t & Ht & Hrow). rewrite vectorize_length in Ht.
  rewrite <- Hrow. apply vectorize_row_length; assumption.
Qed.

Lemma vectorize_col T E (Ms : list (list (list Q))) a e :
  wf3 T E Ms -> (a < length Ms)%nat -> (e < E)%nat ->
  col 0 (a * E + e) (vectorize T Ms) = col 0 e (nth a Ms []).
Proof.
  intros W Ha He.
  assert (LM : length (nth a Ms []) = T).
  { apply (proj1 (Forall_forall _ _) W). apply nth_In. exact Ha. }
  apply nth_ext with (d := 0) (d' := 0).
  - rewrite !col_length, vectorize_length. lia.
  - intros t Ht. rewrite col_length, vectorize_length in Ht.
    rewrite !col_nth by (rewrite ?vectorize_length; lia).
    apply (vectorize_nth_lemma 0 T E); assumption.
Qed.

Lemma flat_next_nth {A} (d : A) E (xs : list (list A)) a e :
  Forall (fun x => length x = E) xs -> (a < length xs)%nat -> (e < E)%nat ->
  nth (a * E + e) (flat_next xs) d = nth e (nth a xs []) d.
Proof.
  intros W Ha He. unfold flat_next. rewrite concat_flat_map.
  rewrite (nth_flat_map_const d [] _ E); [reflexivity| |exact Ha|exact He].
  apply Forall_forall. exact W.
Qed.

Lemma flat_next_length {A} E (xs : list (list A)) :
  Forall (fun x => length x = E) xs -> length (flat_next xs) = (length xs * E)%nat.
Proof.
  intros W. unfold flat_next. rewrite concat_flat_map. apply flat_map_const_length. apply Forall_forall. exact W.
Qed.

(* IPPO: row a*(T*E) + t*E + e of every one of the six tensors belongs to (agent a, time t, env e) and the
   advantage in it is the estimate of that agent's column e at time t, bootstrapped from that agent's next value
   and next_done in env e *)
Lemma ippo_rows_spec_lemma nA E T g l obs act lp R V D nv nd :
  length R = nA -> length V = nA -> length D = nA -> length obs = nA -> length act = nA -> length lp = nA ->
  length nv = nA -> length nd = nA ->
  wf3 T E R -> wf3 T E V -> wf3 T E D -> wf3 T E obs -> wf3 T E act -> wf3 T E lp ->
  Forall (fun x => length x = E) nv -> Forall (fun x => length x = E) nd ->
  forall a t e, (a < nA)%nat -> (t < T)%nat -> (e < E)%nat ->
  nth (a * (T * E) + (t * E + e)) (ippo_rows nA E T g l obs act lp R V D nv nd) dflt6 =
    let cq := fun Ms : list (list (list Q)) => col 0 e (nth a Ms []) in
    let A := nth t (advs_of (gae_col g l (cq R) (cq V) (cq D) (nth e (nth a nv []) 0) (nth e (nth a nd []) 0))) 0 in
    let v := nth e (nth t (nth a V []) []) 0 in
    (nth e (nth t (nth a obs []) []) 0%Z, nth e (nth t (nth a act []) []) 0%Z, nth e (nth t (nth a lp []) []) 0%Z,
     A, A + v, v).
Proof.
  intros LR LV LD Lo La Ll Lnv Lnd WR WV WD Wo Wa Wl Wnv Wnd a t e Ha Ht He.
  unfold ippo_rows, ippo_rows_gen.
  set (Rm := vectorize T R). set (Vm := vectorize T V). set (Dm := vectorize T D).
  assert (Hc : (a * E + e < nA * E)%nat) by nia.
  assert (WRm : wf (nA * E) Rm) by (unfold Rm; rewrite <- LR; apply vectorize_wf; exact WR).
  assert (WVm : wf (nA * E) Vm) by (unfold Vm; rewrite <- LV; apply vectorize_wf; exact WV).
  assert (WDm : wf (nA * E) Dm) by (unfold Dm; rewrite <- LD; apply vectorize_wf; exact WD).
  assert (LRm : length Rm = T) by apply vectorize_length.
  assert (LVm : length Vm = T) by apply vectorize_length.
  assert (LDm : length Dm = T) by apply vectorize_length.
  destruct (gae_rows_col_advs g l (nA * E) Rm Vm Dm (flat_next nv) (flat_next nd) (a * E + e) WRm WVm WDm
              ltac:(rewrite (flat_next_length E), Lnv by exact Wnv; reflexivity)
              ltac:(rewrite (flat_next_length E), Lnd by exact Wnd; reflexivity)
              ltac:(lia) ltac:(lia) Hc) as (E1 & Wadv & Ladv).
  set (adv := advs_of (gae_rows g l Rm Vm Dm (flat_next nv) (flat_next nd))) in *.
  assert (Lfa : length (flat_ippo 0 nA E adv) = (nA * (T * E))%nat) by (rewrite flat_ippo_length; lia).
  assert (Lfv : length (flat_ippo 0 nA E Vm) = (nA * (T * E))%nat) by (rewrite flat_ippo_length; lia).
  assert (Hr : (a * (T * E) + (t * E + e) < nA * (T * E))%nat) by nia.
  rewrite combine6_nth.
  2: { rewrite (flat_obs_length T E) by exact Wo. lia. }
  2: { rewrite !(flat_obs_length T E) by assumption. lia. }
  2: { rewrite flat_ippo_length, vectorize_length, (flat_obs_length T E) by assumption. lia. }
  2: { rewrite (flat_obs_length T E) by assumption. lia. }
  2: { rewrite vec_add_length, (flat_obs_length T E) by (assumption || lia). lia. }
  2: { rewrite (flat_obs_length T E) by assumption. lia. }
  rewrite vec_add_nth by lia.
  rewrite !(flat_obs_nth_lemma _ T E) by (assumption || lia).
  (* rows of the three flatten_by_agent tensors *)
  assert (FI : forall {X} (d : X) (M : list (list X)), length M = T ->
             nth (a * (T * E) + (t * E + e)) (flat_ippo d nA E M) d = nth (a * E + e) (nth t M []) d).
  { intros X d M LM. rewrite <- LM. apply flat_ippo_nth_lemma; lia. }
  rewrite !FI by (apply vectorize_length || lia).
  rewrite (vectorize_nth_lemma 0%Z T E) by (assumption || lia).
  unfold Vm at 1 2. rewrite !(vectorize_nth_lemma 0 T E) by (assumption || lia).
  assert (HA : nth (a * E + e) (nth t adv []) 0 = nth t (col 0 (a * E + e) adv) 0) by (symmetry; apply col_nth; lia).
  rewrite HA, E1.
  unfold Rm, Vm, Dm. rewrite !(vectorize_col T E) by (assumption || lia).
  rewrite !(flat_next_nth 0 E) by (assumption || lia).
  reflexivity.
Qed.

(* ---- done flags as the training loops record them --------------------------------------------- *)
Lemma record_dones_spec_lemma : forall env_dones d0,
  let '(ds, nd) := record_dones d0 env_dones in ds ++ [nd] = d0 :: env_dones /\ length ds = length env_dones.
Proof.
  induction env_dones as [|x rest IH]; intros d0; cbn [record_dones]; [split; reflexivity|].
  specialize (IH x). destruct (record_dones x rest) as [ds nd]. destruct IH as [IH1 IH2].
  cbn [app length]. rewrite IH1, IH2. split; reflexivity.
Qed.

Lemma done_convention_lemma env_dones t :
  let '(ds, nd) := record_dones 0 env_dones in
  ext ds nd (S t) = nth t env_dones 0 /\ length ds = length env_dones.
Proof.
  pose proof (record_dones_spec_lemma env_dones 0) as H.
  destruct (record_dones 0 env_dones) as [ds nd]. destruct H as [H1 H2].
  unfold ext. rewrite H1. split; [reflexivity|exact H2].
Qed.

(* ---- behaviours that violate the property ------------------------------------------------------ *)
(* row order before fix edaa156: with two agents sharing a policy and two steps, row 1 carries the
   observation of (agent 0, t 1) and the old log-prob / advantage of (agent 1, t 0) *)
Lemma ippo_old_order_misaligned :
  exists (obs : list (list (list Z))) (R : list (list (list Q))) (nv : list (list Q)),
    wf3 2 1 obs /\ wf3 2 1 R /\
    match nth 1 (ippo_rows_old 2 1 2 1 1 obs obs obs R R R nv nv) dflt6 with
    | (o, a, lp, _, _, _) => o = 65%Z /\ a = 65%Z /\ lp = 9%Z
    end.
Proof.
  exists [[[1%Z]; [65%Z]]; [[9%Z]; [73%Z]]], [[[0]; [0]]; [[0]; [0]]], [[0]; [0]].
  repeat split; repeat constructor.
Qed.

(* next_done read in (env, agent) order: with 2 agents x 2 envs and one step, the estimate of
   (agent 0, env 1) is cut off by the next_done flag of (agent 1, env 0) *)
Lemma ippo_next_done_pinned_wrong :
  exists (tg : list (list (list Z))) (R V D : list (list (list Q))) (nv nd : list (list Q)),
    wf3 1 2 R /\ wf3 1 2 V /\ wf3 1 2 D /\ Forall (fun x => length x = 2%nat) nv /\ Forall (fun x => length x = 2%nat) nd /\
    match nth 1 (ippo_rows_pinned 2 2 1 1 1 tg tg tg R V D nv nd) dflt6,
          nth 1 (ippo_rows 2 2 1 1 1 tg tg tg R V D nv nd) dflt6 with
    | (o, _, _, adv, _, _), (o', _, _, adv', _, _) => o = 2%Z /\ o' = 2%Z /\ adv == 0 /\ adv' == 1 /\ ~ adv == adv'
    end.
Proof.
  exists [[[1%Z; 2%Z]]; [[9%Z; 10%Z]]], [[[0; 0]]; [[0; 0]]], [[[0; 0]]; [[0; 0]]], [[[0; 0]]; [[0; 0]]],
         [[1; 1]; [1; 1]], [[0; 0]; [1; 0]].
  repeat split; repeat constructor; try discriminate.
Qed.

Lemma ippo_two_routes_lemma : forall (X : Type) (d : X) T E (Ms : list (list (list X))) a t e,
  wf3 T E Ms -> (a < length Ms)%nat -> (t < T)%nat -> (e < E)%nat ->
  nth (a * (T * E) + (t * E + e)) (flat_obs Ms) d = nth e (nth t (nth a Ms []) []) d /\
  nth (a * (T * E) + (t * E + e)) (flat_ippo d (length Ms) E (vectorize T Ms)) d = nth e (nth t (nth a Ms []) []) d.
Proof.
  intros X d T E Ms a t e W Ha Ht He. split.
  - exact (flat_obs_nth_lemma d T E Ms a t e W Ha Ht He).
  - rewrite <- (vectorize_length T Ms) at 1.
    rewrite (flat_ippo_nth_lemma d (length Ms) E (vectorize T Ms) a t e Ha) by (rewrite ?vectorize_length; assumption).
    exact (vectorize_nth_lemma d T E Ms a t e W Ha Ht He).
Qed.

(* the minibatch is made of whole rows: gathering the six tensors with one index array = gathering rows *)
Lemma minibatch_rows_lemma : forall idx a b c d e f,
  length b = length a -> length c = length a -> length d = length a -> length e = length a -> length f = length a ->
  Forall (fun i => (i < length a)%nat) idx ->
  minibatch idx a b c d e f = gather dflt6 idx (combine6 a b c d e f).
Proof.
  induction idx as [|i idx IH]; intros a b c d e f Lb Lc Ld Le Lf Hi; [reflexivity|].
  pose proof (Forall_inv Hi) as H0. pose proof (Forall_inv_tail Hi) as H1. cbn beta in H0.
  unfold minibatch, gather in *. cbn [map combine6].
  rewrite combine6_nth by assumption. f_equal. apply IH; assumption.
Qed.

(* where the pinned next_done layout is invisible: one agent per policy, or one environment *)
Lemma flat_next_pinned_one_agent {A} (d : A) E (x : list A) :
  length x = E -> flat_next_pinned d E [x] = flat_next [x].
Proof.
  intros L. unfold flat_next_pinned, flat_next. cbn [concat map]. rewrite app_nil_r.
  subst E. induction x as [|y x IH] using rev_ind; [reflexivity|].
  rewrite app_length. cbn [length]. rewrite Nat.add_1_r, seq_S, flat_map_app. cbn [flat_map Nat.add].
  rewrite app_nth2, Nat.sub_diag by lia. cbn [nth]. rewrite app_nil_r. f_equal.
  rewrite <- IH at 2. rewrite !flat_map_concat_map. f_equal. apply map_ext_in.
  intros e He. apply in_seq in He. rewrite app_nth1 by lia. reflexivity.
Qed.

Lemma flat_next_pinned_one_env {A} (d : A) (xs : list (list A)) :
  Forall (fun x => length x = 1%nat) xs -> flat_next_pinned d 1 xs = flat_next xs.
Proof.
  intros W. unfold flat_next_pinned, flat_next. cbn [seq flat_map]. rewrite app_nil_r.
  induction xs as [|x xs IH]; [reflexivity|].
  pose proof (Forall_inv W) as Hx. pose proof (Forall_inv_tail W) as Hxs. cbn beta in Hx.
  destruct x as [|y [|z x]]; cbn [length] in Hx; try discriminate.
  cbn [map concat nth app]. f_equal. apply IH. exact Hxs.
Qed.

Lemma ippo_pinned_same_when_one_agent_or_env nA E T g l obs act lp R V D nv nd :
  (nA = 1%nat /\ (exists x, nd = [x] /\ length x = E)) \/ (E = 1%nat /\ Forall (fun x => length x = 1%nat) nd) ->
  ippo_rows_pinned nA E T g l obs act lp R V D nv nd = ippo_rows nA E T g l obs act lp R V D nv nd.
Proof.
  intros [[-> (x & -> & Lx)]|[-> W]]; unfold ippo_rows_pinned, ippo_rows, ippo_rows_gen.
  - rewrite flat_next_pinned_one_agent by exact Lx. reflexivity.
  - rewrite flat_next_pinned_one_env by exact W. reflexivity.
Qed.

(* ---- the two halves composed: episode ends of the environment cut the estimates ------------------- *)
Lemma record_dones_firstn env_dones k : (k < length env_dones)%nat ->
  firstn (S k) (fst (record_dones 0 env_dones)) = 0 :: firstn k env_dones.
Proof.
  intros Hk. pose proof (record_dones_spec_lemma env_dones 0) as H.
  destruct (record_dones 0 env_dones) as [ds nd]. destruct H as [H1 H2]. cbn [fst].
  assert (Hds : ds = firstn (length ds) (0 :: env_dones)).
  { rewrite <- H1. rewrite firstn_app, Nat.sub_diag, firstn_all. cbn [firstn]. rewrite app_nil_r. reflexivity. }
  rewrite Hds, firstn_firstn, H2. replace (Nat.min (S k) (length env_dones)) with (S k) by lia. reflexivity.
Qed.

Lemma episode_end_cuts_estimates_lemma g l rs vs env_dones nv rs' vs' env_dones' nv' k :
  length rs = length vs -> length rs = length env_dones ->
  length rs' = length vs' -> length rs' = length env_dones' ->
  (k < length rs)%nat -> (k < length rs')%nat ->
  firstn (S k) rs = firstn (S k) rs' -> firstn (S k) vs = firstn (S k) vs' ->
  firstn k env_dones = firstn k env_dones' ->
  nth k env_dones 0 == 1 -> nth k env_dones' 0 == 1 ->
  let '(ds, nd) := record_dones 0 env_dones in
  let '(ds', nd') := record_dones 0 env_dones' in
  eqlQ (firstn (S k) (advs_of (gae_col g l rs vs ds nv nd)))
       (firstn (S k) (advs_of (gae_col g l rs' vs' ds' nv' nd'))).
Proof.
  intros L1 L2 L1' L2' Hk Hk' Er Ev Ee B B'.
  pose proof (record_dones_firstn env_dones k ltac:(lia)) as F.
  pose proof (record_dones_firstn env_dones' k ltac:(lia)) as F'.
  pose proof (done_convention_lemma env_dones k) as C.
  pose proof (done_convention_lemma env_dones' k) as C'.
  destruct (record_dones 0 env_dones) as [ds nd]. destruct (record_dones 0 env_dones') as [ds' nd'].
  cbn [fst] in F, F'. destruct C as [C1 C2]. destruct C' as [C1' C2'].
  apply gae_col_no_leak_idx; try lia; auto.
  - rewrite F, F', Ee. reflexivity.
  - rewrite C1. exact B.
  - rewrite C1'. exact B'.
Qed.

(* the tensor the code calls `advantages`, entry [t][c], is the estimate A_t of column c *)
Lemma gae_rows_is_def_lemma g l C rs vs ds nv nd c t :
  wf C rs -> wf C vs -> wf C ds -> length nv = C -> length nd = C ->
  length rs = length vs -> length rs = length ds -> (c < C)%nat -> (t < length rs)%nat ->
  nth c (nth t (advs_of (gae_rows g l rs vs ds nv nd)) []) 0 ==
  adv_def g l (fun i => nth c (nth i rs []) 0)
              (ext (col 0 c vs) (nth c nv 0)) (ext (col 0 c ds) (nth c nd 0)) (length rs - t) t.
Proof.
  intros Wr Wv Wd Lnv Lnd L1 L2 Hc Ht.
  destruct (gae_rows_col_advs g l C rs vs ds nv nd c Wr Wv Wd Lnv Lnd L1 L2 Hc) as (E1 & Wa & La).
  rewrite <- (col_nth 0 c) by lia. rewrite E1.
  rewrite gae_is_def_lemma by (rewrite !wf_col_length; lia).
  rewrite wf_col_length.
  apply adv_def_ext; intros i Hi; try reflexivity.
  destruct (Nat.lt_ge_cases i (length rs)) as [Hlt|Hge].
  - rewrite col_nth by exact Hlt. reflexivity.
  - rewrite (nth_overflow (col 0 c rs)) by (rewrite wf_col_length; lia).
    rewrite (nth_overflow rs) by lia. destruct c; reflexivity.
Qed.

(* ========================================================================================== *)
(* 5. the epoch / minibatch loop                                                               *)
(* ========================================================================================== *)
From Coq Require Import Permutation.

Lemma chunks_fuel_concat B : (1 <= B)%nat -> forall fuel l, (length l <= fuel)%nat ->
  concat (chunks_fuel fuel B l) = l.
Proof.
  intros HB. induction fuel as [|f IH]; intros l Hl.
  - destruct l; [reflexivity|cbn in Hl; lia].
  - destruct l as [|x l]; [reflexivity|].
    cbn [chunks_fuel concat]. rewrite IH.
    + apply firstn_skipn.
    + rewrite skipn_length. cbn [length] in *. lia.
Qed.

Lemma chunks_concat_lemma B l : (1 <= B)%nat -> concat (chunks B l) = l.
Proof. intros HB. apply chunks_fuel_concat; auto. Qed.

Lemma chunks_fuel_bound B : (1 <= B)%nat -> forall fuel l,
  Forall (fun c => (1 <= length c <= B)%nat) (chunks_fuel fuel B l).
Proof.
  intros HB. induction fuel as [|f IH]; intros l; [constructor|].
  destruct l as [|x l]; [constructor|]. cbn [chunks_fuel]. constructor; [|apply IH].
  rewrite firstn_length. cbn [length]. lia.
Qed.

Lemma chunks_bound_lemma B l : (1 <= B)%nat -> Forall (fun c => (1 <= length c <= B)%nat) (chunks B l).
Proof. intros; apply chunks_fuel_bound; auto. Qed.

(* all minibatches of an epoch but the last have exactly batch_size rows *)
Lemma chunks_fuel_full B : (1 <= B)%nat -> forall fuel l, (length l <= fuel)%nat ->
  forall i, (S i < length (chunks_fuel fuel B l))%nat -> length (nth i (chunks_fuel fuel B l) []) = B.
Proof.
  intros HB. induction fuel as [|f IH]; intros l Hl i Hi; [cbn in Hi; lia|].
  destruct l as [|x l]; [cbn in Hi; lia|]. cbn [chunks_fuel] in *. cbn [length] in Hi.
  destruct i as [|i].
  - cbn [nth]. rewrite firstn_length.
    destruct (Nat.le_gt_cases B (length (x :: l))) as [Hle|Hgt]; [lia|].
    (* fewer than B elements: the rest is empty, so there is no second chunk *)
    rewrite skipn_all2 in Hi by lia. destruct f; cbn in Hi; lia.
  - cbn [nth]. apply IH; [rewrite skipn_length; cbn [length] in *; lia|lia].
Qed.

Lemma map_nth_seq_id (l : list nat) : map (fun i => nth i l 0%nat) (seq 0 (length l)) = l.
Proof.
  induction l as [|x l IH]; [reflexivity|].
  cbn [length seq map nth]. f_equal. rewrite <- seq_shift, map_map. exact IH.
Qed.

Lemma apply_perm_permutation p l : Permutation p (seq 0 (length l)) -> Permutation (apply_perm p l) l.
Proof.
  intros H. unfold apply_perm.
  eapply Permutation_trans; [apply Permutation_map; exact H|].
  rewrite map_nth_seq_id. apply Permutation_refl.
Qed.

Lemma epochs_visit_every_row_once B : (1 <= B)%nat -> forall perms idxs,
  Forall (fun p => Permutation p (seq 0 (length idxs))) perms ->
  Forall (fun ep => Permutation (concat ep) idxs /\ Forall (fun c => (1 <= length c <= B)%nat) ep) (epochs_idx B perms idxs).
Proof.
  intros HB. induction perms as [|p ps IH]; intros idxs H; [constructor|].
  pose proof (Forall_inv H) as Hp. pose proof (Forall_inv_tail H) as Hps. cbn beta in Hp.
  pose proof (apply_perm_permutation p idxs Hp) as Pp.
  cbn [epochs_idx]. constructor.
  - split; [rewrite chunks_concat_lemma by exact HB; exact Pp|apply chunks_bound_lemma; exact HB].
  - assert (Hlen : length (apply_perm p idxs) = length idxs) by (apply Permutation_length; exact Pp).
    specialize (IH (apply_perm p idxs)). rewrite Hlen in IH. specialize (IH Hps).
    eapply Forall_impl; [|exact IH]. intros ep [P1 P2]. split; [|exact P2].
    eapply Permutation_trans; [exact P1|exact Pp].
Qed.

Lemma learn_minibatches_lemma N B perms : (1 <= B)%nat ->
  Forall (fun p => Permutation p (seq 0 N)) perms ->
  Forall (fun ep => Permutation (concat ep) (seq 0 N) /\ Forall (fun c => (1 <= length c <= B)%nat) ep)
         (learn_minibatch_idxs N B perms).
Proof.
  intros HB H. unfold learn_minibatch_idxs. apply epochs_visit_every_row_once; [exact HB|].
  rewrite seq_length. exact H.
Qed.

Lemma learn_minibatches_count N B perms : length (learn_minibatch_idxs N B perms) = length perms.
Proof.
  unfold learn_minibatch_idxs. generalize (seq 0 N). induction perms as [|p ps IH]; intros l; cbn; auto.
Qed.

Lemma minibatch_slices_lemma : forall B l, (1 <= B)%nat ->
  concat (chunks B l) = l /\
  forall i, (S i < length (chunks B l))%nat -> length (nth i (chunks B l) []) = B.
Proof. intros B l HB. split; [exact (chunks_concat_lemma B l HB)|exact (chunks_fuel_full B HB (length l) l (le_n _))]. Qed.

(* normalising the advantages of a minibatch changes their values, not the rows they sit in *)
Lemma gather_length {A} (d : A) idx l : length (gather d idx l) = length idx.
Proof. apply map_length. Qed.

Lemma minibatch_body_lemma m s idx a b c d e f j :
  length b = length a -> length c = length a -> length d = length a -> length e = length a -> length f = length a ->
  Forall (fun i => (i < length a)%nat) idx -> (j < length idx)%nat ->
  let i := nth j idx 0%nat in
  let batch_advs := gather 0 idx d in
  nth j (minibatch_body m s idx a b c d e f) dflt6 =
    (nth i a 0%Z, nth i b 0%Z, nth i c 0%Z, (nth i d 0 - m batch_advs) * s batch_advs, nth i e 0, nth i f 0).
Proof.
  intros Lb Lc Ld Le Lf Hi Hj i batch_advs. unfold minibatch_body.
  rewrite combine6_nth by (unfold norm_adv; rewrite ?map_length, ?gather_length; auto).
  unfold norm_adv. fold batch_advs.
  assert (G : forall {X} (dx : X) (l : list X), nth j (gather dx idx l) dx = nth i l dx).
  { intros X dx l. unfold gather, i.
    rewrite nth_indep with (d' := (fun k => nth k l dx) 0%nat) by (rewrite map_length; exact Hj).
    exact (map_nth (fun k => nth k l dx) idx 0%nat j). }
  rewrite !G.
  rewrite nth_indep with (d' := (fun x => (x - m batch_advs) * s batch_advs) 0) by (rewrite map_length; unfold batch_advs; rewrite gather_length; exact Hj).
  rewrite (map_nth (fun x => (x - m batch_advs) * s batch_advs) batch_advs 0 j).
  unfold batch_advs at 1. rewrite G. reflexivity.
Qed.

(* ========================================================================================== *)
(* 6. stacking entries of different number kinds                                               *)
(* ========================================================================================== *)
Lemma stack_nums_values l : map num_val (stack_nums l) = map num_val l.
Proof.
  unfold stack_nums. destruct (existsb is_float l); [|reflexivity].
  rewrite map_map. apply map_ext. intros x. reflexivity.
Qed.

Lemma stack_nums_one_kind l :
  Forall (fun x => is_float x = true) (stack_nums l) \/ Forall (fun x => is_float x = false) (stack_nums l).
Proof.
  unfold stack_nums. destruct (existsb is_float l) eqn:H.
  - left. apply Forall_forall. intros x Hx. apply in_map_iff in Hx. destruct Hx as (y & <- & _). reflexivity.
  - right. apply Forall_forall. intros x Hx.
    destruct (is_float x) eqn:Hf; [|reflexivity].
    assert (existsb is_float l = true) by (apply existsb_exists; exists x; auto). congruence.
Qed.

(* the estimates computed from the stacked rollout are those of the values that were recorded *)
Lemma gae_after_stack_lemma g l rs vs ds nv nd :
  gae_col g l (map num_val (stack_nums rs)) (map num_val (stack_nums vs)) (map num_val (stack_nums ds)) nv nd =
  gae_col g l (map num_val rs) (map num_val vs) (map num_val ds) nv nd.
Proof. rewrite !stack_nums_values. reflexivity. Qed.

(* keeping the first entry's kind: rewards [0 (int); 1/2; 1 (int); 3/4] become [0; 0; 1; 0] and the first estimate
   (gamma = lambda = 1, values 0) is 1 instead of 9/4 *)
Lemma stack_first_kind_wrong :
  exists rs : list num,
    map num_val (stack_first_kind rs) <> map num_val rs /\
    let zeros := [0; 0; 0; 0] in
    nth 0 (advs_of (gae_col 1 1 (map num_val (stack_first_kind rs)) zeros zeros 0 0)) 0 == 1 /\
    nth 0 (advs_of (gae_col 1 1 (map num_val (stack_nums rs)) zeros zeros 0 0)) 0 == 9 # 4.
Proof.
  exists [NInt 0; NFloat (1 # 2); NInt 1; NFloat (3 # 4)].
  split; [discriminate|]. split; reflexivity.
Qed.

(* ========================================================================================== *)
(* 7. the estimate as a function of its inputs: homogeneity, special cases                     *)
(* ========================================================================================== *)
Lemma nth_map_Qmult c : forall (l : list Q) t, nth t (map (Qmult c) l) 0 == c * nth t l 0.
Proof. induction l as [|x l IH]; intros [|t]; cbn [map nth]; try ring. apply IH. Qed.

Lemma adv_def_scale g l c r v d : forall n t,
  adv_def g l (fun i => c * r i) (fun i => c * v i) d n t == c * adv_def g l r v d n t.
Proof. induction n as [|n IH]; intros t; cbn [adv_def]; [ring|]. rewrite IH. ring. Qed.

(* scaling rewards, values and the bootstrap value by c scales every estimate by c: nothing in the recursion clips,
   normalises or depends on the magnitude *)
Lemma gae_scale_lemma g l c rs vs ds nv nd t :
  length rs = length vs -> length rs = length ds ->
  nth t (advs_of (gae_col g l (map (Qmult c) rs) (map (Qmult c) vs) ds (c * nv) nd)) 0 ==
  c * nth t (advs_of (gae_col g l rs vs ds nv nd)) 0.
Proof.
  intros L1 L2.
  rewrite gae_is_def_lemma by (rewrite !map_length; assumption).
  rewrite (gae_is_def_lemma g l rs vs ds nv nd t L1 L2).
  rewrite map_length. rewrite <- adv_def_scale.
  apply adv_def_ext; intros i _; [apply nth_map_Qmult| |reflexivity].
  unfold ext. rewrite <- nth_map_Qmult. rewrite map_app. reflexivity.
Qed.

(* lambda = 0: the estimate is the one-step TD error *)
Lemma gae_lambda0_lemma g rs vs ds nv nd t :
  length rs = length vs -> length rs = length ds -> (t < length rs)%nat ->
  nth t (advs_of (gae_col g 0 rs vs ds nv nd)) 0 ==
  nth t rs 0 + g * ext vs nv (S t) * (1 - ext ds nd (S t)) - ext vs nv t.
Proof.
  intros L1 L2 Ht. rewrite gae_is_def_lemma by assumption.
  replace (length rs - t)%nat with (S (length rs - S t)) by lia. cbn [adv_def]. ring.
Qed.

(* an episode end after every step: the estimate is r_t - V_t, nothing is bootstrapped *)
Lemma gae_all_done_lemma g l rs vs ds nv nd t :
  length rs = length vs -> length rs = length ds -> (t < length rs)%nat ->
  ext ds nd (S t) == 1 ->
  nth t (advs_of (gae_col g l rs vs ds nv nd)) 0 == nth t rs 0 - ext vs nv t.
Proof.
  intros L1 L2 Ht B. rewrite gae_is_def_lemma by assumption.
  replace (length rs - t)%nat with (S (length rs - S t)) by lia. cbn [adv_def]. rewrite B. ring.
Qed.

(* gamma = lambda = 1 and no episode end: the estimate is the Monte-Carlo return bootstrapped at the end, minus V_t *)
Fixpoint rsum (r : nat -> Q) (n t : nat) : Q := match n with O => 0 | S n' => r t + rsum r n' (S t) end.

Lemma adv_def_mc r v d : (forall i, d i == 0) -> forall n t,
  adv_def 1 1 r v d n t == rsum r n t + (match n with O => 0 | S _ => v (t + n)%nat - v t end).
Proof.
  intros Hd. induction n as [|n IH]; intros t; cbn [adv_def rsum]; [ring|].
  rewrite (Hd (S t)), IH. destruct n as [|n].
  - cbn [rsum]. replace (t + 1)%nat with (S t) by lia. ring.
  - replace (S t + S n)%nat with (t + S (S n))%nat by lia. ring.
Qed.

Lemma ext_zero : forall ds nd, Forall (fun x => x == 0) ds -> nd == 0 -> forall i, ext ds nd i == 0.
Proof.
  unfold ext. induction ds as [|x ds IH]; intros nd H Hn i.
  - destruct i as [|[|i]]; cbn; auto; reflexivity.
  - pose proof (Forall_inv H) as Hx. cbn beta in Hx. destruct i; cbn [app nth]; [exact Hx|].
    apply IH; [eapply Forall_inv_tail; exact H|exact Hn].
Qed.

Lemma gae_monte_carlo_lemma rs vs ds nv nd t :
  length rs = length vs -> length rs = length ds -> (t < length rs)%nat ->
  Forall (fun x => x == 0) ds -> nd == 0 ->
  nth t (advs_of (gae_col 1 1 rs vs ds nv nd)) 0 ==
  rsum (fun i => nth i rs 0) (length rs - t) t + nv - nth t vs 0.
Proof.
  intros L1 L2 Ht Hd Hn. rewrite gae_is_def_lemma by assumption.
  rewrite adv_def_mc by (apply ext_zero; assumption).
  replace (length rs - t)%nat with (S (length rs - S t)) by lia.
  replace (t + S (length rs - S t))%nat with (length vs) by lia.
  unfold ext. rewrite app_nth2, Nat.sub_diag by lia. rewrite app_nth1 by lia. cbn [nth]. ring.
Qed.
