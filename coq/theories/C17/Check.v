(* C17 — boolean comparison of the model with observations of the implementation (used by K only). *)
From Coq Require Import List Arith ZArith QArith Qabs Bool.
Import ListNotations.
From AgileV Require Import C17.Model.
Local Open Scope Q_scope.

(* exact when tol = 0; otherwise |a - b| <= tol * (1 + |b|), evaluated in Q *)
Definition Qclose (tol a b : Q) : bool := Qle_bool (Qabs (a - b)) (tol * (1 + Qabs b)).

Definition row_ok (tol : Q) (m o : row6) : bool :=
  let '(a, b, c, d, e, f) := m in
  let '(a', b', c', d', e', f') := o in
  if Z.eqb a a' && Z.eqb b b' && Z.eqb c c' then Qclose tol d d' && Qclose tol e e' && Qclose tol f f' else false.

(* Rows are compared as a set: the minibatch loop draws a random permutation of the rows anyway, so the order in
   which learn() lists them is not an observable of the property.  Every observed row must equal the model's row
   with the same observation tag; the observed tags are pairwise distinct and the counts agree. *)
Fixpoint nodupZ (l : list Z) : bool :=
  match l with
  | [] => true
  | x :: l' => negb (existsb (Z.eqb x) l') && nodupZ l'
  end.
Definition obs_tag (r : row6) : Z := match r with (a, _, _, _, _, _) => a end.
(* (vm_compute is call-by-value: [if] keeps the rational comparisons off the rows whose tags differ) *)
Definition rows_ok (tol : Q) (ms os : list row6) : bool :=
  if Nat.eqb (length ms) (length os) then
    if nodupZ (map obs_tag os) then
      forallb (fun o => match find (fun m => Z.eqb (obs_tag m) (obs_tag o)) ms with
                        | Some m => row_ok tol m o
                        | None => false
                        end) os
    else false
  else false.

(* the harness tags the observation, action and old log-prob of (t, agent a, env e) with t*64 + a*8 + e + 1 *)
Definition tagmat_s (S T E a : nat) : list (list Z) :=
  map (fun t => map (fun e => Z.of_nat (t * S + a * 8 + e + 1)) (seq 0 E)) (seq 0 T).
Definition tagmat := tagmat_s 64.

Definition check_ppo (vec : bool) (T E : nat) (g l : Q) (R V D : list (list Q)) (nv nd : list Q)
           (tol : Q) (rows : list row6) : bool :=
  let tg := tagmat T E 0 in
  rows_ok tol (ppo_rows vec E g l tg tg tg R V D nv nd) rows.

(* S = stride of the time index in the tags (64; 128 when more than 8 agents share a policy) *)
Definition check_ippo_s (S : nat) (pinned : bool) (nA E T : nat) (g l : Q) (R V D : list (list (list Q)))
           (nv nd : list (list Q)) (tol : Q) (rows : list row6) : bool :=
  let tg := map (tagmat_s S T E) (seq 0 nA) in
  rows_ok tol ((if pinned then ippo_rows_pinned nA E T else ippo_rows nA E T) g l tg tg tg R V D nv nd) rows.
Definition check_ippo := check_ippo_s 64.

(* the recorded flags against the scripted episode ends of the environment *)
Fixpoint listQ_eqb (a b : list Q) : bool :=
  match a, b with
  | [], [] => true
  | x :: a', y :: b' => Qeq_bool x y && listQ_eqb a' b'
  | _, _ => false
  end.
Definition check_dones (env_dones dones : list Q) (next_done : Q) : bool :=
  let '(ds, nd) := record_dones 0 env_dones in listQ_eqb ds dones && Qeq_bool nd next_done.

(* the index arrays of all minibatches of all epochs, in the order learn() asked for them *)
Fixpoint listnat_eqb (a b : list nat) : bool :=
  match a, b with [], [] => true | x :: a', y :: b' => Nat.eqb x y && listnat_eqb a' b' | _, _ => false end.
Fixpoint listlist_eqb (a b : list (list nat)) : bool :=
  match a, b with [], [] => true | x :: a', y :: b' => listnat_eqb x y && listlist_eqb a' b' | _, _ => false end.
Definition check_minis (N B : nat) (perms : list (list nat)) (seen : list (list nat)) : bool :=
  listlist_eqb (concat (learn_minibatch_idxs N B perms)) seen.
