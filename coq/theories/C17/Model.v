(* C17 — executable model of the advantage estimation and of the flattening of the rollout in
   agilerl.algorithms.ppo.PPO.learn and agilerl.algorithms.ippo.IPPO._learn_individual
   (helpers of agilerl.utils.algo_utils: stack_experiences, flatten_experiences,
   vectorize_experiences_by_agent, concatenate_experiences_into_batches), and of the done-recording
   convention of the two on-policy training loops.  Model only (no proofs). *)
From Coq Require Import List Arith ZArith QArith Bool.
Import ListNotations.
Local Open Scope Q_scope.

(* ------------------------------------------------------------------------------------------ *)
(* 1. the backward loop                                                                        *)
(* ------------------------------------------------------------------------------------------ *)

(*  delta          = rewards[t] + gamma * nextvalue * next_non_terminal - values[t]
    advantages[t]  = last_gae_lambda = delta + gamma * gae_lambda * next_non_terminal * last_gae_lambda
    with next_non_terminal = 1.0 - d1                                                            *)
Definition adv_step (g l r v v1 d1 last : Q) : Q :=
  (r + g * v1 * (1 - d1) - v) + g * l * (1 - d1) * last.

(* one column (one environment of one agent).  The loop runs t = T-1 .. 0; the recursion below
   returns (advantages[t..], values[t], dones[t]) so that the caller (step t-1) finds
   "nextvalue" and "dones[t+1]"; for t = T-1 these are next_value and next_done. *)
Fixpoint gae_col (g l : Q) (rs vs ds : list Q) (nv nd : Q) : list Q * Q * Q :=
  match rs, vs, ds with
  | r :: rs', v :: vs', d :: ds' =>
      let '(advs, v1, d1) := gae_col g l rs' vs' ds' nv nd in
      let last := match advs with a :: _ => a | [] => 0 end in     (* last_gae_lambda = 0 before the loop *)
      (adv_step g l r v v1 d1 last :: advs, v, d)
  | _, _, _ => ([], nv, nd)
  end.

Definition advs_of {X : Type} (x : list X * X * X) : list X := fst (fst x).

(* element-wise tensor expression over one time step (a row = all columns at time t) *)
Fixpoint zip5 (f : Q -> Q -> Q -> Q -> Q -> Q) (a b c d e : list Q) : list Q :=
  match a, b, c, d, e with
  | x :: a', y :: b', z :: c', u :: d', w :: e' => f x y z u w :: zip5 f a' b' c' d' e'
  | _, _, _, _, _ => []
  end.

(* the loop as the code runs it: time-major (T rows, one row = C columns), every statement is an
   element-wise expression over a whole row; last_gae_lambda = 0 is broadcast on first use. *)
Fixpoint gae_rows (g l : Q) (rs vs ds : list (list Q)) (nv nd : list Q)
  : list (list Q) * list Q * list Q :=
  match rs, vs, ds with
  | r :: rs', v :: vs', d :: ds' =>
      let '(advs, v1, d1) := gae_rows g l rs' vs' ds' nv nd in
      let last := match advs with a :: _ => a | [] => map (fun _ => 0) r end in
      (zip5 (adv_step g l) r v v1 d1 last :: advs, v, d)
  | _, _, _ => ([], nv, nd)
  end.

Fixpoint vec_add (a b : list Q) : list Q :=
  match a, b with x :: a', y :: b' => (x + y) :: vec_add a' b' | _, _ => [] end.
Fixpoint mat_add (a b : list (list Q)) : list (list Q) :=
  match a, b with x :: a', y :: b' => vec_add x y :: mat_add a' b' | _, _ => [] end.

(* the definition in the property, as a function of the time index:
   A_t = delta_t + gamma lambda (1 - d_{t+1}) A_{t+1},  A_T = 0,
   delta_t = r_t + gamma V_{t+1} (1 - d_{t+1}) - V_t;  n = T - t steps remain. *)
Fixpoint adv_def (g l : Q) (r v d : nat -> Q) (n t : nat) : Q :=
  match n with
  | O => 0
  | S n' => (r t + g * v (S t) * (1 - d (S t)) - v t) + g * l * (1 - d (S t)) * adv_def g l r v d n' (S t)
  end.

(* V_0..V_{T-1}, V_T = next_value (and likewise d) as functions of t *)
Definition ext (xs : list Q) (last : Q) (t : nat) : Q := nth t (xs ++ [last]) 0.

(* ------------------------------------------------------------------------------------------ *)
(* 2. index maps of the flattening                                                             *)
(* ------------------------------------------------------------------------------------------ *)
Section Flat.
Context {A : Type} (dflt : A).

Definition col (c : nat) (M : list (list A)) : list A := map (fun row => nth c row dflt) M.

(* flatten_experiences:  arr.swapaxes(0, 1).reshape(T*E, ...)  : row e*T + t  <-  arr[t][e] *)
Definition flat_ppo (E : nat) (M : list (list A)) : list A :=
  flat_map (fun e => col e M) (seq 0 E).

(* vectorize_experiences_by_agent(dim=1) then reshape(T, -1): per-agent (T x E) arrays stacked into
   (T, A, E) and viewed as T x (A*E): column a*E + e *)
Definition vectorize (T : nat) (Ms : list (list (list A))) : list (list A) :=
  map (fun t => flat_map (fun M => nth t M []) Ms) (seq 0 T).

(* IPPO flatten_by_agent: tensor.reshape(T, A, -1).transpose(0, 1).reshape(-1):
   row a*T*E + t*E + e  <-  M[t][a*E + e] *)
Definition flat_ippo (nA E : nat) (M : list (list A)) : list A :=
  flat_map (fun a => flat_map (fun row => map (fun e => nth (a * E + e) row dflt) (seq 0 E)) M) (seq 0 nA).

(* the ordering used before fix edaa156:  tensor.reshape(-1)  : row t*A*E + a*E + e *)
Definition flat_ippo_old (M : list (list A)) : list A := concat M.

(* concatenate_experiences_into_batches: per agent a (T, E, ...) array, torch.cat along dim 0,
   reshape(-1, *space.shape):  row a*T*E + t*E + e  <-  Ms[a][t][e] *)
Definition flat_obs (Ms : list (list (list A))) : list A := flat_map (fun M => concat M) Ms.

(* next_state: vectorize_experiences_by_agent(dim=0) -> (A, E, ...) -> critic -> reshape(1, -1): a*E + e *)
Definition flat_next (xs : list (list A)) : list A := concat xs.

(* next_done as the pinned tree computes it: vectorize_experiences_by_agent(dim=1) on (E,) arrays
   gives (E, A); reshape(1, -1) then reads e*A + a *)
Definition flat_next_pinned (E : nat) (xs : list (list A)) : list A :=
  flat_map (fun e => map (fun x => nth e x dflt) xs) (seq 0 E).
End Flat.

(* ------------------------------------------------------------------------------------------ *)
(* 3. the part of learn() up to the minibatch loop                                             *)
(* ------------------------------------------------------------------------------------------ *)
Definition row6 := (Z * Z * Z * Q * Q * Q)%type.   (* observation, action, old log-prob, advantage, return, value *)

Fixpoint combine6 (a b c : list Z) (d e f : list Q) : list row6 :=
  match a, b, c, d, e, f with
  | x :: a', y :: b', z :: c', u :: d', v :: e', w :: f' => (x, y, z, u, v, w) :: combine6 a' b' c' d' e' f'
  | _, _, _, _, _, _ => []
  end.

(* PPO.learn.  vec = is_vectorized_experiences(...): with an environment axis every one of the six
   tensors goes through flatten_experiences; without it (T-vectors) nothing is reshaped.
   Observations, actions and old log-probs are represented by identifying tags. *)
Definition ppo_rows (vec : bool) (E : nat) (g l : Q) (obs act lp : list (list Z))
           (R V D : list (list Q)) (nv nd : list Q) : list row6 :=
  let adv := advs_of (gae_rows g l R V D nv nd) in
  let ret := mat_add adv V in
  let fz := fun M => if vec then flat_ppo 0%Z E M else col 0%Z 0 M in
  let fq := fun M => if vec then flat_ppo 0 E M else col 0 0 M in
  combine6 (fz obs) (fz act) (fz lp) (fq adv) (fq ret) (fq V).

(* IPPO._learn_individual for one group of nA agents sharing a policy.  Inputs are per agent
   (agent -> time -> env); nv / nd are per agent -> env.  [ndflat] is the way next_done is laid out. *)
Definition ippo_rows_gen (ndflat : list (list Q) -> list Q) (nA E T : nat) (g l : Q)
           (obs act lp : list (list (list Z))) (R V D : list (list (list Q))) (nv nd : list (list Q))
  : list row6 :=
  let Rm := vectorize T R in
  let Vm := vectorize T V in
  let Dm := vectorize T D in
  let adv := advs_of (gae_rows g l Rm Vm Dm (flat_next nv) (ndflat nd)) in
  let fadv := flat_ippo 0 nA E adv in
  let fval := flat_ippo 0 nA E Vm in
  let fret := vec_add fadv fval in
  combine6 (flat_obs obs) (flat_obs act) (flat_ippo 0%Z nA E (vectorize T lp)) fadv fret fval.

(* next_done laid out like next_value and the rewards: column a*E + e *)
Definition ippo_rows := ippo_rows_gen (@flat_next Q).
(* pinned behaviour: next_done read in (env, agent) order *)
Definition ippo_rows_pinned (nA E T : nat) := ippo_rows_gen (flat_next_pinned 0 E) nA E T.

(* the row order before fix edaa156 (advantages, values, log-probs by (t, a, e); observations and
   actions by (a, t, e)) *)
Definition ippo_rows_old (nA E T : nat) (g l : Q)
           (obs act lp : list (list (list Z))) (R V D : list (list (list Q))) (nv nd : list (list Q))
  : list row6 :=
  let Rm := vectorize T R in
  let Vm := vectorize T V in
  let Dm := vectorize T D in
  let adv := advs_of (gae_rows g l Rm Vm Dm (flat_next nv) (flat_next nd)) in
  let fadv := flat_ippo_old adv in
  let fval := flat_ippo_old Vm in
  combine6 (flat_obs obs) (flat_obs act) (flat_ippo_old (vectorize T lp)) fadv (vec_add fadv fval) fval.

(* get_experiences_samples(minibatch_idxs, *experiences): every tensor is indexed with the same index array *)
Definition gather {A : Type} (d : A) (idx : list nat) (l : list A) : list A := map (fun i => nth i l d) idx.
Definition minibatch (idx : list nat) (a b c : list Z) (d e f : list Q) : list row6 :=
  combine6 (gather 0%Z idx a) (gather 0%Z idx b) (gather 0%Z idx c) (gather 0 idx d) (gather 0 idx e) (gather 0 idx f).

(* ------------------------------------------------------------------------------------------ *)
(* 4. how the training loops record done flags                                                 *)
(* ------------------------------------------------------------------------------------------ *)
(* train_on_policy / train_multi_agent_on_policy, one rollout:
     done = zeros;  for each step: ... next_done = term | trunc; dones.append(done); done = next_done
   [env_dones] = the flags returned by env.step at steps 0..T-1.  Result: (dones, next_done). *)
Fixpoint record_dones (done : Q) (env_dones : list Q) : list Q * Q :=
  match env_dones with
  | [] => ([], done)
  | nd :: rest => let '(ds, last) := record_dones nd rest in (done :: ds, last)
  end.

(* ------------------------------------------------------------------------------------------ *)
(* 5. the epoch / minibatch loop of learn()                                                    *)
(* ------------------------------------------------------------------------------------------ *)
(*   batch_idxs = np.arange(num_samples)
     for epoch in range(update_epochs):
         np.random.shuffle(batch_idxs)                         # in place, on the already shuffled array
         for start in range(0, num_samples, batch_size):
             minibatch_idxs = batch_idxs[start : start + batch_size]
   The shuffle of epoch k is described by the list p_k with  new[i] = old[p_k[i]]. *)
Fixpoint chunks_fuel (fuel B : nat) (l : list nat) : list (list nat) :=
  match fuel with
  | O => []
  | S f => match l with [] => [] | _ => firstn B l :: chunks_fuel f B (skipn B l) end
  end.
Definition chunks (B : nat) (l : list nat) : list (list nat) := chunks_fuel (length l) B l.
Definition apply_perm (p l : list nat) : list nat := map (fun i => nth i l 0%nat) p.
Fixpoint epochs_idx (B : nat) (perms : list (list nat)) (idxs : list nat) : list (list (list nat)) :=
  match perms with
  | [] => []
  | p :: ps => let idxs' := apply_perm p idxs in chunks B idxs' :: epochs_idx B ps idxs'
  end.
(* epoch -> minibatch -> row indices *)
Definition learn_minibatch_idxs (N B : nat) (perms : list (list nat)) : list (list (list nat)) :=
  epochs_idx B perms (seq 0 N).

(* the minibatch body: the gathered advantages are normalised,
     minibatch_advs = (minibatch_advs - minibatch_advs.mean()) / (minibatch_advs.std() + 1e-8),
   i.e. shifted and scaled by two numbers that depend on the whole minibatch ([m], [s] abstract them; the model does
   not compute a square root), and the value loss clips with the gathered old values.  What the loss pairs, row by row:
   (observation, action, old log-prob, normalised advantage, return, old value). *)
Definition norm_adv (m s : list Q -> Q) (l : list Q) : list Q := map (fun x => (x - m l) * s l) l.
Definition minibatch_body (m s : list Q -> Q) (idx : list nat) (a b c : list Z) (d e f : list Q) : list row6 :=
  combine6 (gather 0%Z idx a) (gather 0%Z idx b) (gather 0%Z idx c) (norm_adv m s (gather 0 idx d)) (gather 0 idx e) (gather 0 idx f).

(* ------------------------------------------------------------------------------------------ *)
(* 6. number kinds in stack_experiences                                                        *)
(* ------------------------------------------------------------------------------------------ *)
(* A rollout list may hold entries of different Python / numpy types (int, bool, int64 first; float32 / float64 later).
   np.stack(exp) converts all of them to the common type: integers stay integers only if every entry is one.
   The rest of this model works on the VALUES (rationals); [stack_nums] is why that is legitimate. *)
Inductive num := NInt (z : Z) | NFloat (q : Q).
Definition num_val (x : num) : Q := match x with NInt z => inject_Z z | NFloat q => q end.
Definition is_float (x : num) : bool := match x with NFloat _ => true | NInt _ => false end.
Definition to_float (x : num) : num := NFloat (num_val x).
Definition stack_nums (l : list num) : list num := if existsb is_float l then map to_float l else l.

(* a stacking that preallocates with the type of the FIRST entry and fills (seeded change u1): later entries are cast to
   that type, a fractional value into an integer array is truncated toward zero *)
Definition trunc (q : Q) : Z := Z.quot (Qnum q) (Zpos (Qden q)).
Definition cast_like (first x : num) : num :=
  match first with
  | NInt _ => NInt (match x with NInt z => z | NFloat q => trunc q end)
  | NFloat _ => to_float x
  end.
Definition stack_first_kind (l : list num) : list num :=
  match l with [] => [] | f :: _ => map (cast_like f) l end.
