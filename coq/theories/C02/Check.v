(* C02/Check.v — comparison functions of the C02 correspondence check (K).  Nothing here is used by a theorem.

   The generic Evo shadow-execution comparison (Evo/EvoCheck.v: alias partition, value refinement threaded through
   the run, index, label, architecture ids, optimizer<->parameter identity, lr, hyper-parameter values, block
   sizes) is applied after every observed step.  An observed step is a GROUP of model operations:
   Mutations.mutation(population) is one [Mutate] per member (in population order), a training step is
   policy_freq [Learn]s.  On top of it, per step:
     - the model population is coherent ([all_coherent_b]) — together with the agreement on optimizer identity /
       lr / hp values / architecture ids this says the implementation's population is coherent,
     - after a training step every cell an optimizer of the trained member references has an observed value
       that differs from its value before the step ([learn_moves_ok]; positions in the canonical slot order),
     - after an architecture mutation the observed descriptors of the evaluation networks are what [arch_mutate]
       predicts when [net_apply] is the observed transition of the policy network ([arch_follow_ok]).
   The registries of the initial population must satisfy [wf_registry] and the initial population [sep_b]. *)
From Coq Require Import List NArith QArith Bool FMapPositive.
From AgileV Require Export Evo.EvoCheck.
From AgileV Require Import Evo.Heap Evo.Evo C02.Model.
Import ListNotations.
Open Scope N_scope.

(* lists of small numbers cross into Coq packed ten to a binary number (20 bits per element, element + 1, least
   significant first): ten times fewer syntax nodes to elaborate *)
Fixpoint unpack_f (fuel : nat) (x : N) : list N :=
  match fuel with
  | O => []
  | S f => if N.eqb x 0 then [] else N.pred (N.land x 1048575) :: unpack_f f (N.shiftr x 20)
  end.
Definition unpack (x : N) : list N := unpack_f (S (N.to_nat (N.log2 x / 20))) x.

Definition unpacks (l : list N) : list N := flat_map unpack l.

(* descriptor transition of one evaluation network under an architecture mutation: (id before, id after) of the
   sub-configuration the method addresses, (id before, id after) of the whole descriptor, and the id of the DELTA of
   the addressed sub-configuration (numeric differences per changed entry; 0 = not comparable: structural change of
   differently shaped configurations, or a hook-shared encoder whose own configuration is not maintained) *)
Record atrans := mkAT { at_sub : N * N; at_full : N * N; at_delta : N }.
Record afollow := mkAF { af_applied : bool; af_pol : atrans; af_others : list atrans }.

(* [arch_mutate] with the observed policy transition as the meaning of the resolved method: a network whose
   addressed sub-configuration equals the policy's gets the policy's result; a no-op on the policy (bound hit)
   touches no other network *)
Definition obs_apply (pol : N * N) (m : unit) (d : unit) (a : N) : N * option unit * unit :=
  if N.eqb a (fst pol) then (snd pol, Some tt, tt) else (a, Some tt, tt).
(* [follow_one] when the meaning of the resolved method is "add the policy's delta": every other evaluation network
   shows the policy's delta (in particular none, when the policy's call changed nothing) *)
Definition delta_follow_ok (f : afollow) : bool :=
  let dp := at_delta (af_pol f) in
  forallb (fun t => N.eqb (at_delta t) 0 || N.eqb dp 0 || N.eqb (at_delta t) dp) (af_others f).

Definition arch_follow_ok (f : afollow) : bool :=
  if af_applied f then
    let '(p', others', _) := arch_mutate (obs_apply (at_sub (af_pol f))) tt tt (fst (at_sub (af_pol f)))
                                         (map (fun t => fst (at_sub t)) (af_others f)) in
    N.eqb p' (snd (at_sub (af_pol f))) &&
    list_eqb (fun (pred : N) (t : atrans) =>
                if N.eqb (fst (at_sub t)) (fst (at_sub (af_pol f))) then N.eqb pred (snd (at_sub t)) else true)
             others' (af_others f) &&
    delta_follow_ok f
  else
    forallb (fun t => N.eqb (fst (at_full t)) (snd (at_full t))) (af_others f).

Fixpoint index_of (l : loc) (ls : list loc) (k : N) : option N :=
  match ls with
  | [] => None
  | x :: r => if N.eqb x l then Some k else index_of l r (N.succ k)
  end.

(* every cell referenced by an optimizer of member i is among the slots whose observed value changed *)
Definition learn_moves_ok (w : world) (i : nat) (changed : list N) : bool :=
  match nth_error (w_pop w) i with
  | None => false
  | Some a =>
      forallb (fun o => forallb (fun l => match index_of l (all_locs w) 0 with
                                          | Some k => mem k changed
                                          | None => false
                                          end) (o_refs o)) (a_opts a)
  end.

(* the observed population is transmitted incrementally: a step that can only have changed one member (training)
   carries that member's new observation, the others keep theirs.  Alias classes are numbered per CASE (stable
   identifiers of the observed objects), so observations taken at different steps can be put side by side. *)
Definition entry := (aobs * list N * list N)%type.          (* structure, packed alias classes, packed value classes *)
Inductive change := Full (p : list entry) | Upd (us : list (nat * entry)).
Definition apply_change (c : change) (p : list entry) : list entry :=
  match c with
  | Full q => q
  | Upd us => fold_left (fun acc u => update (fst u) (snd u) acc) us p
  end.
Definition to_obs (p : list entry) : obs :=
  mkObs (concat (map (fun e => unpacks (snd (fst e))) p)) (concat (map (fun e => unpacks (snd e)) p)) (map (fun e => fst (fst e)) p).

(* one activation mutation of one evaluation network as observed: the selection the Mutations object was created with, the
   network's activation before and after, the object's selection after the call.  The model ([act_options]) says: the new
   activation is a candidate (selection minus current), the selection is unchanged *)
Record actobs := mkAct { ac_orig : list N; ac_before : N; ac_after : N; ac_sel_after : list N }.
Definition act_ok (a : actobs) : bool :=
  mem (ac_after a) (act_options (ac_orig a) (ac_before a)) && list_eqb N.eqb (ac_sel_after a) (ac_orig a).

Record gstep := mkG { gs_ops : list op; gs_obs : change; gs_learn : option (nat * list N); gs_arch : list afollow;
                      gs_act : list actobs }.

Definition gstep_flags (w' : world) (g : gstep) : bool :=
  all_coherent_b w' &&
  match gs_learn g with Some (i, ch) => learn_moves_ok w' i (unpacks ch) | None => true end &&
  forallb arch_follow_ok (gs_arch g) && forallb act_ok (gs_act g).

Fixpoint check_gsteps (w : world) (p : list entry) (gs : list gstep) (m : PositiveMap.t N) : bool :=
  match gs with
  | [] => true
  | g :: r =>
      let w' := run w (gs_ops g) in
      let p' := apply_change (gs_obs g) p in
      match state_ok w' (to_obs p') m with
      | Some m' => gstep_flags w' g && check_gsteps w' p' r m'
      | None => false
      end
  end.

Definition check_run2 (w : world) (p0 : list entry) (gs : list gstep) : bool :=
  sep_b w && forallb (fun a => wf_registry (a_reg a)) (w_pop w) && all_coherent_b w &&
  match state_ok w (to_obs p0) (PositiveMap.empty N) with
  | Some m => check_gsteps w p0 gs m
  | None => false
  end.

(* diagnostics: index of the first step that fails, and which part (0 state, 1 coherent, 2 learn, 3 arch) *)
Fixpoint first_bad2 (w : world) (p : list entry) (gs : list gstep) (m : PositiveMap.t N) (k : nat) : nat * nat :=
  match gs with
  | [] => (9999%nat, 0%nat)
  | g :: r =>
      let w' := run w (gs_ops g) in
      let p' := apply_change (gs_obs g) p in
      match state_ok w' (to_obs p') m with
      | Some m' =>
          if negb (all_coherent_b w') then (k, 1%nat)
          else if negb (match gs_learn g with Some (i, ch) => learn_moves_ok w' i (unpacks ch) | None => true end) then (k, 2%nat)
          else if negb (forallb arch_follow_ok (gs_arch g)) then (k, 3%nat)
          else if negb (forallb act_ok (gs_act g)) then (k, 4%nat)
          else first_bad2 w' p' r m' (S k)
      | None => (k, 0%nat)
      end
  end.
