(* C02/Model.v — "after any mutation an agent is coherent" on the shared Evo model (definitions only, no proofs).

   The executable model of the mutation code (agilerl/hpo/mutation.py: Mutations.mutation, architecture_mutate,
   parameter_mutation, activation_mutation, rl_hyperparam_mutation, reinit_opt, reinit_from_mutated; the mutation
   hooks of agilerl/algorithms/core/base.py; share_encoder_parameters of agilerl/utils/algo_utils.py) is
   Evo/Evo.v: [mutate_kind], [mutate_agent], [reinit_opts], [rebuild_shared], [run_hooks].  This file adds
     - the registry side conditions under which the code is coherent ([wf_registry], computed on the registry
       extracted from the real algorithm at check time),
     - the coherence predicate itself ([Coherent], and its executable form [coherent_b]),
     - Mutations.mutation on a whole population ([mutate_pop]),
     - the pinned (pre-fix 9c077e4) learning-rate mutation that re-creates only the FIRST optimizer using the
       mutated learning rate ([mutate_kind_first_only]) for the refutation theorem,
     - a descriptor-level model of architecture_mutate ([arch_mutate]): the policy's sampled method is resolved,
       the SAME resolved method and argument dictionary is applied to every other evaluation network. *)
From Coq Require Import List NArith QArith Bool.
From AgileV Require Import Evo.Heap Evo.Evo.
Import ListNotations.
Open Scope N_scope.

(* ---- registries -------------------------------------------------------------------------------- *)
Definition memN (n : name) (l : list name) : bool := existsb (N.eqb n) l.
Fixpoint nodupN (l : list name) : bool :=
  match l with [] => true | x :: r => negb (memN x r) && nodupN r end.

Definition shared_names (r : registry) : list name := flat_map g_shared (r_groups r).
Definition eval_names (r : registry) : list name := map g_eval (r_groups r).
Definition is_share (h : hook) : bool := match h with HShare _ _ => true | _ => false end.
Definition has_share (r : registry) : bool := existsb is_share (r_hooks r).

(* What the mutation code silently relies on (checked, by computation, on the registry of every algorithm):
   W1 no optimizer is registered for a shared/target network (those are re-created AFTER reinit_opt);
   W2 an algorithm that shares encoders through a hook is one whose activation mutation is skipped
      (activation_mutation re-creates the optimizers BEFORE Mutations.mutation runs the hooks);
   W3 optimizer attribute names are unique;
   W4 a shared/target network is not itself an evaluation network, W5 and shadows one evaluation network only. *)
Definition wf_registry (r : registry) : bool :=
  forallb (fun c => forallb (fun n => negb (memN n (shared_names r))) (oc_nets c)) (r_opts r)
  && (negb (has_share r) || r_act_skip r)
  && nodupN (map oc_name (r_opts r))
  && forallb (fun s => negb (memN s (eval_names r))) (shared_names r)
  && nodupN (shared_names r).

(* ---- coherence ---------------------------------------------------------------------------------- *)
(* networks whose own encoder parameters have been replaced by detached copies of the policy's *)
Definition share_others (r : registry) : list name :=
  flat_map (fun h => match h with HShare _ others => others | _ => [] end) (r_hooks r).

(* the same tensors, as sets, and as many of them (multi-agent optimizers list them sub-agent by sub-agent) *)
Definition same_refs (l m : list loc) : Prop := length l = length m /\ incl l m /\ incl m l.

Definition opt_ok (a : agent) (o : opt) : Prop :=
  exists c, find_optcfg (a_reg a) (o_name o) = Some c /\
            same_refs (o_refs o) (want_refs a c) /\                  (* exactly the live parameters *)
            o_lr o = lookupN (o_lr o) (oc_lr c) (a_hps a).           (* the agent's current learning rate *)

Definition arch_ok (a : agent) : Prop :=
  forall g s, In g (r_groups (a_reg a)) -> In s (g_shared g) -> In s (net_names a) ->
              lookupN 0 s (a_arch a) = lookupN 0 (g_eval g) (a_arch a).

Definition hooked (a : agent) : Prop :=
  forall o, In o (share_others (a_reg a)) -> blk a (o, cEnc) = [].

Definition Coherent (a : agent) : Prop :=
  Forall (opt_ok a) (a_opts a) /\ arch_ok a /\ hooked a.

(* executable form (used by K on every state of every history, and by the Examples) *)
Definition Q_eqb (x y : Q) : bool := Z.eqb (Qnum x) (Qnum y) && Pos.eqb (Qden x) (Qden y).
Definition same_refs_b (l m : list loc) : bool :=
  Nat.eqb (length l) (length m) && forallb (fun x => mem x m) l && forallb (fun x => mem x l) m.
Definition opt_ok_b (a : agent) (o : opt) : bool :=
  match find_optcfg (a_reg a) (o_name o) with
  | Some c => same_refs_b (o_refs o) (want_refs a c) && Q_eqb (o_lr o) (lookupN (o_lr o) (oc_lr c) (a_hps a))
  | None => false
  end.
Definition arch_ok_b (a : agent) : bool :=
  forallb (fun g => forallb (fun s => negb (memN s (net_names a)) ||
                                      N.eqb (lookupN 0 s (a_arch a)) (lookupN 0 (g_eval g) (a_arch a))) (g_shared g))
          (r_groups (a_reg a)).
Definition hooked_b (a : agent) : bool :=
  forallb (fun o => match blk a (o, cEnc) with [] => true | _ => false end) (share_others (a_reg a)).
Definition coherent_b (a : agent) : bool :=
  forallb (opt_ok_b a) (a_opts a) && arch_ok_b a && hooked_b a.

Definition AllCoherent (w : world) : Prop := Forall Coherent (w_pop w).
Definition all_coherent_b (w : world) : bool := forallb coherent_b (w_pop w).
Definition WfRegs (w : world) : Prop := Forall (fun a => wf_registry (a_reg a) = true) (w_pop w).

(* no optimizer reference dangles: every referenced cell is a cell the agent owns now *)
Definition refs_live (a : agent) : Prop :=
  forall o l, In o (a_opts a) -> In l (o_refs o) -> In l (agent_locs a).

(* shared/target network s holds, cell by cell, the content of the evaluation network e
   (exposed parameters that e exposes itself, registered buffers, size lists) *)
Definition follows (s : store) (a : agent) (e t : name) : Prop :=
  map (rd s) (firstn (length (blk a (e, cEnc))) (blk a (t, cEnc))) = map (rd s) (blk a (e, cEnc)) /\
  map (rd s) (blk a (t, cHead)) = map (rd s) (blk a (e, cHead)) /\
  map (rd s) (blk a (t, cBuf)) = map (rd s) (blk a (e, cBuf)).

(* ---- Mutations.mutation(population) -------------------------------------------------------------- *)
(* one resolved draw per individual: (kind, shapes of the mutated evaluation networks, label) *)
Definition draw := (mkind * list netshape * N)%type.
Fixpoint mutate_from (i : nat) (ds : list draw) (w : world) : world :=
  match ds with
  | [] => w
  | (k, sh, label) :: r => mutate_from (S i) r (step w (Mutate i k sh label))
  end.
Definition mutate_pop (ds : list draw) (w : world) : world := mutate_from 0 ds w.
Fixpoint mutate_ops (i : nat) (ds : list draw) : list op :=
  match ds with
  | [] => []
  | (k, sh, label) :: r => Mutate i k sh label :: mutate_ops (S i) r
  end.

(* ---- pinned behaviour (before fix 9c077e4) ------------------------------------------------------- *)
Definition first_only {A} (l : list A) : list A := match l with [] => [] | x :: _ => [x] end.
Definition reinit_first (which : optcfg -> bool) (x : lstate) : lstate :=
  seqL (map reinit_one (first_only (filter which (r_opts (a_reg (snd x)))))) x.
Definition mutate_kind_first_only (k : mkind) (sh : list netshape) (x : lstate) : lstate :=
  match k with
  | MHp h v => seqL [ pure (fun a => with_hps a (setN h v (a_hps a))); wfresh kReg;
                      reinit_first (fun c => N.eqb (oc_lr c) h) ] x
  | _ => mutate_kind k sh x
  end.
Definition mutate_agent_first_only (k : mkind) (sh : list netshape) (label : N) : lstate -> lstate :=
  seqL [mutate_kind_first_only k sh; rebuild_shared; run_hooks; pure (fun a => with_mut a label)].

(* ---- architecture_mutate at descriptor level ------------------------------------------------------ *)
(* [net_apply m d a] = effect of calling mutation method [m] with argument dictionary [d] on a network of
   architecture [a]: (new architecture, the method that was finally applied — None when a bound made the call
   a no-op, another method when the module fell back —, the argument dictionary the call returns).
   The per-module meaning of a method is property C03's model; here it is a parameter. *)
Section ArchFollow.
  Context {arch meth args : Type}.
  Variable net_apply : meth -> args -> arch -> arch * option meth * args.
  Variable no_args : args.

  (* _apply_arch_mutation(offsprings, applied_mutations, mut_dict) on one other evaluation network *)
  Definition follow_one (applied : option meth) (d : args) (a : arch) : arch :=
    match applied with
    | None => a
    | Some m' => fst (fst (net_apply m' d a))
    end.

  (* architecture_mutate: result = (policy', others', label) *)
  Definition arch_mutate (m : meth) (pol : arch) (others : list arch) : arch * list arch * option meth :=
    let '(p', applied, d) := net_apply m no_args pol in
    (p', map (follow_one applied d) others, applied).
End ArchFollow.

(* ---- activation mutation and the Mutations object's activation selection ------------------------------ *)
(* Mutations._permutate_activation: the candidates are a COPY of the object's activation_selection without the network's
   current activation (list.remove: first occurrence; only when more than one candidate exists and the current one is
   among them); the new activation is drawn from the candidates.  The selection itself (the caller's list, or the
   default-argument list shared by all Mutations objects) is constant state of the object.  Activations are numbers. *)
Fixpoint remove_first (x : N) (l : list N) : list N :=
  match l with
  | [] => []
  | y :: r => if N.eqb x y then r else y :: remove_first x r
  end.
Definition act_options (sel : list N) (cur : N) : list N :=
  if Nat.ltb 1 (length sel) && memN cur sel then remove_first cur sel else sel.
Definition permutate (sel : list N) (cur : N) (draw : nat) : N :=
  nth (Nat.modulo draw (length (act_options sel cur))) (act_options sel cur) cur.

(* state = (selection of the Mutations object, activation of the network); one activation mutation *)
Definition act_step (st : list N * N) (draw : nat) : list N * N := (fst st, permutate (fst st) (snd st) draw).
Definition act_run (st : list N * N) (draws : list nat) : list N * N := fold_left act_step draws st.

(* the seeded / feared variant: the candidates ARE the object's list (no copy), so removing the current activation
   consumes the selection *)
Definition act_step_consuming (st : list N * N) (draw : nat) : list N * N :=
  (act_options (fst st) (snd st), permutate (fst st) (snd st) draw).
