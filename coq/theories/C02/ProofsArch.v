(* C02/ProofsArch.v — [arch_mutate] instantiated with property C03's concrete model of EvolvableMLP (C03/Model.v
   [mlp_step]: add_layer / remove_layer with their fall-back on add_node, add_node / remove_node with their hard limits).
   The abstract hypothesis [replayable] of arch_same_before_same_after is PROVED for this module: the method and the
   argument list a call resolves to (what architecture_mutate replays on the other evaluation networks) reproduce the
   policy's result on an equal architecture whatever the other network's own random draws are — in particular when
   add_layer / remove_layer fell back on add_node, whose layer index and node count travel only through the returned
   arguments. *)
From Coq Require Import List ZArith QArith Lia String Bool.
From AgileV Require Import Evo.Heap Evo.Evo Evo.EvoCheck C03.Model C02.Model C02.Proofs.
Import ListNotations.
Open Scope Z_scope.

(* a call as architecture_mutate sees it: the method, and the draws its own random choices would consume *)
Record mlp_call := mkCall { c_meth : mlp_meth; c_r1 : Z; c_r2 : Z }.

(* the method + arguments a finished call reports (last_mutation_attr, returned dictionary) *)
Definition mlp_resolved (nm : string) (ar : list Z) : option mlp_meth :=
  if String.eqb nm "add_layer" then Some MAddLayer
  else if String.eqb nm "remove_layer" then Some MRemoveLayer
  else if String.eqb nm "add_node" then
    match ar with [i; n] => Some (MAddNode (Some i) (Some n)) | _ => None end
  else if String.eqb nm "remove_node" then
    match ar with [i; n] => Some (MRemoveNode (Some i) (Some n)) | _ => None end
  else None.

(* [net_apply] of C02/Model.v for an MLP with limits [c]: the replayed call keeps its own draws (they are what a
   network would use if the arguments did not reach it) *)
Definition mlp_net_apply (c : mlp_cfg) (k : mlp_call) (_ : unit) (h : list Z) : list Z * option mlp_call * unit :=
  let '(h', nm, ar) := mlp_step c h (c_meth k) (c_r1 k) (c_r2 k) in
  (h', option_map (fun m => mkCall m (c_r1 k) (c_r2 k)) (mlp_resolved nm ar), tt).

Lemma pick_range (h : list Z) r : 0 < zlen h -> 0 <= pick 0 (zlen h) r < zlen h.
Proof. intros H. unfold pick. rewrite Z.sub_0_r. pose proof (Z.mod_pos_bound r (zlen h) H). lia. Qed.

Lemma node_args_replay (h : list Z) i n r1 r2 : 0 <= i < zlen h -> mlp_node_args h (Some i) (Some n) r1 r2 = (i, n).
Proof. intros H. unfold mlp_node_args. f_equal. lia. Qed.

Lemma node_args_range (h : list Z) hl nn r1 r2 : 0 < zlen h -> (forall l, hl = Some l -> 0 <= l) ->
  0 <= fst (mlp_node_args h hl nn r1 r2) < zlen h.
Proof.
  intros H Hl. unfold mlp_node_args. destruct hl as [l|], nn as [n|]; cbn [fst];
    try (apply pick_range; auto); specialize (Hl l eq_refl); lia.
Qed.

(* the arguments of a method given by the caller are non-negative layer indices *)
Definition meth_ok (m : mlp_meth) : Prop :=
  match m with
  | MAddNode (Some l) _ | MRemoveNode (Some l) _ => 0 <= l
  | _ => True
  end.

(* REPLAY: what a call resolves to, applied to the same architecture with ANY other draws, gives the same result *)
Lemma mlp_replay_lemma (c : mlp_cfg) (h : list Z) (m : mlp_meth) (r1 r2 : Z) :
  0 < zlen h -> meth_ok m ->
  let '(h', nm, ar) := mlp_step c h m r1 r2 in
  exists m', mlp_resolved nm ar = Some m' /\
             forall r1' r2', fst (fst (mlp_step c h m' r1' r2')) = h'.
Proof.
  intros Hh Hm.
  assert (Node : forall hl nn, (forall l, hl = Some l -> 0 <= l) ->
            let '(h', nm, ar) := mlp_add_node c h hl nn r1 r2 in
            exists m', mlp_resolved nm ar = Some m' /\ forall r1' r2', fst (fst (mlp_step c h m' r1' r2')) = h').
  { intros hl nn Hl. unfold mlp_add_node.
    pose proof (node_args_range h hl nn r1 r2 Hh Hl) as R.
    destruct (mlp_node_args h hl nn r1 r2) as [i n] eqn:E. cbn [fst] in R.
    exists (MAddNode (Some i) (Some n)). split; [reflexivity|]. intros r1' r2'. cbn [mlp_step]. unfold mlp_add_node.
    rewrite node_args_replay by auto. reflexivity. }
  destruct m as [| |hl nn|hl nn]; cbn [mlp_step].
  - destruct (zlen h <? m_max_layers c) eqn:E.
    + exists MAddLayer. split; [reflexivity|]. intros. cbn [mlp_step]. rewrite E. reflexivity.
    + apply (Node None None). intros l Hl; discriminate.
  - destruct (m_min_layers c <? zlen h) eqn:E.
    + exists MRemoveLayer. split; [reflexivity|]. intros. cbn [mlp_step]. rewrite E. reflexivity.
    + apply (Node None None). intros l Hl; discriminate.
  - apply (Node hl nn). intros l ->. exact Hm.
  - unfold mlp_remove_node.
    assert (Hl : forall l, hl = Some l -> 0 <= l) by (intros l ->; exact Hm).
    pose proof (node_args_range h hl nn r1 r2 Hh Hl) as R.
    destruct (mlp_node_args h hl nn r1 r2) as [i n] eqn:E. cbn [fst] in R.
    exists (MRemoveNode (Some i) (Some n)). split; [reflexivity|]. intros r1' r2'. cbn [mlp_step]. unfold mlp_remove_node.
    rewrite node_args_replay by auto. reflexivity.
Qed.

(* hence architecture_mutate on MLP networks: every other evaluation network that had the policy's hidden sizes has the
   policy's new hidden sizes, whatever draws the other networks would have made themselves *)
Lemma mlp_arch_follow_lemma (c : mlp_cfg) (k : mlp_call) (pol : list Z) (others : list (list Z)) :
  0 < zlen pol -> meth_ok (c_meth k) ->
  let r := arch_mutate (mlp_net_apply c) tt k pol others in
  List.length (snd (fst r)) = List.length others /\
  forall i, nth_error others i = Some pol -> nth_error (snd (fst r)) i = Some (fst (fst r)).
Proof.
  intros Hp Hm. cbv zeta. unfold arch_mutate, mlp_net_apply.
  pose proof (mlp_replay_lemma c pol (c_meth k) (c_r1 k) (c_r2 k) Hp Hm) as R.
  destruct (mlp_step c pol (c_meth k) (c_r1 k) (c_r2 k)) as [[h' nm] ar]. destruct R as (m' & Rm & Rr).
  rewrite Rm. cbn [option_map fst snd]. split; [apply map_length|].
  intros i Hi. rewrite nth_error_map, Hi. cbn [option_map follow_one]. f_equal.
  unfold mlp_net_apply. cbn [c_meth c_r1 c_r2]. specialize (Rr (c_r1 k) (c_r2 k)).
  destruct (mlp_step c pol m' (c_r1 k) (c_r2 k)) as [[h2 nm2] ar2]. cbn [fst] in *. exact Rr.
Qed.

(* ---- Mutations.mutation with the drawn mutation "None" is NOT the identity --------------------------- *)
(* the model follows the code: for every individual, whatever the kind, every shared network is re-created and every
   mutation hook runs.  For a bandit registry (hook init_params) the ext tensors (sigma_inv ...) are re-initialised:
   the individual stays coherent, but its learned confidence matrix is gone although it reports "None". *)
Open Scope N_scope.
Definition ex_reg_bandit : registry := mkReg [mkGroup 1 [] true] [mkOptCfg 7 [1] 10] [HBandit] [10] false.
Definition ex_agent_bandit : agent :=
  mkAgent 0 0 [(1, 1)] [mkOpt 7 (1 # 100)%Q [0; 1]] [(10, 1 # 100)] ex_reg_bandit
          (net_blocks 1 0 true ++ [((7, cOst), []); (kReg, [3]); (kBook, [4]); (kExt, [5; 6])]).
Definition ex_store_bandit : store := mkStore 7 100 (EvoCheck.heap_of [(5, 41); (6, 42)]).

Lemma none_mutation_not_identity_lemma :
  exists s a label,
    wf_registry (a_reg a) = true /\ Coherent a /\
    let x' := mutate_agent MNone [] label (s, a) in
    Coherent (snd x') /\
    map (rd (fst x')) (blk (snd x') kExt) <> map (rd s) (blk a kExt).
Proof.
  exists ex_store_bandit, ex_agent_bandit, 1.
  assert (C : Coherent ex_agent_bandit) by (apply coherent_b_sound; vm_compute; reflexivity).
  split; [reflexivity|]. split; [exact C|]. cbv zeta. split.
  - apply mutate_agent_coherent; [reflexivity|exact C].
  - vm_compute. discriminate.
Qed.
