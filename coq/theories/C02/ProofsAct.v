(* C02/ProofsAct.v — the activation mutation really changes the activation, stays inside the selection, and the selection of
   a Mutations object is invariant over any history of activation mutations. *)
From Coq Require Import List NArith Bool Lia PeanoNat.
From AgileV Require Import Evo.Heap Evo.Evo C02.Model C02.Proofs.
Import ListNotations.
Open Scope N_scope.

Lemma remove_first_incl x l y : In y (remove_first x l) -> In y l.
Proof.
  induction l as [|z r IH]; cbn [remove_first]; auto. destruct (N.eqb x z); cbn [In]; intros H; auto. destruct H; auto.
Qed.

Lemma remove_first_not_in x l : NoDup l -> ~ In x (remove_first x l).
Proof.
  induction l as [|z r IH]; cbn [remove_first]; intros ND; [tauto|]. inversion ND; subst.
  destruct (N.eqb_spec x z) as [->|Hne]; auto. cbn [In]. intros [H|H]; [congruence|]. apply IH; auto.
Qed.

Lemma remove_first_length x l : In x l -> S (length (remove_first x l)) = length l.
Proof.
  induction l as [|z r IH]; cbn [remove_first In]; [tauto|]. intros H.
  destruct (N.eqb_spec x z) as [->|Hne]; auto. cbn [length]. f_equal. apply IH. destruct H; [congruence|auto].
Qed.

Lemma act_options_incl sel cur y : In y (act_options sel cur) -> In y sel.
Proof. unfold act_options. destruct (_ && _); auto. apply remove_first_incl. Qed.

Lemma act_options_nonempty sel cur : sel <> [] -> act_options sel cur <> [].
Proof.
  unfold act_options. intros H. destruct (Nat.ltb 1 (length sel)) eqn:L; cbn [andb]; auto.
  destruct (memN cur sel) eqn:M; auto. apply memN_In in M. apply Nat.ltb_lt in L.
  pose proof (remove_first_length cur sel M). intro E. rewrite E in *. cbn in *. lia.
Qed.

Lemma permutate_in_options sel cur d : sel <> [] -> In (permutate sel cur d) (act_options sel cur).
Proof.
  intros H. unfold permutate. apply nth_In. apply Nat.mod_upper_bound.
  pose proof (act_options_nonempty sel cur H). destruct (act_options sel cur); [congruence|cbn; lia].
Qed.

Lemma permutate_in_selection_lemma sel cur d : sel <> [] -> In (permutate sel cur d) sel.
Proof. intros H. eapply act_options_incl. apply permutate_in_options; auto. Qed.

Lemma permutate_changes_lemma sel cur d : NoDup sel -> (2 <= length sel)%nat -> permutate sel cur d <> cur.
Proof.
  intros ND L E. assert (Hne : sel <> []) by (destruct sel; cbn in *; [lia|congruence]).
  pose proof (permutate_in_options sel cur d Hne) as Hin. rewrite E in Hin. unfold act_options in Hin.
  assert (L' : Nat.ltb 1 (length sel) = true) by (apply Nat.ltb_lt; lia). rewrite L' in Hin. cbn [andb] in Hin.
  destruct (memN cur sel) eqn:M.
  - apply (remove_first_not_in cur sel ND Hin).
  - assert (In cur sel) by exact Hin. apply memN_In in H. congruence.
Qed.

(* over any history: the selection is the one the object was created with, every activation taken lies in it, and every
   single mutation changed the activation *)
Lemma act_run_spec draws : forall sel cur, sel <> [] ->
  fst (act_run (sel, cur) draws) = sel /\ (draws <> [] -> In (snd (act_run (sel, cur) draws)) sel).
Proof.
  unfold act_run. induction draws as [|d r IH]; intros sel cur H; cbn [fold_left]; [split; [reflexivity|congruence]|].
  unfold act_step at 2. cbn [fst snd]. destruct (IH sel (permutate sel cur d) H) as [I1 I2]. split; auto.
  intros _. destruct r as [|d' r']; [cbn; apply permutate_in_selection_lemma; auto|]. apply I2. congruence.
Qed.

Lemma act_step_changes sel cur d : NoDup sel -> (2 <= length sel)%nat -> snd (act_step (sel, cur) d) <> cur.
Proof. intros. cbn. apply permutate_changes_lemma; auto. Qed.

(* the consuming variant: three activations, the third mutation re-selects the activation the network already has and the
   object's selection has shrunk to one element *)
Lemma act_consuming_refuted_lemma :
  exists sel cur d1 d2 d3,
    NoDup sel /\ length sel = 3%nat /\
    let s2 := act_step_consuming (act_step_consuming (sel, cur) d1) d2 in
    let s3 := act_step_consuming s2 d3 in
    length (fst s2) = 1%nat /\ snd s3 = snd s2.
Proof.
  exists [1; 2; 3], 1, 0%nat, 0%nat, 0%nat. split; [repeat constructor; cbn; intuition discriminate|].
  split; [reflexivity|]. cbv zeta. vm_compute. split; reflexivity.
Qed.
