(* C02/Proofs.v — proofs about mutation coherence on the Evo model (see coq/props/C02.v for the statements). *)
From Coq Require Import List NArith QArith Bool Lia.
From AgileV Require Import Evo.Heap Evo.Evo Evo.EvoProofs C02.Model.
Import ListNotations.
Open Scope N_scope.

(* ---------------------------------------------------------------------------------------------- *)
(* 0. booleans *)
Lemma memN_In n l : memN n l = true <-> In n l.
Proof.
  unfold memN. rewrite existsb_exists. split.
  - intros (x & Hx & E). apply N.eqb_eq in E. subst; auto.
  - intros H. exists n. split; auto. apply N.eqb_refl.
Qed.

Lemma memN_app n l1 l2 : memN n (l1 ++ l2) = memN n l1 || memN n l2.
Proof. unfold memN. apply existsb_app. Qed.

Lemma nodupN_NoDup l : nodupN l = true -> NoDup l.
Proof.
  induction l as [|x r IH]; cbn [nodupN]; intros H; constructor.
  - apply andb_true_iff in H as [H _]. apply negb_true_iff in H. intro Hin. apply memN_In in Hin. congruence.
  - apply IH. apply andb_true_iff in H as [_ H]. auto.
Qed.

Lemma Q_eqb_eq x y : Q_eqb x y = true -> x = y.
Proof.
  unfold Q_eqb. rewrite andb_true_iff. intros [H1 H2]. apply Z.eqb_eq in H1. apply Pos.eqb_eq in H2.
  destruct x, y. cbn in *. subst. reflexivity.
Qed.

Lemma same_refs_b_sound l m : same_refs_b l m = true -> same_refs l m.
Proof.
  unfold same_refs_b, same_refs. rewrite !andb_true_iff, !forallb_forall. intros [[H1 H2] H3].
  apply Nat.eqb_eq in H1. repeat split; auto; intros x Hx; apply mem_In; auto.
Qed.

Lemma coherent_b_sound a : coherent_b a = true -> Coherent a.
Proof.
  unfold coherent_b, Coherent. rewrite !andb_true_iff. intros [[H1 H2] H3]. split; [|split].
  - apply Forall_forall. intros o Ho. rewrite forallb_forall in H1. specialize (H1 o Ho).
    unfold opt_ok_b in H1. unfold opt_ok. destruct (find_optcfg (a_reg a) (o_name o)) as [c|]; [|discriminate].
    apply andb_true_iff in H1 as [R L]. exists c. split; auto. split; [apply same_refs_b_sound; auto|apply Q_eqb_eq; auto].
  - unfold arch_ok_b in H2. intros g s Hg Hs Hn. rewrite forallb_forall in H2. specialize (H2 g Hg).
    rewrite forallb_forall in H2. specialize (H2 s Hs). apply orb_true_iff in H2 as [H2|H2].
    + apply negb_true_iff in H2. apply memN_In in Hn. congruence.
    + apply N.eqb_eq; auto.
  - unfold hooked_b in H3. intros o Ho. rewrite forallb_forall in H3. specialize (H3 o Ho).
    revert H3. match goal with |- (match ?t with _ => _ end) = true -> _ => change (blk a (o, cEnc)) with t; destruct t end;
      [reflexivity|intro H3; discriminate H3].
Qed.

Lemma all_coherent_b_sound w : all_coherent_b w = true -> AllCoherent w.
Proof.
  unfold all_coherent_b, AllCoherent. rewrite forallb_forall, Forall_forall. intros H a Ha. apply coherent_b_sound; auto.
Qed.

(* ---------------------------------------------------------------------------------------------- *)
(* 1. no dangling optimizer reference *)
Lemma exposed_incl a n l : In l (exposed a n) -> In l (agent_locs a).
Proof.
  unfold exposed, blk, agent_locs. intros H. apply in_app_or in H as [H|H]; eapply getb_incl; eauto.
Qed.

Lemma want_refs_incl a c l : In l (want_refs a c) -> In l (agent_locs a).
Proof.
  unfold want_refs. intros H. apply in_concat in H as (x & Hx & Hl). apply in_map_iff in Hx as (n & <- & _).
  eapply exposed_incl; eauto.
Qed.

Lemma coherent_refs_live_lemma a : Coherent a -> refs_live a.
Proof.
  intros (H & _ & _) o l Ho Hl. rewrite Forall_forall in H. destruct (H o Ho) as (c & _ & (_ & I & _) & _).
  apply (want_refs_incl a c). apply I; auto.
Qed.

(* ---------------------------------------------------------------------------------------------- *)
(* 2. population shape *)
Lemma update_length {A} (l : list A) : forall i x, length (update i x l) = length l.
Proof. induction l as [|h t IH]; intros [|i] x; cbn; auto. Qed.

Lemma apply_local_length i f w : length (w_pop (apply_local i f w)) = length (w_pop w).
Proof. unfold apply_local. destruct (nth_error (w_pop w) i); cbn; auto. apply update_length. Qed.

Lemma mutate_from_length ds : forall i w, length (w_pop (mutate_from i ds w)) = length (w_pop w).
Proof.
  induction ds as [|[[k sh] lab] r IH]; intros i w; cbn [mutate_from]; auto.
  rewrite IH. cbn [step]. apply apply_local_length.
Qed.

(* ---------------------------------------------------------------------------------------------- *)
(* 3. blocks *)
Lemma key_eqb_refl k : key_eqb k k = true.
Proof. unfold key_eqb. rewrite !N.eqb_refl. reflexivity. Qed.

Lemma key_eqb_eq k k' : key_eqb k k' = true -> k = k'.
Proof.
  unfold key_eqb. rewrite andb_true_iff, !N.eqb_eq. destruct k, k'; cbn. intros [-> ->]. reflexivity.
Qed.

Lemma key_eqb_neq k k' : k <> k' -> key_eqb k k' = false.
Proof. intros H. destruct (key_eqb k k') eqn:E; auto. apply key_eqb_eq in E. contradiction. Qed.

Lemma key_eqb_sym k k' : key_eqb k k' = key_eqb k' k.
Proof. unfold key_eqb. rewrite (N.eqb_sym (fst k)), (N.eqb_sym (snd k)). reflexivity. Qed.

Lemma getb_setb_other k k' v bs : k' <> k -> getb k' (setb k v bs) = getb k' bs.
Proof.
  intros Hne. induction bs as [|kv r IH]; cbn [setb getb]; auto.
  destruct (key_eqb k (fst kv)) eqn:E; cbn [getb fst snd].
  - apply key_eqb_eq in E. subst k. rewrite (key_eqb_neq k' (fst kv)); auto.
  - destruct (key_eqb k' (fst kv)); auto.
Qed.

Lemma getb_setb_nil k bs : getb k (setb k [] bs) = [].
Proof.
  induction bs as [|kv r IH]; cbn [setb getb]; auto.
  destruct (key_eqb k (fst kv)) eqn:E; cbn [getb fst snd]; rewrite E; auto.
Qed.

Lemma realloc_agent k srcs x :
  snd (realloc k srcs x) = with_blocks (snd x) (setb k (snd (alloc (fst x) srcs)) (a_blocks (snd x))).
Proof. unfold realloc. destruct (alloc (fst x) srcs). reflexivity. Qed.

Lemma seqL_nil x : seqL [] x = x.
Proof. reflexivity. Qed.
Lemma seqL_cons f r x : seqL (f :: r) x = seqL r (f x).
Proof. reflexivity. Qed.
Lemma seqL_app l1 l2 x : seqL (l1 ++ l2) x = seqL l2 (seqL l1 x).
Proof. unfold seqL. apply fold_left_app. Qed.

(* ---------------------------------------------------------------------------------------------- *)
(* 4. effects: what a transformer may change of the agent record.  [T] = block keys it may replace; the flags say
   whether optimizers / hyper-parameter values / architecture ids may change; the registry never changes. *)
Definition eff (T : key -> Prop) (fo fh fa : bool) (x x' : lstate) : Prop :=
  (fo = false -> a_opts (snd x') = a_opts (snd x)) /\
  (fh = false -> a_hps (snd x') = a_hps (snd x)) /\
  (fa = false -> a_arch (snd x') = a_arch (snd x)) /\
  a_reg (snd x') = a_reg (snd x) /\
  a_index (snd x') = a_index (snd x) /\
  (forall k, ~ T k -> blk (snd x') k = blk (snd x) k).

Lemma eff_refl T fo fh fa x : eff T fo fh fa x x.
Proof. repeat split; auto. Qed.

Lemma eff_trans T fo fh fa x y z : eff T fo fh fa x y -> eff T fo fh fa y z -> eff T fo fh fa x z.
Proof.
  intros (A1 & A2 & A3 & A4 & A5 & A6) (B1 & B2 & B3 & B4 & B5 & B6). repeat split; intros.
  - rewrite B1, A1; auto.
  - rewrite B2, A2; auto.
  - rewrite B3, A3; auto.
  - rewrite B4, A4; auto.
  - rewrite B5, A5; auto.
  - rewrite B6, A6; auto.
Qed.

Definition ble (a b : bool) : Prop := a = true -> b = true.
Lemma eff_weaken (T T' : key -> Prop) fo fh fa fo' fh' fa' x y :
  (forall k, T k -> T' k) -> ble fo fo' -> ble fh fh' -> ble fa fa' ->
  eff T fo fh fa x y -> eff T' fo' fh' fa' x y.
Proof.
  unfold ble. intros HT Ho Hh Ha (A1 & A2 & A3 & A4 & A5 & A6). repeat split; auto.
  - intros E. apply A1. destruct fo; auto. specialize (Ho eq_refl). congruence.
  - intros E. apply A2. destruct fh; auto. specialize (Hh eq_refl). congruence.
  - intros E. apply A3. destruct fa; auto. specialize (Ha eq_refl). congruence.
Qed.

Lemma eff_seqL T fo fh fa fs :
  Forall (fun f => forall y, eff T fo fh fa y (f y)) fs -> forall x, eff T fo fh fa x (seqL fs x).
Proof.
  induction fs as [|f r IH]; intros H x.
  - apply eff_refl.
  - inversion H; subst. rewrite seqL_cons. eapply eff_trans; [apply H2|apply IH; auto].
Qed.

Lemma eff_realloc k srcs fo fh fa x : eff (fun k' => k' = k) fo fh fa x (realloc k srcs x).
Proof.
  rewrite (surjective_pairing (realloc k srcs x)). cbn [snd]. rewrite realloc_agent.
  repeat split; auto. intros k' Hk. unfold blk. cbn [with_blocks a_blocks]. apply getb_setb_other; auto.
Qed.

Lemma eff_wfresh k fo fh fa x : eff (fun _ => False) fo fh fa x (wfresh k x).
Proof. unfold wfresh. repeat split; auto. Qed.

Lemma eff_wcopy kd ks fo fh fa x : eff (fun _ => False) fo fh fa x (wcopy kd ks x).
Proof. unfold wcopy. destruct (Nat.eqb _ _); repeat split; auto. Qed.

Lemma eff_weakenT (T T' : key -> Prop) fo fh fa x y :
  (forall k, T k -> T' k) -> eff T fo fh fa x y -> eff T' fo fh fa x y.
Proof. intros H. apply eff_weaken; unfold ble; auto. Qed.

Ltac effw := eapply eff_weakenT; [|first [apply eff_realloc|apply eff_wfresh|apply eff_wcopy]];
             cbn beta; intros ? ?; subst; cbn; first [tauto | intuition (auto; congruence) | idtac "effw side"].

Ltac effs := repeat (first [apply Forall_nil | apply Forall_cons; [intros ?y; effw|]]).

(* ---------------------------------------------------------------------------------------------- *)
(* 5. mutation hooks *)
Definition hook_others (h : hook) : list name := match h with HShare _ others => others | _ => [] end.
Definition Thook (k : key) : Prop := snd k = cHenc \/ snd k = cEnc \/ k = kExt.

Lemma eff_run_hook h x : eff Thook false false false x (run_hook h x).
Proof.
  destruct h as [e t|p others|]; unfold run_hook.
  - match goal with |- context [if ?b then _ else _] => destruct b end; [|apply eff_refl].
    apply eff_seqL. unfold Thook. effs.
  - apply eff_seqL. induction others as [|o r IH]; cbn [flat_map app]; [constructor|].
    unfold Thook. apply Forall_cons; [intros y; effw|]. apply Forall_cons; [intros y; effw|].
    apply Forall_cons; [intros y; effw|]. exact IH.
  - unfold Thook. effw.
Qed.

(* keys are compared through their components (the model's pairs are not syntactically uniform) *)
Lemma eff_other T fo fh fa x y k : eff T fo fh fa x y -> ~ T k -> blk (snd y) k = blk (snd x) k.
Proof. intros (_ & _ & _ & _ & _ & H). apply H. Qed.

Lemma share_step (k1 k2 k3 k : key) srcs x : snd k1 <> snd k ->
  blk (snd (wfresh k3 (realloc k2 [] (realloc k1 srcs x)))) k = if key_eqb k2 k then [] else blk (snd x) k.
Proof.
  intros H1. unfold wfresh. cbn [snd].
  destruct (key_eqb k2 k) eqn:E.
  - apply key_eqb_eq in E. subst k. rewrite realloc_agent. unfold blk. cbn [with_blocks a_blocks alloc snd].
    apply getb_setb_nil.
  - rewrite (eff_other _ _ _ _ _ _ k (eff_realloc k2 [] false false false _)).
    + apply (eff_other _ _ _ _ _ _ k (eff_realloc k1 srcs false false false x)). intro; subst; auto.
    + intro; subst. rewrite key_eqb_refl in E. discriminate.
Qed.

(* the exposed-encoder block of a network after one hook *)
Lemma run_hook_enc h (k : key) x : snd k = cEnc ->
  blk (snd (run_hook h x)) k = if memN (fst k) (hook_others h) then [] else blk (snd x) k.
Proof.
  intros Hk. destruct h as [e t|p others|]; unfold run_hook; cbn [hook_others memN existsb].
  - match goal with |- context [if ?b then _ else _] => destruct b end; auto.
    cbn [seqL fold_left]. unfold wcopy. repeat match goal with |- context [if ?b then _ else _] => destruct b end; reflexivity.
  - revert x. induction others as [|o r IH]; intros x; cbn [flat_map app memN existsb]; [reflexivity|].
    rewrite !seqL_cons. rewrite IH. clear IH. fold (memN (fst k) r).
    rewrite share_step by (cbn; rewrite Hk; discriminate).
    destruct k as [kn kc]. cbn [fst snd] in *. subst kc. unfold key_eqb. cbn [fst snd].
    rewrite (N.eqb_sym kn o). rewrite N.eqb_refl, andb_true_r.
    destruct (N.eqb o kn), (memN kn r); reflexivity.
  - apply (eff_other _ _ _ _ _ _ k (eff_realloc kExt (map (fun _ => FreshV) (blk (snd x) kExt)) false false false x)).
    intro; subst. discriminate.
Qed.

Lemma run_hooks_list_enc hs (k : key) : snd k = cEnc -> forall x,
  blk (snd (seqL (map run_hook hs) x)) k =
  if memN (fst k) (flat_map hook_others hs) then [] else blk (snd x) k.
Proof.
  intros Hk. induction hs as [|h r IH]; intros x; cbn [map flat_map]; [reflexivity|].
  rewrite seqL_cons, IH, run_hook_enc by auto.
  rewrite memN_app.
  destruct (memN (fst k) (hook_others h)), (memN (fst k) (flat_map hook_others r)); reflexivity.
Qed.

Lemma share_others_flat r : share_others r = flat_map hook_others (r_hooks r).
Proof. reflexivity. Qed.

Lemma run_hooks_enc (k : key) x : snd k = cEnc ->
  blk (snd (run_hooks x)) k = if memN (fst k) (share_others (a_reg (snd x))) then [] else blk (snd x) k.
Proof. intros Hk. unfold run_hooks. rewrite run_hooks_list_enc by auto. reflexivity. Qed.

Lemma eff_run_hooks x : eff Thook false false false x (run_hooks x).
Proof.
  unfold run_hooks. apply eff_seqL. apply Forall_forall. intros f Hf. apply in_map_iff in Hf as (h & <- & _).
  intros y. apply eff_run_hook.
Qed.

Lemma run_hooks_hooked x : hooked (snd (run_hooks x)).
Proof.
  intros o Ho. rewrite run_hooks_enc by reflexivity. destruct (eff_run_hooks x) as (_ & _ & _ & R & _).
  rewrite R in Ho. apply memN_In in Ho. cbn [fst]. rewrite Ho. reflexivity.
Qed.

(* ---------------------------------------------------------------------------------------------- *)
(* 6. association lists *)
Lemma lookupN_idem {A} (d : A) n l : lookupN (lookupN d n l) n l = lookupN d n l.
Proof.
  induction l as [|[k v] r IH]; cbn [lookupN]; auto. destruct (N.eqb n k); auto.
Qed.

Lemma lookupN_setN_other {A} (d : A) n m v l : n <> m -> lookupN d n (setN m v l) = lookupN d n l.
Proof.
  intros Hne. unfold setN. induction l as [|[k w] r IH]; cbn [map lookupN fst]; auto.
  destruct (N.eqb_spec m k) as [->|Hmk]; cbn [lookupN].
  - destruct (N.eqb_spec n k); [contradiction|]. auto.
  - destruct (N.eqb n k); auto.
Qed.

Lemma lookupN_setN_same {A} (d : A) m v l : In m (map fst l) -> lookupN d m (setN m v l) = v.
Proof.
  unfold setN. induction l as [|[k w] r IH]; cbn [map lookupN fst In]; [contradiction|].
  intros H. destruct (N.eqb_spec m k) as [->|Hmk]; cbn [lookupN].
  - rewrite N.eqb_refl. reflexivity.
  - destruct (N.eqb_spec m k); [contradiction|]. apply IH. destruct H; [congruence|auto].
Qed.

Lemma setN_keys {A} m (v : A) l : map fst (setN m v l) = map fst l.
Proof. unfold setN. rewrite map_map. apply map_ext. intros [k w]. cbn. destruct (N.eqb m k); reflexivity. Qed.

(* ---------------------------------------------------------------------------------------------- *)
(* 7. optimizers *)
Definition enc_head_same (a a' : agent) : Prop :=
  forall k, snd k = cEnc \/ snd k = cHead -> blk a' k = blk a k.

Lemma exposed_same a a' n : enc_head_same a a' -> exposed a' n = exposed a n.
Proof. intros H. unfold exposed. rewrite !H; auto. Qed.

Lemma want_refs_same a a' c : enc_head_same a a' -> want_refs a' c = want_refs a c.
Proof. intros H. unfold want_refs. f_equal. apply map_ext. intros n. apply exposed_same; auto. Qed.

Lemma same_refs_refl l : same_refs l l.
Proof. unfold same_refs. repeat split; auto; apply incl_refl. Qed.

Lemma opt_ok_transfer a a' o :
  a_reg a' = a_reg a -> a_hps a' = a_hps a ->
  (forall c, find_optcfg (a_reg a) (o_name o) = Some c -> want_refs a' c = want_refs a c) ->
  opt_ok a o -> opt_ok a' o.
Proof.
  intros R Hh W (c & F & S & L). exists c. rewrite R, Hh, (W c F). auto.
Qed.

(* the optimizer record that Mutations.reinit_opt builds for configuration list cs *)
Definition reopt (cs : list optcfg) (a : agent) (o : opt) : opt :=
  match find (fun c => N.eqb (oc_name c) (o_name o)) cs with
  | Some c => mkOpt (o_name o) (lookupN (o_lr o) (oc_lr c) (a_hps a)) (want_refs a c)
  | None => o
  end.

Definition Tost (k : key) : Prop := snd k = cOst.

Lemma eff_reinit_one c x : eff Tost true false false x (reinit_one c x).
Proof.
  unfold reinit_one. rewrite !seqL_cons, seqL_nil.
  apply (eff_trans _ _ _ _ x (realloc (oc_name c, cOst) [] x)); [unfold Tost; effw|].
  unfold pure. repeat split; auto; discriminate.
Qed.

Lemma find_none_name cs n : ~ In n (map oc_name cs) -> find (fun c => N.eqb (oc_name c) n) cs = None.
Proof.
  induction cs as [|c r IH]; cbn [map In find]; auto. intros H.
  destruct (N.eqb_spec (oc_name c) n); [exfalso; apply H; auto|]. apply IH. intro; apply H; auto.
Qed.

Lemma enc_head_not_ost (x y : lstate) fo fh fa : eff Tost fo fh fa x y -> enc_head_same (snd x) (snd y).
Proof.
  intros E k Hk. apply (eff_other _ _ _ _ _ _ k E). unfold Tost. destruct Hk as [Hk|Hk]; rewrite Hk; discriminate.
Qed.

Lemma reinit_list cs : NoDup (map oc_name cs) -> forall x,
  eff Tost true false false x (seqL (map reinit_one cs) x) /\
  a_opts (snd (seqL (map reinit_one cs) x)) = map (reopt cs (snd x)) (a_opts (snd x)).
Proof.
  induction cs as [|c r IH]; intros ND x; cbn [map].
  - rewrite seqL_nil. split; [apply eff_refl|]. unfold reopt. cbn [find]. rewrite map_id. reflexivity.
  - inversion ND as [|? ? Hn ND']; subst. rewrite seqL_cons.
    destruct (IH ND' (reinit_one c x)) as [E1 O1].
    pose proof (eff_reinit_one c x) as E0.
    split; [eapply eff_trans; eauto|].
    rewrite O1.
    (* the optimizers after reinit_one c *)
    assert (O0 : a_opts (snd (reinit_one c x)) =
                 map (fun o => if N.eqb (o_name o) (oc_name c)
                               then mkOpt (o_name o) (lookupN (o_lr o) (oc_lr c) (a_hps (snd x))) (want_refs (snd x) c)
                               else o) (a_opts (snd x))).
    { unfold reinit_one. rewrite !seqL_cons, seqL_nil. unfold pure. cbn [snd fst with_opts a_opts].
      set (y := realloc (oc_name c, cOst) [] x).
      assert (Ey : eff Tost false false false x y) by (unfold y, Tost; effw).
      destruct Ey as (Y1 & Y2 & _ & _ & _ & _). rewrite Y1, Y2 by auto.
      apply map_ext. intros o. destruct (N.eqb (o_name o) (oc_name c)); auto.
      f_equal. apply want_refs_same. apply (enc_head_not_ost x y false false false). unfold y, Tost; effw. }
    rewrite O0, map_map. apply map_ext. intros o.
    pose proof (enc_head_not_ost _ _ _ _ _ E0) as EH.
    destruct E0 as (_ & H0 & _ & _ & _ & _). specialize (H0 eq_refl).
    unfold reopt at 2. cbn [find]. rewrite (N.eqb_sym (oc_name c) (o_name o)).
    destruct (N.eqb_spec (o_name o) (oc_name c)) as [En|En].
    + unfold reopt. cbn [o_name]. rewrite find_none_name by (rewrite En; auto). reflexivity.
    + unfold reopt. destruct (find (fun c0 => N.eqb (oc_name c0) (o_name o)) r) as [c'|]; auto.
      rewrite H0. f_equal. apply want_refs_same; auto.
Qed.

Lemma filter_true {A} (l : list A) : filter (fun _ => true) l = l.
Proof. induction l; cbn; congruence. Qed.

Lemma NoDup_map_filter {A B} (f : A -> B) p (l : list A) : NoDup (map f l) -> NoDup (map f (filter p l)).
Proof.
  induction l as [|a r IH]; cbn [map filter]; auto. intros H. inversion H; subst.
  destruct (p a); cbn [map]; auto. constructor; auto.
  intro Hin. apply H2. apply in_map_iff in Hin as (y & <- & Hy). apply filter_In in Hy as [Hy _]. apply in_map; auto.
Qed.

Lemma find_optcfg_spec r n c : find_optcfg r n = Some c -> In c (r_opts r) /\ oc_name c = n.
Proof.
  unfold find_optcfg. intros H. apply find_some in H as [H1 H2]. apply N.eqb_eq in H2. auto.
Qed.

(* with unique names, looking a name up in a filtered configuration list *)
Lemma find_filter_unique cs p n c :
  NoDup (map oc_name cs) -> find (fun c => N.eqb (oc_name c) n) cs = Some c ->
  find (fun c => N.eqb (oc_name c) n) (filter p cs) = if p c then Some c else None.
Proof.
  induction cs as [|d r IH]; cbn [map find filter]; [discriminate|]. intros ND F. inversion ND; subst.
  destruct (N.eqb_spec (oc_name d) n) as [En|En].
  - injection F as <-. destruct (p d); cbn [find].
    + rewrite En, N.eqb_refl. reflexivity.
    + apply find_none_name. intro Hin. apply H1. rewrite En.
      apply in_map_iff in Hin as (y & Ey & Hy). apply filter_In in Hy as [Hy _]. rewrite <- Ey. apply in_map; auto.
  - destruct (p d); cbn [find]; [destruct (N.eqb_spec (oc_name d) n); [contradiction|]|]; apply IH; auto.
Qed.

Lemma reinit_opts_spec which x :
  NoDup (map oc_name (r_opts (a_reg (snd x)))) ->
  eff Tost true false false x (reinit_opts which x) /\
  a_opts (snd (reinit_opts which x)) = map (reopt (filter which (r_opts (a_reg (snd x)))) (snd x)) (a_opts (snd x)).
Proof. intros ND. unfold reinit_opts. apply reinit_list. apply NoDup_map_filter; auto. Qed.

(* ---------------------------------------------------------------------------------------------- *)
(* 8. registries: the side conditions in propositional form *)
Record WfReg (r : registry) : Prop := mkWf {
  wf_opt_nets : forall c n, In c (r_opts r) -> In n (oc_nets c) -> ~ In n (shared_names r);
  wf_share_skip : has_share r = false \/ r_act_skip r = true;
  wf_opt_names : NoDup (map oc_name (r_opts r));
  wf_shared_not_eval : forall s, In s (shared_names r) -> ~ In s (eval_names r);
  wf_shared_nodup : NoDup (shared_names r) }.

Lemma wf_registry_WfReg r : wf_registry r = true -> WfReg r.
Proof.
  unfold wf_registry. rewrite !andb_true_iff. intros [[[[H1 H2] H3] H4] H5]. constructor.
  - intros c n Hc Hn Hin. rewrite forallb_forall in H1. specialize (H1 c Hc). rewrite forallb_forall in H1.
    specialize (H1 n Hn). apply negb_true_iff in H1. apply memN_In in Hin. congruence.
  - apply orb_true_iff in H2 as [H2|H2]; auto. left. apply negb_true_iff in H2. auto.
  - apply nodupN_NoDup; auto.
  - intros s Hs Hin. rewrite forallb_forall in H4. specialize (H4 s Hs). apply negb_true_iff in H4.
    apply memN_In in Hin. congruence.
  - apply nodupN_NoDup; auto.
Qed.

Lemma no_share_others r : has_share r = false -> share_others r = [].
Proof.
  unfold has_share, share_others. induction (r_hooks r) as [|h t IH]; cbn [existsb flat_map]; auto.
  intros H. apply orb_false_iff in H as [H1 H2]. destruct h; cbn in H1; try discriminate; cbn [app]; auto.
Qed.

(* ---------------------------------------------------------------------------------------------- *)
(* 9. shared / target networks are re-created from their evaluation network *)
Lemma eff_pure_arch T fo fh g x : eff T fo fh true x (pure (fun a => with_arch a (g a)) x).
Proof. unfold pure. repeat split; auto. discriminate. Qed.

Lemma eff_pure_mut T fo fh fa m x : eff T fo fh fa x (pure (fun a => with_mut a m) x).
Proof. unfold pure. repeat split; auto. Qed.

Lemma eff_rebuild_shared_one e s x : eff (fun k => fst k = s) false false true x (rebuild_shared_one e s x).
Proof.
  unfold rebuild_shared_one. cbv zeta. apply eff_seqL.
  repeat (apply Forall_cons; [intros y; first [apply eff_pure_arch | effw]|]). apply Forall_nil.
Qed.

Lemma arch_rebuild_shared_one e s x :
  a_arch (snd (rebuild_shared_one e s x)) = setN s (lookupN 0 e (a_arch (snd x))) (a_arch (snd x)).
Proof.
  unfold rebuild_shared_one. cbv zeta.
  match goal with |- context [seqL [?a; ?b; ?c; ?d; ?f; ?g; ?h] x] =>
    change (seqL [a; b; c; d; f; g; h] x) with (seqL ([a; b; c; d; f; g] ++ [h]) x);
    rewrite seqL_app;
    assert (E : eff (fun _ => True) false false false x (seqL [a; b; c; d; f; g] x))
  end.
  { apply eff_seqL. repeat (apply Forall_cons; [intros y; effw|]). apply Forall_nil. }
  destruct E as (_ & _ & E & _). rewrite seqL_cons, seqL_nil. unfold pure. cbn [snd with_arch a_arch].
  rewrite E by auto. reflexivity.
Qed.

Definition spairs (gs : list group) : list (name * name) :=
  flat_map (fun g => map (fun s => (g_eval g, s)) (g_shared g)) gs.
Definition rb_pair (p : name * name) : lstate -> lstate := fun y => rebuild_shared_one (fst p) (snd p) y.
Definition arch_fold (ps : list (name * name)) (ar : list (name * N)) : list (name * N) :=
  fold_left (fun ar p => setN (snd p) (lookupN 0 (fst p) ar) ar) ps ar.

Lemma rebuild_shared_pairs x :
  rebuild_shared x = seqL (map rb_pair (spairs (r_groups (a_reg (snd x))))) x.
Proof.
  unfold rebuild_shared. f_equal. induction (r_groups (a_reg (snd x))) as [|g r IH]; cbn [flat_map spairs]; auto.
  fold (spairs r). rewrite map_app, map_map, IH. reflexivity.
Qed.

Lemma spairs_snd gs : map snd (spairs gs) = flat_map g_shared gs.
Proof.
  induction gs as [|g r IH]; cbn [spairs flat_map]; auto. fold (spairs r).
  rewrite map_app, map_map, IH. cbn [snd]. rewrite map_id. reflexivity.
Qed.

Lemma spairs_fst gs p : In p (spairs gs) -> In (fst p) (map g_eval gs).
Proof.
  unfold spairs. intros H. apply in_flat_map in H as (g & Hg & Hp). apply in_map_iff in Hp as (s & <- & _).
  cbn [fst]. apply in_map; auto.
Qed.

Lemma arch_seq ps : forall x, a_arch (snd (seqL (map rb_pair ps) x)) = arch_fold ps (a_arch (snd x)).
Proof.
  induction ps as [|p r IH]; intros x; cbn [map]; [reflexivity|].
  rewrite seqL_cons, IH. unfold rb_pair at 1. rewrite arch_rebuild_shared_one. reflexivity.
Qed.

Lemma arch_fold_other ps : forall ar n, ~ In n (map snd ps) -> lookupN 0 n (arch_fold ps ar) = lookupN 0 n ar.
Proof.
  induction ps as [|p r IH]; intros ar n H; cbn [arch_fold fold_left]; auto.
  fold (arch_fold r (setN (snd p) (lookupN 0 (fst p) ar) ar)).
  rewrite IH by (intro; apply H; right; auto). apply lookupN_setN_other. intro; subst. apply H. left; auto.
Qed.

Lemma arch_fold_keys ps : forall ar, map fst (arch_fold ps ar) = map fst ar.
Proof.
  induction ps as [|p r IH]; intros ar; cbn [arch_fold fold_left]; auto.
  fold (arch_fold r (setN (snd p) (lookupN 0 (fst p) ar) ar)). rewrite IH. apply setN_keys.
Qed.

Lemma arch_fold_ok ps : NoDup (map snd ps) -> (forall p q, In p ps -> In q ps -> fst p <> snd q) ->
  forall ar p, In p ps -> In (snd p) (map fst ar) ->
  lookupN 0 (snd p) (arch_fold ps ar) = lookupN 0 (fst p) (arch_fold ps ar).
Proof.
  induction ps as [|p0 r IH]; intros ND D ar p Hp Hin; [contradiction|].
  cbn [arch_fold fold_left]. fold (arch_fold r (setN (snd p0) (lookupN 0 (fst p0) ar) ar)).
  cbn [map] in ND. inversion ND as [|? ? Hn ND']; subst. destruct Hp as [<-|Hp].
  - rewrite !arch_fold_other; auto.
    + rewrite lookupN_setN_same by auto. rewrite lookupN_setN_other; auto. apply D; left; auto.
    + intro H. apply in_map_iff in H as (q & Eq & Hq). apply (D p0 q); [left; auto|right; auto|auto].
  - apply IH; auto.
    + intros a b Ha Hb. apply D; right; auto.
    + rewrite setN_keys. auto.
Qed.

Definition Tsh (r : registry) (k : key) : Prop := In (fst k) (shared_names r).

Lemma eff_rebuild_shared x : eff (Tsh (a_reg (snd x))) false false true x (rebuild_shared x).
Proof.
  rewrite rebuild_shared_pairs. apply eff_seqL. apply Forall_forall. intros f Hf.
  apply in_map_iff in Hf as (p & <- & Hp). intros y. unfold rb_pair.
  eapply eff_weakenT; [|apply eff_rebuild_shared_one]. cbn beta. intros k Hk. unfold Tsh, shared_names.
  rewrite Hk, <- spairs_snd. apply in_map; auto.
Qed.

Lemma rebuild_shared_arch_ok x : WfReg (a_reg (snd x)) -> arch_ok (snd (rebuild_shared x)).
Proof.
  intros W. pose proof (eff_rebuild_shared x) as (_ & _ & _ & R & _).
  intros g s Hg Hs Hn. rewrite R in Hg. unfold net_names in Hn.
  rewrite rebuild_shared_pairs in *. rewrite arch_seq in *.
  set (ps := spairs (r_groups (a_reg (snd x)))) in *.
  assert (Hp : In (g_eval g, s) ps).
  { unfold ps, spairs. apply in_flat_map. exists g. split; auto. apply in_map; auto. }
  apply (arch_fold_ok ps) with (p := (g_eval g, s)); auto.
  - unfold ps. rewrite spairs_snd. apply (wf_shared_nodup _ W).
  - intros p q Hp' Hq E. apply (wf_shared_not_eval _ W (snd q)).
    + unfold shared_names. rewrite <- spairs_snd. apply in_map; auto.
    + rewrite <- E. apply spairs_fst; auto.
  - cbn [snd]. rewrite arch_fold_keys in Hn. auto.
Qed.

(* ---------------------------------------------------------------------------------------------- *)
(* 10. the mutation kinds *)
Definition named (a : agent) : Prop := forall o, In o (a_opts a) -> find_optcfg (a_reg a) (o_name o) <> None.

Lemma coherent_named a : Coherent a -> named a.
Proof. intros (H & _) o Ho. rewrite Forall_forall in H. destruct (H o Ho) as (c & F & _). congruence. Qed.

Lemma hooked_transfer a a' :
  a_reg a' = a_reg a -> (forall k, snd k = cEnc -> blk a' k = blk a k) -> hooked a -> hooked a'.
Proof. intros R B H o Ho. rewrite R in Ho. rewrite B by reflexivity. auto. Qed.

(* after Mutations.reinit_opt(individual) every (registered) optimizer is coherent *)
Lemma reinit_all_ok x :
  NoDup (map oc_name (r_opts (a_reg (snd x)))) -> named (snd x) ->
  Forall (opt_ok (snd (reinit_opts (fun _ => true) x))) (a_opts (snd (reinit_opts (fun _ => true) x))).
Proof.
  intros ND Hn. destruct (reinit_opts_spec (fun _ => true) x ND) as [E O].
  rewrite O, filter_true. pose proof (enc_head_not_ost _ _ _ _ _ E) as EH.
  destruct E as (_ & Hh & _ & R & _). specialize (Hh eq_refl).
  apply Forall_forall. intros o' Ho'. apply in_map_iff in Ho' as (o & <- & Ho).
  specialize (Hn o Ho). unfold reopt. unfold find_optcfg in Hn.
  destruct (find (fun c => N.eqb (oc_name c) (o_name o)) (r_opts (a_reg (snd x)))) as [c|] eqn:F; [|congruence].
  exists c. cbn [o_name o_lr o_refs]. rewrite R, Hh. split; [exact F|]. split.
  - rewrite (want_refs_same _ _ c EH). apply same_refs_refl.
  - symmetry. apply lookupN_idem.
Qed.

Lemma eff_rebuild_eval sh x : eff (fun _ => True) false false true x (rebuild_eval sh x).
Proof.
  unfold rebuild_eval. apply eff_seqL.
  repeat (apply Forall_cons; [intros y; first [apply eff_pure_arch | effw]|]). apply Forall_nil.
Qed.

Lemma eff_rebuild_evals shs x : eff (fun _ => True) false false true x (seqL (map rebuild_eval shs) x).
Proof.
  apply eff_seqL. apply Forall_forall. intros f Hf. apply in_map_iff in Hf as (sh & <- & _). intros y. apply eff_rebuild_eval.
Qed.

(* what the first phase (the drawn mutation function) establishes *)
Definition phase1 (a : agent) (x1 : lstate) : Prop :=
  a_reg (snd x1) = a_reg a /\ Forall (opt_ok (snd x1)) (a_opts (snd x1)) /\ hooked (snd x1).

Lemma named_transfer a a' : a_reg a' = a_reg a -> a_opts a' = a_opts a -> named a -> named a'.
Proof. intros R O H o Ho. rewrite R. rewrite O in Ho. auto. Qed.

Lemma phase1_reinit a y :
  WfReg (a_reg a) -> a_reg (snd y) = a_reg a -> named (snd y) -> hooked (snd y) ->
  phase1 a (reinit_opts (fun _ => true) y).
Proof.
  intros W R Hn Hh. assert (ND : NoDup (map oc_name (r_opts (a_reg (snd y))))) by (rewrite R; apply (wf_opt_names _ W)).
  destruct (reinit_opts_spec (fun _ => true) y ND) as [E _].
  pose proof (enc_head_not_ost _ _ _ _ _ E) as EH. destruct E as (_ & _ & _ & R' & _).
  split; [congruence|]. split; [apply reinit_all_ok; auto|].
  eapply hooked_transfer; eauto.
Qed.

Lemma hp_mutation_ok a s h v :
  WfReg (a_reg a) -> Coherent a ->
  phase1 a (mutate_kind (MHp h v) [] (s, a)).
Proof.
  intros W C. unfold mutate_kind. rewrite !seqL_cons, seqL_nil. unfold pure at 1. cbn [fst snd].
  set (a1 := with_hps a (setN h v (a_hps a))).
  set (y := wfresh kReg (s, a1)).
  assert (Ya : snd y = a1) by reflexivity.
  assert (ND : NoDup (map oc_name (r_opts (a_reg (snd y))))) by (rewrite Ya; apply (wf_opt_names _ W)).
  destruct (reinit_opts_spec (fun c => N.eqb (oc_lr c) h) y ND) as [E O].
  pose proof (enc_head_not_ost _ _ _ _ _ E) as EH. destruct E as (_ & Hh & _ & R & _). specialize (Hh eq_refl).
  rewrite Ya in *. split; [exact R|]. split.
  - rewrite O. apply Forall_forall. intros o' Ho'. apply in_map_iff in Ho' as (o & <- & Ho).
    destruct C as (CO & _ & _). rewrite Forall_forall in CO. destruct (CO o Ho) as (c & F & S & L).
    unfold reopt. change (a_reg a1) with (a_reg a).
    rewrite (find_filter_unique _ _ _ c (wf_opt_names _ W) F).
    destruct (N.eqb_spec (oc_lr c) h) as [El|El].
    + exists c. cbn [o_name o_lr o_refs]. rewrite R, Hh. split; [exact F|]. split.
      * rewrite (want_refs_same _ _ c EH). apply same_refs_refl.
      * symmetry. apply lookupN_idem.
    + exists c. rewrite R, Hh. split; [exact F|]. split.
      * rewrite (want_refs_same _ _ c EH). exact S.
      * cbn [a1 with_hps a_hps]. rewrite lookupN_setN_other by auto. exact L.
  - destruct C as (_ & _ & CH). apply (hooked_transfer a1); auto.
Qed.

Lemma phase1_kind a s k sh :
  WfReg (a_reg a) -> Coherent a -> phase1 a (mutate_kind k sh (s, a)).
Proof.
  intros W C. pose proof (coherent_named a C) as Hn. pose proof C as (CO & CA & CH).
  destruct k as [| | | |h v].
  - (* none *) cbn [mutate_kind]. repeat split; auto.
  - (* architecture: offspring, hooks, reinit_opt *)
    cbn [mutate_kind]. rewrite seqL_app, !seqL_cons, seqL_nil.
    set (y0 := seqL (map rebuild_eval sh) (s, a)).
    destruct (eff_rebuild_evals sh (s, a)) as (O0 & _ & _ & R0 & _). fold y0 in O0, R0. cbn [snd] in O0, R0.
    destruct (eff_run_hooks y0) as (O1 & _ & _ & R1 & _).
    apply phase1_reinit; auto.
    + congruence.
    + apply (named_transfer a); [congruence|rewrite O1, O0; auto|auto].
    + apply run_hooks_hooked.
  - (* parameters: noise written in place, reinit_opt *)
    cbn [mutate_kind]. cbv zeta. rewrite !seqL_cons, seqL_nil. unfold wfresh at 1 2 3. cbn [fst snd].
    apply phase1_reinit; auto.
  - (* activation *)
    cbn [mutate_kind]. cbn [snd]. destruct (r_act_skip (a_reg a)) eqn:Sk.
    + repeat split; auto.
    + rewrite seqL_app, !seqL_cons, seqL_nil.
      set (y0 := seqL (map rebuild_eval sh) (s, a)).
      destruct (eff_rebuild_evals sh (s, a)) as (O0 & _ & _ & R0 & _). fold y0 in O0, R0. cbn [snd] in O0, R0.
      apply phase1_reinit; auto.
      * apply (named_transfer a); auto.
      * intros o Ho. rewrite R0 in Ho. destruct (wf_share_skip _ W) as [Hs|Hs]; [|congruence].
        rewrite (no_share_others _ Hs) in Ho. contradiction.
  - (* hyper-parameter *)
    assert (E : mutate_kind (MHp h v) sh (s, a) = mutate_kind (MHp h v) [] (s, a)) by reflexivity.
    rewrite E. apply hp_mutation_ok; auto.
Qed.

(* the second phase: shared networks re-created from their evaluation networks, hooks, label *)
Lemma want_refs_same_nets a a' c :
  (forall n, In n (oc_nets c) -> exposed a' n = exposed a n) -> want_refs a' c = want_refs a c.
Proof. intros H. unfold want_refs. f_equal. apply map_ext_in. auto. Qed.

Lemma phase2 a x1 label :
  WfReg (a_reg a) -> phase1 a x1 ->
  Coherent (snd (pure (fun b => with_mut b label) (run_hooks (rebuild_shared x1)))).
Proof.
  intros W (R1 & O1 & H1).
  set (x2 := rebuild_shared x1). set (x3 := run_hooks x2).
  pose proof (eff_rebuild_shared x1) as E2. fold x2 in E2. rewrite R1 in E2.
  pose proof (eff_run_hooks x2) as E3. fold x3 in E3.
  assert (R2 : a_reg (snd x2) = a_reg a) by (destruct E2 as (_ & _ & _ & R & _); congruence).
  assert (R3 : a_reg (snd x3) = a_reg a) by (destruct E3 as (_ & _ & _ & R & _); congruence).
  unfold pure. cbn [snd].
  (* exposed blocks of optimised networks are the same objects before and after *)
  assert (EX : forall c n, In c (r_opts (a_reg a)) -> In n (oc_nets c) -> exposed (snd x3) n = exposed (snd x1) n).
  { intros c n Hc Hn. pose proof (wf_opt_nets _ W c n Hc Hn) as Hns. unfold exposed. f_equal.
    - rewrite (run_hooks_enc _ x2) by reflexivity. cbn [fst]. rewrite R2.
      rewrite (eff_other _ _ _ _ _ _ _ E2) by (unfold Tsh; cbn [fst]; auto).
      destruct (memN n (share_others (a_reg a))) eqn:M; auto.
      apply memN_In in M. symmetry. apply H1. rewrite R1. auto.
    - rewrite (eff_other _ _ _ _ _ _ _ E3).
      + apply (eff_other _ _ _ _ _ _ _ E2). unfold Tsh; cbn [fst]; auto.
      + unfold Thook. cbn [snd]. intros [H|[H|H]]; discriminate. }
  split; [|split].
  - cbn [with_mut a_opts]. destruct E3 as (O3 & Hh3 & _). destruct E2 as (O2 & Hh2 & _).
    rewrite O3, O2 by auto. apply Forall_forall. intros o Ho. rewrite Forall_forall in O1. specialize (O1 o Ho).
    apply (opt_ok_transfer (snd x1)); auto.
    + cbn [with_mut a_reg]. congruence.
    + cbn [with_mut a_hps]. rewrite Hh3, Hh2; auto.
    + intros c F. rewrite R1 in F. apply find_optcfg_spec in F as [Hc _].
      apply want_refs_same_nets. intros n Hn. apply (EX c n Hc Hn).
  - intros g s Hg Hs Hn. cbn [with_mut a_reg a_arch] in *. unfold net_names in Hn. cbn [with_mut a_arch] in Hn.
    destruct E3 as (_ & _ & A3 & _). rewrite A3 in * by auto. rewrite R3 in Hg.
    assert (W1 : WfReg (a_reg (snd x1))) by (rewrite R1; auto).
    apply (rebuild_shared_arch_ok x1 W1 g s); auto. fold x2. rewrite R2. auto.
  - apply (hooked_transfer (snd x3)); auto. apply run_hooks_hooked.
Qed.

Theorem mutate_agent_coherent k sh label s a :
  wf_registry (a_reg a) = true -> Coherent a -> Coherent (snd (mutate_agent k sh label (s, a))).
Proof.
  intros Wb C. apply wf_registry_WfReg in Wb. unfold mutate_agent. rewrite !seqL_cons, seqL_nil.
  apply (phase2 a); auto. apply phase1_kind; auto.
Qed.

Lemma mutate_agent_reg k sh label x : a_reg (snd (mutate_agent k sh label x)) = a_reg (snd x).
Proof.
  unfold mutate_agent. rewrite !seqL_cons, seqL_nil. unfold pure. cbn [snd with_mut a_reg].
  destruct (eff_run_hooks (rebuild_shared (mutate_kind k sh x))) as (_ & _ & _ & R3 & _). rewrite R3.
  destruct (eff_rebuild_shared (mutate_kind k sh x)) as (_ & _ & _ & R2 & _). rewrite R2.
  destruct k as [| | | |h v]; cbn [mutate_kind]; auto.
  - rewrite seqL_app, !seqL_cons, seqL_nil.
    unfold reinit_opts. match goal with |- a_reg (snd (seqL (map reinit_one ?cs) ?y)) = _ => 
      assert (E : eff Tost true false false y (seqL (map reinit_one cs) y)) end.
    { apply eff_seqL. apply Forall_forall. intros f Hf. apply in_map_iff in Hf as (c & <- & _). intros z. apply eff_reinit_one. }
    destruct E as (_ & _ & _ & R & _). rewrite R.
    destruct (eff_run_hooks (seqL (map rebuild_eval sh) x)) as (_ & _ & _ & R' & _). rewrite R'.
    destruct (eff_rebuild_evals sh x) as (_ & _ & _ & R'' & _). auto.
  - cbv zeta. rewrite !seqL_cons, seqL_nil. unfold wfresh at 1 2 3. cbn [fst snd].
    unfold reinit_opts. match goal with |- a_reg (snd (seqL (map reinit_one ?cs) ?y)) = _ => 
      assert (E : eff Tost true false false y (seqL (map reinit_one cs) y)) end.
    { apply eff_seqL. apply Forall_forall. intros f Hf. apply in_map_iff in Hf as (c & <- & _). intros z. apply eff_reinit_one. }
    destruct E as (_ & _ & _ & R & _). rewrite R. reflexivity.
  - destruct (r_act_skip (a_reg (snd x))); auto.
    rewrite seqL_app, !seqL_cons, seqL_nil.
    unfold reinit_opts. match goal with |- a_reg (snd (seqL (map reinit_one ?cs) ?y)) = _ => 
      assert (E : eff Tost true false false y (seqL (map reinit_one cs) y)) end.
    { apply eff_seqL. apply Forall_forall. intros f Hf. apply in_map_iff in Hf as (c & <- & _). intros z. apply eff_reinit_one. }
    destruct E as (_ & _ & _ & R & _). rewrite R.
    destruct (eff_rebuild_evals sh x) as (_ & _ & _ & R'' & _). auto.
  - rewrite !seqL_cons, seqL_nil.
    unfold reinit_opts. match goal with |- a_reg (snd (seqL (map reinit_one ?cs) ?y)) = _ => 
      assert (E : eff Tost true false false y (seqL (map reinit_one cs) y)) end.
    { apply eff_seqL. apply Forall_forall. intros f Hf. apply in_map_iff in Hf as (c & <- & _). intros z. apply eff_reinit_one. }
    destruct E as (_ & _ & _ & R & _). rewrite R. reflexivity.
Qed.

(* ---------------------------------------------------------------------------------------------- *)
(* 11. the other operations of the evolutionary loop keep coherence *)
Lemma coherent_eff T x y :
  eff T false false false x y -> (forall k, T k -> snd k <> cEnc /\ snd k <> cHead) ->
  Coherent (snd x) -> Coherent (snd y).
Proof.
  intros E HT (CO & CA & CH).
  assert (EH : enc_head_same (snd x) (snd y)).
  { intros k Hk. apply (eff_other _ _ _ _ _ _ k E). intro Tk. destruct (HT k Tk). destruct Hk; contradiction. }
  destruct E as (O & Hh & A & R & _ & _). specialize (O eq_refl). specialize (Hh eq_refl). specialize (A eq_refl).
  split; [|split].
  - rewrite O. apply Forall_forall. intros o Ho. rewrite Forall_forall in CO.
    apply (opt_ok_transfer (snd x)); auto. intros c _. apply want_refs_same; auto.
  - intros g s Hg Hs Hn. unfold net_names in Hn. rewrite A in *. rewrite R in Hg. apply CA; auto.
  - apply (hooked_transfer (snd x)); auto.
Qed.

Lemma eff_learn_opt ok x : eff Tost false false false x (learn_opt ok x).
Proof.
  unfold learn_opt. destruct (Nat.eqb _ _); unfold Tost; effw.
Qed.

Lemma eff_learn st x : eff Tost false false false x (learn_agent st x).
Proof.
  unfold learn_agent. apply eff_seqL. apply Forall_app. split; [|apply Forall_app; split].
  - apply Forall_forall. intros f Hf. apply in_flat_map in Hf as (n & _ & Hf).
    destruct Hf as [<-|[<-|[<-|[]]]]; intros y; unfold Tost; effw.
  - constructor; [|constructor]. intros y. unfold Tost; effw.
  - apply Forall_forall. intros f Hf. apply in_map_iff in Hf as (ok & <- & _). intros y. apply eff_learn_opt.
Qed.

Lemma Tost_not_exposed k : Tost k -> snd k <> cEnc /\ snd k <> cHead.
Proof. unfold Tost. intros ->. split; discriminate. Qed.

Lemma learn_coherent st x : Coherent (snd x) -> Coherent (snd (learn_agent st x)).
Proof. apply (coherent_eff Tost); [apply eff_learn|apply Tost_not_exposed]. Qed.

Lemma score_agent_same x : snd (score_agent x) = snd x.
Proof. reflexivity. Qed.

Lemma seqL_same_agent l : Forall (fun f : lstate -> lstate => forall y, snd (f y) = snd y) l -> forall y, snd (seqL l y) = snd y.
Proof. induction l as [|f r IH]; intros H y; [reflexivity|]. inversion H; subst. rewrite seqL_cons, IH; auto. Qed.

Lemma act_agent_same x : snd (act_agent x) = snd x.
Proof.
  unfold act_agent. apply seqL_same_agent. apply Forall_app. split.
  - apply Forall_forall. intros f Hf. apply in_map_iff in Hf as (n & <- & _). intros y. reflexivity.
  - constructor; [|constructor]. intros y. reflexivity.
Qed.

(* clone: new optimizer wrappers over the copied networks *)
Lemma clone_coherent idx s a : Coherent a -> Coherent (snd (clone_agent idx s a)).
Proof.
  intros (CO & CA & CH). rewrite clone_agent_unfold.
  set (s1 := fst (copy_blocks s (a_blocks a))). set (bs := snd (copy_blocks s (a_blocks a))).
  set (y0 := (s1, with_blocks a bs)). unfold clone_tail.
  set (y1 := run_hooks y0).
  pose proof (eff_run_hooks y0) as E1. fold y1 in E1. destruct E1 as (O1 & H1 & A1 & R1 & _ & _).
  specialize (O1 eq_refl). specialize (H1 eq_refl). specialize (A1 eq_refl). cbn [y0 snd with_blocks a_opts a_hps a_arch a_reg] in O1, H1, A1, R1.
  set (y2 := pure fix_refs y1).
  set (y3 := realloc kExt (map CopyOf (blk a kExt)) y2).
  assert (E3 : eff (fun k => k = kExt) false false false y2 y3) by apply eff_realloc.
  assert (EH : enc_head_same (snd y2) (snd y3)).
  { intros k Hk. apply (eff_other _ _ _ _ _ _ k E3). intro; subst. destruct Hk; discriminate. }
  destruct E3 as (O3 & H3 & A3 & R3 & _ & _). specialize (O3 eq_refl). specialize (H3 eq_refl). specialize (A3 eq_refl).
  assert (Y2 : snd y2 = fix_refs (snd y1)) by reflexivity.
  assert (Fin : forall b : agent, a_opts (snd (pure (fun c => match idx with Some i => with_index c i | None => c end) (s, b))) = a_opts b /\
                 True) by (intros; split; auto; destruct idx; reflexivity).
  assert (G : Coherent (snd y3)).
  { split; [|split].
    - rewrite O3, Y2. unfold fix_refs. cbn [with_opts a_opts]. rewrite O1, R1.
      apply Forall_forall. intros o' Ho'. apply in_map_iff in Ho' as (o & <- & Ho).
      rewrite Forall_forall in CO. destruct (CO o Ho) as (c & F & S & L). rewrite F.
      exists c. cbn [o_name o_lr o_refs]. rewrite R3, Y2. unfold fix_refs at 1. cbn [with_opts a_reg]. rewrite R1.
      split; [exact F|]. split.
      + rewrite (want_refs_same _ _ c EH). rewrite Y2. unfold fix_refs. 
        assert (Wr : want_refs (with_opts (snd y1) (map (fun o0 => match find_optcfg (a_reg a) (o_name o0) with
                        | Some c0 => mkOpt (o_name o0) (o_lr o0) (want_refs (snd y1) c0) | None => o0 end) (a_opts a))) c
                     = want_refs (snd y1) c) by reflexivity.
        rewrite O1, R1. rewrite Wr. apply same_refs_refl.
      + rewrite H3, Y2. unfold fix_refs. cbn [with_opts a_hps]. rewrite H1. exact L.
    - intros g sh Hg Hs Hn.
      assert (AR : a_arch (snd y3) = a_arch a) by (rewrite A3, Y2; unfold fix_refs; cbn [with_opts a_arch]; exact A1).
      assert (RR : a_reg (snd y3) = a_reg a) by (rewrite R3, Y2; unfold fix_refs; cbn [with_opts a_reg]; exact R1).
      unfold net_names in Hn. rewrite AR in *. rewrite RR in Hg. apply CA; auto.
    - apply (hooked_transfer (snd y1)).
      + rewrite R3, Y2. reflexivity.
      + intros k Hk. rewrite EH by auto. rewrite Y2. reflexivity.
      + apply run_hooks_hooked. }
  unfold pure. cbn [snd fst]. destruct idx; exact G.
Qed.

Lemma clone_agent_reg idx s a : a_reg (snd (clone_agent idx s a)) = a_reg a.
Proof.
  rewrite clone_agent_unfold. unfold clone_tail.
  set (y0 := (fst (copy_blocks s (a_blocks a)), with_blocks a (snd (copy_blocks s (a_blocks a))))).
  destruct (eff_run_hooks y0) as (_ & _ & _ & R1 & _).
  destruct (eff_realloc kExt (map CopyOf (blk a kExt)) false false false (pure fix_refs (run_hooks y0))) as (_ & _ & _ & R3 & _).
  unfold pure at 1. cbn [snd fst]. destruct idx; cbn [with_index a_reg]; rewrite R3; unfold pure; cbn [snd fix_refs with_opts a_reg]; rewrite R1; reflexivity.
Qed.

(* ---------------------------------------------------------------------------------------------- *)
(* 12. populations and histories *)
Definition Good (a : agent) : Prop := wf_registry (a_reg a) = true /\ Coherent a.
Definition AllGood (w : world) : Prop := Forall Good (w_pop w).

Lemma Forall_update {A} (P : A -> Prop) (l : list A) : forall i x, Forall P l -> P x -> Forall P (update i x l).
Proof.
  induction l as [|h t IH]; intros [|i] x H Hx; cbn [update]; auto; inversion H; subst; constructor; auto.
Qed.

Lemma Forall_remove_nth {A} (P : A -> Prop) (l : list A) : forall i, Forall P l -> Forall P (remove_nth i l).
Proof.
  induction l as [|h t IH]; intros [|i] H; cbn [remove_nth]; auto; inversion H; subst; auto.
Qed.

Lemma apply_local_good i f w :
  (forall s a, Good a -> Good (snd (f (s, a)))) -> AllGood w -> AllGood (apply_local i f w).
Proof.
  intros Hf H. unfold apply_local. destruct (nth_error (w_pop w) i) as [a|] eqn:E; auto.
  unfold AllGood. cbn [w_pop]. apply Forall_update; auto. apply Hf.
  unfold AllGood in H. rewrite Forall_forall in H. apply H. eapply nth_error_In; eauto.
Qed.

Lemma clone_into_good i idx w : AllGood w -> AllGood (clone_into clone_agent i idx w).
Proof.
  intros H. unfold clone_into. destruct (nth_error (w_pop w) i) as [a|] eqn:E; auto.
  pose proof (clone_coherent idx (w_store w) a) as C. pose proof (clone_agent_reg idx (w_store w) a) as R.
  destruct (clone_agent idx (w_store w) a) as [s' c]. cbn [snd] in *.
  unfold AllGood in *. cbn [w_pop]. apply Forall_app. split; auto. constructor; [|constructor].
  rewrite Forall_forall in H. destruct (H a (nth_error_In _ _ E)) as [Wa Ca]. split; [congruence|auto].
Qed.

Lemma clone_winners_good : forall ws id old w, AllGood w -> AllGood (clone_winners ws id old w).
Proof. induction ws as [|i r IH]; intros; cbn [clone_winners]; auto. apply IH. apply clone_into_good; auto. Qed.

Lemma Forall_skipn {A} (P : A -> Prop) n (l : list A) : Forall P l -> Forall P (skipn n l).
Proof. intros H. rewrite <- (firstn_skipn n l) in H. apply Forall_app in H. tauto. Qed.
Lemma Forall_firstn {A} (P : A -> Prop) n (l : list A) : Forall P l -> Forall P (firstn n l).
Proof. intros H. rewrite <- (firstn_skipn n l) in H. apply Forall_app in H. tauto. Qed.

Lemma select_good e ws el w : AllGood w -> AllGood (select e ws el w).
Proof.
  intros H. unfold select.
  set (w3 := clone_winners ws (max_index (w_pop w)) (length (w_pop w))
               (if el then clone_into clone_agent (length (w_pop w)) None (clone_into clone_agent e None w)
                else clone_into clone_agent e None w)).
  assert (H3 : AllGood w3).
  { apply clone_winners_good. destruct el; [apply clone_into_good|]; apply clone_into_good; auto. }
  unfold AllGood in *. cbn [w_pop]. apply Forall_app. split.
  - apply Forall_skipn; auto.
  - apply Forall_firstn. apply Forall_skipn; auto.
Qed.

Lemma step_good w o : AllGood w -> AllGood (step w o).
Proof.
  intros H. destruct o; cbn [step].
  - apply apply_local_good; auto. intros s a [Wa Ca]. split.
    + destruct (eff_learn st (s, a)) as (_ & _ & _ & R & _). rewrite R. auto.
    + apply learn_coherent; auto.
  - apply apply_local_good; auto.
  - apply apply_local_good; auto. intros s a G. rewrite act_agent_same. auto.
  - apply clone_into_good; auto.
  - apply apply_local_good; auto. intros s a [Wa Ca]. split.
    + rewrite mutate_agent_reg. auto.
    + apply mutate_agent_coherent; auto.
  - apply select_good; auto.
  - unfold AllGood in *. cbn [w_pop]. apply Forall_remove_nth; auto.
Qed.

Theorem run_good ops : forall w, AllGood w -> AllGood (run w ops).
Proof. unfold run. induction ops as [|o r IH]; intros w H; cbn [fold_left]; auto. apply IH. apply step_good; auto. Qed.

Lemma AllGood_intro w : WfRegs w -> AllCoherent w -> AllGood w.
Proof.
  unfold WfRegs, AllCoherent, AllGood. rewrite !Forall_forall. intros H1 H2 a Ha. split; auto.
Qed.

Lemma generations_coherent_lemma w ops : WfRegs w -> AllCoherent w -> AllCoherent (run w ops) /\ WfRegs (run w ops).
Proof.
  intros H1 H2. pose proof (run_good ops w (AllGood_intro w H1 H2)) as G.
  unfold AllGood, AllCoherent, WfRegs in *. rewrite !Forall_forall in *. split; intros a Ha; apply G; auto.
Qed.

(* Mutations.mutation(population) as one operation *)
Lemma mutate_from_run ds : forall i w, mutate_from i ds w = run w (mutate_ops i ds).
Proof.
  induction ds as [|[[k sh] lab] r IH]; intros i w; cbn [mutate_from mutate_ops]; [reflexivity|].
  rewrite IH. reflexivity.
Qed.

Lemma mutation_coherent_pop_lemma ds w : WfRegs w -> AllCoherent w -> AllCoherent (mutate_pop ds w).
Proof. intros H1 H2. unfold mutate_pop. rewrite mutate_from_run. apply generations_coherent_lemma; auto. Qed.

Lemma all_refs_live_lemma w ops : WfRegs w -> AllCoherent w ->
  forall a, In a (w_pop (run w ops)) -> refs_live a.
Proof.
  intros H1 H2 a Ha. apply coherent_refs_live_lemma.
  destruct (generations_coherent_lemma w ops H1 H2) as [G _]. unfold AllCoherent in G. rewrite Forall_forall in G. auto.
Qed.

(* ---------------------------------------------------------------------------------------------- *)
(* 13. population shape: size, order (indices), labels *)
Lemma eff_top T fo fh fa x y : eff T fo fh fa x y -> eff (fun _ => True) true true true x y.
Proof. apply eff_weaken; unfold ble; auto. Qed.

Lemma eff_top_wfresh k x : eff (fun _ => True) true true true x (wfresh k x).
Proof. exact (eff_top _ _ _ _ _ _ (eff_wfresh k false false false x)). Qed.

Lemma eff_reinit_opts which x : eff (fun _ => True) true true true x (reinit_opts which x).
Proof.
  unfold reinit_opts. apply eff_seqL. apply Forall_forall. intros f Hf. apply in_map_iff in Hf as (c & <- & _).
  intros y. eapply eff_top. apply eff_reinit_one.
Qed.

Lemma eff_mutate_kind k sh x : eff (fun _ => True) true true true x (mutate_kind k sh x).
Proof.
  destruct k as [| | | |h v]; cbn [mutate_kind].
  - apply eff_refl.
  - apply eff_seqL. apply Forall_app. split.
    + apply Forall_forall. intros f Hf. apply in_map_iff in Hf as (s & <- & _). intros y. eapply eff_top. apply eff_rebuild_eval.
    + constructor; [intros y; eapply eff_top; apply eff_run_hooks|]. constructor; [intros y; apply eff_reinit_opts|constructor].
  - cbv zeta. apply eff_seqL. repeat (apply Forall_cons; [intros y; first [apply eff_reinit_opts|apply eff_top_wfresh]|]).
    apply Forall_nil.
  - destruct (r_act_skip (a_reg (snd x))); [apply eff_refl|].
    apply eff_seqL. apply Forall_app. split.
    + apply Forall_forall. intros f Hf. apply in_map_iff in Hf as (s & <- & _). intros y. eapply eff_top. apply eff_rebuild_eval.
    + constructor; [intros y; apply eff_reinit_opts|constructor].
  - apply eff_seqL. constructor; [|constructor; [|constructor; [|constructor]]]; intros y.
    + unfold pure. repeat split; auto; discriminate.
    + apply eff_top_wfresh.
    + apply eff_reinit_opts.
Qed.

Lemma mutate_agent_index_mut k sh label x :
  a_index (snd (mutate_agent k sh label x)) = a_index (snd x) /\ a_mut (snd (mutate_agent k sh label x)) = label.
Proof.
  unfold mutate_agent. rewrite !seqL_cons, seqL_nil. unfold pure at 1. cbn [snd with_mut a_index a_mut]. split; auto.
  destruct (eff_run_hooks (rebuild_shared (mutate_kind k sh x))) as (_ & _ & _ & _ & I3 & _). rewrite I3.
  destruct (eff_rebuild_shared (mutate_kind k sh x)) as (_ & _ & _ & _ & I2 & _). rewrite I2.
  destruct (eff_mutate_kind k sh x) as (_ & _ & _ & _ & I1 & _). exact I1.
Qed.

Lemma nth_error_update_eq {A} (l : list A) : forall i x, (i < length l)%nat -> nth_error (update i x l) i = Some x.
Proof. induction l as [|h t IH]; intros [|i] x H; cbn in *; try lia; auto. apply IH. lia. Qed.

Lemma map_update_same {A B} (f : A -> B) (l : list A) : forall i x a,
  nth_error l i = Some a -> f x = f a -> map f (update i x l) = map f l.
Proof.
  induction l as [|h t IH]; intros [|i] x a H E; cbn in *; try discriminate; auto.
  - injection H as ->. congruence.
  - f_equal. eapply IH; eauto.
Qed.

Lemma mutate_step_indices i k sh label w :
  map a_index (w_pop (step w (Mutate i k sh label))) = map a_index (w_pop w).
Proof.
  cbn [step]. unfold apply_local. destruct (nth_error (w_pop w) i) as [a|] eqn:E; auto. cbn [w_pop].
  apply (map_update_same a_index _ i _ a E). apply (mutate_agent_index_mut k sh label (w_store w, a)).
Qed.

Lemma mutate_from_indices ds : forall i w, map a_index (w_pop (mutate_from i ds w)) = map a_index (w_pop w).
Proof.
  induction ds as [|[[k sh] lab] r IH]; intros i w; cbn [mutate_from]; auto. rewrite IH. apply mutate_step_indices.
Qed.

Lemma mutate_from_before ds : forall i w j, (j < i)%nat ->
  nth_error (w_pop (mutate_from i ds w)) j = nth_error (w_pop w) j.
Proof.
  induction ds as [|[[k sh] lab] r IH]; intros i w j H; cbn [mutate_from]; auto.
  rewrite IH by lia. cbn [step]. unfold apply_local. destruct (nth_error (w_pop w) i); auto. cbn [w_pop].
  apply nth_error_update_ne. lia.
Qed.

Lemma mutate_from_label ds : forall i w j d, nth_error ds j = Some d -> (i + j < length (w_pop w))%nat ->
  option_map a_mut (nth_error (w_pop (mutate_from i ds w)) (i + j)) = Some (snd d).
Proof.
  induction ds as [|[[k sh] lab] r IH]; intros i w j d Hd Hlt; [destruct j; discriminate|].
  cbn [mutate_from]. destruct j as [|j]; cbn [nth_error] in Hd.
  - injection Hd as <-. rewrite Nat.add_0_r in *. rewrite mutate_from_before by lia.
    cbn [step]. unfold apply_local. destruct (nth_error (w_pop w) i) as [a|] eqn:E.
    + cbn [w_pop]. rewrite nth_error_update_eq by auto. cbn [option_map snd].
      f_equal; try apply (mutate_agent_index_mut k sh lab (w_store w, a)).
    + apply nth_error_None in E. lia.
  - replace (i + S j)%nat with (S i + j)%nat by lia. apply IH; auto.
    cbn [step]. rewrite apply_local_length. lia.
Qed.

Lemma population_shape_lemma ds w :
  length (w_pop (mutate_pop ds w)) = length (w_pop w) /\
  map a_index (w_pop (mutate_pop ds w)) = map a_index (w_pop w) /\
  (forall j d, nth_error ds j = Some d -> (j < length (w_pop w))%nat ->
               option_map a_mut (nth_error (w_pop (mutate_pop ds w)) j) = Some (snd d)).
Proof.
  unfold mutate_pop. split; [apply mutate_from_length|]. split; [apply mutate_from_indices|].
  intros j d Hd Hj. apply (mutate_from_label ds 0%nat w j d Hd). auto.
Qed.

(* ---------------------------------------------------------------------------------------------- *)
(* 14. a learn step writes every cell an optimizer of a coherent agent references *)
Section LearnMoves.
  Variable s0 : store.
  Variable a0 : agent.
  Variable l : loc.
  Hypothesis Hl : l < s_next s0.

  Definition adv (x : lstate) : Prop :=
    s_fresh s0 <= s_fresh (fst x) /\ s_next s0 <= s_next (fst x) /\ enc_head_same a0 (snd x).
  Definition hit (x : lstate) : Prop := s_fresh s0 <= rd (fst x) l.
  Definition keep (f : lstate -> lstate) : Prop := forall x, adv x -> adv (f x) /\ (hit x -> hit (f x)).
  Definition make (f : lstate -> lstate) : Prop := forall x, adv x -> hit (f x).

  Lemma write_fresh_ge : forall ls s, In l ls -> s_fresh s <= rd (write_fresh s ls) l.
  Proof.
    induction ls as [|l0 r IH]; intros s H; [contradiction|]. cbn [write_fresh].
    destruct (in_dec N.eq_dec l r) as [Hr|Hr].
    - specialize (IH (mkStore (s_next s) (N.succ (s_fresh s)) (upd (s_heap s) l0 (s_fresh s))) Hr). cbn [s_fresh] in IH. lia.
    - destruct H as [->|H]; [|contradiction]. rewrite write_fresh_frame by auto.
      unfold rd. cbn [s_heap]. rewrite hget_upd, N.eqb_refl. lia.
  Qed.

  Lemma keep_wfresh k : keep (wfresh k).
  Proof.
    intros x (A1 & A2 & A3). unfold wfresh, adv, hit. cbn [fst snd]. split.
    - repeat split; auto.
      + pose proof (write_fresh_mono (getb k (a_blocks (snd x))) (fst x)). lia.
      + rewrite write_fresh_next. auto.
    - unfold hit. cbn [fst]. intros H.
      destruct (in_dec N.eq_dec l (getb k (a_blocks (snd x)))) as [Hi|Hi].
      + pose proof (write_fresh_ge _ (fst x) Hi). lia.
      + rewrite write_fresh_frame; auto.
  Qed.

  Lemma make_wfresh k : In l (blk a0 k) -> (snd k = cEnc \/ snd k = cHead) -> make (wfresh k).
  Proof.
    intros Hi Hk x (A1 & A2 & A3). unfold hit, wfresh. cbn [fst].
    assert (E : getb k (a_blocks (snd x)) = blk a0 k) by (apply A3; auto).
    rewrite E. pose proof (write_fresh_ge _ (fst x) Hi). lia.
  Qed.

  Lemma keep_realloc_ost o srcs : keep (realloc (o, cOst) srcs).
  Proof.
    intros x (A1 & A2 & A3).
    pose proof (eff_realloc (o, cOst) srcs false false false x) as E.
    pose proof (alloc_fresh_mono srcs (fst x)) as F. pose proof (alloc_next srcs (fst x)) as Nx.
    pose proof (alloc_frame srcs (fst x) l) as Fr.
    unfold realloc, adv, hit in *. destruct (alloc (fst x) srcs) as [s' ls]. cbn [fst snd] in *. split.
    - repeat split; try lia. intros k Hk. transitivity (blk (snd x) k); [|apply A3; auto].
      apply (eff_other _ _ _ _ _ _ k E). intro; subst. destruct Hk; discriminate.
    - unfold hit. cbn [fst]. intros H. rewrite Fr; auto. lia.
  Qed.

  Lemma keep_learn_opt ok : keep (learn_opt ok).
  Proof.
    intros x A. unfold learn_opt. destruct (Nat.eqb _ _); [apply keep_wfresh|apply keep_realloc_ost]; auto.
  Qed.

  Lemma seqL_keep fs : Forall keep fs -> forall x, adv x -> adv (seqL fs x) /\ (hit x -> hit (seqL fs x)).
  Proof.
    induction fs as [|f r IH]; intros H x A; [split; auto|]. inversion H; subst. rewrite seqL_cons.
    destruct (H2 x A) as [A' K]. destruct (IH H3 (f x) A') as [A'' K']. split; auto.
  Qed.

  Lemma seqL_make fs : Forall keep fs -> Exists make fs -> forall x, adv x -> hit (seqL fs x).
  Proof.
    induction fs as [|f r IH]; intros H E x A; [inversion E|]. inversion H; subst. rewrite seqL_cons.
    destruct (H2 x A) as [A' K]. inversion E; subst.
    - apply (seqL_keep r H3 (f x) A'). auto.
    - apply IH; auto.
  Qed.
End LearnMoves.

Lemma learn_moves_lemma st s a o l :
  Coherent a -> (forall c n, In c (r_opts (a_reg a)) -> In n (oc_nets c) -> In n (net_names a)) ->
  Forall (fun l => l < s_next s) (agent_locs a) ->
  In o (a_opts a) -> In l (o_refs o) ->
  s_fresh s <= rd (fst (learn_agent st (s, a))) l.
Proof.
  intros C Hnets B Ho Hl.
  pose proof (coherent_refs_live_lemma a C o l Ho Hl) as Live.
  assert (Hb : l < s_next s) by (rewrite Forall_forall in B; auto).
  destruct C as (CO & _ & _). rewrite Forall_forall in CO. destruct (CO o Ho) as (c & F & (_ & I & _) & _).
  apply find_optcfg_spec in F as [Hc _].
  specialize (I l Hl). unfold want_refs in I. apply in_concat in I as (ex & Hex & Hin).
  apply in_map_iff in Hex as (n & <- & Hn). specialize (Hnets c n Hc Hn).
  assert (A0 : adv s a (s, a)).
  { unfold adv. cbn [fst snd]. repeat split; try lia. }
  unfold learn_agent. cbn [snd].
  apply (seqL_make s a l); auto.
  - apply Forall_app. split; [|apply Forall_app; split].
    + apply Forall_forall. intros f Hf. apply in_flat_map in Hf as (m & _ & Hf).
      destruct Hf as [<-|[<-|[<-|[]]]]; apply keep_wfresh; auto.
    + constructor; [apply keep_wfresh; auto|constructor].
    + apply Forall_forall. intros f Hf. apply in_map_iff in Hf as (ok & <- & _). apply keep_learn_opt; auto.
  - apply Exists_app. left. apply Exists_exists.
    unfold exposed in Hin. apply in_app_or in Hin as [Hin|Hin].
    + exists (wfresh (n, cEnc)). split.
      * apply in_flat_map. exists n. split; auto. left; auto.
      * apply make_wfresh; auto.
    + exists (wfresh (n, cHead)). split.
      * apply in_flat_map. exists n. split; auto. right; left; auto.
      * apply make_wfresh; auto.
Qed.

(* ---------------------------------------------------------------------------------------------- *)
(* 15. architecture_mutate at descriptor level *)
Section ArchFollowProofs.
  Context {arch meth args : Type}.
  Variable net_apply : meth -> args -> arch -> arch * option meth * args.
  Variable no_args : args.

  Lemma arch_follows_lemma m pol others :
    exists d,
      net_apply m no_args pol = (fst (fst (arch_mutate net_apply no_args m pol others)),
                                 snd (arch_mutate net_apply no_args m pol others), d) /\
      snd (fst (arch_mutate net_apply no_args m pol others)) =
        map (follow_one net_apply (snd (arch_mutate net_apply no_args m pol others)) d) others.
  Proof.
    unfold arch_mutate. destruct (net_apply m no_args pol) as [[p' applied] d]. exists d. cbn [fst snd]. split; reflexivity.
  Qed.

  Lemma follow_none d others : map (follow_one net_apply None d) others = others.
  Proof. cbn [follow_one]. apply map_id. Qed.

  (* replaying the resolved method with the returned arguments reproduces the result (C03's domain) *)
  Definition replayable : Prop :=
    forall m a a' m' d, net_apply m no_args a = (a', Some m', d) -> fst (fst (net_apply m' d a)) = a'.

  Lemma arch_same_before_same_after m pol others :
    replayable ->
    let r := arch_mutate net_apply no_args m pol others in
    length (snd (fst r)) = length others /\
    (snd r = None -> snd (fst r) = others) /\
    (snd r <> None -> forall i, nth_error others i = Some pol -> nth_error (snd (fst r)) i = Some (fst (fst r))).
  Proof.
    intros Rp. cbv zeta. unfold arch_mutate. destruct (net_apply m no_args pol) as [[p' applied] d] eqn:E. cbn [fst snd].
    split; [apply map_length|]. split.
    - intros ->. apply follow_none.
    - intros Hne i Hi. rewrite nth_error_map, Hi. cbn [option_map]. f_equal.
      destruct applied as [m'|]; [|congruence]. cbn [follow_one]. apply (Rp m pol p' m' d E).
  Qed.
End ArchFollowProofs.

(* ---------------------------------------------------------------------------------------------- *)
(* 16. concrete instances: non-vacuity, and the pinned learning-rate mutation *)
Definition net_blocks (n : name) (base : N) (enc : bool) : blocks :=
  [((n, cEnc), if enc then [base] else []); ((n, cHead), [base + 1]); ((n, cHenc), if enc then [] else [base]);
   ((n, cConst), []); ((n, cCfg), [base + 2]); ((n, cBuf), [])].

(* a TD3-like registry: twin critics whose optimizers use the same learning rate *)
Definition ex_reg : registry :=
  mkReg [mkGroup 1 [2] true; mkGroup 3 [4] false; mkGroup 5 [6] false]
        [mkOptCfg 7 [1] 10; mkOptCfg 8 [3] 11; mkOptCfg 9 [5] 11] [] [10; 11; 12] true.
Definition ex_agent (idx : N) (base : N) : agent :=
  mkAgent idx 0 [(1, 1); (2, 1); (3, 2); (4, 2); (5, 2); (6, 2)]
          [mkOpt 7 (1 # 10) [base; base + 1]; mkOpt 8 (1 # 100) [base + 6; base + 7]; mkOpt 9 (1 # 100) [base + 12; base + 13]]
          [(10, 1 # 10); (11, 1 # 100); (12, 4 # 1)] ex_reg
          (net_blocks 1 base true ++ net_blocks 2 (base + 3) true ++ net_blocks 3 (base + 6) true ++
           net_blocks 4 (base + 9) true ++ net_blocks 5 (base + 12) true ++ net_blocks 6 (base + 15) true ++
           [((7, cOst), []); ((8, cOst), []); ((9, cOst), []); (kReg, [base + 18; base + 19; base + 20]);
            (kBook, [base + 21]); (kExt, [])]).
Definition ex_world : world := mkWorld (mkStore 44 100 hempty) [ex_agent 0 0; ex_agent 1 22].

(* a DDPG-like registry with shared encoders: the critic and both targets hold detached copies of the actor's encoder *)
Definition ex_reg_share : registry :=
  mkReg [mkGroup 1 [2] true; mkGroup 3 [4] false] [mkOptCfg 7 [1] 10; mkOptCfg 8 [3] 11] [HShare 1 [3; 4]] [10; 11] true.
Definition ex_agent_share : agent :=
  mkAgent 0 0 [(1, 1); (2, 1); (3, 2); (4, 2)] [mkOpt 7 (1 # 10) [0; 1]; mkOpt 8 (1 # 100) [7]]
          [(10, 1 # 10); (11, 1 # 100)] ex_reg_share
          (net_blocks 1 0 true ++ net_blocks 2 3 true ++ net_blocks 3 6 false ++ net_blocks 4 9 false ++
           [((7, cOst), []); ((8, cOst), []); (kReg, [12; 13]); (kBook, [14]); (kExt, [])]).
Definition ex_world_share : world := mkWorld (mkStore 15 100 hempty) [ex_agent_share].

(* a DQN-like registry: the hook re-synchronises the target *)
Definition ex_reg_sync : registry :=
  mkReg [mkGroup 1 [2] true] [mkOptCfg 7 [1] 10] [HSync 1 2] [10] false.
Definition ex_agent_sync : agent :=
  mkAgent 0 0 [(1, 1); (2, 1)] [mkOpt 7 (1 # 10) [0; 1]] [(10, 1 # 10)] ex_reg_sync
          (net_blocks 1 0 true ++ net_blocks 2 3 true ++ [((7, cOst), []); (kReg, [6]); (kBook, [7]); (kExt, [])]).
Definition ex_world_sync : world := mkWorld (mkStore 8 100 hempty) [ex_agent_sync].

Definition ex_shapes : list netshape :=
  [mkShape 1 5 2 1 0 0 1 0; mkShape 3 6 2 1 0 0 1 0; mkShape 5 6 2 1 0 0 1 0].
Definition ex_history : list op :=
  [Mutate 0 MArch ex_shapes 5; Mutate 1 (MHp 11 (1 # 50)) [] 6; Act 0; Learn 0 [(7, 6%nat); (8, 6%nat); (9, 6%nat)];
   Learn 1 [(7, 4%nat); (8, 4%nat); (9, 4%nat)]; Score 0; Score 1; Select 1 [0%nat] true; Discard 2;
   Mutate 0 MParam [] 7; Mutate 1 MAct [] 1; Learn 1 [(7, 4%nat); (8, 4%nat); (9, 4%nat)]; Clone 1 (Some 9);
   Mutate 2 MNone [] 1].

Lemma ex_world_good : WfRegs ex_world /\ AllCoherent ex_world.
Proof.
  split.
  - repeat constructor.
  - apply all_coherent_b_sound. vm_compute. reflexivity.
Qed.

Lemma ex_world_share_good : WfRegs ex_world_share /\ AllCoherent ex_world_share.
Proof. split; [repeat constructor|apply all_coherent_b_sound; vm_compute; reflexivity]. Qed.

Lemma ex_world_sync_good : WfRegs ex_world_sync /\ AllCoherent ex_world_sync.
Proof. split; [repeat constructor|apply all_coherent_b_sound; vm_compute; reflexivity]. Qed.

(* the pinned rl_hyperparam_mutation (only the first optimizer with the mutated lr is re-created) leaves the
   second critic's optimizer at the old learning rate *)
Lemma hp_first_only_refuted_lemma :
  exists s a h v label,
    wf_registry (a_reg a) = true /\ Coherent a /\
    ~ Coherent (snd (mutate_agent_first_only (MHp h v) [] label (s, a))) /\
    Coherent (snd (mutate_agent (MHp h v) [] label (s, a))).
Proof.
  exists (mkStore 22 100 hempty), (ex_agent 0 0), 11, (1 # 50), 6.
  assert (C : Coherent (ex_agent 0 0)) by (apply coherent_b_sound; vm_compute; reflexivity).
  split; [reflexivity|]. split; [exact C|]. split.
  - set (a' := snd (mutate_agent_first_only (MHp 11 (1 # 50)) [] 6 (mkStore 22 100 hempty, ex_agent 0 0))).
    intros (CO & _ & _).
    assert (EO : a_opts a' = [mkOpt 7 (1 # 10) [0; 1]; mkOpt 8 (1 # 50) [6; 7]; mkOpt 9 (1 # 100) [12; 13]])
      by (vm_compute; reflexivity).
    rewrite EO in CO. inversion CO as [|? ? _ CO1]; subst. inversion CO1 as [|? ? _ CO2]; subst.
    inversion CO2 as [|? ? (c & F & _ & L) _]; subst.
    assert (ER : find_optcfg (a_reg a') 9 = Some (mkOptCfg 9 [5] 11)) by (vm_compute; reflexivity).
    cbn [o_name] in F. rewrite ER in F. injection F as <-.
    assert (EL : lookupN (1 # 100) 11 (a_hps a') = 1 # 50) by (vm_compute; reflexivity).
    cbn [o_lr oc_lr] in L. rewrite EL in L. discriminate L.
  - apply mutate_agent_coherent; [reflexivity|exact C].
Qed.
