(* C02/Proofs.v — proofs about mutation coherence on the Evo model (see coq/props/C02.v for the statements). *)
From Coq Require Import List NArith QArith Bool Lia.
From AgileV Require Import Evo.Heap Evo.Evo Evo.EvoProofs C02.Model.
Import ListNotations.
Open Scope N_scope.

(* ---------------------------------------------------------------------------------------------- *)
(* 0. booleans *)
Lemma memN_In n l : memN n l = true <-> In n l.
Proof.
  unfold memN. rewrite existsb_exists. split.
  - intros (x & Hx & E). apply N.eqb_eq in E. subst; auto.
  - intros H. exists n. split; auto. apply N.eqb_refl.
Qed.

Lemma memN_app n l1 l2 : memN n (l1 ++ l2) = memN n l1 || memN n l2.
Proof. unfold memN. apply existsb_app. Qed.

Lemma nodupN_NoDup l : nodupN l = true -> NoDup l.
Proof.
  induction l as [|x r IH]; cbn [nodupN]; intros H; constructor.
  - apply andb_true_iff in H as [H _]. apply negb_true_iff in H. intro Hin. apply memN_In in Hin. congruence.
  - apply IH. apply andb_true_iff in H as [_ H]. auto.
Qed.

Lemma Q_eqb_eq x y : Q_eqb x y = true -> x = y.
Proof.
  unfold Q_eqb. rewrite andb_true_iff. intros [H1 H2]. apply Z.eqb_eq in H1. apply Pos.eqb_eq in H2.
  destruct x, y. cbn in *. subst. reflexivity.
Qed.

Lemma same_refs_b_sound l m : same_refs_b l m = true -> same_refs l m.
Proof.
  unfold same_refs_b, same_refs. rewrite !andb_true_iff, !forallb_forall. intros [[H1 H2] H3].
  apply Nat.eqb_eq in H1. repeat split; auto; intros x Hx; apply mem_In; auto.
Qed.

Lemma coherent_b_sound a : coherent_b a = true -> Coherent a.
Proof.
  unfold coherent_b, Coherent. rewrite !andb_true_iff. intros [[H1 H2] H3]. split; [|split].
  - apply Forall_forall. intros o Ho. rewrite forallb_forall in H1. specialize (H1 o Ho).
    unfold opt_ok_b in H1. unfold opt_ok. destruct (find_optcfg (a_reg a) (o_name o)) as [c|]; [|discriminate].
    apply andb_true_iff in H1 as [R L]. exists c. split; auto. split; [apply same_refs_b_sound; auto|apply Q_eqb_eq; auto].
  - unfold arch_ok_b in H2. intros g s Hg Hs Hn. rewrite forallb_forall in H2. specialize (H2 g Hg).
    rewrite forallb_forall in H2. specialize (H2 s Hs). apply orb_true_iff in H2 as [H2|H2].
    + apply negb_true_iff in H2. apply memN_In in Hn. congruence.
    + apply N.eqb_eq; auto.
  - unfold hooked_b in H3. intros o Ho. rewrite forallb_forall in H3. specialize (H3 o Ho).
    revert H3. match goal with |- (match ?t with _ => _ end) = true -> _ => change (blk a (o, cEnc)) with t; destruct t end;
      [reflexivity|intro H3; discriminate H3].
Qed.

Lemma all_coherent_b_sound w : all_coherent_b w = true -> AllCoherent w.
Proof.
  unfold all_coherent_b, AllCoherent. rewrite forallb_forall, Forall_forall. intros H a Ha. apply coherent_b_sound; auto.
Qed.

(* ---------------------------------------------------------------------------------------------- *)
(* 1. no dangling optimizer reference *)
Lemma exposed_incl a n l : In l (exposed a n) -> In l (agent_locs a).
Proof.
  unfold exposed, blk, agent_locs. intros H. apply in_app_or in H as [H|H]; eapply getb_incl; eauto.
Qed.

Lemma want_refs_incl a c l : In l (want_refs a c) -> In l (agent_locs a).
Proof.
  unfold want_refs. intros H. apply in_concat in H as (x & Hx & Hl). apply in_map_iff in Hx as (n & <- & _).
  eapply exposed_incl; eauto.
Qed.

Lemma coherent_refs_live_lemma a : Coherent a -> refs_live a.
Proof.
  intros (H & _ & _) o l Ho Hl. rewrite Forall_forall in H. destruct (H o Ho) as (c & _ & (_ & I & _) & _).
  apply (want_refs_incl a c). apply I; auto.
Qed.

(* ---------------------------------------------------------------------------------------------- *)
(* 2. population shape *)
Lemma update_length {A} (l : list A) : forall i x, length (update i x l) = length l.
Proof. induction l as [|h t IH]; intros [|i] x; cbn; auto. Qed.

Lemma apply_local_length i f w : length (w_pop (apply_local i f w)) = length (w_pop w).
Proof. unfold apply_local. destruct (nth_error (w_pop w) i); cbn; auto. apply update_length. Qed.

Lemma mutate_from_length ds : forall i w, length (w_pop (mutate_from i ds w)) = length (w_pop w).
Proof.
  induction ds as [|[[k sh] lab] r IH]; intros i w; cbn [mutate_from]; auto.
  rewrite IH. cbn [step]. apply apply_local_length.
Qed.

(* ---------------------------------------------------------------------------------------------- *)
(* 3. blocks *)
Lemma key_eqb_refl k : key_eqb k k = true.
Proof. unfold key_eqb. rewrite !N.eqb_refl. reflexivity. Qed.

Lemma key_eqb_eq k k' : key_eqb k k' = true -> k = k'.
Proof.
  unfold key_eqb. rewrite andb_true_iff, !N.eqb_eq. destruct k, k'; cbn. intros [-> ->]. reflexivity.
Qed.

Lemma key_eqb_neq k k' : k <> k' -> key_eqb k k' = false.
Proof. intros H. destruct (key_eqb k k') eqn:E; auto. apply key_eqb_eq in E. contradiction. Qed.

Lemma key_eqb_sym k k' : key_eqb k k' = key_eqb k' k.
Proof. unfold key_eqb. rewrite (N.eqb_sym (fst k)), (N.eqb_sym (snd k)). reflexivity. Qed.

Lemma getb_setb_other k k' v bs : k' <> k -> getb k' (setb k v bs) = getb k' bs.
Proof.
  intros Hne. induction bs as [|kv r IH]; cbn [setb getb]; auto.
  destruct (key_eqb k (fst kv)) eqn:E; cbn [getb fst snd].
  - apply key_eqb_eq in E. subst k. rewrite (key_eqb_neq k' (fst kv)); auto.
  - destruct (key_eqb k' (fst kv)); auto.
Qed.

Lemma getb_setb_nil k bs : getb k (setb k [] bs) = [].
Proof.
  induction bs as [|kv r IH]; cbn [setb getb]; auto.
  destruct (key_eqb k (fst kv)) eqn:E; cbn [getb fst snd]; rewrite E; auto.
Qed.

Lemma realloc_agent k srcs x :
  snd (realloc k srcs x) = with_blocks (snd x) (setb k (snd (alloc (fst x) srcs)) (a_blocks (snd x))).
Proof. unfold realloc. destruct (alloc (fst x) srcs). reflexivity. Qed.

Lemma seqL_nil x : seqL [] x = x.
Proof. reflexivity. Qed.
Lemma seqL_cons f r x : seqL (f :: r) x = seqL r (f x).
Proof. reflexivity. Qed.
Lemma seqL_app l1 l2 x : seqL (l1 ++ l2) x = seqL l2 (seqL l1 x).
Proof. unfold seqL. apply fold_left_app. Qed.

(* ---------------------------------------------------------------------------------------------- *)
(* 4. effects: what a transformer may change of the agent record.  [T] = block keys it may replace; the flags say
   whether optimizers / hyper-parameter values / architecture ids may change; the registry never changes. *)
Definition eff (T : key -> Prop) (fo fh fa : bool) (x x' : lstate) : Prop :=
  (fo = false -> a_opts (snd x') = a_opts (snd x)) /\
  (fh = false -> a_hps (snd x') = a_hps (snd x)) /\
  (fa = false -> a_arch (snd x') = a_arch (snd x)) /\
  a_reg (snd x') = a_reg (snd x) /\
  a_index (snd x') = a_index (snd x) /\
  (forall k, ~ T k -> blk (snd x') k = blk (snd x) k).

Lemma eff_refl T fo fh fa x : eff T fo fh fa x x.
Proof. repeat split; auto. Qed.

Lemma eff_trans T fo fh fa x y z : eff T fo fh fa x y -> eff T fo fh fa y z -> eff T fo fh fa x z.
Proof.
  intros (A1 & A2 & A3 & A4 & A5 & A6) (B1 & B2 & B3 & B4 & B5 & B6). repeat split; intros.
  - rewrite B1, A1; auto.
  - rewrite B2, A2; auto.
  - rewrite B3, A3; auto.
  - rewrite B4, A4; auto.
  - rewrite B5, A5; auto.
  - rewrite B6, A6; auto.
Qed.

Definition ble (a b : bool) : Prop := a = true -> b = true.
Lemma eff_weaken (T T' : key -> Prop) fo fh fa fo' fh' fa' x y :
  (forall k, T k -> T' k) -> ble fo fo' -> ble fh fh' -> ble fa fa' ->
  eff T fo fh fa x y -> eff T' fo' fh' fa' x y.
Proof.
  unfold ble. intros HT Ho Hh Ha (A1 & A2 & A3 & A4 & A5 & A6). repeat split; auto.
  - intros E. apply A1. destruct fo; auto. specialize (Ho eq_refl). congruence.
  - intros E. apply A2. destruct fh; auto. specialize (Hh eq_refl). congruence.
  - intros E. apply A3. destruct fa; auto. specialize (Ha eq_refl). congruence.
Qed.

Lemma eff_seqL T fo fh fa fs :
  Forall (fun f => forall y, eff T fo fh fa y (f y)) fs -> forall x, eff T fo fh fa x (seqL fs x).
Proof.
  induction fs as [|f r IH]; intros H x.
  - apply eff_refl.
  - inversion H; subst. rewrite seqL_cons. eapply eff_trans; [apply H2|apply IH; auto].
Qed.

Lemma eff_realloc k srcs fo fh fa x : eff (fun k' => k' = k) fo fh fa x (realloc k srcs x).
Proof.
  rewrite (surjective_pairing (realloc k srcs x)). cbn [snd]. rewrite realloc_agent.
  repeat split; auto. intros k' Hk. unfold blk. cbn [with_blocks a_blocks]. apply getb_setb_other; auto.
Qed.

Lemma eff_wfresh k fo fh fa x : eff (fun _ => False) fo fh fa x (wfresh k x).
Proof. unfold wfresh. repeat split; auto. Qed.

Lemma eff_wcopy kd ks fo fh fa x : eff (fun _ => False) fo fh fa x (wcopy kd ks x).
Proof. unfold wcopy. destruct (Nat.eqb _ _); repeat split; auto. Qed.

Lemma eff_weakenT (T T' : key -> Prop) fo fh fa x y :
  (forall k, T k -> T' k) -> eff T fo fh fa x y -> eff T' fo fh fa x y.
Proof. intros H. apply eff_weaken; unfold ble; auto. Qed.

Ltac effw := eapply eff_weakenT; [|first [apply eff_realloc|apply eff_wfresh|apply eff_wcopy]];
             cbn beta; intros ? ?; subst; cbn; first [tauto | intuition (auto; congruence) | idtac "effw side"].

Ltac effs := repeat (first [apply Forall_nil | apply Forall_cons; [intros ?y; effw|]]).

(* ---------------------------------------------------------------------------------------------- *)
(* 5. mutation hooks *)
Definition hook_others (h : hook) : list name := match h with HShare _ others => others | _ => [] end.
Definition Thook (k : key) : Prop := snd k = cHenc \/ snd k = cEnc \/ k = kExt.

Lemma eff_run_hook h x : eff Thook false false false x (run_hook h x).
Proof.
  destruct h as [e t|p others|]; unfold run_hook.
  - match goal with |- context [if ?b then _ else _] => destruct b end; [|apply eff_refl].
    apply eff_seqL. unfold Thook. effs.
  - apply eff_seqL. induction others as [|o r IH]; cbn [flat_map app]; [constructor|].
    unfold Thook. apply Forall_cons; [intros y; effw|]. apply Forall_cons; [intros y; effw|].
    apply Forall_cons; [intros y; effw|]. exact IH.
  - unfold Thook. effw.
Qed.

(* keys are compared through their components (the model's pairs are not syntactically uniform) *)
Lemma eff_other T fo fh fa x y k : eff T fo fh fa x y -> ~ T k -> blk (snd y) k = blk (snd x) k.
Proof. intros (_ & _ & _ & _ & _ & H). apply H. Qed.

Lemma share_step (k1 k2 k3 k : key) srcs x : snd k1 <> snd k ->
  blk (snd (wfresh k3 (realloc k2 [] (realloc k1 srcs x)))) k = if key_eqb k2 k then [] else blk (snd x) k.
Proof.
  intros H1. unfold wfresh. cbn [snd].
  destruct (key_eqb k2 k) eqn:E.
  - apply key_eqb_eq in E. subst k. rewrite realloc_agent. unfold blk. cbn [with_blocks a_blocks alloc snd].
    apply getb_setb_nil.
  - rewrite (eff_other _ _ _ _ _ _ k (eff_realloc k2 [] false false false _)).
    + apply (eff_other _ _ _ _ _ _ k (eff_realloc k1 srcs false false false x)). intro; subst; auto.
    + intro; subst. rewrite key_eqb_refl in E. discriminate.
Qed.

(* the exposed-encoder block of a network after one hook *)
Lemma run_hook_enc h (k : key) x : snd k = cEnc ->
  blk (snd (run_hook h x)) k = if memN (fst k) (hook_others h) then [] else blk (snd x) k.
Proof.
  intros Hk. destruct h as [e t|p others|]; unfold run_hook; cbn [hook_others memN existsb].
  - match goal with |- context [if ?b then _ else _] => destruct b end; auto.
    cbn [seqL fold_left]. unfold wcopy. repeat match goal with |- context [if ?b then _ else _] => destruct b end; reflexivity.
  - revert x. induction others as [|o r IH]; intros x; cbn [flat_map app memN existsb]; [reflexivity|].
    rewrite !seqL_cons. rewrite IH. clear IH. fold (memN (fst k) r).
    rewrite share_step by (cbn; rewrite Hk; discriminate).
    destruct k as [kn kc]. cbn [fst snd] in *. subst kc. unfold key_eqb. cbn [fst snd].
    rewrite (N.eqb_sym kn o). rewrite N.eqb_refl, andb_true_r.
    destruct (N.eqb o kn), (memN kn r); reflexivity.
  - apply (eff_other _ _ _ _ _ _ k (eff_realloc kExt (map (fun _ => FreshV) (blk (snd x) kExt)) false false false x)).
    intro; subst. discriminate.
Qed.

Lemma run_hooks_list_enc hs (k : key) : snd k = cEnc -> forall x,
  blk (snd (seqL (map run_hook hs) x)) k =
  if memN (fst k) (flat_map hook_others hs) then [] else blk (snd x) k.
Proof.
  intros Hk. induction hs as [|h r IH]; intros x; cbn [map flat_map]; [reflexivity|].
  rewrite seqL_cons, IH, run_hook_enc by auto.
  rewrite memN_app.
  destruct (memN (fst k) (hook_others h)), (memN (fst k) (flat_map hook_others r)); reflexivity.
Qed.

Lemma share_others_flat r : share_others r = flat_map hook_others (r_hooks r).
Proof. reflexivity. Qed.

Lemma run_hooks_enc (k : key) x : snd k = cEnc ->
  blk (snd (run_hooks x)) k = if memN (fst k) (share_others (a_reg (snd x))) then [] else blk (snd x) k.
Proof. intros Hk. unfold run_hooks. rewrite run_hooks_list_enc by auto. reflexivity. Qed.

Lemma eff_run_hooks x : eff Thook false false false x (run_hooks x).
Proof.
  unfold run_hooks. apply eff_seqL. apply Forall_forall. intros f Hf. apply in_map_iff in Hf as (h & <- & _).
  intros y. apply eff_run_hook.
Qed.

Lemma run_hooks_hooked x : hooked (snd (run_hooks x)).
Proof.
  intros o Ho. rewrite run_hooks_enc by reflexivity. destruct (eff_run_hooks x) as (_ & _ & _ & R & _).
  rewrite R in Ho. apply memN_In in Ho. cbn [fst]. rewrite Ho. reflexivity.
Qed.

(* ---------------------------------------------------------------------------------------------- *)
(* 6. association lists *)
Lemma lookupN_idem {A} (d : A) n l : lookupN (lookupN d n l) n l = lookupN d n l.
Proof.
  induction l as [|[k v] r IH]; cbn [lookupN]; auto. destruct (N.eqb n k); auto.
Qed.

Lemma lookupN_setN_other {A} (d : A) n m v l : n <> m -> lookupN d n (setN m v l) = lookupN d n l.
Proof.
  intros Hne. unfold setN. induction l as [|[k w] r IH]; cbn [map lookupN fst]; auto.
  destruct (N.eqb_spec m k) as [->|Hmk]; cbn [lookupN].
  - destruct (N.eqb_spec n k); [contradiction|]. auto.
  - destruct (N.eqb n k); auto.
Qed.

Lemma lookupN_setN_same {A} (d : A) m v l : In m (map fst l) -> lookupN d m (setN m v l) = v.
Proof.
  unfold setN. induction l as [|[k w] r IH]; cbn [map lookupN fst In]; [contradiction|].
  intros H. destruct (N.eqb_spec m k) as [->|Hmk]; cbn [lookupN].
  - rewrite N.eqb_refl. reflexivity.
  - destruct (N.eqb_spec m k); [contradiction|]. apply IH. destruct H; [congruence|auto].
Qed.

Lemma setN_keys {A} m (v : A) l : map fst (setN m v l) = map fst l.
Proof. unfold setN. rewrite map_map. apply map_ext. intros [k w]. cbn. destruct (N.eqb m k); reflexivity. Qed.

(* ---------------------------------------------------------------------------------------------- *)
(* 7. optimizers *)
Definition enc_head_same (a a' : agent) : Prop :=
  forall k, snd k = cEnc \/ snd k = cHead -> blk a' k = blk a k.

Lemma exposed_same a a' n : enc_head_same a a' -> exposed a' n = exposed a n.
Proof. intros H. unfold exposed. rewrite !H; auto. Qed.

Lemma want_refs_same a a' c : enc_head_same a a' -> want_refs a' c = want_refs a c.
Proof. intros H. unfold want_refs. f_equal. apply map_ext. intros n. apply exposed_same; auto. Qed.

Lemma same_refs_refl l : same_refs l l.
Proof. unfold same_refs. repeat split; auto; apply incl_refl. Qed.

Lemma opt_ok_transfer a a' o :
  a_reg a' = a_reg a -> a_hps a' = a_hps a ->
  (forall c, find_optcfg (a_reg a) (o_name o) = Some c -> want_refs a' c = want_refs a c) ->
  opt_ok a o -> opt_ok a' o.
Proof.
  intros R Hh W (c & F & S & L). exists c. rewrite R, Hh, (W c F). auto.
Qed.

(* the optimizer record that Mutations.reinit_opt builds for configuration list cs *)
Definition reopt (cs : list optcfg) (a : agent) (o : opt) : opt :=
  match find (fun c => N.eqb (oc_name c) (o_name o)) cs with
  | Some c => mkOpt (o_name o) (lookupN (o_lr o) (oc_lr c) (a_hps a)) (want_refs a c)
  | None => o
  end.

Definition Tost (k : key) : Prop := snd k = cOst.

Lemma eff_reinit_one c x : eff Tost true false false x (reinit_one c x).
Proof.
  unfold reinit_one. rewrite !seqL_cons, seqL_nil.
  apply (eff_trans _ _ _ _ x (realloc (oc_name c, cOst) [] x)); [unfold Tost; effw|].
  unfold pure. repeat split; auto; discriminate.
Qed.

Lemma find_none_name cs n : ~ In n (map oc_name cs) -> find (fun c => N.eqb (oc_name c) n) cs = None.
Proof.
  induction cs as [|c r IH]; cbn [map In find]; auto. intros H.
  destruct (N.eqb_spec (oc_name c) n); [exfalso; apply H; auto|]. apply IH. intro; apply H; auto.
Qed.

Lemma enc_head_not_ost (x y : lstate) fo fh fa : eff Tost fo fh fa x y -> enc_head_same (snd x) (snd y).
Proof.
  intros E k Hk. apply (eff_other _ _ _ _ _ _ k E). unfold Tost. destruct Hk as [Hk|Hk]; rewrite Hk; discriminate.
Qed.

Lemma reinit_list cs : NoDup (map oc_name cs) -> forall x,
  eff Tost true false false x (seqL (map reinit_one cs) x) /\
  a_opts (snd (seqL (map reinit_one cs) x)) = map (reopt cs (snd x)) (a_opts (snd x)).
Proof.
  induction cs as [|c r IH]; intros ND x; cbn [map].
  - rewrite seqL_nil. split; [apply eff_refl|]. unfold reopt. cbn [find]. rewrite map_id. reflexivity.
  - inversion ND as [|? ? Hn ND']; subst. rewrite seqL_cons.
    destruct (IH ND' (reinit_one c x)) as [E1 O1].
    pose proof (eff_reinit_one c x) as E0.
    split; [eapply eff_trans; eauto|].
    rewrite O1.
    (* the optimizers after reinit_one c *)
    assert (O0 : a_opts (snd (reinit_one c x)) =
                 map (fun o => if N.eqb (o_name o) (oc_name c)
                               then mkOpt (o_name o) (lookupN (o_lr o) (oc_lr c) (a_hps (snd x))) (want_refs (snd x) c)
                               else o) (a_opts (snd x))).
    { unfold reinit_one. rewrite !seqL_cons, seqL_nil. unfold pure. cbn [snd fst with_opts a_opts].
      set (y := realloc (oc_name c, cOst) [] x).
      assert (Ey : eff Tost false false false x y) by (unfold y, Tost; effw).
      destruct Ey as (Y1 & Y2 & _ & _ & _ & _). rewrite Y1, Y2 by auto.
      apply map_ext. intros o. destruct (N.eqb (o_name o) (oc_name c)); auto.
      f_equal. apply want_refs_same. apply (enc_head_not_ost x y false false false). unfold y, Tost; effw. }
    rewrite O0, map_map. apply map_ext. intros o.
    pose proof (enc_head_not_ost _ _ _ _ _ E0) as EH.
    destruct E0 as (_ & H0 & _ & _ & _ & _). specialize (H0 eq_refl).
    unfold reopt at 2. cbn [find]. rewrite (N.eqb_sym (oc_name c) (o_name o)).
    destruct (N.eqb_spec (o_name o) (oc_name c)) as [En|En].
    + unfold reopt. cbn [o_name]. rewrite find_none_name by (rewrite En; auto). reflexivity.
    + unfold reopt. destruct (find (fun c0 => N.eqb (oc_name c0) (o_name o)) r) as [c'|]; auto.
      rewrite H0. f_equal. apply want_refs_same; auto.
Qed.

Lemma filter_true {A} (l : list A) : filter (fun _ => true) l = l.
Proof. induction l; cbn; congruence. Qed.

Lemma NoDup_map_filter {A B} (f : A -> B) p (l : list A) : NoDup (map f l) -> NoDup (map f (filter p l)).
Proof.
  induction l as [|a r IH]; cbn [map filter]; auto. intros H. inversion H; subst.
  destruct (p a); cbn [map]; auto. constructor; auto.
  intro Hin. apply H2. apply in_map_iff in Hin as (y & <- & Hy). apply filter_In in Hy as [Hy _]. apply in_map; auto.
Qed.

Lemma find_optcfg_spec r n c : find_optcfg r n = Some c -> In c (r_opts r) /\ oc_name c = n.
Proof.
  unfold find_optcfg. intros H. apply find_some in H as [H1 H2]. apply N.eqb_eq in H2. auto.
Qed.

(* with unique names, looking a name up in a filtered configuration list *)
Lemma find_filter_unique cs p n c :
  NoDup (map oc_name cs) -> find (fun c => N.eqb (oc_name c) n) cs = Some c ->
  find (fun c => N.eqb (oc_name c) n) (filter p cs) = if p c then Some c else None.
Proof.
  induction cs as [|d r IH]; cbn [map find filter]; [discriminate|]. intros ND F. inversion ND; subst.
  destruct (N.eqb_spec (oc_name d) n) as [En|En].
  - injection F as <-. destruct (p d); cbn [find].
    + rewrite En, N.eqb_refl. reflexivity.
    + apply find_none_name. intro Hin. apply H1. rewrite En.
      apply in_map_iff in Hin as (y & Ey & Hy). apply filter_In in Hy as [Hy _]. rewrite <- Ey. apply in_map; auto.
  - destruct (p d); cbn [find]; [destruct (N.eqb_spec (oc_name d) n); [contradiction|]|]; apply IH; auto.
Qed.

Lemma reinit_opts_spec which x :
  NoDup (map oc_name (r_opts (a_reg (snd x)))) ->
  eff Tost true false false x (reinit_opts which x) /\
  a_opts (snd (reinit_opts which x)) = map (reopt (filter which (r_opts (a_reg (snd x)))) (snd x)) (a_opts (snd x)).
Proof. intros ND. unfold reinit_opts. apply reinit_list. apply NoDup_map_filter; auto. Qed.
