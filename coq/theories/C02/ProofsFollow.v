(* C02/ProofsFollow.v — right after Mutations.mutation re-created the shared networks, a shared/target network holds,
   cell by cell, the contents of the evaluation network it shadows (head parameters, constants, size lists, buffers). *)
From Coq Require Import List NArith QArith Bool Lia.
From AgileV Require Import Evo.Heap Evo.Evo Evo.EvoProofs C02.Model C02.Proofs.
Import ListNotations.
Open Scope N_scope.

Lemma getb_setb_same k v bs : In k (map fst bs) -> getb k (setb k v bs) = v.
Proof.
  induction bs as [|kv r IH]; cbn [map In setb getb]; [contradiction|]. intros H.
  destruct (key_eqb k (fst kv)) eqn:E; cbn [getb fst snd]; rewrite E; auto.
  apply IH. destruct H as [H|H]; auto. subst. rewrite key_eqb_refl in E. discriminate.
Qed.

Lemma realloc_store k srcs y : fst (realloc k srcs y) = fst (alloc (fst y) srcs).
Proof. unfold realloc. destruct (alloc (fst y) srcs). reflexivity. Qed.

Lemma realloc_keys k srcs y : map fst (a_blocks (snd (realloc k srcs y))) = map fst (a_blocks (snd y)).
Proof. rewrite realloc_agent. cbn [with_blocks a_blocks]. apply setb_keys. Qed.

Lemma realloc_blk_other k k' srcs y : k' <> k -> blk (snd (realloc k srcs y)) k' = blk (snd y) k'.
Proof. intros H. apply (eff_other _ _ _ _ _ _ k' (eff_realloc k srcs false false false y)). auto. Qed.

Section Follow.
  Variables (e s : name) (c : N).
  Hypothesis Hes : e <> s.
  Let kt : key := (s, c).
  Let ks : key := (e, c).

  Definition has_key (k : key) (y : lstate) : Prop := In k (map fst (a_blocks (snd y))).
  Definition bnd (y : lstate) (ls : list loc) : Prop := Forall (fun l => l < s_next (fst y)) ls.
  Definition EqC (y : lstate) : Prop :=
    map (rd (fst y)) (blk (snd y) kt) = map (rd (fst y)) (blk (snd y) ks) /\ bnd y (blk (snd y) kt) /\ bnd y (blk (snd y) ks).
  Definition PreC (L : list loc) (y : lstate) : Prop := has_key kt y /\ blk (snd y) ks = L /\ bnd y L.

  Inductive okstep : (lstate -> lstate) -> Prop :=
  | ok_realloc k srcs : k <> kt -> k <> ks -> okstep (realloc k srcs)
  | ok_pure g : okstep (pure (fun a' => with_arch a' (g a'))).

  Lemma bnd_mono y y' ls : s_next (fst y) <= s_next (fst y') -> bnd y ls -> bnd y' ls.
  Proof. unfold bnd. intros H. apply Forall_impl. intros; lia. Qed.

  Lemma realloc_next k srcs y : s_next (fst y) <= s_next (fst (realloc k srcs y)).
  Proof. rewrite realloc_store, alloc_next. lia. Qed.

  Lemma realloc_rd k srcs y ls : bnd y ls -> map (rd (fst (realloc k srcs y))) ls = map (rd (fst y)) ls.
  Proof.
    intros B. rewrite realloc_store. apply map_ext_in. intros l Hl. apply alloc_frame.
    unfold bnd in B. rewrite Forall_forall in B. auto.
  Qed.

  Lemma okstep_Pre L f y : okstep f -> PreC L y -> PreC L (f y).
  Proof.
    intros [k srcs H1 H2|g] (K & B & Bd).
    - split; [|split].
      + unfold has_key. rewrite realloc_keys. auto.
      + rewrite realloc_blk_other; auto.
      + eapply bnd_mono; [apply realloc_next|auto].
    - split; [|split]; auto.
  Qed.

  Lemma okstep_Eq f y : okstep f -> EqC y -> EqC (f y).
  Proof.
    intros [k srcs H1 H2|g] (E & B1 & B2).
    - unfold EqC. rewrite !realloc_blk_other by auto. rewrite !realloc_rd by auto.
      split; [auto|]. split; eapply bnd_mono; try apply realloc_next; auto.
    - exact (conj E (conj B1 B2)).
  Qed.

  Lemma seqL_Pre L fs : Forall okstep fs -> forall y, PreC L y -> PreC L (seqL fs y).
  Proof.
    induction fs as [|f r IH]; intros H y P; [exact P|]. inversion H; subst. rewrite seqL_cons. apply IH; auto.
    apply okstep_Pre; auto.
  Qed.

  Lemma seqL_Eq fs : Forall okstep fs -> forall y, EqC y -> EqC (seqL fs y).
  Proof.
    induction fs as [|f r IH]; intros H y P; [exact P|]. inversion H; subst. rewrite seqL_cons. apply IH; auto.
    apply okstep_Eq; auto.
  Qed.

  Lemma establish L y : PreC L y -> EqC (realloc kt (map CopyOf L) y).
  Proof.
    intros (K & B & Bd).
    assert (Hne : ks <> kt) by (unfold ks, kt; intro E; inversion E; contradiction).
    pose proof (alloc_locs (map CopyOf L) (fst y)) as HL. pose proof (alloc_next (map CopyOf L) (fst y)) as HN.
    pose proof (alloc_copy_content L (fst y) Bd) as HC.
    assert (Bt : blk (snd (realloc kt (map CopyOf L) y)) kt = snd (alloc (fst y) (map CopyOf L))).
    { rewrite realloc_agent. unfold blk. cbn [with_blocks a_blocks]. apply getb_setb_same. exact K. }
    unfold EqC, bnd. rewrite Bt. rewrite (realloc_blk_other kt ks) by auto. rewrite B.
    rewrite (realloc_rd kt (map CopyOf L) y L Bd). rewrite !realloc_store. split; [exact HC|]. split.
    - rewrite HL. apply Forall_forall. intros l Hl. apply in_nseq in Hl. rewrite HN. lia.
    - unfold bnd in Bd. eapply Forall_impl; [|exact Bd]. cbn beta. intros l Hl. rewrite HN. lia.
  Qed.
End Follow.

(* ---- one re-creation ---------------------------------------------------------------------------- *)
Ltac okr := apply ok_realloc; intro E; inversion E; try contradiction; try discriminate; subst; try contradiction; try congruence.

Lemma rb_steps_ok e s c e' s' y : s' <> s -> s' <> e ->
  exists fs, rebuild_shared_one e' s' y = seqL fs y /\ Forall (okstep e s c) fs.
Proof.
  intros H1 H2. unfold rebuild_shared_one. cbv zeta. eexists. split; [reflexivity|].
  repeat (apply Forall_cons; [first [okr | apply ok_pure]|]). apply Forall_nil.
Qed.

Lemma rb_other_Eq e s c e' s' y : e <> s -> s' <> s -> s' <> e -> EqC e s c y -> EqC e s c (rebuild_shared_one e' s' y).
Proof. intros Hes H1 H2 H. destruct (rb_steps_ok e s c e' s' y H1 H2) as (fs & -> & F). apply seqL_Eq; auto. Qed.

Lemma rb_other_Pre e s c L e' s' y : e <> s -> s' <> s -> s' <> e -> PreC e s c L y -> PreC e s c L (rebuild_shared_one e' s' y).
Proof. intros Hes H1 H2 H. destruct (rb_steps_ok e s c e' s' y H1 H2) as (fs & -> & F). apply seqL_Pre; auto. Qed.

Definition copied_class (c : N) : Prop := c = cHead \/ c = cConst \/ c = cCfg \/ c = cBuf.

Lemma rb_own e s c y : e <> s -> copied_class c ->
  PreC e s c (blk (snd y) (e, c)) y -> EqC e s c (rebuild_shared_one e s y).
Proof.
  intros Hes Hc P. unfold rebuild_shared_one. cbv zeta.
  destruct Hc as [-> | [-> | [-> | ->]]].
  - match goal with |- EqC _ _ _ (seqL [?r1; ?r2; ?r3; ?r4; ?r5; ?r6; ?p] y) =>
      change (seqL [r1; r2; r3; r4; r5; r6; p] y) with (seqL [r3; r4; r5; r6; p] (r2 (seqL [r1] y))) end.
    apply seqL_Eq; [exact Hes| |].
    + repeat (apply Forall_cons; [first [okr | apply ok_pure]|]). apply Forall_nil.
    + apply (establish e s cHead Hes). apply seqL_Pre; auto.
      repeat (apply Forall_cons; [first [okr | apply ok_pure]|]). apply Forall_nil.
  - match goal with |- EqC _ _ _ (seqL [?r1; ?r2; ?r3; ?r4; ?r5; ?r6; ?p] y) =>
      change (seqL [r1; r2; r3; r4; r5; r6; p] y) with (seqL [r5; r6; p] (r4 (seqL [r1; r2; r3] y))) end.
    apply seqL_Eq; [exact Hes| |].
    + repeat (apply Forall_cons; [first [okr | apply ok_pure]|]). apply Forall_nil.
    + apply (establish e s cConst Hes). apply seqL_Pre; auto.
      repeat (apply Forall_cons; [first [okr | apply ok_pure]|]). apply Forall_nil.
  - match goal with |- EqC _ _ _ (seqL [?r1; ?r2; ?r3; ?r4; ?r5; ?r6; ?p] y) =>
      change (seqL [r1; r2; r3; r4; r5; r6; p] y) with (seqL [r6; p] (r5 (seqL [r1; r2; r3; r4] y))) end.
    apply seqL_Eq; [exact Hes| |].
    + repeat (apply Forall_cons; [first [okr | apply ok_pure]|]). apply Forall_nil.
    + apply (establish e s cCfg Hes). apply seqL_Pre; auto.
      repeat (apply Forall_cons; [first [okr | apply ok_pure]|]). apply Forall_nil.
  - match goal with |- EqC _ _ _ (seqL [?r1; ?r2; ?r3; ?r4; ?r5; ?r6; ?p] y) =>
      change (seqL [r1; r2; r3; r4; r5; r6; p] y) with (seqL [p] (r6 (seqL [r1; r2; r3; r4; r5] y))) end.
    apply seqL_Eq; [exact Hes| |].
    + repeat (apply Forall_cons; [first [okr | apply ok_pure]|]). apply Forall_nil.
    + apply (establish e s cBuf Hes). apply seqL_Pre; auto.
      repeat (apply Forall_cons; [first [okr | apply ok_pure]|]). apply Forall_nil.
Qed.

(* ---- all re-creations of one individual ----------------------------------------------------------- *)
Lemma rest_Eq e s c r : e <> s -> Forall (fun q : name * name => snd q <> s /\ snd q <> e) r ->
  forall y, EqC e s c y -> EqC e s c (seqL (map rb_pair r) y).
Proof.
  intros Hes. induction r as [|q r IH]; intros H y E; [exact E|]. inversion H as [|? ? [H1 H2] H']; subst.
  cbn [map]. rewrite seqL_cons. apply IH; auto. unfold rb_pair. apply rb_other_Eq; auto.
Qed.

Lemma pairs_follow c ps : copied_class c -> NoDup (map snd ps) ->
  (forall p q, In p ps -> In q ps -> fst p <> snd q) ->
  forall y, (forall p, In p ps -> PreC (fst p) (snd p) c (blk (snd y) (fst p, c)) y) ->
  forall p, In p ps -> EqC (fst p) (snd p) c (seqL (map rb_pair ps) y).
Proof.
  intros Hc. induction ps as [|p0 r IH]; intros ND D y Pre p Hp; [contradiction|].
  cbn [map] in *. rewrite seqL_cons. inversion ND as [|? ? Hn ND']; subst.
  destruct Hp as [<-|Hp].
  - apply rest_Eq.
    + apply D; left; auto.
    + apply Forall_forall. intros q Hq. split.
      * intro E. apply Hn. rewrite <- E. apply in_map; auto.
      * intro E. apply (D p0 q); [left; auto|right; auto|auto].
    + unfold rb_pair. apply rb_own; auto.
      * apply D; left; auto.
      * apply Pre. left; auto.
  - apply IH; auto.
    + intros a b Ha Hb. apply D; right; auto.
    + intros q Hq. specialize (Pre q (or_intror Hq)).
      assert (Hq1 : snd p0 <> snd q).
      { intro E. apply Hn. rewrite E. apply in_map; auto. }
      assert (Hq2 : snd p0 <> fst q).
      { intro E. apply (D q p0); [right; auto|left; auto|auto]. }
      assert (Hq0 : fst q <> snd q) by (apply D; right; auto).
      pose proof (rb_other_Pre (fst q) (snd q) c _ (fst p0) (snd p0) y Hq0 Hq1 Hq2 Pre) as P1.
      unfold rb_pair. destruct P1 as (K1 & B1 & Bd1). split; [exact K1|]. split; [reflexivity|].
      rewrite B1. exact Bd1.
Qed.

Lemma shared_weights_follow_lemma (x : lstate) (c : N) :
  copied_class c -> WfReg (a_reg (snd x)) ->
  Forall (fun l => l < s_next (fst x)) (agent_locs (snd x)) ->
  (forall s, In s (shared_names (a_reg (snd x))) -> has_key (s, c) x) ->
  forall g s, In g (r_groups (a_reg (snd x))) -> In s (g_shared g) ->
  map (rd (fst (rebuild_shared x))) (blk (snd (rebuild_shared x)) (s, c)) =
  map (rd (fst (rebuild_shared x))) (blk (snd (rebuild_shared x)) (g_eval g, c)).
Proof.
  intros Hc W B K g s Hg Hs. rewrite rebuild_shared_pairs.
  set (ps := spairs (r_groups (a_reg (snd x)))).
  assert (Hp : In (g_eval g, s) ps).
  { unfold ps, spairs. apply in_flat_map. exists g. split; auto. apply in_map; auto. }
  assert (E : EqC (g_eval g) s c (seqL (map rb_pair ps) x)).
  { apply (pairs_follow c ps Hc) with (p := (g_eval g, s)); auto.
    - unfold ps. rewrite spairs_snd. apply (wf_shared_nodup _ W).
    - intros p q Hp' Hq E. apply (wf_shared_not_eval _ W (snd q)).
      + unfold shared_names. rewrite <- spairs_snd. apply in_map; auto.
      + rewrite <- E. apply spairs_fst; auto.
    - intros p Hp'. split; [|split; [reflexivity|]].
      + apply K. unfold shared_names. rewrite <- spairs_snd. apply in_map; auto.
      + unfold bnd. apply Forall_forall. intros l Hl. rewrite Forall_forall in B. apply B.
        unfold blk in Hl. eapply getb_incl; eauto. }
  destruct E as (E & _). exact E.
Qed.

(* ---- optimizers never point into another member ---------------------------------------------------- *)
Lemma refs_own_cells_only_lemma (w : world) (ops : list op) :
  WF w -> WfRegs w -> AllCoherent w ->
  forall i j a b o l, nth_error (w_pop (run w ops)) i = Some a -> nth_error (w_pop (run w ops)) j = Some b -> i <> j ->
  In o (a_opts a) -> In l (o_refs o) -> In l (agent_locs a) /\ ~ In l (agent_locs b).
Proof.
  intros HW H1 H2 i j a b o l Hi Hj Hne Ho Hl.
  pose proof (all_refs_live_lemma w ops H1 H2 a (nth_error_In _ _ Hi) o l Ho Hl) as Live.
  split; auto. destruct (run_WF ops w HW) as [ND _]. unfold all_locs in ND.
  apply (NoDup_concat_disjoint (map agent_locs (w_pop (run w ops))) i j (agent_locs a) (agent_locs b) l); auto.
  - rewrite nth_error_map, Hi. reflexivity.
  - rewrite nth_error_map, Hj. reflexivity.
Qed.

(* ---- the state right after the whole mutation, for registries without mutation hooks ---------------- *)
Definition kkeep (f : lstate -> lstate) : Prop :=
  forall x, map fst (a_blocks (snd (f x))) = map fst (a_blocks (snd x)).

Lemma kkeep_realloc k srcs : kkeep (realloc k srcs).
Proof. intros x. apply realloc_keys. Qed.
Lemma kkeep_wfresh k : kkeep (wfresh k).
Proof. intros x. reflexivity. Qed.
Lemma kkeep_wcopy kd ks : kkeep (wcopy kd ks).
Proof. intros x. unfold wcopy. destruct (Nat.eqb _ _); reflexivity. Qed.
Lemma kkeep_pure f : (forall a, a_blocks (f a) = a_blocks a) -> kkeep (pure f).
Proof. intros H x. unfold pure. cbn [snd]. rewrite H. reflexivity. Qed.
Lemma kkeep_seqL fs : Forall kkeep fs -> kkeep (seqL fs).
Proof.
  induction fs as [|f r IH]; intros H x; [reflexivity|]. inversion H; subst. rewrite seqL_cons, (IH H3), (H2 x). reflexivity.
Qed.
Lemma kkeep_dep (F : lstate -> lstate -> lstate) : (forall y, kkeep (F y)) -> kkeep (fun x => F x x).
Proof. intros H x. exact (H x x). Qed.

Ltac kk := repeat first [ apply kkeep_realloc | apply kkeep_wfresh | apply kkeep_wcopy
                        | apply kkeep_pure; intros; reflexivity | apply Forall_nil | apply Forall_cons ].

Lemma kkeep_reinit_opts w : kkeep (reinit_opts w).
Proof.
  unfold reinit_opts. apply (kkeep_dep (fun y => seqL (map reinit_one (filter w (r_opts (a_reg (snd y))))))).
  intros y. apply kkeep_seqL. apply Forall_forall. intros f Hf. apply in_map_iff in Hf as (c & <- & _).
  unfold reinit_one. apply kkeep_seqL. kk.
Qed.

Lemma kkeep_run_hooks : kkeep run_hooks.
Proof.
  unfold run_hooks. apply (kkeep_dep (fun y => seqL (map run_hook (r_hooks (a_reg (snd y)))))).
  intros y. apply kkeep_seqL. apply Forall_forall. intros f Hf. apply in_map_iff in Hf as (h & <- & _).
  destruct h as [e t|p others|]; unfold run_hook.
  - intros x. match goal with |- context [if ?b then _ else _] => destruct b end; [|reflexivity].
    apply (kkeep_seqL [wcopy (t, cEnc) (e, cEnc); wcopy (t, cHead) (e, cHead); wcopy (t, cBuf) (e, cBuf)]). kk.
  - apply kkeep_seqL. induction others as [|o r IH]; cbn [flat_map app]; [constructor|].
    apply Forall_cons; [|apply Forall_cons; [|apply Forall_cons; [|exact IH]]].
    + apply (kkeep_dep (fun y0 => realloc (o, cHenc) (map CopyOf (blk (snd y0) (p, cEnc))))). intros; apply kkeep_realloc.
    + apply kkeep_realloc.
    + apply kkeep_wfresh.
  - apply (kkeep_dep (fun y0 => realloc kExt (map (fun _ => FreshV) (blk (snd y0) kExt)))). intros; apply kkeep_realloc.
Qed.

Lemma kkeep_rebuild_eval sh : kkeep (rebuild_eval sh).
Proof. unfold rebuild_eval. apply kkeep_seqL. kk. Qed.

Lemma kkeep_rebuild_evals shs : kkeep (seqL (map rebuild_eval shs)).
Proof. apply kkeep_seqL. apply Forall_forall. intros f Hf. apply in_map_iff in Hf as (sh & <- & _). apply kkeep_rebuild_eval. Qed.

Lemma kkeep_mutate_kind k sh : kkeep (mutate_kind k sh).
Proof.
  destruct k as [| | | |h v]; unfold mutate_kind.
  - intros x. reflexivity.
  - apply kkeep_seqL. apply Forall_app. split.
    + apply Forall_forall. intros f Hf. apply in_map_iff in Hf as (s & <- & _). apply kkeep_rebuild_eval.
    + constructor; [apply kkeep_run_hooks|constructor; [apply kkeep_reinit_opts|constructor]].
  - apply (kkeep_dep (fun y => seqL [wfresh (policy_name (a_reg (snd y)), cEnc); wfresh (policy_name (a_reg (snd y)), cHead);
                                      wfresh (policy_name (a_reg (snd y)), cBuf); reinit_opts (fun _ => true)])).
    intros y. apply kkeep_seqL. repeat (apply Forall_cons; [first [apply kkeep_wfresh|apply kkeep_reinit_opts]|]). apply Forall_nil.
  - intros x. destruct (r_act_skip (a_reg (snd x))); [reflexivity|].
    apply (kkeep_seqL (map rebuild_eval sh ++ [reinit_opts (fun _ => true)])). apply Forall_app. split.
    + apply Forall_forall. intros f Hf. apply in_map_iff in Hf as (s & <- & _). apply kkeep_rebuild_eval.
    + constructor; [apply kkeep_reinit_opts|constructor].
  - apply kkeep_seqL. constructor; [apply kkeep_pure; intros; reflexivity|].
    constructor; [apply kkeep_wfresh|]. constructor; [apply kkeep_reinit_opts|constructor].
Qed.

Lemma local_ok_bounded f x : local_ok f -> bounded (fst x) (agent_locs (snd x)) -> bounded (fst (f x)) (agent_locs (snd (f x))).
Proof.
  intros Hf B. destruct (Hf x) as (F1 & F2 & _ & _). apply Forall_forall. intros l Hl.
  destruct (F2 l Hl) as [H|H]; [|lia]. unfold bounded in B. rewrite Forall_forall in B. specialize (B l H). lia.
Qed.

Lemma mutation_weights_follow_nohooks_lemma k sh label s a c :
  copied_class c -> wf_registry (a_reg a) = true -> r_hooks (a_reg a) = [] ->
  Forall (fun l => l < s_next s) (agent_locs a) ->
  (forall n, In n (shared_names (a_reg a)) -> In (n, c) (map fst (a_blocks a))) ->
  forall g n, In g (r_groups (a_reg a)) -> In n (g_shared g) ->
  let x' := mutate_agent k sh label (s, a) in
  map (rd (fst x')) (blk (snd x') (n, c)) = map (rd (fst x')) (blk (snd x') (g_eval g, c)).
Proof.
  intros Hc Wb Hh B K g n Hg Hn. cbv zeta. apply wf_registry_WfReg in Wb.
  unfold mutate_agent. rewrite !seqL_cons, seqL_nil.
  set (x1 := mutate_kind k sh (s, a)).
  assert (R1 : a_reg (snd x1) = a_reg a).
  { destruct (eff_mutate_kind k sh (s, a)) as (_ & _ & _ & R & _). exact R. }
  assert (Hrh : forall y, a_reg (snd y) = a_reg a -> run_hooks y = y).
  { intros y Ry. unfold run_hooks. rewrite Ry, Hh. reflexivity. }
  rewrite Hrh.
  2:{ destruct (eff_rebuild_shared x1) as (_ & _ & _ & R & _). congruence. }
  unfold pure. cbn [fst snd]. change (blk (with_mut (snd (rebuild_shared x1)) label)) with (blk (snd (rebuild_shared x1))).
  apply shared_weights_follow_lemma; auto.
  - rewrite R1. auto.
  - apply (local_ok_bounded (mutate_kind k sh) (s, a)); [apply local_ok_mutate_kind|exact B].
  - intros m Hm. rewrite R1 in Hm. unfold has_key. unfold x1. rewrite (kkeep_mutate_kind k sh (s, a)). cbn [snd]. auto.
  - rewrite R1. auto.
Qed.

(* ---- the network attributes of an individual are the same before and after any mutation ------------- *)
Definition akeep (f : lstate -> lstate) : Prop := forall x, net_names (snd (f x)) = net_names (snd x).

Lemma akeep_realloc k srcs : akeep (realloc k srcs).
Proof. intros x. rewrite realloc_agent. reflexivity. Qed.
Lemma akeep_wfresh k : akeep (wfresh k).
Proof. intros x. reflexivity. Qed.
Lemma akeep_wcopy kd ks : akeep (wcopy kd ks).
Proof. intros x. unfold wcopy. destruct (Nat.eqb _ _); reflexivity. Qed.
Lemma akeep_pure f : (forall a, net_names (f a) = net_names a) -> akeep (pure f).
Proof. intros H x. unfold pure. cbn [snd]. apply H. Qed.
Lemma akeep_pure_setN (g : agent -> name * N) : akeep (pure (fun a => with_arch a (setN (fst (g a)) (snd (g a)) (a_arch a)))).
Proof. apply akeep_pure. intros a. unfold net_names. cbn [with_arch a_arch]. apply setN_keys. Qed.
Lemma akeep_seqL fs : Forall akeep fs -> akeep (seqL fs).
Proof.
  induction fs as [|f r IH]; intros H x; [reflexivity|]. inversion H; subst. rewrite seqL_cons, (IH H3), (H2 x). reflexivity.
Qed.
Lemma akeep_dep (F : lstate -> lstate -> lstate) : (forall y, akeep (F y)) -> akeep (fun x => F x x).
Proof. intros H x. exact (H x x). Qed.

Ltac ak := repeat first [ apply akeep_realloc | apply akeep_wfresh | apply akeep_wcopy
                        | apply akeep_pure; intros; reflexivity | apply Forall_nil | apply Forall_cons ].

Lemma akeep_reinit_opts w : akeep (reinit_opts w).
Proof.
  unfold reinit_opts. apply (akeep_dep (fun y => seqL (map reinit_one (filter w (r_opts (a_reg (snd y))))))).
  intros y. apply akeep_seqL. apply Forall_forall. intros f Hf. apply in_map_iff in Hf as (c & <- & _).
  unfold reinit_one. apply akeep_seqL. ak.
Qed.

Lemma akeep_run_hooks : akeep run_hooks.
Proof.
  unfold run_hooks. apply (akeep_dep (fun y => seqL (map run_hook (r_hooks (a_reg (snd y)))))).
  intros y. apply akeep_seqL. apply Forall_forall. intros f Hf. apply in_map_iff in Hf as (h & <- & _).
  destruct h as [e t|p others|]; unfold run_hook.
  - intros x. match goal with |- context [if ?b then _ else _] => destruct b end; [|reflexivity].
    apply (akeep_seqL [wcopy (t, cEnc) (e, cEnc); wcopy (t, cHead) (e, cHead); wcopy (t, cBuf) (e, cBuf)]). ak.
  - apply akeep_seqL. induction others as [|o r IH]; cbn [flat_map app]; [constructor|].
    apply Forall_cons; [|apply Forall_cons; [|apply Forall_cons; [|exact IH]]].
    + apply (akeep_dep (fun y0 => realloc (o, cHenc) (map CopyOf (blk (snd y0) (p, cEnc))))). intros; apply akeep_realloc.
    + apply akeep_realloc.
    + apply akeep_wfresh.
  - apply (akeep_dep (fun y0 => realloc kExt (map (fun _ => FreshV) (blk (snd y0) kExt)))). intros; apply akeep_realloc.
Qed.

Lemma akeep_rebuild_eval sh : akeep (rebuild_eval sh).
Proof.
  unfold rebuild_eval. apply akeep_seqL.
  repeat (apply Forall_cons; [first [apply akeep_realloc | apply (akeep_pure_setN (fun _ => (ns_name sh, ns_arch sh)))]|]). apply Forall_nil.
Qed.

Lemma akeep_rebuild_shared_one e s : akeep (rebuild_shared_one e s).
Proof.
  unfold rebuild_shared_one. apply (akeep_dep (fun y => seqL
     [ realloc (s, cEnc) (map CopyOf (blk (snd y) (e, cEnc)) ++ repeat FreshV (length (blk (snd y) (e, cHenc))));
       realloc (s, cHead) (map CopyOf (blk (snd y) (e, cHead)));
       realloc (s, cHenc) [];
       realloc (s, cConst) (map CopyOf (blk (snd y) (e, cConst)));
       realloc (s, cCfg) (map CopyOf (blk (snd y) (e, cCfg)));
       realloc (s, cBuf) (map CopyOf (blk (snd y) (e, cBuf)));
       pure (fun a' => with_arch a' (setN s (lookupN 0 e (a_arch a')) (a_arch a'))) ])).
  intros y. apply akeep_seqL.
  repeat (apply Forall_cons; [first [apply akeep_realloc | apply (akeep_pure_setN (fun a' => (s, lookupN 0 e (a_arch a'))))]|]). apply Forall_nil.
Qed.

Lemma akeep_rebuild_shared : akeep rebuild_shared.
Proof.
  unfold rebuild_shared.
  apply (akeep_dep (fun y => seqL (flat_map (fun g => map (fun s z => rebuild_shared_one (g_eval g) s z) (g_shared g))
                                            (r_groups (a_reg (snd y)))))).
  intros y. apply akeep_seqL. apply Forall_forall. intros f Hf. apply in_flat_map in Hf as (g & _ & Hf).
  apply in_map_iff in Hf as (s & <- & _). apply akeep_rebuild_shared_one.
Qed.

Lemma akeep_mutate_kind k sh : akeep (mutate_kind k sh).
Proof.
  destruct k as [| | | |h v]; unfold mutate_kind.
  - intros x. reflexivity.
  - apply akeep_seqL. apply Forall_app. split.
    + apply Forall_forall. intros f Hf. apply in_map_iff in Hf as (s & <- & _). apply akeep_rebuild_eval.
    + constructor; [apply akeep_run_hooks|constructor; [apply akeep_reinit_opts|constructor]].
  - apply (akeep_dep (fun y => seqL [wfresh (policy_name (a_reg (snd y)), cEnc); wfresh (policy_name (a_reg (snd y)), cHead);
                                      wfresh (policy_name (a_reg (snd y)), cBuf); reinit_opts (fun _ => true)])).
    intros y. apply akeep_seqL. repeat (apply Forall_cons; [first [apply akeep_wfresh|apply akeep_reinit_opts]|]). apply Forall_nil.
  - intros x. destruct (r_act_skip (a_reg (snd x))); [reflexivity|].
    apply (akeep_seqL (map rebuild_eval sh ++ [reinit_opts (fun _ => true)])). apply Forall_app. split.
    + apply Forall_forall. intros f Hf. apply in_map_iff in Hf as (s & <- & _). apply akeep_rebuild_eval.
    + constructor; [apply akeep_reinit_opts|constructor].
  - apply akeep_seqL. constructor; [apply akeep_pure; intros; reflexivity|].
    constructor; [apply akeep_wfresh|]. constructor; [apply akeep_reinit_opts|constructor].
Qed.

Lemma akeep_mutate_agent k sh label : akeep (mutate_agent k sh label).
Proof.
  unfold mutate_agent. apply akeep_seqL.
  constructor; [apply akeep_mutate_kind|]. constructor; [apply akeep_rebuild_shared|].
  constructor; [apply akeep_run_hooks|]. constructor; [apply akeep_pure; intros; reflexivity|constructor].
Qed.

(* MUTATE, THEN LEARN: after any mutation of a coherent individual, one learn step writes every cell an optimizer of the
   MUTATED individual references (no optimizer is left pointing at tensors that training does not reach) *)
Lemma learn_after_mutation_moves_lemma k sh label st s a :
  wf_registry (a_reg a) = true -> Coherent a ->
  (forall c n, In c (r_opts (a_reg a)) -> In n (oc_nets c) -> In n (net_names a)) ->
  Forall (fun l => l < s_next s) (agent_locs a) ->
  let x' := mutate_agent k sh label (s, a) in
  forall o l, In o (a_opts (snd x')) -> In l (o_refs o) ->
  s_fresh (fst x') <= rd (fst (learn_agent st x')) l.
Proof.
  intros W C Hn B. cbv zeta. intros o l Ho Hl.
  set (x' := mutate_agent k sh label (s, a)) in *.
  rewrite (surjective_pairing x'). apply (learn_moves_lemma st (fst x') (snd x') o l); auto.
  - apply mutate_agent_coherent; auto.
  - unfold x'. rewrite mutate_agent_reg, (akeep_mutate_agent k sh label (s, a)). cbn [snd]. exact Hn.
  - apply (local_ok_bounded (mutate_agent k sh label) (s, a)); [apply local_ok_mutate|exact B].
Qed.

(* Mutations.mutation(population) with fewer draws than members leaves the remaining members exactly as they were *)
Lemma mutate_from_after ds : forall i w j, (i + length ds <= j)%nat ->
  nth_error (w_pop (mutate_from i ds w)) j = nth_error (w_pop w) j.
Proof.
  induction ds as [|[[k sh] lab] r IH]; intros i w j H; cbn [mutate_from]; auto. cbn [length] in H.
  rewrite IH by lia. cbn [step]. unfold apply_local. destruct (nth_error (w_pop w) i); auto. cbn [w_pop].
  apply nth_error_update_ne. lia.
Qed.

(* ---- the executable coherence test is exactly the predicate ---------------------------------------- *)
Lemma Q_eqb_refl x : Q_eqb x x = true.
Proof. unfold Q_eqb. rewrite Z.eqb_refl, Pos.eqb_refl. reflexivity. Qed.

Lemma same_refs_b_complete l m : same_refs l m -> same_refs_b l m = true.
Proof.
  intros (L & I1 & I2). unfold same_refs_b. rewrite L, Nat.eqb_refl. cbn [andb].
  apply andb_true_iff. split; apply forallb_forall; intros x Hx; apply mem_In; auto.
Qed.

Lemma coherent_b_complete a : Coherent a -> coherent_b a = true.
Proof.
  intros (CO & CA & CH). unfold coherent_b. rewrite !andb_true_iff. split; [split|].
  - apply forallb_forall. intros o Ho. rewrite Forall_forall in CO. destruct (CO o Ho) as (c & F & S & L).
    unfold opt_ok_b. rewrite F. rewrite (same_refs_b_complete _ _ S). cbn [andb]. rewrite <- L. apply Q_eqb_refl.
  - unfold arch_ok_b. apply forallb_forall. intros g Hg. apply forallb_forall. intros s Hs.
    destruct (memN s (net_names a)) eqn:M; cbn [negb orb]; auto.
    apply memN_In in M. rewrite (CA g s Hg Hs M). apply N.eqb_refl.
  - unfold hooked_b. apply forallb_forall. intros o Ho. specialize (CH o Ho).
    match goal with |- (match ?t with _ => _ end) = true => replace t with (@nil loc); try (symmetry; exact CH); reflexivity end.
Qed.

Lemma coherent_b_iff a : coherent_b a = true <-> Coherent a.
Proof. split; [apply coherent_b_sound|apply coherent_b_complete]. Qed.
