(* C03 — proofs about the EvolvableCNN architecture machine. *)
From Coq Require Import List ZArith Bool String Lia.
Import ListNotations.
From AgileV Require Import C03.Model C03.ModelCnn C03.Proofs.
Local Open Scope Z_scope.
Notation length := List.length.

Definition cnn_meth_ok (m : cnn_meth) : Prop :=
  match m with
  | CAddChannel _ nn | CRemoveChannel _ nn => amount_ok nn
  | CChangeKernel ks _ => match ks with Some k => 1 <= k <= 9 | None => True end
  | _ => True
  end.

(* the three per-layer lists always have the same length *)
Definition cnn_wf (a : cnn_arch) : Prop :=
  zlen (kernels a) = zlen (channels a) /\ zlen (strides a) = zlen (channels a).

Lemma zlen_app {A} (l1 l2 : list A) : zlen (l1 ++ l2) = zlen l1 + zlen l2.
Proof. unfold zlen. rewrite app_length. lia. Qed.
Lemma zlen_updz l i f : zlen (updz l i f) = zlen l.
Proof. unfold zlen, updz. now rewrite upd_length. Qed.
Lemma zlen_removelast (l : list Z) : zlen (removelast l) = Z.max 0 (zlen l - 1).
Proof.
  destruct l as [|x l]; [reflexivity|]. rewrite removelast_length by discriminate.
  unfold zlen; cbn [length]; lia.
Qed.

Lemma channel_choices_nonneg r : 0 <= choose channel_choices r.
Proof.
  assert (H : In (choose channel_choices r) channel_choices) by (apply choose_In; discriminate).
  set (x := choose channel_choices r) in *. clearbody x. cbn in H. lia.
Qed.
Lemma cnn_channel_args_amount ch hl nn r1 r2 : amount_ok nn -> 0 <= snd (cnn_channel_args ch hl nn r1 r2).
Proof. destruct hl, nn; cbn [cnn_channel_args snd amount_ok]; intros H; auto; apply channel_choices_nonneg. Qed.

(* ---- add_channel / remove_channel only touch one entry of [channels] *)
Lemma cnn_add_channel_spec c a hl nn r1 r2 :
  let a' := arch_of (cnn_add_channel c a hl nn r1 r2) in
  kernels a' = kernels a /\ strides a' = strides a /\ zlen (channels a') = zlen (channels a) /\
  forall lo hi, lo <= c_min_ch c -> c_max_ch c <= hi -> amount_ok nn ->
    Forall (between lo hi) (channels a) -> Forall (between lo hi) (channels a').
Proof.
  unfold cnn_add_channel. pose proof (cnn_channel_args_amount (channels a) hl nn r1 r2) as Ha.
  destruct (cnn_channel_args (channels a) hl nn r1 r2) as [i n]. cbn [snd] in Ha. unfold arch_of; cbn [fst].
  destruct (Z.leb_spec (znth (channels a) i + n) (c_max_ch c)); cbn [channels kernels strides].
  - repeat split; auto using zlen_updz. intros lo hi Hlo Hhi Hn HF. unfold updz. apply upd_forall; auto. intros Hi.
    assert (between lo hi (nth (Z.to_nat i) (channels a) 0)) by (rewrite Forall_forall in HF; apply HF, nth_In, Hi).
    specialize (Ha Hn). unfold between, znth in *. lia.
  - repeat split; auto.
Qed.

Lemma cnn_remove_channel_spec c a hl nn r1 r2 :
  let a' := arch_of (cnn_remove_channel c a hl nn r1 r2) in
  kernels a' = kernels a /\ strides a' = strides a /\ zlen (channels a') = zlen (channels a) /\
  forall lo hi, lo <= c_min_ch c -> c_max_ch c <= hi -> amount_ok nn ->
    Forall (between lo hi) (channels a) -> Forall (between lo hi) (channels a').
Proof.
  unfold cnn_remove_channel. pose proof (cnn_channel_args_amount (channels a) hl nn r1 r2) as Ha.
  destruct (cnn_channel_args (channels a) hl nn r1 r2) as [i n]. cbn [snd] in Ha.
  destruct (Z.leb_spec (c_min_ch c) (znth (channels a) i - n)); unfold arch_of; cbn [fst channels kernels strides].
  - repeat split; auto using zlen_updz. intros lo hi Hlo Hhi Hn HF. unfold updz. apply upd_forall; auto. intros Hi.
    assert (between lo hi (nth (Z.to_nat i) (channels a) 0)) by (rewrite Forall_forall in HF; apply HF, nth_In, Hi).
    specialize (Ha Hn). unfold between, znth in *. lia.
  - repeat split; auto.
Qed.

(* the kernel and stride drawn for a new layer / a changed kernel *)
Lemma clip_kernel_range m : 1 <= clip_kernel m <= 9.
Proof. unfold clip_kernel. destruct (Z.leb_spec (Z.quot m 4) 0); [lia|]. destruct (Z.ltb_spec 9 (Z.quot m 4)); lia. Qed.
Lemma clip_kernel_le m : 1 <= m -> clip_kernel m <= m.
Proof.
  intros H. unfold clip_kernel. destruct (Z.leb_spec (Z.quot m 4) 0); [lia|]. destruct (Z.ltb_spec 9 (Z.quot m 4)).
  - assert (4 * Z.quot m 4 <= m) by (rewrite Z.quot_div_nonneg by lia; apply Z.mul_div_le; lia). lia.
  - assert (4 * Z.quot m 4 <= m) by (rewrite Z.quot_div_nonneg by lia; apply Z.mul_div_le; lia). lia.
Qed.
Lemma pick_range lo hi r : lo < hi -> lo <= pick lo hi r < hi.
Proof. intros H. unfold pick. pose proof (Z.mod_pos_bound r (hi - lo)). lia. Qed.

Lemma max_kernels_range h w ks ss : Forall (between 1 9) (max_kernels h w ks ss).
Proof. unfold max_kernels. apply Forall_forall. intros x Hx. apply in_map_iff in Hx. destruct Hx as (p & <- & _). apply clip_kernel_range. Qed.
Lemma last_max_kernels_range h w ks ss : 1 <= last (max_kernels h w ks ss) 1 <= 9.
Proof.
  pose proof (max_kernels_range h w ks ss) as HF. destruct (max_kernels h w ks ss) as [|x l] eqn:E; [cbn; lia|].
  rewrite Forall_forall in HF. apply HF. apply last_In. discriminate.
Qed.
Lemma znth_max_kernels_range h w ks ss i : 1 <= Z.max 1 (znth (max_kernels h w ks ss) i) <= 9.
Proof.
  pose proof (max_kernels_range h w ks ss) as HF. unfold znth.
  destruct (Nat.lt_ge_cases (Z.to_nat i) (length (max_kernels h w ks ss))).
  - rewrite Forall_forall in HF. specialize (HF _ (nth_In _ 0 H)). unfold between in HF. lia.
  - rewrite nth_overflow by lia. lia.
Qed.

Lemma fmaps_length ks : forall h w ss, length (fmaps h w ks ss) = Nat.min (length ks) (length ss).
Proof. induction ks as [|k ks IH]; intros h w [|s ss]; cbn [fmaps length Nat.min]; auto. Qed.
Lemma max_kernels_length h w ks ss : length (max_kernels h w ks ss) = Nat.min (length ks) (length ss).
Proof. unfold max_kernels. now rewrite map_length, fmaps_length. Qed.

(* ---- the structural invariant and the per-quantity bounds *)
Theorem cnn_wf_inv st c a m r1 r2 : cnn_wf a -> cnn_wf (arch_of (cnn_step_prefix st c a m r1 r2)).
Proof.
  intros [Hk Hs].
  assert (Hadd : forall hl nn, cnn_wf (arch_of (cnn_add_channel c a hl nn r1 r2))).
  { intros hl nn. destruct (cnn_add_channel_spec c a hl nn r1 r2) as (E1 & E2 & E3 & _). unfold cnn_wf. rewrite E1, E2, E3. auto. }
  assert (Hal : cnn_wf (arch_of (cnn_add_layer st c a r1 r2))).
  { unfold cnn_add_layer. destruct (last_fmap _ _ _ _) as [ho wo]. destruct (_ && _ && _); [|apply Hadd].
    unfold arch_of, cnn_wf; cbn [fst channels kernels strides]. rewrite !zlen_app. cbn. lia. }
  destruct m as [| |ks hl|hl nn|hl nn]; cbn [cnn_step_prefix]; auto.
  - unfold cnn_remove_layer. destruct (_ <? _); [|apply Hadd].
    unfold arch_of, cnn_wf; cbn [fst channels kernels strides]. rewrite !zlen_removelast. lia.
  - unfold cnn_change_kernel_prefix. destruct (_ <? _); [|apply Hal].
    destruct hl; unfold arch_of, cnn_wf; cbn [fst channels kernels strides]; rewrite zlen_updz; auto.
  - destruct (cnn_remove_channel_spec c a hl nn r1 r2) as (E1 & E2 & E3 & _). unfold cnn_wf. rewrite E1, E2, E3. auto.
Qed.

Theorem cnn_channels_inv st c a m r1 r2 lo hi :
  lo <= c_min_ch c -> c_max_ch c <= hi -> cnn_meth_ok m -> channels a <> [] ->
  Forall (between lo hi) (channels a) -> Forall (between lo hi) (channels (arch_of (cnn_step_prefix st c a m r1 r2))).
Proof.
  intros Hlo Hhi Hm Hne HF.
  assert (Hadd : forall hl nn, amount_ok nn -> Forall (between lo hi) (channels (arch_of (cnn_add_channel c a hl nn r1 r2)))).
  { intros hl nn Hn. destruct (cnn_add_channel_spec c a hl nn r1 r2) as (_ & _ & _ & H). now apply H. }
  assert (Hal : Forall (between lo hi) (channels (arch_of (cnn_add_layer st c a r1 r2)))).
  { unfold cnn_add_layer. destruct (last_fmap _ _ _ _) as [ho wo]. destruct (_ && _ && _); [|apply Hadd; cbn; auto].
    unfold arch_of; cbn [fst channels]. apply Forall_app; split; auto. constructor; auto.
    rewrite Forall_forall in HF. apply HF. now apply last_In. }
  destruct m as [| |ks hl|hl nn|hl nn]; cbn [cnn_step_prefix]; auto.
  - unfold cnn_remove_layer. destruct (_ <? _); [|apply Hadd; cbn; auto].
    unfold arch_of; cbn [fst channels]. now apply Forall_removelast.
  - unfold cnn_change_kernel_prefix. destruct (_ <? _); [|apply Hal].
    destruct hl; unfold arch_of; cbn [fst channels]; auto.
  - destruct (cnn_remove_channel_spec c a hl nn r1 r2) as (_ & _ & _ & H). now apply H.
Qed.

Theorem cnn_layers_inv st c a m r1 r2 lo hi :
  lo <= c_min_layers c -> c_max_layers c <= hi -> 1 <= lo ->
  lo <= zlen (channels a) <= hi -> lo <= zlen (channels (arch_of (cnn_step_prefix st c a m r1 r2))) <= hi.
Proof.
  intros Hlo Hhi H1 HL.
  assert (Hadd : forall hl nn, zlen (channels (arch_of (cnn_add_channel c a hl nn r1 r2))) = zlen (channels a)).
  { intros hl nn. now destruct (cnn_add_channel_spec c a hl nn r1 r2) as (_ & _ & E & _). }
  assert (Hal : lo <= zlen (channels (arch_of (cnn_add_layer st c a r1 r2))) <= hi).
  { unfold cnn_add_layer. destruct (last_fmap _ _ _ _) as [ho wo].
    destruct (Z.ltb_spec (zlen (channels a)) (c_max_layers c)); cbn [andb]; [|now rewrite Hadd].
    destruct (_ && _); [|now rewrite Hadd]. unfold arch_of; cbn [fst channels]. rewrite zlen_app. cbn. lia. }
  destruct m as [| |ks hl|hl nn|hl nn]; cbn [cnn_step_prefix]; auto.
  - unfold cnn_remove_layer. destruct (Z.ltb_spec (c_min_layers c) (zlen (channels a))); [|now rewrite Hadd].
    unfold arch_of; cbn [fst channels]. rewrite zlen_removelast. lia.
  - unfold cnn_change_kernel_prefix. destruct (_ <? _); [|apply Hal].
    destruct hl; unfold arch_of; cbn [fst channels]; auto.
  - now rewrite Hadd.
  - destruct (cnn_remove_channel_spec c a hl nn r1 r2) as (_ & _ & E & _). now rewrite E.
Qed.

(* kernels: a kernel chosen by a mutation lies in [1, 9] (calc_max_kernel_sizes); larger initial kernels
   are never increased: every interval [1, K] with 9 <= K is invariant *)
Theorem cnn_kernels_inv st c a m r1 r2 K :
  9 <= K -> cnn_meth_ok m -> cnn_wf a ->
  Forall (between 1 K) (kernels a) -> Forall (between 1 K) (kernels (arch_of (cnn_step_prefix st c a m r1 r2))).
Proof.
  intros HK Hm [Hwk Hws] HF.
  assert (Hadd : forall hl nn, kernels (arch_of (cnn_add_channel c a hl nn r1 r2)) = kernels a).
  { intros hl nn. now destruct (cnn_add_channel_spec c a hl nn r1 r2) as (E & _). }
  assert (Hal : Forall (between 1 K) (kernels (arch_of (cnn_add_layer st c a r1 r2)))).
  { unfold cnn_add_layer. destruct (last_fmap _ _ _ _) as [ho wo].
    pose proof (last_max_kernels_range (cs_h st) (cs_w st) (kernels a) (strides a)) as Hmk.
    set (mk := last (max_kernels (cs_h st) (cs_w st) (kernels a) (strides a)) 1) in *.
    destruct (Z.ltb_spec 2 mk); rewrite ?andb_false_r; [|now rewrite Hadd].
    destruct (_ && _); cbn [andb]; [|now rewrite Hadd].
    unfold arch_of; cbn [fst kernels]. apply Forall_app; split; auto. constructor; auto.
    pose proof (pick_range 2 (mk + 1) r1). unfold between. lia. }
  destruct m as [| |ks hl|hl nn|hl nn]; cbn [cnn_step_prefix]; auto.
  - unfold cnn_remove_layer. destruct (_ <? _); [|now rewrite Hadd].
    unfold arch_of; cbn [fst kernels]. now apply Forall_removelast.
  - unfold cnn_change_kernel_prefix. destruct (_ <? _); [|apply Hal].
    assert (Hgen : forall i r, Forall (between 1 K) (updz (kernels a) i (fun _ =>
               match ks with Some k => k | None => pick 1 (znth (max_kernels (cs_h st) (cs_w st) (kernels a) (strides a)) i + 1) r end))).
    { intros i r. unfold updz. apply upd_forall; auto. intros Hi. destruct ks as [k|]; [cbn in Hm; unfold between; lia|].
      pose proof (max_kernels_range (cs_h st) (cs_w st) (kernels a) (strides a)) as HR. unfold znth.
      destruct (Nat.lt_ge_cases (Z.to_nat i) (length (max_kernels (cs_h st) (cs_w st) (kernels a) (strides a)))) as [Hlt|Hge].
      - rewrite Forall_forall in HR. specialize (HR _ (nth_In _ 0 Hlt)). unfold between in *.
        pose proof (pick_range 1 (nth (Z.to_nat i) (max_kernels (cs_h st) (cs_w st) (kernels a) (strides a)) 0 + 1) r). lia.
      - rewrite max_kernels_length in Hge. unfold zlen in Hwk, Hws. lia. }
    destruct hl; unfold arch_of; cbn [fst kernels]; apply Hgen.
  - now rewrite Hadd.
  - destruct (cnn_remove_channel_spec c a hl nn r1 r2) as (E & _). now rewrite E.
Qed.

(* strides: a new layer's stride is drawn from [1, stride of the last layer] *)
Theorem cnn_strides_inv st c a m r1 r2 S :
  strides a <> [] -> Forall (between 1 S) (strides a) -> Forall (between 1 S) (strides (arch_of (cnn_step_prefix st c a m r1 r2))).
Proof.
  intros Hne HF.
  assert (Hadd : forall hl nn, strides (arch_of (cnn_add_channel c a hl nn r1 r2)) = strides a).
  { intros hl nn. now destruct (cnn_add_channel_spec c a hl nn r1 r2) as (_ & E & _). }
  assert (Hal : Forall (between 1 S) (strides (arch_of (cnn_add_layer st c a r1 r2)))).
  { unfold cnn_add_layer. destruct (last_fmap _ _ _ _) as [ho wo]. destruct (_ && _ && _); [|now rewrite Hadd].
    unfold arch_of; cbn [fst strides]. apply Forall_app; split; auto. constructor; auto.
    assert (between 1 S (last (strides a) 0)) by (rewrite Forall_forall in HF; apply HF; now apply last_In).
    unfold between in *. pose proof (pick_range 1 (last (strides a) 0 + 1) r2). lia. }
  destruct m as [| |ks hl|hl nn|hl nn]; cbn [cnn_step_prefix]; auto.
  - unfold cnn_remove_layer. destruct (_ <? _); [|now rewrite Hadd].
    unfold arch_of; cbn [fst strides]. now apply Forall_removelast.
  - unfold cnn_change_kernel_prefix. destruct (_ <? _); [|apply Hal].
    destruct hl; unfold arch_of; cbn [fst strides]; auto.
  - now rewrite Hadd.
  - destruct (cnn_remove_channel_spec c a hl nn r1 r2) as (_ & E & _). now rewrite E.
Qed.

(* ================================================================ validity (every feature map >= its kernel) *)
Lemma last_cons {A} (x : A) l d : last (x :: l) d = last l x.
Proof. revert x; induction l as [|y l IH]; intros x; [reflexivity|]. cbn [last] in *. destruct l; auto. Qed.

Lemma last_fmap_cons h w k s ks ss :
  last_fmap h w (k :: ks) (s :: ss) = last_fmap (conv_out h k s) (conv_out w k s) ks ss.
Proof. unfold last_fmap. cbn [fmaps]. apply last_cons. Qed.

Lemma fm_valid_app ks : forall h w ss k s, length ks = length ss ->
  fm_valid h w (ks ++ [k]) (ss ++ [s]) =
  fm_valid h w ks ss && ((1 <=? k) && (1 <=? s) && (k <=? fst (last_fmap h w ks ss)) && (k <=? snd (last_fmap h w ks ss))).
Proof.
  induction ks as [|k0 ks IH]; intros h w [|s0 ss] k s HL; cbn [length] in HL; try discriminate.
  - cbn [app fm_valid]. unfold last_fmap; cbn [fmaps last fst snd]. rewrite andb_true_r. reflexivity.
  - cbn [app fm_valid]. rewrite IH by lia. rewrite last_fmap_cons. rewrite !andb_assoc. reflexivity.
Qed.

Lemma fm_valid_removelast ks : forall h w ss, length ks = length ss ->
  fm_valid h w ks ss = true -> fm_valid h w (removelast ks) (removelast ss) = true.
Proof.
  intros h w ss HL HV. destruct ks as [|k0 ks'] eqn:E.
  - destruct ss; [reflexivity|discriminate].
  - assert (Hss : ss <> []) by (destruct ss; [discriminate|discriminate]).
    rewrite <- E in *. assert (Hks : ks <> []) by (rewrite E; discriminate).
    rewrite (app_removelast_last 0 Hks) in HV. rewrite (app_removelast_last 0 Hss) in HV.
    rewrite fm_valid_app in HV.
    + apply andb_true_iff in HV. apply HV.
    + rewrite (app_removelast_last 0 Hks) in HL. rewrite (app_removelast_last 0 Hss) in HL.
      rewrite !app_length in HL. cbn in HL. lia.
Qed.

Lemma fm_valid_strides ks : forall h w ss, fm_valid h w ks ss = true -> Forall (fun s => 1 <= s) ss.
Proof.
  induction ks as [|k ks IH]; intros h w [|s ss] H; cbn [fm_valid] in H; try discriminate; auto.
  rewrite !andb_true_iff in H. destruct H as ((((_ & Hs) & _) & _) & Hr). constructor; [lia|eauto].
Qed.

Lemma last_map {A B} (f : A -> B) l d d' : l <> [] -> last (map f l) d = f (last l d').
Proof.
  induction l as [|x l IH]; [congruence|]. intros _. destruct l as [|y l]; [reflexivity|].
  cbn [map last] in *. apply IH. discriminate.
Qed.

Definition cnn_ok (st : cnn_static) (a : cnn_arch) : Prop := cnn_valid st a = true.

Lemma cnn_ok_parts st a : cnn_ok st a <->
  channels a <> [] /\ cnn_wf a /\ Forall (fun x => 0 < x) (channels a) /\ fm_valid (cs_h st) (cs_w st) (kernels a) (strides a) = true.
Proof.
  unfold cnn_ok, cnn_valid, cnn_wf. rewrite !andb_true_iff, negb_true_iff, !Z.eqb_eq, Z.eqb_neq, forallb_forall, Forall_forall.
  rewrite zlen_nil_iff. split.
  - intros ((((H1 & H2) & H3) & H4) & H5). repeat split; auto. intros x Hx. specialize (H4 x Hx). lia.
  - intros (H1 & (H2 & H3) & H4 & H5). repeat split; auto. intros x Hx. specialize (H4 x Hx). lia.
Qed.

Lemma wf_lengths a : cnn_wf a -> length (kernels a) = length (channels a) /\ length (strides a) = length (channels a).
Proof. unfold cnn_wf, zlen. lia. Qed.

(* add_layer, remove_layer, add_channel, remove_channel keep the network constructible: the new
   layer's kernel is at most a quarter of the last feature map *)
Theorem cnn_valid_inv_partial st c a m r1 r2 :
  1 <= c_min_layers c -> 1 <= c_min_ch c -> cnn_meth_ok m ->
  (match m with CChangeKernel _ _ => False | _ => True end) ->
  cnn_ok st a -> cnn_ok st (arch_of (cnn_step_prefix st c a m r1 r2)).
Proof.
  intros Hl Hc Hm Hnot Hok. pose proof Hok as Hok0. apply cnn_ok_parts in Hok. destruct Hok as (Hne & Hwf & Hpos & Hfm).
  destruct (wf_lengths a Hwf) as [Lk Ls].
  assert (Hadd : forall hl nn, amount_ok nn -> cnn_ok st (arch_of (cnn_add_channel c a hl nn r1 r2))).
  { intros hl nn Hn. apply cnn_ok_parts. destruct (cnn_add_channel_spec c a hl nn r1 r2) as (E1 & E2 & E3 & HB).
    assert (HF : Forall (between 1 (lmax (channels a) (c_max_ch c))) (channels (arch_of (cnn_add_channel c a hl nn r1 r2)))).
    { apply HB; auto using lmax_ge. eapply Forall_impl; [|apply Forall_and; [exact Hpos|apply (between_lmin_lmax (channels a) 1 (c_max_ch c))]].
      unfold between. intros x [? ?]. lia. }
    split; [|split; [|split]].
    - intros E. rewrite <- zlen_nil_iff in E. rewrite E3 in E. rewrite zlen_nil_iff in E. auto.
    - unfold cnn_wf. rewrite E1, E2, E3. apply Hwf.
    - eapply Forall_impl; [|exact HF]. unfold between; intros; lia.
    - now rewrite E1, E2. }
  destruct m as [| |ks hl|hl nn|hl nn]; cbn [cnn_step_prefix]; try contradiction.
  - (* add_layer *)
    unfold cnn_add_layer.
    set (mk := last (max_kernels (cs_h st) (cs_w st) (kernels a) (strides a)) 1).
    destruct (last_fmap (cs_h st) (cs_w st) (kernels a) (strides a)) as [ho wo] eqn:Elf.
    destruct (Z.ltb_spec 2 mk); rewrite ?andb_false_r; [|apply Hadd; cbn; auto].
    destruct (_ && _); cbn [andb]; [|apply Hadd; cbn; auto].
    unfold arch_of; cbn [fst]. apply cnn_ok_parts; unfold cnn_wf; cbn [channels kernels strides]. split; [|split; [|split]].
    + intros E. apply app_eq_nil in E. destruct E; discriminate.
    + rewrite !zlen_app. destruct Hwf as [-> ->]. split; reflexivity.
    + apply Forall_app; split; auto. constructor; auto. rewrite Forall_forall in Hpos. apply Hpos. now apply last_In.
    + rewrite fm_valid_app by lia. rewrite Hfm, Elf. cbn [andb fst snd].
      assert (Hfmne : fmaps (cs_h st) (cs_w st) (kernels a) (strides a) <> []).
      { intros E. apply (f_equal (@length _)) in E. rewrite fmaps_length in E. cbn in E.
        destruct (channels a); [congruence|]. cbn in Lk, Ls. lia. }
      assert (Emk : mk = clip_kernel (Z.min ho wo)).
      { unfold mk, max_kernels. rewrite (last_map _ _ 1 (cs_h st, cs_w st)) by auto.
        unfold last_fmap in Elf. rewrite Elf. reflexivity. }
      assert (Hmin : 12 <= Z.min ho wo).
      { rewrite Emk in H. unfold clip_kernel in H. destruct (Z.leb_spec (Z.quot (Z.min ho wo) 4) 0); [lia|].
        destruct (Z.lt_ge_cases (Z.min ho wo) 12); auto.
        assert (Z.quot (Z.min ho wo) 4 <= 2); [|destruct (Z.ltb_spec 9 (Z.quot (Z.min ho wo) 4)); lia].
        pose proof (Z.quot_le_mono (Z.min ho wo) 11 4 ltac:(lia) ltac:(lia)) as Hq.
        change (Z.quot 11 4) with 2 in Hq. exact Hq. }
      assert (Hmk : mk <= Z.min ho wo) by (rewrite Emk; apply clip_kernel_le; lia).
      pose proof (pick_range 2 (mk + 1) r1 ltac:(lia)) as Hk.
      assert (Hs1 : 1 <= last (strides a) 0).
      { pose proof (fm_valid_strides _ _ _ _ Hfm) as HS. rewrite Forall_forall in HS. apply HS. apply last_In.
        intros E. rewrite E in Ls. destruct (channels a); [congruence|discriminate]. }
      pose proof (pick_range 1 (last (strides a) 0 + 1) r2 ltac:(lia)) as Hs.
      repeat (apply andb_true_iff; split); apply Z.leb_le; lia.
  - (* remove_layer *)
    unfold cnn_remove_layer. destruct (Z.ltb_spec (c_min_layers c) (zlen (channels a))); [|apply Hadd; cbn; auto].
    unfold arch_of; cbn [fst]. apply cnn_ok_parts; unfold cnn_wf; cbn [channels kernels strides]. split; [|split; [|split]].
    + intros E. apply (f_equal zlen) in E. rewrite zlen_removelast in E. cbn in E. lia.
    + rewrite !zlen_removelast. destruct Hwf as [-> ->]. split; reflexivity.
    + now apply Forall_removelast.
    + apply fm_valid_removelast; auto. lia.
  - now apply Hadd.
  - (* remove_channel *)
    apply cnn_ok_parts. destruct (cnn_remove_channel_spec c a hl nn r1 r2) as (E1 & E2 & E3 & HB).
    assert (HF : Forall (between 1 (lmax (channels a) (c_max_ch c))) (channels (arch_of (cnn_remove_channel c a hl nn r1 r2)))).
    { apply HB; auto using lmax_ge. eapply Forall_impl; [|apply Forall_and; [exact Hpos|apply (between_lmin_lmax (channels a) 1 (c_max_ch c))]].
      unfold between. intros x [? ?]. lia. }
    split; [|split; [|split]].
    + intros E. rewrite <- zlen_nil_iff in E. rewrite E3 in E. rewrite zlen_nil_iff in E. auto.
    + unfold cnn_wf. rewrite E1, E2, E3. apply Hwf.
    + eapply Forall_impl; [|exact HF]. unfold between; intros; lia.
    + now rewrite E1, E2.
Qed.

(* change_kernel does NOT preserve validity in general: the new kernel is bounded by a quarter of the
   layer's *current* output, not by what the layers after it need.  Witness: 3 layers on an 8x8 input,
   kernels [1;1;8]; the drawn kernel 2 for layer 1 shrinks its output to 7 < 8. *)
Theorem cnn_change_kernel_valid_refuted :
  exists st c a r1 r2,
    cnn_ok st a /\ cnn_meth_ok (CChangeKernel None None) /\
    cnn_valid st (arch_of (cnn_step_prefix st c a (CChangeKernel None None) r1 r2)) = false.
Proof.
  exists {| cs_in_ch := 1; cs_h := 8; cs_w := 8; cs_out := 1; cs_layer_norm := false |},
         {| c_min_layers := 1; c_max_layers := 6; c_min_ch := 32; c_max_ch := 256 |},
         {| channels := [32; 32; 32]; kernels := [1; 1; 8]; strides := [1; 1; 1] |}, 0, 1.
  split; [reflexivity|]. split; [exact I|]. reflexivity.
Qed.

(* ---- advertised mutations are effective *)
Theorem cnn_add_layer_effective st c a r1 r2 :
  let mk := last (max_kernels (cs_h st) (cs_w st) (kernels a) (strides a)) 1 in
  zlen (channels a) < c_max_layers c -> 2 < fst (last_fmap (cs_h st) (cs_w st) (kernels a) (strides a)) ->
  2 < snd (last_fmap (cs_h st) (cs_w st) (kernels a) (strides a)) -> 2 < mk ->
  let a' := arch_of (cnn_step_prefix st c a CAddLayer r1 r2) in
  name_of (cnn_step_prefix st c a CAddLayer r1 r2) = "add_layer"%string /\
  channels a' = channels a ++ [last (channels a) 0] /\
  kernels a' = kernels a ++ [pick 2 (mk + 1) r1] /\ strides a' = strides a ++ [pick 1 (last (strides a) 0 + 1) r2].
Proof.
  intros mk H1 H2 H3 H4. cbn [cnn_step_prefix]. unfold cnn_add_layer. fold mk.
  destruct (last_fmap (cs_h st) (cs_w st) (kernels a) (strides a)) as [ho wo]. cbn [fst snd] in *.
  destruct (Z.ltb_spec (zlen (channels a)) (c_max_layers c)); [|lia].
  destruct (Z.leb_spec ho 2); [lia|]. destruct (Z.leb_spec wo 2); [lia|]. destruct (Z.ltb_spec 2 mk); [|lia].
  cbn. auto.
Qed.

Theorem cnn_remove_layer_effective st c a r1 r2 :
  c_min_layers c < zlen (channels a) ->
  cnn_step_prefix st c a CRemoveLayer r1 r2 =
  ({| channels := removelast (channels a); kernels := removelast (kernels a); strides := removelast (strides a) |},
   "remove_layer"%string, []).
Proof. intros H. cbn [cnn_step_prefix]. unfold cnn_remove_layer. destruct (Z.ltb_spec (c_min_layers c) (zlen (channels a))); [auto|lia]. Qed.

Theorem cnn_layer_fallback st c a r1 r2 :
  (c_max_layers c <= zlen (channels a) -> cnn_step_prefix st c a CAddLayer r1 r2 = cnn_add_channel c a None None r1 r2) /\
  (zlen (channels a) <= c_min_layers c -> cnn_step_prefix st c a CRemoveLayer r1 r2 = cnn_add_channel c a None None r1 r2) /\
  name_of (cnn_add_channel c a None None r1 r2) = "add_channel"%string.
Proof.
  split; [|split]; intros; cbn [cnn_step_prefix].
  - unfold cnn_add_layer. destruct (last_fmap _ _ _ _). destruct (Z.ltb_spec (zlen (channels a)) (c_max_layers c)); [lia|reflexivity].
  - unfold cnn_remove_layer. destruct (Z.ltb_spec (c_min_layers c) (zlen (channels a))); [lia|reflexivity].
  - unfold name_of, cnn_add_channel. destruct (cnn_channel_args _ _ _ _ _). reflexivity.
Qed.

Theorem cnn_change_kernel_effective st c a ks hl r1 r2 :
  1 < zlen (channels a) ->
  let '(i, r) := match hl with Some l => (l, r1) | None => (pick 1 (Z.min 4 (zlen (channels a))) r1, r2) end in
  let k := match ks with Some k => k | None => pick 1 (znth (max_kernels (cs_h st) (cs_w st) (kernels a) (strides a)) i + 1) r end in
  cnn_step_prefix st c a (CChangeKernel ks hl) r1 r2 =
  ({| channels := channels a; kernels := updz (kernels a) i (fun _ => k); strides := strides a |}, "change_kernel"%string, [i; k]) /\
  (hl = None -> 1 <= i < zlen (channels a)).
Proof.
  intros H. cbn [cnn_step_prefix]. unfold cnn_change_kernel_prefix. destruct (Z.ltb_spec 1 (zlen (channels a))); [|lia].
  destruct hl as [l|]; split; auto; try discriminate.
  intros _. pose proof (pick_range 1 (Z.min 4 (zlen (channels a))) r1). lia.
Qed.

Theorem cnn_add_channel_effective c a hl nn r1 r2 :
  let '(i, n) := cnn_channel_args (channels a) hl nn r1 r2 in
  znth (channels a) i + n <= c_max_ch c ->
  cnn_add_channel c a hl nn r1 r2 =
  ({| channels := updz (channels a) i (fun x => x + n); kernels := kernels a; strides := strides a |}, "add_channel"%string, [i; n]).
Proof.
  unfold cnn_add_channel. destruct (cnn_channel_args (channels a) hl nn r1 r2) as [i n]. intros H.
  destruct (Z.leb_spec (znth (channels a) i + n) (c_max_ch c)); [reflexivity|lia].
Qed.

Theorem cnn_remove_channel_effective c a hl nn r1 r2 :
  let '(i, n) := cnn_channel_args (channels a) hl nn r1 r2 in
  c_min_ch c <= znth (channels a) i - n ->
  cnn_remove_channel c a hl nn r1 r2 =
  ({| channels := updz (channels a) i (fun x => x - n); kernels := kernels a; strides := strides a |}, "remove_channel"%string, [i; n]).
Proof.
  unfold cnn_remove_channel. destruct (cnn_channel_args (channels a) hl nn r1 r2) as [i n]. intros H.
  destruct (Z.leb_spec (c_min_ch c) (znth (channels a) i - n)); [reflexivity|lia].
Qed.

(* ---- rebuilt after every mutation; a valid architecture is accepted by the constructor and rebuilt exactly *)
Theorem cnn_rebuild_exact st c s m r1 r2 :
  let s' := fst (fst (cnn_mutate st c s m r1 r2)) in
  cnn_built s' = cnn_shapes st (cnn_arch_of s') /\
  (0 < cs_out st -> c_min_layers c < c_max_layers c -> c_min_ch c < c_max_ch c -> cnn_ok st (cnn_arch_of s') ->
   cnn_of_ctor st c (cnn_arch_of s') = Some s').
Proof.
  unfold cnn_mutate. destruct (cnn_step st c (cnn_arch_of s) m r1 r2) as [[a' nm] rt]. cbn [fst cnn_build cnn_built cnn_arch_of].
  split; [reflexivity|]. intros Ho Hl Hc Hok. unfold cnn_of_ctor, cnn_ctor_ok. rewrite Hok.
  apply cnn_ok_parts in Hok. destruct Hok as (_ & (E1 & E2) & _ & _). rewrite E1, E2, !Z.eqb_refl.
  destruct (Z.ltb_spec 0 (cs_out st)); [|lia]. destruct (Z.ltb_spec (c_min_layers c) (c_max_layers c)); [|lia].
  destruct (Z.ltb_spec (c_min_ch c) (c_max_ch c)); [|lia]. reflexivity.
Qed.
