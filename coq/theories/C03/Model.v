(* C03 — executable model of the architecture mutations of AgileRL's evolvable building blocks
   (agilerl/modules/{mlp,lstm,simba,resnet}.py; CNN / networks / multi-input are in ModelCnn.v and
   ModelNet.v).  Model only, no proofs, so that it still runs when a proof breaks.

   Conventions: every size is a Z; every random draw the code makes is an explicit raw draw
   r >= 0 (np.random.randint(lo,hi) = lo + r mod (hi-lo), np.random.choice(l) = l[r mod len l]);
   the harness scripts numpy's RNG in exactly this way, so model and code see the same draws.
   A step returns (new architecture, name of the method really applied = last_mutation_attr,
   values of the dict the method returns). *)
From Coq Require Import List ZArith Bool String.
Import ListNotations.
Local Open Scope string_scope.
Local Open Scope list_scope.
Local Open Scope Z_scope.
Notation "a +s b" := (String.append a b) (at level 60, right associativity).

(* ---------------------------------------------------------------- scripted randomness / lists *)
Definition pick (lo hi r : Z) : Z := lo + r mod (hi - lo).
Definition zlen {A} (l : list A) : Z := Z.of_nat (List.length l).
Definition znth (l : list Z) (i : Z) : Z := nth (Z.to_nat i) l 0.
Definition choose (l : list Z) (r : Z) : Z := znth l (r mod zlen l).
Fixpoint upd (l : list Z) (i : nat) (f : Z -> Z) : list Z :=
  match l, i with [] , _ => [] | x :: t, O => f x :: t | x :: t, S j => x :: upd t j f end.
Definition updz (l : list Z) (i : Z) (f : Z -> Z) : list Z := upd l (Z.to_nat i) f.
Definition arg (o : option Z) (d : Z) : Z := match o with Some x => x | None => d end.

(* a parameter of the torch module: canonical name (digit runs replaced by #), the numbers that
   were replaced, and the tensor shape *)
Definition pshape := (string * list Z * list Z)%type.
Definition step_out (A : Type) := (A * string * list Z)%type.

(* ================================================================ EvolvableMLP *)
Record mlp_cfg := { m_min_layers : Z; m_max_layers : Z; m_min_nodes : Z; m_max_nodes : Z }.
Inductive mlp_meth :=
| MAddLayer | MRemoveLayer
| MAddNode (hidden_layer numb_new_nodes : option Z)
| MRemoveNode (hidden_layer numb_new_nodes : option Z).

Definition node_choices : list Z := [16; 32; 64].

(* hidden_layer / numb_new_nodes as the code resolves them; r1 feeds np.random.randint (layer index),
   r2 feeds np.random.choice (amount): the two draws are independent, their program order does not matter *)
Definition mlp_node_args (h : list Z) (hl nn : option Z) (r1 r2 : Z) : Z * Z :=
  match hl, nn with
  | None, None => (pick 0 (zlen h) r1, choose node_choices r2)
  | None, Some n => (pick 0 (zlen h) r1, n)
  | Some l, None => (Z.min l (zlen h - 1), choose node_choices r2)
  | Some l, Some n => (Z.min l (zlen h - 1), n)
  end.

Definition mlp_add_node (c : mlp_cfg) (h : list Z) hl nn r1 r2 : step_out (list Z) :=
  let '(i, n) := mlp_node_args h hl nn r1 r2 in
  ((if znth h i + n <=? m_max_nodes c then updz h i (fun x => x + n) else h),   (* HARD LIMIT <= *)
   "add_node", [i; n]).

Definition mlp_remove_node (c : mlp_cfg) (h : list Z) hl nn r1 r2 : step_out (list Z) :=
  let '(i, n) := mlp_node_args h hl nn r1 r2 in
  ((if m_min_nodes c <? znth h i - n then updz h i (fun x => x - n) else h),    (* HARD LIMIT >  *)
   "remove_node", [i; n]).

Definition mlp_step (c : mlp_cfg) (h : list Z) (m : mlp_meth) (r1 r2 : Z) : step_out (list Z) :=
  match m with
  | MAddLayer =>
      if zlen h <? m_max_layers c then (h ++ [last h 0], "add_layer", [])
      else mlp_add_node c h None None r1 r2                                  (* fall-back *)
  | MRemoveLayer =>
      if m_min_layers c <? zlen h then (removelast h, "remove_layer", [])
      else mlp_add_node c h None None r1 r2                                  (* fall-back *)
  | MAddNode hl nn => mlp_add_node c h hl nn r1 r2
  | MRemoveNode hl nn => mlp_remove_node c h hl nn r1 r2
  end.

(* the fields of the constructor that shape the torch module *)
Record mlp_static := { ms_in : Z; ms_out : Z; ms_layer_norm : bool; ms_out_layer_norm : bool; ms_noisy : bool }.

Definition lin_params (noisy : bool) (nm : string) (idx : list Z) (o i : Z) : list pshape :=
  if noisy then
    [ (nm +s ".weight_mu", idx, [o; i]); (nm +s ".weight_sigma", idx, [o; i]);
      (nm +s ".bias_mu", idx, [o]); (nm +s ".bias_sigma", idx, [o]);
      (nm +s ".weight_epsilon", idx, [o; i]); (nm +s ".bias_epsilon", idx, [o]) ]
  else [ (nm +s ".weight", idx, [o; i]); (nm +s ".bias", idx, [o]) ].
Definition norm_params (nm : string) (idx : list Z) (n : Z) : list pshape :=
  [ (nm +s ".weight", idx, [n]); (nm +s ".bias", idx, [n]) ].

Fixpoint mlp_hidden_shapes (s : mlp_static) (l_no prev : Z) (h : list Z) : list pshape :=
  match h with
  | [] => []
  | x :: t =>
      lin_params (ms_noisy s) "linear_layer_#" [l_no] x prev
      ++ (if ms_layer_norm s then norm_params "layer_norm_#" [l_no] x else [])
      ++ mlp_hidden_shapes s (l_no + 1) x t
  end.

(* create_mlp: the parameters (names, shapes, in state_dict order) of the module built for h *)
Definition mlp_shapes (s : mlp_static) (h : list Z) : list pshape :=
  mlp_hidden_shapes s 1 (ms_in s) h
  ++ lin_params (ms_noisy s) "linear_layer_output" [] (ms_out s) (last h (ms_in s))
  ++ (if ms_out_layer_norm s then norm_params "layer_norm_output" [] (ms_out s) else []).

(* module state: descriptor fields (what init_dict reports) + the shapes of the torch module that
   was built by the last recreate_network (MutationContext: once, after the outermost mutation) *)
Record mlp_state := { mlp_hidden : list Z; mlp_built : list pshape }.
Definition mlp_build (s : mlp_static) (h : list Z) : mlp_state := {| mlp_hidden := h; mlp_built := mlp_shapes s h |}.
Definition mlp_mutate (s : mlp_static) (c : mlp_cfg) (st : mlp_state) (m : mlp_meth) (r1 r2 : Z) : mlp_state * string * list Z :=
  let '(h', nm, rt) := mlp_step c (mlp_hidden st) m r1 r2 in (mlp_build s h', nm, rt).

(* constructor description (init_dict) and the constructor's own assertions *)
Record mlp_ctor := { mc_static : mlp_static; mc_cfg : mlp_cfg; mc_hidden : list Z }.
Definition mlp_ctor_of (s : mlp_static) (c : mlp_cfg) (st : mlp_state) : mlp_ctor :=
  {| mc_static := s; mc_cfg := c; mc_hidden := mlp_hidden st |}.
Definition mlp_ctor_ok (k : mlp_ctor) : bool :=
  (0 <? ms_in (mc_static k)) && (0 <? ms_out (mc_static k)) && forallb (fun x => 0 <? x) (mc_hidden k)
  && negb (zlen (mc_hidden k) =? 0)
  && (m_min_layers (mc_cfg k) <? m_max_layers (mc_cfg k)) && (m_min_nodes (mc_cfg k) <? m_max_nodes (mc_cfg k)).
Definition mlp_of_ctor (k : mlp_ctor) : option mlp_state :=
  if mlp_ctor_ok k then Some (mlp_build (mc_static k) (mc_hidden k)) else None.

(* pinned behaviour before a443ae2: two modules built from ONE config share the hidden_size list;
   an in-place add_node on A also changes B's descriptor, B's torch module is not rebuilt *)
Definition shared_add_node (s : mlp_static) (c : mlp_cfg) (a b : mlp_state) hl nn r1 r2 : mlp_state * mlp_state :=
  let '(h', _, _) := mlp_add_node c (mlp_hidden a) hl nn r1 r2 in
  (mlp_build s h', {| mlp_hidden := h'; mlp_built := mlp_built b |}).

(* ================================================================ scalar blocks: LSTM, SimBa, ResNet
   one machine (number of layers/blocks, width) with the comparison operators of each class *)
Record sparams := {
  sp_add_strict : bool;        (* add guard:    w + n <  max   (true)  |  w + n <= max (false) *)
  sp_rem_strict : bool;        (* remove guard: w - n >  min   (true)  |  w - n >= min (false) *)
  sp_choices : list Z;
  sp_add_layer : string; sp_remove_layer : string; sp_add_node : string; sp_remove_node : string }.

Definition lstm_params := {| sp_add_strict := false; sp_rem_strict := false; sp_choices := [16;32;64];
  sp_add_layer := "add_layer"; sp_remove_layer := "remove_layer"; sp_add_node := "add_node"; sp_remove_node := "remove_node" |}.
Definition simba_params := {| sp_add_strict := false; sp_rem_strict := true; sp_choices := [16;32;64];
  sp_add_layer := "add_block"; sp_remove_layer := "remove_block"; sp_add_node := "add_node"; sp_remove_node := "remove_node" |}.
Definition resnet_params := {| sp_add_strict := true; sp_rem_strict := true; sp_choices := [8;16;32];
  sp_add_layer := "add_block"; sp_remove_layer := "remove_block"; sp_add_node := "add_channel"; sp_remove_node := "remove_channel" |}.

Record scfg := { s_min_layers : Z; s_max_layers : Z; s_min_width : Z; s_max_width : Z }.
Record sarch := { s_layers : Z; s_width : Z }.
Inductive smeth := SAddLayer | SRemoveLayer | SAddNode (n : option Z) | SRemoveNode (n : option Z).

Definition s_add_node (p : sparams) (c : scfg) (a : sarch) (nn : option Z) (r1 : Z) : step_out sarch :=
  let n := arg nn (choose (sp_choices p) r1) in
  let ok := if sp_add_strict p then s_width a + n <? s_max_width c else s_width a + n <=? s_max_width c in
  ((if ok then {| s_layers := s_layers a; s_width := s_width a + n |} else a), sp_add_node p, [n]).

Definition s_remove_node (p : sparams) (c : scfg) (a : sarch) (nn : option Z) (r1 : Z) : step_out sarch :=
  let n := arg nn (choose (sp_choices p) r1) in
  let ok := if sp_rem_strict p then s_min_width c <? s_width a - n else s_min_width c <=? s_width a - n in
  ((if ok then {| s_layers := s_layers a; s_width := s_width a - n |} else a), sp_remove_node p, [n]).

Definition s_step (p : sparams) (c : scfg) (a : sarch) (m : smeth) (r1 : Z) : step_out sarch :=
  match m with
  | SAddLayer => if s_layers a <? s_max_layers c
                 then ({| s_layers := s_layers a + 1; s_width := s_width a |}, sp_add_layer p, [])
                 else s_add_node p c a None r1
  | SRemoveLayer => if s_min_layers c <? s_layers a
                 then ({| s_layers := s_layers a - 1; s_width := s_width a |}, sp_remove_layer p, [])
                 else s_add_node p c a None r1
  | SAddNode n => s_add_node p c a n r1
  | SRemoveNode n => s_remove_node p c a n r1
  end.

(* ---- parameter shapes of the three scalar blocks *)
Fixpoint zrange (from : Z) (n : nat) : list Z := match n with O => [] | S k => from :: zrange (from + 1) k end.

Record lstm_static := { ls_in : Z; ls_out : Z }.
Definition lstm_shapes (s : lstm_static) (a : sarch) : list pshape :=
  let h := s_width a in
  flat_map (fun k => let i := if k =? 0 then ls_in s else h in
     [ ("lstm.weight_ih_l#", [k], [4 * h; i]); ("lstm.weight_hh_l#", [k], [4 * h; h]);
       ("lstm.bias_ih_l#", [k], [4 * h]); ("lstm.bias_hh_l#", [k], [4 * h]) ]) (zrange 0 (Z.to_nat (s_layers a)))
  ++ [ ("lstm_output.weight", [], [ls_out s; h]); ("lstm_output.bias", [], [ls_out s]) ].

Record simba_static := { ss_in : Z; ss_out : Z; ss_scale : Z }.
Definition simba_shapes (s : simba_static) (a : sarch) : list pshape :=
  let h := s_width a in
  [ ("linear_layer_input.weight", [], [h; ss_in s]); ("linear_layer_input.bias", [], [h]) ]
  ++ flat_map (fun k =>
     [ ("residual_block_#.layer_norm.weight", [k], [h]); ("residual_block_#.layer_norm.bias", [k], [h]);
       ("residual_block_#.linear#.weight", [k; 1], [h * ss_scale s; h]); ("residual_block_#.linear#.bias", [k; 1], [h * ss_scale s]);
       ("residual_block_#.linear#.weight", [k; 2], [h; h * ss_scale s]); ("residual_block_#.linear#.bias", [k; 2], [h]) ])
     (zrange 1 (Z.to_nat (s_layers a)))
  ++ [ ("layer_norm_output.weight", [], [h]); ("layer_norm_output.bias", [], [h]);
       ("linear_layer_output.weight", [], [ss_out s; h]); ("linear_layer_output.bias", [], [ss_out s]) ].

Record resnet_static := { rs_in_ch : Z; rs_h : Z; rs_w : Z; rs_out : Z; rs_kernel : Z; rs_stride : Z; rs_scale : Z }.
(* conv_input: padding (k-1)//2, stride s; the residual blocks keep the spatial size *)
Definition conv_pad_out (x k s : Z) : Z := (x + 2 * ((k - 1) / 2) - k) / s + 1.
Definition bn_params (nm : string) (idx : list Z) (n : Z) : list pshape :=
  [ (nm +s ".weight", idx, [n]); (nm +s ".bias", idx, [n]); (nm +s ".running_mean", idx, [n]);
    (nm +s ".running_var", idx, [n]); (nm +s ".num_batches_tracked", idx, []) ].
Definition resnet_shapes (s : resnet_static) (a : sarch) : list pshape :=
  let c := s_width a in let k := rs_kernel s in
  [ ("conv_input.weight", [], [c; rs_in_ch s; k; k]) ]
  ++ flat_map (fun b =>
     [ ("residual_block_#.conv#.weight", [b; 1], [c * rs_scale s; c; k; k]) ]
     ++ bn_params "residual_block_#.bn#" [b; 1] (c * rs_scale s)
     ++ [ ("residual_block_#.conv#.weight", [b; 2], [c; c * rs_scale s; k; k]) ]
     ++ bn_params "residual_block_#.bn#" [b; 2] c) (zrange 1 (Z.to_nat (s_layers a)))
  ++ [ ("linear_output.weight", [], [rs_out s; c * conv_pad_out (rs_h s) k (rs_stride s) * conv_pad_out (rs_w s) k (rs_stride s)]);
       ("linear_output.bias", [], [rs_out s]) ].

(* module state of a scalar block; [pyint] is the type side of the descriptor: EvolvableResNet's
   constructor asserts isinstance(channel_size, int), numpy integers come out of np.random.choice *)
Record sstate := { s_arch : sarch; s_built : list pshape; s_pyint : bool }.
Definition s_build (shapes : sarch -> list pshape) (a : sarch) (py : bool) : sstate :=
  {| s_arch := a; s_built := shapes a; s_pyint := py |}.
(* [casts]: does the class cast the drawn amount with int() before adding it (ResNet since f0602d4);
   an amount passed explicitly by the caller is a Python int, a drawn one is a numpy integer *)
Definition s_mutate (p : sparams) (casts : bool) (shapes : sarch -> list pshape) (c : scfg) (st : sstate) (m : smeth) (r1 : Z)
  : sstate * string * list Z :=
  let '(a', nm, rt) := s_step p c (s_arch st) m r1 in
  let drawn := match m with SAddNode (Some _) | SRemoveNode (Some _) => false
                          | SAddNode None | SRemoveNode None => true
                          | _ => negb (String.eqb nm (sp_add_layer p) || String.eqb nm (sp_remove_layer p)) end in
  let changed := negb (s_width a' =? s_width (s_arch st)) in
  (s_build shapes a' (s_pyint st && (casts || negb (drawn && changed))), nm, rt).

(* the constructor assertions of EvolvableResNet on the mutable fields *)
Definition resnet_ctor_ok (st : sstate) : bool := s_pyint st && (1 <=? s_layers (s_arch st)).
