(* C03 — boolean comparison of the model with observations of the implementation (used by K only). *)
From Coq Require Import List ZArith Bool String.
Import ListNotations.
From AgileV Require Import C03.Model C03.ModelCnn C03.ModelNet.
Local Open Scope Z_scope.

Fixpoint list_eqb {T} (eqb : T -> T -> bool) (a b : list T) : bool :=
  match a, b with
  | [], [] => true
  | x :: a', y :: b' => eqb x y && list_eqb eqb a' b'
  | _, _ => false
  end.
Definition zl_eqb := list_eqb Z.eqb.
Definition pshape_eqb (a b : pshape) : bool :=
  let '(n1, i1, s1) := a in let '(n2, i2, s2) := b in String.eqb n1 n2 && zl_eqb i1 i2 && zl_eqb s1 s2.
Definition shapes_eqb := list_eqb pshape_eqb.

(* what is observed after one mutation call:
   descriptor fields, last_mutation_attr, values of the returned dict,
   shapes of the module's state_dict (None = not observed at this step),
   result of rebuilding from init_dict (rebuilt_obs) *)
Inductive rebuilt_obs := RNone | RRaised | RSame | RShapes (l : list pshape).
Definition obs (D : Type) := (D * string * list Z * option (list pshape) * rebuilt_obs)%type.

Definition opt_shapes_ok (o : option (list pshape)) (m : list pshape) : bool :=
  match o with None => true | Some l => shapes_eqb l m end.
(* RSame: the rebuilt module has exactly the observed state_dict layout of the mutated module *)
Definition rebuilt_ok (o : rebuilt_obs) (built : list pshape) (m : option (list pshape)) : bool :=
  match o, m with
  | RNone, _ => true
  | RRaised, None => true
  | RSame, Some l' => shapes_eqb built l'
  | RShapes l, Some l' => shapes_eqb l l'
  | _, _ => false
  end.

(* ---- MLP *)
Fixpoint check_mlp_steps (s : mlp_static) (c : mlp_cfg) (st : mlp_state)
         (steps : list (mlp_meth * Z * Z * obs (list Z))) : bool :=
  match steps with
  | [] => true
  | (m, r1, r2, (h, nm, rt, sh, rb)) :: tl =>
      let '(st', nm', rt') := mlp_mutate s c st m r1 r2 in
      zl_eqb h (mlp_hidden st') && String.eqb nm nm' && zl_eqb rt rt'
      && opt_shapes_ok sh (mlp_built st')
      && rebuilt_ok rb (mlp_built st') (option_map mlp_built (mlp_of_ctor (mlp_ctor_of s c st')))
      && check_mlp_steps s c st' tl
  end.
Definition check_mlp (s : mlp_static) (c : mlp_cfg) (h0 : list Z) (sh0 : option (list pshape)) steps : bool :=
  opt_shapes_ok sh0 (mlp_built (mlp_build s h0)) && check_mlp_steps s c (mlp_build s h0) steps.

(* ---- scalar blocks *)
Section Scalar.
Variable p : sparams.
Variable casts : bool.
Variable shapes : sarch -> list pshape.
Variable ctor_ok : sstate -> bool.
Fixpoint check_s_steps (c : scfg) (st : sstate) (steps : list (smeth * Z * obs (Z * Z))) : bool :=
  match steps with
  | [] => true
  | (m, r1, (d, nm, rt, sh, rb)) :: tl =>
      let '(st', nm', rt') := s_mutate p casts shapes c st m r1 in
      (fst d =? s_layers (s_arch st')) && (snd d =? s_width (s_arch st')) && String.eqb nm nm' && zl_eqb rt rt'
      && opt_shapes_ok sh (s_built st')
      && rebuilt_ok rb (s_built st') (if ctor_ok st' then Some (shapes (s_arch st')) else None)
      && check_s_steps c st' tl
  end.
Definition check_s (c : scfg) (a0 : sarch) (sh0 : option (list pshape)) steps : bool :=
  opt_shapes_ok sh0 (shapes a0) && check_s_steps c (s_build shapes a0 true) steps.
End Scalar.

Definition check_lstm (s : lstm_static) := check_s lstm_params false (lstm_shapes s) (fun _ => true).
Definition check_simba (s : simba_static) := check_s simba_params false (simba_shapes s) (fun _ => true).
Definition check_resnet (s : resnet_static) := check_s resnet_params true (resnet_shapes s) resnet_ctor_ok.

(* ---- CNN *)
Definition cnn_desc_eqb (d : list Z * list Z * list Z) (a : cnn_arch) : bool :=
  let '(ch, ks, ss) := d in zl_eqb ch (channels a) && zl_eqb ks (kernels a) && zl_eqb ss (strides a).
Fixpoint check_cnn_steps (st : cnn_static) (c : cnn_cfg) (s : cnn_state)
         (steps : list (cnn_meth * Z * Z * obs (list Z * list Z * list Z))) : bool :=
  match steps with
  | [] => true
  | (m, r1, r2, (d, nm, rt, sh, rb)) :: tl =>
      let '(s', nm', rt') := cnn_mutate st c s m r1 r2 in
      cnn_desc_eqb d (cnn_arch_of s') && String.eqb nm nm' && zl_eqb rt rt'
      && opt_shapes_ok sh (cnn_built s')
      && rebuilt_ok rb (cnn_built s') (option_map cnn_built (cnn_of_ctor st c (cnn_arch_of s')))
      && check_cnn_steps st c s' tl
  end.
Definition check_cnn (st : cnn_static) (c : cnn_cfg) (a0 : cnn_arch) (sh0 : option (list pshape)) steps : bool :=
  opt_shapes_ok sh0 (cnn_shapes st a0) && check_cnn_steps st c (cnn_build st a0) steps.

(* ---- networks (clone-and-mutate steps) *)
Definition sarch_eqb (a b : sarch) : bool := (s_layers a =? s_layers b) && (s_width a =? s_width b).
Definition cnn_arch_eqb (a b : cnn_arch) : bool :=
  zl_eqb (channels a) (channels b) && zl_eqb (kernels a) (kernels b) && zl_eqb (strides a) (strides b).
Definition enc_eqb (a b : enc_arch) : bool :=
  match a, b with
  | EMlp x, EMlp y => zl_eqb x y
  | ECnn x, ECnn y => cnn_arch_eqb x y
  | ESimba x, ESimba y => sarch_eqb x y
  | ELstm x, ELstm y => sarch_eqb x y
  | _, _ => false
  end.
Definition net_arch_eqb (a b : net_arch) : bool :=
  (n_latent a =? n_latent b) && enc_eqb (n_enc a) (n_enc b) && zl_eqb (n_head a) (n_head b).
Fixpoint check_net_steps (s : net_static) (c : net_cfg) (st : net_state)
         (steps : list (net_meth * Z * Z * obs net_arch)) : bool :=
  match steps with
  | [] => true
  | (m, r1, r2, (d, nm, rt, sh, rb)) :: tl =>
      let '(st', nm', rt') := net_mutate s c st m r1 r2 in
      net_arch_eqb d (net_arch_of st') && String.eqb nm nm' && zl_eqb rt rt'
      && opt_shapes_ok sh (net_built st')
      && rebuilt_ok rb (net_built st') (Some (net_shapes s (net_arch_of st')))
      && check_net_steps s c st' tl
  end.
Definition check_net (s : net_static) (c : net_cfg) (a0 : net_arch) (sh0 : option (list pshape)) steps : bool :=
  opt_shapes_ok sh0 (net_shapes s a0) && check_net_steps s c (net_build s a0) steps.

(* ---- completion of a (partial) encoder configuration and its image under init_dict *)
Definition ostr_eqb (a b : option string) : bool :=
  match a, b with Some x, Some y => String.eqb x y | None, None => true | _, _ => false end.
Definition full_eqb (a b : enc_full_cfg) : bool :=
  String.eqb (f_activation a) (f_activation b) && ostr_eqb (f_output_activation a) (f_output_activation b)
  && Bool.eqb (f_layer_norm a) (f_layer_norm b) && Bool.eqb (f_output_layernorm a) (f_output_layernorm b)
  && Bool.eqb (f_output_vanish a) (f_output_vanish b).
Definition check_cfg (u : enc_user_cfg) (built rebuilt : enc_full_cfg) : bool :=
  full_eqb (complete_cfg true u) built && full_eqb (complete_cfg true (ctor_cfg (complete_cfg true u))) rebuilt.
