(* C03 — K comparison for EvolvableMultiInput. *)
From Coq Require Import List ZArith Bool String.
Import ListNotations.
From AgileV Require Import C03.Model C03.ModelCnn C03.ModelNet C03.ModelMulti C03.Check.
Local Open Scope Z_scope.

Definition multi_arch_eqb (a b : multi_arch) : bool := (mu_latent a =? mu_latent b) && cnn_arch_eqb (mu_cnn a) (mu_cnn b).
Fixpoint check_multi_steps (s : multi_static) (c : multi_cfg) (st : multi_state)
         (steps : list (multi_meth * Z * Z * obs multi_arch)) : bool :=
  match steps with
  | [] => true
  | (m, r1, r2, (d, nm, rt, sh, rb)) :: tl =>
      let '(st', nm', rt') := multi_mutate s c st m r1 r2 in
      multi_arch_eqb d (multi_arch_of st') && String.eqb nm nm' && zl_eqb rt rt'
      && opt_shapes_ok sh (multi_built st')
      && rebuilt_ok rb (multi_built st') (Some (multi_shapes s (multi_arch_of st')))
      && check_multi_steps s c st' tl
  end.
Definition check_multi (s : multi_static) (c : multi_cfg) (a0 : multi_arch) (sh0 : option (list pshape)) steps : bool :=
  opt_shapes_ok sh0 (multi_shapes s a0) && check_multi_steps s c (multi_build s a0) steps.
