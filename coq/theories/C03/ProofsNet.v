(* C03 — proofs about networks (encoder + head + latent width) and the completion of partial configurations. *)
From Coq Require Import List ZArith Bool String Lia.
Import ListNotations.
From AgileV Require Import C03.Model C03.ModelCnn C03.ModelNet C03.Proofs C03.ProofsS C03.ProofsCnn C03.ProofsCnn2 C03.ProofsCnnFix.
Local Open Scope Z_scope.
Notation length := List.length.

Definition net_meth_ok (m : net_meth) : Prop :=
  match m with
  | NAddLatent nn | NRemoveLatent nn => amount_ok nn
  | NHead hm => mlp_meth_ok hm
  | NEnc (EMAddNode _ nn) | NEnc (EMRemoveNode _ nn) | NEnc (ECAddChannel _ nn) | NEnc (ECRemoveChannel _ nn)
  | NEnc (ESAddNode nn) | NEnc (ESRemoveNode nn) => amount_ok nn
  | NEnc (ECChangeKernel ks _) => match ks with Some k => 1 <= k <= 9 | None => True end
  end.

Lemma latent_choices_nonneg r : 0 <= choose latent_choices r.
Proof.
  assert (H : In (choose latent_choices r) latent_choices) by (apply choose_In; discriminate).
  set (x := choose latent_choices r) in *. clearbody x. cbn in H. lia.
Qed.

(* ---- latent width: every interval containing [min_latent, max_latent] is invariant *)
Theorem net_latent_inv s c a m r1 r2 lo hi :
  lo <= n_min_latent c -> n_max_latent c <= hi -> net_meth_ok m ->
  lo <= n_latent a <= hi -> lo <= n_latent (arch_of (net_step s c a m r1 r2)) <= hi.
Proof.
  intros Hlo Hhi Hm HL. destruct m as [nn|nn|em|hm]; cbn [net_step].
  - assert (0 <= arg nn (choose latent_choices r2)) by (destruct nn; cbn [arg]; [exact Hm|apply latent_choices_nonneg]).
    unfold arch_of; cbn [fst]. destruct (Z.ltb_spec (n_latent a + arg nn (choose latent_choices r2)) (n_max_latent c)); cbn [n_latent]; lia.
  - assert (0 <= arg nn (choose latent_choices r2)) by (destruct nn; cbn [arg]; [exact Hm|apply latent_choices_nonneg]).
    unfold arch_of; cbn [fst]. destruct (Z.ltb_spec (n_min_latent c) (n_latent a - arg nn (choose latent_choices r2))); cbn [n_latent]; lia.
  - destruct (prefix_name "encoder." (enc_step (ns_enc s) (n_enc_cfg c) (n_enc a) em r1 r2)) as [[e' nm] rt]. exact HL.
  - destruct (ns_wrapped_head s && negb wrapper_forwards); [exact HL|].
    destruct (mlp_step (n_head_cfg c) (n_head a) hm r1 r2) as [[h' nm] rt]. exact HL.
Qed.

Theorem net_latent_effective s c a nn r1 r2 :
  let n := arg nn (choose latent_choices r2) in
  (n_latent a + n < n_max_latent c ->
   net_step s c a (NAddLatent nn) r1 r2 =
   ({| n_latent := n_latent a + n; n_enc := n_enc a; n_head := n_head a |}, "add_latent_node"%string, [n])) /\
  (n_min_latent c < n_latent a - n ->
   net_step s c a (NRemoveLatent nn) r1 r2 =
   ({| n_latent := n_latent a - n; n_enc := n_enc a; n_head := n_head a |}, "remove_latent_node"%string, [n])).
Proof.
  intros n. split; intros H; cbn [net_step]; fold n.
  - destruct (Z.ltb_spec (n_latent a + n) (n_max_latent c)); [reflexivity|lia].
  - destruct (Z.ltb_spec (n_min_latent c) (n_latent a - n)); [reflexivity|lia].
Qed.

(* ---- the head (when the call reaches it) and the encoder follow the theorems of their blocks *)
Lemma wrapped_reaches s : ns_wrapped_head s && negb wrapper_forwards = false.
Proof. unfold wrapper_forwards. cbn. apply andb_false_r. Qed.

Theorem net_head_step s c a hm r1 r2 :
  let a' := arch_of (net_step s c a (NHead hm) r1 r2) in
  n_head a' = arch_of (mlp_step (n_head_cfg c) (n_head a) hm r1 r2) /\ n_enc a' = n_enc a /\ n_latent a' = n_latent a /\
  name_of (net_step s c a (NHead hm) r1 r2) = String.append "head_net." (name_of (mlp_step (n_head_cfg c) (n_head a) hm r1 r2)).
Proof.
  cbn [net_step]. rewrite wrapped_reaches. unfold arch_of, name_of.
  destruct (mlp_step (n_head_cfg c) (n_head a) hm r1 r2) as [[h' nm] rt]. cbn. auto.
Qed.

Theorem net_head_bounds s c a hm r1 r2 :
  1 <= m_min_layers (n_head_cfg c) -> mlp_meth_ok hm -> mlp_in_bounds (n_head_cfg c) (n_head a) ->
  mlp_in_bounds (n_head_cfg c) (n_head (arch_of (net_step s c a (NHead hm) r1 r2))).
Proof.
  intros Hl Hm HB. cbn [net_step]. destruct (ns_wrapped_head s && negb wrapper_forwards); [exact HB|].
  pose proof (mlp_bounds_inv (n_head_cfg c) (n_head a) hm r1 r2 Hl Hm HB) as H. unfold arch_of in *.
  destruct (mlp_step (n_head_cfg c) (n_head a) hm r1 r2) as [[h' nm] rt]. exact H.
Qed.

Definition enc_in_bounds (c : enc_cfg) (e : enc_arch) : Prop :=
  match c, e with
  | KMlp c, EMlp h => mlp_in_bounds c h
  | KCnn c, ECnn a => c_min_layers c <= zlen (channels a) <= c_max_layers c /\ Forall (between (c_min_ch c) (c_max_ch c)) (channels a)
  | KScalar c, ESimba a | KScalar c, ELstm a => s_in_bounds c a
  | _, _ => False
  end.

Definition enc_meth_ok (m : enc_meth) : Prop := net_meth_ok (NEnc m).

Theorem net_enc_bounds st c e m r1 r2 :
  enc_meth_ok m -> enc_in_bounds c e -> enc_in_bounds c (arch_of (enc_step st c e m r1 r2)).
Proof.
  intros Hm HB. destruct e as [h|a|a|a], c as [c|c|c]; cbn [enc_in_bounds] in HB; try contradiction;
    destruct m as [hl nn|hl nn|ks hl|hl nn|hl nn|nn|nn]; cbn [enc_step]; try exact HB.
  - (* MLP add_node *) destruct HB as [HL HF]. pose proof (mlp_add_node_widths c h hl nn r1 r2 _ _ (Z.le_refl _) (Z.le_refl _) Hm HF) as H.
    pose proof (mlp_add_node_length c h hl nn r1 r2) as E. unfold arch_of in *.
    destruct (mlp_add_node c h hl nn r1 r2) as [[h' nm] rt]. cbn [fst enc_in_bounds] in *. split; [rewrite E|]; auto.
  - destruct HB as [HL HF]. pose proof (mlp_remove_node_widths c h hl nn r1 r2 _ _ (Z.le_refl _) (Z.le_refl _) Hm HF) as H.
    pose proof (mlp_remove_node_length c h hl nn r1 r2) as E. unfold arch_of in *.
    destruct (mlp_remove_node c h hl nn r1 r2) as [[h' nm] rt]. cbn [fst enc_in_bounds] in *. split; [rewrite E|]; auto.
  - (* CNN change_kernel: channels untouched *)
    destruct st; try exact HB. destruct (Z.ltb_spec 1 (zlen (channels a))); [|exact HB].
    match goal with |- context[cnn_change_kernel ?st0 c a ks hl r1 r2] =>
      pose proof (cnn_change_kernel_channels_same st0 c a ks hl r1 r2 H) as E;
      unfold arch_of in *; destruct (cnn_change_kernel st0 c a ks hl r1 r2) as [[a' nm] rt] end.
    cbn [fst enc_in_bounds] in *. rewrite E. exact HB.
  - destruct HB as [HL HF]. destruct (cnn_add_channel_spec c a hl nn r1 r2) as (_ & _ & E & H). unfold arch_of in *.
    specialize (H _ _ (Z.le_refl _) (Z.le_refl _) Hm HF).
    destruct (cnn_add_channel c a hl nn r1 r2) as [[a' nm] rt]. cbn [fst enc_in_bounds] in *. split; [rewrite E|]; auto.
  - destruct HB as [HL HF]. destruct (cnn_remove_channel_spec c a hl nn r1 r2) as (_ & _ & E & H). unfold arch_of in *.
    specialize (H _ _ (Z.le_refl _) (Z.le_refl _) Hm HF).
    destruct (cnn_remove_channel c a hl nn r1 r2) as [[a' nm] rt]. cbn [fst enc_in_bounds] in *. split; [rewrite E|]; auto.
  - pose proof (s_bounds_inv simba_params c a (SAddNode nn) r2 simba_choices_ok Hm HB) as H. cbn [s_step] in H. unfold arch_of in *.
    destruct (s_add_node simba_params c a nn r2) as [[a' nm] rt]. exact H.
  - pose proof (s_bounds_inv simba_params c a (SRemoveNode nn) r2 simba_choices_ok Hm HB) as H. cbn [s_step] in H. unfold arch_of in *.
    destruct (s_remove_node simba_params c a nn r2) as [[a' nm] rt]. exact H.
  - pose proof (s_bounds_inv lstm_params c a (SAddNode nn) r2 lstm_choices_ok Hm HB) as H. cbn [s_step] in H. unfold arch_of in *.
    destruct (s_add_node lstm_params c a nn r2) as [[a' nm] rt]. exact H.
  - pose proof (s_bounds_inv lstm_params c a (SRemoveNode nn) r2 lstm_choices_ok Hm HB) as H. cbn [s_step] in H. unfold arch_of in *.
    destruct (s_remove_node lstm_params c a nn r2) as [[a' nm] rt]. exact H.
Qed.

Definition net_in_bounds (c : net_cfg) (a : net_arch) : Prop :=
  n_min_latent c <= n_latent a <= n_max_latent c /\ enc_in_bounds (n_enc_cfg c) (n_enc a) /\ mlp_in_bounds (n_head_cfg c) (n_head a).

Theorem net_bounds_inv s c a m r1 r2 :
  1 <= m_min_layers (n_head_cfg c) -> net_meth_ok m -> net_in_bounds c a -> net_in_bounds c (arch_of (net_step s c a m r1 r2)).
Proof.
  intros Hl Hm (HL & HE & HH). split; [apply net_latent_inv; auto; lia|].
  destruct m as [nn|nn|em|hm].
  - cbn [net_step]. unfold arch_of; cbn [fst]. destruct (_ <? _); cbn [n_enc n_head]; auto.
  - cbn [net_step]. unfold arch_of; cbn [fst]. destruct (_ <? _); cbn [n_enc n_head]; auto.
  - cbn [net_step]. pose proof (net_enc_bounds (ns_enc s) (n_enc_cfg c) (n_enc a) em r1 r2 Hm HE) as H. unfold arch_of in *.
    destruct (enc_step (ns_enc s) (n_enc_cfg c) (n_enc a) em r1 r2) as [[e' nm] rt]. cbn [prefix_name fst n_enc n_head] in *. auto.
  - split.
    + cbn [net_step]. destruct (ns_wrapped_head s && negb wrapper_forwards); [exact HE|]. unfold arch_of.
      destruct (mlp_step (n_head_cfg c) (n_head a) hm r1 r2) as [[h' nm] rt]. exact HE.
    + now apply net_head_bounds.
Qed.

Definition net_op := (net_meth * Z * Z)%type.
Definition net_run s c (a : net_arch) (ops : list net_op) : net_arch :=
  fold_left (fun a '(m, r1, r2) => arch_of (net_step s c a m r1 r2)) ops a.
Theorem net_bounds_chain s c : 1 <= m_min_layers (n_head_cfg c) -> forall ops a,
  Forall (fun o : net_op => net_meth_ok (fst (fst o))) ops -> net_in_bounds c a -> net_in_bounds c (net_run s c a ops).
Proof.
  intros Hl. induction ops as [|[[m r1] r2] ops IH]; intros a HF HB; cbn; auto.
  inversion HF; subst. apply IH; auto. now apply net_bounds_inv.
Qed.

(* clone-and-mutate: the module is the one built for the descriptor after every step *)
Theorem net_rebuild_exact s c st m r1 r2 :
  let st' := fst (fst (net_mutate s c st m r1 r2)) in net_built st' = net_shapes s (net_arch_of st').
Proof. unfold net_mutate. destruct (net_step _ _ _ _ _ _) as [[a' nm] rt]. reflexivity. Qed.

(* ---- finding: on the current tree a head mutation advertised by a StochasticActor does nothing *)
Theorem wrapped_head_mutation_ineffective_refuted :
  exists s c a r1 r2,
    ns_wrapped_head s = true /\ zlen (n_head a) < m_max_layers (n_head_cfg c) /\
    net_step_prefix s c a (NHead MAddLayer) r1 r2 = (a, ""%string, []).
Proof.
  exists {| ns_enc := SMlp 4 true; ns_head_in_extra := 0; ns_head_out := 2; ns_head_layer_norm := true; ns_head_noisy := false;
            ns_wrapped_head := true; ns_log_std := Some 2; ns_dueling := None |},
         {| n_min_latent := 8; n_max_latent := 128; n_enc_cfg := KMlp {| m_min_layers := 1; m_max_layers := 3; m_min_nodes := 64; m_max_nodes := 500 |};
            n_head_cfg := {| m_min_layers := 1; m_max_layers := 3; m_min_nodes := 64; m_max_nodes := 500 |} |},
         {| n_latent := 16; n_enc := EMlp [64]; n_head := [64] |}, 0, 0.
  split; [reflexivity|]. split; [cbn; lia|reflexivity].
Qed.

(* ---- completion of a partial configuration is a fixed point of (build ; init_dict) ... *)
Theorem ctor_idempotent_lemma u :
  complete_cfg true (ctor_cfg (complete_cfg true u)) = complete_cfg true u.
Proof. destruct u as [[a|] [oa|] [ln|] oln ov]; reflexivity. Qed.

(* ... and was not before fix 882173d: a configuration without activation keys *)
Theorem ctor_not_idempotent_refuted_lemma :
  exists u, complete_cfg false (ctor_cfg (complete_cfg false u)) <> complete_cfg false u.
Proof.
  exists {| u_activation := None; u_output_activation := None; u_layer_norm := None; u_output_layernorm := None; u_output_vanish := None |}.
  cbn. discriminate.
Qed.
