(* C03 — executable model of EvolvableMultiInput (agilerl/modules/multi_input.py) over a Dict space with
   one vector and one image sub-space: latent width + one EvolvableCNN feature extractor.  Model only. *)
From Coq Require Import List ZArith Bool String.
Import ListNotations.
From AgileV Require Import C03.Model C03.ModelCnn C03.ModelNet.
Local Open Scope string_scope.
Local Open Scope list_scope.
Local Open Scope Z_scope.
Notation "a +s b" := (String.append a b) (at level 60, right associativity).

Record multi_static := { mus_in_ch : Z; mus_h : Z; mus_w : Z; mus_layer_norm : bool; mus_vec_dims : Z; mus_out : Z }.
Record multi_cfg := { mu_min_latent : Z; mu_max_latent : Z; mu_cnn_cfg : cnn_cfg }.
Record multi_arch := { mu_latent : Z; mu_cnn : cnn_arch }.
Inductive multi_meth := MuAddLatent (nn : option Z) | MuRemoveLatent (nn : option Z) | MuCnn (m : cnn_meth).

Definition mu_cnn_static (s : multi_static) (latent : Z) : cnn_static :=
  {| cs_in_ch := mus_in_ch s; cs_h := mus_h s; cs_w := mus_w s; cs_out := latent; cs_layer_norm := mus_layer_norm s |}.

Definition multi_step (s : multi_static) (c : multi_cfg) (a : multi_arch) (m : multi_meth) (r1 r2 : Z) : step_out multi_arch :=
  match m with
  | MuAddLatent nn =>
      let n := arg nn (choose latent_choices r2) in
      ((if mu_latent a + n <? mu_max_latent c then {| mu_latent := mu_latent a + n; mu_cnn := mu_cnn a |} else a),
       "add_latent_node", [n])
  | MuRemoveLatent nn =>
      let n := arg nn (choose latent_choices r2) in
      ((if mu_min_latent c <? mu_latent a - n then {| mu_latent := mu_latent a - n; mu_cnn := mu_cnn a |} else a),
       "remove_latent_node", [n])
  | MuCnn cm =>
      let '(a', nm, rt) := cnn_step (mu_cnn_static s (mu_latent a)) (mu_cnn_cfg c) (mu_cnn a) cm r1 r2 in
      ({| mu_latent := mu_latent a; mu_cnn := a' |}, "feature_net.b." +s nm, rt)
  end.

(* extracted features (latent) are concatenated with the raw vector observation before the final layer *)
Definition multi_shapes (s : multi_static) (a : multi_arch) : list pshape :=
  tag "fn:" (cnn_shapes (mu_cnn_static s (mu_latent a)) (mu_cnn a))
  ++ [ ("final_dense.weight", [], [mus_out s; mu_latent a + mus_vec_dims s]); ("final_dense.bias", [], [mus_out s]) ].

Record multi_state := { multi_arch_of : multi_arch; multi_built : list pshape }.
Definition multi_build (s : multi_static) (a : multi_arch) : multi_state := {| multi_arch_of := a; multi_built := multi_shapes s a |}.
Definition multi_mutate s c (st : multi_state) (m : multi_meth) (r1 r2 : Z) : multi_state * string * list Z :=
  let '(a', nm, rt) := multi_step s c (multi_arch_of st) m r1 r2 in (multi_build s a', nm, rt).
