(* C03 — proofs about the scalar architecture machine shared by EvolvableLSTM / SimBa / ResNet. *)
From Coq Require Import List ZArith Bool String Lia.
Import ListNotations.
From AgileV Require Import C03.Model C03.Proofs.
Local Open Scope Z_scope.
Notation length := List.length.

Definition smeth_ok (m : smeth) : Prop :=
  match m with SAddNode nn | SRemoveNode nn => amount_ok nn | _ => True end.
Definition choices_ok (p : sparams) : Prop := sp_choices p <> [] /\ Forall (fun x => 0 <= x) (sp_choices p).

Lemma lstm_choices_ok : choices_ok lstm_params.   Proof. split; [discriminate|repeat constructor; lia]. Qed.
Lemma simba_choices_ok : choices_ok simba_params. Proof. split; [discriminate|repeat constructor; lia]. Qed.
Lemma resnet_choices_ok : choices_ok resnet_params. Proof. split; [discriminate|repeat constructor; lia]. Qed.

Lemma s_amount_nonneg p nn r : choices_ok p -> amount_ok nn -> 0 <= arg nn (choose (sp_choices p) r).
Proof.
  intros [Hne HF] Hn. destruct nn; cbn [arg]; auto.
  rewrite Forall_forall in HF. apply HF. now apply choose_In.
Qed.

(* width: every interval containing [min_width, max_width] is invariant; layers likewise *)
Theorem s_width_inv p c a m r lo hi :
  choices_ok p -> smeth_ok m -> lo <= s_min_width c -> s_max_width c <= hi ->
  lo <= s_width a <= hi -> lo <= s_width (arch_of (s_step p c a m r)) <= hi.
Proof.
  intros Hp Hm Hlo Hhi Hw.
  assert (Hadd : forall nn, amount_ok nn -> lo <= s_width (arch_of (s_add_node p c a nn r)) <= hi).
  { intros nn Hn. unfold s_add_node, arch_of; cbn [fst]. pose proof (s_amount_nonneg p nn r Hp Hn).
    destruct (sp_add_strict p).
    - destruct (Z.ltb_spec (s_width a + arg nn (choose (sp_choices p) r)) (s_max_width c)); cbn [s_width]; lia.
    - destruct (Z.leb_spec (s_width a + arg nn (choose (sp_choices p) r)) (s_max_width c)); cbn [s_width]; lia. }
  destruct m as [| |nn|nn]; cbn [s_step].
  - destruct (_ <? _); [unfold arch_of; cbn; lia|]. apply Hadd; cbn; auto.
  - destruct (_ <? _); [unfold arch_of; cbn; lia|]. apply Hadd; cbn; auto.
  - now apply Hadd.
  - unfold s_remove_node, arch_of; cbn [fst]. pose proof (s_amount_nonneg p nn r Hp Hm).
    destruct (sp_rem_strict p).
    + destruct (Z.ltb_spec (s_min_width c) (s_width a - arg nn (choose (sp_choices p) r))); cbn [s_width]; lia.
    + destruct (Z.leb_spec (s_min_width c) (s_width a - arg nn (choose (sp_choices p) r))); cbn [s_width]; lia.
Qed.

Lemma s_add_node_layers p c a nn r : s_layers (arch_of (s_add_node p c a nn r)) = s_layers a.
Proof. unfold s_add_node, arch_of; cbn [fst]. destruct (sp_add_strict p); [destruct (_ <? _)|destruct (_ <=? _)]; reflexivity. Qed.
Lemma s_remove_node_layers p c a nn r : s_layers (arch_of (s_remove_node p c a nn r)) = s_layers a.
Proof. unfold s_remove_node, arch_of; cbn [fst]. destruct (sp_rem_strict p); [destruct (_ <? _)|destruct (_ <=? _)]; reflexivity. Qed.

Theorem s_layers_inv p c a m r lo hi :
  lo <= s_min_layers c -> s_max_layers c <= hi ->
  lo <= s_layers a <= hi -> lo <= s_layers (arch_of (s_step p c a m r)) <= hi.
Proof.
  intros Hlo Hhi HL. destruct m as [| |nn|nn]; cbn [s_step].
  - destruct (Z.ltb_spec (s_layers a) (s_max_layers c)); [unfold arch_of; cbn; lia|]. now rewrite s_add_node_layers.
  - destruct (Z.ltb_spec (s_min_layers c) (s_layers a)); [unfold arch_of; cbn; lia|]. now rewrite s_add_node_layers.
  - now rewrite s_add_node_layers.
  - now rewrite s_remove_node_layers.
Qed.

Definition s_in_bounds (c : scfg) (a : sarch) : Prop :=
  s_min_layers c <= s_layers a <= s_max_layers c /\ s_min_width c <= s_width a <= s_max_width c.

Theorem s_bounds_inv p c a m r :
  choices_ok p -> smeth_ok m -> s_in_bounds c a -> s_in_bounds c (arch_of (s_step p c a m r)).
Proof.
  intros Hp Hm [HL HW]. split; [apply s_layers_inv|apply s_width_inv]; auto; lia.
Qed.

Definition s_op := (smeth * Z)%type.
Definition s_run (p : sparams) (c : scfg) (a : sarch) (ops : list s_op) : sarch :=
  fold_left (fun a '(m, r) => arch_of (s_step p c a m r)) ops a.
Definition s_op_ok (o : s_op) : Prop := smeth_ok (fst o).

Theorem s_bounds_chain p c : choices_ok p -> forall ops a,
  Forall s_op_ok ops -> s_in_bounds c a -> s_in_bounds c (s_run p c a ops).
Proof.
  intros Hp. induction ops as [|[m r] ops IH]; intros a HF HB; cbn; auto.
  inversion HF; subst. apply IH; auto. now apply s_bounds_inv.
Qed.

Theorem s_never_further_out p c a m r :
  choices_ok p -> smeth_ok m ->
  let a' := arch_of (s_step p c a m r) in
  Z.min (s_width a) (s_min_width c) <= s_width a' <= Z.max (s_width a) (s_max_width c) /\
  Z.min (s_layers a) (s_min_layers c) <= s_layers a' <= Z.max (s_layers a) (s_max_layers c).
Proof. intros Hp Hm a'. split; [apply s_width_inv|apply s_layers_inv]; auto; lia. Qed.

(* validity: at least one layer/block, positive width (what the constructors and torch need).
   NOTE the remove guard of LSTM is non-strict, so it needs 1 <= min_width; the strict classes need 0 <= min_width *)
Definition s_valid (a : sarch) : Prop := 1 <= s_layers a /\ 1 <= s_width a.
Theorem s_valid_inv p c a m r :
  choices_ok p -> smeth_ok m -> 1 <= s_min_layers c ->
  (if sp_rem_strict p then 0 <= s_min_width c else 1 <= s_min_width c) ->
  s_valid a -> s_valid (arch_of (s_step p c a m r)).
Proof.
  intros Hp Hm Hl Hw [HL HW]. split.
  - assert (1 <= s_layers (arch_of (s_step p c a m r)) <= Z.max (s_layers a) (s_max_layers c)); [|lia].
    apply s_layers_inv; lia.
  - assert (Hadd : forall nn, amount_ok nn -> 1 <= s_width (arch_of (s_add_node p c a nn r))).
    { intros nn Hn. unfold s_add_node, arch_of; cbn [fst]. pose proof (s_amount_nonneg p nn r Hp Hn).
      destruct (sp_add_strict p).
      - destruct (Z.ltb_spec (s_width a + arg nn (choose (sp_choices p) r)) (s_max_width c)); cbn [s_width]; lia.
      - destruct (Z.leb_spec (s_width a + arg nn (choose (sp_choices p) r)) (s_max_width c)); cbn [s_width]; lia. }
    destruct m as [| |nn|nn]; cbn [s_step].
    + destruct (_ <? _); [unfold arch_of; cbn; lia|]. apply Hadd; cbn; auto.
    + destruct (_ <? _); [unfold arch_of; cbn; lia|]. apply Hadd; cbn; auto.
    + now apply Hadd.
    + unfold s_remove_node, arch_of; cbn [fst]. pose proof (s_amount_nonneg p nn r Hp Hm).
      destruct (sp_rem_strict p).
      * destruct (Z.ltb_spec (s_min_width c) (s_width a - arg nn (choose (sp_choices p) r))); cbn [s_width]; lia.
      * destruct (Z.leb_spec (s_min_width c) (s_width a - arg nn (choose (sp_choices p) r))); cbn [s_width]; lia.
Qed.

(* ---- advertised mutations are effective *)
Theorem s_add_layer_effective p c a r :
  s_layers a < s_max_layers c ->
  s_step p c a SAddLayer r = ({| s_layers := s_layers a + 1; s_width := s_width a |}, sp_add_layer p, []).
Proof. intros H. cbn [s_step]. destruct (Z.ltb_spec (s_layers a) (s_max_layers c)); [auto|lia]. Qed.

Theorem s_remove_layer_effective p c a r :
  s_min_layers c < s_layers a ->
  s_step p c a SRemoveLayer r = ({| s_layers := s_layers a - 1; s_width := s_width a |}, sp_remove_layer p, []).
Proof. intros H. cbn [s_step]. destruct (Z.ltb_spec (s_min_layers c) (s_layers a)); [auto|lia]. Qed.

Theorem s_layer_fallback p c a r :
  (s_max_layers c <= s_layers a -> s_step p c a SAddLayer r = s_add_node p c a None r) /\
  (s_layers a <= s_min_layers c -> s_step p c a SRemoveLayer r = s_add_node p c a None r) /\
  name_of (s_add_node p c a None r) = sp_add_node p.
Proof.
  repeat split; intros; cbn [s_step].
  - destruct (Z.ltb_spec (s_layers a) (s_max_layers c)); [lia|auto].
  - destruct (Z.ltb_spec (s_min_layers c) (s_layers a)); [lia|auto].
Qed.

Theorem s_add_node_effective p c a nn r :
  let n := arg nn (choose (sp_choices p) r) in
  (if sp_add_strict p then s_width a + n < s_max_width c else s_width a + n <= s_max_width c) ->
  s_step p c a (SAddNode nn) r = ({| s_layers := s_layers a; s_width := s_width a + n |}, sp_add_node p, [n]).
Proof.
  intros n H. cbn [s_step]. unfold s_add_node. fold n. destruct (sp_add_strict p).
  - destruct (Z.ltb_spec (s_width a + n) (s_max_width c)); [auto|lia].
  - destruct (Z.leb_spec (s_width a + n) (s_max_width c)); [auto|lia].
Qed.

Theorem s_remove_node_effective p c a nn r :
  let n := arg nn (choose (sp_choices p) r) in
  (if sp_rem_strict p then s_min_width c < s_width a - n else s_min_width c <= s_width a - n) ->
  s_step p c a (SRemoveNode nn) r = ({| s_layers := s_layers a; s_width := s_width a - n |}, sp_remove_node p, [n]).
Proof.
  intros n H. cbn [s_step]. unfold s_remove_node. fold n. destruct (sp_rem_strict p).
  - destruct (Z.ltb_spec (s_min_width c) (s_width a - n)); [auto|lia].
  - destruct (Z.leb_spec (s_min_width c) (s_width a - n)); [auto|lia].
Qed.

(* ---- rebuilt after every mutation; the constructor description rebuilds the same module *)
Definition s_state_run p casts shapes c (st : sstate) (ops : list s_op) : sstate :=
  fold_left (fun st '(m, r) => fst (fst (s_mutate p casts shapes c st m r))) ops st.

Lemma s_mutate_arch p casts shapes c st m r :
  let st' := fst (fst (s_mutate p casts shapes c st m r)) in
  s_arch st' = arch_of (s_step p c (s_arch st) m r) /\ s_built st' = shapes (s_arch st') /\
  (casts = true -> s_pyint st = true -> s_pyint st' = true).
Proof.
  unfold s_mutate, arch_of. destruct (s_step p c (s_arch st) m r) as [[a' nm] rt]. cbn [fst snd s_arch s_built s_build s_pyint].
  repeat split. intros -> ->. reflexivity.
Qed.

Theorem s_rebuild_exact p shapes c : forall ops st,
  s_built st = shapes (s_arch st) ->
  let st' := s_state_run p true shapes c st ops in
  s_built st' = shapes (s_arch st') /\ s_arch st' = s_run p c (s_arch st) ops /\ (s_pyint st = true -> s_pyint st' = true).
Proof.
  induction ops as [|[m r] ops IH]; intros st Hb; cbn [s_state_run s_run fold_left]; auto.
  destruct (s_mutate_arch p true shapes c st m r) as (Ha & Hbu & Hpy).
  specialize (IH (fst (fst (s_mutate p true shapes c st m r))) Hbu).
  cbn zeta in IH. destruct IH as (I1 & I2 & I3). split; [exact I1|]. split.
  - unfold s_state_run in I2. rewrite I2, Ha. reflexivity.
  - intros H. apply I3. apply Hpy; auto.
Qed.

(* EvolvableResNet: the constructor asserts isinstance(channel_size, int); with the int() cast of the
   current tree the descriptor stays a Python int over every chain, so the constructor accepts it *)
Lemma s_layers_ge1_chain p c : 1 <= s_min_layers c -> forall ops a,
  1 <= s_layers a -> 1 <= s_layers (s_run p c a ops).
Proof.
  intros Hl. induction ops as [|[m r] ops IH]; intros a Ha; cbn [s_run fold_left]; auto.
  apply IH. assert (1 <= s_layers (arch_of (s_step p c a m r)) <= Z.max (s_layers a) (s_max_layers c)); [|lia].
  apply s_layers_inv; lia.
Qed.

Theorem resnet_ctor_accepts shapes c ops a0 :
  1 <= s_min_layers c -> 1 <= s_layers a0 ->
  resnet_ctor_ok (s_state_run resnet_params true shapes c (s_build shapes a0 true) ops) = true.
Proof.
  intros Hl HV.
  destruct (s_rebuild_exact resnet_params shapes c ops (s_build shapes a0 true) eq_refl) as (_ & Ha & Hpy).
  unfold resnet_ctor_ok. rewrite Hpy by reflexivity. rewrite Ha. cbn [s_arch s_build andb].
  pose proof (s_layers_ge1_chain resnet_params c Hl ops a0 HV).
  destruct (Z.leb_spec 1 (s_layers (s_run resnet_params c a0 ops))); auto; lia.
Qed.

(* pinned behaviour before f0602d4 (no int() cast): one drawn add_channel makes channel_size a numpy
   integer and the constructor rejects its own description *)
Theorem resnet_rebuild_refuted :
  exists shapes c a0 m r,
    s_in_bounds c a0 /\ (resnet_ctor_ok (s_build shapes a0 true) = true) /\
    (resnet_ctor_ok (fst (fst (s_mutate resnet_params false shapes c (s_build shapes a0 true) m r))) = false).
Proof.
  exists (fun _ => []), {| s_min_layers := 1; s_max_layers := 4; s_min_width := 32; s_max_width := 256 |},
         {| s_layers := 1; s_width := 32 |}, (SAddNode None), 0.
  split; [unfold s_in_bounds; cbn; lia|]. split; reflexivity.
Qed.
