(* C03 — executable model of EvolvableCNN's architecture mutations (agilerl/modules/cnn.py,
   calc_max_kernel_sizes of agilerl/utils/evolvable_networks.py).  Model only. *)
From Coq Require Import List ZArith Bool String.
Import ListNotations.
From AgileV Require Import C03.Model.
Local Open Scope string_scope.
Local Open Scope list_scope.
Local Open Scope Z_scope.
Notation "a +s b" := (String.append a b) (at level 60, right associativity).

Record cnn_cfg := { c_min_layers : Z; c_max_layers : Z; c_min_ch : Z; c_max_ch : Z }.
Record cnn_static := { cs_in_ch : Z; cs_h : Z; cs_w : Z; cs_out : Z; cs_layer_norm : bool }.
Record cnn_arch := { channels : list Z; kernels : list Z; strides : list Z }.

(* one convolution without padding: 1 + floor((in - k) / s) *)
Definition conv_out (x k s : Z) : Z := 1 + (x - k) / s.

(* feature-map sizes after every layer (height, width), as torch computes them *)
Fixpoint fmaps (h w : Z) (ks ss : list Z) : list (Z * Z) :=
  match ks, ss with
  | k :: ks', s :: ss' => let h' := conv_out h k s in let w' := conv_out w k s in (h', w') :: fmaps h' w' ks' ss'
  | _, _ => []
  end.
Definition last_fmap (h w : Z) (ks ss : list Z) : Z * Z := last (fmaps h w ks ss) (h, w).

(* calc_max_kernel_sizes: a quarter of the smaller output side, truncated, clipped to [1, 9] *)
Definition clip_kernel (m : Z) : Z :=
  let q := Z.quot m 4 in if q <=? 0 then 1 else if 9 <? q then 9 else q.
Definition max_kernels (h w : Z) (ks ss : list Z) : list Z :=
  map (fun hw => clip_kernel (Z.min (fst hw) (snd hw))) (fmaps h w ks ss).

(* every layer sees an input at least as large as its kernel; kernels and strides >= 1 *)
Fixpoint fm_valid (h w : Z) (ks ss : list Z) : bool :=
  match ks, ss with
  | k :: ks', s :: ss' => (1 <=? k) && (1 <=? s) && (k <=? h) && (k <=? w) && fm_valid (conv_out h k s) (conv_out w k s) ks' ss'
  | [], [] => true
  | _, _ => false
  end.
Definition cnn_valid (st : cnn_static) (a : cnn_arch) : bool :=
  negb (zlen (channels a) =? 0) && (zlen (kernels a) =? zlen (channels a)) && (zlen (strides a) =? zlen (channels a))
  && forallb (fun c => 0 <? c) (channels a) && fm_valid (cs_h st) (cs_w st) (kernels a) (strides a).

Inductive cnn_meth :=
| CAddLayer | CRemoveLayer
| CChangeKernel (kernel_size hidden_layer : option Z)
| CAddChannel (hidden_layer numb_new_channels : option Z)
| CRemoveChannel (hidden_layer numb_new_channels : option Z).

Definition channel_choices : list Z := [8; 16; 32].

Definition cnn_channel_args (ch : list Z) (hl nn : option Z) (r1 r2 : Z) : Z * Z :=
  match hl, nn with
  | None, None => (pick 0 (zlen ch) r1, choose channel_choices r2)
  | None, Some n => (pick 0 (zlen ch) r1, n)
  | Some l, None => (Z.min l (zlen ch - 1), choose channel_choices r2)
  | Some l, Some n => (Z.min l (zlen ch - 1), n)
  end.

Definition cnn_add_channel (c : cnn_cfg) (a : cnn_arch) hl nn r1 r2 : step_out cnn_arch :=
  let '(i, n) := cnn_channel_args (channels a) hl nn r1 r2 in
  ((if znth (channels a) i + n <=? c_max_ch c                                     (* HARD LIMIT <= *)
    then {| channels := updz (channels a) i (fun x => x + n); kernels := kernels a; strides := strides a |}
    else a), "add_channel", [i; n]).

Definition cnn_remove_channel (c : cnn_cfg) (a : cnn_arch) hl nn r1 r2 : step_out cnn_arch :=
  let '(i, n) := cnn_channel_args (channels a) hl nn r1 r2 in
  if c_min_ch c <=? znth (channels a) i - n                                       (* HARD LIMIT >= *)
  then ({| channels := updz (channels a) i (fun x => x - n); kernels := kernels a; strides := strides a |}, "remove_channel", [i; n])
  else (a, "remove_channel", [i; 0]).

Definition cnn_add_layer (st : cnn_static) (c : cnn_cfg) (a : cnn_arch) (r1 r2 : Z) : step_out cnn_arch :=
  let mk := last (max_kernels (cs_h st) (cs_w st) (kernels a) (strides a)) 1 in
  let '(ho, wo) := last_fmap (cs_h st) (cs_w st) (kernels a) (strides a) in
  if (zlen (channels a) <? c_max_layers c) && negb ((ho <=? 2) || (wo <=? 2)) && (2 <? mk)   (* HARD LIMIT *)
  then ({| channels := channels a ++ [last (channels a) 0];
           kernels := kernels a ++ [pick 2 (mk + 1) r1];
           strides := strides a ++ [pick 1 (last (strides a) 0 + 1) r2] |}, "add_layer", [])
  else cnn_add_channel c a None None r1 r2.

Definition cnn_remove_layer (c : cnn_cfg) (a : cnn_arch) (r1 r2 : Z) : step_out cnn_arch :=
  if c_min_layers c <? zlen (channels a)
  then ({| channels := removelast (channels a); kernels := removelast (kernels a); strides := removelast (strides a) |},
        "remove_layer", [])
  else cnn_add_channel c a None None r1 r2.

(* change_kernel as it was before fix 0a5e775 (pinned): no check that the later layers still fit *)
Definition cnn_change_kernel_prefix (st : cnn_static) (c : cnn_cfg) (a : cnn_arch) (ks hl : option Z) (r1 r2 : Z) : step_out cnn_arch :=
  if 1 <? zlen (channels a) then
    let '(i, r) := match hl with Some l => (l, r1) | None => (pick 1 (Z.min 4 (zlen (channels a))) r1, r2) end in
    let mk := znth (max_kernels (cs_h st) (cs_w st) (kernels a) (strides a)) i in
    let k := match ks with Some k => k | None => pick 1 (mk + 1) r end in
    ({| channels := channels a; kernels := updz (kernels a) i (fun _ => k); strides := strides a |}, "change_kernel", [i; k])
  else cnn_add_layer st c a r1 r2.

(* EvolvableCNN._kernels_fit: walking over zip(kernel sizes, strides), no feature map is smaller than the kernel applied to it *)
Fixpoint kernels_fit (h w : Z) (ks ss : list Z) : bool :=
  match ks, ss with
  | k :: ks', s :: ss' => (k <=? h) && (k <=? w) && kernels_fit (conv_out h k s) (conv_out w k s) ks' ss'
  | _, _ => true
  end.

(* change_kernel (current tree, fix 0a5e775): the kernel is changed as before; HARD LIMIT: when the kernels no longer fit, the
   old sizes are restored and the old kernel of that layer is reported *)
Definition cnn_change_kernel (st : cnn_static) (c : cnn_cfg) (a : cnn_arch) (ks hl : option Z) (r1 r2 : Z) : step_out cnn_arch :=
  if 1 <? zlen (channels a) then
    let '(a', nm, rt) := cnn_change_kernel_prefix st c a ks hl r1 r2 in
    if kernels_fit (cs_h st) (cs_w st) (kernels a') (strides a') then (a', nm, rt)
    else (a, nm, [nth 0 rt 0; znth (kernels a) (nth 0 rt 0)])
  else cnn_add_layer st c a r1 r2.

Definition cnn_step_prefix (st : cnn_static) (c : cnn_cfg) (a : cnn_arch) (m : cnn_meth) (r1 r2 : Z) : step_out cnn_arch :=
  match m with
  | CAddLayer => cnn_add_layer st c a r1 r2
  | CRemoveLayer => cnn_remove_layer c a r1 r2
  | CChangeKernel ks hl => cnn_change_kernel_prefix st c a ks hl r1 r2
  | CAddChannel hl nn => cnn_add_channel c a hl nn r1 r2
  | CRemoveChannel hl nn => cnn_remove_channel c a hl nn r1 r2
  end.

Definition cnn_step (st : cnn_static) (c : cnn_cfg) (a : cnn_arch) (m : cnn_meth) (r1 r2 : Z) : step_out cnn_arch :=
  match m with
  | CChangeKernel ks hl => cnn_change_kernel st c a ks hl r1 r2
  | _ => cnn_step_prefix st c a m r1 r2
  end.

(* parameters of the torch module built by create_cnn + the final linear layer *)
Fixpoint cnn_conv_shapes (ln : bool) (l_no prev : Z) (chs ks : list Z) : list pshape :=
  match chs, ks with
  | c :: chs', k :: ks' =>
      [ ("conv_layer_#.weight", [l_no], [c; prev; k; k]); ("conv_layer_#.bias", [l_no], [c]) ]
      ++ (if ln then bn_params "layer_norm_#" [l_no] c else [])
      ++ cnn_conv_shapes ln (l_no + 1) c chs' ks'
  | _, _ => []
  end.
Definition cnn_shapes (st : cnn_static) (a : cnn_arch) : list pshape :=
  let '(ho, wo) := last_fmap (cs_h st) (cs_w st) (kernels a) (strides a) in
  cnn_conv_shapes (cs_layer_norm st) 1 (cs_in_ch st) (channels a) (kernels a)
  ++ [ ("linear_output.weight", [], [cs_out st; last (channels a) 0 * ho * wo]); ("linear_output.bias", [], [cs_out st]) ].

Record cnn_state := { cnn_arch_of : cnn_arch; cnn_built : list pshape }.
Definition cnn_build (st : cnn_static) (a : cnn_arch) : cnn_state := {| cnn_arch_of := a; cnn_built := cnn_shapes st a |}.
Definition cnn_mutate (st : cnn_static) (c : cnn_cfg) (s : cnn_state) (m : cnn_meth) (r1 r2 : Z) : cnn_state * string * list Z :=
  let '(a', nm, rt) := cnn_step st c (cnn_arch_of s) m r1 r2 in (cnn_build st a', nm, rt).

(* constructor: the assertions of EvolvableCNN.__init__ + torch refusing a kernel larger than its input *)
Definition cnn_ctor_ok (st : cnn_static) (c : cnn_cfg) (a : cnn_arch) : bool :=
  (zlen (kernels a) =? zlen (channels a)) && (zlen (strides a) =? zlen (channels a)) && (0 <? cs_out st)
  && (c_min_layers c <? c_max_layers c) && (c_min_ch c <? c_max_ch c) && cnn_valid st a.
Definition cnn_of_ctor (st : cnn_static) (c : cnn_cfg) (a : cnn_arch) : option cnn_state :=
  if cnn_ctor_ok st c a then Some (cnn_build st a) else None.
