(* C03 — K comparison for EvolvableMultiInput with a vector MLP. *)
From Coq Require Import List ZArith Bool String.
Import ListNotations.
From AgileV Require Import C03.Model C03.ModelCnn C03.ModelNet C03.ModelMulti C03.ModelMulti2 C03.Check C03.CheckMulti.
Local Open Scope Z_scope.

Definition multi2_arch_eqb (a b : multi2_arch) : bool := multi_arch_eqb (m2_core a) (m2_core b) && zl_eqb (m2_mlp a) (m2_mlp b).
Fixpoint check_multi2_steps (s : multi2_static) (c : multi2_cfg) (st : multi2_state)
         (steps : list (multi2_meth * Z * Z * obs multi2_arch)) : bool :=
  match steps with
  | [] => true
  | (m, r1, r2, (d, nm, rt, sh, rb)) :: tl =>
      let '(st', nm', rt') := multi2_mutate s c st m r1 r2 in
      multi2_arch_eqb d (multi2_arch_of st') && String.eqb nm nm' && zl_eqb rt rt'
      && opt_shapes_ok sh (multi2_built st')
      && rebuilt_ok rb (multi2_built st') (Some (multi2_shapes s (multi2_arch_of st')))
      && check_multi2_steps s c st' tl
  end.
Definition check_multi2 (s : multi2_static) (c : multi2_cfg) (a0 : multi2_arch) (sh0 : option (list pshape)) steps : bool :=
  opt_shapes_ok sh0 (multi2_shapes s a0) && check_multi2_steps s c (multi2_build s a0) steps.
