(* C03 — EvolvableCNN with the repaired change_kernel (fix 0a5e775: _kernels_fit + roll back): the theorems about the
   current [cnn_step], derived from those about the pinned pre-fix step [cnn_step_prefix]. *)
From Coq Require Import List ZArith Bool String Lia.
Import ListNotations.
From AgileV Require Import C03.Model C03.ModelCnn C03.Proofs C03.ProofsCnn C03.ProofsCnn2.
Local Open Scope Z_scope.
Notation length := List.length.

(* a step of the current tree is the pre-fix step, or — when change_kernel is rolled back — no change at all *)
Lemma cnn_step_cases st c a m r1 r2 :
  arch_of (cnn_step st c a m r1 r2) = arch_of (cnn_step_prefix st c a m r1 r2) \/ arch_of (cnn_step st c a m r1 r2) = a.
Proof.
  destruct m as [| |ks hl|hl nn|hl nn]; cbn [cnn_step]; auto.
  unfold cnn_change_kernel. cbn [cnn_step_prefix].
  destruct (Z.ltb_spec 1 (zlen (channels a))).
  - unfold arch_of. destruct (cnn_change_kernel_prefix st c a ks hl r1 r2) as [[a' nm] rt].
    destruct (kernels_fit _ _ _ _); cbn [fst]; auto.
  - left. unfold cnn_change_kernel_prefix. destruct (Z.ltb_spec 1 (zlen (channels a))); [lia|]. reflexivity.
Qed.

Ltac by_cases st c a m r1 r2 :=
  let E := fresh "E" in destruct (cnn_step_cases st c a m r1 r2) as [E|E]; rewrite E.

Theorem cnn_wf_inv_fix st c a m r1 r2 : cnn_wf a -> cnn_wf (arch_of (cnn_step st c a m r1 r2)).
Proof. intros H. by_cases st c a m r1 r2; auto. now apply cnn_wf_inv. Qed.

Theorem cnn_channels_inv_fix st c a m r1 r2 lo hi :
  lo <= c_min_ch c -> c_max_ch c <= hi -> cnn_meth_ok m -> channels a <> [] ->
  Forall (between lo hi) (channels a) -> Forall (between lo hi) (channels (arch_of (cnn_step st c a m r1 r2))).
Proof. intros. by_cases st c a m r1 r2; auto. now apply cnn_channels_inv. Qed.

Theorem cnn_layers_inv_fix st c a m r1 r2 lo hi :
  lo <= c_min_layers c -> c_max_layers c <= hi -> 1 <= lo ->
  lo <= zlen (channels a) <= hi -> lo <= zlen (channels (arch_of (cnn_step st c a m r1 r2))) <= hi.
Proof. intros. by_cases st c a m r1 r2; auto. now apply cnn_layers_inv. Qed.

Theorem cnn_kernels_inv_fix st c a m r1 r2 K :
  9 <= K -> cnn_meth_ok m -> cnn_wf a ->
  Forall (between 1 K) (kernels a) -> Forall (between 1 K) (kernels (arch_of (cnn_step st c a m r1 r2))).
Proof. intros. by_cases st c a m r1 r2; auto. now apply cnn_kernels_inv. Qed.

Theorem cnn_strides_inv_fix st c a m r1 r2 S :
  strides a <> [] -> Forall (between 1 S) (strides a) -> Forall (between 1 S) (strides (arch_of (cnn_step st c a m r1 r2))).
Proof. intros. by_cases st c a m r1 r2; auto. now apply cnn_strides_inv. Qed.

Theorem cnn_bounds_inv_fix st c K S a m r1 r2 :
  1 <= c_min_layers c -> 9 <= K -> cnn_meth_ok m ->
  cnn_in_bounds c K S a -> cnn_in_bounds c K S (arch_of (cnn_step st c a m r1 r2)).
Proof. intros. by_cases st c a m r1 r2; auto. now apply cnn_bounds_inv. Qed.

Definition cnn_run st c (a : cnn_arch) (ops : list cnn_op) : cnn_arch :=
  fold_left (fun a '(m, r1, r2) => arch_of (cnn_step st c a m r1 r2)) ops a.

Theorem cnn_bounds_chain_fix st c K S : 1 <= c_min_layers c -> 9 <= K -> forall ops a,
  Forall (fun o : cnn_op => cnn_meth_ok (fst (fst o))) ops -> cnn_in_bounds c K S a -> cnn_in_bounds c K S (cnn_run st c a ops).
Proof.
  intros Hl HK. induction ops as [|[[m r1] r2] ops IH]; intros a HF HB; cbn; auto.
  inversion HF; subst. apply IH; auto. now apply cnn_bounds_inv_fix.
Qed.

(* ---- validity, now for ALL methods *)
Lemma fm_valid_of_fit ks : forall ss h w,
  length ks = length ss -> Forall (fun k => 1 <= k) ks -> Forall (fun s => 1 <= s) ss ->
  kernels_fit h w ks ss = true -> fm_valid h w ks ss = true.
Proof.
  induction ks as [|k ks IH]; intros [|s ss] h w HL Hk Hs HF; cbn [length] in HL; try discriminate; [reflexivity|].
  cbn [fm_valid kernels_fit] in *. inversion Hk; subst. inversion Hs; subst.
  rewrite !andb_true_iff in *. destruct HF as ((F1 & F2) & F3).
  repeat split; auto; try (apply Z.leb_le; lia); try (apply IH; auto; lia).
Qed.

Lemma fm_valid_kernels ks : forall h w ss, fm_valid h w ks ss = true -> Forall (fun k => 1 <= k) ks.
Proof.
  induction ks as [|k ks IH]; intros h w [|s ss] H; cbn [fm_valid] in H; try discriminate; auto.
  rewrite !andb_true_iff in H. destruct H as ((((Hk & _) & _) & _) & Hr). constructor; [lia|eauto].
Qed.

Theorem cnn_valid_inv st c a m r1 r2 :
  1 <= c_min_layers c -> 1 <= c_min_ch c -> cnn_meth_ok m ->
  cnn_ok st a -> cnn_ok st (arch_of (cnn_step st c a m r1 r2)).
Proof.
  intros Hl Hc Hm Hok.
  destruct m as [| |ks hl|hl nn|hl nn];
    try (apply (cnn_valid_inv_partial st c a _ r1 r2 Hl Hc Hm I Hok)).
  cbn [cnn_step]. unfold cnn_change_kernel.
  destruct (Z.ltb_spec 1 (zlen (channels a))).
  - pose proof Hok as Hok0. apply cnn_ok_parts in Hok. destruct Hok as (Hne & Hw & Hpos & Hfm).
    pose proof (cnn_wf_inv st c a (CChangeKernel ks hl) r1 r2 Hw) as Hwf.
    pose proof (fm_valid_kernels _ _ _ _ Hfm) as Hk1.
    assert (HK : Forall (between 1 (lmax (kernels a) 9)) (kernels a)).
    { eapply Forall_impl; [|apply Forall_and; [exact Hk1|apply (between_lmin_lmax (kernels a) 1 9)]]. unfold between. intros x [? ?]. lia. }
    pose proof (cnn_kernels_inv st c a (CChangeKernel ks hl) r1 r2 _ (lmax_ge (kernels a) 9) Hm Hw HK) as HK'.
    cbn [cnn_step_prefix] in Hwf, HK'.
    assert (Hch : channels (arch_of (cnn_change_kernel_prefix st c a ks hl r1 r2)) = channels a /\
                  strides (arch_of (cnn_change_kernel_prefix st c a ks hl r1 r2)) = strides a).
    { unfold cnn_change_kernel_prefix. destruct (Z.ltb_spec 1 (zlen (channels a))); [|lia]. destruct hl; split; reflexivity. }
    unfold arch_of in *. destruct (cnn_change_kernel_prefix st c a ks hl r1 r2) as [[a' nm] rt]. cbn [fst] in *.
    destruct Hch as [Hch Hst].
    destruct (kernels_fit (cs_h st) (cs_w st) (kernels a') (strides a')) eqn:E; cbn [fst]; [|exact Hok0].
    apply cnn_ok_parts. rewrite Hch. split; [auto|]. split; [exact Hwf|]. split; [auto|].
    destruct (wf_lengths a' Hwf) as [L1 L2].
    apply fm_valid_of_fit; auto; try lia.
    + eapply Forall_impl; [|exact HK']. unfold between; intros; lia.
    + rewrite Hst. eapply fm_valid_strides; eauto.
  - apply (cnn_valid_inv_partial st c a CAddLayer r1 r2 Hl Hc I I Hok).
Qed.

Theorem cnn_valid_chain st c : 1 <= c_min_layers c -> 1 <= c_min_ch c -> forall ops a,
  Forall (fun o : cnn_op => cnn_meth_ok (fst (fst o))) ops -> cnn_ok st a -> cnn_ok st (cnn_run st c a ops).
Proof.
  intros Hl Hc. induction ops as [|[[m r1] r2] ops IH]; intros a HF HV; cbn; auto.
  inversion HF; subst. apply IH; auto. now apply cnn_valid_inv.
Qed.

(* ---- change_kernel: effective when the kernels still fit, rolled back (and reported as such) otherwise *)
Theorem cnn_change_kernel_effective_fix st c a ks hl r1 r2 :
  1 < zlen (channels a) ->
  let '(i, r) := match hl with Some l => (l, r1) | None => (pick 1 (Z.min 4 (zlen (channels a))) r1, r2) end in
  let k := match ks with Some k => k | None => pick 1 (znth (max_kernels (cs_h st) (cs_w st) (kernels a) (strides a)) i + 1) r end in
  let new := updz (kernels a) i (fun _ => k) in
  cnn_step st c a (CChangeKernel ks hl) r1 r2 =
  (if kernels_fit (cs_h st) (cs_w st) new (strides a)
   then ({| channels := channels a; kernels := new; strides := strides a |}, "change_kernel"%string, [i; k])
   else (a, "change_kernel"%string, [i; znth (kernels a) i])) /\
  (hl = None -> 1 <= i < zlen (channels a)).
Proof.
  intros H. cbn [cnn_step]. unfold cnn_change_kernel, cnn_change_kernel_prefix.
  destruct (Z.ltb_spec 1 (zlen (channels a))); [|lia].
  destruct hl as [l|]; cbn [kernels strides nth]; (split; [destruct (kernels_fit _ _ _ _); reflexivity|]); try discriminate.
  intros _. pose proof (pick_range 1 (Z.min 4 (zlen (channels a))) r1). lia.
Qed.

Lemma cnn_change_kernel_channels st c a ks hl r1 r2 :
  channels (arch_of (cnn_change_kernel st c a ks hl r1 r2)) = channels a \/ 
  arch_of (cnn_change_kernel st c a ks hl r1 r2) = arch_of (cnn_add_layer st c a r1 r2).
Proof.
  unfold cnn_change_kernel, cnn_change_kernel_prefix. destruct (Z.ltb_spec 1 (zlen (channels a))); [|right; reflexivity].
  left. destruct hl; cbn [kernels strides]; destruct (kernels_fit _ _ _ _); reflexivity.
Qed.

Lemma cnn_change_kernel_channels_same st c a ks hl r1 r2 :
  1 < zlen (channels a) -> channels (arch_of (cnn_change_kernel st c a ks hl r1 r2)) = channels a.
Proof.
  intros H. unfold cnn_change_kernel, cnn_change_kernel_prefix. destruct (Z.ltb_spec 1 (zlen (channels a))); [|lia].
  destruct hl; cbn [kernels strides]; destruct (kernels_fit _ _ _ _); reflexivity.
Qed.
