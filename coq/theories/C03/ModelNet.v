(* C03 — executable model of EvolvableNetwork (agilerl/networks/base.py and the concrete networks
   built on it): an encoder block, an MLP head and the latent width between them; the advertised
   methods; completion of a (possibly partial) encoder configuration.  Model only. *)
From Coq Require Import List ZArith Bool String.
Import ListNotations.
From AgileV Require Import C03.Model C03.ModelCnn.
Local Open Scope string_scope.
Local Open Scope list_scope.
Local Open Scope Z_scope.
Notation "a +s b" := (String.append a b) (at level 60, right associativity).

(* ---------------------------------------------------------------- encoders *)
Inductive enc_arch := EMlp (h : list Z) | ECnn (a : cnn_arch) | ESimba (a : sarch) | ELstm (a : sarch).
Inductive enc_cfg := KMlp (c : mlp_cfg) | KCnn (c : cnn_cfg) | KScalar (c : scfg).
(* static fields of the encoder that do not depend on the latent width *)
Inductive enc_static :=
| SMlp (inp : Z) (layer_norm : bool)                    (* output_layernorm := layer_norm, see _build_encoder *)
| SCnn (in_ch h w : Z) (layer_norm : bool)
| SSimba (inp scale : Z)
| SLstm (inp : Z).

Inductive enc_meth :=
| EMAddNode (hl nn : option Z) | EMRemoveNode (hl nn : option Z)                 (* MLP encoder *)
| ECChangeKernel (ks hl : option Z) | ECAddChannel (hl nn : option Z) | ECRemoveChannel (hl nn : option Z)
| ESAddNode (nn : option Z) | ESRemoveNode (nn : option Z).                      (* SimBa / LSTM encoder *)

Inductive net_meth :=
| NAddLatent (nn : option Z) | NRemoveLatent (nn : option Z)
| NEnc (m : enc_meth) | NHead (m : mlp_meth).

Record net_cfg := { n_min_latent : Z; n_max_latent : Z; n_enc_cfg : enc_cfg; n_head_cfg : mlp_cfg }.
Record net_static := {
  ns_enc : enc_static;
  ns_head_in_extra : Z;          (* ContinuousQNetwork: the action is concatenated to the latent vector *)
  ns_head_out : Z;
  ns_head_layer_norm : bool;
  ns_head_noisy : bool;
  ns_wrapped_head : bool;        (* StochasticActor: the head is an EvolvableWrapper (EvolvableDistribution) around the MLP *)
  ns_log_std : option Z;         (* StochasticActor over a Box space: one extra parameter *)
  ns_dueling : option Z }.       (* RainbowQNetwork: advantage stream with this many outputs *)
Record net_arch := { n_latent : Z; n_enc : enc_arch; n_head : list Z }.

Definition latent_choices : list Z := [8; 16; 32].

(* EvolvableWrapper.__init__ disables the mutation methods of the module it wraps and forwards to that module's own
   wrapped methods.  Since fix 108ea35 a module marked as forwarded-by-a-wrapper runs them (wrapper_forwards = true);
   before it they refused to run (see net_step_prefix below). *)
Definition wrapper_forwards : bool := true.

Definition prefix_name (p : string) (o : step_out enc_arch) : step_out enc_arch :=
  let '(a, nm, rt) := o in (a, (if String.eqb nm "" then "" else p +s nm), rt).

(* encoder methods as advertised by the network: layer mutations of the encoder are disabled, so the
   fall-back of a one-layer CNN's change_kernel (add_layer) is refused by the wrapper: nothing happens
   and no applied method is reported *)
Definition enc_step (s : enc_static) (c : enc_cfg) (a : enc_arch) (m : enc_meth) (r1 r2 : Z) : step_out enc_arch :=
  match a, c, m with
  | EMlp h, KMlp c, EMAddNode hl nn => let '(h', nm, rt) := mlp_add_node c h hl nn r1 r2 in (EMlp h', nm, rt)
  | EMlp h, KMlp c, EMRemoveNode hl nn => let '(h', nm, rt) := mlp_remove_node c h hl nn r1 r2 in (EMlp h', nm, rt)
  | ECnn a, KCnn c, ECChangeKernel ks hl =>
      match s with
      | SCnn _ hh ww _ =>
        if 1 <? zlen (channels a)
        then let '(a', nm, rt) := cnn_change_kernel {| cs_in_ch := 0; cs_h := hh; cs_w := ww; cs_out := 1; cs_layer_norm := false |} c a ks hl r1 r2 in (ECnn a', nm, rt)
        else (ECnn a, "", [])
      | _ => (ECnn a, "", [])
      end
  | ECnn a, KCnn c, ECAddChannel hl nn => let '(a', nm, rt) := cnn_add_channel c a hl nn r1 r2 in (ECnn a', nm, rt)
  | ECnn a, KCnn c, ECRemoveChannel hl nn => let '(a', nm, rt) := cnn_remove_channel c a hl nn r1 r2 in (ECnn a', nm, rt)
  | ESimba a, KScalar c, ESAddNode nn => let '(a', nm, rt) := s_add_node simba_params c a nn r2 in (ESimba a', nm, rt)
  | ESimba a, KScalar c, ESRemoveNode nn => let '(a', nm, rt) := s_remove_node simba_params c a nn r2 in (ESimba a', nm, rt)
  | ELstm a, KScalar c, ESAddNode nn => let '(a', nm, rt) := s_add_node lstm_params c a nn r2 in (ELstm a', nm, rt)
  | ELstm a, KScalar c, ESRemoveNode nn => let '(a', nm, rt) := s_remove_node lstm_params c a nn r2 in (ELstm a', nm, rt)
  | _, _, _ => (a, "", [])
  end.

Definition net_step (s : net_static) (c : net_cfg) (a : net_arch) (m : net_meth) (r1 r2 : Z) : step_out net_arch :=
  match m with
  | NAddLatent nn =>
      let n := arg nn (choose latent_choices r2) in
      ((if n_latent a + n <? n_max_latent c                                       (* strict *)
        then {| n_latent := n_latent a + n; n_enc := n_enc a; n_head := n_head a |} else a), "add_latent_node", [n])
  | NRemoveLatent nn =>
      let n := arg nn (choose latent_choices r2) in
      ((if n_min_latent c <? n_latent a - n                                       (* strict *)
        then {| n_latent := n_latent a - n; n_enc := n_enc a; n_head := n_head a |} else a), "remove_latent_node", [n])
  | NEnc em =>
      let '(e', nm, rt) := prefix_name "encoder." (enc_step (ns_enc s) (n_enc_cfg c) (n_enc a) em r1 r2) in
      ({| n_latent := n_latent a; n_enc := e'; n_head := n_head a |}, nm, rt)
  | NHead hm =>
      if ns_wrapped_head s && negb wrapper_forwards then (a, "", [])
      else
      let '(h', nm, rt) := mlp_step (n_head_cfg c) (n_head a) hm r1 r2 in
      ({| n_latent := n_latent a; n_enc := n_enc a; n_head := h' |}, "head_net." +s nm, rt)
  end.

(* pinned behaviour before fix 108ea35: a head mutation of a network whose head is an EvolvableWrapper (StochasticActor)
   changed nothing and reported no applied method *)
Definition net_step_prefix (s : net_static) (c : net_cfg) (a : net_arch) (m : net_meth) (r1 r2 : Z) : step_out net_arch :=
  match m with
  | NHead _ => if ns_wrapped_head s then (a, "", []) else net_step s c a m r1 r2
  | _ => net_step s c a m r1 r2
  end.

(* ---------------------------------------------------------------- parameter layout *)
Definition tag (p : string) (l : list pshape) : list pshape := map (fun x => let '(n, i, s) := x in (p +s n, i, s)) l.

Definition enc_shapes (s : enc_static) (latent : Z) (a : enc_arch) : list pshape :=
  match s, a with
  | SMlp inp ln, EMlp h =>
      mlp_shapes {| ms_in := inp; ms_out := latent; ms_layer_norm := ln; ms_out_layer_norm := ln; ms_noisy := false |} h
  | SCnn ic hh ww ln, ECnn a =>
      cnn_shapes {| cs_in_ch := ic; cs_h := hh; cs_w := ww; cs_out := latent; cs_layer_norm := ln |} a
  | SSimba inp sc, ESimba a => simba_shapes {| ss_in := inp; ss_out := latent; ss_scale := sc |} a
  | SLstm inp, ELstm a => lstm_shapes {| ls_in := inp; ls_out := latent |} a
  | _, _ => []
  end.

Definition head_static (s : net_static) (latent out : Z) : mlp_static :=
  {| ms_in := latent + ns_head_in_extra s; ms_out := out; ms_layer_norm := ns_head_layer_norm s;
     ms_out_layer_norm := false; ms_noisy := ns_head_noisy s |}.

Definition net_shapes (s : net_static) (a : net_arch) : list pshape :=
  tag "enc:" (enc_shapes (ns_enc s) (n_latent a) (n_enc a))
  ++ (match ns_log_std s with Some d => [("head:log_std", [], [1; d])] | None => [] end)
  ++ tag "head:" (mlp_shapes (head_static s (n_latent a) (ns_head_out s)) (n_head a))
  ++ (match ns_dueling s with
      | Some adv => tag "adv:" (mlp_shapes (head_static s (n_latent a) adv) (n_head a))
      | None => [] end).

Record net_state := { net_arch_of : net_arch; net_built : list pshape }.
Definition net_build (s : net_static) (a : net_arch) : net_state := {| net_arch_of := a; net_built := net_shapes s a |}.
(* clone-and-mutate: clone() rebuilds the network from its constructor description (and loads the
   weights), then the mutation is applied to the clone *)
Definition net_mutate (s : net_static) (c : net_cfg) (st : net_state) (m : net_meth) (r1 r2 : Z) : net_state * string * list Z :=
  let '(a', nm, rt) := net_step s c (net_arch_of (net_build s (net_arch_of st))) m r1 r2 in (net_build s a', nm, rt).

(* ---------------------------------------------------------------- completion of the encoder configuration
   (EvolvableNetwork.__init__ / _build_encoder for an MLP encoder).  [fixed] = tree with fix 882173d. *)
Record enc_user_cfg := { u_activation : option string; u_output_activation : option string; u_layer_norm : option bool;
                         u_output_layernorm : option bool; u_output_vanish : option bool }.
Record enc_full_cfg := { f_activation : string; f_output_activation : option string; f_layer_norm : bool;
                         f_output_layernorm : bool; f_output_vanish : bool }.
Definition dflt {A} (o : option A) (d : A) : A := match o with Some x => x | None => d end.
Definition complete_cfg (fixed : bool) (u : enc_user_cfg) : enc_full_cfg :=
  {| f_activation := dflt (u_activation u) "ReLU";                 (* default of EvolvableMLP *)
     f_output_activation :=
       match u_output_activation u with
       | Some x => Some x
       | None => if fixed then Some (dflt (u_activation u) "ReLU") else u_activation u
       end;
     f_layer_norm := dflt (u_layer_norm u) true;
     f_output_layernorm := dflt (u_layer_norm u) true;             (* net_config["output_layernorm"] = net_config.get("layer_norm", True) *)
     f_output_vanish := false |}.
(* the encoder configuration reported by init_dict (encoder.net_config): every key present *)
Definition ctor_cfg (f : enc_full_cfg) : enc_user_cfg :=
  {| u_activation := Some (f_activation f); u_output_activation := f_output_activation f; u_layer_norm := Some (f_layer_norm f);
     u_output_layernorm := Some (f_output_layernorm f); u_output_vanish := Some (f_output_vanish f) |}.
