(* C03 — EvolvableMultiInput with vector_space_mlp = True (Tuple / Dict spaces): latent width + CNN feature extractor + the
   EvolvableMLP that encodes the concatenated vector observations.  Model only. *)
From Coq Require Import List ZArith Bool String.
Import ListNotations.
From AgileV Require Import C03.Model C03.ModelCnn C03.ModelNet C03.ModelMulti.
Local Open Scope string_scope.
Local Open Scope list_scope.
Local Open Scope Z_scope.
Notation "a +s b" := (String.append a b) (at level 60, right associativity).

Record multi2_static := { m2_base : multi_static; m2_mlp_layer_norm : bool }.
Record multi2_cfg := { m2_cfg : multi_cfg; m2_mlp_cfg : mlp_cfg }.
Record multi2_arch := { m2_core : multi_arch; m2_mlp : list Z }.
Inductive multi2_meth := M2Core (img_key : string) (m : multi_meth) | M2Mlp (m : mlp_meth).

Definition multi2_step (s : multi2_static) (c : multi2_cfg) (a : multi2_arch) (m : multi2_meth) (r1 r2 : Z) : step_out multi2_arch :=
  match m with
  | M2Core k cm =>
      (* the step of the core (latent width / image extractor); the image member of the space has key [k] *)
      let '(a', nm, rt) := multi_step (m2_base s) (m2_cfg c) (m2_core a) cm r1 r2 in
      let nm' := match cm with
                 | MuCnn m' => "feature_net." +s k +s "." +s
                      snd (fst (cnn_step (mu_cnn_static (m2_base s) (mu_latent (m2_core a))) (mu_cnn_cfg (m2_cfg c)) (mu_cnn (m2_core a)) m' r1 r2))
                 | _ => nm end in
      ({| m2_core := a'; m2_mlp := m2_mlp a |}, nm', rt)
  | M2Mlp hm =>
      let '(h', nm, rt) := mlp_step (m2_mlp_cfg c) (m2_mlp a) hm r1 r2 in
      ({| m2_core := m2_core a; m2_mlp := h' |}, "feature_net.vector_mlp." +s nm, rt)
  end.

(* the vector MLP maps the concatenated vector observations to the latent width; its output is concatenated with the image features *)
Definition multi2_shapes (s : multi2_static) (a : multi2_arch) : list pshape :=
  let b := m2_base s in let lat := mu_latent (m2_core a) in
  tag "fn:" (cnn_shapes (mu_cnn_static b lat) (mu_cnn (m2_core a)))
  ++ tag "fn:" (mlp_shapes {| ms_in := mus_vec_dims b; ms_out := lat; ms_layer_norm := m2_mlp_layer_norm s;
                              ms_out_layer_norm := false; ms_noisy := false |} (m2_mlp a))
  ++ [ ("final_dense.weight", [], [mus_out b; lat + lat]); ("final_dense.bias", [], [mus_out b]) ].

Record multi2_state := { multi2_arch_of : multi2_arch; multi2_built : list pshape }.
Definition multi2_build s a : multi2_state := {| multi2_arch_of := a; multi2_built := multi2_shapes s a |}.
Definition multi2_mutate s c (st : multi2_state) (m : multi2_meth) (r1 r2 : Z) : multi2_state * string * list Z :=
  let '(a', nm, rt) := multi2_step s c (multi2_arch_of st) m r1 r2 in (multi2_build s a', nm, rt).
