(* C03 — shape-level forward pass of the convolutional blocks and of the LSTM: a batch of the declared input shape is mapped
   to [b; num_outputs] for every valid architecture. *)
From Coq Require Import List ZArith Bool String Lia.
Import ListNotations.
From AgileV Require Import C03.Model C03.ModelCnn C03.Proofs C03.ProofsCnn C03.ProofsShape.
Local Open Scope Z_scope.
Notation length := List.length.

(* nn.Conv2d without padding: needs the input channels it was built for and a feature map at least as large as its kernel *)
Fixpoint conv_stack_forward (cin h w : Z) (chs ks ss : list Z) : option (Z * Z * Z) :=
  match chs, ks, ss with
  | [], [], [] => Some (cin, h, w)
  | c :: chs', k :: ks', s :: ss' =>
      if (1 <=? k) && (1 <=? s) && (k <=? h) && (k <=? w)
      then conv_stack_forward c (conv_out h k s) (conv_out w k s) chs' ks' ss' else None
  | _, _, _ => None
  end.

(* EvolvableCNN.forward: conv stack, nn.Flatten, final linear layer whose in_features was fixed when the module was built *)
Definition cnn_forward_shape (st : cnn_static) (a : cnn_arch) (x : list Z) : option (list Z) :=
  match x with
  | [b; c; h; w] =>
      if (c =? cs_in_ch st) && (h =? cs_h st) && (w =? cs_w st) then
        match conv_stack_forward c h w (channels a) (kernels a) (strides a) with
        | Some (c', h', w') =>
            let '(ho, wo) := last_fmap (cs_h st) (cs_w st) (kernels a) (strides a) in
            if c' * h' * w' =? last (channels a) 0 * ho * wo then Some [b; cs_out st] else None   (* linear_output.in_features *)
        | None => None
        end
      else None
  | _ => None
  end.

Lemma conv_stack_forward_valid chs : forall ks ss cin h w,
  length ks = length chs -> length ss = length chs -> fm_valid h w ks ss = true ->
  conv_stack_forward cin h w chs ks ss = Some (last chs cin, fst (last_fmap h w ks ss), snd (last_fmap h w ks ss)).
Proof.
  induction chs as [|c chs IH]; intros [|k ks] [|s ss] cin h w Lk Ls HV; cbn [length] in *; try discriminate.
  - reflexivity.
  - cbn [conv_stack_forward fm_valid] in *. apply andb_true_iff in HV. destruct HV as [H1 H2]. rewrite H1.
    rewrite IH by (auto; lia). rewrite last_fmap_cons. now rewrite (last_cons c chs cin).
Qed.

Theorem cnn_forward_shape_ok st a b :
  cnn_ok st a -> cnn_forward_shape st a [b; cs_in_ch st; cs_h st; cs_w st] = Some [b; cs_out st].
Proof.
  intros Hok. apply cnn_ok_parts in Hok. destruct Hok as (Hne & Hwf & _ & Hfm).
  destruct (wf_lengths a Hwf) as [Lk Ls].
  unfold cnn_forward_shape. rewrite !Z.eqb_refl. cbn [andb].
  rewrite (conv_stack_forward_valid _ _ _ _ _ _ Lk Ls Hfm).
  destruct (last_fmap (cs_h st) (cs_w st) (kernels a) (strides a)) as [ho wo]. cbn [fst snd].
  assert (E : last (channels a) (cs_in_ch st) = last (channels a) 0).
  { destruct (channels a) as [|c l]; [congruence|]. rewrite !(last_cons c l). reflexivity. }
  rewrite E, Z.eqb_refl. reflexivity.
Qed.

(* ---- EvolvableLSTM.forward on [b; seq; input_size]: stacked LSTM layers (4 gates each), last time step, output layer *)
Fixpoint lstm_forward (ps : list pshape) (d : Z) : option Z :=
  match ps with
  | (_, _, [g; i]) :: (_, _, [g2; h]) :: (_, _, [g3]) :: (_, _, [g4]) :: tl =>
      if (i =? d) && (g =? 4 * h) && (g2 =? g) && (g3 =? g) && (g4 =? g) then lstm_forward tl h else None
  | [(_, _, [o; i]); (_, _, [o2])] => if (i =? d) && (o2 =? o) then Some o else None
  | _ => None
  end.
Definition lstm_forward_shape (ps : list pshape) (x : list Z) : option (list Z) :=
  match x with [b; t; d] => option_map (fun o => [b; o]) (lstm_forward ps d) | _ => None end.

Lemma lstm_layers_forward (s : lstm_static) (h : Z) (out : list pshape) : forall n k d,
  0 <= k -> d = (if k =? 0 then ls_in s else h) ->
  lstm_forward (flat_map (fun k => let i := if k =? 0 then ls_in s else h in
     [ ("lstm.weight_ih_l#"%string, [k], [4 * h; i]); ("lstm.weight_hh_l#"%string, [k], [4 * h; h]);
       ("lstm.bias_ih_l#"%string, [k], [4 * h]); ("lstm.bias_hh_l#"%string, [k], [4 * h]) ]) (zrange k n) ++ out) d
  = lstm_forward out (match n with O => d | S _ => h end).
Proof.
  induction n as [|n IH]; intros k d Hk Hd; [reflexivity|]. cbv zeta in IH.
  cbn [zrange flat_map app lstm_forward]. rewrite <- Hd. rewrite !Z.eqb_refl. cbn [andb].
  rewrite (IH (k + 1) h); [destruct n; reflexivity|lia|].
  destruct (Z.eqb_spec (k + 1) 0); [lia|reflexivity].
Qed.

Theorem lstm_forward_shape_ok s a b t :
  1 <= s_layers a ->
  lstm_forward_shape (lstm_shapes s a) [b; t; ls_in s] = Some [b; ls_out s].
Proof.
  intros HL. unfold lstm_forward_shape, lstm_shapes.
  rewrite (lstm_layers_forward s (s_width a) _ (Z.to_nat (s_layers a)) 0 (ls_in s)); [|lia|reflexivity].
  destruct (Z.to_nat (s_layers a)) eqn:E; [lia|]. cbn [lstm_forward]. rewrite !Z.eqb_refl. reflexivity.
Qed.

(* ---- EvolvableResNet.forward: conv_input (padding (k-1)//2, stride s), residual blocks (replicate padding (k-1)//2 left,
   k//2 right, then an unpadded convolution — twice), flatten, linear_output *)
Definition res_conv (x k : Z) : Z := x + (k - 1) / 2 + k / 2 - k + 1.
Fixpoint res_blocks (n : nat) (x k : Z) : Z := match n with O => x | S n' => res_blocks n' (res_conv (res_conv x k) k) k end.
Definition resnet_forward_shape (s : resnet_static) (a : sarch) (x : list Z) : option (list Z) :=
  match x with
  | [b; c; h; w] =>
      if (c =? rs_in_ch s) && (h =? rs_h s) && (w =? rs_w s) then
        let k := rs_kernel s in
        let h' := res_blocks (Z.to_nat (s_layers a)) (conv_pad_out h k (rs_stride s)) k in
        let w' := res_blocks (Z.to_nat (s_layers a)) (conv_pad_out w k (rs_stride s)) k in
        (* in_features of linear_output as built (resnet_shapes) *)
        if s_width a * h' * w' =? s_width a * conv_pad_out (rs_h s) k (rs_stride s) * conv_pad_out (rs_w s) k (rs_stride s)
        then Some [b; rs_out s] else None
      else None
  | _ => None
  end.

Lemma res_conv_id x k : 1 <= k -> res_conv x k = x.
Proof.
  intros Hk. unfold res_conv. assert ((k - 1) / 2 + k / 2 = k - 1); [|lia].
  pose proof (Z.div_mod (k - 1) 2 ltac:(lia)). pose proof (Z.div_mod k 2 ltac:(lia)).
  pose proof (Z.mod_pos_bound (k - 1) 2 ltac:(lia)). pose proof (Z.mod_pos_bound k 2 ltac:(lia)). lia.
Qed.
Lemma res_blocks_id n : forall x k, 1 <= k -> res_blocks n x k = x.
Proof. induction n as [|n IH]; intros x k Hk; cbn [res_blocks]; auto. rewrite !res_conv_id by auto. now apply IH. Qed.

Theorem resnet_forward_shape_ok s a b :
  1 <= rs_kernel s ->
  resnet_forward_shape s a [b; rs_in_ch s; rs_h s; rs_w s] = Some [b; rs_out s].
Proof.
  intros Hk. unfold resnet_forward_shape. rewrite !Z.eqb_refl. cbn [andb]. cbv zeta.
  rewrite !res_blocks_id by auto. rewrite Z.eqb_refl. reflexivity.
Qed.
