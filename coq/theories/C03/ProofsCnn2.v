(* C03 — change_kernel on the LAST convolutional layer keeps the CNN constructible. *)
From Coq Require Import List ZArith Bool String Lia.
Import ListNotations.
From AgileV Require Import C03.Model C03.ModelCnn C03.Proofs C03.ProofsCnn.
Local Open Scope Z_scope.
Notation length := List.length.

Lemma fmaps_app ks : forall h w ss k s, length ks = length ss ->
  fmaps h w (ks ++ [k]) (ss ++ [s]) =
  fmaps h w ks ss ++ [(conv_out (fst (last_fmap h w ks ss)) k s, conv_out (snd (last_fmap h w ks ss)) k s)].
Proof.
  induction ks as [|k0 ks IH]; intros h w [|s0 ss] k s HL; cbn [length] in HL; try discriminate.
  - reflexivity.
  - cbn [app fmaps]. rewrite IH by lia. rewrite last_fmap_cons. reflexivity.
Qed.

Lemma upd_app_last (l : list Z) x f : upd (l ++ [x]) (length l) f = l ++ [f x].
Proof. induction l as [|y l IH]; cbn [app length upd]; [reflexivity|]. now rewrite IH. Qed.

Lemma nth_app_last {A} (l : list A) x d : nth (length l) (l ++ [x]) d = x.
Proof. rewrite app_nth2 by lia. now rewrite Nat.sub_diag. Qed.

Lemma conv_out_le x k s : 1 <= k -> 1 <= s -> k <= x -> 1 <= conv_out x k s <= x.
Proof.
  intros Hk Hs Hx. unfold conv_out. assert (0 <= (x - k) / s) by (apply Z.div_pos; lia).
  assert ((x - k) / s <= x - k) by (apply Z.div_le_upper_bound; nia). lia.
Qed.

Lemma clip_kernel_le_max m : clip_kernel m <= Z.max 1 m.
Proof. destruct (Z.lt_ge_cases m 1); [|pose proof (clip_kernel_le m); lia].
  unfold clip_kernel. assert (Z.quot m 4 <= 0); [|destruct (Z.leb_spec (Z.quot m 4) 0); lia].
  pose proof (Z.quot_le_mono m 0 4 ltac:(lia) ltac:(lia)) as Hq. change (Z.quot 0 4) with 0 in Hq. exact Hq.
Qed.

Theorem cnn_change_kernel_last_valid st c a hl r1 r2 :
  cnn_ok st a -> 1 < zlen (channels a) ->
  (match hl with Some l => l | None => pick 1 (Z.min 4 (zlen (channels a))) r1 end) = zlen (channels a) - 1 ->
  cnn_ok st (arch_of (cnn_step_prefix st c a (CChangeKernel None hl) r1 r2)).
Proof.
  intros Hok Hlen Hi. apply cnn_ok_parts in Hok. destruct Hok as (Hne & Hwf & Hpos & Hfm).
  destruct (wf_lengths a Hwf) as [Lk Ls].
  cbn [cnn_step_prefix]. unfold cnn_change_kernel_prefix. destruct (Z.ltb_spec 1 (zlen (channels a))); [|lia].
  set (i := zlen (channels a) - 1) in *.
  assert (Hkne : kernels a <> []) by (intros E; rewrite E in Lk; unfold zlen in Hlen; cbn in *; lia).
  assert (Hsne : strides a <> []) by (intros E; rewrite E in Ls; unfold zlen in Hlen; cbn in *; lia).
  pose proof (app_removelast_last 0 Hkne) as Ek. pose proof (app_removelast_last 0 Hsne) as Es.
  set (ks0 := removelast (kernels a)) in *. set (ko := last (kernels a) 0) in *.
  set (ss0 := removelast (strides a)) in *. set (so := last (strides a) 0) in *.
  assert (Lk0 : length ks0 = length ss0).
  { apply (f_equal (@length _)) in Ek. apply (f_equal (@length _)) in Es. rewrite app_length in Ek, Es. cbn in Ek, Es. lia. }
  assert (Ei : Z.to_nat i = length ks0).
  { apply (f_equal (@length _)) in Ek. rewrite app_length in Ek. cbn in Ek. unfold i, zlen. lia. }
  (* validity before: prefix valid, last layer fits *)
  rewrite Ek, Es in Hfm. rewrite fm_valid_app in Hfm by exact Lk0.
  apply andb_true_iff in Hfm. destruct Hfm as [Hpre Hlast].
  rewrite !andb_true_iff, !Z.leb_le in Hlast. destruct Hlast as (((Hk1 & Hs1) & Hkh) & Hkw).
  set (ho := fst (last_fmap (cs_h st) (cs_w st) ks0 ss0)) in *. set (wo := snd (last_fmap (cs_h st) (cs_w st) ks0 ss0)) in *.
  (* the bound the new kernel is drawn from *)
  assert (Hmk : znth (max_kernels (cs_h st) (cs_w st) (kernels a) (strides a)) i = clip_kernel (Z.min (conv_out ho ko so) (conv_out wo ko so))).
  { unfold max_kernels, znth. rewrite Ek at 1. rewrite Es at 1. rewrite fmaps_app by exact Lk0. rewrite map_app. cbn [map].
    rewrite Ei. replace (length ks0) with (length (map (fun hw : Z * Z => clip_kernel (Z.min (fst hw) (snd hw))) (fmaps (cs_h st) (cs_w st) ks0 ss0))).
    - rewrite nth_app_last. reflexivity.
    - rewrite map_length, fmaps_length. lia. }
  assert (Hnew : forall r, 1 <= pick 1 (znth (max_kernels (cs_h st) (cs_w st) (kernels a) (strides a)) i + 1) r <= Z.min ho wo).
  { intros r. rewrite Hmk. pose proof (clip_kernel_range (Z.min (conv_out ho ko so) (conv_out wo ko so))) as HR.
    pose proof (pick_range 1 (clip_kernel (Z.min (conv_out ho ko so) (conv_out wo ko so)) + 1) r ltac:(lia)) as HP.
    pose proof (clip_kernel_le_max (Z.min (conv_out ho ko so) (conv_out wo ko so))).
    pose proof (conv_out_le ho ko so Hk1 Hs1 Hkh). pose proof (conv_out_le wo ko so Hk1 Hs1 Hkw). lia. }
  assert (Hgen : forall r, cnn_ok st {| channels := channels a;
             kernels := updz (kernels a) i (fun _ => pick 1 (znth (max_kernels (cs_h st) (cs_w st) (kernels a) (strides a)) i + 1) r);
             strides := strides a |}).
  { intros r. specialize (Hnew r).
    set (kn := pick 1 (znth (max_kernels (cs_h st) (cs_w st) (kernels a) (strides a)) i + 1) r) in *. clearbody kn.
    apply cnn_ok_parts. unfold cnn_wf. cbn [channels kernels strides]. split; [auto|]. split; [|split; auto].
    - rewrite zlen_updz. exact Hwf.
    - unfold updz. rewrite Ek. rewrite Ei, upd_app_last. rewrite Es. rewrite fm_valid_app by exact Lk0.
      rewrite Hpre. cbn [andb]. fold ho wo.
      repeat (apply andb_true_iff; split); apply Z.leb_le; lia. }
  destruct hl as [l|]; cbv beta iota in Hi; rewrite Hi; unfold arch_of; cbn [fst]; apply Hgen.
Qed.

(* ---- all quantities together, lifted to every chain of mutation calls *)
Definition cnn_in_bounds (c : cnn_cfg) (K S : Z) (a : cnn_arch) : Prop :=
  cnn_wf a /\ channels a <> [] /\ c_min_layers c <= zlen (channels a) <= c_max_layers c /\
  Forall (between (c_min_ch c) (c_max_ch c)) (channels a) /\ Forall (between 1 K) (kernels a) /\ Forall (between 1 S) (strides a).

Theorem cnn_bounds_inv st c K S a m r1 r2 :
  1 <= c_min_layers c -> 9 <= K -> cnn_meth_ok m ->
  cnn_in_bounds c K S a -> cnn_in_bounds c K S (arch_of (cnn_step_prefix st c a m r1 r2)).
Proof.
  intros Hl HK Hm (Hwf & Hne & HL & HC & HKs & HS).
  assert (HL' : c_min_layers c <= zlen (channels (arch_of (cnn_step_prefix st c a m r1 r2))) <= c_max_layers c)
    by (apply cnn_layers_inv; auto; lia).
  split; [now apply cnn_wf_inv|]. split.
  { intros E. rewrite E in HL'. cbn in HL'. lia. }
  split; [exact HL'|]. split; [apply cnn_channels_inv; auto; lia|]. split; [now apply cnn_kernels_inv|].
  apply cnn_strides_inv; auto. intros E. destruct Hwf as [_ Hs]. rewrite E in Hs. cbn in Hs. symmetry in Hs.
  apply zlen_nil_iff in Hs. auto.
Qed.

Definition cnn_op := (cnn_meth * Z * Z)%type.
Definition cnn_run_prefix st c (a : cnn_arch) (ops : list cnn_op) : cnn_arch :=
  fold_left (fun a '(m, r1, r2) => arch_of (cnn_step_prefix st c a m r1 r2)) ops a.

Theorem cnn_bounds_chain st c K S : 1 <= c_min_layers c -> 9 <= K -> forall ops a,
  Forall (fun o : cnn_op => cnn_meth_ok (fst (fst o))) ops -> cnn_in_bounds c K S a -> cnn_in_bounds c K S (cnn_run_prefix st c a ops).
Proof.
  intros Hl HK. induction ops as [|[[m r1] r2] ops IH]; intros a HF HB; cbn; auto.
  inversion HF; subst. apply IH; auto. now apply cnn_bounds_inv.
Qed.
