(* C03 — proofs about the EvolvableMultiInput machine. *)
From Coq Require Import List ZArith Bool String Lia.
Import ListNotations.
From AgileV Require Import C03.Model C03.ModelCnn C03.ModelNet C03.ModelMulti C03.Proofs C03.ProofsCnn C03.ProofsCnn2 C03.ProofsCnnFix C03.ProofsNet.
Local Open Scope Z_scope.

Definition multi_meth_ok (m : multi_meth) : Prop :=
  match m with MuAddLatent nn | MuRemoveLatent nn => amount_ok nn | MuCnn cm => cnn_meth_ok cm end.

Theorem multi_latent_inv s c a m r1 r2 lo hi :
  lo <= mu_min_latent c -> mu_max_latent c <= hi -> multi_meth_ok m ->
  lo <= mu_latent a <= hi -> lo <= mu_latent (arch_of (multi_step s c a m r1 r2)) <= hi.
Proof.
  intros Hlo Hhi Hm HL. destruct m as [nn|nn|cm]; cbn [multi_step].
  - assert (0 <= arg nn (choose latent_choices r2)) by (destruct nn; cbn [arg]; [exact Hm|apply latent_choices_nonneg]).
    unfold arch_of; cbn [fst]. destruct (Z.ltb_spec (mu_latent a + arg nn (choose latent_choices r2)) (mu_max_latent c)); cbn [mu_latent]; lia.
  - assert (0 <= arg nn (choose latent_choices r2)) by (destruct nn; cbn [arg]; [exact Hm|apply latent_choices_nonneg]).
    unfold arch_of; cbn [fst]. destruct (Z.ltb_spec (mu_min_latent c) (mu_latent a - arg nn (choose latent_choices r2))); cbn [mu_latent]; lia.
  - unfold arch_of. destruct (cnn_step _ _ _ _ _ _) as [[a' nm] rt]. exact HL.
Qed.

(* a mutation of the feature extractor is the CNN step on it (so the CNN theorems apply); latent mutations leave it alone *)
Theorem multi_cnn_step s c a m r1 r2 :
  mu_cnn (arch_of (multi_step s c a m r1 r2)) =
  match m with
  | MuCnn cm => arch_of (cnn_step (mu_cnn_static s (mu_latent a)) (mu_cnn_cfg c) (mu_cnn a) cm r1 r2)
  | _ => mu_cnn a
  end.
Proof.
  destruct m as [nn|nn|cm]; cbn [multi_step]; unfold arch_of; cbn [fst].
  - destruct (_ <? _); reflexivity.
  - destruct (_ <? _); reflexivity.
  - destruct (cnn_step _ _ _ _ _ _) as [[a' nm] rt]. reflexivity.
Qed.

Definition multi_in_bounds (c : multi_cfg) (a : multi_arch) : Prop :=
  mu_min_latent c <= mu_latent a <= mu_max_latent c /\ channels (mu_cnn a) <> [] /\
  c_min_layers (mu_cnn_cfg c) <= zlen (channels (mu_cnn a)) <= c_max_layers (mu_cnn_cfg c) /\
  Forall (between (c_min_ch (mu_cnn_cfg c)) (c_max_ch (mu_cnn_cfg c))) (channels (mu_cnn a)).

Theorem multi_bounds_inv s c a m r1 r2 :
  1 <= c_min_layers (mu_cnn_cfg c) -> multi_meth_ok m -> multi_in_bounds c a -> multi_in_bounds c (arch_of (multi_step s c a m r1 r2)).
Proof.
  intros Hl Hm (HL & Hne & HN & HF). split; [apply multi_latent_inv; auto; lia|].
  rewrite multi_cnn_step. destruct m as [nn|nn|cm]; auto.
  assert (HN' : c_min_layers (mu_cnn_cfg c) <= zlen (channels (arch_of (cnn_step (mu_cnn_static s (mu_latent a)) (mu_cnn_cfg c) (mu_cnn a) cm r1 r2))) <= c_max_layers (mu_cnn_cfg c))
    by (apply cnn_layers_inv_fix; auto; lia).
  split; [|split; auto].
  - intros E. rewrite E in HN'. cbn in HN'. lia.
  - apply cnn_channels_inv_fix; auto; lia.
Qed.

Theorem multi_rebuild_exact s c st m r1 r2 :
  let st' := fst (fst (multi_mutate s c st m r1 r2)) in multi_built st' = multi_shapes s (multi_arch_of st').
Proof. unfold multi_mutate. destruct (multi_step _ _ _ _ _ _) as [[a' nm] rt]. reflexivity. Qed.
