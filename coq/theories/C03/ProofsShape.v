(* C03 — shape-level forward pass of the sequential (linear / normalisation) blocks: the output of
   forward on a batch [b; num_inputs] has the declared shape [b; num_outputs]. *)
From Coq Require Import List ZArith Bool String Lia.
Import ListNotations.
From AgileV Require Import C03.Model C03.Proofs.
Local Open Scope Z_scope.

(* thread the feature width through the parameter list of an nn.Sequential of Linear / LayerNorm layers:
   a matrix [o; i] needs width i and yields o; a vector [n] (bias, normalisation) needs width n *)
Fixpoint seq_forward (ps : list pshape) (d : Z) : option Z :=
  match ps with
  | [] => Some d
  | (_, _, sh) :: tl =>
      match sh with
      | [o; i] => if i =? d then seq_forward tl o else None
      | [n] => if n =? d then seq_forward tl d else None
      | _ => None
      end
  end.
Definition forward_shape (ps : list pshape) (x : list Z) : option (list Z) :=
  match x with
  | [b; d] => option_map (fun o => [b; o]) (seq_forward ps d)
  | _ => None
  end.

Lemma seq_forward_app ps1 : forall ps2 d,
  seq_forward (ps1 ++ ps2) d = match seq_forward ps1 d with Some d' => seq_forward ps2 d' | None => None end.
Proof.
  induction ps1 as [|[[nm idx] sh] ps1 IH]; intros ps2 d; cbn [app seq_forward]; auto.
  destruct sh as [|a [|b [|c sh]]]; auto; destruct (_ =? _); auto.
Qed.

Lemma lin_forward nm idx o i : seq_forward (lin_params false nm idx o i) i = Some o.
Proof. cbn. now rewrite !Z.eqb_refl. Qed.
Lemma norm_forward nm idx n : seq_forward (norm_params nm idx n) n = Some n.
Proof. cbn. now rewrite !Z.eqb_refl. Qed.

Lemma last_cons' (x : Z) l d : last (x :: l) d = last l x.
Proof. revert x; induction l as [|y l IH]; intros x; [reflexivity|]. cbn [last] in *. destruct l; auto. Qed.

Lemma mlp_hidden_forward s : ms_noisy s = false -> forall h l prev,
  seq_forward (mlp_hidden_shapes s l prev h) prev = Some (last h prev).
Proof.
  intros Hn. induction h as [|x h IH]; intros l prev; [reflexivity|].
  cbn [mlp_hidden_shapes]. rewrite Hn. destruct (ms_layer_norm s).
  - rewrite seq_forward_app, lin_forward. cbv beta iota. rewrite seq_forward_app, norm_forward. cbv beta iota. rewrite IH. now rewrite last_cons'.
  - rewrite seq_forward_app, lin_forward. cbv beta iota. cbn [app]. rewrite IH. now rewrite last_cons'.
Qed.

Theorem mlp_forward_shape s h b :
  ms_noisy s = false ->
  forward_shape (mlp_shapes s h) [b; ms_in s] = Some [b; ms_out s].
Proof.
  intros Hn. unfold forward_shape, mlp_shapes. rewrite seq_forward_app, mlp_hidden_forward by auto. cbv beta iota.
  rewrite seq_forward_app, Hn, lin_forward. cbv beta iota. destruct (ms_out_layer_norm s); [rewrite norm_forward|]; reflexivity.
Qed.

(* SimBa: input layer, residual blocks (norm, expand, contract), final norm and output layer *)
Lemma simba_blocks_forward sc h : forall ks,
  seq_forward (flat_map (fun k =>
     [ ("residual_block_#.layer_norm.weight"%string, [k], [h]); ("residual_block_#.layer_norm.bias"%string, [k], [h]);
       ("residual_block_#.linear#.weight"%string, [k; 1], [h * sc; h]); ("residual_block_#.linear#.bias"%string, [k; 1], [h * sc]);
       ("residual_block_#.linear#.weight"%string, [k; 2], [h; h * sc]); ("residual_block_#.linear#.bias"%string, [k; 2], [h]) ]) ks) h = Some h.
Proof.
  induction ks as [|k ks IH]; [reflexivity|]. cbn [flat_map]. rewrite seq_forward_app.
  cbn [seq_forward]. rewrite !Z.eqb_refl. cbv beta iota. exact IH.
Qed.

Theorem simba_forward_shape s a b :
  forward_shape (simba_shapes s a) [b; ss_in s] = Some [b; ss_out s].
Proof.
  unfold forward_shape, simba_shapes. rewrite seq_forward_app. cbn [seq_forward]. rewrite !Z.eqb_refl. cbv beta iota.
  rewrite seq_forward_app, simba_blocks_forward. cbv beta iota. cbn [seq_forward]. rewrite !Z.eqb_refl. reflexivity.
Qed.
