(* C03 — K comparison for the Conv3d CNN. *)
From Coq Require Import List ZArith Bool String.
Import ListNotations.
From AgileV Require Import C03.Model C03.ModelCnn C03.ModelCnn3d C03.Check.
Local Open Scope Z_scope.

Fixpoint check_cnn3d_steps (st : cnn_static) (depth : Z) (c : cnn_cfg) (a : cnn_arch)
         (steps : list (cnn_meth * Z * Z * obs (list Z * list Z * list Z))) : bool :=
  match steps with
  | [] => true
  | (m, r1, r2, (d, nm, rt, sh, rb)) :: tl =>
      let '(a', nm', rt') := cnn_step st c a m r1 r2 in
      cnn_desc_eqb d a' && String.eqb nm nm' && zl_eqb rt rt'
      && opt_shapes_ok sh (cnn3d_shapes st depth a')
      && rebuilt_ok rb (cnn3d_shapes st depth a') (if cnn_ctor_ok st c a' then Some (cnn3d_shapes st depth a') else None)
      && check_cnn3d_steps st depth c a' tl
  end.
Definition check_cnn3d (st : cnn_static) (depth : Z) (c : cnn_cfg) (a0 : cnn_arch) (sh0 : option (list pshape)) steps : bool :=
  opt_shapes_ok sh0 (cnn3d_shapes st depth a0) && check_cnn3d_steps st depth c a0 steps.
