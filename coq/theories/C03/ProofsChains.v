(* C03 — validity lifted to every chain of mutation calls. *)
From Coq Require Import List ZArith Bool String Lia.
Import ListNotations.
From AgileV Require Import C03.Model C03.ModelCnn C03.Proofs C03.ProofsS C03.ProofsCnn C03.ProofsCnn2 C03.ProofsCnn3.
Local Open Scope Z_scope.

(* ---- validity over every chain of mutation calls *)
Theorem s_valid_chain p c : choices_ok p -> 1 <= s_min_layers c ->
  (if sp_rem_strict p then 0 <= s_min_width c else 1 <= s_min_width c) ->
  forall ops a, Forall s_op_ok ops -> s_valid a -> s_valid (s_run p c a ops).
Proof.
  intros Hp Hl Hw. induction ops as [|[m r] ops IH]; intros a HF HV; cbn; auto.
  inversion HF; subst. apply IH; auto. now apply s_valid_inv.
Qed.

