(* C03 — proofs about EvolvableMultiInput with a vector MLP. *)
From Coq Require Import List ZArith Bool String Lia.
Import ListNotations.
From AgileV Require Import C03.Model C03.ModelCnn C03.ModelNet C03.ModelMulti C03.ModelMulti2 C03.Proofs C03.ProofsCnn C03.ProofsNet C03.ProofsMulti.
Local Open Scope Z_scope.

Definition multi2_meth_ok (m : multi2_meth) : Prop :=
  match m with M2Core _ cm => multi_meth_ok cm | M2Mlp hm => mlp_meth_ok hm end.
Definition multi2_in_bounds (c : multi2_cfg) (a : multi2_arch) : Prop :=
  multi_in_bounds (m2_cfg c) (m2_core a) /\ mlp_in_bounds (m2_mlp_cfg c) (m2_mlp a).

(* every step is the step of the part it addresses; the other part is untouched *)
Theorem multi2_step_parts s c a m r1 r2 :
  let a' := arch_of (multi2_step s c a m r1 r2) in
  match m with
  | M2Core _ cm => m2_core a' = arch_of (multi_step (m2_base s) (m2_cfg c) (m2_core a) cm r1 r2) /\ m2_mlp a' = m2_mlp a
  | M2Mlp hm => m2_mlp a' = arch_of (mlp_step (m2_mlp_cfg c) (m2_mlp a) hm r1 r2) /\ m2_core a' = m2_core a
  end.
Proof.
  destruct m as [k cm|hm]; cbn [multi2_step]; unfold arch_of.
  - destruct (multi_step _ _ _ _ _ _) as [[a' nm] rt]. cbn. auto.
  - destruct (mlp_step _ _ _ _ _) as [[h' nm] rt]. cbn. auto.
Qed.

Theorem multi2_bounds_inv s c a m r1 r2 :
  1 <= c_min_layers (mu_cnn_cfg (m2_cfg c)) -> 1 <= m_min_layers (m2_mlp_cfg c) -> multi2_meth_ok m ->
  multi2_in_bounds c a -> multi2_in_bounds c (arch_of (multi2_step s c a m r1 r2)).
Proof.
  intros H1 H2 Hm [HB HM]. pose proof (multi2_step_parts s c a m r1 r2) as HP. cbv zeta in HP.
  destruct m as [k cm|hm]; destruct HP as [E1 E2]; split.
  - rewrite E1. now apply multi_bounds_inv.
  - now rewrite E2.
  - now rewrite E2.
  - rewrite E1. now apply mlp_bounds_inv.
Qed.

Definition multi2_op := (multi2_meth * Z * Z)%type.
Definition multi2_run s c (a : multi2_arch) (ops : list multi2_op) : multi2_arch :=
  fold_left (fun a '(m, r1, r2) => arch_of (multi2_step s c a m r1 r2)) ops a.
Theorem multi2_bounds_chain s c :
  1 <= c_min_layers (mu_cnn_cfg (m2_cfg c)) -> 1 <= m_min_layers (m2_mlp_cfg c) -> forall ops a,
  Forall (fun o : multi2_op => multi2_meth_ok (fst (fst o))) ops -> multi2_in_bounds c a -> multi2_in_bounds c (multi2_run s c a ops).
Proof.
  intros H1 H2. induction ops as [|[[m r1] r2] ops IH]; intros a HF HB; cbn; auto.
  inversion HF; subst. apply IH; auto. now apply multi2_bounds_inv.
Qed.

Theorem multi2_rebuild_exact s c st m r1 r2 :
  let st' := fst (fst (multi2_mutate s c st m r1 r2)) in multi2_built st' = multi2_shapes s (multi2_arch_of st').
Proof. unfold multi2_mutate. destruct (multi2_step _ _ _ _ _ _) as [[a' nm] rt]. reflexivity. Qed.
