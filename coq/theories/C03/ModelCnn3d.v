(* C03 — EvolvableCNN with block_type = "Conv3d" (multi-agent image observations stacked along a depth axis): the architecture
   machine is cnn_step (the descriptor holds the kernel edge lengths); only the parameter layout differs.  Model only. *)
From Coq Require Import List ZArith Bool String.
Import ListNotations.
From AgileV Require Import C03.Model C03.ModelCnn.
Local Open Scope string_scope.
Local Open Scope list_scope.
Local Open Scope Z_scope.

Definition bn3_params := bn_params.

(* MutableKernelSizes: integer kernel sizes become (1, k, k), the first layer's depth is the depth of the sample input;
   add_layer appends (1, k, k); change_kernel keeps the layer's depth *)
Fixpoint cnn3d_conv_shapes (ln : bool) (l_no prev depth : Z) (chs ks : list Z) : list pshape :=
  match chs, ks with
  | c :: chs', k :: ks' =>
      [ ("conv_layer_#.weight", [l_no], [c; prev; depth; k; k]); ("conv_layer_#.bias", [l_no], [c]) ]
      ++ (if ln then bn3_params "layer_norm_#" [l_no] c else [])
      ++ cnn3d_conv_shapes ln (l_no + 1) c 1 chs' ks'
  | _, _ => []
  end.
(* the first layer consumes the whole depth (kernel depth = input depth, no padding): the flattened size is C * 1 * H * W *)
Definition cnn3d_shapes (st : cnn_static) (depth : Z) (a : cnn_arch) : list pshape :=
  let '(ho, wo) := last_fmap (cs_h st) (cs_w st) (kernels a) (strides a) in
  cnn3d_conv_shapes (cs_layer_norm st) 1 (cs_in_ch st) depth (channels a) (kernels a)
  ++ [ ("linear_output.weight", [], [cs_out st; last (channels a) 0 * ho * wo]); ("linear_output.bias", [], [cs_out st]) ].
