(* C03 — change_kernel with a kernel that is not larger than the old one keeps the CNN constructible
   (every later feature map can only grow). *)
From Coq Require Import List ZArith Bool String Lia.
Import ListNotations.
From AgileV Require Import C03.Model C03.ModelCnn C03.Proofs C03.ProofsCnn C03.ProofsCnn2.
Local Open Scope Z_scope.
Notation length := List.length.

Lemma conv_out_mono x x' k s : 1 <= s -> x <= x' -> conv_out x k s <= conv_out x' k s.
Proof. intros Hs Hx. unfold conv_out. assert ((x - k) / s <= (x' - k) / s) by (apply Z.div_le_mono; lia). lia. Qed.
Lemma conv_out_anti x k k' s : 1 <= s -> k' <= k -> conv_out x k s <= conv_out x k' s.
Proof. intros Hs Hk. unfold conv_out. assert ((x - k) / s <= (x - k') / s) by (apply Z.div_le_mono; lia). lia. Qed.

(* larger inputs keep a stack of layers valid *)
Lemma fm_valid_mono ks : forall ss h w h' w',
  h <= h' -> w <= w' -> fm_valid h w ks ss = true -> fm_valid h' w' ks ss = true.
Proof.
  induction ks as [|k ks IH]; intros [|s ss] h w h' w' Hh Hw HV; cbn [fm_valid] in *; auto; try discriminate.
  rewrite !andb_true_iff, !Z.leb_le in *. destruct HV as ((((Hk & Hs) & Hkh) & Hkw) & Hr).
  repeat split; try lia. eapply IH; [| |exact Hr]; apply conv_out_mono; lia.
Qed.

(* replacing the kernel of layer i by a smaller one (>= 1) keeps validity *)
Lemma fm_valid_upd_smaller ks : forall ss h w i k',
  1 <= k' -> k' <= nth i ks 0 -> fm_valid h w ks ss = true -> fm_valid h w (upd ks i (fun _ => k')) ss = true.
Proof.
  induction ks as [|k ks IH]; intros [|s ss] h w i k' H1 Hle HV; destruct i; cbn [upd fm_valid nth] in *; auto; try discriminate.
  - rewrite !andb_true_iff, !Z.leb_le in *. destruct HV as ((((Hk & Hs) & Hkh) & Hkw) & Hr).
    repeat split; try lia. eapply fm_valid_mono; [| |exact Hr]; apply conv_out_anti; lia.
  - rewrite !andb_true_iff, !Z.leb_le in *. destruct HV as ((((Hk & Hs) & Hkh) & Hkw) & Hr).
    repeat split; try lia. apply IH; auto.
Qed.

Theorem cnn_change_kernel_smaller_valid st c a ks hl r1 r2 :
  cnn_ok st a -> 1 < zlen (channels a) ->
  (let i := match hl with Some l => l | None => pick 1 (Z.min 4 (zlen (channels a))) r1 end in
   let r := match hl with Some _ => r1 | None => r2 end in
   let k' := match ks with Some k => k | None => pick 1 (znth (max_kernels (cs_h st) (cs_w st) (kernels a) (strides a)) i + 1) r end in
   1 <= k' <= nth (Z.to_nat i) (kernels a) 0) ->
  cnn_ok st (arch_of (cnn_step_prefix st c a (CChangeKernel ks hl) r1 r2)).
Proof.
  intros Hok Hlen Hk. apply cnn_ok_parts in Hok. destruct Hok as (Hne & Hwf & Hpos & Hfm).
  cbn [cnn_step_prefix]. unfold cnn_change_kernel_prefix. destruct (Z.ltb_spec 1 (zlen (channels a))); [|lia].
  destruct hl as [l|]; cbv zeta beta iota in Hk; unfold arch_of; cbn [fst]; apply cnn_ok_parts; unfold cnn_wf;
    cbn [channels kernels strides]; (split; [auto|]); (split; [rewrite zlen_updz; exact Hwf|]); (split; [auto|]);
    unfold updz; apply fm_valid_upd_smaller; auto; lia.
Qed.

(* FINDING (current tree): from a one-layer CNN with the default bounds, eleven drawn mutations — each inside the range
   the method itself draws from, every intermediate architecture valid — reach an architecture torch cannot build *)
Definition unbuildable_chain : list cnn_op :=
  [ (CAddLayer, 0, 0); (CAddLayer, 0, 0); (CAddLayer, 0, 0);
    (CChangeKernel None None, 0, 0); (CChangeKernel None None, 1, 0); (CChangeKernel None None, 2, 0);
    (CAddLayer, 5, 0); (CAddLayer, 3, 0);
    (CChangeKernel None None, 2, 6); (CChangeKernel None None, 1, 6); (CChangeKernel None None, 0, 6) ].
Theorem cnn_unbuildable_reachable :
  let st := {| cs_in_ch := 3; cs_h := 32; cs_w := 32; cs_out := 16; cs_layer_norm := false |} in
  let c := {| c_min_layers := 1; c_max_layers := 6; c_min_ch := 32; c_max_ch := 256 |} in
  let a0 := {| channels := [32]; kernels := [5]; strides := [1] |} in
  cnn_ok st a0 /\ cnn_in_bounds c 9 1 a0 /\
  Forall (fun o : cnn_op => cnn_meth_ok (fst (fst o))) unbuildable_chain /\
  cnn_ok st (cnn_run_prefix st c a0 (removelast unbuildable_chain)) /\
  kernels (cnn_run_prefix st c a0 unbuildable_chain) = [5; 7; 7; 7; 7; 5] /\
  cnn_valid st (cnn_run_prefix st c a0 unbuildable_chain) = false.
Proof.
  cbv zeta. split; [reflexivity|]. split.
  - unfold cnn_in_bounds, cnn_wf. cbn. repeat split; try lia; try discriminate; repeat constructor; unfold between; lia.
  - split; [repeat constructor|]. split; [vm_compute; reflexivity|]. split; vm_compute; reflexivity.
Qed.

