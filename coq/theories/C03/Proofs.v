(* C03 — proofs about the MLP and the scalar (LSTM / SimBa / ResNet) architecture machines. *)
From Coq Require Import List ZArith Bool String Lia.
Import ListNotations.
From AgileV Require Import C03.Model.
Local Open Scope Z_scope.
Notation length := List.length.

Definition between (lo hi x : Z) : Prop := lo <= x <= hi.

(* ---------------------------------------------------------------- list helpers *)
Lemma upd_length l : forall i f, length (upd l i f) = length l.
Proof. induction l; intros [|i] f; cbn; auto. Qed.

Lemma upd_forall (P : Z -> Prop) l : forall i f,
  Forall P l -> ((i < length l)%nat -> P (f (nth i l 0))) -> Forall P (upd l i f).
Proof.
  induction l as [|x l IH]; intros [|i] f H Hf; cbn [upd]; auto; inversion H; subst; constructor; auto.
  - apply Hf. cbn. lia.
  - apply IH; auto. intros Hi. apply Hf. cbn. lia.
Qed.

Lemma upd_nth l : forall i f d, (i < length l)%nat -> nth i (upd l i f) d = f (nth i l d).
Proof. induction l as [|x l IH]; intros [|i] f d H; cbn in *; try lia; auto. apply IH; lia. Qed.

Lemma upd_nth_other l : forall i j f d, i <> j -> nth j (upd l i f) d = nth j l d.
Proof. induction l as [|x l IH]; intros [|i] [|j] f d H; cbn; auto; try congruence. Qed.

Lemma zlen_nonneg {A} (l : list A) : 0 <= zlen l.
Proof. unfold zlen. lia. Qed.

Lemma znth_In h i : 0 <= i < zlen h -> In (znth h i) h.
Proof. unfold znth, zlen. intros H. apply nth_In. lia. Qed.

Lemma last_In (l : list Z) d : l <> [] -> In (last l d) l.
Proof.
  induction l as [|x l IH]; [congruence|]. intros _. destruct l as [|y l]; [left; auto|].
  right. apply IH. discriminate.
Qed.

Lemma Forall_removelast (P : Z -> Prop) l : Forall P l -> Forall P (removelast l).
Proof.
  induction l as [|x l IH]; intros H; cbn; auto. inversion H; subst.
  destruct l; [constructor|]. constructor; auto.
Qed.

Lemma removelast_length (l : list Z) : l <> [] -> zlen (removelast l) = zlen l - 1.
Proof.
  intros H. unfold zlen. rewrite (app_removelast_last 0 H) at 2. rewrite app_length. cbn. lia.
Qed.

Lemma choose_In l r : l <> [] -> In (choose l r) l.
Proof.
  intros H. unfold choose. apply znth_In.
  assert (0 < zlen l) by (unfold zlen; destruct l; [congruence|cbn [List.length]; lia]).
  apply Z.mod_pos_bound. lia.
Qed.

Lemma node_choices_nonneg r : 0 <= choose node_choices r.
Proof.
  assert (H : In (choose node_choices r) node_choices) by (apply choose_In; discriminate).
  set (x := choose node_choices r) in *. clearbody x. cbn in H. lia.
Qed.

(* ================================================================ MLP *)
Definition amount_ok (o : option Z) : Prop := match o with Some n => 0 <= n | None => True end.
Definition mlp_meth_ok (m : mlp_meth) : Prop :=
  match m with MAddNode _ nn | MRemoveNode _ nn => amount_ok nn | _ => True end.

Definition arch_of {A} (o : step_out A) : A := fst (fst o).
Definition name_of {A} (o : step_out A) : string := snd (fst o).

Lemma mlp_node_args_amount h hl nn r1 r2 : amount_ok nn -> 0 <= snd (mlp_node_args h hl nn r1 r2).
Proof. destruct hl, nn; cbn [mlp_node_args snd amount_ok]; intros H; auto; apply node_choices_nonneg. Qed.

(* widths: every interval that contains [min_nodes, max_nodes] is invariant.  With lo = min_nodes,
   hi = max_nodes this is "inside stays inside"; with lo = min(min_nodes, smallest width) and
   hi = max(max_nodes, largest width) it says a start outside the bounds never moves further out. *)
Lemma mlp_add_node_widths c h hl nn r1 r2 lo hi :
  lo <= m_min_nodes c -> m_max_nodes c <= hi -> amount_ok nn ->
  Forall (between lo hi) h -> Forall (between lo hi) (arch_of (mlp_add_node c h hl nn r1 r2)).
Proof.
  intros Hlo Hhi Hn HF. unfold mlp_add_node.
  pose proof (mlp_node_args_amount h hl nn r1 r2 Hn) as Ha.
  destruct (mlp_node_args h hl nn r1 r2) as [i n]. cbn [snd] in Ha. unfold arch_of; cbn [fst].
  destruct (Z.leb_spec (znth h i + n) (m_max_nodes c)); auto.
  unfold updz. apply upd_forall; auto. intros Hi.
  assert (Hx : between lo hi (nth (Z.to_nat i) h 0)).
  { rewrite Forall_forall in HF. apply HF. apply nth_In. exact Hi. }
  unfold between, znth in *. lia.
Qed.

Lemma mlp_remove_node_widths c h hl nn r1 r2 lo hi :
  lo <= m_min_nodes c -> m_max_nodes c <= hi -> amount_ok nn ->
  Forall (between lo hi) h -> Forall (between lo hi) (arch_of (mlp_remove_node c h hl nn r1 r2)).
Proof.
  intros Hlo Hhi Hn HF. unfold mlp_remove_node.
  pose proof (mlp_node_args_amount h hl nn r1 r2 Hn) as Ha.
  destruct (mlp_node_args h hl nn r1 r2) as [i n]. cbn [snd] in Ha. unfold arch_of; cbn [fst].
  destruct (Z.ltb_spec (m_min_nodes c) (znth h i - n)); auto.
  unfold updz. apply upd_forall; auto. intros Hi.
  assert (Hx : between lo hi (nth (Z.to_nat i) h 0)).
  { rewrite Forall_forall in HF. apply HF. apply nth_In. exact Hi. }
  unfold between, znth in *. lia.
Qed.

Lemma mlp_add_node_length c h hl nn r1 r2 : zlen (arch_of (mlp_add_node c h hl nn r1 r2)) = zlen h.
Proof.
  unfold mlp_add_node. destruct (mlp_node_args h hl nn r1 r2) as [i n]. unfold arch_of; cbn [fst].
  destruct (_ <=? _); auto. unfold updz, zlen. now rewrite upd_length.
Qed.
Lemma mlp_remove_node_length c h hl nn r1 r2 : zlen (arch_of (mlp_remove_node c h hl nn r1 r2)) = zlen h.
Proof.
  unfold mlp_remove_node. destruct (mlp_node_args h hl nn r1 r2) as [i n]. unfold arch_of; cbn [fst].
  destruct (_ <? _); auto. unfold updz, zlen. now rewrite upd_length.
Qed.

Lemma zlen_nil_iff {A} (l : list A) : zlen l = 0 <-> l = [].
Proof. unfold zlen. destruct l; cbn; split; intros; try congruence; lia. Qed.

Theorem mlp_widths_inv c h m r1 r2 lo hi :
  lo <= m_min_nodes c -> m_max_nodes c <= hi -> mlp_meth_ok m -> h <> [] ->
  Forall (between lo hi) h -> Forall (between lo hi) (arch_of (mlp_step c h m r1 r2)).
Proof.
  intros Hlo Hhi Hm Hne HF. destruct m as [| |hl nn|hl nn]; cbn [mlp_step].
  - destruct (_ <? _).
    + unfold arch_of; cbn [fst]. apply Forall_app; split; auto. constructor; auto.
      rewrite Forall_forall in HF. apply HF. now apply last_In.
    + apply mlp_add_node_widths; cbn; auto.
  - destruct (_ <? _).
    + unfold arch_of; cbn [fst]. now apply Forall_removelast.
    + apply mlp_add_node_widths; cbn; auto.
  - now apply mlp_add_node_widths.
  - now apply mlp_remove_node_widths.
Qed.

(* number of layers: every interval that contains [min_layers, max_layers] is invariant *)
Theorem mlp_layers_inv c h m r1 r2 lo hi :
  lo <= m_min_layers c -> m_max_layers c <= hi -> h <> [] ->
  lo <= zlen h <= hi -> lo <= zlen (arch_of (mlp_step c h m r1 r2)) <= hi.
Proof.
  intros Hlo Hhi Hne HL. destruct m as [| |hl nn|hl nn]; cbn [mlp_step].
  - destruct (Z.ltb_spec (zlen h) (m_max_layers c)).
    + unfold arch_of; cbn [fst]. unfold zlen in *. rewrite app_length. cbn. lia.
    + now rewrite mlp_add_node_length.
  - destruct (Z.ltb_spec (m_min_layers c) (zlen h)).
    + unfold arch_of; cbn [fst]. rewrite removelast_length by auto. lia.
    + now rewrite mlp_add_node_length.
  - now rewrite mlp_add_node_length.
  - now rewrite mlp_remove_node_length.
Qed.

Definition mlp_in_bounds (c : mlp_cfg) (h : list Z) : Prop :=
  m_min_layers c <= zlen h <= m_max_layers c /\ Forall (between (m_min_nodes c) (m_max_nodes c)) h.

Lemma in_bounds_nonempty c h : 1 <= m_min_layers c -> mlp_in_bounds c h -> h <> [].
Proof. intros H [HL _] ->. cbn in HL. lia. Qed.

Theorem mlp_bounds_inv c h m r1 r2 :
  1 <= m_min_layers c -> mlp_meth_ok m -> mlp_in_bounds c h -> mlp_in_bounds c (arch_of (mlp_step c h m r1 r2)).
Proof.
  intros Hmin Hm HB. pose proof (in_bounds_nonempty _ _ Hmin HB) as Hne. destruct HB as [HL HF]. split.
  - apply mlp_layers_inv; auto; lia.
  - apply mlp_widths_inv; auto; lia.
Qed.

(* chains of mutation calls: (method, draw 1, draw 2) *)
Definition mlp_op := (mlp_meth * Z * Z)%type.
Definition mlp_run (c : mlp_cfg) (h : list Z) (ops : list mlp_op) : list Z :=
  fold_left (fun h '(m, r1, r2) => arch_of (mlp_step c h m r1 r2)) ops h.
Definition mlp_op_ok (o : mlp_op) : Prop := mlp_meth_ok (fst (fst o)).

Theorem mlp_bounds_chain c : 1 <= m_min_layers c -> forall ops h,
  Forall mlp_op_ok ops -> mlp_in_bounds c h -> mlp_in_bounds c (mlp_run c h ops).
Proof.
  intros Hmin. induction ops as [|[[m r1] r2] ops IH]; intros h HF HB; cbn; auto.
  inversion HF; subst. apply IH; auto. apply mlp_bounds_inv; auto.
Qed.

(* a start outside the bounds never moves further out (per quantity) *)
Definition lmin (l : list Z) (d : Z) := fold_right Z.min d l.
Definition lmax (l : list Z) (d : Z) := fold_right Z.max d l.
Lemma between_lmin_lmax l lo hi : Forall (between (lmin l lo) (lmax l hi)) l.
Proof.
  induction l as [|x l IH]; constructor.
  - unfold between, lmin, lmax; cbn [fold_right]; lia.
  - eapply Forall_impl; [|exact IH]. unfold between, lmin, lmax; cbn [fold_right]; intros; lia.
Qed.
Lemma lmin_le l d : lmin l d <= d. Proof. unfold lmin; induction l; cbn [fold_right]; lia. Qed.
Lemma lmax_ge l d : d <= lmax l d. Proof. unfold lmax; induction l; cbn [fold_right]; lia. Qed.

Theorem mlp_never_further_out c h m r1 r2 :
  mlp_meth_ok m -> h <> [] ->
  let h' := arch_of (mlp_step c h m r1 r2) in
  Forall (between (lmin h (m_min_nodes c)) (lmax h (m_max_nodes c))) h' /\
  Z.min (zlen h) (m_min_layers c) <= zlen h' <= Z.max (zlen h) (m_max_layers c).
Proof.
  intros Hm Hne h'. split.
  - apply mlp_widths_inv; auto using lmin_le, lmax_ge, between_lmin_lmax.
  - apply mlp_layers_inv; auto; lia.
Qed.

(* validity: what the constructor asserts and what forward needs — at least one layer, all sizes > 0 *)
Definition mlp_valid (h : list Z) : Prop := h <> [] /\ Forall (fun x => 0 < x) h.

Theorem mlp_valid_inv c h m r1 r2 :
  1 <= m_min_layers c -> 0 <= m_min_nodes c -> mlp_meth_ok m -> mlp_valid h ->
  mlp_valid (arch_of (mlp_step c h m r1 r2)).
Proof.
  intros Hl Hn Hm [Hne Hpos]. split.
  - (* length stays >= 1 *)
    assert (HL : 1 <= zlen (arch_of (mlp_step c h m r1 r2)) <= Z.max (zlen h) (m_max_layers c)).
    { apply mlp_layers_inv; auto; try lia.
      assert (zlen h <> 0) by (rewrite zlen_nil_iff; auto). pose proof (zlen_nonneg h). lia. }
    intros E. rewrite E in HL. cbn in HL. lia.
  - (* all sizes stay > 0: interval [1, max(max_nodes, largest)] would need 1 <= min_nodes; the
       remove guard is strict, so 0 <= min_nodes is enough — direct argument *)
    assert (Hadd : forall hl nn a b, amount_ok nn -> Forall (fun x => 0 < x) (arch_of (mlp_add_node c h hl nn a b))).
    { intros hl nn a b Hk. unfold mlp_add_node.
      pose proof (mlp_node_args_amount h hl nn a b Hk) as Ha.
      destruct (mlp_node_args h hl nn a b) as [i n]. cbn [snd] in Ha. unfold arch_of; cbn [fst].
      destruct (_ <=? _); auto. unfold updz. apply upd_forall; auto. intros Hi.
      assert (0 < nth (Z.to_nat i) h 0) by (rewrite Forall_forall in Hpos; apply Hpos, nth_In, Hi). lia. }
    destruct m as [| |hl nn|hl nn]; cbn [mlp_step].
    + destruct (_ <? _); [|apply Hadd; cbn; auto].
      unfold arch_of; cbn [fst]. apply Forall_app; split; auto. constructor; auto.
      rewrite Forall_forall in Hpos. apply Hpos. now apply last_In.
    + destruct (_ <? _); [|apply Hadd; cbn; auto]. unfold arch_of; cbn [fst]. now apply Forall_removelast.
    + now apply Hadd.
    + unfold mlp_remove_node.
      pose proof (mlp_node_args_amount h hl nn r1 r2 Hm) as Ha.
      destruct (mlp_node_args h hl nn r1 r2) as [i n]. cbn [snd] in Ha. unfold arch_of; cbn [fst].
      destruct (Z.ltb_spec (m_min_nodes c) (znth h i - n)); auto.
      unfold updz. apply upd_forall; auto. intros Hi. unfold znth in *. lia.
Qed.

(* ---- advertised mutations are effective *)
Theorem mlp_add_layer_effective c h r1 r2 :
  zlen h < m_max_layers c ->
  mlp_step c h MAddLayer r1 r2 = (h ++ [last h 0], "add_layer"%string, []) /\
  zlen (arch_of (mlp_step c h MAddLayer r1 r2)) = zlen h + 1.
Proof.
  intros H. cbn [mlp_step]. destruct (Z.ltb_spec (zlen h) (m_max_layers c)); [|lia].
  split; auto. unfold arch_of, zlen; cbn [fst]. rewrite app_length. cbn. lia.
Qed.

Theorem mlp_add_layer_fallback c h r1 r2 :
  m_max_layers c <= zlen h ->
  mlp_step c h MAddLayer r1 r2 = mlp_add_node c h None None r1 r2 /\
  name_of (mlp_step c h MAddLayer r1 r2) = "add_node"%string.
Proof.
  intros H. cbn [mlp_step]. destruct (Z.ltb_spec (zlen h) (m_max_layers c)); [lia|].
  split; auto.
Qed.

Theorem mlp_remove_layer_effective c h r1 r2 :
  m_min_layers c < zlen h ->
  mlp_step c h MRemoveLayer r1 r2 = (removelast h, "remove_layer"%string, []) /\
  (h <> [] -> zlen (arch_of (mlp_step c h MRemoveLayer r1 r2)) = zlen h - 1).
Proof.
  intros H. cbn [mlp_step]. destruct (Z.ltb_spec (m_min_layers c) (zlen h)); [|lia].
  split; auto. intros Hne. unfold arch_of; cbn [fst]. now apply removelast_length.
Qed.

Theorem mlp_remove_layer_fallback c h r1 r2 :
  zlen h <= m_min_layers c ->
  mlp_step c h MRemoveLayer r1 r2 = mlp_add_node c h None None r1 r2 /\
  name_of (mlp_step c h MRemoveLayer r1 r2) = "add_node"%string.
Proof.
  intros H. cbn [mlp_step]. destruct (Z.ltb_spec (m_min_layers c) (zlen h)); [lia|].
  split; auto.
Qed.

(* add_node / remove_node with the layer index i and amount n the call resolved to *)
Theorem mlp_add_node_effective c h hl nn r1 r2 :
  let '(i, n) := mlp_node_args h hl nn r1 r2 in
  0 <= i < zlen h -> znth h i + n <= m_max_nodes c ->
  let h' := arch_of (mlp_step c h (MAddNode hl nn) r1 r2) in
  znth h' i = znth h i + n /\ (forall j, j <> Z.to_nat i -> nth j h' 0 = nth j h 0) /\ zlen h' = zlen h /\
  name_of (mlp_step c h (MAddNode hl nn) r1 r2) = "add_node"%string /\ (0 < n -> h' <> h).
Proof.
  cbn [mlp_step]. unfold mlp_add_node. destruct (mlp_node_args h hl nn r1 r2) as [i n].
  intros Hi Hg. unfold arch_of, name_of; cbn [fst snd].
  destruct (Z.leb_spec (znth h i + n) (m_max_nodes c)); [|lia].
  assert (Hin : (Z.to_nat i < length h)%nat) by (unfold zlen in Hi; lia).
  repeat split.
  - unfold znth, updz. now rewrite upd_nth.
  - intros j Hj. unfold updz. apply upd_nth_other. congruence.
  - unfold updz, zlen. now rewrite upd_length.
  - intros Hn E. assert (znth (updz h i (fun x => x + n)) i = znth h i) by now rewrite E.
    unfold znth, updz in H0. rewrite upd_nth in H0 by auto. lia.
Qed.

Theorem mlp_remove_node_effective c h hl nn r1 r2 :
  let '(i, n) := mlp_node_args h hl nn r1 r2 in
  0 <= i < zlen h -> m_min_nodes c < znth h i - n ->
  let h' := arch_of (mlp_step c h (MRemoveNode hl nn) r1 r2) in
  znth h' i = znth h i - n /\ (forall j, j <> Z.to_nat i -> nth j h' 0 = nth j h 0) /\ zlen h' = zlen h /\
  name_of (mlp_step c h (MRemoveNode hl nn) r1 r2) = "remove_node"%string /\ (0 < n -> h' <> h).
Proof.
  cbn [mlp_step]. unfold mlp_remove_node. destruct (mlp_node_args h hl nn r1 r2) as [i n].
  intros Hi Hg. unfold arch_of, name_of; cbn [fst snd].
  destruct (Z.ltb_spec (m_min_nodes c) (znth h i - n)); [|lia].
  assert (Hin : (Z.to_nat i < length h)%nat) by (unfold zlen in Hi; lia).
  repeat split.
  - unfold znth, updz. now rewrite upd_nth.
  - intros j Hj. unfold updz. apply upd_nth_other. congruence.
  - unfold updz, zlen. now rewrite upd_length.
  - intros Hn E. assert (znth (updz h i (fun x => x - n)) i = znth h i) by now rewrite E.
    unfold znth, updz in H0. rewrite upd_nth in H0 by auto. lia.
Qed.

(* the resolved layer index is always a valid one (so the guards above are reachable) *)
Lemma mlp_node_args_index h hl nn r1 r2 :
  h <> [] -> (match hl with Some l => 0 <= l | None => True end) ->
  0 <= fst (mlp_node_args h hl nn r1 r2) < zlen h.
Proof.
  intros Hne Hl. assert (0 < zlen h) by (pose proof (zlen_nonneg h); assert (zlen h <> 0) by (rewrite zlen_nil_iff; auto); lia).
  assert (0 <= pick 0 (zlen h) r1 < zlen h).
  { unfold pick. rewrite Z.sub_0_r. pose proof (Z.mod_pos_bound r1 (zlen h) H). lia. }
  destruct hl, nn; cbn [mlp_node_args fst]; auto; lia.
Qed.

(* ---- the module is rebuilt after every mutation and its constructor description rebuilds it *)
Definition mlp_state_run (s : mlp_static) (c : mlp_cfg) (st : mlp_state) (ops : list mlp_op) : mlp_state :=
  fold_left (fun st '(m, r1, r2) => fst (fst (mlp_mutate s c st m r1 r2))) ops st.

Lemma mlp_mutate_hidden s c st m r1 r2 :
  fst (fst (mlp_mutate s c st m r1 r2)) = mlp_build s (arch_of (mlp_step c (mlp_hidden st) m r1 r2)).
Proof. unfold mlp_mutate, arch_of. destruct (mlp_step c (mlp_hidden st) m r1 r2) as [[h' nm] rt]. reflexivity. Qed.

Lemma mlp_state_run_build s c : forall ops h,
  mlp_state_run s c (mlp_build s h) ops = mlp_build s (mlp_run c h ops).
Proof.
  induction ops as [|[[m r1] r2] ops IH]; intros h; cbn [mlp_state_run mlp_run fold_left]; auto.
  rewrite mlp_mutate_hidden. cbn [mlp_hidden mlp_build]. apply IH.
Qed.

Lemma mlp_valid_chain c : 1 <= m_min_layers c -> 0 <= m_min_nodes c -> forall ops h,
  Forall mlp_op_ok ops -> mlp_valid h -> mlp_valid (mlp_run c h ops).
Proof.
  intros Hl Hn. induction ops as [|[[m r1] r2] ops IH]; intros h HF HV; cbn; auto.
  inversion HF; subst. apply IH; auto. apply mlp_valid_inv; auto.
Qed.

Lemma forallb_pos h : Forall (fun x => 0 < x) h -> forallb (fun x => 0 <? x) h = true.
Proof. induction 1; cbn; auto. rewrite IHForall. destruct (Z.ltb_spec 0 x); auto; lia. Qed.

Definition mlp_cfg_ok (s : mlp_static) (c : mlp_cfg) : Prop :=
  0 < ms_in s /\ 0 < ms_out s /\ 1 <= m_min_layers c < m_max_layers c /\ 0 <= m_min_nodes c < m_max_nodes c.

Theorem mlp_rebuild_exact s c h0 ops :
  mlp_cfg_ok s c -> mlp_valid h0 -> Forall mlp_op_ok ops ->
  let st := mlp_state_run s c (mlp_build s h0) ops in
  mlp_of_ctor (mlp_ctor_of s c st) = Some st /\ mlp_built st = mlp_shapes s (mlp_hidden st).
Proof.
  intros (Hi & Ho & Hl & Hn) HV HF st. unfold st. rewrite mlp_state_run_build.
  assert (HV' : mlp_valid (mlp_run c h0 ops)) by (apply mlp_valid_chain; auto; lia).
  destruct HV' as [Hne Hpos]. split; [|reflexivity].
  unfold mlp_of_ctor, mlp_ctor_ok, mlp_ctor_of. cbn [mc_static mc_cfg mc_hidden mlp_hidden mlp_build].
  rewrite forallb_pos by auto.
  assert (zlen (mlp_run c h0 ops) <> 0) by (rewrite zlen_nil_iff; auto).
  repeat match goal with |- context[?a <? ?b] => destruct (Z.ltb_spec a b); try lia end.
  destruct (Z.eqb_spec (zlen (mlp_run c h0 ops)) 0); try lia. reflexivity.
Qed.

(* pinned behaviour before the fix a443ae2: modules built from one configuration shared the list *)
Theorem mlp_shared_config_refuted :
  exists s c a b hl nn r1 r2,
    mlp_built b = mlp_shapes s (mlp_hidden b) /\
    let b' := snd (shared_add_node s c a b hl nn r1 r2) in
    mlp_built b' <> mlp_shapes s (mlp_hidden b').
Proof.
  set (s := {| ms_in := 2; ms_out := 1; ms_layer_norm := false; ms_out_layer_norm := false; ms_noisy := false |}).
  exists s, {| m_min_layers := 1; m_max_layers := 3; m_min_nodes := 1; m_max_nodes := 64 |}.
  exists (mlp_build s [4]), (mlp_build s [4]), (Some 0), (Some 4), 0, 0.
  split; [reflexivity|]. vm_compute. discriminate.
Qed.
