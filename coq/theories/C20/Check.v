(* C20 — boolean comparison of the model with observations of the real training functions (used by K only). *)
From Coq Require Import List Arith Bool QArith.
Import ListNotations.
From AgileV Require Import C20.Model.
Open Scope nat_scope.

Fixpoint list_eqb {T U} (eqb : T -> U -> bool) (a : list T) (b : list U) : bool :=
  match a, b with
  | [], [] => true
  | x :: a', y :: b' => eqb x y && list_eqb eqb a' b'
  | _, _ => false
  end.
Definition opt_eqb {T} (eqb : T -> T -> bool) (a b : option T) : bool :=
  match a, b with Some x, Some y => eqb x y | None, None => true | _, _ => false end.

(* what the harness observes in one generation *)
Record ogen := {
  b_roll : list (nat * nat);                    (* per individual: environment steps taken, learn() calls *)
  b_tested : list (nat * nat * nat * nat);      (* at the end of its test(): index, steps[-1], len(steps), len(fitness) *)
  b_sel : bool;                                 (* tournament selection ran in this generation *)
  b_after : list (nat * nat * nat * nat * nat); (* population the generation ends with:
                                                   index, steps[-1], len(steps), len(fitness), env steps of the lineage *)
  b_saved : option (list nat)                   (* checkpoint files written: the step numbers in their names ([] = overwritten files) *)
}.

Definition roll_eqb (r : rres) (b : nat * nat) : bool :=
  (r_env r =? fst b) && (r_learn r =? snd b).

Definition tested_eqb (a : agent) (b : nat * nat * nat * nat) : bool :=
  let '(i, s, ns, nf) := b in
  (idx a =? i) && (cur a =? s) && (length (stp a) =? S ns) && (length (fit a) =? nf).

Definition after_eqb (a : agent) (b : nat * nat * nat * nat * nat) : bool :=
  let '(i, s, ns, nf, tk) := b in
  (idx a =? i) && (cur a =? s) && (length (stp a) =? ns) && (length (fit a) =? nf) && (taken a =? tk).

Definition check_gen (x : goutput * list agent) (b : ogen) : bool :=
  let '(o, p) := x in
  list_eqb roll_eqb (o_roll o) (b_roll b) &&
  list_eqb tested_eqb (o_tested o) (b_tested b) &&
  Bool.eqb (o_evolved o) (b_sel b) && o_elite_ok o &&
  list_eqb after_eqb p (b_after b) &&
  match b_saved b with
  | None => negb (o_saved o)
  | Some [] => o_saved o
  | Some l => o_saved o && list_eqb Nat.eqb (map cur p) l
  end.

(* the returned population: index, agent.steps (oldest first), len(fitness), env steps of the lineage *)
Definition final_eqb (a : agent) (b : nat * list nat * nat * nat) : bool :=
  let '(i, s, nf, tk) := b in
  (idx a =? i) && list_eqb Nat.eqb (rev (stp a)) s && (length (fit a) =? nf) && (taken a =? tk).

Definition check_run (c : cfg) (pop0 : list agent) (inps : list ginput) (obs : list ogen)
           (final : list (nat * list nat * nat * nat)) : bool :=
  let '(outs, stf, ok) := run_trace c (init_state pop0) inps in
  ok &&
  list_eqb check_gen outs obs &&
  list_eqb final_eqb (pop stf) final &&
  (* the loop ended exactly here: the guard fails now, or the last generation took the early stop *)
  (negb (guard c (pop stf)) || match rev outs with (o, _) :: _ => o_stop o | [] => false end).

(* the same for a call on a population with history and a memory that already holds [added0] transitions *)
Definition check_run_from (c : cfg) (pop0 : list agent) (added0 : nat) (inps : list ginput) (obs : list ogen)
           (final : list (nat * list nat * nat * nat)) : bool :=
  let '(outs, stf, ok) := run_trace c (init_state_from pop0 added0) inps in
  ok &&
  list_eqb check_gen outs obs &&
  list_eqb final_eqb (pop stf) final &&
  (negb (guard c (pop stf)) || match rev outs with (o, _) :: _ => o_stop o | [] => false end).
