(* C20 — executable accounting model of the six training loops of agilerl.training
   (train_off_policy, train_on_policy, train_offline, train_bandits, train_multi_agent_off_policy,
   train_multi_agent_on_policy) together with TournamentSelection.select as used by
   tournament_selection_and_mutation and the checkpoint trigger of save_population_checkpoint.
   Model only (no proofs) so that it still runs when a proof breaks.

   What is random or learned in the real loop is an explicit input of the model, per generation:
   the fitness returned by agent.test, the parents picked by the tournaments, and the
   (learn_step, batch_size) every individual trains with (they change under hyper-parameter mutation). *)
From Coq Require Import List Arith Bool QArith Lia.
Import ListNotations.
Open Scope nat_scope.

Inductive loop := Off | On | Offline | Bandit | MAOff | MAOn.

Record cfg := {
  lp : loop;
  num_envs : nat;        (* env.num_envs, 1 for a plain environment *)
  evo_steps : nat;
  max_steps : nat;
  episode_steps : nat;   (* train_bandits only *)
  delay : nat;           (* learning_delay *)
  mem_cap : nat;         (* memory.max_size *)
  nstep : nat;           (* 0: no n_step_memory; n: MultiStepReplayBuffer(n_step = n) in front of the memory *)
  checkpoint : nat;      (* 0: None *)
  evolve : bool;         (* tournament and mutation given *)
  elitism : bool;
  tour_pop : nat;        (* TournamentSelection.population_size *)
  eval_loop : nat;       (* TournamentSelection.eval_loop *)
  target : option Q      (* early-stopping target *)
}.

(* an individual. Python lists are kept newest-first: [stp] = reversed agent.steps, [fit] = reversed
   agent.fitness. [taken] is a ghost field: environment steps taken in training by this individual and
   the ancestors it was cloned from. *)
Record agent := { idx : nat; stp : list nat; fit : list Q; taken : nat }.
Definition cur (a : agent) : nat := hd 0 (stp a).           (* agent.steps[-1] *)
Definition dflt : agent := {| idx := 0; stp := []; fit := []; taken := 0 |}.

Record hp := { ls : nat; bs : nat }.                        (* agent.learn_step, agent.batch_size *)

(* replay memory, as far as the loops look at it: transitions ever stored, add() calls on the n-step deque *)
Record mem := { added : nat; calls : nat }.   (* calls: add() calls on the n-step window since it was last emptied *)
Definition mem_len (c : cfg) (m : mem) : nat := Nat.min (mem_cap c) (added m).
Definition is_ma (c : cfg) : bool := match lp c with MAOff | MAOn => true | _ => false end.

(* one add of a (vectorised) transition. With an n-step buffer in front the memory receives the fused
   transition only once the deque holds n entries ([calls] counts the adds since the window was last emptied,
   see [turn_start]). *)
Definition mem_add (c : cfg) (k : nat) (m : mem) : mem :=
  let calls' := S (calls m) in
  if (nstep c =? 0) || (nstep c <=? calls')
  then {| added := added m + k; calls := calls' |}
  else {| added := added m; calls := calls' |}.

(* -(a // -b) *)
Definition cdiv (a b : nat) : nat := (a + b - 1) / b.

(* number of learn() calls in iteration i of the off-policy rollouts, after the transition was stored *)
Definition ready (c : cfg) (h : hp) (m : mem) : bool :=
  (bs h <=? mem_len c m) && (delay c <? (if is_ma c then added m else mem_len c m)).
Definition learns_at (c : cfg) (h : hp) (i : nat) (m : mem) : nat :=
  if num_envs c <? ls h then
    if (i mod (ls h / num_envs c) =? 0) && ready c h m then 1 else 0
  else if ready c h m then num_envs c / ls h else 0.

(* result of one individual's training phase in one generation *)
Record rres := { r_env : nat;     (* environment steps actually taken: step() calls x sub-environments *)
                 r_cnt : nat;     (* what is added to agent.steps[-1] *)
                 r_learn : nat }. (* learn() calls *)

(* for idx_step in range(evo_steps // num_envs): step; steps += num_envs; memory.add; learn by schedule *)
Fixpoint rollout_off (c : cfg) (h : hp) (i n : nat) (m : mem) (r : rres) : mem * rres :=
  match n with
  | 0 => (m, r)
  | S n' =>
      let m' := mem_add c (num_envs c) m in
      rollout_off c h (S i) n' m'
        {| r_env := r_env r + num_envs c; r_cnt := r_cnt r + num_envs c;
           r_learn := r_learn r + learns_at c h i m' |}
  end.

Fixpoint iter {A : Type} (n : nat) (f : A -> A) (x : A) : A :=
  match n with 0 => x | S k => iter k f (f x) end.

(* for _ in range(-(evo_steps // -learn_step)): for _ in range(-(learn_step // -num_envs)): step ; learn *)
Definition rollout_on (c : cfg) (h : hp) (r : rres) : rres :=
  iter (cdiv (evo_steps c) (ls h))
       (fun r => let r' := iter (cdiv (ls h) (num_envs c))
                              (fun r => {| r_env := r_env r + num_envs c; r_cnt := r_cnt r + num_envs c;
                                           r_learn := r_learn r |}) r in
                 {| r_env := r_env r'; r_cnt := r_cnt r'; r_learn := r_learn r' + 1 |}) r.

(* train_offline: for _ in range(evo_steps): sample; learn ; steps += evo_steps *)
Definition rollout_offline (c : cfg) (r : rres) : rres :=
  iter (evo_steps c) (fun r => {| r_env := r_env r; r_cnt := r_cnt r + 1; r_learn := r_learn r + 1 |}) r.

(* train_bandits: for _ in range(episode_steps): step; memory.add; if len(memory) >= batch_size: learn x learn_step *)
Fixpoint rollout_bandit (c : cfg) (h : hp) (n : nat) (m : mem) (r : rres) : mem * rres :=
  match n with
  | 0 => (m, r)
  | S n' =>
      let m' := mem_add c 1 m in
      rollout_bandit c h n' m'
        {| r_env := r_env r + 1; r_cnt := r_cnt r + 1;
           r_learn := r_learn r + (if bs h <=? mem_len c m' then ls h else 0) |}
  end.

Definition r0 : rres := {| r_env := 0; r_cnt := 0; r_learn := 0 |}.

(* start of an individual's turn: env.reset() is followed by n_step_memory.reset_n_step_buffer() (fix f859dc3), so the
   n-step window is empty at the start of EVERY turn (every individual, every generation) and has to refill: nothing is
   stored during the first n-1 iterations of a turn. What the memories already hold is kept. *)
Definition turn_start (m : mem) : mem := {| added := added m; calls := 0 |}.

Definition rollout (c : cfg) (h : hp) (m : mem) : mem * rres :=
  match lp c with
  | Off | MAOff => rollout_off c h 0 (evo_steps c / num_envs c) (turn_start m) r0
  | On | MAOn => (m, rollout_on c h r0)
  | Offline => (m, rollout_offline c r0)
  | Bandit => rollout_bandit c h (episode_steps c) m r0
  end.

(* agent.steps[-1] += steps *)
Definition bump (a : agent) (r : rres) : agent :=
  {| idx := idx a; stp := (cur a + r_cnt r) :: tl (stp a); fit := fit a; taken := taken a + r_env r |}.

(* the population is trained one individual after the other on the shared memory *)
Fixpoint train_pop (c : cfg) (hps : list hp) (pop : list agent) (m : mem) : list agent * mem * list rres :=
  match pop with
  | [] => ([], m, [])
  | a :: pop' =>
      let h := hd {| ls := 1; bs := 1 |} hps in
      let '(m1, r) := rollout c h m in
      let '(pop2, m2, rs) := train_pop c (tl hps) pop' m1 in
      (bump a r :: pop2, m2, r :: rs)
  end.

(* agent.test appends one fitness value; then agent.steps.append(agent.steps[-1]) *)
Definition evaluate (a : agent) (f : Q) : agent :=
  {| idx := idx a; stp := cur a :: stp a; fit := f :: fit a; taken := taken a |}.
Fixpoint eval_pop (pop : list agent) (fs : list Q) : list agent :=
  match pop with
  | [] => []
  | a :: pop' => evaluate a (hd 0%Q fs) :: eval_pop pop' (tl fs)
  end.

(* np.mean(agent.fitness[-k:]) *)
Definition qsum (l : list Q) : Q := fold_right Qplus 0%Q l.
Definition mean_last (k : nat) (a : agent) : Q :=
  let l := firstn k (fit a) in qsum l / inject_Z (Z.of_nat (length l)).

(* position of the last maximal element: population[np.argsort(rank)[-1]] with rank = argsort(argsort(fitness))
   (stable for the population sizes in question) *)
Fixpoint best_pos_from (l : list Q) (i : nat) (bi : nat) (bv : Q) : nat :=
  match l with
  | [] => bi
  | x :: l' => if Qle_bool bv x then best_pos_from l' (S i) i x else best_pos_from l' (S i) bi bv
  end.
Definition best_pos (l : list Q) : nat :=
  match l with [] => 0 | x :: l' => best_pos_from l' 1 0 x end.

(* agent.clone(index) *)
Definition clone_as (i : nat) (a : agent) : agent := {| idx := i; stp := stp a; fit := fit a; taken := taken a |}.
Definition max_idx (pop : list agent) : nat := fold_right Nat.max 0 (map idx pop).

(* TournamentSelection.select. [parents] = positions of the individuals that were cloned, in the order of the new
   population: with elitism the first entry is the elite's position (which of several individuals with the same maximal
   mean fitness np.argsort ranks last is platform dependent, so the choice is an input and [elite_okb] says what is
   required of it), then the tournament winners. *)
Definition elite_pos (c : cfg) (pop : list agent) : nat := best_pos (map (mean_last (eval_loop c)) pop).
Definition elite_okb (c : cfg) (pop : list agent) (e : nat) : bool :=
  (e <? length pop) &&
  forallb (fun a => Qle_bool (mean_last (eval_loop c) a) (mean_last (eval_loop c) (nth e pop dflt))) pop.
Definition select (c : cfg) (pop : list agent) (parents : list nat) : list agent :=
  let mx := max_idx pop in
  if elitism c then
    nth (nth 0 parents 0) pop dflt ::
    map (fun j => clone_as (mx + 1 + j) (nth (nth (S j) parents 0) pop dflt)) (seq 0 (tour_pop c - 1))
  else map (fun j => clone_as (mx + 1 + j) (nth (nth j parents 0) pop dflt)) (seq 0 (tour_pop c)).

(* loop guard *)
Definition guard (c : cfg) (pop : list agent) : bool :=
  match lp c with
  | MAOn => fold_right Nat.add 0 (map cur pop) <? max_steps c      (* np.sum(steps) < max_steps *)
  | _ => forallb (fun a => cur a <? max_steps c) pop               (* np.less(steps, max_steps).all() *)
  end.

Record state := { pop : list agent; memo : mem; ck_count : nat; evo_count : nat }.

Record ginput := { g_hps : list hp; g_fit : list Q; g_parents : list nat }.
Record goutput := { o_roll : list rres;          (* per individual: env steps, counter increment, learn calls *)
                    o_tested : list agent;       (* the population after training, evaluation and steps.append *)
                    o_evolved : bool;            (* tournament selection + mutation ran *)
                    o_elite_ok : bool;           (* ... and with elitism the individual kept as elite has maximal mean fitness *)
                    o_saved : bool;              (* save_population_checkpoint called *)
                    o_stop : bool }.             (* early stop taken *)

(* early stop: all(mean(fitness[-10:]) > target) and len(pop[0].steps) >= 100 *)
Definition early_stop (c : cfg) (pop : list agent) : bool :=
  match target c with
  | None => false
  | Some t => forallb (fun a => negb (Qle_bool (mean_last 10 a) t)) pop
              && (100 <=? length (stp (hd dflt pop)))
  end.

(* does tournament selection + mutation run in this generation? *)
Definition evolves (c : cfg) (st : state) (pop1 : list agent) : bool :=
  evolve c && match lp c with
              | Bandit => evo_count st <? cur (hd dflt pop1) / evo_steps c
              | _ => true
              end.

(* one generation of the while loop *)
Definition gen (c : cfg) (st : state) (inp : ginput) : state * goutput :=
  let '(p1, m1, rs) := train_pop c (g_hps inp) (pop st) (memo st) in
  let p2 := eval_pop p1 (g_fit inp) in
  if early_stop c p2 then
    ({| pop := p2; memo := m1; ck_count := ck_count st; evo_count := evo_count st |},
     {| o_roll := rs; o_tested := p2; o_evolved := false; o_elite_ok := true; o_saved := false; o_stop := true |})
  else
    let ev := evolves c st p2 in
    let p3 := if ev then select c p2 (g_parents inp) else p2 in
    let ec := if ev then S (evo_count st) else evo_count st in
    let save := negb (checkpoint c =? 0) && (ck_count st <? cur (hd dflt p3) / checkpoint c) in
    ({| pop := p3; memo := m1; ck_count := if save then S (ck_count st) else ck_count st; evo_count := ec |},
     {| o_roll := rs; o_tested := p2;
        o_evolved := ev;
        o_elite_ok := if ev && elitism c then elite_okb c p2 (nth 0 (g_parents inp) 0) else true;
        o_saved := save;
        o_stop := false |}).

(* the while loop, on an input stream; None = fuel exhausted (excluded by the theorems) *)
Fixpoint run (fuel : nat) (c : cfg) (st : state) (inp : nat -> ginput) (g : nat) : option (state * nat) :=
  if guard c (pop st) then
    match fuel with
    | 0 => None
    | S f => let '(st', o) := gen c st (inp g) in
             if o_stop o then Some (st', S g) else run f c st' inp (S g)
    end
  else Some (st, g).

(* the state after exactly n generations, ignoring the guard and early stops (used to state "first generation") *)
Fixpoint gens_n (n : nat) (c : cfg) (st : state) (inp : nat -> ginput) (g : nat) : state :=
  match n with
  | 0 => st
  | S k => gens_n k c (fst (gen c st (inp g))) inp (S g)
  end.

Definition init_state (pop0 : list agent) : state :=
  {| pop := pop0; memo := {| added := 0; calls := 0 |}; ck_count := 0; evo_count := 0 |}.
(* calling the function again on a population that already has history (the population it returned, agents restored
   from a checkpoint) and a memory that already holds transitions: counters, fitness lists and memory are state;
   checkpoint_count / evo_count are locals of the call and start at 0 *)
Definition init_state_from (pop0 : list agent) (added0 : nat) : state :=
  {| pop := pop0; memo := {| added := added0; calls := 0 |}; ck_count := 0; evo_count := 0 |}.
Definition fresh_agent (i : nat) : agent := {| idx := i; stp := [0]; fit := []; taken := 0 |}.

(* the trace over a finite list of generation inputs, as compared with the implementation: per generation the
   outputs and the population it ends with; the final state; and whether the guard held before every generation *)
Fixpoint run_trace (c : cfg) (st : state) (inps : list ginput) : list (goutput * list agent) * state * bool :=
  match inps with
  | [] => ([], st, true)
  | i :: inps' =>
      if guard c (pop st) then
        let '(st', o) := gen c st i in
        if o_stop o then ([(o, pop st')], st', match inps' with [] => true | _ => false end)
        else let '(os, stf, ok) := run_trace c st' inps' in ((o, pop st') :: os, stf, ok)
      else ([], st, false)
  end.
