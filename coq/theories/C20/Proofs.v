(* C20 — lemmas and proofs about the accounting model of the training loops. *)
From Coq Require Import List Arith Bool QArith Lia FinFun.
Import ListNotations.
From AgileV Require Import C20.Model.
Open Scope nat_scope.

(* ------------------------------------------------------------------ rollouts: steps per generation *)

Lemma iter_add {A} (proj : A -> nat) (f : A -> A) (k : nat) :
  (forall x, proj (f x) = proj x + k) -> forall n x, proj (iter n f x) = proj x + n * k.
Proof.
  intros Hf. induction n as [|n IH]; intros x; cbn [iter].
  - lia.
  - rewrite IH, Hf. lia.
Qed.

Lemma rollout_off_counts c h : forall n i m r,
  let r' := snd (rollout_off c h i n m r) in
  r_env r' = r_env r + n * num_envs c /\ r_cnt r' = r_cnt r + n * num_envs c.
Proof.
  induction n as [|n IH]; intros i m r; cbn [rollout_off snd].
  - lia.
  - specialize (IH (S i) (mem_add c (num_envs c) m)
      {| r_env := r_env r + num_envs c; r_cnt := r_cnt r + num_envs c;
         r_learn := r_learn r + learns_at c h i (mem_add c (num_envs c) m) |}).
    cbn [r_env r_cnt] in IH. lia.
Qed.

Lemma rollout_bandit_counts c h : forall n m r,
  let r' := snd (rollout_bandit c h n m r) in
  r_env r' = r_env r + n /\ r_cnt r' = r_cnt r + n.
Proof.
  induction n as [|n IH]; intros m r; cbn [rollout_bandit snd].
  - lia.
  - specialize (IH (mem_add c 1 m)
      {| r_env := r_env r + 1; r_cnt := r_cnt r + 1;
         r_learn := r_learn r + (if bs h <=? mem_len c (mem_add c 1 m) then ls h else 0) |}).
    cbn [r_env r_cnt] in IH. lia.
Qed.

Definition on_inner (c : cfg) (r : rres) : rres :=
  {| r_env := r_env r + num_envs c; r_cnt := r_cnt r + num_envs c; r_learn := r_learn r |}.
Definition on_outer (c : cfg) (h : hp) (r : rres) : rres :=
  let r' := iter (cdiv (ls h) (num_envs c)) (on_inner c) r in
  {| r_env := r_env r'; r_cnt := r_cnt r'; r_learn := r_learn r' + 1 |}.

Lemma rollout_on_unfold c h r : rollout_on c h r = iter (cdiv (evo_steps c) (ls h)) (on_outer c h) r.
Proof. reflexivity. Qed.

Lemma on_outer_env c h r : r_env (on_outer c h r) = r_env r + cdiv (ls h) (num_envs c) * num_envs c.
Proof. unfold on_outer. cbn [r_env]. apply (iter_add r_env). intros x. reflexivity. Qed.
Lemma on_outer_cnt c h r : r_cnt (on_outer c h r) = r_cnt r + cdiv (ls h) (num_envs c) * num_envs c.
Proof. unfold on_outer. cbn [r_cnt]. apply (iter_add r_cnt). intros x. reflexivity. Qed.
Lemma on_outer_learn c h r : r_learn (on_outer c h r) = r_learn r + 1.
Proof.
  unfold on_outer. cbn [r_learn]. f_equal.
  rewrite (iter_add r_learn (on_inner c) 0); [lia|]. intros x. cbn. lia.
Qed.

(* steps one individual adds to its counter in one generation *)
Definition steps_per_gen (c : cfg) (h : hp) : nat :=
  match lp c with
  | Off | MAOff => (evo_steps c / num_envs c) * num_envs c
  | On | MAOn => cdiv (evo_steps c) (ls h) * (cdiv (ls h) (num_envs c) * num_envs c)
  | Offline => evo_steps c
  | Bandit => episode_steps c
  end.

Lemma rollout_counts_lemma c h m :
  r_cnt (snd (rollout c h m)) = steps_per_gen c h /\
  (lp c <> Offline -> r_env (snd (rollout c h m)) = r_cnt (snd (rollout c h m))) /\
  (lp c = Offline -> r_env (snd (rollout c h m)) = 0 /\ r_learn (snd (rollout c h m)) = evo_steps c) /\
  ((lp c = On \/ lp c = MAOn) -> r_learn (snd (rollout c h m)) = cdiv (evo_steps c) (ls h)).
Proof.
  unfold rollout, steps_per_gen. destruct (lp c) eqn:E; cbn [snd].
  - pose proof (rollout_off_counts c h (evo_steps c / num_envs c) 0 (turn_start m) r0) as [A B]. cbn [r0 r_env r_cnt] in *.
    repeat split; try congruence; try lia. intros [|]; congruence.
  - rewrite rollout_on_unfold.
    rewrite (iter_add r_cnt (on_outer c h) _ (on_outer_cnt c h)).
    rewrite (iter_add r_env (on_outer c h) _ (on_outer_env c h)).
    rewrite (iter_add r_learn (on_outer c h) _ (on_outer_learn c h)).
    cbn [r0 r_env r_cnt r_learn]. repeat split; try congruence; try lia.
  - unfold rollout_offline.
    rewrite (iter_add r_cnt _ 1) by (intros; reflexivity).
    rewrite (iter_add r_env _ 0) by (intros; cbn; lia).
    rewrite (iter_add r_learn _ 1) by (intros; reflexivity).
    cbn [r0 r_env r_cnt r_learn]. repeat split; try congruence; try lia. intros [|]; congruence.
  - pose proof (rollout_bandit_counts c h (episode_steps c) m r0) as [A B]. cbn [r0 r_env r_cnt] in *.
    repeat split; try congruence; try lia. intros [|]; congruence.
  - pose proof (rollout_off_counts c h (evo_steps c / num_envs c) 0 (turn_start m) r0) as [A B]. cbn [r0 r_env r_cnt] in *.
    repeat split; try congruence; try lia. intros [|]; congruence.
  - rewrite rollout_on_unfold.
    rewrite (iter_add r_cnt (on_outer c h) _ (on_outer_cnt c h)).
    rewrite (iter_add r_env (on_outer c h) _ (on_outer_env c h)).
    rewrite (iter_add r_learn (on_outer c h) _ (on_outer_learn c h)).
    cbn [r0 r_env r_cnt r_learn]. repeat split; try congruence; try lia.
Qed.

(* ------------------------------------------------------------------ small facts about the population operations *)

Lemma cur_bump a r : cur (bump a r) = cur a + r_cnt r.
Proof. reflexivity. Qed.
Lemma cur_evaluate a f : cur (evaluate a f) = cur a.
Proof. reflexivity. Qed.
Lemma cur_clone i a : cur (clone_as i a) = cur a.
Proof. reflexivity. Qed.

Definition dhp : hp := {| ls := 1; bs := 1 |}.

Lemma train_pop_length c : forall pop hps m, length (fst (fst (train_pop c hps pop m))) = length pop.
Proof.
  induction pop as [|a pop IH]; intros hps m; cbn [train_pop]; [reflexivity|].
  destruct (rollout c (hd {| ls := 1; bs := 1 |} hps) m) as [m1 r].
  specialize (IH (tl hps) m1). destruct (train_pop c (tl hps) pop m1) as [[p2 m2] rs].
  cbn [fst length] in *. lia.
Qed.

Lemma train_pop_idx c : forall pop hps m, map idx (fst (fst (train_pop c hps pop m))) = map idx pop.
Proof.
  induction pop as [|a pop IH]; intros hps m; cbn [train_pop]; [reflexivity|].
  destruct (rollout c (hd {| ls := 1; bs := 1 |} hps) m) as [m1 r].
  specialize (IH (tl hps) m1). destruct (train_pop c (tl hps) pop m1) as [[p2 m2] rs].
  cbn [fst map] in *. rewrite IH. reflexivity.
Qed.

Lemma eval_pop_length : forall pop fs, length (eval_pop pop fs) = length pop.
Proof. induction pop as [|a pop IH]; intros fs; cbn [eval_pop length]; auto. Qed.

Lemma eval_pop_idx : forall pop fs, map idx (eval_pop pop fs) = map idx pop.
Proof. induction pop as [|a pop IH]; intros fs; cbn [eval_pop map]; [reflexivity|]. rewrite IH. reflexivity. Qed.

(* what one generation does to a single individual: train with some hyper-parameters on some memory, evaluate *)
Section Invariant.
Variable c : cfg.
Variable Hh : hp -> Prop.             (* what is assumed of the hyper-parameters individuals train with *)
Variable P : nat -> agent -> Prop.    (* generation-indexed invariant of an individual *)
Hypothesis P_step : forall g a h m f, Hh h -> P g a -> P (S g) (evaluate (bump a (snd (rollout c h m))) f).
Hypothesis P_clone : forall g a i, P g a -> P g (clone_as i a).

Definition hps_ok (hps : list hp) : Prop := forall h, In h (dhp :: hps) -> Hh h.

Lemma hps_ok_tl hps : hps_ok hps -> hps_ok (tl hps).
Proof.
  unfold hps_ok. intros H h [E|I]; apply H; [left; exact E|].
  right. destruct hps; [destruct I|]. right. exact I.
Qed.
Lemma hps_ok_hd hps : hps_ok hps -> Hh (hd dhp hps).
Proof. unfold hps_ok. intros H. apply H. destruct hps; [left|right; left]; reflexivity. Qed.

Lemma train_eval_inv g : forall pop hps m fs,
  hps_ok hps -> Forall (P g) pop ->
  Forall (P (S g)) (eval_pop (fst (fst (train_pop c hps pop m))) fs).
Proof.
  induction pop as [|a pop IH]; intros hps m fs Hok HP; cbn [train_pop].
  - constructor.
  - inversion HP as [|? ? Pa Ppop]; subst.
    pose proof (P_step g a (hd dhp hps) m (hd 0%Q fs) (hps_ok_hd _ Hok) Pa) as Ha.
    unfold dhp in *.
    destruct (rollout c (hd {| ls := 1; bs := 1 |} hps) m) as [m1 r].
    specialize (IH (tl hps) m1 (tl fs) (hps_ok_tl _ Hok) Ppop).
    destruct (train_pop c (tl hps) pop m1) as [[p2 m2] rs].
    cbn [fst eval_pop snd] in *. constructor; assumption.
Qed.

Definition parents_ok (n : nat) (ps : list nat) : Prop := forall j, nth j ps 0 < n.

Lemma best_pos_from_lt : forall l i bi bv, bi < i -> best_pos_from l i bi bv < i + length l.
Proof.
  induction l as [|x l IH]; intros i bi bv H; cbn [best_pos_from length].
  - lia.
  - destruct (Qle_bool bv x).
    + specialize (IH (S i) i x). lia.
    + specialize (IH (S i) bi bv). lia.
Qed.
Lemma best_pos_lt l : l <> [] -> best_pos l < length l.
Proof.
  destruct l as [|x l]; [congruence|]. intros _. cbn [best_pos length].
  pose proof (best_pos_from_lt l 1 0 x). lia.
Qed.

Lemma select_inv g pop ps :
  pop <> [] -> parents_ok (length pop) ps -> Forall (P g) pop -> Forall (P g) (select c pop ps).
Proof.
  intros Hne Hps HP. unfold select. rewrite Forall_forall in HP.
  destruct (elitism c).
  - constructor; [apply HP; apply nth_In; apply Hps|].
    apply Forall_forall. intros x Hx. apply in_map_iff in Hx. destruct Hx as (j & <- & _).
    apply P_clone. apply HP. apply nth_In. apply Hps.
  - apply Forall_forall. intros x Hx. apply in_map_iff in Hx. destruct Hx as (j & <- & _).
    apply P_clone. apply HP. apply nth_In. apply Hps.
Qed.

Lemma select_length pop ps : 1 <= tour_pop c -> length (select c pop ps) = tour_pop c.
Proof.
  intros H. unfold select. destruct (elitism c); cbn [length]; rewrite map_length, seq_length; lia.
Qed.

Lemma gen_pop_cases st inp :
  let p2 := eval_pop (fst (fst (train_pop c (g_hps inp) (pop st) (memo st)))) (g_fit inp) in
  pop (fst (gen c st inp)) = p2 \/ pop (fst (gen c st inp)) = select c p2 (g_parents inp).
Proof.
  unfold gen. destruct (train_pop c (g_hps inp) (pop st) (memo st)) as [[p1 m1] rs]. cbn [fst].
  destruct (early_stop c (eval_pop p1 (g_fit inp))); cbn [fst pop]; [left; reflexivity|].
  destruct (evolves c st (eval_pop p1 (g_fit inp))); [right|left]; reflexivity.
Qed.

Lemma gen_inv g st inp :
  pop st <> [] -> hps_ok (g_hps inp) -> parents_ok (length (pop st)) (g_parents inp) ->
  Forall (P g) (pop st) -> Forall (P (S g)) (pop (fst (gen c st inp))).
Proof.
  intros Hne Hok Hps HP.
  pose proof (train_eval_inv g (pop st) (g_hps inp) (memo st) (g_fit inp) Hok HP) as H2.
  destruct (gen_pop_cases st inp) as [E|E]; rewrite E; [exact H2|].
  apply select_inv; [| |exact H2].
  - intros Z. apply (f_equal (@length agent)) in Z. rewrite eval_pop_length, train_pop_length in Z.
    destruct (pop st); [congruence|discriminate].
  - rewrite eval_pop_length, train_pop_length. exact Hps.
Qed.

Lemma gen_length st inp :
  length (pop st) = tour_pop c -> 1 <= tour_pop c -> length (pop (fst (gen c st inp))) = tour_pop c.
Proof.
  intros HL H1. destruct (gen_pop_cases st inp) as [E|E]; rewrite E.
  - rewrite eval_pop_length, train_pop_length. exact HL.
  - apply select_length. exact H1.
Qed.

(* input streams *)
Definition stream_ok (n : nat) (inp : nat -> ginput) : Prop :=
  forall g, hps_ok (g_hps (inp g)) /\ parents_ok n (g_parents (inp g)).

Lemma gens_n_inv inp : forall n st g,
  stream_ok (tour_pop c) inp -> length (pop st) = tour_pop c -> 1 <= tour_pop c ->
  Forall (P g) (pop st) ->
  Forall (P (g + n)) (pop (gens_n n c st inp g)) /\ length (pop (gens_n n c st inp g)) = tour_pop c.
Proof.
  induction n as [|n IH]; intros st g Hs HL H1 HP; cbn [gens_n].
  - rewrite Nat.add_0_r. split; assumption.
  - replace (g + S n) with (S g + n) by lia. apply IH; auto.
    + apply gen_length; assumption.
    + destruct (Hs g) as [A B]. apply gen_inv; auto.
      * destruct (pop st); [cbn in HL; lia|discriminate].
      * rewrite HL. exact B.
Qed.

(* the loop: what [run] returns is the state after exactly G - g generations, the first one at which the guard
   fails (or the early stop is taken); the guard held at the start of every generation that ran *)
Lemma run_is_gens_n inp : forall fuel st g st' G,
  run fuel c st inp g = Some (st', G) ->
  exists n, G = g + n /\ st' = gens_n n c st inp g /\
            (forall k, k < n -> guard c (pop (gens_n k c st inp g)) = true) /\
            (guard c (pop st') = false \/
             (0 < n /\ o_stop (snd (gen c (gens_n (n - 1) c st inp g) (inp (G - 1)))) = true)).
Proof.
  induction fuel as [|f IH]; intros st g st' G; cbn [run]; destruct (guard c (pop st)) eqn:Eg.
  - discriminate.
  - intros [= <- <-]. exists 0. cbn [gens_n]. repeat split; try lia. left. exact Eg.
  - destruct (gen c st (inp g)) as [st1 o] eqn:Egen. destruct (o_stop o) eqn:Es.
    + intros [= <- <-]. exists 1. cbn [gens_n]. rewrite Egen. cbn [fst].
      repeat split; try lia.
      * intros k Hk. assert (k = 0) by lia. subst. exact Eg.
      * right. split; [lia|]. change (1 - 1) with 0. cbn [gens_n]. replace (S g - 1) with g by lia. rewrite Egen. exact Es.
    + intros Hr. destruct (IH _ _ _ _ Hr) as (n & -> & -> & Hk & Hend).
      exists (S n). cbn [gens_n]. rewrite Egen. cbn [fst]. repeat split; try lia.
      * intros k Hk'. destruct k as [|k]; [exact Eg|]. cbn [gens_n]. rewrite Egen. apply Hk. lia.
      * destruct Hend as [Hend|[Hn Hend]]; [left; exact Hend|].
        right. split; [lia|]. replace (S n - 1) with (S (n - 1)) by lia. cbn [gens_n]. rewrite Egen. cbn [fst].
        replace (g + S n - 1) with (S g + n - 1) by lia. exact Hend.
  - intros [= <- <-]. exists 0. cbn [gens_n]. repeat split; try lia. left. exact Eg.
Qed.

Lemma run_inv inp fuel st g st' G :
  stream_ok (tour_pop c) inp -> length (pop st) = tour_pop c -> 1 <= tour_pop c ->
  Forall (P g) (pop st) ->
  run fuel c st inp g = Some (st', G) ->
  Forall (P G) (pop st') /\ length (pop st') = tour_pop c /\ g <= G.
Proof.
  intros Hs HL H1 HP Hr. destruct (run_is_gens_n inp _ _ _ _ _ Hr) as (n & -> & -> & _).
  destruct (gens_n_inv inp n st g Hs HL H1 HP) as [A B]. repeat split; auto. lia.
Qed.
End Invariant.

(* ------------------------------------------------------------------ the property clauses *)

Definition any_hp (h : hp) : Prop := True.

Lemma stream_ok_any n inp : (forall g, parents_ok n (g_parents (inp g))) -> stream_ok any_hp n inp.
Proof. intros H g. split; [intros h _; exact I|apply H]. Qed.

(* every agent's step counter equals the environment steps its lineage actually took *)
Lemma steps_equal_env_steps_lemma c inp fuel pop0 st' G :
  lp c <> Offline -> 1 <= tour_pop c -> length pop0 = tour_pop c ->
  (forall g, parents_ok (tour_pop c) (g_parents (inp g))) ->
  Forall (fun a => cur a = taken a) pop0 ->
  run fuel c (init_state pop0) inp 0 = Some (st', G) ->
  Forall (fun a => cur a = taken a) (pop st').
Proof.
  intros Hl H1 HL Hps H0 Hr.
  refine (proj1 (run_inv c any_hp (fun _ a => cur a = taken a) _ _ inp fuel (init_state pop0) 0 st' G
                   (stream_ok_any _ _ Hps) HL H1 H0 Hr)).
  - intros g a h m f _ E. rewrite cur_evaluate, cur_bump. cbn [taken evaluate bump].
    destruct (rollout_counts_lemma c h m) as (_ & B & _). rewrite (B Hl), E. reflexivity.
  - intros g a i E. exact E.
Qed.

(* one fitness entry and one steps entry per individual and generation *)
Lemma one_fitness_per_generation_lemma c inp fuel pop0 st' G :
  1 <= tour_pop c -> length pop0 = tour_pop c ->
  (forall g, parents_ok (tour_pop c) (g_parents (inp g))) ->
  Forall (fun a => length (fit a) = 0 /\ length (stp a) = 1) pop0 ->
  run fuel c (init_state pop0) inp 0 = Some (st', G) ->
  Forall (fun a => length (fit a) = G /\ length (stp a) = S G) (pop st').
Proof.
  intros H1 HL Hps H0 Hr.
  refine (proj1 (run_inv c any_hp (fun g a => length (fit a) = g /\ length (stp a) = S g) _ _ inp fuel
                   (init_state pop0) 0 st' G (stream_ok_any _ _ Hps) HL H1 H0 Hr)).
  - intros g a h m f _ [A B]. cbn [fit stp evaluate bump length]. split; [lia|].
    destruct (stp a); cbn [length tl] in *; lia.
  - intros g a i E. exact E.
Qed.

(* population size and distinct indices *)
Lemma max_idx_ge : forall pop a, In a pop -> idx a <= max_idx pop.
Proof.
  unfold max_idx. induction pop as [|b pop IH]; intros a Ha; [destruct Ha|].
  destruct Ha as [E|I]; cbn [map fold_right].
  - subst. lia.
  - specialize (IH a I). lia.
Qed.

Lemma select_nodup c pop ps :
  NoDup (map idx pop) -> NoDup (map idx (select c pop ps)).
Proof.
  intros Hnd. unfold select.
  assert (Wnd : forall k, NoDup (map (fun j => max_idx pop + 1 + j) (seq 0 k))).
  { intros k. apply Injective_map_NoDup; [|apply seq_NoDup]. intros x y. lia. }
  destruct (elitism c); cbn [map]; rewrite map_map.
  - rewrite (map_ext _ (fun j => max_idx pop + 1 + j)) by (intros; reflexivity).
    constructor; [|apply Wnd].
    intros Hin. apply in_map_iff in Hin. destruct Hin as (j & E & _).
    assert (idx (nth (nth 0 ps 0) pop dflt) <= max_idx pop).
    { destruct (nth_in_or_default (nth 0 ps 0) pop dflt) as [H|H]; [apply max_idx_ge; exact H|rewrite H; cbn; lia]. }
    lia.
  - rewrite (map_ext _ (fun j => max_idx pop + 1 + j)) by (intros; reflexivity). apply Wnd.
Qed.

Lemma gen_nodup c st inp :
  pop st <> [] -> NoDup (map idx (pop st)) -> NoDup (map idx (pop (fst (gen c st inp)))).
Proof.
  intros Hne Hnd.
  assert (E2 : map idx (eval_pop (fst (fst (train_pop c (g_hps inp) (pop st) (memo st)))) (g_fit inp)) = map idx (pop st)).
  { rewrite eval_pop_idx, train_pop_idx. reflexivity. }
  destruct (gen_pop_cases c st inp) as [E|E]; rewrite E.
  - rewrite E2. exact Hnd.
  - apply select_nodup. rewrite E2. exact Hnd.
Qed.

Lemma gens_n_nodup c inp : forall n st g,
  length (pop st) = tour_pop c -> 1 <= tour_pop c -> NoDup (map idx (pop st)) ->
  NoDup (map idx (pop (gens_n n c st inp g))).
Proof.
  induction n as [|n IH]; intros st g HL H1 Hnd; cbn [gens_n]; [exact Hnd|].
  apply IH; auto.
  - apply gen_length; assumption.
  - apply gen_nodup; [|exact Hnd]. destruct (pop st); [cbn in HL; lia|discriminate].
Qed.

Lemma pop_size_and_indices_lemma c inp fuel pop0 st' G :
  1 <= tour_pop c -> length pop0 = tour_pop c -> NoDup (map idx pop0) ->
  run fuel c (init_state pop0) inp 0 = Some (st', G) ->
  length (pop st') = length pop0 /\ NoDup (map idx (pop st')).
Proof.
  intros H1 HL Hnd Hr.
  destruct (run_is_gens_n c inp _ _ _ _ _ Hr) as (n & -> & -> & _).
  split.
  - clear Hr Hnd. rewrite HL. generalize (init_state pop0) 0 (HL : length (pop (init_state pop0)) = tour_pop c).
    induction n as [|n IH]; intros st g HLs; cbn [gens_n]; [exact HLs|].
    apply IH. apply gen_length; assumption.
  - apply gens_n_nodup; assumption.
Qed.

(* the elite *)
Lemma best_pos_from_max (L : list Q) : forall l pre bi bv,
  L = pre ++ l -> nth bi L 0%Q = bv -> (forall y, In y pre -> (y <= bv)%Q) ->
  forall y, In y L -> (y <= nth (best_pos_from l (length pre) bi bv) L 0)%Q.
Proof.
  induction l as [|x l IH]; intros pre bi bv EL Eb Hpre y Hy; cbn [best_pos_from].
  - rewrite app_nil_r in EL. subst L. rewrite Eb. apply Hpre. exact Hy.
  - destruct (Qle_bool bv x) eqn:Ec.
    + apply Qle_bool_iff in Ec.
      replace (S (length pre)) with (length (pre ++ [x])) by (rewrite app_length; cbn; lia).
      apply IH.
      * rewrite <- app_assoc. exact EL.
      * subst L. rewrite app_nth2 by lia. rewrite Nat.sub_diag. reflexivity.
      * intros z Hz. apply in_app_or in Hz. destruct Hz as [Hz|[<-|[]]].
        -- eapply Qle_trans; [apply Hpre; exact Hz|exact Ec].
        -- apply Qle_refl.
      * exact Hy.
    + assert (x <= bv)%Q.
      { apply Qlt_le_weak. apply Qnot_le_lt. intros H. apply Qle_bool_iff in H. congruence. }
      replace (S (length pre)) with (length (pre ++ [x])) by (rewrite app_length; cbn; lia).
      apply IH.
      * rewrite <- app_assoc. exact EL.
      * exact Eb.
      * intros z Hz. apply in_app_or in Hz. destruct Hz as [Hz|[<-|[]]]; [apply Hpre; exact Hz|exact H].
      * exact Hy.
Qed.

Lemma best_pos_max l : forall y, In y l -> (y <= nth (best_pos l) l 0)%Q.
Proof.
  destruct l as [|x l]; intros y Hy; [destruct Hy|]. cbn [best_pos].
  apply (best_pos_from_max (x :: l) l [x] 0 x); auto.
  intros z [<-|[]]. apply Qle_refl.
Qed.

(* what is required of the individual kept as elite, in Prop *)
Lemma elite_okb_spec c pop e :
  elite_okb c pop e = true ->
  e < length pop /\ In (nth e pop dflt) pop /\
  forall a, In a pop -> (mean_last (eval_loop c) a <= mean_last (eval_loop c) (nth e pop dflt))%Q.
Proof.
  unfold elite_okb. intros H. apply andb_true_iff in H. destruct H as [A B].
  apply Nat.ltb_lt in A. split; [exact A|]. split; [apply nth_In; exact A|].
  intros a Ha. rewrite forallb_forall in B. apply Qle_bool_iff. apply B. exact Ha.
Qed.

(* the requirement is satisfiable: the last individual with maximal mean fitness (what a stable argsort picks) meets it *)
Lemma elite_pos_ok c pop : pop <> [] -> elite_okb c pop (elite_pos c pop) = true.
Proof.
  intros Hne. unfold elite_okb.
  assert (Hlt : elite_pos c pop < length pop).
  { unfold elite_pos. rewrite <- (map_length (mean_last (eval_loop c)) pop). apply best_pos_lt.
    destruct pop; [congruence|discriminate]. }
  apply andb_true_iff. split; [apply Nat.ltb_lt; exact Hlt|].
  apply forallb_forall. intros a Ha. apply Qle_bool_iff.
  pose proof (best_pos_max (map (mean_last (eval_loop c)) pop) (mean_last (eval_loop c) a) (in_map _ _ _ Ha)) as H.
  fold (elite_pos c pop) in H.
  rewrite (nth_indep _ 0%Q (mean_last (eval_loop c) dflt)) in H by (rewrite map_length; exact Hlt).
  rewrite map_nth in H. exact H.
Qed.

Lemma elite_carried_lemma c pop ps :
  elitism c = true -> elite_okb c pop (nth 0 ps 0) = true ->
  let e := nth (nth 0 ps 0) pop dflt in
  hd dflt (select c pop ps) = e /\ In e pop /\
  forall a, In a pop -> (mean_last (eval_loop c) a <= mean_last (eval_loop c) e)%Q.
Proof.
  intros He Hok e. destruct (elite_okb_spec c pop _ Hok) as (_ & B & C).
  split; [unfold select; rewrite He; reflexivity|]. split; assumption.
Qed.

Lemma gen_elite_lemma c st inp :
  elitism c = true -> o_evolved (snd (gen c st inp)) = true -> o_elite_ok (snd (gen c st inp)) = true ->
  let p2 := o_tested (snd (gen c st inp)) in
  let e := nth (nth 0 (g_parents inp) 0) p2 dflt in
  hd dflt (pop (fst (gen c st inp))) = e /\ In e p2 /\
  forall a, In a p2 -> (mean_last (eval_loop c) a <= mean_last (eval_loop c) e)%Q.
Proof.
  intros He. unfold gen.
  destruct (train_pop c (g_hps inp) (pop st) (memo st)) as [[p1 m1] rs].
  destruct (early_stop c (eval_pop p1 (g_fit inp))); cbn [snd fst o_evolved o_elite_ok o_tested pop]; [discriminate|].
  destruct (evolves c st (eval_pop p1 (g_fit inp))); [|discriminate].
  rewrite He. cbn [andb]. intros _ Hok.
  exact (elite_carried_lemma c (eval_pop p1 (g_fit inp)) (g_parents inp) He Hok).
Qed.

(* ------------------------------------------------------------------ termination *)

Lemma gen_no_stop c st inp : target c = None -> o_stop (snd (gen c st inp)) = false.
Proof.
  intros Ht. unfold gen. destruct (train_pop c (g_hps inp) (pop st) (memo st)) as [[p1 m1] rs].
  unfold early_stop. rewrite Ht. reflexivity.
Qed.

Lemma guard_uniform c pop v :
  lp c <> MAOn -> pop <> [] -> Forall (fun a => cur a = v) pop -> guard c pop = (v <? max_steps c).
Proof.
  intros Hl Hne HF. unfold guard.
  assert (E : forallb (fun a => cur a <? max_steps c) pop = (v <? max_steps c)).
  { induction pop as [|a pop IH]; [congruence|]. inversion HF; subst. cbn [forallb].
    destruct pop as [|b pop]; [cbn; apply andb_true_r|].
    rewrite IH; [apply andb_diag|discriminate|assumption]. }
  destruct (lp c); try exact E. congruence.
Qed.

Definition hp_steps (c : cfg) (S0 : nat) (h : hp) : Prop := steps_per_gen c h = S0.

Lemma uniform_step c S0 : forall g a h m f, hp_steps c S0 h -> cur a = g * S0 ->
  cur (evaluate (bump a (snd (rollout c h m))) f) = S g * S0.
Proof.
  intros g a h m f Hh E. rewrite cur_evaluate, cur_bump.
  destruct (rollout_counts_lemma c h m) as (A & _). rewrite A, Hh, E. lia.
Qed.

Lemma run_uniform c S0 inp :
  lp c <> MAOn -> target c = None -> 0 < S0 -> 1 <= tour_pop c -> stream_ok (hp_steps c S0) (tour_pop c) inp ->
  forall fuel st g,
  length (pop st) = tour_pop c -> Forall (fun a => cur a = g * S0) (pop st) ->
  max_steps c <= fuel + g * S0 -> (g = 0 \/ (g - 1) * S0 < max_steps c) ->
  exists st' G, run fuel c st inp g = Some (st', G) /\
                Forall (fun a => cur a = G * S0) (pop st') /\
                max_steps c <= G * S0 /\ (G = 0 \/ (G - 1) * S0 < max_steps c) /\ g <= G.
Proof.
  intros Hl Ht HS H1 Hs. induction fuel as [|f IH]; intros st g HL HF Hfuel Hprev; cbn [run];
    (rewrite (guard_uniform c (pop st) (g * S0) Hl);
     [|destruct (pop st); [cbn in HL; lia|discriminate]|exact HF]);
    destruct (Nat.ltb_spec (g * S0) (max_steps c)) as [Hlt|Hge]; try lia.
  - exists st, g. repeat split; auto.
  - destruct (gen c st (inp g)) as [st1 o] eqn:Eg.
    pose proof (gen_no_stop c st (inp g) Ht) as Hno. rewrite Eg in Hno. cbn [snd] in Hno. rewrite Hno.
    destruct (Hs g) as [Hok Hps].
    assert (HF1 : Forall (fun a => cur a = S g * S0) (pop st1)).
    { pose proof (gen_inv c (hp_steps c S0) (fun g a => cur a = g * S0) (uniform_step c S0)
                    (fun g a i E => E) g st (inp g)) as X.
      rewrite Eg in X. cbn [fst] in X. apply X; auto.
      - destruct (pop st); [cbn in HL; lia|discriminate].
      - rewrite HL. exact Hps. }
    assert (HL1 : length (pop st1) = tour_pop c).
    { pose proof (gen_length c st (inp g) HL H1) as X. rewrite Eg in X. exact X. }
    destruct (IH st1 (S g) HL1 HF1) as (st' & G & R & A & B & C & D).
    + lia.
    + right. replace (S g - 1) with g by lia. exact Hlt.
    + exists st', G. repeat split; auto. lia.
  - exists st, g. repeat split; auto.
Qed.

Lemma terminates_at_lemma c S0 inp pop0 :
  lp c <> MAOn -> target c = None -> 0 < S0 -> 1 <= tour_pop c -> length pop0 = tour_pop c ->
  Forall (fun a => cur a = 0) pop0 ->
  stream_ok (hp_steps c S0) (tour_pop c) inp ->
  exists st' G, run (max_steps c + 1) c (init_state pop0) inp 0 = Some (st', G) /\
                Forall (fun a => cur a = G * S0) (pop st') /\
                max_steps c <= G * S0 /\ (G = 0 \/ (G - 1) * S0 < max_steps c).
Proof.
  intros Hl Ht HS H1 HL H0 Hs.
  destruct (run_uniform c S0 inp Hl Ht HS H1 Hs (max_steps c + 1) (init_state pop0) 0) as (st' & G & R & A & B & C & _);
    auto; try lia.
  exists st', G. auto.
Qed.

(* any loop, heterogeneous hyper-parameters: as long as every individual makes progress the loop ends *)
Lemma guard_true_lt c pop : pop <> [] -> guard c pop = true -> cur (hd dflt pop) < max_steps c.
Proof.
  intros Hne. unfold guard. destruct pop as [|a pop]; [congruence|]. cbn [hd].
  assert (X : forallb (fun a0 => cur a0 <? max_steps c) (a :: pop) = true -> cur a < max_steps c).
  { cbn [forallb]. intros H. apply andb_true_iff in H. destruct H as [H _]. apply Nat.ltb_lt. exact H. }
  destruct (lp c); try exact X.
  cbn [map fold_right]. intros H. apply Nat.ltb_lt in H. lia.
Qed.

Definition hp_progress (c : cfg) (h : hp) : Prop := 1 <= steps_per_gen c h.

Lemma progress_step c : forall g a h m f, hp_progress c h -> g <= cur a ->
  S g <= cur (evaluate (bump a (snd (rollout c h m))) f).
Proof.
  intros g a h m f Hh E. rewrite cur_evaluate, cur_bump.
  destruct (rollout_counts_lemma c h m) as (A & _). rewrite A. unfold hp_progress in Hh. lia.
Qed.

Lemma run_terminates c inp :
  1 <= tour_pop c -> stream_ok (hp_progress c) (tour_pop c) inp ->
  forall fuel st g,
  length (pop st) = tour_pop c -> Forall (fun a => g <= cur a) (pop st) -> max_steps c <= fuel + g ->
  exists st' G, run fuel c st inp g = Some (st', G).
Proof.
  intros H1 Hs. induction fuel as [|f IH]; intros st g HL HF Hfuel; cbn [run];
    destruct (guard c (pop st)) eqn:Eg; try (eexists _, _; reflexivity).
  - exfalso. assert (Hne : pop st <> []) by (destruct (pop st); [cbn in HL; lia|discriminate]).
    pose proof (guard_true_lt c (pop st) Hne Eg).
    destruct (pop st) as [|a p]; [congruence|]. inversion HF; subst. cbn [hd] in *. lia.
  - assert (Hne : pop st <> []) by (destruct (pop st); [cbn in HL; lia|discriminate]).
    destruct (gen c st (inp g)) as [st1 o] eqn:Egen.
    destruct (o_stop o); [eexists _, _; reflexivity|].
    destruct (Hs g) as [Hok Hps].
    apply IH.
    + pose proof (gen_length c st (inp g) HL H1) as X. rewrite Egen in X. exact X.
    + pose proof (gen_inv c (hp_progress c) (fun g a => g <= cur a) (progress_step c) (fun g a i E => E) g st (inp g)) as X.
      rewrite Egen in X. cbn [fst] in X. apply X; auto. rewrite HL. exact Hps.
    + pose proof (guard_true_lt c (pop st) Hne Eg).
      destruct (pop st) as [|a p]; [congruence|]. inversion HF; subst. cbn [hd] in *. lia.
Qed.

(* S = 0 (evo_steps < num_envs in the off-policy loops): no progress, the loop never ends *)
Lemma guard_zero c pop : 0 < max_steps c -> Forall (fun a => cur a = 0) pop -> guard c pop = true.
Proof.
  intros Hm HF. unfold guard.
  assert (A : forallb (fun a => cur a <? max_steps c) pop = true).
  { apply forallb_forall. intros a Ha. rewrite Forall_forall in HF. rewrite (HF a Ha). apply Nat.ltb_lt. exact Hm. }
  assert (B : fold_right Nat.add 0 (map cur pop) = 0).
  { clear A. induction pop as [|a p IH]; cbn [map fold_right]; [reflexivity|].
    inversion HF; subst. rewrite IH by assumption. lia. }
  destruct (lp c); try exact A. rewrite B. apply Nat.ltb_lt. exact Hm.
Qed.

Lemma zero_step c : forall (g : nat) a h m f, hp_steps c 0 h -> cur a = 0 ->
  cur (evaluate (bump a (snd (rollout c h m))) f) = 0.
Proof.
  intros g a h m f Hh E. rewrite cur_evaluate, cur_bump.
  destruct (rollout_counts_lemma c h m) as (A & _). rewrite A. unfold hp_steps in Hh. lia.
Qed.

Lemma no_progress_never_terminates_lemma c inp :
  target c = None -> 0 < max_steps c -> 1 <= tour_pop c -> stream_ok (hp_steps c 0) (tour_pop c) inp ->
  forall fuel st g, length (pop st) = tour_pop c -> Forall (fun a => cur a = 0) (pop st) ->
  run fuel c st inp g = None.
Proof.
  intros Ht Hm H1 Hs. induction fuel as [|f IH]; intros st g HL HF; cbn [run]; rewrite (guard_zero c _ Hm HF); [reflexivity|].
  destruct (gen c st (inp g)) as [st1 o] eqn:Eg.
  pose proof (gen_no_stop c st (inp g) Ht) as Hno. rewrite Eg in Hno. cbn [snd] in Hno. rewrite Hno.
  destruct (Hs g) as [Hok Hps].
  apply IH.
  - pose proof (gen_length c st (inp g) HL H1) as X. rewrite Eg in X. exact X.
  - pose proof (gen_inv c (hp_steps c 0) (fun _ a => cur a = 0) (zero_step c) (fun g a i E => E) g st (inp g)) as X.
    rewrite Eg in X. cbn [fst] in X. apply X; auto.
    + destruct (pop st); [cbn in HL; lia|discriminate].
    + rewrite HL. exact Hps.
Qed.

(* ------------------------------------------------------------------ learn-call schedule *)

Lemma cdiv_succ i k : 1 <= k -> cdiv (S i) k = cdiv i k + (if i mod k =? 0 then 1 else 0).
Proof.
  intros Hk. unfold cdiv.
  pose proof (Nat.div_mod i k ltac:(lia)) as E.
  pose proof (Nat.mod_upper_bound i k ltac:(lia)) as B.
  set (q := i / k) in *. set (r := i mod k) in *.
  destruct (Nat.eqb_spec r 0) as [Z|NZ].
  - rewrite <- (Nat.div_unique (S i + k - 1) k (q + 1) 0); [|lia|nia].
    rewrite <- (Nat.div_unique (i + k - 1) k q (k - 1)); [lia|lia|nia].
  - rewrite <- (Nat.div_unique (S i + k - 1) k (q + 1) r); [|lia|nia].
    rewrite <- (Nat.div_unique (i + k - 1) k (q + 1) (r - 1)); [lia|lia|nia].
Qed.

Lemma ready_mono c h k m : ready c h m = true -> ready c h (mem_add c k m) = true.
Proof.
  unfold ready, mem_add, mem_len. intros H. apply andb_true_iff in H. destruct H as [A B].
  apply Nat.leb_le in A. apply Nat.ltb_lt in B.
  destruct ((nstep c =? 0) || (nstep c <=? S (calls m))); cbn [added]; apply andb_true_iff; split;
    try (apply Nat.leb_le; lia); apply Nat.ltb_lt; destruct (is_ma c); lia.
Qed.

(* learn() calls of n consecutive iterations starting at iteration i, once the memory is ready *)
Fixpoint sched (c : cfg) (h : hp) (i n : nat) : nat :=
  match n with
  | 0 => 0
  | S n' => (if num_envs c <? ls h then (if i mod (ls h / num_envs c) =? 0 then 1 else 0) else num_envs c / ls h)
            + sched c h (S i) n'
  end.

Lemma rollout_off_learn c h : forall n i m r,
  ready c h (mem_add c (num_envs c) m) = true ->
  r_learn (snd (rollout_off c h i n m r)) = r_learn r + sched c h i n.
Proof.
  induction n as [|n IH]; intros i m r Hr; cbn [rollout_off sched snd]; [lia|].
  rewrite IH by (apply ready_mono; exact Hr). cbn [r_learn].
  unfold learns_at. rewrite Hr. rewrite andb_true_r. lia.
Qed.

Lemma sched_many c h : (num_envs c <? ls h) = false -> forall n i, sched c h i n = n * (num_envs c / ls h).
Proof.
  intros E. induction n as [|n IH]; intros i; cbn [sched]; [reflexivity|]. rewrite E, IH. lia.
Qed.

Lemma cdiv_mono k : 1 <= k -> forall n i, cdiv i k <= cdiv (i + n) k.
Proof.
  intros Hk. induction n as [|n IH]; intros i.
  - rewrite Nat.add_0_r. lia.
  - replace (i + S n) with (S (i + n)) by lia. rewrite cdiv_succ by exact Hk. specialize (IH i). lia.
Qed.

Lemma sched_every c h : (num_envs c <? ls h) = true -> 1 <= num_envs c ->
  forall n i, sched c h i n = cdiv (i + n) (ls h / num_envs c) - cdiv i (ls h / num_envs c).
Proof.
  intros E H1. apply Nat.ltb_lt in E.
  assert (Hk : 1 <= ls h / num_envs c).
  { apply Nat.div_le_lower_bound; lia. }
  induction n as [|n IH]; intros i; cbn [sched].
  - rewrite Nat.add_0_r. lia.
  - destruct (num_envs c <? ls h) eqn:E'; [|apply Nat.ltb_ge in E'; lia].
    rewrite IH. replace (S i + n) with (i + S n) by lia.
    pose proof (cdiv_succ i _ Hk). pose proof (cdiv_mono _ Hk n (S i)).
    replace (S i + n) with (i + S n) in * by lia. lia.
Qed.

(* closed form of the learn-call schedule of one off-policy training phase whose memory is ready from the first
   stored transition on (filled buffer, learning_delay passed) *)
Lemma learn_schedule_lemma c h m :
  (lp c = Off \/ lp c = MAOff) -> 1 <= num_envs c ->
  ready c h (mem_add c (num_envs c) (turn_start m)) = true ->
  r_learn (snd (rollout c h m)) =
    if num_envs c <? ls h then cdiv (evo_steps c / num_envs c) (ls h / num_envs c)
    else (evo_steps c / num_envs c) * (num_envs c / ls h).
Proof.
  intros Hl H1 Hr.
  assert (E : r_learn (snd (rollout c h m)) = sched c h 0 (evo_steps c / num_envs c)).
  { unfold rollout. destruct Hl as [-> | ->]; rewrite rollout_off_learn by exact Hr; reflexivity. }
  rewrite E. destruct (num_envs c <? ls h) eqn:B.
  - rewrite sched_every by assumption.
    assert (Hk : 1 <= ls h / num_envs c).
    { apply Nat.ltb_lt in B. apply Nat.div_le_lower_bound; lia. }
    assert (Z : cdiv 0 (ls h / num_envs c) = 0).
    { unfold cdiv. apply Nat.div_small. lia. }
    rewrite Z. cbn [Nat.add]. lia.
  - apply sched_many. exact B.
Qed.

(* before the memory holds batch_size transitions (or learning_delay has not passed) nothing is learned *)
Lemma not_ready_no_learn c h i m : ready c h m = false -> learns_at c h i m = 0.
Proof. intros H. unfold learns_at. rewrite H. rewrite andb_false_r. destruct (num_envs c <? ls h); reflexivity. Qed.

Lemma mem_len_mono c k m : mem_len c m <= mem_len c (mem_add c k m).
Proof.
  unfold mem_len, mem_add. cbv zeta.
  destruct ((nstep c =? 0) || (nstep c <=? S (calls m))); cbn [added]; lia.
Qed.

(* bandits: batch_size transitions stored -> learn_step learn calls per step *)
Lemma bandit_schedule_lemma c h : forall n m r,
  bs h <= mem_len c (mem_add c 1 m) ->
  r_learn (snd (rollout_bandit c h n m r)) = r_learn r + n * ls h.
Proof.
  induction n as [|n IH]; intros m r H; cbn [rollout_bandit snd]; [lia|].
  rewrite IH.
  - cbn [r_learn Nat.mul]. rewrite (proj2 (Nat.leb_le _ _) H). lia.
  - pose proof (mem_len_mono c 1 (mem_add c 1 m)). lia.
Qed.

(* ------------------------------------------------------------------ summed budget (multi-agent on-policy loop) *)

Lemma guard_uniform_sum c pop v :
  lp c = MAOn -> Forall (fun a => cur a = v) pop -> guard c pop = (length pop * v <? max_steps c).
Proof.
  intros Hl HF. unfold guard. rewrite Hl.
  assert (E : fold_right Nat.add 0 (map cur pop) = length pop * v).
  { induction pop as [|a p IH]; cbn [map fold_right length]; [reflexivity|].
    inversion HF; subst. rewrite IH by assumption. lia. }
  rewrite E. reflexivity.
Qed.

Lemma run_uniform_sum c S0 inp :
  lp c = MAOn -> target c = None -> 0 < S0 -> 1 <= tour_pop c -> stream_ok (hp_steps c S0) (tour_pop c) inp ->
  forall fuel st g,
  length (pop st) = tour_pop c -> Forall (fun a => cur a = g * S0) (pop st) ->
  max_steps c <= fuel + tour_pop c * (g * S0) -> (g = 0 \/ tour_pop c * ((g - 1) * S0) < max_steps c) ->
  exists st' G, run fuel c st inp g = Some (st', G) /\
                Forall (fun a => cur a = G * S0) (pop st') /\
                max_steps c <= tour_pop c * (G * S0) /\ (G = 0 \/ tour_pop c * ((G - 1) * S0) < max_steps c) /\ g <= G.
Proof.
  intros Hl Ht HS H1 Hs. induction fuel as [|f IH]; intros st g HL HF Hfuel Hprev; cbn [run];
    rewrite (guard_uniform_sum c (pop st) (g * S0) Hl HF), HL;
    destruct (Nat.ltb_spec (tour_pop c * (g * S0)) (max_steps c)) as [Hlt|Hge]; try lia.
  - exists st, g. repeat split; auto.
  - destruct (gen c st (inp g)) as [st1 o] eqn:Eg.
    pose proof (gen_no_stop c st (inp g) Ht) as Hno. rewrite Eg in Hno. cbn [snd] in Hno. rewrite Hno.
    destruct (Hs g) as [Hok Hps].
    assert (HF1 : Forall (fun a => cur a = S g * S0) (pop st1)).
    { pose proof (gen_inv c (hp_steps c S0) (fun g a => cur a = g * S0) (uniform_step c S0)
                    (fun g a i E => E) g st (inp g)) as X.
      rewrite Eg in X. cbn [fst] in X. apply X; auto.
      - destruct (pop st); [cbn in HL; lia|discriminate].
      - rewrite HL. exact Hps. }
    assert (HL1 : length (pop st1) = tour_pop c).
    { pose proof (gen_length c st (inp g) HL H1) as X. rewrite Eg in X. exact X. }
    destruct (IH st1 (S g) HL1 HF1) as (st' & G & R & A & B & C & D).
    + nia.
    + right. replace (S g - 1) with g by lia. exact Hlt.
    + exists st', G. repeat split; auto. lia.
  - exists st, g. repeat split; auto.
Qed.

Lemma terminates_at_sum_lemma c S0 inp pop0 :
  lp c = MAOn -> target c = None -> 0 < S0 -> 1 <= tour_pop c -> length pop0 = tour_pop c ->
  Forall (fun a => cur a = 0) pop0 ->
  stream_ok (hp_steps c S0) (tour_pop c) inp ->
  exists st' G, run (max_steps c + 1) c (init_state pop0) inp 0 = Some (st', G) /\
                Forall (fun a => cur a = G * S0) (pop st') /\
                max_steps c <= tour_pop c * (G * S0) /\ (G = 0 \/ tour_pop c * ((G - 1) * S0) < max_steps c).
Proof.
  intros Hl Ht HS H1 HL H0 Hs.
  destruct (run_uniform_sum c S0 inp Hl Ht HS H1 Hs (max_steps c + 1) (init_state pop0) 0) as (st' & G & R & A & B & C & _);
    auto; try lia.
  exists st', G. auto.
Qed.

(* ------------------------------------------------------------------ early stop *)
Lemma early_stop_sound_lemma c st inp :
  o_stop (snd (gen c st inp)) = true ->
  let p2 := o_tested (snd (gen c st inp)) in
  pop (fst (gen c st inp)) = p2 /\
  exists t, target c = Some t /\
            (forall a, In a p2 -> (t < mean_last 10 a)%Q) /\
            100 <= length (stp (hd dflt p2)).
Proof.
  unfold gen. destruct (train_pop c (g_hps inp) (pop st) (memo st)) as [[p1 m1] rs].
  destruct (early_stop c (eval_pop p1 (g_fit inp))) eqn:E; cbn [snd fst o_stop o_tested pop]; [|discriminate].
  intros _. split; [reflexivity|].
  unfold early_stop in E. destruct (target c) as [t|]; [|discriminate].
  exists t. split; [reflexivity|].
  apply andb_true_iff in E. destruct E as [A B]. split.
  - intros a Ha. rewrite forallb_forall in A. specialize (A a Ha).
    apply negb_true_iff in A. apply Qnot_le_lt. intros H. apply Qle_bool_iff in H. congruence.
  - apply Nat.leb_le. exact B.
Qed.

(* ------------------------------------------------------------------ checkpoint trigger *)

Lemma gen_ck c st inp :
  target c = None ->
  ck_count (fst (gen c st inp)) =
    if negb (checkpoint c =? 0) && (ck_count st <? cur (hd dflt (pop (fst (gen c st inp)))) / checkpoint c)
    then S (ck_count st) else ck_count st.
Proof.
  intros Ht. unfold gen. destruct (train_pop c (g_hps inp) (pop st) (memo st)) as [[p1 m1] rs].
  unfold early_stop. rewrite Ht. cbn [fst pop ck_count].
  destruct (negb (checkpoint c =? 0) && _); reflexivity.
Qed.

Lemma ck_arith g S0 k :
  0 < k ->
  (if Nat.min g (g * S0 / k) <? (S g * S0) / k then S (Nat.min g (g * S0 / k)) else Nat.min g (g * S0 / k))
  = Nat.min (S g) (S g * S0 / k).
Proof.
  intros Hk.
  assert (Hmono : g * S0 / k <= S g * S0 / k) by (apply Nat.div_le_mono; lia).
  destruct (le_lt_dec k S0) as [Hge|Hlt].
  - (* at least one multiple is crossed in every generation: one checkpoint per generation *)
    assert (A : g <= g * S0 / k) by (apply Nat.div_le_lower_bound; nia).
    assert (B : S g <= S g * S0 / k) by (apply Nat.div_le_lower_bound; nia).
    rewrite (Nat.min_l g) by exact A. rewrite (Nat.min_l (S g)) by exact B.
    destruct (Nat.ltb_spec g (S g * S0 / k)); lia.
  - assert (C : S g * S0 / k <= g * S0 / k + 1).
    { replace (g * S0 / k + 1) with ((g * S0 + 1 * k) / k) by (rewrite Nat.div_add by lia; reflexivity).
      apply Nat.div_le_mono; lia. }
    assert (D : g * S0 / k <= g).
    { destruct g as [|g']; [cbn; rewrite Nat.div_0_l by lia; lia|].
      apply Nat.lt_le_incl. apply Nat.div_lt_upper_bound; nia. }
    assert (E : S g * S0 / k <= S g).
    { apply Nat.lt_le_incl. apply Nat.div_lt_upper_bound; nia. }
    rewrite (Nat.min_r g) by exact D. rewrite (Nat.min_r (S g)) by exact E.
    destruct (Nat.ltb_spec (g * S0 / k) (S g * S0 / k)); lia.
Qed.

Lemma gens_n_ck c S0 inp :
  target c = None -> 0 < checkpoint c -> 1 <= tour_pop c -> stream_ok (hp_steps c S0) (tour_pop c) inp ->
  forall n st g,
  length (pop st) = tour_pop c -> Forall (fun a => cur a = g * S0) (pop st) ->
  ck_count st = Nat.min g (g * S0 / checkpoint c) ->
  ck_count (gens_n n c st inp g) = Nat.min (g + n) ((g + n) * S0 / checkpoint c).
Proof.
  intros Ht Hk H1 Hs. induction n as [|n IH]; intros st g HL HF Hc; cbn [gens_n].
  - rewrite Nat.add_0_r. exact Hc.
  - replace (g + S n) with (S g + n) by lia.
    destruct (Hs g) as [Hok Hps].
    assert (HF1 : Forall (fun a => cur a = S g * S0) (pop (fst (gen c st (inp g))))).
    { apply (gen_inv c (hp_steps c S0) (fun g a => cur a = g * S0) (uniform_step c S0) (fun g a i E => E)); auto.
      - destruct (pop st); [cbn in HL; lia|discriminate].
      - rewrite HL. exact Hps. }
    assert (HL1 : length (pop (fst (gen c st (inp g)))) = tour_pop c) by (apply gen_length; assumption).
    apply IH; auto.
    rewrite gen_ck by exact Ht.
    assert (Hhd : cur (hd dflt (pop (fst (gen c st (inp g))))) = S g * S0).
    { destruct (pop (fst (gen c st (inp g)))) as [|a p]; [cbn in HL1; lia|]. inversion HF1; subst. assumption. }
    rewrite Hhd, Hc.
    replace (negb (checkpoint c =? 0)) with true by (symmetry; apply negb_true_iff; apply Nat.eqb_neq; lia).
    cbn [andb]. apply ck_arith. exact Hk.
Qed.

(* uniform loops: after the G generations of [terminates_at] exactly min(G, G*S // checkpoint) checkpoints were written:
   one per crossed multiple of the frequency, at most one per generation *)
Lemma checkpoint_count_lemma c S0 inp pop0 fuel st' G :
  target c = None -> 0 < checkpoint c -> 1 <= tour_pop c -> length pop0 = tour_pop c ->
  Forall (fun a => cur a = 0) pop0 ->
  stream_ok (hp_steps c S0) (tour_pop c) inp ->
  run fuel c (init_state pop0) inp 0 = Some (st', G) ->
  ck_count st' = Nat.min G (G * S0 / checkpoint c).
Proof.
  intros Ht Hk H1 HL H0 Hs Hr.
  destruct (run_is_gens_n c inp _ _ _ _ _ Hr) as (n & -> & -> & _).
  apply (gens_n_ck c S0 inp Ht Hk H1 Hs n (init_state pop0) 0); auto.
Qed.

(* ------------------------------------------------------------------ learn-call schedule including the warm-up *)

(* number of leading iterations of a training phase after which the memory is still not ready
   (fewer than batch_size transitions, learning_delay not passed, n-step deque still filling) *)
Fixpoint warmup (c : cfg) (h : hp) (n : nat) (m : mem) : nat :=
  match n with
  | 0 => 0
  | S n' => let m' := mem_add c (num_envs c) m in
            if ready c h m' then 0 else S (warmup c h n' m')
  end.

Lemma warmup_le c h : forall n m, warmup c h n m <= n.
Proof. induction n as [|n IH]; intros m; cbn [warmup]; [lia|]. destruct (ready c h _); [lia|]. specialize (IH (mem_add c (num_envs c) m)). lia. Qed.

(* the memory after j stored (vectorised) transitions *)
Definition adds (c : cfg) (j : nat) (m : mem) : mem := iter j (mem_add c (num_envs c)) m.

Lemma warmup_spec_lemma c h : forall n m,
  (forall j, j < warmup c h n m -> ready c h (adds c (S j) m) = false) /\
  (warmup c h n m < n -> ready c h (adds c (S (warmup c h n m)) m) = true).
Proof.
  induction n as [|n IH]; intros m; cbn [warmup].
  - split; intros; lia.
  - destruct (ready c h (mem_add c (num_envs c) m)) eqn:E.
    + split; [intros; lia|]. intros _. exact E.
    + destruct (IH (mem_add c (num_envs c) m)) as [A B]. split.
      * intros j Hj. destruct j as [|j]; [exact E|]. unfold adds. cbn [iter]. apply A. lia.
      * intros Hlt. unfold adds. cbn [iter]. apply B. lia.
Qed.

Lemma rollout_off_learn_warmup c h : forall n i m r,
  r_learn (snd (rollout_off c h i n m r)) =
  r_learn r + sched c h (i + warmup c h n m) (n - warmup c h n m).
Proof.
  induction n as [|n IH]; intros i m r.
  - cbn. lia.
  - cbn [warmup]. destruct (ready c h (mem_add c (num_envs c) m)) eqn:E.
    + rewrite Nat.add_0_r, Nat.sub_0_r. apply rollout_off_learn. exact E.
    + cbn [rollout_off]. rewrite IH. cbn [r_learn]. rewrite (not_ready_no_learn c h i _ E).
      replace (S i + warmup c h n (mem_add c (num_envs c) m)) with (i + S (warmup c h n (mem_add c (num_envs c) m))) by lia.
      cbn [Nat.sub]. lia.
Qed.

(* closed form of the learn-call schedule of ANY off-policy training phase: nothing during the w warm-up iterations,
   then the steady schedule; iteration indices keep counting from the start of the phase *)
Lemma learn_schedule_warmup_lemma c h m :
  (lp c = Off \/ lp c = MAOff) -> 1 <= num_envs c ->
  let n := evo_steps c / num_envs c in
  let w := warmup c h n (turn_start m) in
  r_learn (snd (rollout c h m)) =
    if num_envs c <? ls h then cdiv n (ls h / num_envs c) - cdiv w (ls h / num_envs c)
    else (n - w) * (num_envs c / ls h).
Proof.
  intros Hl H1 n w.
  assert (E : r_learn (snd (rollout c h m)) = sched c h w (n - w)).
  { unfold rollout. destruct Hl as [-> | ->]; rewrite rollout_off_learn_warmup; reflexivity. }
  rewrite E. pose proof (warmup_le c h n (turn_start m)) as Hw. fold w in Hw.
  destruct (num_envs c <? ls h) eqn:B.
  - rewrite sched_every by assumption. replace (w + (n - w)) with n by lia. reflexivity.
  - apply sched_many. exact B.
Qed.

(* train_bandits: nothing is learned before batch_size contexts are stored *)
Fixpoint warmup_bandit (c : cfg) (h : hp) (n : nat) (m : mem) : nat :=
  match n with
  | 0 => 0
  | S n' => let m' := mem_add c 1 m in
            if bs h <=? mem_len c m' then 0 else S (warmup_bandit c h n' m')
  end.

Lemma bandit_schedule_warmup_lemma c h : forall n m r,
  r_learn (snd (rollout_bandit c h n m r)) = r_learn r + (n - warmup_bandit c h n m) * ls h.
Proof.
  induction n as [|n IH]; intros m r; [cbn; lia|].
  cbn [warmup_bandit]. destruct (Nat.leb_spec (bs h) (mem_len c (mem_add c 1 m))) as [E|E].
  - rewrite Nat.sub_0_r. apply bandit_schedule_lemma. exact E.
  - cbn [rollout_bandit]. rewrite IH. cbn [r_learn].
    destruct (Nat.leb_spec (bs h) (mem_len c (mem_add c 1 m))); [lia|].
    cbn [Nat.sub]. lia.
Qed.

(* without an n-step buffer in front, readiness after j stored transitions is a threshold on the number stored:
   max(batch_size, learning_delay + 1) transitions (and never, if the memory is smaller than that) *)
Lemma added_adds c : nstep c = 0 -> forall j m, added (adds c j m) = added m + j * num_envs c.
Proof.
  intros Hn. unfold adds. induction j as [|j IH]; intros m; cbn [iter]; [lia|].
  rewrite IH. unfold mem_add. rewrite Hn. cbn [Nat.eqb orb added]. lia.
Qed.

Lemma ready_threshold_lemma c h j m :
  nstep c = 0 ->
  ready c h (adds c j m) =
    if is_ma c
    then (bs h <=? Nat.min (mem_cap c) (added m + j * num_envs c)) && (delay c <? added m + j * num_envs c)
    else (Nat.max (bs h) (S (delay c)) <=? Nat.min (mem_cap c) (added m + j * num_envs c)).
Proof.
  intros Hn. unfold ready, mem_len. rewrite (added_adds c Hn). destruct (is_ma c); [reflexivity|].
  set (x := Nat.min (mem_cap c) (added m + j * num_envs c)).
  destruct (Nat.leb_spec (bs h) x), (Nat.ltb_spec (delay c) x), (Nat.leb_spec (Nat.max (bs h) (S (delay c))) x); cbn; try reflexivity; lia.
Qed.

(* ------------------------------------------------------------------ transitions stored per turn (n-step window refills every turn) *)

Lemma rollout_off_added c h : forall n i m r,
  added (fst (rollout_off c h i n m r)) = added m + (n - (nstep c - 1 - calls m)) * num_envs c.
Proof.
  induction n as [|n IH]; intros i m r; cbn [rollout_off fst].
  - cbn. lia.
  - rewrite IH. unfold mem_add.
    destruct (Nat.eqb_spec (nstep c) 0) as [Z|NZ]; cbn [orb].
    + cbn [added calls]. rewrite Z. cbn [Nat.sub]. rewrite !Nat.sub_0_r. lia.
    + destruct (Nat.leb_spec (nstep c) (S (calls m))) as [L|G]; cbn [added calls].
      * replace (nstep c - 1 - S (calls m)) with 0 by lia. replace (nstep c - 1 - calls m) with 0 by lia.
        rewrite !Nat.sub_0_r. lia.
      * replace (S n - (nstep c - 1 - calls m)) with (n - (nstep c - 1 - S (calls m))) by lia. lia.
Qed.

(* every off-policy turn stores (iterations - (n_step - 1)) x num_envs transitions: the n-step window is empty when the
   turn starts and the memories receive nothing while it refills (no n-step buffer: every iteration stores) *)
Lemma turn_stores_lemma c h m :
  (lp c = Off \/ lp c = MAOff) ->
  added (fst (rollout c h m)) = added m + (evo_steps c / num_envs c - (nstep c - 1)) * num_envs c.
Proof.
  intros Hl. unfold rollout. destruct Hl as [-> | ->]; rewrite rollout_off_added; cbn [turn_start added calls];
    rewrite Nat.sub_0_r; reflexivity.
Qed.

(* the n-step warm-up of a turn, made explicit: with an n-step window of length k >= 1 the memory holds exactly what it
   held at the start of the turn during the first k - 1 iterations *)
Lemma adds_turn_start_lemma c m j :
  j < nstep c -> added (adds c j (turn_start m)) = added m.
Proof.
  intros Hj. unfold adds.
  assert (G : forall j m0, calls m0 + j < nstep c -> added (iter j (mem_add c (num_envs c)) m0) = added m0).
  { clear. induction j as [|j IH]; intros m0 H; cbn [iter]; [reflexivity|].
    rewrite IH.
    - unfold mem_add. destruct (Nat.eqb_spec (nstep c) 0); [lia|]. cbn [orb].
      destruct (Nat.leb_spec (nstep c) (S (calls m0))); [lia|]. reflexivity.
    - unfold mem_add. destruct ((nstep c =? 0) || (nstep c <=? S (calls m0))); cbn [calls]; lia. }
  rewrite G; [reflexivity|]. cbn [turn_start calls]. lia.
Qed.

(* ------------------------------------------------------------------ resuming: arbitrary initial counters, histories and memory *)

(* budget already met when the function is called: zero generations, the state is returned as it is *)
Lemma budget_already_met_lemma c st inp fuel g :
  guard c (pop st) = false -> run fuel c st inp g = Some (st, g).
Proof. intros H. destruct fuel; cbn [run]; rewrite H; reflexivity. Qed.

Lemma steps_equal_env_steps_from_lemma c inp fuel st st' G :
  lp c <> Offline -> 1 <= tour_pop c -> length (pop st) = tour_pop c ->
  (forall g, parents_ok (tour_pop c) (g_parents (inp g))) ->
  Forall (fun a => cur a = taken a) (pop st) ->
  run fuel c st inp 0 = Some (st', G) ->
  Forall (fun a => cur a = taken a) (pop st').
Proof.
  intros Hl H1 HL Hps H0 Hr.
  refine (proj1 (run_inv c any_hp (fun _ a => cur a = taken a) _ _ inp fuel st 0 st' G
                   (stream_ok_any _ _ Hps) HL H1 H0 Hr)).
  - intros g a h m f _ E. rewrite cur_evaluate, cur_bump. cbn [taken evaluate bump].
    destruct (rollout_counts_lemma c h m) as (_ & B & _). rewrite (B Hl), E. reflexivity.
  - intros g a i E. exact E.
Qed.

Lemma one_fitness_per_generation_from_lemma c inp fuel st st' G f0 s0 :
  1 <= tour_pop c -> length (pop st) = tour_pop c ->
  (forall g, parents_ok (tour_pop c) (g_parents (inp g))) ->
  Forall (fun a => length (fit a) = f0 /\ length (stp a) = S s0) (pop st) ->
  run fuel c st inp 0 = Some (st', G) ->
  Forall (fun a => length (fit a) = f0 + G /\ length (stp a) = S (s0 + G)) (pop st').
Proof.
  intros H1 HL Hps H0 Hr.
  refine (proj1 (run_inv c any_hp (fun g a => length (fit a) = f0 + g /\ length (stp a) = S (s0 + g)) _ _ inp fuel
                   st 0 st' G (stream_ok_any _ _ Hps) HL H1 _ Hr)).
  - intros g a h m f _ [A B]. cbn [fit stp evaluate bump length]. split; [lia|].
    destruct (stp a); cbn [length tl] in *; lia.
  - intros g a i E. exact E.
  - eapply Forall_impl; [|exact H0]. intros a [A B]. rewrite !Nat.add_0_r. split; assumption.
Qed.

Lemma pop_size_and_indices_from_lemma c inp fuel st st' G :
  1 <= tour_pop c -> length (pop st) = tour_pop c -> NoDup (map idx (pop st)) ->
  run fuel c st inp 0 = Some (st', G) ->
  length (pop st') = length (pop st) /\ NoDup (map idx (pop st')).
Proof.
  intros H1 HL Hnd Hr.
  destruct (run_is_gens_n c inp _ _ _ _ _ Hr) as (n & -> & -> & _).
  split.
  - clear Hr Hnd. rewrite HL. revert HL. generalize st 0.
    induction n as [|n IH]; intros st0 g HLs; cbn [gens_n]; [exact HLs|].
    apply IH. apply gen_length; assumption.
  - apply gens_n_nodup; assumption.
Qed.

(* uniform loops from arbitrary equal counters s0 *)
Lemma uniform_step_from c S0 s0 : forall g a h m f, hp_steps c S0 h -> cur a = s0 + g * S0 ->
  cur (evaluate (bump a (snd (rollout c h m))) f) = s0 + S g * S0.
Proof.
  intros g a h m f Hh E. rewrite cur_evaluate, cur_bump.
  destruct (rollout_counts_lemma c h m) as (A & _). rewrite A, Hh, E. lia.
Qed.

Definition budget_used (c : cfg) (v : nat) : nat :=
  match lp c with MAOn => tour_pop c * v | _ => v end.

Lemma guard_budget_used c pop v :
  pop <> [] -> length pop = tour_pop c -> Forall (fun a => cur a = v) pop ->
  guard c pop = (budget_used c v <? max_steps c).
Proof.
  intros Hne HL HF. unfold budget_used. destruct (lp c) eqn:E;
    try (apply guard_uniform; [congruence|exact Hne|exact HF]).
  rewrite (guard_uniform_sum c pop v E HF), HL. reflexivity.
Qed.

Lemma budget_used_ge c S0 s0 g : 0 < S0 -> 1 <= tour_pop c -> g <= budget_used c (s0 + g * S0).
Proof.
  intros HS H1. assert (A : g <= g * S0) by nia. unfold budget_used.
  destruct (lp c); try lia.
  assert (B : s0 + g * S0 <= tour_pop c * (s0 + g * S0)) by nia. lia.
Qed.

Lemma budget_used_mono c a b : a <= b -> budget_used c a <= budget_used c b.
Proof. intros H. unfold budget_used. destruct (lp c); try exact H. nia. Qed.

Lemma run_uniform_from c S0 s0 inp :
  target c = None -> 0 < S0 -> 1 <= tour_pop c -> stream_ok (hp_steps c S0) (tour_pop c) inp ->
  forall fuel st g,
  length (pop st) = tour_pop c -> Forall (fun a => cur a = s0 + g * S0) (pop st) ->
  max_steps c <= fuel + g -> (g = 0 \/ budget_used c (s0 + (g - 1) * S0) < max_steps c) ->
  exists st' G, run fuel c st inp g = Some (st', G) /\
                Forall (fun a => cur a = s0 + G * S0) (pop st') /\
                max_steps c <= budget_used c (s0 + G * S0) /\
                (G = 0 \/ budget_used c (s0 + (G - 1) * S0) < max_steps c) /\ g <= G.
Proof.
  intros Ht HS H1 Hs. induction fuel as [|f IH]; intros st g HL HF Hfuel Hprev; cbn [run];
    (rewrite (guard_budget_used c (pop st) (s0 + g * S0));
     [|destruct (pop st); [cbn in HL; lia|discriminate]|exact HL|exact HF]);
    destruct (Nat.ltb_spec (budget_used c (s0 + g * S0)) (max_steps c)) as [Hlt|Hge].
  - exfalso. pose proof (budget_used_ge c S0 s0 g HS H1). lia.
  - exists st, g. repeat split; auto.
  - destruct (gen c st (inp g)) as [st1 o] eqn:Eg.
    pose proof (gen_no_stop c st (inp g) Ht) as Hno. rewrite Eg in Hno. cbn [snd] in Hno. rewrite Hno.
    destruct (Hs g) as [Hok Hps].
    assert (HF1 : Forall (fun a => cur a = s0 + S g * S0) (pop st1)).
    { pose proof (gen_inv c (hp_steps c S0) (fun g a => cur a = s0 + g * S0) (uniform_step_from c S0 s0)
                    (fun g a i E => E) g st (inp g)) as X.
      rewrite Eg in X. cbn [fst] in X. apply X; auto.
      - destruct (pop st); [cbn in HL; lia|discriminate].
      - rewrite HL. exact Hps. }
    assert (HL1 : length (pop st1) = tour_pop c).
    { pose proof (gen_length c st (inp g) HL H1) as X. rewrite Eg in X. exact X. }
    destruct (IH st1 (S g) HL1 HF1) as (st' & G & R & A & B & C & D).
    + pose proof (budget_used_ge c S0 s0 g HS H1). lia.
    + right. replace (S g - 1) with g by lia. exact Hlt.
    + exists st', G. repeat split; auto. lia.
  - exists st, g. repeat split; auto.
Qed.

(* every loop (per-agent budget, or summed over the tour_pop individuals for the multi-agent on-policy loop), called
   on a population whose counters all stand at s0 (0 for a fresh population; whatever a previous call left): it runs
   exactly the first G generations with budget_used (s0 + G*S) >= max_steps -- G = 0 when the budget is already met *)
Lemma terminates_at_from_lemma c S0 s0 inp st :
  target c = None -> 0 < S0 -> 1 <= tour_pop c -> length (pop st) = tour_pop c ->
  Forall (fun a => cur a = s0) (pop st) ->
  stream_ok (hp_steps c S0) (tour_pop c) inp ->
  exists st' G, run (max_steps c + 1) c st inp 0 = Some (st', G) /\
                Forall (fun a => cur a = s0 + G * S0) (pop st') /\
                max_steps c <= budget_used c (s0 + G * S0) /\
                (G = 0 \/ budget_used c (s0 + (G - 1) * S0) < max_steps c).
Proof.
  intros Ht HS H1 HL H0 Hs.
  destruct (run_uniform_from c S0 s0 inp Ht HS H1 Hs (max_steps c + 1) st 0) as (st' & G & R & A & B & C & _); auto; try lia.
  - eapply Forall_impl; [|exact H0]. intros a E. rewrite E. cbn [Nat.mul]. lia.
  - exists st', G. auto.
Qed.

(* ------------------------------------------------------------------ how much the shared memory receives *)

(* transitions one individual's turn stores in the shared memory *)
Definition stored_per_turn (c : cfg) : nat :=
  match lp c with
  | Off | MAOff => (evo_steps c / num_envs c - (nstep c - 1)) * num_envs c
  | Bandit => episode_steps c
  | On | MAOn | Offline => 0
  end.

Lemma rollout_bandit_added c h : nstep c = 0 -> forall n m r,
  added (fst (rollout_bandit c h n m r)) = added m + n.
Proof.
  intros Hn. induction n as [|n IH]; intros m r; cbn [rollout_bandit fst]; [lia|].
  rewrite IH. unfold mem_add. rewrite Hn. cbn [Nat.eqb orb added]. lia.
Qed.

Lemma rollout_stores_lemma c h m :
  (lp c = Bandit -> nstep c = 0) ->
  added (fst (rollout c h m)) = added m + stored_per_turn c.
Proof.
  intros Hb. unfold stored_per_turn.
  destruct (lp c) eqn:E; try (unfold rollout; rewrite E; cbn [fst]; lia).
  - apply turn_stores_lemma. left. exact E.
  - unfold rollout. rewrite E. apply rollout_bandit_added. apply Hb. reflexivity.
  - apply turn_stores_lemma. right. exact E.
Qed.

Lemma train_pop_added c : (lp c = Bandit -> nstep c = 0) -> forall pop hps m,
  added (snd (fst (train_pop c hps pop m))) = added m + length pop * stored_per_turn c.
Proof.
  intros Hb. induction pop as [|a pop IH]; intros hps m; cbn [train_pop]; [cbn; lia|].
  pose proof (rollout_stores_lemma c (hd {| ls := 1; bs := 1 |} hps) m Hb) as R.
  destruct (rollout c (hd {| ls := 1; bs := 1 |} hps) m) as [m1 r]. cbn [fst] in R.
  specialize (IH (tl hps) m1). destruct (train_pop c (tl hps) pop m1) as [[p2 m2] rs].
  cbn [fst snd length] in *. lia.
Qed.

Lemma gen_memo c st inp : memo (fst (gen c st inp)) = snd (fst (train_pop c (g_hps inp) (pop st) (memo st))).
Proof.
  unfold gen. destruct (train_pop c (g_hps inp) (pop st) (memo st)) as [[p1 m1] rs]. cbn [fst snd].
  destruct (early_stop c (eval_pop p1 (g_fit inp))); reflexivity.
Qed.

Lemma gens_n_added c inp : (lp c = Bandit -> nstep c = 0) -> 1 <= tour_pop c -> forall n st g,
  length (pop st) = tour_pop c ->
  added (memo (gens_n n c st inp g)) = added (memo st) + n * (tour_pop c * stored_per_turn c).
Proof.
  intros Hb H1. induction n as [|n IH]; intros st g HL; cbn [gens_n]; [lia|].
  rewrite IH by (apply gen_length; assumption).
  rewrite gen_memo, train_pop_added by exact Hb. rewrite HL. lia.
Qed.

(* after the G generations a call runs, the shared memory has received G x population x (transitions per turn):
   per turn (iterations - (n_step - 1)) x num_envs off-policy, episode_steps for the bandits, nothing on-policy/offline *)
Lemma memory_fill_lemma c inp fuel st st' G :
  (lp c = Bandit -> nstep c = 0) -> 1 <= tour_pop c -> length (pop st) = tour_pop c ->
  run fuel c st inp 0 = Some (st', G) ->
  added (memo st') = added (memo st) + G * (tour_pop c * stored_per_turn c).
Proof.
  intros Hb H1 HL Hr. destruct (run_is_gens_n c inp _ _ _ _ _ Hr) as (n & -> & -> & _).
  apply gens_n_added; assumption.
Qed.

(* ------------------------------------------------------------------ evolution schedule of train_bandits *)

Lemma gen_tested c st inp :
  o_tested (snd (gen c st inp)) = eval_pop (fst (fst (train_pop c (g_hps inp) (pop st) (memo st)))) (g_fit inp).
Proof.
  unfold gen. destruct (train_pop c (g_hps inp) (pop st) (memo st)) as [[p1 m1] rs]. cbn [fst].
  destruct (early_stop c (eval_pop p1 (g_fit inp))); reflexivity.
Qed.

Lemma gen_evo c st inp :
  target c = None ->
  evo_count (fst (gen c st inp)) =
    if evolves c st (o_tested (snd (gen c st inp))) then S (evo_count st) else evo_count st.
Proof.
  intros Ht. unfold gen. destruct (train_pop c (g_hps inp) (pop st) (memo st)) as [[p1 m1] rs].
  unfold early_stop. rewrite Ht. cbn [fst snd evo_count o_tested]. reflexivity.
Qed.

Lemma gens_n_evo c S0 inp :
  lp c = Bandit -> evolve c = true -> target c = None -> 0 < evo_steps c -> 1 <= tour_pop c ->
  stream_ok (hp_steps c S0) (tour_pop c) inp ->
  forall n st g,
  length (pop st) = tour_pop c -> Forall (fun a => cur a = g * S0) (pop st) ->
  evo_count st = Nat.min g (g * S0 / evo_steps c) ->
  evo_count (gens_n n c st inp g) = Nat.min (g + n) ((g + n) * S0 / evo_steps c).
Proof.
  intros Hl He Ht Hk H1 Hs. induction n as [|n IH]; intros st g HL HF Hc; cbn [gens_n].
  - rewrite Nat.add_0_r. exact Hc.
  - replace (g + S n) with (S g + n) by lia.
    destruct (Hs g) as [Hok Hps].
    assert (Hne : pop st <> []) by (destruct (pop st); [cbn in HL; lia|discriminate]).
    assert (HF1 : Forall (fun a => cur a = S g * S0) (pop (fst (gen c st (inp g))))).
    { apply (gen_inv c (hp_steps c S0) (fun g a => cur a = g * S0) (uniform_step c S0) (fun g a i E => E)); auto.
      rewrite HL. exact Hps. }
    assert (HL1 : length (pop (fst (gen c st (inp g)))) = tour_pop c) by (apply gen_length; assumption).
    apply IH; auto.
    rewrite gen_evo by exact Ht. rewrite gen_tested.
    pose proof (train_eval_inv c (hp_steps c S0) (fun g a => cur a = g * S0) (uniform_step c S0) g
                  (pop st) (g_hps (inp g)) (memo st) (g_fit (inp g)) Hok HF) as HT.
    set (p2 := eval_pop (fst (fst (train_pop c (g_hps (inp g)) (pop st) (memo st)))) (g_fit (inp g))) in *.
    assert (Hhd : cur (hd dflt p2) = S g * S0).
    { assert (L2 : length p2 = tour_pop c) by (unfold p2; rewrite eval_pop_length, train_pop_length; exact HL).
      destruct p2 as [|a p]; [cbn in L2; lia|]. inversion HT; subst. assumption. }
    unfold evolves. rewrite He, Hl, Hhd, Hc. cbn [andb]. apply ck_arith. exact Hk.
Qed.

(* train_bandits with tournament + mutation: after G generations of S = episode_steps steps exactly
   min(G, G*S // evo_steps) evolutions happened: one per crossed multiple of evo_steps, at most one per generation *)
Lemma bandit_evolution_count_lemma c S0 inp pop0 fuel st' G :
  lp c = Bandit -> evolve c = true -> target c = None -> 0 < evo_steps c -> 1 <= tour_pop c ->
  length pop0 = tour_pop c -> Forall (fun a => cur a = 0) pop0 ->
  stream_ok (hp_steps c S0) (tour_pop c) inp ->
  run fuel c (init_state pop0) inp 0 = Some (st', G) ->
  evo_count st' = Nat.min G (G * S0 / evo_steps c).
Proof.
  intros Hl He Ht Hk H1 HL H0 Hs Hr.
  destruct (run_is_gens_n c inp _ _ _ _ _ Hr) as (n & -> & -> & _).
  apply (gens_n_evo c S0 inp Hl He Ht Hk H1 Hs n (init_state pop0) 0); auto.
Qed.
