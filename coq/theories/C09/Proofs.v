From Coq Require Import List Arith Lia Bool Permutation.
Import ListNotations.
From AgileV Require Import Base.Prelude C09.Model.

(* ---------- modular arithmetic on nat used by the ring buffer ---------- *)
Lemma mod_decomp c x : 0 < c -> exists q r, x = q * c + r /\ r < c /\ x mod c = r /\ x / c = q.
Proof.
  intros Hc. exists (x / c), (x mod c). repeat split; auto.
  - pose proof (Nat.div_mod x c ltac:(lia)). lia.
  - apply Nat.mod_upper_bound; lia.
Qed.

Lemma mod_qr c q r : r < c -> (q * c + r) mod c = r.
Proof. intros H. rewrite Nat.add_comm, Nat.mod_add by lia. apply Nat.mod_small; lia. Qed.

Lemma modsub c p k : 0 < c -> k <= p + c ->
  ((p mod c) + c - (k mod c)) mod c = (p + c - k) mod c.
Proof.
  intros Hc Hk.
  destruct (mod_decomp c p Hc) as (a & r & Ep & Hr & -> & _).
  destruct (mod_decomp c k Hc) as (b & s & Ek & Hs & -> & _).
  subst p k.
  destruct (le_lt_dec b a) as [Hba|Hba].
  - replace (a * c + r + c - (b * c + s)) with ((a - b) * c + (r + c - s)) by nia.
    rewrite (Nat.add_comm ((a - b) * c)), Nat.mod_add by lia. reflexivity.
  - assert (b = a + 1) by nia. subst b. assert (s <= r) by nia.
    replace ((a * c + r + c - ((a + 1) * c + s))) with (r - s) by nia.
    replace (r + c - s) with (1 * c + (r - s)) by lia.
    rewrite mod_qr by lia. symmetry; apply Nat.mod_small; lia.
Qed.

Lemma modc cap cur i : cur < cap -> i < cap ->
  (i + cap - cur) mod cap = if i <? cur then i + cap - cur else i - cur.
Proof.
  intros Hc Hi. destruct (Nat.ltb_spec i cur).
  - apply Nat.mod_small; lia.
  - replace (i + cap - cur) with ((i - cur) + 1 * cap) by lia.
    rewrite Nat.mod_add by lia. apply Nat.mod_small; lia.
Qed.

Section RB.
Context {A : Type}.
Notation nthd := (fun i (l : list (option A)) => nth i l None).

Lemma add_batch_length {T} cap cur (l xs : list T) :
  length l = cap -> cur < cap -> length xs <= cap -> length (add_batch cap cur l xs) = cap.
Proof.
  intros Hl Hc Hn. unfold add_batch.
  destruct (Nat.ltb_spec cap (cur + length xs)).
  - rewrite !app_length, !skipn_length, !app_length, !firstn_length. lia.
  - rewrite !app_length, skipn_length, firstn_length. lia.
Qed.

Ltac len := rewrite ?app_length, ?skipn_length, ?firstn_length in *.
Ltac stp d := first
  [ rewrite app_nth1 by (len; lia)
  | rewrite app_nth2 by (len; lia)
  | rewrite (nth_skipn_add d)
  | rewrite (nth_firstn_lt d) by (len; lia) ].

(* position-wise characterisation of the one-/two-slice write *)
Lemma add_batch_nth {T} (d : T) cap cur l xs i :
  length l = cap -> cur < cap -> length xs <= cap -> i < cap ->
  nth i (add_batch cap cur l xs) d =
    let j := (i + cap - cur) mod cap in
    if j <? length xs then nth j xs d else nth i l d.
Proof.
  intros Hl Hc Hn Hi. cbv zeta. rewrite (modc cap cur i Hc Hi). unfold add_batch.
  remember (length xs) as n eqn:En.
  destruct (Nat.ltb_spec i cur) as [Hic|Hic];
  match goal with |- context [?a <? n] => destruct (Nat.ltb_spec a n) end;
  destruct (Nat.ltb_spec cap (cur + n));
  repeat stp d; len; try lia; try reflexivity; f_equal; lia.
Qed.

(* writing a column of projected values = projecting after writing whole rows:
   all fields of the TensorDict are written with the same slices *)
Lemma add_batch_map {T U} (f : T -> U) cap cur l xs :
  map f (add_batch cap cur l xs) = add_batch cap cur (map f l) (map f xs).
Proof.
  unfold add_batch. rewrite map_length.
  destruct (cap <? cur + length xs);
  repeat first [rewrite map_app | rewrite <- firstn_map | rewrite <- skipn_map]; reflexivity.
Qed.

(* ---------- the invariant linking the buffer to the history of additions ---------- *)
Record Inv (c : nat) (h : list A) (b : rb A) : Prop := {
  inv_cap : cap b = c;
  inv_len : length (store b) = c;
  inv_cur : cursor b = length h mod c;
  inv_size : size b = Nat.min (length h) c;
  inv_recent : forall p x, nth_error h p = Some x -> length h <= p + c ->
                 nth (p mod c) (store b) None = Some x;
  inv_unwritten : forall i, i < c -> length h <= i -> nth i (store b) None = None
}.

Lemma inv_init c : 0 < c -> Inv c [] (rb_init c).
Proof.
  intros Hc. constructor; cbn.
  - reflexivity.
  - apply repeat_length.
  - symmetry; apply Nat.mod_0_l; lia.
  - reflexivity.
  - intros [|p] x H; discriminate.
  - intros i Hi _. apply nth_repeat.
Qed.

Lemma nth_map_some (l : list A) j x : nth_error l j = Some x -> nth j (map Some l) None = Some x.
Proof.
  revert j; induction l as [|a l IH]; intros [|j] H; cbn in *; try discriminate; auto; congruence.
Qed.

Lemma inv_add c h b xs : 0 < c -> length xs <= c -> Inv c h b -> Inv c (h ++ xs) (rb_add b xs).
Proof.
  intros Hc Hn [Hcap Hlen Hcur Hsize Hrec Hun].
  assert (Hcurlt : cursor b < c) by (rewrite Hcur; apply Nat.mod_upper_bound; lia).
  constructor; unfold rb_add; cbn [cap cursor size store]; rewrite ?Hcap.
  - reflexivity.
  - apply add_batch_length; rewrite ?map_length; auto.
  - rewrite app_length, Hcur. rewrite Nat.add_mod_idemp_l by lia. reflexivity.
  - rewrite app_length, Hsize. lia.
  - intros p x Hp Hwin. rewrite app_length in Hwin.
    assert (Hpc : p mod c < c) by (apply Nat.mod_upper_bound; lia).
    rewrite (add_batch_nth None) by (rewrite ?map_length; auto).
    cbv zeta. rewrite map_length, Hcur.
    rewrite modsub by lia.
    destruct (le_lt_dec (length h) p) as [Hge|Hlt].
    + (* p indexes the new batch *)
      assert (Hpx : p < length h + length xs).
      { assert (Hs : nth_error (h ++ xs) p <> None) by congruence.
        apply nth_error_Some in Hs. rewrite app_length in Hs. exact Hs. }
      replace (p + c - length h) with ((p - length h) + 1 * c) by lia.
      rewrite Nat.mod_add by lia. rewrite Nat.mod_small by lia.
      destruct (Nat.ltb_spec (p - length h) (length xs)); [|lia].
      apply nth_map_some. rewrite nth_error_app2 in Hp by lia. exact Hp.
    + (* p indexes an older transition that survives *)
      rewrite Nat.mod_small by lia.
      destruct (Nat.ltb_spec (p + c - length h) (length xs)); [lia|].
      apply Hrec; [|lia]. rewrite nth_error_app1 in Hp by lia. exact Hp.
  - intros i Hi Hk. rewrite app_length in Hk.
    rewrite (add_batch_nth None) by (rewrite ?map_length; auto).
    cbv zeta. rewrite map_length, Hcur.
    rewrite (Nat.mod_small (length h)) by lia.
    rewrite modc by lia.
    destruct (Nat.ltb_spec i (length h)); [lia|].
    destruct (Nat.ltb_spec (i - length h) (length xs)); [lia|].
    apply Hun; lia.
Qed.

Definition width_ok (c : nat) (o : op A) : Prop :=
  match o with Add xs => length xs <= c | _ => True end.

Lemma inv_step c h b o : 0 < c -> width_ok c o -> Inv c h b -> Inv c (spec_step h o) (rb_step b o).
Proof.
  intros Hc Hw HI. destruct o as [xs|perm bs|]; cbn.
  - apply inv_add; auto.
  - exact HI.
  - unfold rb_clear. rewrite (inv_cap _ _ _ HI). apply inv_init; auto.
Qed.

Lemma inv_fold c ops : 0 < c -> Forall (width_ok c) ops -> forall h b, Inv c h b ->
  Inv c (fold_left spec_step ops h) (fold_left rb_step ops b).
Proof.
  intros Hc HF. induction HF as [|o ops Ho _ IH]; intros h b HI; cbn; auto.
  apply IH. apply inv_step; auto.
Qed.

(* every reachable state of the buffer satisfies the invariant w.r.t. the abstract history *)
Theorem rb_refines_spec_lemma c ops : 0 < c -> Forall (width_ok c) ops ->
  Inv c (spec_run ops) (rb_run c ops).
Proof. intros Hc HF. apply inv_fold; auto. apply inv_init; auto. Qed.

(* ---------- user-facing corollaries ---------- *)
(* stored rows read from the oldest to the newest *)
Definition rb_contents (b : rb A) : list (option A) :=
  map (fun j => nth ((cursor b + cap b - size b + j) mod cap b) (store b) None) (seq 0 (size b)).

Lemma nth_map_seq {T} (f : nat -> T) s j d : j < s -> nth j (map f (seq 0 s)) d = f j.
Proof.
  intros H. rewrite nth_indep with (d' := f 0) by (rewrite map_length, seq_length; auto).
  rewrite map_nth. rewrite seq_nth by auto. reflexivity.
Qed.

Lemma contents_are_last c h b : 0 < c -> Inv c h b ->
  rb_contents b = map Some (lastn (Nat.min (length h) c) h) /\ size b = Nat.min (length h) c.
Proof.
  intros Hc [Hcap Hlen Hcur Hsize Hrec Hun]. split; auto.
  unfold rb_contents. rewrite Hcap, Hsize, Hcur.
  set (k := length h). set (s := Nat.min k c).
  apply nth_ext with (d := None) (d' := None).
  - rewrite !map_length, seq_length, lastn_length. fold k. lia.
  - intros j Hj. rewrite map_length, seq_length in Hj.
    rewrite nth_map_seq by auto.
    assert (Hslot : (k mod c + c - s + j) mod c = (k - s + j) mod c).
    { destruct (mod_decomp c k Hc) as (q & r & Ek & Hr & Em & _). rewrite Em.
      destruct q as [|q].
      - assert (s = k) by lia. replace (r + c - s + j) with (1 * c + j) by lia.
        replace (k - s + j) with j by lia. rewrite mod_qr by lia. symmetry; apply Nat.mod_small; lia.
      - assert (s = c) by nia. replace (r + c - s + j) with (0 * c + (r + j)) by lia.
        replace (k - s + j) with (q * c + (r + j)) by nia.
        rewrite !(Nat.add_comm (_ * c)), !Nat.mod_add by lia. reflexivity. }
    rewrite Hslot.
    assert (Hp : k - s + j < k) by lia.
    destruct (nth_error h (k - s + j)) as [x|] eqn:Ex; [|apply nth_error_None in Ex; fold k in Ex; lia].
    rewrite (Hrec _ _ Ex) by (fold k; lia).
    symmetry. apply nth_map_some. unfold lastn. rewrite nth_error_skipn_add. fold k.
    replace (k - s + j) with (k - s + j) in Ex by lia. exact Ex.
Qed.

Lemma NoDup_firstn {T} n (l : list T) : NoDup l -> NoDup (firstn n l).
Proof.
  revert n; induction l as [|a l IH]; intros [|n] H; cbn; try constructor.
  - inversion H; subst. intros Hin. apply In_firstn in Hin. contradiction. (* unreachable name guard *)
  - inversion H; subst. apply IH; auto.
Qed.

Lemma slot_in_window c h b i : 0 < c -> Inv c h b -> i < size b ->
  exists x, nth i (store b) None = Some x /\ In x (lastn (Nat.min (length h) c) h).
Proof.
  intros Hc HI Hi. pose proof HI as [Hcap Hlen Hcur Hsize Hrec Hun].
  set (k := length h) in *.
  (* the history position currently held by slot i *)
  set (base := k - Nat.min k c).
  set (p := base + (i + c - base mod c) mod c).
  assert (Hpm : p mod c = i /\ base <= p /\ p < k).
  { unfold p. destruct (mod_decomp c base Hc) as (q & r & Eb & Hr & Em & _). rewrite Em.
    assert (Hic : i < c) by lia.
    rewrite (modc c r i) by lia. destruct (Nat.ltb_spec i r).
    - split. { rewrite Eb. replace (q * c + r + (i + c - r)) with ((q + 1) * c + i) by nia. apply mod_qr; lia. }
      split; [lia|].
      (* base >= 1 here (r > i >= 0), so the buffer is full: base + c = k *)
      assert (Nat.min k c = c) by (unfold base in Eb; nia). unfold base in *. nia.
    - split. { rewrite Eb. replace (q * c + r + (i - r)) with (q * c + i) by lia. apply mod_qr; lia. }
      split; [lia|]. unfold base in *. destruct (le_lt_dec k c); [|nia].
      assert (Nat.min k c = k) by lia. nia. }
  destruct Hpm as (Hm & Hlo & Hhi).
  destruct (nth_error h p) as [x|] eqn:Ex; [|apply nth_error_None in Ex; fold k in Ex; lia].
  exists x. split.
  - rewrite <- Hm. apply Hrec; auto. fold k. unfold base in Hlo. lia.
  - unfold lastn. fold k. fold base.
    apply nth_error_In with (n := p - base). rewrite nth_error_skipn_add.
    replace (base + (p - base)) with p by lia. exact Ex.
Qed.

(* sampling: distinct stored rows *)
Lemma sample_sound_lemma c h b perm bs : 0 < c -> Inv c h b ->
  Permutation perm (seq 0 (size b)) ->
  let '(idx, rows) := rb_sample b perm bs in
  NoDup idx /\ Forall (fun i => i < size b) idx /\ length rows = Nat.min bs (size b) /\
  Forall (fun r => exists x, r = Some x /\ In x (lastn (Nat.min (length h) c) h)) rows.
Proof.
  intros Hc HI HP. cbn.
  assert (Hnd : NoDup perm) by (eapply Permutation_NoDup; [symmetry; exact HP | apply seq_NoDup]).
  assert (Hall : Forall (fun i => i < size b) perm).
  { apply Forall_forall. intros i Hi. eapply Permutation_in in Hi; [|exact HP]. apply in_seq in Hi. lia. }
  assert (Hall' : Forall (fun i => i < size b) (firstn bs perm)).
  { apply Forall_forall. intros i Hi. apply In_firstn in Hi. rewrite Forall_forall in Hall. auto. }
  repeat split.
  - apply NoDup_firstn; auto.
  - exact Hall'.
  - rewrite map_length, firstn_length. rewrite (Permutation_length HP), seq_length. reflexivity.
  - apply Forall_forall. intros r Hr. apply in_map_iff in Hr. destruct Hr as (i & <- & Hi).
    rewrite Forall_forall in Hall'. destruct (slot_in_window c h b i Hc HI (Hall' _ Hi)) as (x & E & Hin).
    exists x; auto.
Qed.

(* clear(): afterwards the buffer behaves as a new one *)
Lemma clear_spec_lemma c (ops1 ops2 : list (op A)) :
  rb_run c (ops1 ++ Clear :: ops2) = rb_run c ops2 /\ spec_run (ops1 ++ Clear :: ops2) = spec_run ops2.
Proof.
  unfold rb_run, spec_run. rewrite !fold_left_app. cbn. split; auto.
  f_equal. unfold rb_clear. f_equal.
  assert (H : forall (ops : list (op A)) (b : rb A), cap (fold_left rb_step ops b) = cap b).
  { induction ops as [|o ops IH]; intros b; cbn; auto. rewrite IH. destruct o; reflexivity. }
  rewrite H. reflexivity.
Qed.

(* ---------- deque(maxlen) ---------- *)
Lemma lastn_app_l {T} c (pre suf : list T) : c <= length suf -> lastn c (pre ++ suf) = lastn c suf.
Proof.
  intros H. unfold lastn. rewrite app_length, skipn_app.
  replace (length pre + length suf - c - length pre) with (length suf - c) by lia.
  rewrite skipn_all2 by lia. reflexivity.
Qed.

Lemma lastn_app_lastn {T} c (l : list T) x : lastn c (lastn c l ++ [x]) = lastn c (l ++ [x]).
Proof.
  destruct (le_lt_dec (length l) c) as [H|H].
  - unfold lastn at 2. replace (length l - c) with 0 by lia. reflexivity.
  - pose (m := length l - c).
    assert (E : l = firstn m l ++ skipn m l) by (symmetry; apply firstn_skipn).
    change (lastn c l) with (skipn m l).
    transitivity (lastn c ((firstn m l ++ skipn m l) ++ [x])); [|do 2 f_equal; symmetry; exact E].
    rewrite <- app_assoc. rewrite (lastn_app_l c (firstn m l)); [reflexivity|].
    rewrite app_length, skipn_length. unfold m. cbn. lia.
Qed.

Lemma dq_extend_spec {T} c (xs l h : list T) : l = lastn c h -> dq_extend c l xs = lastn c (h ++ xs).
Proof.
  revert l h. induction xs as [|x xs IH]; intros l h E; cbn.
  - rewrite app_nil_r. exact E.
  - unfold dq_extend in IH. rewrite (IH _ (h ++ [x])).
    + rewrite <- app_assoc. reflexivity.
    + subst l. unfold dq_append. apply lastn_app_lastn.
Qed.
End RB.

(* ---------- _reorganize_dicts is the transposition (field, agent, env) -> (env, field, agent) ---------- *)
Section Reorg.
Context {X : Type}.

Lemma reorganize_length (args : list (@field X)) : length (reorganize args) = num_entries args.
Proof. unfold reorganize. rewrite map_length, seq_length. reflexivity. Qed.

Lemma reorganize_spec_lemma (args : list (@field X)) e : e < num_entries args ->
  nth_error (reorganize args) e =
    Some (map (fun f : field => map (fun av => (fst av, at_env e (snd av))) f) args).
Proof.
  intros H. unfold reorganize. rewrite nth_error_map.
  assert (E : nth_error (seq 0 (num_entries args)) e = Some e).
  { rewrite nth_error_nth' with (d := 0) by (rewrite seq_length; auto). rewrite seq_nth by auto. reflexivity. }
  rewrite E. reflexivity.
Qed.

(* consequence: field fi / agent a of experience e is exactly entry e of what was passed for (fi, a);
   all fields and agents of one experience come from the same environment index e *)
Lemma reorganize_entry (args : list (@field X)) e fi f a v :
  e < num_entries args -> nth_error args fi = Some f -> In (a, v) f ->
  exists ex sf, nth_error (reorganize args) e = Some ex /\ nth_error ex fi = Some sf /\ In (a, at_env e v) sf.
Proof.
  intros He Hf Hin. eexists; eexists. split; [apply reorganize_spec_lemma; auto|]. split.
  - rewrite nth_error_map, Hf. reflexivity.
  - apply in_map_iff. exists (a, v). auto.
Qed.
End Reorg.

(* ---------- multi-agent sample: the value reported for (field, agent, sample j) is the stored one ---------- *)
Section MASample.
Context {X : Type}.

Lemma ma_sample_spec (mem : list (list (@sfield X))) idx nf agents fi a j i e f :
  fi < nf -> nth_error agents (j) = Some a -> nth_error idx i = Some e ->
  nth_error mem e = Some f ->
  exists row vals, nth_error (ma_sample mem idx nf agents) fi = Some row /\
    nth_error row j = Some (a, vals) /\
    nth_error vals i = Some (match nth_error f fi with Some fd => lookup a fd | None => None end).
Proof.
  intros Hfi Ha Hi He. unfold ma_sample.
  eexists; eexists. split; [|split].
  - rewrite nth_error_map.
    assert (E : nth_error (seq 0 nf) fi = Some fi).
    { rewrite nth_error_nth' with (d := 0) by (rewrite seq_length; auto). rewrite seq_nth by auto. reflexivity. }
    rewrite E. reflexivity.
  - rewrite nth_error_map, Ha. reflexivity.
  - rewrite nth_error_map, Hi. cbn. rewrite He. reflexivity.
Qed.
End MASample.
