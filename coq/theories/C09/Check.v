(* C09 — boolean comparison of the model with observations of the implementation (used by K only). *)
From Coq Require Import List Arith Bool.
Import ListNotations.
From AgileV Require Import Base.Prelude C09.Model.

Fixpoint list_eqb {T} (eqb : T -> T -> bool) (a b : list T) : bool :=
  match a, b with
  | [], [] => true
  | x :: a', y :: b' => eqb x y && list_eqb eqb a' b'
  | _, _ => false
  end.
Definition opt_eqb {T} (eqb : T -> T -> bool) (a b : option T) : bool :=
  match a, b with Some x, Some y => eqb x y | None, None => true | _, _ => false end.
Definition col_eqb := list_eqb (opt_eqb Nat.eqb).

(* observation after one op: reported len, decoded field columns, result of sample (indices, per-field rows) *)
Definition obs1 := (nat * list (list (option nat)) * option (list nat * list (list (option nat))))%type.

Definition check_one (b : rb nat) (o : op nat) (ob : obs1) : bool :=
  let '(len, cols, smp) := ob in
  Nat.eqb len (size b) && forallb (fun col => col_eqb col (store b)) cols &&
  match o, smp with
  | Sample perm bs, Some (idx, rows) =>
      let '(midx, mrows) := rb_sample b perm bs in
      list_eqb Nat.eqb idx midx && forallb (fun r => col_eqb r mrows) rows
  | Sample _ _, None => false
  | _, None => true
  | _, Some _ => false
  end.

Fixpoint check_trace (b : rb nat) (ops : list (op nat)) (obs : list obs1) : bool :=
  match ops, obs with
  | [], [] => true
  | o :: ops', ob :: obs' => let b' := rb_step b o in check_one b' o ob && check_trace b' ops' obs'
  | _, _ => false
  end.

Definition check_rb (c : nat) (ops : list (op nat)) (obs : list obs1) : bool :=
  check_trace (rb_init c) ops obs.

(* ---- multi-agent ---- *)
Definition sval_eqb (a b : @sval nat) : bool :=
  match a, b with
  | SLeaf x, SLeaf y => opt_eqb Nat.eqb x y
  | SMembers x, SMembers y => list_eqb (opt_eqb Nat.eqb) x y
  | _, _ => false
  end.
Definition sfield_eqb : @sfield nat -> @sfield nat -> bool :=
  list_eqb (fun p q => Nat.eqb (fst p) (fst q) && sval_eqb (snd p) (snd q)).
Definition exp_eqb : list (@sfield nat) -> list (@sfield nat) -> bool := list_eqb sfield_eqb.
Definition mem_eqb : list (list (@sfield nat)) -> list (list (@sfield nat)) -> bool := list_eqb exp_eqb.

Inductive ma_op :=
| MAVect (args : list (@field nat))      (* save_to_memory(..., is_vectorised=True) *)
| MASingle (e : list (@sfield nat))      (* save_to_memory_single_env *)
| MASample (idx : list nat).

Definition ma_step (c : nat) (mem : list (list (@sfield nat))) (o : ma_op) :=
  match o with
  | MAVect args => save_vect c mem args
  | MASingle e => dq_append c mem e
  | MASample _ => mem
  end.

(* observation: len, whole memory decoded, sample result: field -> agent -> per-sample values *)
Definition ma_obs := (nat * list (list (@sfield nat)) * option (list (list (nat * list (option (@sval nat))))))%type.

Definition smp_eqb : list (list (nat * list (option (@sval nat)))) -> list (list (nat * list (option (@sval nat)))) -> bool :=
  list_eqb (list_eqb (fun p q => Nat.eqb (fst p) (fst q) && list_eqb (opt_eqb sval_eqb) (snd p) (snd q))).

Fixpoint check_ma (c nf : nat) (agents : list nat) (mem : list (list (@sfield nat))) (ops : list ma_op) (obs : list ma_obs) : bool :=
  match ops, obs with
  | [], [] => true
  | o :: ops', (len, m, smp) :: obs' =>
      let mem' := ma_step c mem o in
      Nat.eqb len (length mem') && mem_eqb m mem' &&
      match o, smp with
      | MASample idx, Some s => smp_eqb s (ma_sample mem' idx nf agents)
      | MASample _, None => false
      | _, None => true
      | _, Some _ => false
      end && check_ma c nf agents mem' ops' obs'
  | _, _ => false
  end.
