(* C09 — executable model of agilerl.components.replay_buffer.ReplayBuffer and
   agilerl.components.multi_agent_replay_buffer.MultiAgentReplayBuffer.
   Model only (no proofs) so that it still runs when a proof breaks. *)
From Coq Require Import List Arith Bool.
Import ListNotations.
From AgileV Require Import Base.Prelude.

Section AB.
Context {A : Type}.

(* ReplayBuffer.add, storage write: one slice, or two slices when the batch crosses the end *)
Definition add_batch (cap cur : nat) (l xs : list A) : list A :=
  let n := length xs in
  let e := cur + n in
  if cap <? e then
    let k := cap - cur in
    let l1 := firstn cur l ++ firstn k xs in          (* storage[start:] = data[:k]     *)
    skipn k xs ++ skipn (n - k) l1                    (* storage[:n-k]   = data[k:]     *)
  else firstn cur l ++ xs ++ skipn e l.               (* storage[start:end] = data      *)
End AB.

Section RB.
Context {A : Type}.

Record rb := { cap : nat; cursor : nat; size : nat; store : list (option A) }.

(* _storage = None / zeros_like: every slot "never written" *)
Definition rb_init (c : nat) : rb := {| cap := c; cursor := 0; size := 0; store := repeat None c |}.

Definition rb_add (b : rb) (xs : list A) : rb :=
  let n := length xs in
  {| cap := cap b;
     cursor := (cursor b + n) mod cap b;
     size := Nat.min (size b + n) (cap b);
     store := add_batch (cap b) (cursor b) (store b) (map Some xs) |}.

Definition rb_clear (b : rb) : rb := rb_init (cap b).

(* sample: indices = randperm(size)[:batch]; rows gathered (a copy) *)
Definition rb_sample (b : rb) (perm : list nat) (bs : nat) : list nat * list (option A) :=
  let idx := firstn bs perm in (idx, map (fun i => nth i (store b) None) idx).

Inductive op := Add (xs : list A) | Sample (perm : list nat) (bs : nat) | Clear.

Definition rb_step (b : rb) (o : op) : rb :=
  match o with Add xs => rb_add b xs | Sample _ _ => b | Clear => rb_clear b end.

Definition rb_run (c : nat) (ops : list op) : rb := fold_left rb_step ops (rb_init c).

(* abstract specification: everything added since the last clear, oldest first *)
Definition spec_step (h : list A) (o : op) : list A :=
  match o with Add xs => h ++ xs | Sample _ _ => h | Clear => [] end.
Definition spec_run (ops : list op) : list A := fold_left spec_step ops [].

(* ---- multi-agent buffer: a deque(maxlen) of experiences ---- *)
Definition dq_append (c : nat) (l : list A) (x : A) : list A := lastn c (l ++ [x]).
Definition dq_extend (c : nat) (l xs : list A) : list A := fold_left (dq_append c) xs l.
End RB.

Arguments rb : clear implicits.
Arguments op : clear implicits.

(* ---- _reorganize_dicts: vectorised (field -> agent -> per-env values) to per-env experiences ---- *)
Section Reorg.
Context {X : Type}.
(* a value of one agent in one field: a plain array over envs, or dict/tuple members each an array over envs *)
Inductive vval := VLeaf (per_env : list X) | VMembers (members : list (list X)).
Inductive sval := SLeaf (x : option X) | SMembers (members : list (option X)).

Definition at_env (i : nat) (v : vval) : sval :=
  match v with
  | VLeaf l => SLeaf (nth_error l i)
  | VMembers ms => SMembers (map (fun l => nth_error l i) ms)
  end.

Definition vlen (v : vval) : nat :=
  match v with VLeaf l => length l | VMembers ms => match ms with m :: _ => length m | [] => 0 end end.

(* args : one entry per field; each is an association list agent -> vval *)
Definition field := list (nat * vval).
Definition sfield := list (nat * sval).

Definition num_entries (args : list field) : nat :=
  match args with ((_, v) :: _) :: _ => vlen v | _ => 0 end.

(* result: for env i, the experience = list over fields of (agent -> value) *)
Definition reorganize (args : list field) : list (list sfield) :=
  map (fun i => map (fun f : field => map (fun av => (fst av, at_env i (snd av))) f) args)
      (seq 0 (num_entries args)).

Definition save_vect (c : nat) (mem : list (list sfield)) (args : list field) : list (list sfield) :=
  dq_extend c mem (reorganize args).

(* sample: experiences at the drawn positions, regrouped field -> agent -> stacked values *)
Definition lookup (a : nat) (f : sfield) : option sval :=
  match find (fun av => Nat.eqb (fst av) a) f with Some av => Some (snd av) | None => None end.

Definition ma_sample (mem : list (list sfield)) (idx : list nat) (nfields : nat) (agents : list nat)
  : list (list (nat * list (option sval))) :=
  map (fun fi => map (fun a => (a, map (fun i => match nth_error mem i with
                                              | Some e => match nth_error e fi with Some f => lookup a f | None => None end
                                              | None => None end) idx)) agents)
      (seq 0 nfields).
End Reorg.
