(* C09 — a full-width sample returns every stored transition exactly once (as a multiset):
   nothing is lost and nothing is duplicated.  Strengthens sample_sound (membership only). *)
From Coq Require Import List Arith Lia Bool Permutation.
Import ListNotations.
From AgileV Require Import Base.Prelude C09.Model C09.Proofs.

Lemma rot_inj c o j j' : 0 < c -> j < c -> j' < c -> (o + j) mod c = (o + j') mod c -> j = j'.
Proof.
  intros Hc Hj Hj' E.
  destruct (mod_decomp c (o + j) Hc) as (q & r & E1 & Hr & Em & _).
  destruct (mod_decomp c (o + j') Hc) as (q' & r' & E1' & Hr' & Em' & _).
  rewrite Em, Em' in E. subst r'.
  assert (q = q') by nia. subst q'. lia.
Qed.

Lemma NoDup_map_inj_in {T U} (f : T -> U) (l : list T) :
  (forall x y, In x l -> In y l -> f x = f y -> x = y) -> NoDup l -> NoDup (map f l).
Proof.
  induction l as [|a l IH]; intros Hinj Hnd; cbn; [constructor|].
  inversion Hnd as [|a' l' Hni Hnd']; subst. constructor.
  - intros Hin. apply in_map_iff in Hin. destruct Hin as (y & Ey & Hy).
    assert (y = a) by (apply Hinj; [right; exact Hy | left; reflexivity | exact Ey]). subst y. contradiction.
  - apply IH; [|exact Hnd']. intros x y Hx Hy. apply Hinj; right; assumption.
Qed.

Lemma rot_perm c o : 0 < c -> Permutation (map (fun j => (o + j) mod c) (seq 0 c)) (seq 0 c).
Proof.
  intros Hc. apply NoDup_Permutation_bis.
  - apply NoDup_map_inj_in; [|apply seq_NoDup].
    intros j j' Hj Hj' E. apply in_seq in Hj. apply in_seq in Hj'. eapply rot_inj; eauto; lia.
  - rewrite map_length. lia.
  - intros x Hx. apply in_map_iff in Hx. destruct Hx as (j & <- & _).
    apply in_seq. split; [lia|]. cbn. apply Nat.mod_upper_bound. lia.
Qed.

Section Full.
Context {A : Type}.

Lemma sample_complete_lemma c (h : list A) (b : rb A) perm bs : 0 < c -> Inv c h b ->
  Permutation perm (seq 0 (size b)) -> size b <= bs ->
  Permutation (snd (rb_sample b perm bs)) (rb_contents b) /\
  Permutation (snd (rb_sample b perm bs)) (map Some (lastn (Nat.min (length h) c) h)).
Proof.
  intros Hc HI HP Hbs.
  assert (Hfirst : Permutation (snd (rb_sample b perm bs)) (rb_contents b)).
  { cbn. rewrite firstn_all2 by (rewrite (Permutation_length HP), seq_length; exact Hbs).
    unfold rb_contents.
    rewrite <- (map_map (fun j => (cursor b + cap b - size b + j) mod cap b)
                        (fun i => nth i (store b) None)).
    apply Permutation_map. etransitivity; [exact HP|].
    destruct HI as [Hcap Hlen Hcur Hsize Hrec Hun].
    rewrite Hcap. destruct (Nat.le_gt_cases c (length h)) as [Hfull|Hpart].
    - assert (Es : size b = c) by lia. rewrite Es. symmetry. apply rot_perm; exact Hc.
    - assert (Es : size b = length h) by lia.
      assert (Ecur : cursor b = length h) by (rewrite Hcur; apply Nat.mod_small; exact Hpart).
      rewrite Es, Ecur.
      replace (seq 0 (length h)) with (map (fun j => j) (seq 0 (length h))) at 1 by apply map_id.
      apply Permutation_refl'. apply map_ext_in. intros j Hj. apply in_seq in Hj.
      replace (length h + c - length h + j) with (1 * c + j) by lia.
      rewrite mod_qr by lia. reflexivity. }
  split; [exact Hfirst|].
  destruct (contents_are_last c h b Hc HI) as [E _]. rewrite <- E. exact Hfirst.
Qed.
End Full.

(* multi-agent deque(maxlen=c): never longer than c, exact length, and it only ever holds experiences that were appended *)
Lemma dq_extend_bounded {T} c (xs l h : list T) : l = lastn c h ->
  length (dq_extend c l xs) = Nat.min c (length h + length xs) /\
  length (dq_extend c l xs) <= c /\
  (forall x, In x (dq_extend c l xs) -> In x (h ++ xs)).
Proof.
  intros E. rewrite (dq_extend_spec c xs l h E). rewrite lastn_length, app_length.
  repeat split; [lia|].
  intros x Hx. unfold lastn in Hx.
  rewrite <- (firstn_skipn (length (h ++ xs) - c) (h ++ xs)). apply in_or_app. right. exact Hx.
Qed.
