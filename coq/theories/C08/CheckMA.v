(* C08 — correspondence helpers for the multi-agent part. *)
From Coq Require Import List QArith Arith Bool.
Import ListNotations.
From AgileV Require Import C08.Model C08.Check C08.ModelMA.
Local Open Scope Q_scope.

(* the critic input the tables were computed from is the model's agent_ids-order stacking of the handed-over
   dictionary (given in the caller's key order) *)
Definition check_stack (ids : list nat) (d : adict) (stacked : list Q) : bool := all_eq (stack_ids ids d) stacked.
