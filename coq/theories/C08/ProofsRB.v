(* C08 — Rainbow: what the un-renormalised clamp of the return distribution does to done masking. *)
From Coq Require Import List QArith Qminmax Qabs Qround ZArith Bool Arith Lia Lqa Setoid Morphisms.
Import ListNotations.
From AgileV Require Import C08.Model C08.Proofs.
Local Open Scope Q_scope.

(* DuelingDistributionalMLP.forward (pinned):  softmax(...).clamp(min=1e-3)  — no renormalisation *)
Definition clamp_dist (p : list Q) : list Q := map (fun x => Qmax x (1 # 1000)) p.
(* repaired: the clamped vector divided by its sum *)
Definition renorm (p : list Q) : list Q := map (fun x => x / qsum p) p.

Lemma psum_map_scale c : forall l, psum (map (fun x => x * c) l) == psum l * c.
Proof. unfold psum. induction l as [|x l IH]; cbn [map fold_right]; [ring|]. rewrite IH. ring. Qed.

Lemma renorm_mass p : ~ qsum p == 0 -> qsum (renorm p) == 1.
Proof.
  intros H. unfold renorm. rewrite qsum_psum.
  assert (E : psum (map (fun x => x / qsum p) p) == psum p * / qsum p).
  { unfold Qdiv. apply psum_map_scale. }
  rewrite E, <- qsum_psum. field. exact H.
Qed.

(* the clamp can only add mass: at least the original mass, at most 1e-3 more per atom *)
Lemma clamp_dist_mass_bounds : forall p, Forall (fun x => 0 <= x) p ->
  psum p <= psum (clamp_dist p) /\ psum (clamp_dist p) <= psum p + inject_Z (Z.of_nat (length p)) * (1 # 1000).
Proof.
  unfold psum, clamp_dist. induction p as [|x p IH]; intros H; cbn [map fold_right length].
  - split; [apply Qle_refl|]. change (inject_Z (Z.of_nat 0)) with 0. lra.
  - inversion H as [|? ? Hx Hp]; subst. destruct (IH Hp) as [A B].
    rewrite Nat2Z.inj_succ. unfold Z.succ. rewrite inject_Z_plus. change (inject_Z 1) with 1.
    pose proof (Q.le_max_l x (1 # 1000)) as M1.
    assert (M2 : Qmax x (1 # 1000) <= x + (1 # 1000)).
    { apply Q.max_lub; lra. }
    set (m := Qmax x (1 # 1000)) in *. set (n := inject_Z (Z.of_nat (length p))) in *. clearbody m n.
    split; lra.
Qed.

(* scaling the target distribution scales the element-wise loss of a DONE row: it is (mass) x (a quantity of the
   reward and the log-probabilities only) *)
Lemma qsum_map2_scale c : forall cs ls ps, Forall2 (fun p x => p == c * x) ps cs -> length ls = length cs ->
  qsum (map2 Qmult ps ls) == c * qsum (map2 Qmult cs ls).
Proof.
  intros cs ls ps H; revert ls. induction H as [|p x ps cs Hp _ IH]; intros [|l ls] Hl; try discriminate.
  - cbn [map2]. change (qsum []) with 0. ring.
  - cbn [map2]. rewrite !qsum_cons, IH by (cbn in Hl; congruence). rewrite Hp. ring.
Qed.

Definition rb_unit_cells (g vmin vmax dz : Q) (n : nat) (r d : Q) : list Q :=
  map (rb_contrib g vmin vmax dz n r d (0, 1)) (seq 0 n).

Lemma Forall2_nth_gen {A B} (R : A -> B -> Prop) (da : A) (db : B) : forall l m, length l = length m ->
  (forall k, (k < length l)%nat -> R (nth k l da) (nth k m db)) -> Forall2 R l m.
Proof.
  induction l as [|x l IH]; intros [|y m] Hl Hn; try discriminate; constructor.
  - apply (Hn 0%nat). cbn. lia.
  - apply IH; [cbn in Hl; congruence|]. intros k Hk. apply (Hn (S k)). cbn. lia.
Qed.

Lemma rb_elem_done_is_mass_times_unit g vmin vmax dz support x :
  r_d x == 1 -> length (r_p x) = length support -> length (r_logp x) = length support ->
  rb_elem g vmin vmax dz support x
  == qsum (r_p x) * - qsum (map2 Qmult (rb_unit_cells g vmin vmax dz (length support) (r_r x) (r_d x)) (r_logp x)).
Proof.
  intros Hd Hp Hl. unfold rb_elem.
  rewrite (qsum_map2_scale (qsum (r_p x)) (rb_unit_cells g vmin vmax dz (length support) (r_r x) (r_d x))).
  - ring.
  - apply Forall2_nth_gen with (da := 0) (db := 0).
    + unfold rb_unit_cells. rewrite rb_project_length, map_length, seq_length. reflexivity.
    + intros k Hk. rewrite rb_project_length in Hk. rewrite rb_project_done_cells by auto.
      unfold rb_unit_cells.
      rewrite (nth_indep _ 0 (rb_contrib g vmin vmax dz (length support) (r_r x) (r_d x) (0, 1) 0%nat))
        by (rewrite map_length, seq_length; exact Hk).
      rewrite map_nth, seq_nth by exact Hk. reflexivity.
  - unfold rb_unit_cells. rewrite map_length, seq_length. exact Hl.
Qed.

(* two done rows with the same reward and log-probabilities: their losses are in the ratio of the masses of their
   next-observation distributions — equal iff the masses are equal (or the unit loss is 0) *)
Lemma rb_elem_done_ratio g vmin vmax dz support x x' :
  r_d x == 1 -> r_r x = r_r x' -> r_d x = r_d x' -> r_logp x = r_logp x' ->
  length (r_p x) = length support -> length (r_p x') = length support -> length (r_logp x) = length support ->
  rb_elem g vmin vmax dz support x * qsum (r_p x') == rb_elem g vmin vmax dz support x' * qsum (r_p x).
Proof.
  intros Hd Hr Hdd Hl Hp Hp' Hll.
  rewrite (rb_elem_done_is_mass_times_unit g vmin vmax dz support x) by auto.
  rewrite (rb_elem_done_is_mass_times_unit g vmin vmax dz support x') by (rewrite <- ?Hdd, <- ?Hl; auto).
  rewrite <- Hr, <- Hdd, <- Hl. ring.
Qed.

(* the pinned network: two next observations whose (peaked) softmax outputs both have mass 1 give, after the clamp,
   different masses — and the done row's loss differs *)
Lemma rainbow_clamped_mass_leaks_next_obs_refuted_lemma :
  exists (p p' logp : list Q) (sup : list Q),
    qsum p == 1 /\ qsum p' == 1 /\ length p = length sup /\ length p' = length sup /\
    let x  := {| r_r := 0; r_d := 1; r_p := clamp_dist p;  r_logp := logp |} in
    let x' := {| r_r := 0; r_d := 1; r_p := clamp_dist p'; r_logp := logp |} in
    ~ rb_elem (1 # 2) (-1) 1 1 sup x == rb_elem (1 # 2) (-1) 1 1 sup x' /\
    rb_elem (1 # 2) (-1) 1 1 sup {| r_r := 0; r_d := 1; r_p := renorm (clamp_dist p); r_logp := logp |}
    == rb_elem (1 # 2) (-1) 1 1 sup {| r_r := 0; r_d := 1; r_p := renorm (clamp_dist p'); r_logp := logp |}.
Proof.
  exists [1; 0; 0], [1 # 2; 1 # 2; 0], [-1; -2; -3], [-1; 0; 1].
  repeat split; try reflexivity; vm_compute; try reflexivity. discriminate.
Qed.
