(* C08 — boolean comparison functions used only by the correspondence check (K). *)
From Coq Require Import List QArith Qminmax Qabs ZArith Bool Arith.
Import ListNotations.
From AgileV Require Import C08.Model.
Local Open Scope Q_scope.

(* |a - b| <= tol * max(1, |b|) *)
Definition close (tol a b : Q) : bool := Qle_bool (Qabs (a - b)) (tol * Qmax 1 (Qabs b)).
Fixpoint all_close (tol : Q) (l m : list Q) : bool :=
  match l, m with
  | [], [] => true
  | a :: l', b :: m' => close tol a b && all_close tol l' m'
  | _, _ => false
  end.
Fixpoint all_eq (l m : list Q) : bool :=
  match l, m with
  | [] , [] => true
  | a :: l', b :: m' => Qeq_bool a b && all_eq l' m'
  | _, _ => false
  end.

Definition tol_loss : Q := 1 # 10000.
Definition tol_w : Q := 1 # 1000000.

(* loss returned by learn() vs the model; [rows'] are the tables of the same batch with next_obs
   perturbed where done = 1: the model loss must be EXACTLY the same *)
Definition check_dqn (g : Q) (double : bool) (rows rows' : list drow) (loss : Q) : bool :=
  close tol_loss (dqn_loss g double rows) loss && Qeq_bool (dqn_loss g double rows) (dqn_loss g double rows').

Definition check_cqn (g : Q) (double : bool) (rows rows' : list drow) (lse : list Q) (loss : Q) : bool :=
  close tol_loss (cqn_loss g double rows lse) loss
  && forallb (fun p => lse_plausible (fst p) (snd p)) (combine rows lse)
  && Nat.eqb (length rows) (length lse)
  && Qeq_bool (cqn_loss g double rows lse) (cqn_loss g double rows' lse).

(* actor-critic: loss, and the next actions fed to the target critics (observed [an]) follow the formula *)
Definition check_ac (g : Q) (ncrit : nat) (rows rows' : list arow) (loss : Q) : bool :=
  close tol_loss (ac_loss g ncrit rows) loss && Qeq_bool (ac_loss g ncrit rows) (ac_loss g ncrit rows')
  && forallb (fun x => Nat.eqb (length (a_qs x)) ncrit && Nat.eqb (length (a_qns x)) ncrit) rows.

Definition check_next_actions (c : Q) (lo hi : list Q) (pis noises ans : list (list Q)) : bool :=
  forallb (fun x => all_close tol_w (next_action c lo hi (fst (fst x)) (snd (fst x))) (snd x))
          (combine (combine pis noises) ans)
  && Nat.eqb (length pis) (length ans) && Nat.eqb (length noises) (length ans).

(* Rainbow: mean of weighted element-wise losses (1-step rows and/or n-step rows) *)
Definition rb_elems (g vmin vmax dz : Q) (support : list Q) (rows : list rrow) : list Q :=
  map (rb_elem g vmin vmax dz support) rows.
Definition check_rainbow (g gn vmin vmax dz : Q) (support : list Q) (use1 usen : bool)
           (rows1 rowsn : list rrow) (weights : list Q) (loss : Q) (elem_obs : list Q) : bool :=
  let e1 := rb_elems g vmin vmax dz support rows1 in
  let en := rb_elems gn vmin vmax dz support rowsn in
  let e := if use1 && usen then map2 Qplus e1 en else if usen then en else e1 in
  close tol_loss (rb_loss weights e) loss
  && match elem_obs with [] => true | _ => all_close tol_loss e elem_obs end.

(* soft-update trace of one (online, target) pair over consecutive learn calls.
   Every step is checked against the model applied to the OBSERVED previous target (1e-6), steps without an
   update must leave the target exactly unchanged, and the model run from the initial target (run_soft)
   must stay within k * 1e-6 of the last observation. *)
Fixpoint check_soft_steps (tau : Q) (pf counter : nat) (prev : list Q) (trace : list (list Q * list Q)) : bool :=
  match trace with
  | [] => true
  | (online, target) :: rest =>
      let '(c, t) := delayed_soft tau pf counter online prev in
      (if (c mod pf =? 0)%nat then all_close tol_w t target else all_eq t target)
      && check_soft_steps tau pf c target rest
  end.
Definition check_soft (tau : Q) (pf counter : nat) (t0 : list Q) (trace : list (list Q * list Q)) : bool :=
  check_soft_steps tau pf counter t0 trace
  && all_close (tol_w * inject_Z (Z.of_nat (length trace)))
       (run_soft tau pf counter t0 (map fst trace)) (last (map snd trace) t0).

(* Rainbow: every observed target distribution has as many atoms as the support and a total mass of at least 1 and at
   most 1 + N * 1e-3: the network returns softmax(...).clamp(min=1e-3) WITHOUT renormalising, so atoms below 1e-3 are
   lifted and the mass exceeds 1 (rb_clamp_mass_bound).  [strict] asks for mass 1 (the hypothesis under which
   done_masks_next_rainbow gives an exactly unchanged loss). *)
Definition check_rainbow_mass (strict : bool) (support : list Q) (rows : list rrow) : bool :=
  forallb (fun x => Nat.eqb (length (r_p x)) (length support) && Nat.eqb (length (r_logp x)) (length support)
                    && Qle_bool (1 - (1 # 100000)) (qsum (r_p x))
                    && Qle_bool (qsum (r_p x))
                         (if strict then 1 + (1 # 100000) else 1 + qlen support * (1 # 1000) + (1 # 100000))) rows.
