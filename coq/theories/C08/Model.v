(* C08 — executable model (over Q) of the value-based learners' loss and target tracking:
     agilerl/algorithms/{dqn,cqn,dqn_rainbow,ddpg,td3,maddpg,matd3}.py : update / learn / soft_update.
   Networks are opaque: their outputs enter as tables (K) or as Section variables (theorems).
   Model only (no proofs) so that it still runs when a proof breaks. *)
From Coq Require Import List QArith Qminmax Qabs Qround ZArith Bool Arith.
Import ListNotations.
Local Open Scope Q_scope.

(* ---------------------------------------------------------------- small numeric helpers *)
Definition qsum (l : list Q) : Q := fold_right (fun x acc => Qred (x + acc)) 0 l.
Definition qlen (l : list Q) : Q := inject_Z (Z.of_nat (length l)).
Definition qmean (l : list Q) : Q := qsum l / qlen l.                (* torch.mean *)
Definition sq (x : Q) : Q := x * x.

Fixpoint map2 {A B C} (f : A -> B -> C) (l : list A) (m : list B) : list C :=
  match l, m with
  | a :: l', b :: m' => f a b :: map2 f l' m'
  | _, _ => []
  end.

(* tensor.max(axis=1)[0] over one row; the value of the first element if the row is a singleton *)
Fixpoint qmax_from (best : Q) (l : list Q) : Q :=
  match l with
  | [] => best
  | y :: t => qmax_from (if Qle_bool y best then best else y) t
  end.
Definition qmax_list (l : list Q) : Q := match l with [] => 0 | x :: t => qmax_from x t end.

Fixpoint qmin_from (best : Q) (l : list Q) : Q :=
  match l with
  | [] => best
  | y :: t => qmin_from (if Qle_bool best y then best else y) t
  end.
(* torch.min(q1, q2) element-wise, folded over however many target critics there are *)
Definition qmin_list (l : list Q) : Q := match l with [] => 0 | x :: t => qmin_from x t end.

(* tensor.argmax(dim=1): index of the FIRST maximal entry (a later entry wins only if strictly larger) *)
Fixpoint argmax_from (best : Q) (bi i : nat) (l : list Q) : nat :=
  match l with
  | [] => bi
  | y :: t => if Qle_bool y best then argmax_from best bi (S i) t else argmax_from y i (S i) t
  end.
Definition argmax (l : list Q) : nat := match l with [] => O | x :: t => argmax_from x O 1%nat t end.

Definition nthq (l : list Q) (i : nat) : Q := nth i l 0.              (* gather(1, index) on one row *)

(* ---------------------------------------------------------------- the Bellman target *)
(* dqn.py / cqn.py:      y_j = rewards + self.gamma * q_target * (1 - dones) *)
Definition bellman (r g d q : Q) : Q := r + g * q * (1 - d).
(* ddpg/td3/maddpg/matd3: y_j = rewards + ((1 - dones) * self.gamma * q_value_next_state) *)
Definition bellman_ac (r g d q : Q) : Q := r + (1 - d) * g * q.

(* nn.MSELoss() (mean reduction) over the batch *)
Definition mse (xs ys : list Q) : Q := qmean (map2 (fun x y => sq (x - y)) xs ys).

(* ---------------------------------------------------------------- DQN / CQN (discrete actions) *)
(* one batch row after the networks were evaluated *)
Record drow := {
  d_qe  : list Q;    (* actor(obs)[row, :]            *)
  d_a   : nat;       (* action taken                   *)
  d_r   : Q;         (* reward                         *)
  d_d   : Q;         (* done flag (0 / 1)              *)
  d_qon : list Q;    (* actor(next_obs)[row, :]        *)
  d_qtn : list Q     (* actor_target(next_obs)[row, :] *)
}.

(* double:  actor_target(next_obs).gather(1, actor(next_obs).argmax(1));   plain: actor_target(next_obs).max(1)[0] *)
Definition dqn_next (double : bool) (x : drow) : Q :=
  if double then nthq (d_qtn x) (argmax (d_qon x)) else qmax_list (d_qtn x).
Definition dqn_y (g : Q) (double : bool) (x : drow) : Q := bellman (d_r x) g (d_d x) (dqn_next double x).
Definition dqn_qeval (x : drow) : Q := nthq (d_qe x) (d_a x).       (* actor(obs).gather(1, actions) *)
Definition dqn_loss (g : Q) (double : bool) (rows : list drow) : Q :=
  mse (map dqn_qeval rows) (map (dqn_y g double) rows).

(* CQN: q1_loss = (logsumexp(q_a_s, 1).mean() - q_a_s.mean()) + 0.5 * mse(q_eval, q_target);
   the log-sum-exp of each row is transcendental and enters as an input [lse] (one value per row) *)
Definition cqn_loss (g : Q) (double : bool) (rows : list drow) (lse : list Q) : Q :=
  (qmean lse - qmean (concat (map d_qe rows))) + (1 # 2) * dqn_loss g double rows.
(* elementary sanity bounds of a row's logsumexp:  max <= lse <= max + (n - 1)   (ln n <= n - 1) *)
Definition lse_plausible (x : drow) (l : Q) : bool :=
  Qle_bool (qmax_list (d_qe x) - (1 # 100000)) l && Qle_bool l (qmax_list (d_qe x) + qlen (d_qe x) - 1 + (1 # 100000)).

(* ---------------------------------------------------------------- actor-critic learners *)
(* multi_dim_clamp with array bounds: torch.max(torch.min(input, max), min) *)
Definition clamp_arr (lo hi x : Q) : Q := Qmax (Qmin x hi) lo.
(* multi_dim_clamp with scalar bounds: torch.clamp(input, min, max) *)
Definition clamp_sc (lo hi x : Q) : Q := Qmin (Qmax x lo) hi.

(* next_actions = clamp(actor_target(next_obs) + clamp(noise, -c, c), min_action, max_action), per action dimension *)
Fixpoint next_action (c : Q) (lo hi pi noise : list Q) : list Q :=
  match lo, hi, pi, noise with
  | l :: lo', h :: hi', p :: pi', n :: noise' =>
      clamp_arr l h (p + clamp_sc (- c) c n) :: next_action c lo' hi' pi' noise'
  | _, _, _, _ => []
  end.

(* one batch row of DDPG (1 critic), TD3 (2), MADDPG agent (1), MATD3 agent (2) *)
Record arow := {
  a_qs  : list Q;    (* critic_k(obs, action)[row]                 one per critic          *)
  a_r   : Q;
  a_d   : Q;
  a_qns : list Q     (* critic_target_k(next_obs, next_action)[row] one per target critic  *)
}.
Definition ac_y (g : Q) (x : arow) : Q := bellman_ac (a_r x) g (a_d x) (qmin_list (a_qns x)).
(* critic_loss = sum_k criterion(q_value_k, y_j) *)
Definition ac_loss_k (g : Q) (rows : list arow) (k : nat) : Q :=
  mse (map (fun x => nthq (a_qs x) k) rows) (map (ac_y g) rows).
Definition ac_loss (g : Q) (ncrit : nat) (rows : list arow) : Q :=
  qsum (map (ac_loss_k g rows) (seq 0 ncrit)).

(* ---------------------------------------------------------------- Rainbow (C51) element-wise loss *)
(* t_z = (rewards + (1 - dones) * gamma * support).clamp(v_min, v_max);  b = ((t_z - v_min) / delta_z).clamp(0, N - 1) *)
Definition rb_b (g vmin vmax dz : Q) (n : nat) (r d z : Q) : Q :=
  let tz := clamp_sc vmin vmax (r + (1 - d) * g * z) in
  clamp_sc 0 (inject_Z (Z.of_nat n) - 1) ((tz - vmin) / dz).
(* L = floor b; u = ceil b; L[(u > 0) * (L == u)] -= 1;  u[(L < N - 1) * (L == u)] += 1  (second test sees the new L) *)
Definition rb_lu (n : nat) (b : Q) : Z * Z :=
  let L := Qfloor b in let u := Qceiling b in
  let L' := if (0 <? u)%Z && (L =? u)%Z then (L - 1)%Z else L in
  let u' := if (L' <? Z.of_nat n - 1)%Z && (L' =? u)%Z then (u + 1)%Z else u in
  (L', u').
Fixpoint add_at (i : nat) (v : Q) (l : list Q) : list Q :=
  match l, i with
  | [], _ => []
  | x :: t, O => Qred (x + v) :: t
  | x :: t, S j => x :: add_at j v t
  end.
(* the two index_add_ calls for one batch row: atom (z, p) of the target distribution moves to L and u *)
Definition rb_step (g vmin vmax dz : Q) (n : nat) (r d : Q) (acc : list Q) (zp : Q * Q) : list Q :=
  let b := rb_b g vmin vmax dz n r d (fst zp) in
  let '(L, u) := rb_lu n b in
  add_at (Z.to_nat u) (snd zp * (b - inject_Z L)) (add_at (Z.to_nat L) (snd zp * (inject_Z u - b)) acc).
Definition rb_project (g vmin vmax dz : Q) (r d : Q) (support p : list Q) : list Q :=
  fold_left (rb_step g vmin vmax dz (length support) r d) (combine support p) (repeat 0 (length support)).
Record rrow := {
  r_r : Q; r_d : Q;
  r_p : list Q;       (* actor_target(next, q=False)[row, argmax_a actor(next)[row]]  (target distribution) *)
  r_logp : list Q     (* actor(obs, q=False, log=True)[row, action]                      (log-probabilities) *)
}.
(* elementwise_loss = -(proj_dist * log_p).sum(1) *)
Definition rb_elem (g vmin vmax dz : Q) (support : list Q) (x : rrow) : Q :=
  - qsum (map2 Qmult (rb_project g vmin vmax dz (r_r x) (r_d x) support (r_p x)) (r_logp x)).
(* loss = mean(elementwise * weights); 1-step, n-step (gamma ** n) or their sum when combined_reward *)
Definition rb_loss (weights : list Q) (elems : list Q) : Q := qmean (map2 Qmult elems weights).
(* the pinned behaviour (before fixes/C08-rainbow-per-weights-broadcast): the (B,1) weight column delivered by the
   prioritised buffer broadcasts against the (B,) losses to a (B,B) matrix; torch.mean of that outer product *)
Definition rb_loss_pinned_broadcast (weights : list Q) (elems : list Q) : Q :=
  qmean (concat (map (fun w => map (fun e => e * w) elems) weights)).

(* ---------------------------------------------------------------- soft update *)
Definition lerp (tau e t : Q) : Q := tau * e + (1 - tau) * t.
(* for eval_param, target_param in zip(net.parameters(), target.parameters()): target_param.data.copy_(tau*e + (1-tau)*t)
   — in place: target cells beyond the zip keep their value *)
Fixpoint soft_zip (tau : Q) (online target : list Q) : list Q :=
  match online, target with
  | e :: es, t :: ts => lerp tau e t :: soft_zip tau es ts
  | _, ts => ts
  end.

(* a network as the check sees it: cells returned by parameters() and cells that are not
   (detached tensors placed with to_module: the pinned DQN target, shared encoders) *)
Record net := { exposed : list Q; hidden : list Q }.
Definition soft_update (tau : Q) (online target : net) : net :=
  {| exposed := soft_zip tau (exposed online) (exposed target); hidden := hidden target |}.
Definition weights (n : net) : list Q := exposed n ++ hidden n.

(* learn step k of a learner with policy delay: learn_counter += 1; if learn_counter % policy_freq == 0: soft updates.
   (policy_freq = 1 for DQN/CQN/Rainbow/MADDPG.)  [online] = online weights AFTER the optimiser step of this call. *)
Definition delayed_soft (tau : Q) (pf counter : nat) (online target : list Q) : nat * list Q :=
  let c := S counter in
  (c, if (c mod pf =? 0)%nat then soft_zip tau online target else target).

Fixpoint run_soft (tau : Q) (pf counter : nat) (target : list Q) (onlines : list (list Q)) : list Q :=
  match onlines with
  | [] => target
  | e :: rest => let '(c, t) := delayed_soft tau pf counter e target in run_soft tau pf c t rest
  end.

(* the pinned (pre-fix 3d1411a) DQN: init_hook moved the target's tensors out of parameters() *)
Definition pinned_dqn_target (w : list Q) : net := {| exposed := []; hidden := w |}.

(* ---------------------------------------------------------------- the same learners over opaque networks *)
(* The networks are arbitrary functions (Section variables): what the theorems say holds for every network. *)
Section DiscreteNets.
Variable Obs : Type.
Variables (Qon Qtg : Obs -> list Q).        (* actor, actor_target *)
Record dtrans := { t_s : Obs; t_a : nat; t_r : Q; t_s' : Obs; t_d : Q }.
Definition drow_of (t : dtrans) : drow :=
  {| d_qe := Qon (t_s t); d_a := t_a t; d_r := t_r t; d_d := t_d t; d_qon := Qon (t_s' t); d_qtn := Qtg (t_s' t) |}.
Definition dqn_loss_net (g : Q) (double : bool) (batch : list dtrans) : Q := dqn_loss g double (map drow_of batch).
Definition cqn_loss_net (g : Q) (double : bool) (batch : list dtrans) (lse : Obs -> Q) : Q :=
  cqn_loss g double (map drow_of batch) (map (fun t => lse (t_s t)) batch).
(* replace the next observation of every transition that is marked done by anything at all *)
Definition dreplace_next (alt : dtrans -> Obs) (t : dtrans) : dtrans :=
  if Qeq_bool (t_d t) 1 then {| t_s := t_s t; t_a := t_a t; t_r := t_r t; t_s' := alt t; t_d := t_d t |} else t.
End DiscreteNets.

Section ActorCriticNets.
Variables Obs : Type.
Variable PiT : Obs -> list Q.                          (* actor_target (for MADDPG/MATD3: all actor targets, stacked) *)
Variables (Crit CritT : list (Obs -> list Q -> Q)).    (* critics and target critics *)
Variables (c : Q) (lo hi : list Q).                    (* noise clip, action bounds *)
Record atrans := { u_s : Obs; u_a : list Q; u_r : Q; u_s' : Obs; u_d : Q; u_noise : list Q }.
Definition arow_of (t : atrans) : arow :=
  let an := next_action c lo hi (PiT (u_s' t)) (u_noise t) in
  {| a_qs := map (fun f => f (u_s t) (u_a t)) Crit; a_r := u_r t; a_d := u_d t;
     a_qns := map (fun f => f (u_s' t) an) CritT |}.
Definition ac_loss_net (g : Q) (batch : list atrans) : Q := ac_loss g (length Crit) (map arow_of batch).
Definition areplace_next (alt : atrans -> Obs) (t : atrans) : atrans :=
  if Qeq_bool (u_d t) 1
  then {| u_s := u_s t; u_a := u_a t; u_r := u_r t; u_s' := alt t; u_d := u_d t; u_noise := u_noise t |} else t.
End ActorCriticNets.
