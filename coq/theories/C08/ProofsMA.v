(* C08 — proofs about the multi-agent part of the model (C08/ModelMA.v). *)
From Coq Require Import List QArith Arith Bool Lia Permutation.
Import ListNotations.
From AgileV Require Import C08.Model C08.ModelMA.
Local Open Scope Q_scope.

Lemma lookup_notin a (d : adict) : ~ In a (map fst d) -> lookup a d = [].
Proof.
  unfold lookup. induction d as [|[k v] d IH]; intros H; cbn; [reflexivity|].
  destruct (Nat.eqb_spec k a) as [->|Hne]; [exfalso; apply H; left; reflexivity|].
  apply IH. intro Hin. apply H. right. exact Hin.
Qed.

Lemma lookup_in a v (d : adict) : NoDup (map fst d) -> In (a, v) d -> lookup a d = v.
Proof.
  unfold lookup. induction d as [|[k w] d IH]; intros Hnd Hin; [contradiction|].
  cbn in Hnd. inversion Hnd as [|? ? Hk Hnd']; subst. cbn.
  destruct Hin as [E|Hin].
  - injection E as -> ->. rewrite Nat.eqb_refl. reflexivity.
  - destruct (Nat.eqb_spec k a) as [->|Hne].
    + exfalso. apply Hk. apply (in_map fst) in Hin. exact Hin.
    + apply IH; auto.
Qed.

(* a dictionary lookup does not depend on the insertion order *)
Lemma lookup_perm a (d d' : adict) : NoDup (map fst d) -> Permutation d d' -> lookup a d = lookup a d'.
Proof.
  intros Hnd Hp.
  assert (Hnd' : NoDup (map fst d')) by (eapply Permutation_NoDup; [apply Permutation_map; exact Hp|exact Hnd]).
  destruct (in_dec Nat.eq_dec a (map fst d)) as [Hin|Hnin].
  - apply in_map_iff in Hin. destruct Hin as ([k v] & Hk & Hin). cbn in Hk. subst k.
    rewrite (lookup_in a v d Hnd Hin).
    symmetry. apply lookup_in; auto. eapply Permutation_in; eauto.
  - rewrite (lookup_notin a d Hnin). symmetry. apply lookup_notin.
    intro H. apply Hnin. eapply Permutation_in; [apply Permutation_map; apply Permutation_sym; exact Hp|exact H].
Qed.

Lemma stack_ids_perm ids (d d' : adict) : NoDup (map fst d) -> Permutation d d' -> stack_ids ids d = stack_ids ids d'.
Proof.
  intros Hnd Hp. unfold stack_ids. f_equal. apply map_ext. intros a. apply lookup_perm; auto.
Qed.

(* in the canonical order the two ways of stacking coincide (which is why a buffer that keeps the algorithm's own
   agent order never shows the difference) *)
Lemma stack_values_canonical (d : adict) : NoDup (map fst d) -> stack_values d = stack_ids (map fst d) d.
Proof.
  unfold stack_values, stack_ids. intros Hnd. f_equal. rewrite map_map.
  assert (H : forall p, In p d -> snd p = lookup (fst p) d).
  { intros [k v] Hin. cbn. symmetry. apply lookup_in; auto. }
  clear Hnd. revert H. generalize d at 2 4. induction d as [|p d IH]; intros d0 H; cbn; [reflexivity|].
  rewrite (H p) by (left; reflexivity). f_equal. apply IH. intros q Hq. apply H. right. exact Hq.
Qed.

Lemma stack_values_order_dependent_refuted_lemma :
  exists d d' : adict, Permutation d d' /\ NoDup (map fst d) /\ stack_values d <> stack_values d'.
Proof.
  exists [(0%nat, [1]); (1%nat, [2])], [(1%nat, [2]); (0%nat, [1])].
  split; [apply perm_swap|]. split; [repeat constructor; cbn; intuition discriminate|].
  cbn. discriminate.
Qed.

Section MultiAgentNetsProofs.
Variable ids : list nat.
Variable PiT : nat -> list Q -> list Q.
Variables (Crit CritT : list (list Q -> list Q -> Q)).

(* the same transition handed over with every dictionary in another key order *)
Definition mtrans_perm (t t' : mtrans) : Prop :=
  Permutation (m_s t) (m_s t') /\ Permutation (m_a t) (m_a t') /\ Permutation (m_s' t) (m_s' t') /\
  m_r t = m_r t' /\ m_d t = m_d t' /\
  NoDup (map fst (m_s t)) /\ NoDup (map fst (m_a t)) /\ NoDup (map fst (m_s' t)).

Lemma next_actions_perm (s s' : adict) : NoDup (map fst s) -> Permutation s s' ->
  next_actions ids PiT s = next_actions ids PiT s'.
Proof.
  intros Hnd Hp. unfold next_actions. f_equal. apply map_ext. intros a. rewrite (lookup_perm a s s'); auto.
Qed.

Lemma mrow_of_perm t t' : mtrans_perm t t' -> mrow_of ids PiT Crit CritT t = mrow_of ids PiT Crit CritT t'.
Proof.
  intros (Hs & Ha & Hs' & Hr & Hd & Ns & Na & Ns'). unfold mrow_of.
  rewrite (stack_ids_perm ids _ _ Ns Hs), (stack_ids_perm ids _ _ Na Ha), (stack_ids_perm ids _ _ Ns' Hs'),
          (next_actions_perm _ _ Ns' Hs'), Hr, Hd. reflexivity.
Qed.

Lemma ma_loss_key_order_independent g batch batch' :
  Forall2 mtrans_perm batch batch' ->
  ma_loss_net ids PiT Crit CritT g batch = ma_loss_net ids PiT Crit CritT g batch'.
Proof.
  intros H. unfold ma_loss_net. f_equal.
  induction H as [|t t' l l' Ht _ IH]; cbn; [reflexivity|]. rewrite (mrow_of_perm t t' Ht), IH. reflexivity.
Qed.

(* when every action dictionary is in agent_ids order the pinned code computes the same loss *)
Lemma ma_loss_pinned_canonical g batch :
  Forall (fun t => map fst (m_a t) = ids /\ NoDup ids) batch ->
  ma_loss_net_pinned ids PiT Crit CritT g batch = ma_loss_net ids PiT Crit CritT g batch.
Proof.
  intros H. unfold ma_loss_net_pinned, ma_loss_net. f_equal.
  induction H as [|t l [Hk Hnd] _ IH]; cbn; [reflexivity|]. rewrite IH. f_equal.
  unfold mrow_of_pinned, mrow_of. rewrite stack_values_canonical by (rewrite Hk; exact Hnd). rewrite Hk. reflexivity.
Qed.
End MultiAgentNetsProofs.

(* ---- MATD3 counters: all agents' counters stay equal, so gating on the last agent's counter is gating on any *)
Definition counters_all (c : nat) (cs : list (nat * nat)) : Prop := Forall (fun p => snd p = c) cs.

Lemma matd3_counters_step_all c cs : counters_all c cs -> counters_all (S c) (matd3_counters_step cs).
Proof.
  unfold counters_all, matd3_counters_step. intros H. induction H as [|p l Hp _ IH]; cbn; constructor; auto.
  cbn. now rewrite Hp.
Qed.

Lemma matd3_counters_iter_all c cs k : counters_all c cs -> counters_all (k + c) (Nat.iter k matd3_counters_step cs).
Proof. intros H. induction k as [|k IH]; cbn; auto. apply matd3_counters_step_all. exact IH. Qed.

Lemma matd3_gate_all pf c cs : cs <> [] -> counters_all c cs -> matd3_gate pf cs = (c mod pf =? 0)%nat.
Proof.
  intros Hne H. unfold matd3_gate. destruct (rev cs) as [|p r] eqn:E.
  - exfalso. apply Hne. apply (f_equal (@rev _)) in E. rewrite rev_involutive in E. exact E.
  - assert (Hin : In p cs) by (apply in_rev; rewrite E; left; reflexivity).
    unfold counters_all in H. rewrite Forall_forall in H. rewrite (H p Hin). reflexivity.
Qed.

(* after k learn calls from equal counters c the gate is exactly the single-agent delay condition of delayed_soft *)
Lemma matd3_gate_is_delay pf c cs k : cs <> [] -> counters_all c cs ->
  matd3_gate pf (Nat.iter k matd3_counters_step cs) = ((k + c) mod pf =? 0)%nat.
Proof.
  intros Hne H. apply matd3_gate_all.
  - clear H. induction k as [|k IH]; cbn; auto. unfold matd3_counters_step. intro E. apply map_eq_nil in E. auto.
  - apply matd3_counters_iter_all. exact H.
Qed.
