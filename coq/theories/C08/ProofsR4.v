(* C08 — round 4: learn() must not write into the experiences it is handed.  Model of the seeded change u2
   (CQN: q_target = rewards.addcmul_(q_target_next, 1 - dones, value=gamma)) on a batch whose storage is seen again. *)
From Coq Require Import List QArith Lqa.
Import ListNotations.
From AgileV Require Import C08.Model C08.Proofs.
Local Open Scope Q_scope.

(* the reward cell of one transition after the learn calls whose next values were [qs], when every call accumulates
   its Bellman target into the caller's reward tensor *)
Definition stored_reward_inplace (g r d : Q) (qs : list Q) : Q := fold_left (fun r' q => bellman r' g d q) qs r.
(* the repaired / original code never writes: the stored reward stays r *)
Definition stored_reward_pure (g r d : Q) (qs : list Q) : Q := r.

(* target used by the (k+1)-th call on the same storage *)
Definition target_inplace (g r d : Q) (qs : list Q) (q : Q) : Q := bellman (stored_reward_inplace g r d qs) g d q.
Definition target_pure (g r d : Q) (qs : list Q) (q : Q) : Q := bellman (stored_reward_pure g r d qs) g d q.

Lemma stored_reward_inplace_closed g d : forall qs r,
  stored_reward_inplace g r d qs == r + g * (1 - d) * psum qs.
Proof.
  unfold stored_reward_inplace, psum. induction qs as [|q qs IH]; intros r; cbn [fold_left fold_right]; [ring|].
  rewrite IH. unfold bellman. ring.
Qed.

(* every sweep of the pure code uses the defined target, whatever was learned before *)
Lemma target_pure_is_bellman g r d qs q : target_pure g r d qs q == bellman r g d q.
Proof. reflexivity. Qed.

(* the in-place code: r + gamma (1-d) (Q'_1 + ... + Q'_k) + gamma (1-d) Q'_new; terminal transitions unaffected *)
Lemma target_inplace_closed g r d qs q :
  target_inplace g r d qs q == bellman r g d q + g * (1 - d) * psum qs.
Proof. unfold target_inplace, bellman. rewrite stored_reward_inplace_closed. ring. Qed.

Lemma target_inplace_terminal g r d qs q : d == 1 -> target_inplace g r d qs q == r.
Proof. intros H. rewrite target_inplace_closed. unfold bellman. rewrite H. ring. Qed.

Lemma target_inplace_first_use g r d q : target_inplace g r d [] q == bellman r g d q.
Proof. rewrite target_inplace_closed. unfold psum. cbn. ring. Qed.

Lemma target_inplace_refuted_lemma :
  exists g r d q1 q2, ~ target_inplace g r d [q1] q2 == bellman r g d q2.
Proof. exists 1, 0, 0, 1, 1. vm_compute. discriminate. Qed.
