(* C08 — round 5: a learn() call that raises is a no-op for the target tracking; the seeded change v2 (phase counter
   advanced before the call can fail) is not. *)
From Coq Require Import List QArith Arith Bool Lia.
Import ListNotations.
From AgileV Require Import C08.Model C08.Proofs.
Local Open Scope Q_scope.

(* one call of a history: it either completes (online weights after its optimiser step) or raises *)
Inductive call := Done (online : list Q) | Raised.

(* the code as it is: counter and targets are touched only by a call that completes *)
Fixpoint run_calls (tau : Q) (pf counter : nat) (target : list Q) (cs : list call) : nat * list Q :=
  match cs with
  | [] => (counter, target)
  | Done e :: rest => let '(c, t) := delayed_soft tau pf counter e target in run_calls tau pf c t rest
  | Raised :: rest => run_calls tau pf counter target rest
  end.

(* v2: learn_counter += 1 (and the phase test) at the top of learn(): a call that raises has already advanced it *)
Fixpoint run_calls_v2 (tau : Q) (pf counter : nat) (target : list Q) (cs : list call) : nat * list Q :=
  match cs with
  | [] => (counter, target)
  | Done e :: rest => let '(c, t) := delayed_soft tau pf counter e target in run_calls_v2 tau pf c t rest
  | Raised :: rest => run_calls_v2 tau pf (S counter) target rest
  end.

Fixpoint completed (cs : list call) : list (list Q) :=
  match cs with [] => [] | Done e :: rest => e :: completed rest | Raised :: rest => completed rest end.

Lemma run_soft_counter tau pf : forall es c t,
  run_calls tau pf c t (map Done es) = (c + length es, run_soft tau pf c t es)%nat.
Proof.
  induction es as [|e es IH]; intros c t; cbn [map run_calls run_soft length].
  - rewrite Nat.add_0_r. reflexivity.
  - unfold delayed_soft. rewrite IH. f_equal. lia.
Qed.

(* failed calls are no-ops: the history behaves exactly like the history without them *)
Lemma failed_calls_are_noops_lemma tau pf : forall cs c t,
  run_calls tau pf c t cs = (c + length (completed cs), run_soft tau pf c t (completed cs))%nat.
Proof.
  induction cs as [|[e|] cs IH]; intros c t; cbn [run_calls completed length run_soft].
  - rewrite Nat.add_0_r. reflexivity.
  - unfold delayed_soft. rewrite IH. f_equal. lia.
  - apply IH.
Qed.

(* v2 is not: policy_freq 2, one failed call first, then two completed calls — the target is updated by the FIRST
   completed call (counter 2) instead of the second *)
Lemma v2_shifts_phase_refuted_lemma :
  exists tau pf t e1 e2,
    snd (run_calls tau pf 0 t [Raised; Done e1; Done e2]) <> snd (run_calls_v2 tau pf 0 t [Raised; Done e1; Done e2]) /\
    snd (run_calls tau pf 0 t [Done e1; Done e2]) = snd (run_calls_v2 tau pf 0 t [Done e1; Done e2]).
Proof. exists 1, 2%nat, [0], [1], [2]. split; [vm_compute; discriminate|reflexivity]. Qed.

(* without failed calls v2 is the same function (why uninterrupted training is bit-identical) *)
Lemma v2_same_without_failures tau pf : forall es c t,
  run_calls_v2 tau pf c t (map Done es) = run_calls tau pf c t (map Done es).
Proof.
  induction es as [|e es IH]; intros c t; cbn [map run_calls run_calls_v2]; [reflexivity|].
  destruct (delayed_soft tau pf c e t) as [c' t']. apply IH.
Qed.
