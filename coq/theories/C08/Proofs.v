(* C08 — lemmas and proofs about C08/Model.v (all unbounded: induction over batches, cells, learn steps). *)
From Coq Require Import List QArith Qminmax Qabs Qround ZArith Bool Arith Lia Lqa Setoid Morphisms.
Import ListNotations.
From AgileV Require Import C08.Model.
Local Open Scope Q_scope.

(* ================================================================ sums and means respect == *)
Lemma qsum_nil : qsum [] = 0.
Proof. reflexivity. Qed.

Lemma qsum_cons x l : qsum (x :: l) == x + qsum l.
Proof. unfold qsum. cbn [fold_right]. apply Qred_correct. Qed.

Lemma qsum_plain l : qsum l == fold_right Qplus 0 l.
Proof. induction l as [|x l IH]; [reflexivity|]. rewrite qsum_cons, IH. reflexivity. Qed.

Lemma qsum_compat l m : Forall2 Qeq l m -> qsum l == qsum m.
Proof. induction 1 as [|x y l m Hxy _ IH]; [reflexivity|]. rewrite !qsum_cons, Hxy, IH. reflexivity. Qed.

Lemma Forall2_len {A B} (R : A -> B -> Prop) l m : Forall2 R l m -> length l = length m.
Proof. induction 1; cbn; auto. Qed.

Lemma qmean_compat l m : Forall2 Qeq l m -> qmean l == qmean m.
Proof.
  intros H. unfold qmean, qlen. rewrite (qsum_compat _ _ H), (Forall2_len _ _ _ H). reflexivity.
Qed.

Lemma map2_map {A B C D E} (f : C -> D -> E) (g : A -> C) (h : B -> D) l m :
  map2 f (map g l) (map h m) = map2 (fun a b => f (g a) (h b)) l m.
Proof. revert m; induction l as [|a l IH]; intros [|b m]; cbn; auto. now rewrite IH. Qed.

Lemma map2_same {A C} (f : A -> A -> C) l : map2 f l l = map (fun a => f a a) l.
Proof. induction l; cbn; auto. now rewrite IHl. Qed.

Lemma map2_map_same {A C D E} (f : C -> D -> E) (g : A -> C) (h : A -> D) l :
  map2 f (map g l) (map h l) = map (fun a => f (g a) (h a)) l.
Proof. rewrite map2_map. apply map2_same. Qed.

Lemma Forall2_map2 {A B A' B'} (R : Q -> Q -> Prop) (f : A -> B -> Q) (f' : A' -> B' -> Q)
      (RA : A -> A' -> Prop) (RB : B -> B' -> Prop) :
  (forall a a' b b', RA a a' -> RB b b' -> R (f a b) (f' a' b')) ->
  forall l l' m m', Forall2 RA l l' -> Forall2 RB m m' -> Forall2 R (map2 f l m) (map2 f' l' m').
Proof.
  intros Hf l l' m m' Hl; revert m m'. induction Hl; intros m m' Hm; destruct Hm; cbn; constructor; auto.
Qed.

Lemma Forall2_map {A B} (R : Q -> Q -> Prop) (RA : A -> B -> Prop) (f : A -> Q) (g : B -> Q) l m :
  (forall a b, RA a b -> R (f a) (g b)) -> Forall2 RA l m -> Forall2 R (map f l) (map g m).
Proof. intros Hf H; induction H; cbn; constructor; auto. Qed.

Lemma Forall2_refl_Qeq l : Forall2 Qeq l l.
Proof. induction l; constructor; auto. reflexivity. Qed.

Lemma mse_compat xs xs' ys ys' : Forall2 Qeq xs xs' -> Forall2 Qeq ys ys' -> mse xs ys == mse xs' ys'.
Proof.
  intros Hx Hy. unfold mse. apply qmean_compat.
  eapply Forall2_map2 with (RA := Qeq) (RB := Qeq); eauto.
  intros a a' b b' Ha Hb. unfold sq. rewrite Ha, Hb. reflexivity.
Qed.

(* ================================================================ Bellman target *)
Lemma bellman_done r g d q : d == 1 -> bellman r g d q == r.
Proof. intros H. unfold bellman. rewrite H. ring. Qed.

Lemma bellman_ac_done r g d q : d == 1 -> bellman_ac r g d q == r.
Proof. intros H. unfold bellman_ac. rewrite H. ring. Qed.

Lemma bellman_done_any r g d q q' : d == 1 -> bellman r g d q == bellman r g d q'.
Proof. intros H. now rewrite !bellman_done. Qed.

Lemma bellman_not_done r g q : bellman r g 0 q == r + g * q.
Proof. unfold bellman. ring. Qed.

Lemma bellman_forms_agree r g d q : bellman r g d q == bellman_ac r g d q.
Proof. unfold bellman, bellman_ac. ring. Qed.

(* ================================================================ max / argmax / min over a row *)
Lemma qmax_from_spec : forall l best,
  (qmax_from best l = best \/ In (qmax_from best l) l) /\
  best <= qmax_from best l /\ Forall (fun x => x <= qmax_from best l) l.
Proof.
  induction l as [|y t IH]; intros best; cbn.
  - split; [left; reflexivity|]. split; [apply Qle_refl|constructor].
  - destruct (Qle_bool y best) eqn:E.
    + apply Qle_bool_iff in E. destruct (IH best) as (Hin & Hb & Hall).
      split; [destruct Hin; auto|]. split; auto. constructor; auto. eapply Qle_trans; eauto.
    + assert (Hlt : best < y).
      { apply Qnot_le_lt. intro Hc. apply Qle_bool_iff in Hc. congruence. }
      destruct (IH y) as (Hin & Hb & Hall).
      split; [destruct Hin as [->|]; auto|]. split; [|constructor; auto].
      eapply Qle_trans; [apply Qlt_le_weak; eauto|auto].
Qed.

Lemma qmax_list_spec l : l <> [] ->
  In (qmax_list l) l /\ Forall (fun x => x <= qmax_list l) l.
Proof.
  destruct l as [|x t]; [congruence|]. intros _. cbn [qmax_list].
  destruct (qmax_from_spec t x) as (Hin & Hb & Hall).
  split; [destruct Hin as [->|]; cbn; auto|]. constructor; auto.
Qed.

Lemma qmin_from_spec : forall l best,
  (qmin_from best l = best \/ In (qmin_from best l) l) /\
  qmin_from best l <= best /\ Forall (fun x => qmin_from best l <= x) l.
Proof.
  induction l as [|y t IH]; intros best; cbn.
  - split; [left; reflexivity|]. split; [apply Qle_refl|constructor].
  - destruct (Qle_bool best y) eqn:E.
    + apply Qle_bool_iff in E. destruct (IH best) as (Hin & Hb & Hall).
      split; [destruct Hin; auto|]. split; auto. constructor; auto. eapply Qle_trans; eauto.
    + assert (Hlt : y < best).
      { apply Qnot_le_lt. intro Hc. apply Qle_bool_iff in Hc. congruence. }
      destruct (IH y) as (Hin & Hb & Hall).
      split; [destruct Hin as [->|]; auto|]. split; [|constructor; auto].
      eapply Qle_trans; [eauto|apply Qlt_le_weak; auto].
Qed.

Lemma qmin_list_spec l : l <> [] ->
  In (qmin_list l) l /\ Forall (fun x => qmin_list l <= x) l.
Proof.
  destruct l as [|x t]; [congruence|]. intros _. cbn [qmin_list].
  destruct (qmin_from_spec t x) as (Hin & Hb & Hall).
  split; [destruct Hin as [->|]; cbn; auto|]. constructor; auto.
Qed.

(* argmax_from scans [l] (whose first element has index i) with the best value so far at index bi *)
Lemma argmax_from_spec : forall l best bi i (pre : list Q),
  length pre = i -> (bi < i)%nat -> nth bi pre 0 = best ->
  (forall j, (j < i)%nat -> nth j pre 0 <= best) ->
  (forall j, (j < bi)%nat -> nth j pre 0 < best) ->
  let k := argmax_from best bi i l in
  let all := pre ++ l in
  (k < length all)%nat /\
  (forall j, (j < length all)%nat -> nth j all 0 <= nth k all 0) /\
  (forall j, (j < k)%nat -> nth j all 0 < nth k all 0).
Proof.
  induction l as [|y t IH]; intros best bi i pre Hlen Hbi Hnth Hmax Hfirst; cbn zeta.
  - cbn [argmax_from]. rewrite app_nil_r. rewrite Hlen. split; [auto|].
    rewrite Hnth. split; auto.
  - cbn [argmax_from].
    replace (pre ++ y :: t) with ((pre ++ [y]) ++ t) by (rewrite <- app_assoc; reflexivity).
    destruct (Qle_bool y best) eqn:E.
    + apply Qle_bool_iff in E.
      apply IH; try (rewrite ?app_length; cbn [length]; lia).
      * rewrite app_nth1; [auto|lia].
      * intros j Hj. destruct (Nat.eq_dec j i) as [->|Hne].
        -- rewrite app_nth2, Hlen, Nat.sub_diag; [auto|lia].
        -- rewrite app_nth1; [apply Hmax|]; lia.
      * intros j Hj. rewrite app_nth1; [auto|lia].
    + assert (Hlt : best < y).
      { apply Qnot_le_lt. intro Hc. apply Qle_bool_iff in Hc. congruence. }
      apply IH; try (rewrite ?app_length; cbn [length]; lia).
      * rewrite app_nth2, Hlen, Nat.sub_diag; [reflexivity|lia].
      * intros j Hj. destruct (Nat.eq_dec j i) as [->|Hne].
        -- rewrite app_nth2, Hlen, Nat.sub_diag; [apply Qle_refl|lia].
        -- rewrite app_nth1 by lia. eapply Qle_trans; [apply Hmax; lia|apply Qlt_le_weak; auto].
      * intros j Hj. rewrite app_nth1 by lia. eapply Qle_lt_trans; [apply Hmax; lia|auto].
Qed.

Lemma argmax_spec l : l <> [] ->
  (argmax l < length l)%nat /\
  (forall j, (j < length l)%nat -> nthq l j <= nthq l (argmax l)) /\
  (forall j, (j < argmax l)%nat -> nthq l j < nthq l (argmax l)).
Proof.
  destruct l as [|x t]; [congruence|]. intros _. unfold nthq, argmax.
  apply (argmax_from_spec t x 0%nat 1%nat [x]); cbn; auto; try lia.
  intros [|j] Hj; [apply Qle_refl|lia].
Qed.

(* ================================================================ the loss is the defining expression *)
Lemma dqn_loss_is_def g double rows :
  dqn_loss g double rows ==
  qmean (map (fun x => sq (nthq (d_qe x) (d_a x) - (d_r x + g * (1 - d_d x) * dqn_next double x))) rows).
Proof.
  unfold dqn_loss, mse. rewrite map2_map_same. apply qmean_compat.
  apply Forall2_map with (RA := eq); [|clear; induction rows; constructor; auto].
  intros a b <-. unfold dqn_qeval, dqn_y, bellman, sq.
  assert (H : d_r a + g * dqn_next double a * (1 - d_d a) == d_r a + g * (1 - d_d a) * dqn_next double a) by ring.
  rewrite H. reflexivity.
Qed.

Lemma dqn_next_plain_is_max x : d_qtn x <> [] ->
  In (dqn_next false x) (d_qtn x) /\ Forall (fun q => q <= dqn_next false x) (d_qtn x).
Proof. apply qmax_list_spec. Qed.

Lemma dqn_next_double_is_target_at_online_argmax x : d_qon x <> [] ->
  dqn_next true x = nthq (d_qtn x) (argmax (d_qon x)) /\
  forall j, (j < length (d_qon x))%nat -> nthq (d_qon x) j <= nthq (d_qon x) (argmax (d_qon x)).
Proof. intros H. split; [reflexivity|]. apply argmax_spec; auto. Qed.

Lemma cqn_loss_is_def g double rows lse :
  cqn_loss g double rows lse == (qmean lse - qmean (concat (map d_qe rows))) + (1 # 2) * dqn_loss g double rows.
Proof. reflexivity. Qed.

Lemma ac_loss_one g rows : ac_loss g 1 rows == mse (map (fun x => nthq (a_qs x) 0) rows) (map (ac_y g) rows).
Proof. unfold ac_loss. cbn [seq map]. rewrite qsum_cons, qsum_nil. unfold ac_loss_k. ring. Qed.

Lemma ac_loss_two g rows :
  ac_loss g 2 rows == mse (map (fun x => nthq (a_qs x) 0) rows) (map (ac_y g) rows)
                    + mse (map (fun x => nthq (a_qs x) 1) rows) (map (ac_y g) rows).
Proof. unfold ac_loss. cbn [seq map]. rewrite !qsum_cons, qsum_nil. unfold ac_loss_k. ring. Qed.

Lemma ac_y_uses_min g x : a_qns x <> [] ->
  ac_y g x == a_r x + (1 - a_d x) * g * qmin_list (a_qns x) /\
  In (qmin_list (a_qns x)) (a_qns x) /\ Forall (fun q => qmin_list (a_qns x) <= q) (a_qns x).
Proof. intros H. split; [reflexivity|]. apply qmin_list_spec; auto. Qed.

(* ================================================================ done masks the next observation *)
(* two evaluated rows that agree on everything but — where done = 1 — the next-state tables *)
Definition drow_same_but_next (x x' : drow) : Prop :=
  d_qe x = d_qe x' /\ d_a x = d_a x' /\ d_r x = d_r x' /\ d_d x = d_d x' /\
  (d_d x == 1 \/ (d_qon x = d_qon x' /\ d_qtn x = d_qtn x')).

Lemma dqn_y_masked g double x x' : drow_same_but_next x x' -> dqn_y g double x == dqn_y g double x'.
Proof.
  intros (He & Ha & Hr & Hd & [H1 | [Ho Ht]]); unfold dqn_y.
  - rewrite <- Hr, <- Hd. apply bellman_done_any; auto.
  - unfold dqn_next. rewrite Hr, Hd, Ho, Ht. reflexivity.
Qed.

Lemma dqn_done_masks_rows g double rows rows' :
  Forall2 drow_same_but_next rows rows' -> dqn_loss g double rows == dqn_loss g double rows'.
Proof.
  intros H. unfold dqn_loss. apply mse_compat.
  - eapply Forall2_map; [|exact H]. intros a b (He & Ha & _). unfold dqn_qeval. rewrite He, Ha. reflexivity.
  - eapply Forall2_map; [|exact H]. intros a b Hab. apply dqn_y_masked; auto.
Qed.

Lemma cqn_done_masks_rows g double rows rows' lse :
  Forall2 drow_same_but_next rows rows' -> cqn_loss g double rows lse == cqn_loss g double rows' lse.
Proof.
  intros H. unfold cqn_loss. rewrite (dqn_done_masks_rows _ _ _ _ H).
  assert (E : map d_qe rows = map d_qe rows').
  { clear -H. induction H as [|a b l m (He & _) _ IH]; cbn; [auto|]. now rewrite He, IH. }
  rewrite E. reflexivity.
Qed.

Definition arow_same_but_next (x x' : arow) : Prop :=
  a_qs x = a_qs x' /\ a_r x = a_r x' /\ a_d x = a_d x' /\ (a_d x == 1 \/ a_qns x = a_qns x').

Lemma ac_y_masked g x x' : arow_same_but_next x x' -> ac_y g x == ac_y g x'.
Proof.
  intros (Hq & Hr & Hd & [H1 | Hn]); unfold ac_y.
  - rewrite !bellman_ac_done; auto; [rewrite Hr; reflexivity | rewrite <- Hd; auto].
  - rewrite Hr, Hd, Hn. reflexivity.
Qed.

Lemma ac_done_masks_rows g n rows rows' :
  Forall2 arow_same_but_next rows rows' -> ac_loss g n rows == ac_loss g n rows'.
Proof.
  intros H. unfold ac_loss. apply qsum_compat.
  induction (seq 0 n) as [|k ks IH]; cbn; constructor; auto.
  unfold ac_loss_k. apply mse_compat.
  - eapply Forall2_map; [|exact H]. intros a b (Hq & _). rewrite Hq. reflexivity.
  - eapply Forall2_map; [|exact H]. intros a b Hab. apply ac_y_masked; auto.
Qed.

(* ---- the same, over arbitrary networks: replacing next_obs where done = 1 does not change the loss *)
Section DiscreteNetsProofs.
Variable Obs : Type.
Variables (Qon Qtg : Obs -> list Q).

Lemma drow_of_replace alt t :
  drow_same_but_next (drow_of Obs Qon Qtg (dreplace_next Obs alt t)) (drow_of Obs Qon Qtg t).
Proof.
  unfold dreplace_next. destruct (Qeq_bool (t_d Obs t) 1) eqn:E.
  - apply Qeq_bool_iff in E. repeat split; cbn; auto.
  - repeat split; cbn; auto.
Qed.

Lemma dqn_done_masks_next_net g double alt batch :
  dqn_loss_net Obs Qon Qtg g double (map (dreplace_next Obs alt) batch) == dqn_loss_net Obs Qon Qtg g double batch.
Proof.
  unfold dqn_loss_net. apply dqn_done_masks_rows. rewrite map_map.
  induction batch; cbn; constructor; auto. apply drow_of_replace.
Qed.

Lemma dreplace_keeps_obs alt batch :
  map (t_s Obs) (map (dreplace_next Obs alt) batch) = map (t_s Obs) batch.
Proof.
  rewrite map_map. apply map_ext. intros t. unfold dreplace_next. destruct (Qeq_bool _ _); reflexivity.
Qed.

Lemma cqn_done_masks_next_net g double alt batch lse :
  cqn_loss_net Obs Qon Qtg g double (map (dreplace_next Obs alt) batch) lse == cqn_loss_net Obs Qon Qtg g double batch lse.
Proof.
  unfold cqn_loss_net.
  assert (E : map (fun t => lse (t_s Obs t)) (map (dreplace_next Obs alt) batch) = map (fun t => lse (t_s Obs t)) batch).
  { rewrite map_map. apply map_ext. intros t. unfold dreplace_next. destruct (Qeq_bool _ _); reflexivity. }
  rewrite E. clear E. apply cqn_done_masks_rows. rewrite map_map.
  induction batch; cbn; constructor; auto. apply drow_of_replace.
Qed.
End DiscreteNetsProofs.

Section ActorCriticNetsProofs.
Variable Obs : Type.
Variable PiT : Obs -> list Q.
Variables (Crit CritT : list (Obs -> list Q -> Q)).
Variables (c : Q) (lo hi : list Q).

Lemma arow_of_replace alt t :
  arow_same_but_next (arow_of Obs PiT Crit CritT c lo hi (areplace_next Obs alt t)) (arow_of Obs PiT Crit CritT c lo hi t).
Proof.
  unfold areplace_next. destruct (Qeq_bool (u_d Obs t) 1) eqn:E.
  - apply Qeq_bool_iff in E. repeat split; cbn; auto.
  - repeat split; cbn; auto.
Qed.

Lemma ac_done_masks_next_net g alt batch :
  ac_loss_net Obs PiT Crit CritT c lo hi g (map (areplace_next Obs alt) batch) == ac_loss_net Obs PiT Crit CritT c lo hi g batch.
Proof.
  unfold ac_loss_net. apply ac_done_masks_rows. rewrite map_map.
  induction batch; cbn; constructor; auto. apply arow_of_replace.
Qed.
End ActorCriticNetsProofs.

(* ================================================================ clamps *)
Lemma clamp_arr_in_box lo hi x : lo <= hi -> lo <= clamp_arr lo hi x /\ clamp_arr lo hi x <= hi.
Proof.
  intros H. unfold clamp_arr. split; [apply Q.le_max_r|].
  apply Q.max_lub; auto. apply Q.le_min_r.
Qed.

Lemma clamp_forms_agree lo hi x : lo <= hi -> clamp_arr lo hi x == clamp_sc lo hi x.
Proof.
  intros H. unfold clamp_arr, clamp_sc.
  pose proof (Q.min_spec x hi) as B. pose proof (Q.max_spec (Qmin x hi) lo) as A.
  pose proof (Q.max_spec x lo) as D. pose proof (Q.min_spec (Qmax x lo) hi) as C.
  set (m1 := Qmin x hi) in *. set (M1 := Qmax m1 lo) in *.
  set (M2 := Qmax x lo) in *. set (m2 := Qmin M2 hi) in *. clearbody M1 m2. clearbody m1 M2.
  destruct A as [[? ?]|[? ?]], B as [[? ?]|[? ?]], C as [[? ?]|[? ?]], D as [[? ?]|[? ?]]; lra.
Qed.

Lemma next_action_in_box c : forall lo hi pi noise,
  Forall2 Qle lo hi -> length pi = length lo -> length noise = length lo ->
  Forall2 Qle lo (next_action c lo hi pi noise) /\ Forall2 Qle (next_action c lo hi pi noise) hi.
Proof.
  intros lo hi pi noise H; revert pi noise.
  induction H as [|l h lo hi Hlh Hrest IH]; intros pi noise Hp Hn.
  - destruct pi, noise; cbn; split; constructor.
  - destruct pi as [|p pi]; [discriminate|]. destruct noise as [|n noise]; [discriminate|].
    cbn [length] in Hp, Hn. injection Hp as Hp. injection Hn as Hn. cbn [next_action].
    destruct (IH pi noise Hp Hn) as [A B].
    destruct (clamp_arr_in_box l h (p + clamp_sc (- c) c n) Hlh) as [C D].
    split; constructor; auto.
Qed.

(* ================================================================ soft update *)
Lemma soft_zip_length tau : forall online target, length (soft_zip tau online target) = length target.
Proof. induction online as [|e es IH]; intros [|t ts]; cbn; auto. Qed.

Lemma soft_zip_nth tau : forall online target i e t,
  nth_error online i = Some e -> nth_error target i = Some t ->
  nth_error (soft_zip tau online target) i = Some (lerp tau e t).
Proof.
  induction online as [|e0 es IH]; intros target i e t He Ht; [destruct i; discriminate|].
  destruct target as [|t0 ts]; [destruct i; discriminate|]. destruct i as [|i]; cbn in *.
  - injection He as <-. injection Ht as <-. reflexivity.
  - apply IH; auto.
Qed.

Lemma soft_zip_beyond tau : forall online target i,
  (length online <= i)%nat -> nth_error (soft_zip tau online target) i = nth_error target i.
Proof.
  induction online as [|e0 es IH]; intros target i H.
  - destruct target; reflexivity.
  - destruct target as [|t0 ts]; [reflexivity|]. destruct i as [|i]; cbn in *; [lia|]. apply IH; lia.
Qed.

Lemma soft_zip_nil_target tau online : soft_zip tau online [] = [].
Proof. destruct online; reflexivity. Qed.

Lemma soft_zip_nil_online tau target : soft_zip tau [] target = target.
Proof. reflexivity. Qed.

(* every cell of the target network: tau * online + (1 - tau) * previous; hidden cells and the online net untouched *)
Lemma soft_update_spec_lemma tau online target :
  length (exposed online) = length (exposed target) ->
  (forall i e t, nth_error (exposed online) i = Some e -> nth_error (exposed target) i = Some t ->
                 nth_error (exposed (soft_update tau online target)) i = Some (lerp tau e t)) /\
  length (exposed (soft_update tau online target)) = length (exposed target) /\
  hidden (soft_update tau online target) = hidden target.
Proof.
  intros _. split; [|split]; cbn.
  - intros. apply soft_zip_nth; auto.
  - apply soft_zip_length.
  - reflexivity.
Qed.

Lemma lerp_tau_one e t : lerp 1 e t == e.
Proof. unfold lerp. ring. Qed.

Lemma lerp_tau_zero e t : lerp 0 e t == t.
Proof. unfold lerp. ring. Qed.

Lemma lerp_fixpoint tau e : lerp tau e e == e.
Proof. unfold lerp. ring. Qed.

(* the distance to the online value shrinks by the factor (1 - tau): the target really tracks *)
Lemma lerp_contracts tau e t : lerp tau e t - e == (1 - tau) * (t - e).
Proof. unfold lerp. ring. Qed.

Lemma lerp_between tau e t : 0 <= tau -> tau <= 1 -> Qmin e t <= lerp tau e t /\ lerp tau e t <= Qmax e t.
Proof.
  intros H0 H1. unfold lerp.
  assert (A : Qmin e t <= e) by apply Q.le_min_l. assert (B : Qmin e t <= t) by apply Q.le_min_r.
  assert (C : e <= Qmax e t) by apply Q.le_max_l. assert (D : t <= Qmax e t) by apply Q.le_max_r.
  set (m := Qmin e t) in *. set (M := Qmax e t) in *. clearbody m M.
  split.
  - assert (X : 0 <= tau * (e - m)) by (apply Qmult_le_0_compat; lra).
    assert (Y : 0 <= (1 - tau) * (t - m)) by (apply Qmult_le_0_compat; lra). lra.
  - assert (X : 0 <= tau * (M - e)) by (apply Qmult_le_0_compat; lra).
    assert (Y : 0 <= (1 - tau) * (M - t)) by (apply Qmult_le_0_compat; lra). lra.
Qed.

Lemma soft_zip_tau_one : forall online target, length online = length target ->
  Forall2 Qeq (soft_zip 1 online target) online.
Proof.
  induction online as [|e es IH]; intros [|t ts] L; try discriminate; cbn; constructor.
  - apply lerp_tau_one.
  - apply IH. cbn in L. congruence.
Qed.

(* ---- k consecutive learn steps: per cell, the k-fold recurrence and its closed form *)
Fixpoint qpow (x : Q) (n : nat) : Q := match n with O => 1 | S m => x * qpow x m end.
Definition cell_run (tau t : Q) (es : list Q) : Q := fold_left (fun t e => lerp tau e t) es t.
Fixpoint wsum (tau : Q) (es : list Q) : Q :=
  match es with [] => 0 | e :: rest => tau * qpow (1 - tau) (length rest) * e + wsum tau rest end.

Lemma cell_run_closed tau : forall es t, cell_run tau t es == qpow (1 - tau) (length es) * t + wsum tau es.
Proof.
  induction es as [|e rest IH]; intros t; cbn.
  - ring.
  - unfold cell_run in IH. rewrite IH. unfold lerp. ring.
Qed.

Lemma delayed_soft_pf1 tau c online target : snd (delayed_soft tau 1 c online target) = soft_zip tau online target.
Proof. unfold delayed_soft. cbn. reflexivity. Qed.

(* nth cell of the run = the cell recurrence over that cell's online values *)
Lemma run_soft_pf1_cell tau : forall onlines c target i t,
  nth_error target i = Some t ->
  Forall (fun e => (i < length e)%nat) onlines ->
  nth_error (run_soft tau 1 c target onlines) i = Some (cell_run tau t (map (fun e => nth i e 0) onlines)).
Proof.
  induction onlines as [|e rest IH]; intros c target i t Ht Hall; cbn [run_soft].
  - cbn. auto.
  - unfold delayed_soft. cbn [Nat.modulo Nat.divmod fst snd]. inversion Hall; subst.
    replace (S c mod 1 =? 0)%nat with true by (symmetry; apply Nat.eqb_eq; apply Nat.mod_1_r).
    cbn [map]. unfold cell_run. cbn [fold_left]. apply IH; auto.
    apply soft_zip_nth; auto. apply nth_error_nth'. auto.
Qed.

(* ---- policy delay: the targets move exactly at the calls whose counter is a multiple of policy_freq *)
Fixpoint select_updates (pf counter : nat) (onlines : list (list Q)) : list (list Q) :=
  match onlines with
  | [] => []
  | e :: rest => if (S counter mod pf =? 0)%nat then e :: select_updates pf (S counter) rest
                 else select_updates pf (S counter) rest
  end.

Lemma run_soft_delay tau pf : forall onlines c target,
  run_soft tau pf c target onlines = fold_left (fun t e => soft_zip tau e t) (select_updates pf c onlines) target.
Proof.
  induction onlines as [|e rest IH]; intros c target; cbn [run_soft select_updates]; [reflexivity|].
  unfold delayed_soft. destruct (S c mod pf =? 0)%nat; cbn [fold_left]; apply IH.
Qed.

Lemma delayed_soft_no_update tau pf c online target :
  (S c mod pf <> 0)%nat -> delayed_soft tau pf c online target = (S c, target).
Proof. intros H. unfold delayed_soft. apply Nat.eqb_neq in H. rewrite H. reflexivity. Qed.

Lemma delayed_soft_update tau pf c online target :
  (S c mod pf = 0)%nat -> delayed_soft tau pf c online target = (S c, soft_zip tau online target).
Proof. intros H. unfold delayed_soft. apply Nat.eqb_eq in H. rewrite H. reflexivity. Qed.

Lemma select_updates_pf1 : forall onlines c, select_updates 1 c onlines = onlines.
Proof.
  induction onlines as [|e rest IH]; intros c; cbn [select_updates]; [reflexivity|].
  replace (S c mod 1 =? 0)%nat with true by (symmetry; apply Nat.eqb_eq; apply Nat.mod_1_r).
  now rewrite IH.
Qed.

Lemma select_updates_length pf : forall onlines c, (0 < pf)%nat ->
  length (select_updates pf c onlines) = ((c + length onlines) / pf - c / pf)%nat.
Proof.
  induction onlines as [|e rest IH]; intros c Hpf; cbn [select_updates length].
  - rewrite Nat.add_0_r. lia.
  - replace (c + S (length rest))%nat with (S c + length rest)%nat by lia.
    assert (Hd : (S c / pf = c / pf + (if (S c mod pf =? 0)%nat then 1 else 0))%nat).
    { pose proof (Nat.div_mod c pf ltac:(lia)) as E1. pose proof (Nat.div_mod (S c) pf ltac:(lia)) as E2.
      pose proof (Nat.mod_upper_bound c pf ltac:(lia)) as B1. pose proof (Nat.mod_upper_bound (S c) pf ltac:(lia)) as B2.
      destruct (S c mod pf =? 0)%nat eqn:E.
      - apply Nat.eqb_eq in E. nia.
      - apply Nat.eqb_neq in E. nia. }
    assert (Hmono : (S c / pf <= (S c + length rest) / pf)%nat) by (apply Nat.div_le_mono; lia).
    destruct (S c mod pf =? 0)%nat; cbn [length]; rewrite IH by auto; lia.
Qed.

(* ---- the pinned DQN: a target whose tensors are not parameters never moves *)
Lemma pinned_target_never_moves tau online w :
  weights (soft_update tau online (pinned_dqn_target w)) = w.
Proof. unfold soft_update, weights. cbn. rewrite soft_zip_nil_target. reflexivity. Qed.

Lemma soft_update_vacuous_refuted_lemma :
  exists online w, length (weights online) = length w /\
    ~ Forall2 Qeq (weights (soft_update 1 online (pinned_dqn_target w))) (weights online).
Proof.
  exists {| exposed := [1]; hidden := [] |}, [0]. split; [reflexivity|].
  rewrite pinned_target_never_moves. cbn. intros H. inversion H; subst. discriminate.
Qed.

(* ================================================================ Rainbow: done masks the next observation *)
Lemma add_at_length : forall l i v, length (add_at i v l) = length l.
Proof. induction l as [|x t IH]; intros [|i] v; cbn; auto. Qed.

Lemma nth_add_at : forall l k i v,
  nth k (add_at i v l) 0 == nth k l 0 + (if ((k =? i) && (i <? length l))%nat then v else 0).
Proof.
  induction l as [|x t IH]; intros k i v.
  - replace (add_at i v []) with (@nil Q) by (destruct i; reflexivity).
    replace (nth k [] 0) with 0 by (destruct k; reflexivity).
    replace (i <? length (@nil Q))%nat with false by (destruct i; reflexivity).
    rewrite andb_false_r. ring.
  - destruct i as [|i], k as [|k]; cbn [add_at nth length].
    + rewrite Qred_correct. cbn. reflexivity.
    + cbn. ring.
    + cbn. ring.
    + rewrite IH. cbn [Nat.eqb]. 
      replace (S i <? S (length t))%nat with (i <? length t)%nat by reflexivity. reflexivity.
Qed.

Definition psum (l : list Q) : Q := fold_right Qplus 0 l.

(* what atom (z, p) of the target distribution adds to cell k of the projection *)
Definition rb_contrib (g vmin vmax dz : Q) (n : nat) (r d : Q) (zp : Q * Q) (k : nat) : Q :=
  let b := rb_b g vmin vmax dz n r d (fst zp) in
  let '(L, u) := rb_lu n b in
  (if ((k =? Z.to_nat L) && (Z.to_nat L <? n))%nat then snd zp * (inject_Z u - b) else 0)
  + (if ((k =? Z.to_nat u) && (Z.to_nat u <? n))%nat then snd zp * (b - inject_Z L) else 0).

Lemma rb_project_fold g vmin vmax dz r d support p :
  rb_project g vmin vmax dz r d support p =
  fold_left (rb_step g vmin vmax dz (length support) r d) (combine support p) (repeat 0 (length support)).
Proof. reflexivity. Qed.

Lemma rb_step_length g vmin vmax dz n r d acc zp : length (rb_step g vmin vmax dz n r d acc zp) = length acc.
Proof. unfold rb_step. destruct (rb_lu _ _) as [L u]. now rewrite !add_at_length. Qed.

Lemma rb_step_nth g vmin vmax dz n r d acc zp k : length acc = n ->
  nth k (rb_step g vmin vmax dz n r d acc zp) 0 == nth k acc 0 + rb_contrib g vmin vmax dz n r d zp k.
Proof.
  intros Hn. unfold rb_step, rb_contrib. destruct (rb_lu _ _) as [L u].
  rewrite !nth_add_at, add_at_length, Hn. ring.
Qed.

Section GenericFold.
Variables (A : Type) (f : list Q -> A -> list Q) (c : A -> nat -> Q) (n : nat).
Hypothesis f_len : forall acc x, length (f acc x) = length acc.
Hypothesis f_nth : forall acc x k, length acc = n -> nth k (f acc x) 0 == nth k acc 0 + c x k.

Lemma gfold_length : forall xs acc, length (fold_left f xs acc) = length acc.
Proof. induction xs as [|x t IH]; intros acc; cbn [fold_left]; auto. rewrite IH. apply f_len. Qed.

Lemma gfold_nth k : forall xs acc, length acc = n ->
  nth k (fold_left f xs acc) 0 == nth k acc 0 + psum (map (fun x => c x k) xs).
Proof.
  induction xs as [|x t IH]; intros acc Hn; cbn [fold_left map].
  - unfold psum. cbn [fold_right]. ring.
  - rewrite IH by (rewrite f_len; auto). rewrite f_nth by auto.
    unfold psum. cbn [fold_right]. ring.
Qed.
End GenericFold.

Lemma rb_fold_length g vmin vmax dz n r d : forall zps acc,
  length (fold_left (rb_step g vmin vmax dz n r d) zps acc) = length acc.
Proof. apply gfold_length. intros. apply rb_step_length. Qed.

Lemma rb_fold_nth g vmin vmax dz n r d k : forall zps acc, length acc = n ->
  nth k (fold_left (rb_step g vmin vmax dz n r d) zps acc) 0
  == nth k acc 0 + psum (map (fun zp => rb_contrib g vmin vmax dz n r d zp k) zps).
Proof.
  apply (gfold_nth _ (rb_step g vmin vmax dz n r d) (rb_contrib g vmin vmax dz n r d) n).
  - intros. apply rb_step_length.
  - intros. apply rb_step_nth; auto.
Qed.

Lemma nth_repeat0 k n : nth k (repeat 0 n) 0 = 0.
Proof. revert k; induction n; intros [|k]; cbn; auto. Qed.

(* every cell of the projected distribution is the sum of the atoms' contributions (any done flag) *)
Lemma rb_project_nth g vmin vmax dz r d support p k :
  nth k (rb_project g vmin vmax dz r d support p) 0
  == psum (map (fun zp => rb_contrib g vmin vmax dz (length support) r d zp k) (combine support p)).
Proof.
  rewrite rb_project_fold, rb_fold_nth by apply repeat_length. rewrite nth_repeat0. ring.
Qed.

Lemma clamp_sc_compat lo hi x y : x == y -> clamp_sc lo hi x == clamp_sc lo hi y.
Proof. intros H. unfold clamp_sc. rewrite H. reflexivity. Qed.

(* with done = 1 the position b does not depend on the atom *)
Lemma rb_b_done g vmin vmax dz n r d z : d == 1 -> rb_b g vmin vmax dz n r d z == rb_b g vmin vmax dz n r d 0.
Proof.
  intros H. unfold rb_b. apply clamp_sc_compat.
  assert (E : clamp_sc vmin vmax (r + (1 - d) * g * z) == clamp_sc vmin vmax (r + (1 - d) * g * 0)).
  { apply clamp_sc_compat. rewrite H. ring. }
  rewrite E. reflexivity.
Qed.

Lemma rb_lu_compat n b b' : b == b' -> rb_lu n b = rb_lu n b'.
Proof. intros H. unfold rb_lu. rewrite (Qfloor_comp _ _ H), (Qceiling_comp _ _ H). reflexivity. Qed.

Lemma rb_contrib_done g vmin vmax dz n r d z p k : d == 1 ->
  rb_contrib g vmin vmax dz n r d (z, p) k == p * rb_contrib g vmin vmax dz n r d (0, 1) k.
Proof.
  intros H. unfold rb_contrib. cbn [fst snd].
  pose proof (rb_b_done g vmin vmax dz n r d z H) as Eb.
  rewrite (rb_lu_compat n _ _ Eb). destruct (rb_lu n (rb_b g vmin vmax dz n r d 0)) as [L u].
  destruct ((k =? Z.to_nat L) && (Z.to_nat L <? n))%nat, ((k =? Z.to_nat u) && (Z.to_nat u <? n))%nat;
    rewrite ?Eb; ring.
Qed.

Lemma psum_contrib_done g vmin vmax dz n r d k : d == 1 -> forall support p, length p = length support ->
  psum (map (fun zp => rb_contrib g vmin vmax dz n r d zp k) (combine support p))
  == psum p * rb_contrib g vmin vmax dz n r d (0, 1) k.
Proof.
  intros H. induction support as [|z zs IH]; intros [|p ps] Hl; try discriminate; cbn [combine map psum fold_right].
  - ring.
  - fold (psum (map (fun zp => rb_contrib g vmin vmax dz n r d zp k) (combine zs ps))). fold (psum ps).
    rewrite IH by (cbn in Hl; congruence). rewrite (rb_contrib_done g vmin vmax dz n r d z p k H). ring.
Qed.

Lemma Forall2_Qeq_nth : forall l m, length l = length m -> (forall k, nth k l 0 == nth k m 0) -> Forall2 Qeq l m.
Proof.
  induction l as [|x l IH]; intros [|y m] Hl Hn; try discriminate; constructor.
  - apply (Hn 0%nat).
  - apply IH; [cbn in Hl; congruence|]. intros k. apply (Hn (S k)).
Qed.

Lemma rb_project_length g vmin vmax dz r d support p : length (rb_project g vmin vmax dz r d support p) = length support.
Proof. rewrite rb_project_fold, rb_fold_length. apply repeat_length. Qed.

(* done = 1: the projected distribution depends on the target distribution only through its total mass *)
Lemma rb_project_done g vmin vmax dz r d support p p' : d == 1 ->
  length p = length support -> length p' = length support -> qsum p == qsum p' ->
  Forall2 Qeq (rb_project g vmin vmax dz r d support p) (rb_project g vmin vmax dz r d support p').
Proof.
  intros H Hp Hp' Hs. apply Forall2_Qeq_nth; [now rewrite !rb_project_length|].
  intros k. rewrite !rb_project_nth, !psum_contrib_done by auto.
  rewrite !qsum_plain in Hs. unfold psum. rewrite Hs. reflexivity.
Qed.

Lemma rb_elem_done_masks g vmin vmax dz support x x' :
  r_d x == 1 -> r_r x = r_r x' -> r_d x = r_d x' -> r_logp x = r_logp x' ->
  length (r_p x) = length support -> length (r_p x') = length support -> qsum (r_p x) == qsum (r_p x') ->
  rb_elem g vmin vmax dz support x == rb_elem g vmin vmax dz support x'.
Proof.
  intros H Hr Hd Hl Hp Hp' Hs. unfold rb_elem. rewrite <- Hr, <- Hd, <- Hl.
  assert (E : qsum (map2 Qmult (rb_project g vmin vmax dz (r_r x) (r_d x) support (r_p x)) (r_logp x))
           == qsum (map2 Qmult (rb_project g vmin vmax dz (r_r x) (r_d x) support (r_p x')) (r_logp x))).
  { apply qsum_compat. eapply Forall2_map2 with (RA := Qeq) (RB := Qeq).
    - intros a a' b b' Ha Hb. rewrite Ha, Hb. reflexivity.
    - apply rb_project_done; auto.
    - apply Forall2_refl_Qeq. }
  rewrite E. reflexivity.
Qed.

(* done = 1 and total mass 1: all mass sits on the (one or two) atoms around the reward; nothing of the
   next observation's distribution is left *)
Lemma rb_project_done_cells g vmin vmax dz r d support p k : d == 1 -> length p = length support ->
  nth k (rb_project g vmin vmax dz r d support p) 0 == qsum p * rb_contrib g vmin vmax dz (length support) r d (0, 1) k.
Proof. intros H Hp. rewrite rb_project_nth, psum_contrib_done, qsum_plain by auto. reflexivity. Qed.

(* ================================================================ statements exactly as exported in props/C08.v *)
Lemma done_target_is_reward_thm : forall r g d q, d == 1 -> bellman r g d q == r /\ bellman_ac r g d q == r.
Proof. intros r g d q H. split; [exact (bellman_done r g d q H) | exact (bellman_ac_done r g d q H)]. Qed.

Lemma done_masks_next_rows_thm : forall g double n rows rows' arows arows' lse,
  Forall2 drow_same_but_next rows rows' -> Forall2 arow_same_but_next arows arows' ->
  dqn_loss g double rows == dqn_loss g double rows' /\ cqn_loss g double rows lse == cqn_loss g double rows' lse /\
  ac_loss g n arows == ac_loss g n arows'.
Proof.
  intros g double n rows rows' arows arows' lse H H'.
  exact (conj (dqn_done_masks_rows g double rows rows' H)
              (conj (cqn_done_masks_rows g double rows rows' lse H) (ac_done_masks_rows g n arows arows' H'))).
Qed.

Lemma loss_is_definition_actor_critic_thm : forall g rows,
  ac_loss g 1 rows == mse (map (fun x => nthq (a_qs x) 0) rows) (map (ac_y g) rows) /\
  ac_loss g 2 rows == mse (map (fun x => nthq (a_qs x) 0) rows) (map (ac_y g) rows)
                    + mse (map (fun x => nthq (a_qs x) 1) rows) (map (ac_y g) rows).
Proof. intros g rows. exact (conj (ac_loss_one g rows) (ac_loss_two g rows)). Qed.

Lemma soft_update_tracks_thm : forall tau e t,
  lerp tau e t - e == (1 - tau) * (t - e) /\
  (0 <= tau -> tau <= 1 -> Qmin e t <= lerp tau e t /\ lerp tau e t <= Qmax e t) /\ lerp 1 e t == e.
Proof. intros tau e t. exact (conj (lerp_contracts tau e t) (conj (lerp_between tau e t) (lerp_tau_one e t))). Qed.

(* cell i after any number of learn calls with any policy delay: the recurrence over the calls that update *)
Lemma fold_soft_cell tau : forall es target i t,
  nth_error target i = Some t -> Forall (fun e => (i < length e)%nat) es ->
  nth_error (fold_left (fun t e => soft_zip tau e t) es target) i = Some (cell_run tau t (map (fun e => nth i e 0) es)).
Proof.
  induction es as [|e rest IH]; intros target i t Ht Hall; cbn [fold_left map].
  - exact Ht.
  - inversion Hall; subst. unfold cell_run. cbn [fold_left]. apply IH; auto.
    apply soft_zip_nth; auto. apply nth_error_nth'. auto.
Qed.

Lemma select_updates_incl pf : forall onlines c (P : list Q -> Prop),
  Forall P onlines -> Forall P (select_updates pf c onlines).
Proof.
  induction onlines as [|e rest IH]; intros c P H; cbn [select_updates]; [constructor|].
  inversion H; subst. destruct (S c mod pf =? 0)%nat; [constructor|]; auto.
Qed.

Lemma soft_update_k_fold_thm : forall tau pf onlines c target i t,
  nth_error target i = Some t -> Forall (fun e => (i < length e)%nat) onlines ->
  let es := map (fun e => nth i e 0) (select_updates pf c onlines) in
  nth_error (run_soft tau pf c target onlines) i = Some (cell_run tau t es) /\
  cell_run tau t es == qpow (1 - tau) (length es) * t + wsum tau es /\
  select_updates 1 c onlines = onlines.
Proof.
  intros tau pf onlines c target i t H1 H2 es. split; [|split].
  - rewrite run_soft_delay. apply fold_soft_cell; auto. apply select_updates_incl; auto.
  - apply cell_run_closed.
  - apply select_updates_pf1.
Qed.

Lemma soft_update_policy_delay_thm : forall tau pf onlines c target,
  run_soft tau pf c target onlines = fold_left (fun t e => soft_zip tau e t) (select_updates pf c onlines) target /\
  ((0 < pf)%nat -> length (select_updates pf c onlines) = ((c + length onlines) / pf - c / pf)%nat) /\
  (forall online, (S c mod pf <> 0)%nat -> delayed_soft tau pf c online target = (S c, target)) /\
  (forall online, (S c mod pf = 0)%nat -> delayed_soft tau pf c online target = (S c, soft_zip tau online target)).
Proof.
  intros tau pf onlines c target.
  exact (conj (run_soft_delay tau pf onlines c target)
          (conj (select_updates_length pf onlines c)
            (conj (fun o => delayed_soft_no_update tau pf c o target) (fun o => delayed_soft_update tau pf c o target)))).
Qed.

Lemma soft_update_vacuous_refuted_thm :
  (forall tau online w, weights (soft_update tau online (pinned_dqn_target w)) = w) /\
  exists online w, length (weights online) = length w /\
    ~ Forall2 Qeq (weights (soft_update 1 online (pinned_dqn_target w))) (weights online).
Proof. exact (conj pinned_target_never_moves soft_update_vacuous_refuted_lemma). Qed.

(* ================================================================ the pinned PER loss (weights column broadcast) *)
Lemma rainbow_per_broadcast_refuted_lemma :
  exists weights elems, length weights = length elems /\
    ~ rb_loss_pinned_broadcast weights elems == rb_loss weights elems.
Proof. exists [1 # 4; 1], [1; 3]. split; [reflexivity|]. vm_compute. discriminate. Qed.

(* ---- why uniform weights hide it: with all importance weights equal the broadcast mean IS the weighted mean *)
Lemma psum_app l m : psum (l ++ m) == psum l + psum m.
Proof. unfold psum. induction l as [|x l IH]; cbn [app fold_right]; [ring|]. rewrite IH. ring. Qed.

Lemma psum_scaled w : forall es, psum (map (fun e => e * w) es) == w * psum es.
Proof. unfold psum. induction es as [|e es IH]; cbn [map fold_right]; [ring|]. rewrite IH. ring. Qed.

Lemma psum_outer_const c es : forall ws, Forall (fun w => w == c) ws ->
  psum (concat (map (fun w => map (fun e => e * w) es) ws)) == inject_Z (Z.of_nat (length ws)) * (c * psum es).
Proof.
  induction ws as [|w ws IH]; intros H.
  - cbn. ring.
  - inversion H as [|? ? Hw Hws]; subst. cbn [map concat]. rewrite psum_app, psum_scaled, IH by auto.
    cbn [length]. rewrite Nat2Z.inj_succ. unfold Z.succ. rewrite inject_Z_plus. rewrite Hw. change (inject_Z 1) with 1. ring.
Qed.

Lemma length_outer (es : list Q) : forall ws : list Q,
  length (concat (map (fun w => map (fun e => e * w) es) ws)) = (length ws * length es)%nat.
Proof. induction ws as [|w ws IH]; cbn [map concat length]; [reflexivity|]. rewrite app_length, map_length, IH. reflexivity. Qed.

Lemma psum_map2_const c : forall es ws, Forall (fun w => w == c) ws -> length ws = length es ->
  psum (map2 Qmult es ws) == c * psum es.
Proof.
  unfold psum. induction es as [|e es IH]; intros [|w ws] H Hl; try discriminate; cbn [map2 fold_right]; [ring|].
  inversion H as [|? ? Hw Hws]; subst. rewrite IH by (auto; cbn in Hl; congruence). rewrite Hw. ring.
Qed.

Lemma map2_length_eq {A B C} (f : A -> B -> C) : forall l m, length l = length m -> length (map2 f l m) = length l.
Proof. induction l as [|a l IH]; intros [|b m] H; try discriminate; cbn; auto. Qed.

Lemma qsum_psum l : qsum l == psum l.
Proof. apply qsum_plain. Qed.

Lemma rb_loss_pinned_equal_weights c ws es :
  Forall (fun w => w == c) ws -> length ws = length es -> es <> [] ->
  rb_loss_pinned_broadcast ws es == rb_loss ws es.
Proof.
  intros H Hl Hne. unfold rb_loss_pinned_broadcast, rb_loss, qmean, qlen.
  rewrite !qsum_psum.
  rewrite (psum_outer_const c es ws H). rewrite (psum_map2_const c es ws H Hl).
  rewrite length_outer, map2_length_eq by auto. rewrite Hl, Nat2Z.inj_mul, inject_Z_mult.
  assert (Hn : ~ inject_Z (Z.of_nat (length es)) == 0).
  { destruct es; [congruence|]. cbn [length]. rewrite Nat2Z.inj_succ. unfold Z.succ.
    intro E. apply Qeq_bool_iff in E. unfold Qeq_bool, Zeq_bool in E. cbn in E.
    destruct (Z.of_nat (length es) + 1)%Z eqn:Z1; cbn in E; try discriminate. lia. }
  set (n := inject_Z (Z.of_nat (length es))) in *. clearbody n. field. auto.
Qed.
