(* C08 — multi-agent part of the model: how MADDPG / MATD3 assemble the inputs of their centralised critics from
   per-agent dictionaries, and MATD3's per-agent learn counters.  Model only (no proofs). *)
From Coq Require Import List QArith Arith Bool.
Import ListNotations.
From AgileV Require Import C08.Model.
Local Open Scope Q_scope.

(* a per-agent dictionary as Python sees it: (agent id, value) pairs in insertion order *)
Definition adict := list (nat * list Q).

Definition lookup (a : nat) (d : adict) : list Q :=
  match find (fun p => Nat.eqb (fst p) a) d with Some p => snd p | None => [] end.

(* the repaired code (and stack_critic_observations / the next-action loop):  torch.cat([d[a] for a in self.agent_ids], dim=1) *)
Definition stack_ids (ids : list nat) (d : adict) : list Q := concat (map (fun a => lookup a d) ids).

(* the pinned code for the actions:  torch.cat(list(actions.values()), dim=1)  — the caller's insertion order *)
Definition stack_values (d : adict) : list Q := concat (map snd d).

Section MultiAgentNets.
Variable ids : list nat.                                  (* self.agent_ids *)
Variable PiT : nat -> list Q -> list Q.                   (* actor_targets[i] *)
Variables (Crit CritT : list (list Q -> list Q -> Q)).    (* one agent's critic(s) and target critic(s) over stacked inputs *)
Record mtrans := { m_s : adict; m_a : adict; m_r : Q; m_s' : adict; m_d : Q }.
(* next actions: for i, agent_id in enumerate(self.agent_ids): actor_targets[i](next_states[agent_id]), concatenated *)
Definition next_actions (s' : adict) : list Q := concat (map (fun a => PiT a (lookup a s')) ids).
Definition mrow_of (t : mtrans) : arow :=
  {| a_qs := map (fun f => f (stack_ids ids (m_s t)) (stack_ids ids (m_a t))) Crit; a_r := m_r t; a_d := m_d t;
     a_qns := map (fun f => f (stack_ids ids (m_s' t)) (next_actions (m_s' t))) CritT |}.
Definition ma_loss_net (g : Q) (batch : list mtrans) : Q := ac_loss g (length Crit) (map mrow_of batch).
(* the pinned variant: actions stacked in the caller's key order *)
Definition mrow_of_pinned (t : mtrans) : arow :=
  {| a_qs := map (fun f => f (stack_ids ids (m_s t)) (stack_values (m_a t))) Crit; a_r := m_r t; a_d := m_d t;
     a_qns := map (fun f => f (stack_ids ids (m_s' t)) (next_actions (m_s' t))) CritT |}.
Definition ma_loss_net_pinned (g : Q) (batch : list mtrans) : Q := ac_loss g (length Crit) (map mrow_of_pinned batch).
End MultiAgentNets.

(* MATD3: learn_individual increments learn_counter[agent_id] for every agent; the soft updates are gated by the
   counter of the agent the loop variable was left on (the last one) *)
Definition matd3_counters_step (cs : list (nat * nat)) : list (nat * nat) := map (fun p => (fst p, S (snd p))) cs.
Definition matd3_gate (pf : nat) (cs : list (nat * nat)) : bool :=
  match rev cs with [] => false | p :: _ => (snd p mod pf =? 0)%nat end.
