(* C15 — lemmas and proofs about the model of observation handling. *)
From Coq Require Import List Arith Bool ZArith QArith Lia Qabs.
Import ListNotations.
From AgileV Require Import C15.Model.
Open Scope nat_scope.

(* ------------------------------------------------------------------ lists, chunks *)
Lemma chunks_length {A} k n (l : list A) : length (chunks k n l) = n.
Proof. revert l; induction n; intros; cbn; auto. Qed.

Lemma firstn_app_exact {A} (a b : list A) : firstn (length a) (a ++ b) = a.
Proof. rewrite firstn_app, Nat.sub_diag, firstn_all. cbn. apply app_nil_r. Qed.
Lemma skipn_app_exact {A} (a b : list A) : skipn (length a) (a ++ b) = b.
Proof. rewrite skipn_app, Nat.sub_diag, skipn_all. reflexivity. Qed.

Lemma chunks_concat {A} w (ls : list (list A)) :
  Forall (fun o => length o = w) ls -> chunks w (length ls) (concat ls) = ls.
Proof.
  induction 1 as [|x ls Hx H IH]; cbn; auto.
  subst w. rewrite firstn_app_exact, skipn_app_exact, IH. reflexivity.
Qed.

Lemma chunks_flat_map {A B} (f : A -> list B) k (l : list A) :
  (forall x, In x l -> length (f x) = k) -> chunks k (length l) (flat_map f l) = map f l.
Proof.
  intros H. rewrite flat_map_concat_map. rewrite <- (map_length f l).
  apply chunks_concat. apply Forall_forall. intros y Hy. apply in_map_iff in Hy as [x [<- Hx]]. auto.
Qed.

Lemma concat_length_uniform {A} w (ls : list (list A)) :
  Forall (fun o => length o = w) ls -> length (concat ls) = length ls * w.
Proof. induction 1; cbn; auto. rewrite app_length; lia. Qed.

Lemma chunks_all_length {A} k n (l : list A) :
  length l = n * k -> Forall (fun c => length c = k) (chunks k n l).
Proof.
  revert l; induction n; intros l H; cbn; constructor.
  - rewrite firstn_length. lia.
  - apply IHn. rewrite skipn_length. lia.
Qed.

Lemma concat_chunks {A} k n (l : list A) : length l = n * k -> concat (chunks k n l) = l.
Proof.
  revert l; induction n; intros l H; cbn.
  - destruct l; auto; cbn in H; lia.
  - rewrite IHn. apply firstn_skipn. rewrite skipn_length. lia.
Qed.

Lemma chunks_map {A B} (f : A -> B) k n (l : list A) : chunks k n (map f l) = map (map f) (chunks k n l).
Proof.
  revert l; induction n; intros; cbn; auto.
  rewrite firstn_map, skipn_map, IHn. reflexivity.
Qed.

(* ------------------------------------------------------------------ products *)
Lemma prod_app a b : prod (a ++ b) = prod a * prod b.
Proof.
  induction a as [|x a IH]; [change (prod b = 1 * prod b); lia|].
  change (x * prod (a ++ b) = x * prod a * prod b). rewrite IH. lia.
Qed.

Definition ne1 (d : nat) : bool := negb (d =? 1).
Lemma prod_filter_ne1 l : prod (filter ne1 l) = prod l.
Proof.
  induction l as [|d l IH]; auto. cbn [filter]. unfold ne1 at 1.
  destruct (Nat.eqb_spec d 1); cbn [negb].
  - subst. change (prod (1 :: l)) with (1 * prod l). lia.
  - change (d * prod (filter ne1 l) = d * prod l). rewrite IH. reflexivity.
Qed.

(* ------------------------------------------------------------------ one-hot *)
Lemma one_hot_from_length n k i : length (one_hot_from n k i) = n.
Proof. revert i; induction n; intros; cbn; auto. Qed.

Lemma one_hot_row_length n k : length (one_hot_row n k) = n.
Proof. apply one_hot_from_length. Qed.

Lemma one_hot_from_nth n k i j :
  j < n -> nth j (one_hot_from n k i) 0%Q = if Z.eqb k (Z.of_nat (i + j)) then 1%Q else 0%Q.
Proof.
  revert i j; induction n; intros i j H; [lia|].
  destruct j; cbn [one_hot_from nth].
  - rewrite Nat.add_0_r. reflexivity.
  - rewrite IHn by lia. replace (S i + j) with (i + S j) by lia. reflexivity.
Qed.

(* the row for class k has 1 at position k and 0 elsewhere, and n entries *)
Lemma one_hot_correct_lemma n k :
  length (one_hot_row n k) = n /\
  forall j, j < n -> nth j (one_hot_row n k) 0%Q = if Z.eqb k (Z.of_nat j) then 1%Q else 0%Q.
Proof. split; [apply one_hot_row_length|]. intros j H. unfold one_hot_row. rewrite one_hot_from_nth; auto. Qed.

(* exactly one entry is 1: the entries sum to 1 for a legal class *)
Definition qsum (l : list Q) : Q := fold_right Qplus 0%Q l.
Lemma one_hot_from_sum n k i :
  qsum (one_hot_from n k i) == (if (Z.of_nat i <=? k)%Z && (k <? Z.of_nat (i + n))%Z then 1 else 0)%Q.
Proof.
  revert i; induction n; intros i; cbn [one_hot_from qsum fold_right].
  - rewrite Nat.add_0_r. destruct (Z.leb_spec (Z.of_nat i) k), (Z.ltb_spec k (Z.of_nat i)); cbn; try reflexivity; lia.
  - fold (qsum (one_hot_from n k (S i))). rewrite IHn.
    destruct (Z.eqb_spec k (Z.of_nat i)), (Z.leb_spec (Z.of_nat (S i)) k), (Z.ltb_spec k (Z.of_nat (S i + n))),
             (Z.leb_spec (Z.of_nat i) k), (Z.ltb_spec k (Z.of_nat (i + S n))); cbn; try reflexivity; lia.
Qed.
Lemma one_hot_sum_lemma n k : class_ok n k = true -> qsum (one_hot_row n k) == 1%Q.
Proof.
  unfold class_ok, one_hot_row. intros H. rewrite one_hot_from_sum. cbn [Z.of_nat Nat.add]. rewrite H. reflexivity.
Qed.

(* ------------------------------------------------------------------ maybe_add_batch_dim *)
Lemma add_batch_dim_spec t s lead :
  shp t = lead ++ s -> length lead <= 2 -> (length lead = 2 -> prod s <> 0) ->
  add_batch_dim t s = Some (T (prod lead :: s) (dat t)).
Proof.
  intros Hs Hl Hp. unfold add_batch_dim, rank. rewrite Hs, app_length.
  destruct lead as [|a [|b [|c lead]]]; cbn [length] in *; try lia.
  - rewrite Nat.eqb_refl. unfold unsqueeze0. rewrite Hs. reflexivity.
  - destruct (Nat.eqb_spec (1 + length s) (length s)); [lia|].
    destruct (Nat.eqb_spec (1 + length s) (length s + 2)); [lia|].
    destruct (Nat.eqb_spec (1 + length s) (length s + 1)); [|lia].
    destruct t as [sh d]; cbn in *. subst sh. cbn. rewrite Nat.mul_1_r. reflexivity.
  - destruct (Nat.eqb_spec (2 + length s) (length s)); [lia|].
    destruct (Nat.eqb_spec (2 + length s) (length s + 2)); [|lia].
    unfold view_rows, numel. rewrite Hs.
    specialize (Hp eq_refl).
    destruct (Nat.eqb_spec (prod s) 0); [contradiction|].
    change (prod ([a; b] ++ s)) with (a * (b * prod s)).
    replace (a * (b * prod s)) with ((a * b) * prod s) by lia.
    rewrite Nat.mod_mul, Nat.div_mul by auto. cbn. rewrite Nat.mul_1_r. reflexivity.
Qed.

(* more than two leading dimensions (or fewer dimensions than the space) are rejected *)
Lemma add_batch_dim_err t s :
  rank t < length s \/ length s + 2 < rank t -> add_batch_dim t s = None.
Proof.
  intros H. unfold add_batch_dim.
  destruct (Nat.eqb_spec (rank t) (length s)); [lia|].
  destruct (Nat.eqb_spec (rank t) (length s + 2)); [lia|].
  destruct (Nat.eqb_spec (rank t) (length s + 1)); [lia|]. reflexivity.
Qed.

(* ------------------------------------------------------------------ Box / MultiBinary *)
(* the values a Box observation is turned into (normalisation only for image spaces when switched on) *)
Definition box_values (nz : bool) (s : list nat) (b : bool) (lo hi d : list Q) : list Q :=
  if (length s =? 3) && nz then
    if negb b then d else if all_eq 1 hi && all_eq 0 lo then d else norm_data lo hi d
  else d.

Lemma prep_box_spec nz s b lo hi t lead :
  shp t = lead ++ s -> length lead <= 2 -> (length lead = 2 -> prod s <> 0) ->
  prep_box nz s b lo hi t = Some (T (prod lead :: s) (box_values nz s b lo hi (dat t))).
Proof.
  intros Hs Hl Hp. unfold prep_box, box_values, normalize.
  destruct ((length s =? 3) && nz); [|apply add_batch_dim_spec; auto].
  destruct (negb b); [apply add_batch_dim_spec; auto|].
  destruct (all_eq 1 hi && all_eq 0 lo); apply add_batch_dim_spec; auto.
Qed.

Lemma prep_mb_spec mdf nz n t lead :
  shp t = lead ++ [n] -> length lead <= 2 -> n <> 0 ->
  prep_leaf mdf nz (MultiBinary n) t = Some (T [prod lead; n] (dat t)).
Proof.
  intros. cbn [prep_leaf]. apply add_batch_dim_spec; auto. intros _. cbn. lia.
Qed.

(* normalisation, element by element *)
Lemma norm_row_length lo hi row :
  length lo = length row -> length hi = length row -> length (norm_row lo hi row) = length row.
Proof.
  revert lo hi; induction row as [|x r IH]; intros [|l lo] [|h hi] H1 H2; cbn in *; try lia.
  rewrite IH; auto.
Qed.

Lemma norm_row_nth lo hi row j :
  length lo = length row -> length hi = length row -> j < length row ->
  nth j (norm_row lo hi row) 0%Q == (nth j row 0%Q - nth j lo 0%Q) / (nth j hi 0%Q - nth j lo 0%Q).
Proof.
  revert lo hi j; induction row as [|x r IH]; intros [|l lo] [|h hi] j H1 H2 Hj; cbn [length] in *; try lia.
  destruct j; cbn [norm_row nth].
  - apply Qred_correct.
  - apply IH; lia.
Qed.

(* scaled pixels lie in [0, 1] whenever the pixel lies inside the bounds of the space *)
Lemma norm_in_unit x l h : (l < h)%Q -> (l <= x)%Q -> (x <= h)%Q -> (0 <= (x - l) / (h - l) /\ (x - l) / (h - l) <= 1)%Q.
Proof.
  intros Hlh Hl Hh.
  assert (Hd : (0 < h - l)%Q) by (unfold Qminus; rewrite <- Qlt_minus_iff; auto).
  split.
  - apply Qle_shift_div_l; auto. rewrite Qmult_0_l. unfold Qminus. rewrite <- Qle_minus_iff. auto.
  - apply Qle_shift_div_r; auto. rewrite Qmult_1_l. unfold Qminus. apply Qplus_le_l. auto.
Qed.

(* normalising a batch = normalising every row with the space's bounds *)
Lemma norm_data_rows lo hi (rs : list (list Q)) :
  length lo <> 0 -> Forall (fun r => length r = length lo) rs ->
  norm_data lo hi (concat rs) = concat (map (norm_row lo hi) rs).
Proof.
  intros Hm H. unfold norm_data.
  destruct (Nat.eqb_spec (length lo) 0); [contradiction|].
  rewrite (concat_length_uniform _ _ H), Nat.div_mul by auto.
  rewrite chunks_concat; auto.
Qed.

Lemma box_values_rows nz s b lo hi (rs : list (list Q)) :
  length lo = prod s -> length hi = prod s -> prod s <> 0 ->
  Forall (fun r => length r = prod s) rs ->
  box_values nz s b lo hi (concat rs) = concat (map (fun r => box_values nz s b lo hi r) rs).
Proof.
  intros Hlo Hhi Hp H. unfold box_values.
  assert (Hid : concat rs = concat (map (fun r : list Q => r) rs)) by (rewrite map_id; auto).
  destruct ((length s =? 3) && nz); auto.
  destruct (negb b); auto.
  destruct (all_eq 1 hi && all_eq 0 lo); auto.
  rewrite norm_data_rows; [|lia|rewrite Hlo; auto].
  f_equal. apply map_ext_in. intros r Hr.
  rewrite Forall_forall in H. specialize (H r Hr).
  unfold norm_data. destruct (Nat.eqb_spec (length lo) 0); [lia|].
  rewrite H, <- Hlo, Nat.div_same by auto. cbn [chunks map concat].
  rewrite app_nil_r. rewrite Hlo, <- H, firstn_all. reflexivity.
Qed.

Lemma box_values_length nz s b lo hi r :
  length lo = prod s -> length hi = prod s -> prod s <> 0 -> length r = prod s ->
  length (box_values nz s b lo hi r) = prod s.
Proof.
  intros Hlo Hhi Hp Hr. unfold box_values.
  destruct ((length s =? 3) && nz); auto. destruct (negb b); auto. destruct (all_eq 1 hi && all_eq 0 lo); auto.
  unfold norm_data. destruct (Nat.eqb_spec (length lo) 0); [lia|].
  rewrite Hr, Hlo, Nat.div_same by auto. cbn [chunks map concat]. rewrite app_nil_r.
  rewrite norm_row_length; rewrite firstn_length; lia.
Qed.

(* preparing a batch of Box observations = preparing each row on its own *)
Lemma prep_box_rowwise nz s b lo hi t lead :
  shp t = lead ++ s -> length lead <= 2 -> prod s <> 0 -> wf t ->
  (length s = 3 -> length lo = prod s /\ length hi = prod s) ->
  exists t', prep_box nz s b lo hi t = Some t' /\ shp t' = prod lead :: s /\
    Forall2 (fun row r_in => prep_box nz s b lo hi (T s r_in) = Some (T (1 :: s) row))
            (rows t') (chunks (prod s) (prod lead) (dat t)).
Proof.
  intros Hs Hl Hp Hwf Hb.
  eexists; split; [apply (prep_box_spec nz s b lo hi t lead); auto|]. split; [reflexivity|].
  unfold rows; cbn [shp dat].
  assert (Hlen : length (dat t) = prod lead * prod s) by (unfold wf in Hwf; rewrite Hwf, Hs, prod_app; auto).
  pose proof (chunks_all_length (prod s) (prod lead) (dat t) Hlen) as Hall.
  pose proof (concat_chunks (prod s) (prod lead) (dat t) Hlen) as Hcc.
  set (rs := chunks (prod s) (prod lead) (dat t)) in *.
  assert (Hsingle : forall r, prep_box nz s b lo hi (T s r) = Some (T (1 :: s) (box_values nz s b lo hi r))).
  { intros r. apply (prep_box_spec nz s b lo hi (T s r) []); cbn; auto; lia. }
  destruct ((length s =? 3) && nz) eqn:Hc.
  - apply andb_true_iff in Hc as [Hc _]. apply Nat.eqb_eq in Hc. destruct (Hb Hc) as [Hlo Hhi].
    rewrite <- Hcc at 1. rewrite box_values_rows; auto.
    replace (prod lead) with (length (map (fun r => box_values nz s b lo hi r) rs))
      by (rewrite map_length; apply chunks_length).
    rewrite chunks_concat.
    + clear -Hsingle. induction rs; cbn; constructor; auto.
    + apply Forall_forall. intros y Hy. apply in_map_iff in Hy as [r [<- Hr]].
      rewrite Forall_forall in Hall. apply box_values_length; auto.
  - assert (Hbv : forall d, box_values nz s b lo hi d = d) by (intros d; unfold box_values; rewrite Hc; auto).
    rewrite Hbv. fold rs.
    clear -Hsingle Hbv. induction rs; cbn; constructor; auto. rewrite Hsingle, Hbv. reflexivity.
Qed.

Lemma prep_mb_rowwise mdf nz n t lead :
  shp t = lead ++ [n] -> length lead <= 2 -> n <> 0 -> wf t ->
  exists t', prep_leaf mdf nz (MultiBinary n) t = Some t' /\ shp t' = [prod lead; n] /\
    Forall2 (fun row r_in => prep_leaf mdf nz (MultiBinary n) (T [n] r_in) = Some (T [1; n] row))
            (rows t') (chunks n (prod lead) (dat t)).
Proof.
  intros Hs Hl Hn Hwf.
  eexists; split; [apply (prep_mb_spec mdf nz n t lead); auto|]. split; [reflexivity|].
  unfold rows; cbn [shp dat]. change (prod [n]) with (n * 1). rewrite Nat.mul_1_r.
  generalize (chunks n (prod lead) (dat t)). intros rs.
  induction rs; constructor; auto.
Qed.

(* ------------------------------------------------------------------ Discrete *)
(* the leading dimensions that survive: squeeze() is applied iff n > 1 *)
Definition sq (n : nat) (s : list nat) : list nat := if 1 <? n then filter ne1 s else s.

Lemma prod_sq n s : prod (sq n s) = prod s.
Proof. unfold sq. destruct (1 <? n); auto. apply prod_filter_ne1. Qed.

Definition classes_ok (n : nat) (d : list Q) : Prop := Forall (fun q => class_ok n (qlong q) = true) d.

Lemma classes_ok_forallb n d : classes_ok n d -> forallb (class_ok n) (map qlong d) = true.
Proof. induction 1; cbn; auto. rewrite H, IHForall. reflexivity. Qed.

Lemma prep_discrete_spec_lemma n t :
  1 <= n -> classes_ok n (dat t) -> length (sq n (shp t)) <= 2 ->
  prep_discrete n t = Some (T [prod (shp t); n] (flat_map (one_hot_row n) (map qlong (dat t)))).
Proof.
  intros Hn Hc Hr. unfold prep_discrete, one_hot. rewrite classes_ok_forallb by auto.
  set (d := flat_map (one_hot_row n) (map qlong (dat t))).
  assert (Hshape : shp (if 1 <? n then squeeze_all (T (shp t ++ [n]) d) else T (shp t ++ [n]) d) = sq n (shp t) ++ [n]).
  { unfold sq. destruct (Nat.ltb_spec 1 n); cbn [shp squeeze_all]; auto.
    rewrite filter_app. cbn [filter]. destruct (Nat.eqb_spec n 1); [lia|]. reflexivity. }
  rewrite (add_batch_dim_spec _ [n] (sq n (shp t)) Hshape Hr).
  - rewrite prod_sq. destruct (1 <? n); reflexivity.
  - intros _. cbn. lia.
Qed.

(* three or more surviving leading dimensions are rejected *)
Lemma prep_discrete_err_lemma n t :
  2 < length (sq n (shp t)) -> prep_discrete n t = None.
Proof.
  intros H. unfold prep_discrete. destruct (one_hot n t) as [o|] eqn:Ho; auto.
  unfold one_hot in Ho. destruct (forallb (class_ok n) (map qlong (dat t))); [|discriminate].
  injection Ho as <-. apply add_batch_dim_err. right. revert H. unfold rank, sq, ne1. cbn [length].
  destruct (Nat.ltb_spec 1 n) as [Hlt|Hlt]; cbn [shp squeeze_all]; intros H.
  - rewrite filter_app, app_length. cbn [filter]. destruct (Nat.eqb_spec n 1); [lia|]. cbn [negb length]. lia.
  - rewrite app_length. cbn [length]. lia.
Qed.

(* a single (scalar) Discrete observation *)
Lemma prep_discrete_single n q :
  1 <= n -> class_ok n (qlong q) = true ->
  prep_discrete n (T [] [q]) = Some (T [1; n] (one_hot_row n (qlong q))).
Proof.
  intros Hn Hq. rewrite prep_discrete_spec_lemma; auto.
  - cbn. rewrite app_nil_r. reflexivity.
  - constructor; auto.
  - unfold sq. destruct (1 <? n); cbn; lia.
Qed.

(* preparing a batch of Discrete observations = preparing each class index on its own *)
Lemma prep_discrete_rowwise n t :
  1 <= n -> classes_ok n (dat t) -> length (sq n (shp t)) <= 2 -> wf t ->
  exists t', prep_discrete n t = Some t' /\ shp t' = [prod (shp t); n] /\
    Forall2 (fun row q => prep_discrete n (T [] [q]) = Some (T [1; n] row)) (rows t') (dat t).
Proof.
  intros Hn Hc Hr Hwf. eexists; split; [apply prep_discrete_spec_lemma; auto|]. split; [reflexivity|].
  unfold rows; cbn [shp dat]. change (prod [n]) with (n * 1). rewrite Nat.mul_1_r.
  unfold wf in Hwf. rewrite <- Hwf, <- (map_length qlong).
  rewrite chunks_flat_map by (intros; apply one_hot_row_length).
  clear Hwf Hr. induction Hc; cbn; constructor; auto.
  apply prep_discrete_single; auto.
Qed.

(* ------------------------------------------------------------------ get_vect_dim *)
Lemma vect_dim_leaf_spec l t lead :
  shp t = lead ++ space_shape l ->
  vect_dim_leaf true l t = Some (match lead with [] => 1 | b :: _ => b end).
Proof.
  intros Hs.
  assert (H : (if length (space_shape l) <? rank t then hd 1 (shp t) else 1) = match lead with [] => 1 | b :: _ => b end).
  { unfold rank. rewrite Hs, app_length. destruct lead as [|b lead]; cbn [length app hd].
    - rewrite Nat.ltb_irrefl. reflexivity.
    - destruct (Nat.ltb_spec (length (space_shape l)) (S (length lead) + length (space_shape l))); [reflexivity|lia]. }
  destruct l; cbn [vect_dim_leaf]; rewrite H; reflexivity.
Qed.

Lemma vect_dim_spec_lemma sp o :
  match sp, o with
  | Leaf l, OLeaf t => forall lead, shp t = lead ++ space_shape l ->
        vect_dim true sp o = Some (match lead with [] => 1 | b :: _ => b end)
  | DictS fields, ODict ((k, t) :: _) => forall l lead, lookup k fields = Some l -> shp t = lead ++ space_shape l ->
        vect_dim true sp o = Some (match lead with [] => 1 | b :: _ => b end)
  | TupleS (l :: _), OTuple (t :: _) => forall lead, shp t = lead ++ space_shape l ->
        vect_dim true sp o = Some (match lead with [] => 1 | b :: _ => b end)
  | _, _ => True
  end.
Proof.
  destruct sp as [l|fields|[|l ms]], o as [t|[|[k t] items]|[|t items]]; auto.
  - intros; cbn; apply vect_dim_leaf_spec; auto.
  - intros l lead Hl Hs; cbn. rewrite Hl. apply vect_dim_leaf_spec; auto.
  - intros; cbn; apply vect_dim_leaf_spec; auto.
Qed.

(* ------------------------------------------------------------------ assemble / disassemble *)
Lemma disassemble_assemble_lemma (outs : list (list Q)) w :
  outs <> [] -> Forall (fun o => length o = w) outs ->
  disassemble (length outs) (assemble outs) = outs.
Proof.
  intros Hne H. unfold disassemble, assemble.
  rewrite (concat_length_uniform _ _ H).
  assert (length outs <> 0) by (destruct outs; cbn; congruence).
  rewrite Nat.mul_comm, Nat.div_mul by auto. apply chunks_concat; auto.
Qed.

Lemma assemble_disassemble_lemma n (flat : list Q) w :
  length flat = n * w -> n <> 0 -> assemble (disassemble n flat) = flat.
Proof.
  intros H Hn. unfold assemble, disassemble. rewrite H, Nat.mul_comm, Nat.div_mul by auto.
  apply concat_chunks; auto.
Qed.

(* ------------------------------------------------------------------ routing through shared policies *)
Section RoutingProofs.
Context {R O : Type}.
Variable group : nat -> nat.

Lemma lookup_rows_notin (a : nat) (od : list (nat * list R)) : ~ In a (map fst od) -> lookup_rows a od = [].
Proof.
  induction od as [|[a' r] od IH]; cbn; auto. intros H.
  destruct (Nat.eqb_spec a a'); [subst; tauto|]. apply IH; tauto.
Qed.

Lemma map_snd_filter_lookup (P : nat -> bool) (od : list (nat * list R)) :
  NoDup (map fst od) ->
  map snd (filter (fun p => P (fst p)) od) = map (fun a => lookup_rows a od) (map fst (filter (fun p => P (fst p)) od)).
Proof.
  induction od as [|[a r] od IH]; cbn [map filter fst]; auto. intros Hnd.
  inversion Hnd as [|? ? Hnotin Hnd']; subst.
  assert (Hrest : map (fun a0 => lookup_rows a0 ((a, r) :: od)) (map fst (filter (fun p => P (fst p)) od))
                  = map (fun a0 => lookup_rows a0 od) (map fst (filter (fun p => P (fst p)) od))).
  { apply map_ext_in. intros a0 Hin. cbn [lookup_rows].
    destruct (Nat.eqb_spec a0 a); auto. subst. exfalso. apply Hnotin.
    apply in_map_iff in Hin as [[x y] [Hx Hin]]. apply filter_In in Hin as [Hin _].
    apply in_map_iff. exists (x, y). auto. }
  destruct (P a); cbn [map fst snd].
  - rewrite Hrest. cbn [lookup_rows]. rewrite Nat.eqb_refl. f_equal. apply IH; auto.
  - rewrite Hrest. apply IH; auto.
Qed.

(* what every agent must receive: the network's outputs on its own rows *)
Definition route_spec (f : R -> O) (agent_ids : list nat) (od : list (nat * list R)) (g : nat) : list (nat * list O) :=
  map (fun a => (a, map f (lookup_rows a od))) (members group g agent_ids).

Lemma route_chunks (f : R -> O) E (ms : list nat) (od : list (nat * list R)) :
  (forall a, In a ms -> length (lookup_rows a od) = E) ->
  combine ms (chunks E (length ms) (map f (cat0 (map (fun a => lookup_rows a od) ms))))
  = map (fun a => (a, map f (lookup_rows a od))) ms.
Proof.
  intros HE. unfold cat0. rewrite concat_map, map_map.
  rewrite <- (map_length (fun a => map f (lookup_rows a od)) ms) at 1.
  rewrite chunks_concat.
  - clear HE. induction ms; cbn; auto. rewrite IHms. reflexivity.
  - apply Forall_forall. intros y Hy. apply in_map_iff in Hy as [a [<- Ha]]. rewrite map_length. auto.
Qed.

(* repaired IPPO.preprocess_observation: correct for EVERY order of the observation dict *)
Lemma ippo_route_fixed_any_order (f : R -> O) agent_ids E od g :
  (forall a, In a agent_ids -> In a (map fst od)) ->
  (forall a, In a agent_ids -> length (lookup_rows a od) = E) ->
  ippo_route group true agent_ids E (map f) od g = route_spec f agent_ids od g.
Proof.
  intros Hall HE. unfold ippo_route, ippo_batch, route_spec.
  set (ms := members group g agent_ids).
  assert (Hms : forall a, In a ms -> In a agent_ids) by (intros a Ha; apply filter_In in Ha; tauto).
  assert (Hf : filter (fun a => existsb (Nat.eqb a) (map fst od)) ms = ms).
  { assert (Hp : forall a, In a ms -> existsb (Nat.eqb a) (map fst od) = true).
    { intros a Ha. apply existsb_exists. exists a. split; [apply Hall; auto|apply Nat.eqb_refl]. }
    clear -Hp. induction ms as [|a ms IH]; cbn; auto.
    rewrite (Hp a) by (left; auto). f_equal. apply IH. intros; apply Hp; right; auto. }
  rewrite Hf. apply route_chunks. auto.
Qed.

(* pinned IPPO.preprocess_observation: correct when, inside the group, the dict lists the agents in agent_ids order *)
Lemma ippo_route_pinned_same_order (f : R -> O) agent_ids E od g :
  NoDup (map fst od) ->
  map fst (filter (fun p => group (fst p) =? g) od) = members group g agent_ids ->
  (forall a, In a agent_ids -> length (lookup_rows a od) = E) ->
  ippo_route group false agent_ids E (map f) od g = route_spec f agent_ids od g.
Proof.
  intros Hnd Hord HE. unfold ippo_route, ippo_batch, route_spec.
  rewrite (map_snd_filter_lookup (fun a => group a =? g) od Hnd), Hord.
  apply route_chunks. intros a Ha. apply HE. apply filter_In in Ha. tauto.
Qed.

Lemma maddpg_route_fixed_any_order (actor : nat -> list R -> list O) agent_ids od :
  maddpg_route true agent_ids actor od = map (fun a => (a, actor a (lookup_rows a od))) agent_ids.
Proof. reflexivity. Qed.

Lemma maddpg_route_pinned_same_order (actor : nat -> list R -> list O) agent_ids od :
  NoDup (map fst od) -> map fst od = agent_ids ->
  maddpg_route false agent_ids actor od = map (fun a => (a, actor a (lookup_rows a od))) agent_ids.
Proof.
  intros Hnd <-. unfold maddpg_route.
  induction od as [|[a r] od IH]; cbn [map combine fst]; auto.
  inversion Hnd as [|? ? Hnotin Hnd']; subst.
  cbn [snd lookup_rows]. rewrite Nat.eqb_refl. f_equal.
  rewrite IH by auto. apply map_ext_in. intros a0 Ha0. cbn [lookup_rows].
  destruct (Nat.eqb_spec a0 a); auto. subst. contradiction.
Qed.
End RoutingProofs.

(* the pinned routing depends on the order of the observation dict: two agents of one group are swapped *)
Lemma ippo_route_order_refuted_lemma :
  exists (group : nat -> nat) agent_ids od,
    NoDup (map fst od) /\ (forall a, In a agent_ids <-> In a (map fst od)) /\
    ippo_route group false agent_ids 1 (map (fun x : nat => x)) od 0
    <> route_spec group (fun x : nat => x) agent_ids od 0.
Proof.
  exists (fun _ => 0), [0; 1], [(1, [11]); (0, [10])].
  split; [repeat constructor; cbn; intuition congruence|].
  split; [cbn; intuition|]. cbn. discriminate.
Qed.

Lemma maddpg_route_order_refuted_lemma :
  exists agent_ids (od : list (nat * list nat)),
    NoDup (map fst od) /\ (forall a, In a agent_ids <-> In a (map fst od)) /\
    maddpg_route false agent_ids (fun _ x => x) od <> map (fun a => (a, lookup_rows a od)) agent_ids.
Proof.
  exists [0; 1], [(1, [11]); (0, [10])].
  split; [repeat constructor; cbn; intuition congruence|].
  split; [cbn; intuition|]. cbn. discriminate.
Qed.

(* ------------------------------------------------------------------ pinned behaviours that violate the property *)
(* get_vect_dim as pinned before commit 6233bc3: `len(obs.shape) > space.shape` raises for MultiBinary *)
Lemma vect_dim_multibinary_pinned_refuted_lemma :
  exists n t, wf t /\ shp t = [4; n] /\ vect_dim_leaf false (MultiBinary n) t = None
              /\ vect_dim_leaf true (MultiBinary n) t = Some 4.
Proof. exists 2, (T [4; 2] [0;1;1;0;1;1;0;0]%Q). repeat split. Qed.

(* preprocess_observation of the tree: a (step, env, len nvec) MultiDiscrete observation is an error,
   although every class is legal; with the batch dimension inferred from the space's own shape it is prepared *)
Lemma prep_md_step_env_refuted_lemma :
  exists nvec t, wf t /\ shp t = [2; 1; length nvec] /\
    prep_md false nvec t = None /\
    prep_md true nvec t = Some (T [2; sum nvec] [0;1;0;0;1; 1;0;0;1;0]%Q).
Proof. exists [2; 3], (T [2; 1; 2] [1;2;0;1]%Q). repeat split. Qed.

(* ------------------------------------------------------------------ row-wise networks *)
(* a network that treats rows independently gives, for each row of a prepared batch, what it gives
   for that observation prepared on its own — whatever else shares the batch *)
Lemma batch_independent_lemma {X O} (single_ok : list Q -> X -> Prop) (f : list Q -> O) (rws : list (list Q)) (xs : list X) :
  Forall2 single_ok rws xs ->
  Forall2 (fun out x => exists row, single_ok row x /\ out = f row) (map f rws) xs.
Proof. induction 1; cbn; constructor; eauto. Qed.

(* ------------------------------------------------------------------ MultiDiscrete *)
(* the encoding of one observation: one-hot of every component, concatenated in component order *)
Fixpoint md_enc (nvec : list nat) (r : list Z) : list Q :=
  match r, nvec with
  | k :: r', n :: nv' => one_hot_row n k ++ md_enc nv' r'
  | _, _ => []
  end.
Fixpoint md_ok (nvec : list nat) (r : list Z) : Prop :=
  match r, nvec with
  | k :: r', n :: nv' => class_ok n k = true /\ md_ok nv' r'
  | [], _ => True
  | _ :: _, [] => False
  end.

Lemma md_row_enc nvec r : md_ok nvec r -> md_row nvec r = Some (md_enc nvec r).
Proof.
  revert nvec; induction r as [|k r IH]; intros [|n nv] H; cbn in *; auto; try contradiction.
  destruct H as [H1 H2]. rewrite H1, (IH nv H2). reflexivity.
Qed.

Lemma md_enc_length nvec r : length r = length nvec -> length (md_enc nvec r) = sum nvec.
Proof.
  revert nvec; induction r as [|k r IH]; intros [|n nv] H; cbn in *; auto; try lia.
  rewrite app_length, one_hot_row_length, IH; auto.
Qed.

Lemma md_rows_enc nvec rs : Forall (md_ok nvec) rs -> md_rows nvec rs = Some (concat (map (md_enc nvec) rs)).
Proof.
  induction 1 as [|r rs Hr H IH]; cbn; auto. rewrite (md_row_enc _ _ Hr), IH. reflexivity.
Qed.

Lemma add_batch_dim_rank_only t s s' :
  length s = length s' -> rank t <> length s + 2 -> add_batch_dim t s = add_batch_dim t s'.
Proof.
  intros H Hr. unfold add_batch_dim. rewrite <- H.
  destruct (rank t =? length s); auto.
  destruct (Nat.eqb_spec (rank t) (length s + 2)); [contradiction|]. reflexivity.
Qed.

Definition md_rows_in (nvec : list nat) (lead : list nat) (t : tq) : list (list Z) :=
  chunks (length nvec) (prod lead) (map qlong (dat t)).

Lemma prep_md_spec_lemma (fixed : bool) nvec t lead :
  shp t = lead ++ [length nvec] -> length nvec <> 0 -> sum nvec <> 0 ->
  length lead <= (if fixed then 2 else 1) ->
  Forall (md_ok nvec) (md_rows_in nvec lead t) ->
  prep_md fixed nvec t = Some (T [prod lead; sum nvec] (concat (map (md_enc nvec) (md_rows_in nvec lead t)))).
Proof.
  intros Hs Hk HS Hl Hok. unfold prep_md.
  assert (H1 : add_batch_dim t (if fixed then [length nvec] else [sum nvec]) = Some (T [prod lead; length nvec] (dat t))).
  { destruct fixed.
    - apply add_batch_dim_spec; auto. intros _. cbn. lia.
    - rewrite (add_batch_dim_rank_only t [sum nvec] [length nvec]); auto.
      + apply add_batch_dim_spec; auto; lia.
      + unfold rank. rewrite Hs, app_length. cbn. lia. }
  rewrite H1. cbn [shp dat].
  destruct (Nat.eqb_spec (length nvec) 0); [contradiction|].
  unfold md_rows_in in *. rewrite (md_rows_enc _ _ Hok), firstn_all.
  rewrite (add_batch_dim_spec _ [sum nvec] [prod lead; 1]); cbn [shp dat app length]; auto.
  - cbn [prod fold_right]. rewrite !Nat.mul_1_r. reflexivity.
  - intros _. cbn. lia.
Qed.

(* preparing a batch of MultiDiscrete observations = preparing each row on its own *)
Lemma prep_md_rowwise (fixed : bool) nvec t lead :
  shp t = lead ++ [length nvec] -> length nvec <> 0 -> sum nvec <> 0 ->
  length lead <= (if fixed then 2 else 1) -> wf t ->
  Forall (md_ok nvec) (md_rows_in nvec lead t) ->
  exists t', prep_md fixed nvec t = Some t' /\ shp t' = [prod lead; sum nvec] /\
    Forall2 (fun row r_in => prep_md fixed nvec (T [length nvec] r_in) = Some (T [1; sum nvec] row))
            (rows t') (chunks (length nvec) (prod lead) (dat t)).
Proof.
  intros Hs Hk HS Hl Hwf Hok.
  eexists; split; [apply (prep_md_spec_lemma fixed nvec t lead); auto|]. split; [reflexivity|].
  unfold rows; cbn [shp dat]. change (prod [sum nvec]) with (sum nvec * 1). rewrite Nat.mul_1_r.
  assert (Hlen : length (dat t) = prod lead * length nvec).
  { unfold wf in Hwf. rewrite Hwf, Hs, prod_app. cbn. lia. }
  unfold md_rows_in in *. rewrite chunks_map in *.
  pose proof (chunks_all_length _ _ _ Hlen) as Hall.
  set (rs := chunks (length nvec) (prod lead) (dat t)) in *.
  replace (prod lead) with (length (map (md_enc nvec) (map (map qlong) rs)))
    by (rewrite !map_length; apply chunks_length).
  rewrite chunks_concat.
  - clearbody rs. induction rs as [|r rs IH]; cbn [map]; constructor.
    + inversion Hall; inversion Hok; subst.
      rewrite (prep_md_spec_lemma fixed nvec (T [length nvec] r) []); cbn [shp dat app]; auto.
      * unfold md_rows_in. cbn [prod fold_right dat chunks map concat].
        rewrite app_nil_r. rewrite <- (map_length qlong r) in H1. rewrite <- H1 at 1. rewrite firstn_all. reflexivity.
      * destruct fixed; cbn; lia.
      * unfold md_rows_in. cbn [prod fold_right dat chunks]. constructor; [|constructor].
        rewrite <- (map_length qlong r) in H1. rewrite <- H1, firstn_all. auto.
    + inversion Hall; inversion Hok; subst. apply IH; auto.
  - apply Forall_forall. intros y Hy. apply in_map_iff in Hy as [r [<- Hr]].
    apply md_enc_length. apply in_map_iff in Hr as [r0 [<- Hr0]]. rewrite map_length.
    rewrite Forall_forall in Hall. auto.
Qed.

(* ------------------------------------------------------------------ all leaf spaces at once *)
(* the inputs the property speaks about: lead ++ space shape with at most two leading dimensions
   (unbatched, batch, batch-of-one, (step, env)), as many data as the shape says, legal classes *)
Definition supported (mdf : bool) (l : leaf) (lead : list nat) (t : tq) : Prop :=
  shp t = lead ++ space_shape l /\ length lead <= 2 /\ wf t /\
  match l with
  | Box s _ lo hi => prod s <> 0 /\ (length s = 3 -> length lo = prod s /\ length hi = prod s)
  | Discrete n => 1 <= n /\ classes_ok n (dat t)
  | MultiDiscrete nvec => length nvec <> 0 /\ sum nvec <> 0 /\ Forall (md_ok nvec) (md_rows_in nvec lead t)
                          /\ length lead <= (if mdf then 2 else 1)
  | MultiBinary n => n <> 0
  end.

Lemma filter_length_le {A} (f : A -> bool) l : length (filter f l) <= length l.
Proof. induction l; cbn; auto. destruct (f a); cbn; lia. Qed.

Lemma sq_length n s : length (sq n s) <= length s.
Proof. unfold sq. destruct (1 <? n); auto. apply filter_length_le. Qed.

Lemma chunks_one {A} (l : list A) : chunks 1 (length l) l = map (fun x => [x]) l.
Proof. induction l; cbn; auto. f_equal. auto. Qed.

Lemma prep_shape_lemma mdf nz l lead t :
  supported mdf l lead t ->
  exists t', prep_leaf mdf nz l t = Some t' /\ shp t' = prod lead :: net_input_shape l.
Proof.
  intros (Hs & Hl & Hwf & H). destruct l as [s b lo hi|n|nvec|n]; cbn [space_shape net_input_shape prep_leaf] in *.
  - destruct H as [Hp _]. eexists; split; [apply (prep_box_spec nz s b lo hi t lead); auto|reflexivity].
  - destruct H as [Hn Hc]. rewrite app_nil_r in Hs.
    eexists; split; [apply prep_discrete_spec_lemma; auto|].
    + rewrite Hs. pose proof (sq_length n lead). lia.
    + cbn. rewrite Hs. reflexivity.
  - destruct H as (Hk & HS & Hok & Hl2).
    eexists; split; [apply (prep_md_spec_lemma mdf nvec t lead); auto|reflexivity].
  - eexists; split; [apply (prep_mb_spec mdf nz n t lead); auto|reflexivity].
Qed.

Lemma prep_rowwise_lemma mdf nz l lead t :
  supported mdf l lead t ->
  exists t', prep_leaf mdf nz l t = Some t' /\
    Forall2 (fun row r_in => prep_leaf mdf nz l (T (space_shape l) r_in) = Some (T (1 :: net_input_shape l) row))
            (rows t') (chunks (prod (space_shape l)) (prod lead) (dat t)).
Proof.
  intros (Hs & Hl & Hwf & H). destruct l as [s b lo hi|n|nvec|n]; cbn [space_shape net_input_shape prep_leaf] in *.
  - destruct H as [Hp Hb].
    destruct (prep_box_rowwise nz s b lo hi t lead Hs Hl Hp Hwf Hb) as (t' & H1 & _ & H2). eauto.
  - destruct H as [Hn Hc]. rewrite app_nil_r in Hs.
    destruct (prep_discrete_rowwise n t Hn Hc) as (t' & H1 & _ & H2); auto.
    + rewrite Hs. pose proof (sq_length n lead). lia.
    + exists t'. split; auto. change (prod []) with 1.
      replace (prod lead) with (length (dat t)) by (unfold wf in Hwf; rewrite Hwf, Hs; auto).
      rewrite chunks_one. clear -H2. induction H2; cbn; constructor; auto.
  - destruct H as (Hk & HS & Hok & Hl2).
    destruct (prep_md_rowwise mdf nvec t lead Hs Hk HS Hl2 Hwf Hok) as (t' & H1 & _ & H2).
    exists t'. split; auto. change (prod [length nvec]) with (length nvec * 1). rewrite Nat.mul_1_r. auto.
  - destruct (prep_mb_rowwise mdf nz n t lead Hs Hl H Hwf) as (t' & H1 & _ & H2).
    exists t'. split; auto. change (prod [n]) with (n * 1). rewrite Nat.mul_1_r. auto.
Qed.

Lemma norm_correct_lemma lo hi (rs : list (list Q)) :
  length lo <> 0 -> Forall (fun r => length r = length lo) rs -> length hi = length lo ->
  norm_data lo hi (concat rs) = concat (map (norm_row lo hi) rs) /\
  forall r j, In r rs -> j < length r ->
    nth j (norm_row lo hi r) 0%Q == (nth j r 0%Q - nth j lo 0%Q) / (nth j hi 0%Q - nth j lo 0%Q).
Proof.
  intros Hm H Hh. split; [apply norm_data_rows; auto|].
  intros r j Hr Hj. rewrite Forall_forall in H. specialize (H r Hr).
  apply norm_row_nth; congruence.
Qed.

Lemma batch_independent_full (O : Type) mdf nz l lead t (f : list Q -> O) :
  supported mdf l lead t ->
  exists t', prep_leaf mdf nz l t = Some t' /\
    Forall2 (fun out r_in => exists row,
                 prep_leaf mdf nz l (T (space_shape l) r_in) = Some (T (1 :: net_input_shape l) row) /\ out = f row)
            (map f (rows t')) (chunks (prod (space_shape l)) (prod lead) (dat t)).
Proof.
  intros H. destruct (prep_rowwise_lemma mdf nz l lead t H) as (t' & H1 & H2).
  exists t'. split; auto. apply (batch_independent_lemma _ f _ _ H2).
Qed.

(* ------------------------------------------------------------------ Dict / Tuple: member by member *)
Lemma prep_dict_members mdf nz fields items ps :
  prep_dict mdf nz fields items = Some ps <->
  Forall2 (fun it p => fst it = fst p /\ exists l, lookup (fst it) fields = Some l /\ prep_leaf mdf nz l (snd it) = Some (snd p))
          items ps.
Proof.
  revert ps; induction items as [|[k t] items IH]; intros ps; cbn [prep_dict].
  - split; [intros H; injection H as <-; constructor|intros H; inversion H; reflexivity].
  - destruct (lookup k fields) as [l|] eqn:Hl.
    + destruct (prep_leaf mdf nz l t) as [p|] eqn:Hp.
      * destruct (prep_dict mdf nz fields items) as [ps'|] eqn:Hps.
        -- split.
           ++ intros H; injection H as <-. constructor; [cbn; split; auto; exists l; auto|apply IH; auto].
           ++ intros H. inversion H as [|? [k' p'] ? ps'' [Hk [l' [Hl' Hp']]] Hrest]; subst; cbn in *. subst k'.
              rewrite Hl in Hl'. injection Hl' as <-. rewrite Hp in Hp'. injection Hp' as <-.
              apply IH in Hrest. injection Hrest as <-. reflexivity.
        -- split; [discriminate|]. intros H. inversion H as [|? ? ? ps'' _ Hrest]; subst.
           apply IH in Hrest. discriminate.
      * split; [discriminate|]. intros H. inversion H as [|? [k' p'] ? ? [Hk [l' [Hl' Hp']]] _]; subst; cbn in *.
        rewrite Hl in Hl'. injection Hl' as <-. rewrite Hp in Hp'. discriminate.
    + split; [discriminate|]. intros H. inversion H as [|? ? ? ? [Hk [l' [Hl' _]]] _]; subst; cbn in *. rewrite Hl in Hl'. discriminate.
Qed.

Lemma prep_tuple_members mdf nz members items ps :
  length items = length members ->
  (prep_tuple mdf nz members items = Some ps <->
   Forall2 (fun lt p => prep_leaf mdf nz (fst lt) (snd lt) = Some p) (combine members items) ps).
Proof.
  revert members ps; induction items as [|t items IH]; intros [|l members] ps Hlen; cbn in Hlen; try lia; cbn [prep_tuple combine].
  - split; [intros H; injection H as <-; constructor|intros H; inversion H; reflexivity].
  - destruct (prep_leaf mdf nz l t) as [p|] eqn:Hp.
    + destruct (prep_tuple mdf nz members items) as [ps'|] eqn:Hps.
      * split.
        -- intros H; injection H as <-. constructor; auto. apply IH; auto.
        -- intros H. inversion H as [|? p' ? ps'' Hp' Hrest]; subst; cbn in *.
           rewrite Hp in Hp'. injection Hp' as <-. apply IH in Hrest; auto. rewrite Hps in Hrest. injection Hrest as <-. reflexivity.
      * split; [discriminate|]. intros H. inversion H as [|? ? ? ps'' _ Hrest]; subst.
        apply IH in Hrest; auto. rewrite Hps in Hrest. discriminate.
    + split; [discriminate|]. intros H. inversion H as [|? ? ? ? Hp' _]; subst; cbn in *. rewrite Hp in Hp'. discriminate.
Qed.
(* ------------------------------------------------------------------ stack_critic_observations *)
Lemma hd_nth0 {A} (d : A) l : hd d l = nth 0 l d.
Proof. destruct l; reflexivity. Qed.
Lemma nth_tl {A} (d : A) j l : nth j (tl l) d = nth (S j) l d.
Proof. destruct l; cbn; auto. destruct j; reflexivity. Qed.

Lemma transpose_rows_spec {A} n (pa : list (list (list A))) :
  transpose_rows n pa = map (fun j => map (fun rs => nth j rs []) pa) (seq 0 n).
Proof.
  revert pa; induction n; intros pa; [reflexivity|].
  cbn [transpose_rows]. rewrite IHn. rewrite <- cons_seq, <- seq_shift. cbn [map]. rewrite (map_map S). f_equal.
  - apply map_ext. intros; apply hd_nth0.
  - apply map_ext. intros j. rewrite map_map. apply map_ext. intros rs. apply nth_tl.
Qed.

Lemma length_concat_map {A B} (f : A -> list B) l : length (concat (map f l)) = sum (map (fun x => length (f x)) l).
Proof. induction l; cbn; auto. rewrite app_length, IHl. reflexivity. Qed.

Lemma nth_chunks_length {A} k n (l : list A) j : length l = n * k -> j < n -> length (nth j (chunks k n l) []) = k.
Proof.
  intros H Hj. pose proof (chunks_all_length k n l H) as Hall. rewrite Forall_forall in Hall.
  apply Hall. apply nth_In. rewrite chunks_length. auto.
Qed.

(* vector observations: row b of the centralised critic's input is the concatenation of the agents' rows b,
   in the order of the dict values — nothing of another environment's row enters it *)
Lemma cat1_rows_lemma ts b :
  ts <> [] -> Forall (fun t => exists w, shp t = [b; w] /\ wf t) ts ->
  exists t', stack_critic false ts = Some t' /\
    shp t' = [b; sum (map (fun t => prod (tl (shp t))) ts)] /\
    rows t' = map (fun j => concat (map (fun t => nth j (rows t) []) ts)) (seq 0 b).
Proof.
  intros Hne Hall. unfold stack_critic, cat1. destruct ts as [|t0 ts']; [congruence|].
  set (ts := t0 :: ts') in *.
  assert (H0 : exists w, shp t0 = [b; w]) by (inversion Hall as [|? ? [w [Hw _]] _]; eauto).
  destruct H0 as [w0 Hs0]. rewrite Hs0.
  assert (Hchk : forallb (fun t => match shp t with b' :: r' => (b' =? b) && (length r' =? 1) | [] => false end) ts = true).
  { apply forallb_forall. intros t Ht. rewrite Forall_forall in Hall. destruct (Hall t Ht) as [w [Hw _]].
    rewrite Hw. cbn. rewrite Nat.eqb_refl. reflexivity. }
  rewrite Hchk. eexists; split; [reflexivity|]. split; [reflexivity|].
  unfold rows at 1; cbn [shp dat]. rewrite transpose_rows_spec, map_map.
  set (W := sum (map (fun t => prod (tl (shp t))) ts)).
  change (prod [W]) with (W * 1). rewrite Nat.mul_1_r.
  set (L := map (fun j => concat (map (fun rs : list (list Q) => nth j rs []) (map rows ts))) (seq 0 b)).
  assert (HL : L = map (fun j => concat (map (fun t => nth j (rows t) []) ts)) (seq 0 b)).
  { unfold L. apply map_ext. intros j. rewrite map_map. reflexivity. }
  assert (Hlen : length L = b) by (unfold L; rewrite map_length, seq_length; reflexivity).
  rewrite <- Hlen at 1. rewrite chunks_concat; [exact HL|].
  rewrite HL. apply Forall_forall. intros y Hy. apply in_map_iff in Hy as [j [<- Hj]]. apply in_seq in Hj.
  rewrite length_concat_map. unfold W. f_equal. apply map_ext_in. intros t Ht.
  rewrite Forall_forall in Hall. destruct (Hall t Ht) as [w [Hw Hwf]].
  unfold rows. rewrite Hw. cbn [tl]. apply nth_chunks_length; [|lia].
  unfold wf in Hwf. rewrite Hwf, Hw. cbn. lia.
Qed.

(* image observations [B; C; H; W] stacked on dim 2: plane (b, c) of the result holds the agents' planes (b, c)
   one after the other, in the order of the dict values *)
Lemma stack2_rows_lemma ts b c h w :
  ts <> [] -> Forall (fun t => shp t = [b; c; h; w] /\ wf t) ts ->
  exists t', stack_critic true ts = Some t' /\
    shp t' = [b; c; length ts; h; w] /\
    chunks (length ts * (h * w)) (b * c) (dat t')
    = map (fun j => concat (map (fun t => nth j (chunks (h * w) (b * c) (dat t)) []) ts)) (seq 0 (b * c)).
Proof.
  intros Hne Hall. unfold stack_critic, stack2. destruct ts as [|t0 ts']; [congruence|].
  set (ts := t0 :: ts') in *.
  assert (Hs0 : shp t0 = [b; c; h; w]) by (inversion Hall as [|? ? [Hw _] _]; auto).
  rewrite Hs0.
  assert (Hchk : forallb (fun t => match shp t with
                                   | [b'; c'; h'; w'] => (b' =? b) && (c' =? c) && (h' =? h) && (w' =? w)
                                   | _ => false end) ts = true).
  { apply forallb_forall. intros t Ht. rewrite Forall_forall in Hall. destruct (Hall t Ht) as [Hw _].
    rewrite Hw. rewrite !Nat.eqb_refl. reflexivity. }
  rewrite Hchk. eexists; split; [reflexivity|]. split; [reflexivity|].
  cbn [dat]. rewrite transpose_rows_spec, map_map.
  set (L := map (fun j => concat (map (fun rs : list (list Q) => nth j rs []) (map (fun t => chunks (h * w) (b * c) (dat t)) ts)))
                (seq 0 (b * c))).
  assert (HL : L = map (fun j => concat (map (fun t => nth j (chunks (h * w) (b * c) (dat t)) []) ts)) (seq 0 (b * c))).
  { unfold L. apply map_ext. intros j. rewrite map_map. reflexivity. }
  assert (Hlen : length L = b * c) by (unfold L; rewrite map_length, seq_length; reflexivity).
  rewrite <- Hlen at 1. rewrite chunks_concat; [exact HL|].
  rewrite HL. apply Forall_forall. intros y Hy. apply in_map_iff in Hy as [j [<- Hj]]. apply in_seq in Hj.
  rewrite length_concat_map.
  assert (Hsum : forall (l : list tq) k, (forall t, In t l -> length (nth j (chunks (h * w) (b * c) (dat t)) []) = k) ->
                 sum (map (fun t => length (nth j (chunks (h * w) (b * c) (dat t)) [])) l) = length l * k).
  { unfold sum. induction l as [|x l IH]; intros k Hk; cbn [map fold_right length]; auto.
    rewrite (Hk x) by (left; auto). rewrite (IH k); [lia|]. intros; apply Hk; right; auto. }
  apply Hsum. intros t Ht. rewrite Forall_forall in Hall. destruct (Hall t Ht) as [Hw Hwf].
  apply nth_chunks_length; [|lia]. unfold wf in Hwf. rewrite Hwf, Hw. cbn. lia.
Qed.

(* the tree's MultiDiscrete branch and the repaired one differ only on rank-3 inputs *)
Lemma prep_md_fixed_agrees_lemma nvec t : rank t <> 3 -> prep_md false nvec t = prep_md true nvec t.
Proof.
  intros H. unfold prep_md. rewrite (add_batch_dim_rank_only t [sum nvec] [length nvec]); auto.
Qed.
(* ------------------------------------------------------------------ batch composition and ordering *)
Lemma Forall2_nth {A B} (R : A -> B -> Prop) l1 l2 d1 d2 i :
  Forall2 R l1 l2 -> i < length l1 -> R (nth i l1 d1) (nth i l2 d2).
Proof.
  intros H; revert i; induction H; intros i Hi; cbn in *; [lia|].
  destruct i; auto. apply IHForall2. lia.
Qed.

Lemma Forall2_length {A B} (R : A -> B -> Prop) l1 l2 : Forall2 R l1 l2 -> length l1 = length l2.
Proof. induction 1; cbn; auto. Qed.

(* the prepared row of an observation depends on that observation only: not on its position in the batch,
   not on the batch size or (step, env) layout, not on the other observations sharing the call *)
Lemma prep_row_determined_lemma mdf nz l lead1 t1 lead2 t2 t1' t2' i j :
  supported mdf l lead1 t1 -> supported mdf l lead2 t2 ->
  prep_leaf mdf nz l t1 = Some t1' -> prep_leaf mdf nz l t2 = Some t2' ->
  i < prod lead1 -> j < prod lead2 ->
  nth i (chunks (prod (space_shape l)) (prod lead1) (dat t1)) [] = nth j (chunks (prod (space_shape l)) (prod lead2) (dat t2)) [] ->
  nth i (rows t1') [] = nth j (rows t2') [].
Proof.
  intros S1 S2 H1 H2 Hi Hj Heq.
  destruct (prep_rowwise_lemma mdf nz l lead1 t1 S1) as (u1 & Hu1 & F1).
  destruct (prep_rowwise_lemma mdf nz l lead2 t2 S2) as (u2 & Hu2 & F2).
  rewrite H1 in Hu1; injection Hu1 as <-. rewrite H2 in Hu2; injection Hu2 as <-.
  pose proof (Forall2_length _ _ _ F1) as L1. pose proof (Forall2_length _ _ _ F2) as L2.
  rewrite chunks_length in L1, L2.
  pose proof (Forall2_nth _ _ _ [] [] i F1 ltac:(lia)) as R1.
  pose proof (Forall2_nth _ _ _ [] [] j F2 ltac:(lia)) as R2.
  cbv beta in R1, R2. rewrite Heq in R1. rewrite R1 in R2. injection R2 as ->. reflexivity.
Qed.
(* ------------------------------------------------------------------ Dict / Tuple: shapes *)
Lemma prep_dict_shape_lemma mdf nz fields items lead :
  Forall (fun it => exists l, lookup (fst it) fields = Some l /\ supported mdf l lead (snd it)) items ->
  exists ps, prep_dict mdf nz fields items = Some ps /\
    Forall2 (fun it p => fst it = fst p /\ exists l, lookup (fst it) fields = Some l /\
                         shp (snd p) = prod lead :: net_input_shape l) items ps.
Proof.
  induction 1 as [|[k t] items [l [Hl Hs]] _ [ps [Hps Hsh]]]; cbn [prep_dict].
  - exists []. split; [reflexivity|constructor].
  - cbn [fst snd] in *. rewrite Hl.
    destruct (prep_shape_lemma mdf nz l lead t Hs) as [p [Hp Hshape]].
    rewrite Hp, Hps. exists ((k, p) :: ps). split; [reflexivity|].
    constructor; auto. cbn. split; auto. exists l. auto.
Qed.

Lemma prep_tuple_shape_lemma mdf nz members items lead :
  Forall2 (fun l t => supported mdf l lead t) members items ->
  exists ps, prep_tuple mdf nz members items = Some ps /\
    Forall2 (fun l p => shp p = prod lead :: net_input_shape l) members ps.
Proof.
  induction 1 as [|l t members items Hs _ [ps [Hps Hsh]]]; cbn [prep_tuple].
  - exists []. split; [reflexivity|constructor].
  - destruct (prep_shape_lemma mdf nz l lead t Hs) as [p [Hp Hshape]].
    rewrite Hp, Hps. exists (p :: ps). split; [reflexivity|]. constructor; auto.
Qed.
(* ================================================================== deepening round *)
(* ---- the generic Dict/Tuple handling instantiated with prep_leaf is the original prep *)
Lemma prep_dict_g_is mdf nz fields items : prep_dict_g (prep_leaf mdf nz) fields items = prep_dict mdf nz fields items.
Proof. induction items as [|[k t] items IH]; cbn; auto. rewrite IH. reflexivity. Qed.
Lemma prep_tuple_g_is mdf nz members items : prep_tuple_g (prep_leaf mdf nz) members items = prep_tuple mdf nz members items.
Proof. revert members; induction items as [|t items IH]; intros [|l ms]; cbn; auto. rewrite IH. reflexivity. Qed.
Lemma prep_g_is_prep_lemma mdf nz sp o : prep_g (prep_leaf mdf nz) sp o = prep mdf nz sp o.
Proof. destruct sp, o; cbn; auto; rewrite ?prep_dict_g_is, ?prep_tuple_g_is; reflexivity. Qed.

Lemma prep_leaf_r_false mdf nz l t : prep_leaf_r false mdf nz l t = prep_leaf mdf nz l t.
Proof. destruct l as [[|d s] b lo hi|n|nvec|n]; reflexivity. Qed.
Lemma prep_r_false_lemma mdf nz sp o : prep_r false mdf nz sp o = prep mdf nz sp o.
Proof.
  unfold prep_r. rewrite <- prep_g_is_prep_lemma.
  assert (Hd : forall fields items, prep_dict_g (prep_leaf_r false mdf nz) fields items = prep_dict_g (prep_leaf mdf nz) fields items).
  { intros fields items. induction items as [|[k t] items IH]; cbn; auto. rewrite IH.
    destruct (lookup k fields); auto. rewrite prep_leaf_r_false. reflexivity. }
  assert (Ht : forall members items, prep_tuple_g (prep_leaf_r false mdf nz) members items = prep_tuple_g (prep_leaf mdf nz) members items).
  { intros members items. revert members; induction items as [|t items IH]; intros [|l ms]; cbn; auto.
    rewrite IH, prep_leaf_r_false. reflexivity. }
  destruct sp, o; cbn; auto; rewrite ?prep_leaf_r_false, ?Hd, ?Ht; reflexivity.
Qed.

(* ---- rank-0 Box with a feature axis *)
Lemma prep_rank0_spec b lo hi mdf nz t lead :
  shp t = lead -> length lead <= 2 ->
  prep_leaf_r true mdf nz (Box [] b lo hi) t = Some (T [prod lead; 1] (dat t)).
Proof.
  intros Hs Hl. cbn [prep_leaf_r].
  apply (add_batch_dim_spec (unsqueeze_last t) [1] lead); auto; [cbn; rewrite Hs; reflexivity|intros _; cbn; lia].
Qed.

Lemma prep_shape_r_lemma mdf nz l lead t :
  supported mdf l lead t ->
  exists t', prep_leaf_r true mdf nz l t = Some t' /\ shp t' = prod lead :: encoder_input_shape l.
Proof.
  intros H. destruct l as [[|d s] b lo hi|n|nvec|n];
    try (exact (prep_shape_lemma mdf nz _ lead t H)).
  destruct H as (Hs & Hl & _). cbn [space_shape] in Hs. rewrite app_nil_r in Hs.
  eexists; split; [apply prep_rank0_spec; eauto|reflexivity].
Qed.

Lemma prep_rowwise_r_lemma mdf nz l lead t :
  supported mdf l lead t ->
  exists t', prep_leaf_r true mdf nz l t = Some t' /\
    Forall2 (fun row r_in => prep_leaf_r true mdf nz l (T (space_shape l) r_in) = Some (T (1 :: encoder_input_shape l) row))
            (rows t') (chunks (prod (space_shape l)) (prod lead) (dat t)).
Proof.
  intros H. destruct l as [[|d s] b lo hi|n|nvec|n];
    try (exact (prep_rowwise_lemma mdf nz _ lead t H)).
  destruct H as (Hs & Hl & Hwf & _). cbn [space_shape] in *. rewrite app_nil_r in Hs.
  eexists; split; [apply prep_rank0_spec; eauto|].
  unfold rows; cbn [shp dat]. change (prod [1]) with 1. change (prod []) with 1.
  generalize (chunks 1 (prod lead) (dat t)). intros rs. induction rs; constructor; auto.
Qed.

(* ---- the network accepts every prepared supported input and reports row by row *)
Lemma get_action_accepts_lemma {O} mdf nz l lead t (f : list Q -> O) :
  supported mdf l lead t ->
  exists t', prep_leaf_r true mdf nz l t = Some t' /\
             get_action_model true mdf nz l f t = Some (map f (rows t')).
Proof.
  intros H. destruct (prep_shape_r_lemma mdf nz l lead t H) as (t' & Hp & Hshape).
  exists t'. split; auto. unfold get_action_model. rewrite Hp. unfold net_rows. rewrite Hshape.
  destruct (list_eq_dec Nat.eq_dec (encoder_input_shape l) (encoder_input_shape l)); [reflexivity|congruence].
Qed.

(* before the repair: a batch of three scalar Box observations is prepared as (3,), which a one-feature encoder
   cannot read — although each of the three observations alone is served *)
Lemma rank0_batch_pinned_refuted_lemma :
  exists b lo hi t, supported true (Box [] b lo hi) [3] t /\
    get_action_model false true true (Box [] b lo hi) (fun r => r) t = None /\
    Forall (fun x => get_action_model false true true (Box [] b lo hi) (fun r => r) (T [] [x]) = Some [[x]]) (dat t) /\
    get_action_model true true true (Box [] b lo hi) (fun r => r) t = Some (map (fun x => [x]) (dat t)).
Proof.
  exists true, [], [], (T [3] [1#2; 1#4; 0]%Q).
  split; [repeat split; cbn; auto; try lia; try discriminate|]. split; [reflexivity|]. split; [repeat constructor|reflexivity].
Qed.

(* ---- MultiBinary with several dimensions is batched as if it had rank 1 *)
Lemma prep_mb_nd_refuted_lemma dims t :
  length dims = 2 ->
  (shp t = dims -> prep_mb_nd dims t = Some t) /\                          (* unbatched: NO batch dimension is added *)
  (forall b, shp t = b :: dims -> prep_mb_nd dims t = None) /\              (* a batch is an error *)
  (forall d, shp t = [d] -> prep_mb_nd dims t = Some (unsqueeze0 t)).
Proof.
  intros Hd. unfold prep_mb_nd, rank. repeat split.
  - intros Hs. rewrite Hs, Hd. reflexivity.
  - intros b Hs. rewrite Hs. cbn [length]. rewrite Hd. reflexivity.
  - intros d Hs. rewrite Hs. reflexivity.
Qed.
(* ---- the prepared tensor is well formed, so every prepared row has exactly the encoder's input size *)
Lemma flat_map_length_uniform {A B} (f : A -> list B) k (l : list A) :
  (forall x, In x l -> length (f x) = k) -> length (flat_map f l) = length l * k.
Proof.
  induction l as [|a l IH]; intros H; cbn; auto.
  rewrite app_length, (H a) by (left; auto). rewrite IH; [lia|]. intros; apply H; right; auto.
Qed.

Lemma prep_wf_lemma mdf nz l lead t :
  supported mdf l lead t ->
  exists t', prep_leaf_r true mdf nz l t = Some t' /\ shp t' = prod lead :: encoder_input_shape l /\ wf t'.
Proof.
  intros H. pose proof H as (Hs & Hl & Hwf & Hk).
  destruct l as [[|d s] b lo hi|n|nvec|n].
  - (* rank-0 Box *)
    cbn [space_shape] in Hs. rewrite app_nil_r in Hs.
    eexists; split; [apply prep_rank0_spec; eauto|]. split; [reflexivity|].
    unfold wf in *. cbn [shp dat]. rewrite Hwf, Hs. cbn. lia.
  - (* Box of rank >= 1 *)
    destruct Hk as [Hp Hb]. cbn [prep_leaf_r prep_leaf space_shape] in *.
    eexists; split; [apply (prep_box_spec nz (d :: s) b lo hi t lead); auto|]. split; [reflexivity|].
    unfold wf in *. cbn [shp dat].
    assert (Hlen : length (dat t) = prod lead * prod (d :: s)) by (rewrite Hwf, Hs, prod_app; auto).
    change (prod (prod lead :: d :: s)) with (prod lead * prod (d :: s)).
    destruct ((length (d :: s) =? 3) && nz) eqn:Hc.
    + apply andb_true_iff in Hc as [Hc _]. apply Nat.eqb_eq in Hc. destruct (Hb Hc) as [Hlo Hhi].
      rewrite <- (concat_chunks _ _ _ Hlen). rewrite box_values_rows; auto; [|apply chunks_all_length; auto].
      rewrite (concat_length_uniform (prod (d :: s))).
      * rewrite map_length, chunks_length. reflexivity.
      * apply Forall_forall. intros y Hy. apply in_map_iff in Hy as [r [<- Hr]].
        apply box_values_length; auto.
        pose proof (chunks_all_length _ _ _ Hlen) as Hall. rewrite Forall_forall in Hall. auto.
    + unfold box_values. rewrite Hc. auto.
  - (* Discrete *)
    destruct Hk as [Hn Hc]. cbn [space_shape] in Hs. rewrite app_nil_r in Hs.
    cbn [prep_leaf_r prep_leaf]. eexists; split; [apply prep_discrete_spec_lemma; auto|].
    + rewrite Hs. pose proof (sq_length n lead). lia.
    + split; [cbn; rewrite Hs; reflexivity|].
      unfold wf in *. cbn [shp dat]. rewrite (flat_map_length_uniform _ n) by (intros; apply one_hot_row_length).
      rewrite map_length, Hwf. cbn. lia.
  - (* MultiDiscrete *)
    destruct Hk as (Hk & HS & Hok & Hl2). cbn [prep_leaf_r prep_leaf space_shape] in *.
    eexists; split; [apply (prep_md_spec_lemma mdf nvec t lead); auto|]. split; [reflexivity|].
    unfold wf in *. cbn [shp dat].
    assert (Hlen : length (dat t) = prod lead * length nvec) by (rewrite Hwf, Hs, prod_app; cbn; lia).
    rewrite (concat_length_uniform (sum nvec)).
    + unfold md_rows_in. rewrite map_length, chunks_length. cbn. lia.
    + apply Forall_forall. intros y Hy. apply in_map_iff in Hy as [r [<- Hr]]. apply md_enc_length.
      unfold md_rows_in in Hr.
      assert (Hl' : length (map qlong (dat t)) = prod lead * length nvec) by (rewrite map_length; auto).
      pose proof (chunks_all_length _ _ _ Hl') as Hall. rewrite Forall_forall in Hall. auto.
  - (* MultiBinary *)
    cbn [prep_leaf_r space_shape] in *.
    eexists; split; [apply (prep_mb_spec mdf nz n t lead); auto|]. split; [reflexivity|].
    unfold wf in *. cbn [shp dat]. rewrite Hwf, Hs, prod_app. cbn. lia.
Qed.

Lemma nth_In_Forall {A} (P : A -> Prop) l d i : Forall P l -> i < length l -> P (nth i l d).
Proof. intros H Hi. rewrite Forall_forall in H. apply H. apply nth_In. auto. Qed.

(* the final clause of the property, in the model: the report for every observation of a batch is the report for that
   observation handed in alone — whatever the batch size, the (step, env) layout and the other observations *)
Lemma get_action_batch_independent_lemma {O} mdf nz l lead t (f : list Q -> O) :
  supported mdf l lead t ->
  exists outs, get_action_model true mdf nz l f t = Some outs /\
    Forall2 (fun out r_in => get_action_model true mdf nz l f (T (space_shape l) r_in) = Some [out])
            outs (chunks (prod (space_shape l)) (prod lead) (dat t)).
Proof.
  intros H.
  destruct (prep_wf_lemma mdf nz l lead t H) as (t' & Hp & Hshape & Hwf').
  destruct (prep_rowwise_r_lemma mdf nz l lead t H) as (t'' & Hp' & F). rewrite Hp in Hp'. injection Hp' as <-.
  destruct (get_action_accepts_lemma mdf nz l lead t f H) as (t'' & Hp' & Hg). rewrite Hp in Hp'. injection Hp' as <-.
  exists (map f (rows t')). split; auto.
  assert (Hrows : Forall (fun r => length r = prod (encoder_input_shape l)) (rows t')).
  { unfold rows. rewrite Hshape. apply chunks_all_length. unfold wf in Hwf'. rewrite Hwf', Hshape. reflexivity. }
  clear Hg. revert Hrows F.
  generalize (rows t') (chunks (prod (space_shape l)) (prod lead) (dat t)). intros rs ins Hrows F.
  induction F as [|row r_in rs' ins' HR F IH]; cbn [map]; constructor.
  - unfold get_action_model. rewrite HR. unfold net_rows. cbn [shp].
    destruct (list_eq_dec Nat.eq_dec (encoder_input_shape l) (encoder_input_shape l)); [|congruence].
    unfold rows. cbn [shp dat chunks option_map map].
    inversion Hrows as [|? ? Hlen _]; subst. rewrite <- Hlen, firstn_all. reflexivity.
  - apply IH. inversion Hrows; auto.
Qed.
