(* C15 — executable model of observation handling in AgileRL:
   agilerl.utils.algo_utils.{obs_to_tensor, maybe_add_batch_dim, get_vect_dim, preprocess_observation,
   apply_image_normalization} and MultiAgentRLAlgorithm.{preprocess_observation,
   assemble_/disassemble_homogeneous_outputs, stack_critic_observations}, IPPO.preprocess_observation,
   MADDPG/MATD3.get_action routing.
   A tensor is its shape and its row-major data (exact rationals: every float is a dyadic rational).
   Model only (no proofs) so that it still runs when a proof breaks. *)
From Coq Require Import List Arith Bool ZArith QArith.
Import ListNotations.
Open Scope nat_scope.

Record tq := T { shp : list nat; dat : list Q }.

Definition prod (l : list nat) : nat := fold_right Nat.mul 1 l.
Definition numel (t : tq) : nat := prod (shp t).
Definition rank (t : tq) : nat := length (shp t).
(* well-formed: as many data as the shape says *)
Definition wf (t : tq) : Prop := length (dat t) = prod (shp t).

(* ---- torch primitives used by the code ------------------------------------------------------ *)
Definition squeeze_all (t : tq) : tq := T (filter (fun d => negb (d =? 1)) (shp t)) (dat t).
Definition unsqueeze0 (t : tq) : tq := T (1 :: shp t) (dat t).
(* obs.view(-1, *s): an error unless the number of elements is a multiple of prod s (and prod s <> 0) *)
Definition view_rows (t : tq) (s : list nat) : option tq :=
  let p := prod s in
  if p =? 0 then None
  else if numel t mod p =? 0 then Some (T (numel t / p :: s) (dat t)) else None.

(* .long(): truncation towards zero *)
Definition qlong (q : Q) : Z := Z.quot (Qnum q) (Zpos (Qden q)).

Fixpoint one_hot_from (n : nat) (k : Z) (i : nat) : list Q :=
  match n with
  | O => []
  | S n' => (if Z.eqb k (Z.of_nat i) then 1%Q else 0%Q) :: one_hot_from n' k (S i)
  end.
Definition one_hot_row (n : nat) (k : Z) : list Q := one_hot_from n k 0.
(* F.one_hot raises unless 0 <= class < num_classes *)
Definition class_ok (n : nat) (k : Z) : bool := (0 <=? k)%Z && (k <? Z.of_nat n)%Z.
Definition one_hot (n : nat) (t : tq) : option tq :=
  let ks := map qlong (dat t) in
  if forallb (class_ok n) ks then Some (T (shp t ++ [n]) (flat_map (one_hot_row n) ks)) else None.

(* maybe_add_batch_dim(obs, space_shape) *)
Definition add_batch_dim (t : tq) (s : list nat) : option tq :=
  let r := rank t in let k := length s in
  if r =? k then Some (unsqueeze0 t)
  else if r =? k + 2 then view_rows t s
  else if r =? k + 1 then Some t
  else None.

(* n chunks of width k *)
Fixpoint chunks {A} (k n : nat) (l : list A) : list (list A) :=
  match n with O => [] | S n' => firstn k l :: chunks k n' (skipn k l) end.
(* the rows (index of the leading dimension) of a tensor *)
Definition rows (t : tq) : list (list Q) :=
  match shp t with b :: rest => chunks (prod rest) b (dat t) | [] => [] end.

(* ---- spaces -------------------------------------------------------------------------------- *)
(* Box: shape, [bounded] = no +inf in high and no -inf in low, flat low / high (space-shaped) *)
Inductive leaf :=
| Box (s : list nat) (bounded : bool) (lo hi : list Q)
| Discrete (n : nat)
| MultiDiscrete (nvec : list nat)
| MultiBinary (n : nat).

Inductive space :=
| Leaf (l : leaf)
| DictS (fields : list (nat * leaf))     (* key id -> member space *)
| TupleS (members : list leaf).

Definition sum (l : list nat) : nat := fold_right Nat.add 0 l.

(* gymnasium space.shape *)
Definition space_shape (l : leaf) : list nat :=
  match l with
  | Box s _ _ _ => s
  | Discrete _ => []
  | MultiDiscrete nvec => [length nvec]
  | MultiBinary n => [n]
  end.
(* what the encoder of the network is built for *)
Definition net_input_shape (l : leaf) : list nat :=
  match l with
  | Box s _ _ _ => s
  | Discrete n => [n]
  | MultiDiscrete nvec => [sum nvec]
  | MultiBinary n => [n]
  end.

(* ---- apply_image_normalization -------------------------------------------------------------- *)
Definition all_eq (q : Q) (l : list Q) : bool := forallb (fun x => Qeq_bool x q) l.
(* (observation - low) / (high - low), low/high (space-shaped) broadcast over the leading dimensions *)
Fixpoint norm_row (lo hi row : list Q) : list Q :=
  match row, lo, hi with
  | x :: r, l :: lo', h :: hi' => Qred ((x - l) / (h - l)) :: norm_row lo' hi' r
  | _, _, _ => []
  end.
Definition norm_data (lo hi d : list Q) : list Q :=
  let m := length lo in
  if m =? 0 then d else concat (map (norm_row lo hi) (chunks m (length d / m) d)).
Definition normalize (bounded : bool) (lo hi : list Q) (t : tq) : tq :=
  if negb bounded then t
  else if all_eq 1 hi && all_eq 0 lo then t
  else T (shp t) (norm_data lo hi (dat t)).

(* ---- MultiDiscrete: split on dim 1, one-hot each column with nvec[idx], cat on the last dim ---- *)
(* one row of width k': None = IndexError (more columns than nvec) or a class out of range *)
Fixpoint md_row (nvec : list nat) (r : list Z) : option (list Q) :=
  match r with
  | [] => Some []
  | k :: r' =>
    match nvec with
    | [] => None
    | n :: nv' =>
      if class_ok n k then
        match md_row nv' r' with Some x => Some (one_hot_row n k ++ x) | None => None end
      else None
    end
  end.
Fixpoint md_rows (nvec : list nat) (rs : list (list Z)) : option (list Q) :=
  match rs with
  | [] => Some []
  | r :: rs' =>
    match md_row nvec r, md_rows nvec rs' with
    | Some a, Some b => Some (a ++ b)
    | _, _ => None
    end
  end.
(* [fixed] = true: the batch dimension is inferred with the space's own shape (len nvec,)  (repaired);
   false: with (sum nvec,) as pinned in the tree, which turns (step, env, len nvec) inputs into an error *)
Definition prep_md (fixed : bool) (nvec : list nat) (t : tq) : option tq :=
  let s1 := if fixed then [length nvec] else [sum nvec] in
  match add_batch_dim t s1 with
  | None => None
  | Some t1 =>
    match shp t1 with
    | [b; k] =>
      if k =? 0 then None else
      match md_rows nvec (chunks k b (map qlong (dat t1))) with
      | None => None
      | Some d => add_batch_dim (T [b; 1; sum (firstn k nvec)] d) [sum nvec]
      end
    | _ => None
    end
  end.

(* ---- preprocess_observation ----------------------------------------------------------------- *)
Definition prep_box (normalize_images : bool) (s : list nat) (bounded : bool) (lo hi : list Q) (t : tq) : option tq :=
  let t := if (length s =? 3) && normalize_images then normalize bounded lo hi t else t in
  add_batch_dim t s.

Definition prep_discrete (n : nat) (t : tq) : option tq :=
  match one_hot n t with
  | None => None
  | Some o => add_batch_dim (if 1 <? n then squeeze_all o else o) [n]
  end.

Definition prep_leaf (mdfixed normalize_images : bool) (l : leaf) (t : tq) : option tq :=
  match l with
  | Box s b lo hi => prep_box normalize_images s b lo hi t
  | Discrete n => prep_discrete n t
  | MultiDiscrete nvec => prep_md mdfixed nvec t
  | MultiBinary n => add_batch_dim t [n]
  end.

Inductive obs :=
| OLeaf (t : tq)
| ODict (items : list (nat * tq))        (* in the iteration order of the observation dict *)
| OTuple (items : list tq).

Inductive pobs :=
| PLeaf (t : tq)
| PDict (items : list (nat * tq))
| PTuple (items : list tq).

Fixpoint lookup {A} (k : nat) (l : list (nat * A)) : option A :=
  match l with [] => None | (k', v) :: l' => if k =? k' then Some v else lookup k l' end.

Fixpoint prep_dict (mdf nz : bool) (fields : list (nat * leaf)) (items : list (nat * tq)) : option (list (nat * tq)) :=
  match items with
  | [] => Some []
  | (k, t) :: items' =>
    match lookup k fields with
    | None => None
    | Some l =>
      match prep_leaf mdf nz l t, prep_dict mdf nz fields items' with
      | Some p, Some ps => Some ((k, p) :: ps)
      | _, _ => None
      end
    end
  end.
(* zip(observation, space.spaces): stops at the shorter one *)
Fixpoint prep_tuple (mdf nz : bool) (members : list leaf) (items : list tq) : option (list tq) :=
  match items, members with
  | t :: items', l :: members' =>
    match prep_leaf mdf nz l t, prep_tuple mdf nz members' items' with
    | Some p, Some ps => Some (p :: ps)
    | _, _ => None
    end
  | _, _ => Some []
  end.

Definition prep (mdf nz : bool) (sp : space) (o : obs) : option pobs :=
  match sp, o with
  | Leaf l, OLeaf t => option_map PLeaf (prep_leaf mdf nz l t)
  | DictS fields, ODict items => option_map PDict (prep_dict mdf nz fields items)
  | TupleS members, OTuple items => option_map PTuple (prep_tuple mdf nz members items)
  | _, _ => None
  end.

(* ---- get_vect_dim --------------------------------------------------------------------------- *)
(* [fixed] = false models the pinned MultiBinary branch `len(obs.shape) > space.shape` (int > tuple: TypeError) *)
Definition vect_dim_leaf (fixed : bool) (l : leaf) (t : tq) : option nat :=
  match l with
  | MultiBinary _ =>
    if fixed then Some (if length (space_shape l) <? rank t then hd 1 (shp t) else 1) else None
  | _ => Some (if length (space_shape l) <? rank t then hd 1 (shp t) else 1)
  end.
Definition vect_dim (fixed : bool) (sp : space) (o : obs) : option nat :=
  match sp, o with
  | Leaf l, OLeaf t => vect_dim_leaf fixed l t
  | DictS fields, ODict ((k, t) :: _) =>
    match lookup k fields with Some l => vect_dim_leaf fixed l t | None => None end
  | TupleS (l :: _), OTuple (t :: _) => vect_dim_leaf fixed l t
  | _, _ => None
  end.

(* ---- routing of per-agent data through shared policies and centralised critics ---------------- *)
(* np.stack(outputs of the agents of one group, axis 0).reshape(A * E, -1) keeps the row-major data *)
Definition assemble (outs : list (list Q)) : list Q := concat outs.
(* np.reshape(x, (A, E, -1))[i] : agent i gets the i-th of A equal chunks *)
Definition disassemble (nagents : nat) (flat : list Q) : list (list Q) :=
  chunks (length flat / nagents) nagents flat.

(* torch.cat(tensors, dim=0) of row lists *)
Definition cat0 {A} (ts : list (list A)) : list A := concat ts.

(* a multi-agent call: agent ids are numbers; [group a] is the shared (homogeneous) id of agent a.
   IPPO.preprocess_observation: per group, the prepared observations are concatenated in the order in which
   the agents appear in the observation dict [fixed = false], or in agent_ids order [fixed = true]. *)
Section Routing.
Context {R : Type}.               (* a prepared observation row / an output row *)
Variable group : nat -> nat.

Definition members (g : nat) (ids : list nat) : list nat := filter (fun a => group a =? g) ids.

Fixpoint lookup_rows (a : nat) (od : list (nat * list R)) : list R :=
  match od with [] => [] | (a', r) :: od' => if a =? a' then r else lookup_rows a od' end.

(* batch handed to the shared policy of group g *)
Definition ippo_batch (fixed : bool) (agent_ids : list nat) (od : list (nat * list R)) (g : nat) : list R :=
  if fixed
  then cat0 (map (fun a => lookup_rows a od) (filter (fun a => existsb (Nat.eqb a) (map fst od)) (members g agent_ids)))
  else cat0 (map snd (filter (fun p => group (fst p) =? g) od)).

(* disassemble_homogeneous_outputs: chunk i (of E rows) goes to the i-th agent of the group in agent_ids order *)
Definition ippo_route {O} (fixed : bool) (agent_ids : list nat) (E : nat) (net : list R -> list O)
           (od : list (nat * list R)) (g : nat) : list (nat * list O) :=
  let ms := members g agent_ids in
  combine ms (chunks E (length ms) (net (ippo_batch fixed agent_ids od g))).

(* MADDPG / MATD3 get_action: zip(agent_ids, list(preprocessed.values()), actors) *)
Definition maddpg_route {O} (fixed : bool) (agent_ids : list nat) (actor : nat -> list R -> list O)
           (od : list (nat * list R)) : list (nat * list O) :=
  if fixed
  then map (fun a => (a, actor a (lookup_rows a od))) agent_ids
  else map (fun '(a, p) => (a, actor a (snd p))) (combine agent_ids od).
End Routing.

(* stack_critic_observations: per-agent prepared tensors [B; ...] in the order of the dict values.
   vector spaces: torch.cat(dim=1) -> row b is the concatenation of the agents' rows b;
   image spaces [B; C; H; W]: torch.stack(dim=2) -> [B; C; A; H; W]: element (b, c, a, hw) = obs_a (b, c, hw) *)
Fixpoint transpose_rows {A} (nrows : nat) (per_agent : list (list (list A))) : list (list (list A)) :=
  match nrows with
  | O => []
  | S n => map (fun rs => hd [] rs) per_agent :: transpose_rows n (map (fun rs => tl rs) per_agent)
  end.
Definition cat1 (ts : list tq) : option tq :=
  match ts with
  | [] => None
  | t0 :: _ =>
    match shp t0 with
    | b :: _ =>
      if forallb (fun t => match shp t with b' :: r' => (b' =? b) && (length r' =? 1) | [] => false end) ts
      then Some (T [b; sum (map (fun t => prod (tl (shp t))) ts)]
                   (concat (map (fun parts => concat parts) (transpose_rows b (map rows ts)))))
      else None
    | [] => None
    end
  end.
(* stack on dim 2 of [B; C; H; W] tensors: view each as B*C rows of H*W, interleave the agents *)
Definition stack2 (ts : list tq) : option tq :=
  match ts with
  | [] => None
  | t0 :: _ =>
    match shp t0 with
    | [b; c; h; w] =>
      if forallb (fun t => match shp t with [b'; c'; h'; w'] => (b' =? b) && (c' =? c) && (h' =? h) && (w' =? w) | _ => false end) ts
      then Some (T [b; c; length ts; h; w]
                   (concat (map (fun parts => concat parts)
                                (transpose_rows (b * c) (map (fun t => chunks (h * w) (b * c) (dat t)) ts)))))
      else None
    | _ => None
    end
  end.
Definition stack_critic (image : bool) (ts : list tq) : option tq := if image then stack2 ts else cat1 ts.

(* ================= deepening round: rank-0 Box feature axis, generic Dict/Tuple, network input, N-d MultiBinary ========= *)
(* rank-0 Box, repaired: the scalar gets an explicit feature axis (unsqueeze(-1)) and is batched as a (1,) space,
   so that a batch is (B, 1) = batch :: what the encoder (spaces.flatdim = 1 input feature) expects.
   [r0 = false] is the behaviour before the repair: (B,). *)
Definition unsqueeze_last (t : tq) : tq := T (shp t ++ [1]) (dat t).
Definition prep_leaf_r (r0 mdf nz : bool) (l : leaf) (t : tq) : option tq :=
  match l with
  | Box [] _ _ _ => if r0 then add_batch_dim (unsqueeze_last t) [1] else prep_leaf mdf nz l t
  | _ => prep_leaf mdf nz l t
  end.
(* the encoder's input: Box s -> s (rank >= 1) or one feature (rank 0); one-hot widths; n bits *)
Definition encoder_input_shape (l : leaf) : list nat :=
  match l with Box [] _ _ _ => [1] | _ => net_input_shape l end.

(* Dict / Tuple handling over any leaf preparation *)
Section Generic.
Variable pl : leaf -> tq -> option tq.
Fixpoint prep_dict_g (fields : list (nat * leaf)) (items : list (nat * tq)) : option (list (nat * tq)) :=
  match items with
  | [] => Some []
  | (k, t) :: items' =>
    match lookup k fields with
    | None => None
    | Some l =>
      match pl l t, prep_dict_g fields items' with
      | Some p, Some ps => Some ((k, p) :: ps)
      | _, _ => None
      end
    end
  end.
Fixpoint prep_tuple_g (members : list leaf) (items : list tq) : option (list tq) :=
  match items, members with
  | t :: items', l :: members' =>
    match pl l t, prep_tuple_g members' items' with
    | Some p, Some ps => Some (p :: ps)
    | _, _ => None
    end
  | _, _ => Some []
  end.
Definition prep_g (sp : space) (o : obs) : option pobs :=
  match sp, o with
  | Leaf l, OLeaf t => option_map PLeaf (pl l t)
  | DictS fields, ODict items => option_map PDict (prep_dict_g fields items)
  | TupleS members, OTuple items => option_map PTuple (prep_tuple_g members items)
  | _, _ => None
  end.
End Generic.
Definition prep_r (r0 mdf nz : bool) : space -> obs -> option pobs := prep_g (prep_leaf_r r0 mdf nz).

(* what a network built for leaf space l does with a prepared tensor: it needs batch :: encoder input shape and then
   works row by row; a rank-1 tensor of exactly the encoder's (rank-1) input width is read as ONE unbatched row
   (torch Linear semantics); anything else is a shape error *)
Definition net_rows (l : leaf) (p : tq) : option (list (list Q)) :=
  let e := encoder_input_shape l in
  match shp p with
  | b :: rest => if list_eq_dec Nat.eq_dec rest e then Some (rows p)
                 else if (length e =? 1) && (match rest with [] => b =? prod e | _ => false end) then Some [dat p]
                 else None
  | [] => None
  end.
(* get_action of a single-agent algorithm with a row-wise network f: one report per row *)
Definition get_action_model {O} (r0 mdf nz : bool) (l : leaf) (f : list Q -> O) (t : tq) : option (list O) :=
  match prep_leaf_r r0 mdf nz l t with
  | Some p => option_map (map f) (net_rows l p)
  | None => None
  end.

(* MultiBinary(n) with n a sequence (shape = dims, several dimensions): the code batches it with space_shape = (n,),
   i.e. as if the space had rank 1, and the (step, env) branch fails on view(-1, (d1, d2, ..)) *)
Definition prep_mb_nd (dims : list nat) (t : tq) : option tq :=
  let r := rank t in
  if r =? 1 then Some (unsqueeze0 t) else if r =? 3 then None else if r =? 2 then Some t else None.
