(* C15 — boolean comparison of the model with observations of the implementation (used by K only). *)
From Coq Require Import List Arith Bool ZArith QArith Qabs.
Import ListNotations.
From AgileV Require Import C15.Model.
Open Scope nat_scope.

Fixpoint list_eqb {A} (eqb : A -> A -> bool) (a b : list A) : bool :=
  match a, b with
  | [], [] => true
  | x :: a', y :: b' => eqb x y && list_eqb eqb a' b'
  | _, _ => false
  end.
Definition opt_eqb {A} (eqb : A -> A -> bool) (a b : option A) : bool :=
  match a, b with Some x, Some y => eqb x y | None, None => true | _, _ => false end.

(* |a - b| <= tol * max(1, |b|); tol = 0 is exact equality *)
Definition q_close (tol a b : Q) : bool :=
  Qle_bool (Qabs (a - b)) (tol * (if Qle_bool 1 (Qabs b) then Qabs b else 1)).
Definition tq_eqb (tol : Q) (a b : tq) : bool :=
  list_eqb Nat.eqb (shp a) (shp b) && list_eqb (q_close tol) (dat a) (dat b).

Definition pobs_eqb (tol : Q) (a b : pobs) : bool :=
  match a, b with
  | PLeaf x, PLeaf y => tq_eqb tol x y
  | PDict x, PDict y => list_eqb (fun p q => Nat.eqb (fst p) (fst q) && tq_eqb tol (snd p) (snd q)) x y
  | PTuple x, PTuple y => list_eqb (tq_eqb tol) x y
  | _, _ => false
  end.

(* observation of preprocess_observation: Some result, or None when it raised *)
Definition check_prep (mdf nz : bool) (tol : Q) (sp : space) (o : obs) (seen : option pobs) : bool :=
  opt_eqb (pobs_eqb tol) (prep mdf nz sp o) seen.

Definition check_vect (fixed : bool) (sp : space) (o : obs) (seen : option nat) : bool :=
  opt_eqb Nat.eqb (vect_dim fixed sp o) seen.

(* shared ids in order of first appearance *)
Fixpoint dedup (seen l : list nat) : list nat :=
  match l with
  | [] => []
  | x :: r => if existsb (Nat.eqb x) seen then dedup seen r else x :: dedup (x :: seen) r
  end.

(* routing: rows are tags (agent * 100 + env); the shared network is row-wise, so it is the identity on tags *)
Definition route_eqb : list (nat * list nat) -> list (nat * list nat) -> bool :=
  list_eqb (fun p q => Nat.eqb (fst p) (fst q) && list_eqb Nat.eqb (snd p) (snd q)).

Definition check_ippo (fixed : bool) (groups : list (nat * nat)) (agent_ids : list nat) (E : nat)
           (od : list (nat * list nat)) (seen : list (nat * list nat)) : bool :=
  let group := fun a => match lookup a groups with Some g => g | None => 0 end in
  let gs := dedup [] (map group agent_ids) in
  route_eqb (concat (map (fun g => ippo_route group fixed agent_ids E (fun x => x) od g) gs)) seen.

Definition check_maddpg (fixed : bool) (agent_ids : list nat)
           (od : list (nat * list nat)) (seen : list (nat * list nat)) : bool :=
  route_eqb (maddpg_route fixed agent_ids (fun _ x => x) od) seen.

Definition check_stack (image : bool) (ts : list tq) (seen : option tq) : bool :=
  opt_eqb (tq_eqb 0) (stack_critic image ts) seen.

Definition check_disassemble (nagents : nat) (flat : list Q) (seen : list (list Q)) : bool :=
  list_eqb (list_eqb Qeq_bool) (disassemble nagents flat) seen.
Definition check_assemble (outs : list (list Q)) (seen : list Q) : bool :=
  list_eqb Qeq_bool (assemble outs) seen.

(* IPPO.preprocess_observation: per shared id, the prepared observations of its agents concatenated on dim 0 *)
Fixpoint prep_all (mdf nz : bool) (l : leaf) (od : list (nat * tq)) : option (list (nat * list (list Q))) :=
  match od with
  | [] => Some []
  | (a, t) :: od' =>
    match prep_leaf mdf nz l t, prep_all mdf nz l od' with
    | Some p, Some ps => Some ((a, rows p) :: ps)
    | _, _ => None
    end
  end.
Definition rows_eqb (tol : Q) : list (list Q) -> list (list Q) -> bool := list_eqb (list_eqb (q_close tol)).
Definition check_ippo_prep (tol : Q) (fixed mdf nz : bool) (groups : list (nat * nat)) (agent_ids : list nat) (l : leaf)
           (od : list (nat * tq)) (seen : option (list (nat * list (list Q)))) : bool :=
  let group := fun a => match lookup a groups with Some g => g | None => 0 end in
  let gs := dedup [] (map group agent_ids) in
  match prep_all mdf nz l od, seen with
  | Some odr, Some s =>
    list_eqb (fun p q => Nat.eqb (fst p) (fst q) && rows_eqb tol (snd p) (snd q))
             (map (fun g => (g, ippo_batch group fixed agent_ids odr g)) gs) s
  | None, None => true
  | _, _ => false
  end.

(* ================= deepening round ================= *)
Definition check_prep_r (r0 mdf nz : bool) (tol : Q) (sp : space) (o : obs) (seen : option pobs) : bool :=
  opt_eqb (pobs_eqb tol) (prep_r r0 mdf nz sp o) seen.

(* single-agent get_action on a batch vs one observation at a time: the network is row-wise, so the report at
   position i of the batch is the report of the single observation whose prepared row equals prepared row i.
   seen = Some (for every batch position the index of the matching single report) or None when the call raised. *)
Fixpoint find_row (r : list Q) (cands : list (list Q)) (i : nat) : nat :=
  match cands with
  | [] => 4999
  | c :: cs => if list_eqb Qeq_bool r c then i else find_row r cs (S i)
  end.
Definition single_row (r0 mdf nz : bool) (l : leaf) (s : tq) : list Q :=
  match get_action_model r0 mdf nz l (fun r => r) s with Some [r] => r | _ => [] end.
Definition check_batch (r0 mdf nz : bool) (l : leaf) (batch : tq) (singles : list tq) (seen : option (list nat)) : bool :=
  let srows := map (single_row r0 mdf nz l) singles in
  opt_eqb (list_eqb Nat.eqb)
          (option_map (map (fun r => find_row r srows 0)) (get_action_model r0 mdf nz l (fun r => r) batch))
          seen.

Definition check_mbnd (dims : list nat) (t : tq) (seen : option tq) : bool :=
  opt_eqb (tq_eqb 0) (prep_mb_nd dims t) seen.

(* direct calls of the helpers (numpy arrays and tensors alike) *)
Definition check_addbatch (t : tq) (s : list nat) (seen : option tq) : bool :=
  opt_eqb (tq_eqb 0) (add_batch_dim t s) seen.
Definition check_norm (tol : Q) (bounded : bool) (lo hi : list Q) (t : tq) (seen : tq) : bool :=
  tq_eqb tol (normalize bounded lo hi t) seen.
