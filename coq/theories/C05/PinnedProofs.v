(* C05 — the pinned clone violates "the old population is left untouched / the copies share nothing";
   the repaired clone is the one the positive theorems are about. *)
From Coq Require Import List Arith Bool ZArith QArith Lia.
Import ListNotations.
From AgileV Require Import Base.Prelude C05.Model C05.HeapModel C05.HeapProofs C05.PinnedModel.
Local Open Scope nat_scope.

Lemma hclone_all_gen_hclone : forall ms h pop a0, hclone_all_gen hclone h pop a0 ms = hclone_all h pop a0 ms.
Proof.
  induction ms as [|[p i] t IH]; intros h pop a0; cbn [hclone_all_gen hclone_all]; [reflexivity|].
  destruct (hclone h (nth p pop a0) (Some i)) as [a h1]. rewrite IH. reflexivity.
Qed.

(* the generic select instantiated with the repaired clone is the model the theorems are about *)
Lemma select_h_gen_hclone rk c pop draws h : select_h_gen hclone rk c pop draws h = select_h rk c pop draws h.
Proof.
  destruct pop as [|a0 rest]; [reflexivity|]. unfold select_h_gen, select_h.
  destruct (hclone h _ None) as [elite h1].
  destruct (if elitism c then _ else _) as [first h2].
  rewrite hclone_all_gen_hclone. reflexivity.
Qed.

Lemma pin_wf : wf_pop pin_heap pin_pop.
Proof.
  intros a Ha l Hl. cbn in Ha. destruct Ha as [<-|[<-|[]]]; cbn in Hl; cbn;
    repeat (destruct Hl as [<-|Hl]; [lia|]); destruct Hl.
Qed.

(* with the pinned clone (one shared optimizer-state cell) a copy owns an object of the old population *)
Lemma pinned_clone_shares :
  exists e np h', select_h_gen (hclone_pinned 1) [0; 1] pin_cfg pin_pop [[0]] pin_heap = Some (e, np, h') /\
    exists a l, In a pin_pop /\ In l (owned a) /\ In l (concat (map owned (e :: np))).
Proof.
  eexists _, _, _. split; [vm_compute; reflexivity|].
  exists (nth 1 pin_pop (hd (Build_hagent 0 0 []) pin_pop)), 5. cbn. intuition.
Qed.

(* ... and then training the child changes the parent: one write to an object the child owns *)
Lemma pinned_training_changes_parent :
  exists e np h', select_h_gen (hclone_pinned 1) [0; 1] pin_cfg pin_pop [[0]] pin_heap = Some (e, np, h') /\
    exists ws a, (forall w, In w ws -> In (fst w) (concat (map owned (e :: np)))) /\ In a pin_pop /\
                 abs (writes h' ws) a <> abs pin_heap a.
Proof.
  eexists _, _, _. split; [vm_compute; reflexivity|].
  exists [(5, Some (VCell 99))], (nth 1 pin_pop (hd (Build_hagent 0 0 []) pin_pop)).
  split; [intros w [<-|[]]; cbn; intuition|]. split; [cbn; intuition|].
  intros H. apply (f_equal (@a_body _)) in H. vm_compute in H. discriminate H.
Qed.
