(* C05 — proofs about the model of tournament selection. *)
From Coq Require Import List Arith Bool ZArith QArith Qreduction Lia Lqa Permutation.
Import ListNotations.
From AgileV Require Import Base.Prelude C05.Model.
Local Open Scope nat_scope.

(* ------------------------------------------------------------------ order on Q, booleans *)
Lemma Qltb_lt a b : Qltb a b = true <-> (a < b)%Q.
Proof.
  unfold Qltb. rewrite negb_true_iff. split; intros H.
  - apply Qnot_le_lt. intros Hle. apply Qle_bool_iff in Hle. congruence.
  - destruct (Qle_bool b a) eqn:E; auto. apply Qle_bool_iff in E. lra.
Qed.

Lemma lexlt_iff m j i :
  lexlt m j i = true <->
  ((nth j m 0 < nth i m 0)%Q \/ ((nth j m 0 == nth i m 0)%Q /\ j < i)).
Proof.
  unfold lexlt. rewrite orb_true_iff, andb_true_iff, Qltb_lt, Qeq_bool_iff, Nat.ltb_lt. tauto.
Qed.

Lemma lexlt_irrefl m i : lexlt m i i = false.
Proof.
  destruct (lexlt m i i) eqn:E; auto. apply lexlt_iff in E. destruct E as [E|[_ E]]; [lra|lia].
Qed.
Lemma lexlt_trans m a b c : lexlt m a b = true -> lexlt m b c = true -> lexlt m a c = true.
Proof.
  rewrite !lexlt_iff. intros [H1|[H1 H1']] [H2|[H2 H2']].
  - left; lra.
  - left; lra.
  - left; lra.
  - right; split; [lra|lia].
Qed.
Lemma lexlt_total m a b : a <> b -> lexlt m a b = true \/ lexlt m b a = true.
Proof.
  intros Hne. rewrite !lexlt_iff.
  destruct (Q_dec (nth a m 0%Q) (nth b m 0%Q)) as [[H|H]|H].
  - left; left; exact H.
  - right; left; exact H.
  - destruct (Nat.lt_ge_cases a b).
    + left; right; split; [exact H|lia].
    + right; right; split; [symmetry; exact H|lia].
Qed.

(* ------------------------------------------------------------------ counting *)
Lemma filter_length_le {A} (p q : A -> bool) l :
  (forall x, In x l -> p x = true -> q x = true) ->
  length (filter p l) <= length (filter q l).
Proof.
  induction l as [|a l IH]; intros H; cbn; auto.
  assert (IH' := IH (fun x Hx => H x (or_intror Hx))).
  destruct (p a) eqn:Hp.
  - rewrite (H a (or_introl eq_refl) Hp). cbn. lia.
  - destruct (q a); cbn; lia.
Qed.
Lemma filter_length_lt {A} (p q : A -> bool) l y :
  (forall x, In x l -> p x = true -> q x = true) -> In y l -> p y = false -> q y = true ->
  length (filter p l) < length (filter q l).
Proof.
  induction l as [|a l IH]; intros H Hy Hp Hq; [inversion Hy|].
  cbn. destruct Hy as [->|Hy].
  - rewrite Hp, Hq. cbn. pose proof (filter_length_le p q l (fun x Hx => H x (or_intror Hx))). lia.
  - specialize (IH (fun x Hx => H x (or_intror Hx)) Hy Hp Hq).
    destruct (p a) eqn:Hpa.
    + rewrite (H a (or_introl eq_refl) Hpa). cbn. lia.
    + destruct (q a); cbn; lia.
Qed.

(* ------------------------------------------------------------------ rank is an order isomorphism *)
Lemma rank_mono m a b : a < length m -> lexlt m a b = true -> rank m a < rank m b.
Proof.
  intros Ha H. unfold rank. apply (filter_length_lt _ _ _ a).
  - intros x _ Hx. eapply lexlt_trans; eauto.
  - apply in_seq. lia.
  - apply lexlt_irrefl.
  - exact H.
Qed.
Lemma rank_lt_n m i : i < length m -> rank m i < length m.
Proof.
  intros Hi. unfold rank.
  assert (length (filter (fun j => lexlt m j i) (seq 0 (length m))) <
          length (filter (fun _ => true) (seq 0 (length m)))).
  { apply (filter_length_lt _ _ _ i); auto. apply in_seq; lia. apply lexlt_irrefl. }
  assert (E : forall (l : list nat), filter (fun _ => true) l = l) by (induction l; cbn; congruence).
  rewrite E, seq_length in H. exact H.
Qed.
Lemma rank_inj m a b : a < length m -> b < length m -> rank m a = rank m b -> a = b.
Proof.
  intros Ha Hb E. destruct (Nat.eq_dec a b) as [|n]; auto.
  destruct (lexlt_total m a b n) as [H|H];
    [pose proof (rank_mono m a b Ha H)|pose proof (rank_mono m b a Hb H)]; lia.
Qed.

Lemma nth_ranks m i : i < length m -> nth i (ranks m) 0 = rank m i.
Proof.
  intros Hi. unfold ranks.
  rewrite (nth_indep _ 0 (rank m 0)) by (rewrite map_length, seq_length; exact Hi).
  rewrite map_nth, seq_nth by exact Hi. reflexivity.
Qed.

Lemma NoDup_map_inj_in {A B} (f : A -> B) l :
  NoDup l -> (forall x y, In x l -> In y l -> f x = f y -> x = y) -> NoDup (map f l).
Proof.
  induction 1 as [|a l Hn Hd IH]; intros Hinj; cbn; constructor.
  - intros Hin. apply in_map_iff in Hin. destruct Hin as (y & E & Hy).
    assert (y = a) by (apply Hinj; [right; exact Hy|left; reflexivity|exact E]). subst. contradiction.
  - apply IH. intros x y Hx Hy. apply Hinj; right; assumption.
Qed.

(* what any argsort().argsort() returns, whatever the tie-breaking of the sort *)
Definition valid_ranking (m : list Q) (rk : list nat) : Prop :=
  length rk = length m /\ NoDup rk /\ (forall x, In x rk -> x < length m) /\
  (forall i j, i < length m -> j < length m ->
     (nth i m 0 < nth j m 0)%Q -> nth i rk 0 < nth j rk 0).

Lemma ranks_valid m : valid_ranking m (ranks m).
Proof.
  repeat split.
  - unfold ranks. rewrite map_length, seq_length. reflexivity.
  - unfold ranks. apply NoDup_map_inj_in; [apply seq_NoDup|].
    intros x y Hx Hy. apply in_seq in Hx. apply in_seq in Hy. apply rank_inj; lia.
  - intros x Hx. unfold ranks in Hx. apply in_map_iff in Hx. destruct Hx as (i & <- & Hi).
    apply in_seq in Hi. apply rank_lt_n. lia.
  - intros i j Hi Hj Hlt. rewrite !nth_ranks by assumption. apply rank_mono; [exact Hi|].
    apply lexlt_iff. left. exact Hlt.
Qed.

(* the stable ranking moreover orders ties by position: it is exactly argsort(kind="stable").argsort() *)
Lemma ranks_stable m i j : i < length m -> j < length m ->
  (nth i m 0 == nth j m 0)%Q -> i < j -> nth i (ranks m) 0 < nth j (ranks m) 0.
Proof.
  intros Hi Hj E Hlt. rewrite !nth_ranks by assumption. apply rank_mono; [exact Hi|].
  apply lexlt_iff. right. split; assumption.
Qed.

(* ------------------------------------------------------------------ argmax *)
Lemma argmax_from_spec : forall l i bi bv,
  let r := argmax_from l i bi bv in
  (r = bi /\ (forall k, k < length l -> nth k l 0 <= bv)) \/
  (exists k, k < length l /\ r = i + k /\ bv < nth k l 0 /\
             (forall k', k' < length l -> nth k' l 0 <= nth k l 0) /\
             (forall k', k' < k -> nth k' l 0 < nth k l 0)).
Proof.
  induction l as [|x t IH]; intros i bi bv; cbn [argmax_from].
  - left. split; auto. cbn. intros; lia.
  - destruct (Nat.ltb_spec bv x) as [H|H].
    + specialize (IH (S i) i x). cbn zeta in IH. destruct IH as [[E Hall]|(k & Hk & E & Hlt & Hmax & Hfirst)].
      * right. exists 0. cbn [length nth]. repeat split; try lia.
        intros [|k'] Hk'; [lia|]. apply Hall. lia.
      * right. exists (S k). cbn [length nth]. repeat split; try lia.
        -- intros [|k'] Hk'; [lia|]. apply Hmax. lia.
        -- intros [|k'] Hk'; [lia|]. apply Hfirst. lia.
    + specialize (IH (S i) bi bv). cbn zeta in IH. destruct IH as [[E Hall]|(k & Hk & E & Hlt & Hmax & Hfirst)].
      * left. split; auto. intros [|k'] Hk'; cbn [nth]; [lia|]. apply Hall. cbn in Hk'. lia.
      * right. exists (S k). cbn [length nth]. repeat split; try lia.
        -- intros [|k'] Hk'; [lia|]. apply Hmax. lia.
        -- intros [|k'] Hk'; [lia|]. apply Hfirst. lia.
Qed.

(* np.argmax: in range, maximal, and the first such position *)
Lemma argmax_spec l : l <> [] ->
  argmax l < length l /\
  (forall k, k < length l -> nth k l 0 <= nth (argmax l) l 0) /\
  (forall k, k < argmax l -> nth k l 0 < nth (argmax l) l 0).
Proof.
  destruct l as [|x t]; [congruence|intros _]. unfold argmax.
  pose proof (argmax_from_spec t 1 0 x) as H. cbn zeta in H.
  destruct H as [[E Hall]|(k & Hk & E & Hlt & Hmax & Hfirst)]; rewrite E.
  - cbn [length nth]. repeat split; try lia. intros [|k] Hk; [lia|]. apply Hall. lia.
  - change (1 + k) with (S k). cbn [length nth]. repeat split; try lia.
    + intros [|k'] Hk'; [lia|]. apply Hmax. lia.
    + intros [|k'] Hk'; [lia|]. apply Hfirst. lia.
Qed.

(* ------------------------------------------------------------------ elite *)
Lemma elite_spec m rk : valid_ranking m rk -> m <> [] ->
  let e := elite_pos rk in
  e < length m /\
  (forall j, j < length m -> nth j rk 0 <= nth e rk 0) /\
  (forall j, j < length m -> (nth j m 0 <= nth e m 0)%Q).
Proof.
  intros (Hlen & Hnd & Hrng & Hord) Hne. cbn zeta. unfold elite_pos.
  assert (Hrk : rk <> []) by (destruct rk; [destruct m; [congruence|discriminate]|discriminate]).
  destruct (argmax_spec rk Hrk) as (H1 & H2 & _). rewrite Hlen in *.
  repeat split; auto.
  intros j Hj. destruct (Qlt_le_dec (nth (argmax rk) m 0%Q) (nth j m 0%Q)) as [Hlt|Hle]; [|exact Hle].
  pose proof (Hord _ _ H1 Hj Hlt). pose proof (H2 j Hj). lia.
Qed.

(* a NoDup list of n numbers below n contains every number below n (so the best rank is n-1) *)
Lemma nodup_bounded_full : forall n (l : list nat),
  NoDup l -> length l = n -> (forall x, In x l -> x < n) -> forall y, y < n -> In y l.
Proof.
  intros n l Hnd Hlen Hb y Hy.
  assert (Hincl : incl l (seq 0 n)) by (intros x Hx; apply in_seq; specialize (Hb x Hx); lia).
  assert (Hincl' : incl (seq 0 n) l).
  { apply NoDup_length_incl; auto. rewrite seq_length. lia. }
  apply Hincl'. apply in_seq. lia.
Qed.

Lemma elite_rank_top m rk : valid_ranking m rk -> m <> [] ->
  nth (elite_pos rk) rk 0 = length m - 1.
Proof.
  intros Hv Hne. pose proof (elite_spec m rk Hv Hne) as (He & Hmax & _).
  destruct Hv as (Hlen & Hnd & Hrng & _).
  assert (Hn : 0 < length m) by (destruct m; [congruence|cbn; lia]).
  assert (Hin : In (length m - 1) rk) by (apply (nodup_bounded_full (length m)); auto; lia).
  apply (In_nth _ _ 0) in Hin. destruct Hin as (j & Hj & Ej). rewrite Hlen in Hj.
  specialize (Hmax j Hj). rewrite Ej in Hmax.
  assert (nth (elite_pos rk) rk 0 < length m) by (apply Hrng, nth_In; lia). lia.
Qed.

(* ------------------------------------------------------------------ tournament *)
Lemma tournament_spec rk ds : ds <> [] ->
  let w := tournament rk ds in
  In w ds /\ forall d, In d ds -> nth d rk 0 <= nth w rk 0.
Proof.
  intros Hne. cbn zeta. unfold tournament.
  set (vals := map (fun i => nth i rk 0) ds).
  assert (Hv : vals <> []) by (unfold vals; destruct ds; [congruence|discriminate]).
  destruct (argmax_spec vals Hv) as (H1 & H2 & _).
  assert (Hl : length vals = length ds) by (unfold vals; apply map_length).
  rewrite Hl in *. split.
  - apply nth_In. exact H1.
  - intros d Hd. apply (In_nth _ _ 0) in Hd. destruct Hd as (k & Hk & <-).
    specialize (H2 k Hk). unfold vals in H2.
    rewrite (nth_indep _ 0 (nth 0 rk 0)) in H2 by (rewrite map_length; exact Hk).
    rewrite (nth_indep (map _ ds) 0 (nth 0 rk 0)) in H2 by (rewrite map_length; exact H1).
    rewrite !(map_nth (fun i => nth i rk 0)) in H2. exact H2.
Qed.

Lemma tournament_best_mean m rk ds : valid_ranking m rk -> ds <> [] ->
  (forall d, In d ds -> d < length m) ->
  let w := tournament rk ds in
  In w ds /\ (forall d, In d ds -> nth d rk 0 <= nth w rk 0) /\
  (forall d, In d ds -> (nth d m 0 <= nth w m 0)%Q).
Proof.
  intros (Hlen & Hnd & Hrng & Hord) Hne Hb. cbn zeta.
  destruct (tournament_spec rk ds Hne) as (Hin & Hmax). repeat split; auto.
  intros d Hd. destruct (Qlt_le_dec (nth (tournament rk ds) m 0%Q) (nth d m 0%Q)) as [Hlt|Hle]; [|exact Hle].
  pose proof (Hord _ _ (Hb _ Hin) (Hb _ Hd) Hlt). pose proof (Hmax d Hd). lia.
Qed.

(* two valid rankings of the same means pick agents of the same mean class *)
Lemma elite_tie_invariant m rk1 rk2 : valid_ranking m rk1 -> valid_ranking m rk2 -> m <> [] ->
  (nth (elite_pos rk1) m 0 == nth (elite_pos rk2) m 0)%Q.
Proof.
  intros H1 H2 Hne.
  destruct (elite_spec m rk1 H1 Hne) as (He1 & _ & Hm1).
  destruct (elite_spec m rk2 H2 Hne) as (He2 & _ & Hm2).
  apply Qle_antisym; auto.
Qed.
Lemma tournament_tie_invariant m rk1 rk2 ds : valid_ranking m rk1 -> valid_ranking m rk2 ->
  ds <> [] -> (forall d, In d ds -> d < length m) ->
  (nth (tournament rk1 ds) m 0 == nth (tournament rk2 ds) m 0)%Q.
Proof.
  intros H1 H2 Hne Hb.
  destruct (tournament_best_mean m rk1 ds H1 Hne Hb) as (Hi1 & _ & Hm1).
  destruct (tournament_best_mean m rk2 ds H2 Hne Hb) as (Hi2 & _ & Hm2).
  apply Qle_antisym; auto.
Qed.

(* ------------------------------------------------------------------ mean of the evaluation window *)
Lemma mean_spec l : l <> [] -> (mean l * inject_Z (Z.of_nat (length l)) == sumQ l)%Q.
Proof.
  intros Hne. unfold mean. rewrite Qred_correct.
  assert (Hn : ~ (inject_Z (Z.of_nat (length l)) == 0)%Q).
  { destruct l; [congruence|]. unfold Qeq. cbn [length]. cbn. lia. }
  field. exact Hn.
Qed.
(* only the last [w] evaluations count: anything older is irrelevant *)
Lemma mean_last_window w (old recent : list Q) : length recent = w ->
  mean_last w (old ++ recent) = mean_last w recent.
Proof.
  intros <-. unfold mean_last, lastn. rewrite app_length.
  replace (length old + length recent - length recent) with (length old) by lia.
  rewrite skipn_app, skipn_all, Nat.sub_diag. cbn [skipn app].
  replace (length recent - length recent) with 0 by lia. reflexivity.
Qed.
(* shorter histories are averaged whole *)
Lemma mean_last_short w f : length f <= w -> mean_last w f = mean f.
Proof.
  intros H. unfold mean_last, lastn. replace (length f - w) with 0 by lia. reflexivity.
Qed.

(* ------------------------------------------------------------------ select *)
Section Sel.
Context {P : Type}.

Definition copy_of (child parent : agent P) : Prop :=
  a_fitness child = a_fitness parent /\ a_body child = a_body parent.

Definition max_id (pop : list (agent P)) : Z :=
  match pop with a0 :: rest => max_index a0 rest | [] => 0%Z end.
Definition off (c : cfg) : nat := if elitism c then 1 else 0.

Lemma fold_max_ge : forall (l : list Z) (z : Z),
  (z <= fold_left Z.max l z)%Z /\ forall x, In x l -> (x <= fold_left Z.max l z)%Z.
Proof.
  induction l as [|y l IH]; intros z; cbn [fold_left].
  - split; [lia|intros x []].
  - destruct (IH (Z.max z y)) as (H1 & H2). split; [lia|].
    intros x [<-|Hx]; [lia|auto].
Qed.
Lemma max_id_ge (pop : list (agent P)) a : In a pop -> (a_index a <= max_id pop)%Z.
Proof.
  destruct pop as [|a0 rest]; [intros []|]. cbn [max_id]. unfold max_index.
  destruct (fold_max_ge (map a_index rest) (a_index a0)) as (H1 & H2).
  intros [<-|Hin]; [exact H1|]. apply H2. apply in_map. exact Hin.
Qed.

(* the shape of what select returns *)
Lemma select_shape rk c (pop : list (agent P)) draws e np :
  select_with rk c pop draws = Some (e, np) ->
  exists a0, In a0 pop /\
    e = clone (nth (elite_pos rk) pop a0) None /\
    np = (if elitism c then [clone e None] else []) ++
         map (fun i => clone (nth (tournament rk (nth i draws [])) pop a0)
                             (Some (max_id pop + 1 + Z.of_nat i)%Z)) (seq 0 (nsel c)).
Proof.
  destruct pop as [|a0 rest]; [discriminate|]. unfold select_with, select_plan.
  cbn [p_elite p_members]. intros H. injection H as <- <-.
  exists a0. split; [left; reflexivity|]. split; [reflexivity|].
  rewrite map_app, map_map. cbn [max_id]. f_equal.
  destruct (elitism c); reflexivity.
Qed.

Lemma select_none rk c (pop : list (agent P)) draws :
  select_with rk c pop draws = None <-> pop = [].
Proof. destruct pop; cbn; split; congruence. Qed.

Lemma nth_In_or_default {A} (l : list A) d i : In d l -> In (nth i l d) l.
Proof. intros Hd. destruct (Nat.lt_ge_cases i (length l)); [apply nth_In; auto|rewrite nth_overflow; auto]. Qed.

Theorem size_exact_lemma rk c (pop : list (agent P)) draws e np :
  0 < psize c -> select_with rk c pop draws = Some (e, np) -> length np = psize c.
Proof.
  intros Hp H. destruct (select_shape _ _ _ _ _ _ H) as (a0 & _ & _ & ->).
  rewrite app_length, map_length, seq_length. unfold nsel. destruct (elitism c); cbn [length]; lia.
Qed.

Theorem elite_is_best_lemma rk c (pop : list (agent P)) draws e np :
  valid_ranking (means c pop) rk -> select_with rk c pop draws = Some (e, np) ->
  exists p parent, nth_error pop p = Some parent /\
    (forall j, j < length pop -> (nth j (means c pop) 0 <= nth p (means c pop) 0)%Q) /\
    nth p rk 0 = length pop - 1 /\
    copy_of e parent /\ a_index e = a_index parent /\
    (elitism c = true -> exists first others, np = first :: others /\
                           copy_of first parent /\ a_index first = a_index parent).
Proof.
  intros Hv H. destruct (select_shape _ _ _ _ _ _ H) as (a0 & Ha0 & -> & ->).
  assert (Hne : means c pop <> []) by (unfold means; destruct pop; [destruct Ha0|discriminate]).
  assert (Hlen : length (means c pop) = length pop) by (unfold means; apply map_length).
  destruct (elite_spec _ _ Hv Hne) as (He & _ & Hbest). rewrite Hlen in *.
  exists (elite_pos rk), (nth (elite_pos rk) pop a0). split; [apply nth_error_nth'; exact He|].
  split; [exact Hbest|]. split; [rewrite <- Hlen; apply elite_rank_top; assumption|].
  split; [split; reflexivity|]. split; [reflexivity|].
  intros ->. eexists _, _. split; [reflexivity|]. split; [split; reflexivity|reflexivity].
Qed.

Theorem winner_best_of_drawn_lemma rk c (pop : list (agent P)) draws e np i :
  valid_ranking (means c pop) rk -> select_with rk c pop draws = Some (e, np) ->
  i < nsel c -> nth i draws [] <> [] -> (forall d, In d (nth i draws []) -> d < length pop) ->
  exists w child parent,
    nth_error np (off c + i) = Some child /\ In w (nth i draws []) /\ nth_error pop w = Some parent /\
    copy_of child parent /\ a_index child = (max_id pop + 1 + Z.of_nat i)%Z /\
    (forall d, In d (nth i draws []) -> nth d rk 0 <= nth w rk 0) /\
    (forall d, In d (nth i draws []) -> (nth d (means c pop) 0 <= nth w (means c pop) 0)%Q).
Proof.
  intros Hv H Hi Hne Hb. destruct (select_shape _ _ _ _ _ _ H) as (a0 & Ha0 & -> & ->).
  assert (Hlen : length (means c pop) = length pop) by (unfold means; apply map_length).
  rewrite <- Hlen in Hb.
  destruct (tournament_best_mean _ _ _ Hv Hne Hb) as (Hin & Hrk & Hmean).
  set (w := tournament rk (nth i draws [])) in *.
  exists w, (clone (nth w pop a0) (Some (max_id pop + 1 + Z.of_nat i)%Z)), (nth w pop a0).
  split.
  { assert (Hoff : off c = length (if elitism c then [clone (clone (nth (elite_pos rk) pop a0) None) None] else []))
      by (unfold off; destruct (elitism c); reflexivity).
    rewrite Hoff, nth_error_app2 by lia.
    replace (_ + i - _) with i by lia.
    erewrite map_nth_error; [reflexivity|].
    rewrite nth_error_nth' with (d := 0) by (rewrite seq_length; exact Hi).
    rewrite seq_nth by exact Hi. reflexivity. }
  split; [exact Hin|]. split; [apply nth_error_nth'; rewrite <- Hlen; apply Hb; exact Hin|].
  split; [split; reflexivity|]. split; [reflexivity|]. split; assumption.
Qed.

(* indices *)
Lemma fresh_ids_NoDup (mx : Z) n : NoDup (map (fun i => (mx + 1 + Z.of_nat i)%Z) (seq 0 n)).
Proof. apply NoDup_map_inj_in; [apply seq_NoDup|]. intros x y _ _ E. lia. Qed.

Theorem indices_fresh_lemma rk c (pop : list (agent P)) draws e np :
  select_with rk c pop draws = Some (e, np) ->
  let fresh := skipn (off c) (map a_index np) in
  fresh = map (fun i => (max_id pop + 1 + Z.of_nat i)%Z) (seq 0 (nsel c)) /\
  NoDup fresh /\
  (forall x, In x fresh -> ~ In x (map a_index pop)) /\
  (forall x, In x fresh -> x <> a_index e) /\
  In (a_index e) (map a_index pop) /\
  NoDup (map a_index np).
Proof.
  intros H. destruct (select_shape _ _ _ _ _ _ H) as (a0 & Ha0 & -> & ->). cbn zeta.
  set (ids := map (fun i => (max_id pop + 1 + Z.of_nat i)%Z) (seq 0 (nsel c))).
  assert (Hfresh : skipn (off c) (map a_index
            ((if elitism c then [clone (clone (nth (elite_pos rk) pop a0) None) None] else []) ++
             map (fun i => clone (nth (tournament rk (nth i draws [])) pop a0)
                                 (Some (max_id pop + 1 + Z.of_nat i)%Z)) (seq 0 (nsel c)))) = ids).
  { rewrite map_app, map_map. unfold off. destruct (elitism c); reflexivity. }
  assert (Hold : forall x, In x ids -> ~ In x (map a_index pop)).
  { intros x Hx Hin. unfold ids in Hx. apply in_map_iff in Hx. destruct Hx as (i & <- & _).
    apply in_map_iff in Hin. destruct Hin as (a & E & Ha). pose proof (max_id_ge pop a Ha). lia. }
  assert (He : In (a_index (clone (nth (elite_pos rk) pop a0) None)) (map a_index pop)).
  { cbn [clone a_index]. apply in_map. apply nth_In_or_default. exact Ha0. }
  rewrite Hfresh. split; [reflexivity|]. split; [apply fresh_ids_NoDup|]. split; [exact Hold|].
  split; [intros x Hx E; subst x; exact (Hold _ Hx He)|]. split; [exact He|].
  rewrite map_app, map_map. cbn [clone a_index]. fold ids.
  destruct (elitism c); cbn [map app].
  - constructor; [|apply fresh_ids_NoDup]. intros Hin. exact (Hold _ Hin He).
  - apply fresh_ids_NoDup.
Qed.

(* members are faithful copies of agents of the old population; the old population is a value the
   function does not return changed: here, every member's data is a parent's data *)
Theorem members_are_copies_lemma rk c (pop : list (agent P)) draws e np :
  select_with rk c pop draws = Some (e, np) ->
  forall child, In child (e :: np) -> exists parent, In parent pop /\ copy_of child parent.
Proof.
  intros H child Hc. destruct (select_shape _ _ _ _ _ _ H) as (a0 & Ha0 & -> & ->).
  destruct Hc as [<-|Hc].
  - eexists. split; [apply nth_In_or_default; exact Ha0|split; reflexivity].
  - apply in_app_or in Hc. destruct Hc as [Hc|Hc].
    + destruct (elitism c); [|destruct Hc]. destruct Hc as [<-|[]].
      eexists. split; [apply nth_In_or_default; exact Ha0|split; reflexivity].
    + apply in_map_iff in Hc. destruct Hc as (i & <- & _).
      eexists. split; [apply nth_In_or_default; exact Ha0|split; reflexivity].
Qed.

(* all valid rankings lead to the same generation up to the mean class of every parent *)
Theorem select_tie_invariant_lemma rk1 rk2 c (pop : list (agent P)) draws :
  valid_ranking (means c pop) rk1 -> valid_ranking (means c pop) rk2 -> pop <> [] ->
  (forall i, i < nsel c -> nth i draws [] <> [] /\ forall d, In d (nth i draws []) -> d < length pop) ->
  let p1 := select_plan rk1 c (max_id pop) draws in
  let p2 := select_plan rk2 c (max_id pop) draws in
  let ms := means c pop in
  (nth (p_elite p1) ms 0 == nth (p_elite p2) ms 0)%Q /\
  Forall2 (fun a b : nat * option Z => (nth (fst a) ms 0 == nth (fst b) ms 0)%Q /\ snd a = snd b)
          (p_members p1) (p_members p2).
Proof.
  intros H1 H2 Hne Hd. cbn zeta. unfold select_plan. cbn [p_elite p_members].
  assert (Hm : means c pop <> []) by (unfold means; destruct pop; [congruence|discriminate]).
  assert (Hlen : length (means c pop) = length pop) by (unfold means; apply map_length).
  pose proof (elite_tie_invariant _ _ _ H1 H2 Hm) as He.
  split; [exact He|]. apply Forall2_app.
  - destruct (elitism c); constructor; [|constructor]. split; [exact He|reflexivity].
  - assert (G : forall n s, (forall i, In i (seq s n) -> i < nsel c) ->
       Forall2 (fun a b : nat * option Z => (nth (fst a) (means c pop) 0 == nth (fst b) (means c pop) 0)%Q /\ snd a = snd b)
         (map (fun i => (tournament rk1 (nth i draws []), Some (max_id pop + 1 + Z.of_nat i)%Z)) (seq s n))
         (map (fun i => (tournament rk2 (nth i draws []), Some (max_id pop + 1 + Z.of_nat i)%Z)) (seq s n))).
    { induction n as [|n IH]; intros s Hs; cbn [seq map]; constructor.
      - cbn [fst snd]. split; [|reflexivity].
        destruct (Hd s (Hs s (or_introl eq_refl))) as (Hne' & Hb).
        apply tournament_tie_invariant; auto. rewrite Hlen. exact Hb.
      - apply IH. intros i Hi. apply Hs. right. exact Hi. }
    apply G. intros i Hi. apply in_seq in Hi. lia.
Qed.


(* selection invents no fitness and never ranks anybody above the elite: every member's window mean
   is at most the elite's *)
Lemma nth_means c (pop : list (agent P)) d j : j < length pop ->
  nth j (means c pop) 0%Q = mean_last (eval_loop c) (a_fitness (nth j pop d)).
Proof.
  intros Hj. unfold means.
  rewrite (nth_indep _ 0%Q (mean_last (eval_loop c) (a_fitness d))) by (rewrite map_length; exact Hj).
  apply (map_nth (fun a => mean_last (eval_loop c) (a_fitness a))).
Qed.

Theorem elite_dominates_lemma rk c (pop : list (agent P)) draws e np :
  valid_ranking (means c pop) rk -> select_with rk c pop draws = Some (e, np) ->
  forall child, In child np ->
    (mean_last (eval_loop c) (a_fitness child) <= mean_last (eval_loop c) (a_fitness e))%Q.
Proof.
  intros Hv H child Hc.
  destruct (elite_is_best_lemma _ _ _ _ _ _ Hv H) as (p & pe & Hp & Hbest & _ & (Hfe & _) & _).
  destruct (members_are_copies_lemma _ _ _ _ _ _ H child (or_intror Hc)) as (parent & Hin & (Hf & _)).
  rewrite Hf, Hfe.
  apply (In_nth _ _ pe) in Hin. destruct Hin as (j & Hj & Ej).
  assert (Hpl : p < length pop) by (apply nth_error_Some; congruence).
  specialize (Hbest j Hj). rewrite (nth_means c pop pe j Hj), (nth_means c pop pe p Hpl) in Hbest.
  rewrite Ej in Hbest. apply nth_error_nth with (d := pe) in Hp. rewrite Hp in Hbest. exact Hbest.
Qed.

(* ------------------------------------------------------------------ generations *)
Lemma append_fitness_indices : forall (pop : list (agent P)) fs,
  map a_index (append_fitness pop fs) = map a_index pop.
Proof. induction pop as [|a t IH]; intros fs; cbn; [reflexivity|]. f_equal. apply IH. Qed.
Lemma mutate_indices (mut : agent P -> P) pop : map a_index (mutate mut pop) = map a_index pop.
Proof. unfold mutate. rewrite map_map. reflexivity. Qed.
Lemma append_fitness_length (pop : list (agent P)) fs : length (append_fitness pop fs) = length pop.
Proof. rewrite <- (map_length a_index), append_fitness_indices, map_length. reflexivity. Qed.

Lemma gen_step_inv rkf c (pop : list (agent P)) g :
  0 < psize c -> pop <> [] ->
  let r := gen_step rkf c pop g in
  NoDup (map a_index r) /\ length r = psize c /\
  (forall x, In x (map a_index r) -> In x (map a_index pop) \/ (max_id pop < x)%Z).
Proof.
  intros Hp Hne. cbn zeta. unfold gen_step.
  destruct (select_with (rkf (means c pop)) c pop (fst (fst g))) as [[e np]|] eqn:E.
  - rewrite append_fitness_indices, mutate_indices, <- (map_length a_index (append_fitness _ _)),
      append_fitness_indices, mutate_indices, map_length.
    pose proof (indices_fresh_lemma _ _ _ _ _ _ E) as (Hf & _ & _ & _ & Hin & Hnd).
    split; [exact Hnd|]. split; [eapply size_exact_lemma; eauto|].
    intros x Hx. destruct (select_shape _ _ _ _ _ _ E) as (a0 & Ha0 & Ee & Enp).
    rewrite Enp, map_app, map_map in Hx. apply in_app_or in Hx. destruct Hx as [Hx|Hx].
    + left. destruct (elitism c); [|destruct Hx]. destruct Hx as [<-|[]]. cbn [clone a_index]. exact Hin.
    + right. apply in_map_iff in Hx. destruct Hx as (i & <- & _). cbn [clone a_index]. lia.
  - apply select_none in E. congruence.
Qed.

Theorem generations_lemma rkf c (gs : list (@generation P)) :
  0 < psize c -> forall (pop : list (agent P)), pop <> [] -> NoDup (map a_index pop) ->
  let r := run_generations rkf c pop gs in
  NoDup (map a_index r) /\ r <> [] /\ (gs <> [] -> length r = psize c).
Proof.
  intros Hp. induction gs as [|g gs IH]; intros pop Hne Hnd; cbn zeta.
  - cbn. repeat split; auto. congruence.
  - unfold run_generations. cbn [fold_left]. fold (run_generations rkf c (gen_step rkf c pop g) gs).
    destruct (gen_step_inv rkf c pop g Hp Hne) as (H1 & H2 & _).
    assert (Hne' : gen_step rkf c pop g <> []) by (intros E; rewrite E in H2; cbn in H2; lia).
    destruct (IH _ Hne' H1) as (I1 & I2 & I3). repeat split; auto.
    intros _. destruct gs as [|g' gs']; [exact H2|]. apply I3. discriminate.
Qed.

(* ---- an index handed out once is never handed out again, over the whole history ---- *)
Fixpoint trace (rkf : list Q -> list nat) (c : cfg) (pop : list (agent P))
         (gs : list (@generation P)) : list (list (agent P)) :=
  match gs with
  | [] => [pop]
  | g :: t => pop :: trace rkf c (gen_step rkf c pop g) t
  end.

Definition fresh_of (c : cfg) (pop : list (agent P)) : list Z := skipn (off c) (map a_index pop).

Lemma In_skipn_In {A} (l : list A) n x : In x (skipn n l) -> In x l.
Proof. intros H. rewrite <- (firstn_skipn n l). apply in_or_app. right. exact H. Qed.

Lemma max_id_ge_idx (pop : list (agent P)) x : In x (map a_index pop) -> (x <= max_id pop)%Z.
Proof. intros H. apply in_map_iff in H. destruct H as (a & <- & Ha). apply max_id_ge. exact Ha. Qed.

Lemma gen_step_fresh rkf c (pop : list (agent P)) g : pop <> [] ->
  let r := gen_step rkf c pop g in
  (forall x, In x (fresh_of c r) -> (max_id pop < x)%Z) /\ (0 < nsel c -> (max_id pop < max_id r)%Z).
Proof.
  intros Hne. cbn zeta. unfold gen_step, fresh_of.
  destruct (select_with (rkf (means c pop)) c pop (fst (fst g))) as [[e np]|] eqn:E;
    [|apply select_none in E; congruence].
  rewrite append_fitness_indices, mutate_indices.
  pose proof (indices_fresh_lemma _ _ _ _ _ _ E) as (Hf & _). cbn zeta in Hf.
  split.
  - intros x Hx. rewrite Hf in Hx. apply in_map_iff in Hx. destruct Hx as (i & <- & _). lia.
  - intros Hn.
    assert (Hin : In (max_id pop + 1 + Z.of_nat 0)%Z (map a_index np)).
    { apply (In_skipn_In _ (off c)). rewrite Hf. apply in_map_iff. exists 0. split; [reflexivity|].
      apply in_seq. lia. }
    rewrite <- (mutate_indices (snd (fst g)) np), <- (append_fitness_indices _ (snd g)) in Hin.
    apply max_id_ge_idx in Hin. lia.
Qed.

Lemma trace_bound rkf c : 0 < psize c -> 0 < nsel c ->
  forall gs (pop : list (agent P)), pop <> [] ->
  forall k p, nth_error (trace rkf c pop gs) k = Some p ->
    p <> [] /\ (max_id pop <= max_id p)%Z /\ (1 <= k -> forall x, In x (fresh_of c p) -> (max_id pop < x)%Z).
Proof.
  intros Hp Hn. induction gs as [|g t IH]; intros pop Hne k p Hk.
  - destruct k as [|k]; cbn in Hk; [|destruct k; discriminate]. injection Hk as <-.
    repeat split; auto; try lia.
  - cbn [trace] in Hk. destruct k as [|k]; cbn [nth_error] in Hk.
    + injection Hk as <-. repeat split; auto; try lia.
    + destruct (gen_step_inv rkf c pop g Hp Hne) as (_ & Hlen & _).
      assert (Hne' : gen_step rkf c pop g <> []) by (intros E; rewrite E in Hlen; cbn in Hlen; lia).
      destruct (gen_step_fresh rkf c pop g Hne) as (Hfr & Hmono). specialize (Hmono Hn).
      destruct (IH _ Hne' _ _ Hk) as (Hpne & Hle & Hlater).
      split; [exact Hpne|]. split; [lia|]. intros _ x Hx.
      destruct k as [|k].
      * cbn in Hk. destruct t; cbn in Hk; injection Hk as <-; apply Hfr; exact Hx.
      * specialize (Hlater ltac:(lia) x Hx). lia.
Qed.

Lemma trace_lengths rkf c : 0 < psize c ->
  forall gs (pop : list (agent P)), pop <> [] ->
  forall k p, nth_error (trace rkf c pop gs) (S k) = Some p -> length p = psize c.
Proof.
  intros Hp. induction gs as [|g t IH]; intros pop Hne k p Hk; cbn [trace nth_error] in Hk.
  - destruct k; discriminate.
  - destruct (gen_step_inv rkf c pop g Hp Hne) as (_ & Hlen & _).
    destruct k as [|k].
    + destruct t; cbn in Hk; injection Hk as <-; exact Hlen.
    + apply (IH (gen_step rkf c pop g)) with (k := k); [|exact Hk].
      intros E; rewrite E in Hlen; cbn in Hlen; lia.
Qed.

Theorem fresh_never_reused_lemma rkf c gs : 0 < psize c ->
  forall (pop : list (agent P)), pop <> [] ->
  forall g1 g2 p1 p2, g1 < g2 ->
    nth_error (trace rkf c pop gs) g1 = Some p1 -> nth_error (trace rkf c pop gs) g2 = Some p2 ->
    forall x, In x (fresh_of c p2) -> ~ In x (map a_index p1).
Proof.
  intros Hp. destruct (Nat.eq_dec (nsel c) 0) as [Hz|Hnz].
  - (* no tournament at all: the population is the elite alone, nothing fresh is ever created *)
    intros pop Hne g1 g2 p1 p2 Hlt H1 H2 x Hx. exfalso.
    destruct g2 as [|g2]; [lia|].
    pose proof (trace_lengths rkf c Hp gs pop Hne g2 p2 H2) as Hlen.
    unfold fresh_of in Hx. assert (Hoff : off c = psize c).
    { unfold nsel in Hz. unfold off. destruct (elitism c); lia. }
    rewrite Hoff, <- Hlen, <- (map_length a_index), skipn_all in Hx. destruct Hx.
  - assert (Hn : 0 < nsel c) by lia.
    induction gs as [|g t IH]; intros pop Hne g1 g2 p1 p2 Hlt H1 H2 x Hx Hin.
    + cbn in H2. destruct g2 as [|[|?]]; try discriminate. lia.
    + destruct g1 as [|g1].
      * cbn [trace nth_error] in H1. injection H1 as <-.
        destruct (trace_bound rkf c Hp Hn (g :: t) pop Hne g2 p2 H2) as (_ & _ & Hfr).
        specialize (Hfr ltac:(lia) x Hx). apply max_id_ge_idx in Hin. lia.
      * destruct g2 as [|g2]; [lia|]. cbn [trace nth_error] in H1, H2.
        destruct (gen_step_inv rkf c pop g Hp Hne) as (_ & Hlen & _).
        assert (Hne' : gen_step rkf c pop g <> []) by (intros E; rewrite E in Hlen; cbn in Hlen; lia).
        apply (IH _ Hne' g1 g2 p1 p2 ltac:(lia) H1 H2 x Hx Hin).
Qed.
End Sel.
