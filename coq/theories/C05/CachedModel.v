(* C05 — model of a selector that REMEMBERS the highest index it handed out (seeded changes C05-t1 / C05-u2:
   `self._max_id` computed on the first call, afterwards only advanced by select itself) next to the real,
   stateless one.  Model only. *)
From Coq Require Import List Arith Bool ZArith QArith.
Import ListNotations.
From AgileV Require Import Base.Prelude C05.Model.
Local Open Scope nat_scope.

Section C.
Context {P : Type}.

(* select with the index counter given from outside *)
Definition select_at (mx : Z) (rk : list nat) (c : cfg) (pop : list (agent P)) (draws : list (list nat))
  : option (agent P * list (agent P)) :=
  match pop with
  | [] => None
  | a0 :: rest =>
      let pl := select_plan rk c mx draws in
      let elite := clone (nth (p_elite pl) pop a0) None in
      Some (elite,
            map (fun m : nat * option Z =>
                   match snd m with
                   | None => clone elite None
                   | Some i => clone (nth (fst m) pop a0) (Some i)
                   end) (p_members pl))
  end.

(* the caching selector: state = None before the first call, then the last index handed out *)
Definition select_cached (st : option Z) (rk : list nat) (c : cfg) (pop : list (agent P)) (draws : list (list nat))
  : option (agent P * list (agent P)) * option Z :=
  match pop with
  | [] => (None, st)                                   (* max([]) raises before anything is stored *)
  | a0 :: rest =>
      let mx := match st with None => max_index a0 rest | Some m => m end in
      (select_at mx rk c pop draws, Some (mx + Z.of_nat (nsel c))%Z)
  end.

Definition gen_step_cached (rkf : list Q -> list nat) (c : cfg) (ps : list (agent P) * option Z) (g : generation)
  : list (agent P) * option Z :=
  match select_cached (snd ps) (rkf (means c (fst ps))) c (fst ps) (fst (fst g)) with
  | (Some (_, np), st') => (append_fitness (mutate (snd (fst g)) np) (snd g), st')
  | (None, st') => (fst ps, st')
  end.
Definition run_cached rkf c pop (gs : list generation) := fold_left (gen_step_cached rkf c) gs (pop, None).
End C.

(* reuse on another population (demo of C05-t1): after a first call on ids 0..3 the selector is handed ids 5..8 *)
Definition cd_cfg : cfg := {| tsize := 1; elitism := true; psize := 4; eval_loop := 1 |}.
Definition cd_first : list (agent nat) :=
  map (fun i => {| a_index := Z.of_nat i; a_fitness := [inject_Z (Z.of_nat i)]; a_body := i |}) [0; 1; 2; 3].
Definition cd_second : list (agent nat) :=
  map (fun i => {| a_index := Z.of_nat (5 + i); a_fitness := [inject_Z (Z.of_nat i)]; a_body := i |}) [0; 1; 2; 3].
Definition cd_draws : list (list nat) := [[0]; [1]; [2]].
