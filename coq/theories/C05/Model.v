(* C05 — executable model of agilerl.hpo.tournament.TournamentSelection (_elitism, _tournament, select)
   and of the generation loop built on it (tournament_selection_and_mutation + fitness appends).
   Model only (no proofs) so that it still runs when a proof breaks.

   Random draws are an input: [draws] holds, per tournament, the indices returned by
   np.random.randint(0, len(rank), size=tournament_size).
   Guards of the real code that the theorems restate as hypotheses:
     population non-empty (max([]) raises), every agent has >= 1 fitness entry (np.mean([]) is nan),
     tournament_size > 0, population_size > 0, eval_loop > 0 (asserted by the constructor). *)
From Coq Require Import List Arith Bool ZArith QArith Qreduction.
Import ListNotations.
From AgileV Require Import Base.Prelude.
Local Open Scope nat_scope.

(* ---------- np.mean(indi.fitness[-eval_loop:]) ---------- *)
Definition sumQ (l : list Q) : Q := fold_right Qplus 0%Q l.
Definition mean (l : list Q) : Q := Qred (sumQ l / inject_Z (Z.of_nat (length l)))%Q.
(* f[-w:] for w > 0 = the last min(w, len f) entries *)
Definition mean_last (w : nat) (f : list Q) : Q := mean (lastn w f).

(* ---------- rank = np.argsort(last_fitness).argsort() ----------
   argsort().argsort() gives every position its rank in the sorted order.  With a stable sort the
   rank of i is the number of positions strictly before i in (value, position) order; NumPy's
   default sort is not stable, so on ties it may return any ranking that is consistent with < on
   the values (predicate [valid_ranking] in Proofs.v).  [ranks] is the stable representative. *)
Definition Qltb (a b : Q) : bool := negb (Qle_bool b a).
Definition lexlt (m : list Q) (j i : nat) : bool :=
  let a := nth j m 0%Q in let b := nth i m 0%Q in
  Qltb a b || (Qeq_bool a b && (j <? i)).
Definition rank (m : list Q) (i : nat) : nat :=
  length (filter (fun j => lexlt m j i) (seq 0 (length m))).
Definition ranks (m : list Q) : list nat := map (rank m) (seq 0 (length m)).

(* np.argmax: position of the first maximal entry *)
Fixpoint argmax_from (l : list nat) (i bi bv : nat) : nat :=
  match l with
  | [] => bi
  | x :: t => if bv <? x then argmax_from t (S i) i x else argmax_from t (S i) bi bv
  end.
Definition argmax (l : list nat) : nat :=
  match l with [] => 0 | x :: t => argmax_from t 1 0 x end.

(* int(np.argsort(rank)[-1]): the position holding the largest rank *)
Definition elite_pos (rk : list nat) : nat := argmax rk.

(* _tournament: selection = draws; winner = selection[np.argmax([rank[i] for i in selection])] *)
Definition tournament (rk : list nat) (ds : list nat) : nat :=
  nth (argmax (map (fun i => nth i rk 0) ds)) ds 0.

(* ---------- agents, clone, select ---------- *)
Record cfg := { tsize : nat; elitism : bool; psize : nat; eval_loop : nat }.

Section Agents.
Context {P : Type}.   (* everything of an agent besides index and fitness: networks, optimizers, hps *)

Record agent := { a_index : Z; a_fitness : list Q; a_body : P }.

(* EvolvableAlgorithm.clone(index=None): a copy; the index is replaced when one is given *)
Definition clone (a : agent) (idx : option Z) : agent :=
  {| a_index := match idx with Some i => i | None => a_index a end;
     a_fitness := a_fitness a; a_body := a_body a |}.

Definition means (c : cfg) (pop : list agent) : list Q :=
  map (fun a => mean_last (eval_loop c) (a_fitness a)) pop.

(* max([ind.index for ind in population]) *)
Definition max_index (a0 : agent) (rest : list agent) : Z :=
  fold_left Z.max (map a_index rest) (a_index a0).

(* who is copied, and under which index (None = keeps the parent's index) *)
Record plan := { p_elite : nat; p_members : list (nat * option Z) }.

Definition nsel (c : cfg) : nat := if elitism c then psize c - 1 else psize c.

Definition select_plan (rk : list nat) (c : cfg) (max_id : Z) (draws : list (list nat)) : plan :=
  let e := elite_pos rk in
  {| p_elite := e;
     p_members :=
       (if elitism c then [(e, None)] else []) ++
       map (fun i => (tournament rk (nth i draws []), Some (max_id + 1 + Z.of_nat i)%Z))
           (seq 0 (nsel c)) |}.

(* select with an explicit rank array; None = the call raises (empty population) *)
Definition select_with (rk : list nat) (c : cfg) (pop : list agent) (draws : list (list nat))
  : option (agent * list agent) :=
  match pop with
  | [] => None
  | a0 :: rest =>
      let pl := select_plan rk c (max_index a0 rest) draws in
      let elite := clone (nth (p_elite pl) pop a0) None in
      Some (elite,
            map (fun m : nat * option Z =>
                   match snd m with
                   | None => clone elite None                      (* elite.clone(wrap=False) *)
                   | Some i => clone (nth (fst m) pop a0) (Some i) (* actor_parent.clone(max_id) *)
                   end) (p_members pl))
  end.

Definition select (c : cfg) (pop : list agent) (draws : list (list nat)) :=
  select_with (ranks (means c pop)) c pop draws.

(* ---------- generations: select, mutate, then every member is trained/evaluated (fitness appended) ---------- *)
Fixpoint append_fitness (pop : list agent) (fs : list (list Q)) : list agent :=
  match pop with
  | [] => []
  | a :: t => {| a_index := a_index a; a_fitness := a_fitness a ++ hd [] fs; a_body := a_body a |}
              :: append_fitness t (tl fs)
  end.

(* Mutations.mutation (second half of tournament_selection_and_mutation): may change everything of an
   agent except its index and its fitness history *)
Definition mutate (mut : agent -> P) (pop : list agent) : list agent :=
  map (fun a => {| a_index := a_index a; a_fitness := a_fitness a; a_body := mut a |}) pop.

(* one generation = (tournament draws, what mutation does to each member, scores appended afterwards) *)
Definition generation := (list (list nat) * (agent -> P) * list (list Q))%type.

(* [rkf] = the ranking function actually used (any tie-breaking) *)
Definition gen_step (rkf : list Q -> list nat) (c : cfg) (pop : list agent) (g : generation) : list agent :=
  match select_with (rkf (means c pop)) c pop (fst (fst g)) with
  | Some (_, np) => append_fitness (mutate (snd (fst g)) np) (snd g)
  | None => pop
  end.
Definition run_generations rkf c pop (gs : list generation) := fold_left (gen_step rkf c) gs pop.
End Agents.
Arguments agent : clear implicits.
