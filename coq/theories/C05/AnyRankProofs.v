(* C05 — closing the "any tie-breaking" gap: whatever permutation np.argsort returns, as long as it
   SORTS the means (weakly increasing), argsort of it (= its inverse) is a valid ranking.  So the only
   thing assumed of NumPy's (unstable) sort is that its output is a sorting permutation.
   Also: a ranking that is valid for the float means is valid for the exact means whenever the float
   means order the agents like the exact ones (the per-case condition the harness checks). *)
From Coq Require Import List Arith Bool ZArith QArith Lia Lqa Permutation Sorted.
Import ListNotations.
From AgileV Require Import Base.Prelude C05.Model C05.Proofs C05.SortModel C05.SortProofs.
Local Open Scope nat_scope.

Lemma index_of_In : forall s x, In x s -> index_of x s < length s /\ nth (index_of x s) s 0 = x.
Proof.
  induction s as [|y t IH]; intros x Hx; [destruct Hx|]. cbn [index_of].
  destruct (Nat.eqb_spec x y) as [->|Hne]; cbn [length nth]; [split; [lia|reflexivity]|].
  destruct Hx as [E|Hx]; [congruence|]. destruct (IH x Hx) as (H1 & H2). split; [lia|exact H2].
Qed.

Lemma index_of_nth : forall s i, NoDup s -> i < length s -> index_of (nth i s 0) s = i.
Proof.
  induction s as [|y t IH]; intros i Hnd Hi; [cbn in Hi; lia|]. inversion Hnd as [|? ? Hnin Hnd']; subst.
  destruct i as [|i]; cbn [nth index_of]; [rewrite Nat.eqb_refl; reflexivity|].
  cbn in Hi. destruct (Nat.eqb_spec (nth i t 0) y) as [E|_].
  - exfalso. apply Hnin. rewrite <- E. apply nth_In. lia.
  - f_equal. apply IH; [exact Hnd'|lia].
Qed.

(* [s] sorts [m]: a permutation of the positions along which the values never decrease *)
Definition sorting_perm (m : list Q) (s : list nat) : Prop :=
  Permutation s (seq 0 (length m)) /\
  forall a b, a < b -> b < length s -> (nth (nth a s 0%nat) m 0 <= nth (nth b s 0%nat) m 0)%Q.

Theorem any_argsort_valid_lemma m s : sorting_perm m s -> valid_ranking m (inverse_perm s).
Proof.
  intros (Hp & Hsorted).
  assert (Hlen : length s = length m) by (rewrite (Permutation_length Hp), seq_length; reflexivity).
  assert (Hnd : NoDup s) by (apply (Permutation_NoDup (Permutation_sym Hp)), seq_NoDup).
  assert (Hin : forall i, i < length m -> In i s).
  { intros i Hi. apply (Permutation_in _ (Permutation_sym Hp)). apply in_seq. lia. }
  assert (Hnth : forall i, i < length m -> nth i (inverse_perm s) 0 = index_of i s).
  { intros i Hi. unfold inverse_perm. rewrite Hlen.
    rewrite (nth_indep _ 0 (index_of 0 s)) by (rewrite map_length, seq_length; exact Hi).
    rewrite (map_nth (fun i => index_of i s)), seq_nth by exact Hi. reflexivity. }
  repeat split.
  - unfold inverse_perm. rewrite map_length, seq_length. exact Hlen.
  - unfold inverse_perm. apply NoDup_map_inj_in; [apply seq_NoDup|].
    intros x y Hx Hy E. apply in_seq in Hx. apply in_seq in Hy. rewrite Hlen in *.
    destruct (index_of_In s x (Hin x ltac:(lia))) as (_ & Ex).
    destruct (index_of_In s y (Hin y ltac:(lia))) as (_ & Ey). congruence.
  - intros x Hx. unfold inverse_perm in Hx. apply in_map_iff in Hx. destruct Hx as (i & <- & Hi).
    apply in_seq in Hi. rewrite Hlen in Hi. rewrite <- Hlen. apply index_of_In. apply Hin. lia.
  - intros i j Hi Hj Hlt. rewrite !Hnth by assumption.
    destruct (index_of_In s i (Hin i Hi)) as (Ha & Ea). destruct (index_of_In s j (Hin j Hj)) as (Hb & Eb).
    destruct (Nat.lt_ge_cases (index_of i s) (index_of j s)) as [|Hge]; [assumption|exfalso].
    destruct (Nat.eq_dec (index_of j s) (index_of i s)) as [E|Hne].
    + rewrite E in Eb. rewrite Ea in Eb. subst j. lra.
    + pose proof (Hsorted (index_of j s) (index_of i s) ltac:(lia) Ha) as Hle. rewrite Ea, Eb in Hle. lra.
Qed.

Lemma valid_ranking_transfer_lemma (q f : list Q) rk : length f = length q ->
  (forall i j, i < length q -> j < length q -> (nth i q 0 < nth j q 0)%Q -> (nth i f 0 < nth j f 0)%Q) ->
  valid_ranking f rk -> valid_ranking q rk.
Proof.
  intros Hlen Hmono (H1 & H2 & H3 & H4). rewrite Hlen in *. repeat split; auto.
Qed.

(* the stable insertion sort of the model is one such sorting permutation (non-vacuity) *)
Lemma StronglySorted_nth (R : nat -> nat -> Prop) : forall s, StronglySorted R s ->
  forall a b, a < b -> b < length s -> R (nth a s 0) (nth b s 0).
Proof.
  induction s as [|y t IH]; intros Hs a b Hab Hb; [cbn in Hb; lia|].
  inversion Hs as [|? ? Hs' Hall]; subst. rewrite Forall_forall in Hall.
  destruct b as [|b]; [lia|]. cbn in Hb. destruct a as [|a]; cbn [nth].
  - apply Hall. apply nth_In. lia.
  - apply IH; auto; lia.
Qed.

Lemma argsort_stable_sorting m : sorting_perm m (argsort_stable m).
Proof.
  destruct (argsort_stable_spec m) as (Hp & Hs). split; [exact Hp|].
  intros a b Hab Hb. pose proof (StronglySorted_nth _ _ Hs a b Hab Hb) as H.
  unfold lt_m in H. apply lexlt_iff in H. destruct H as [H|[H _]]; lra.
Qed.
