(* C05 — model of the seeded AgentWrapper defect (round 2, B): with a pass-through `index` property on the
   wrapper, AgentWrapper.clone(index) first clones the inner agent under the new index and then
   copy_attributes(self, clone) writes the PARENT's index over it.  [select_with_gen] is [select_with]
   with the clone operation as a parameter.  Model only. *)
From Coq Require Import List Arith Bool ZArith QArith.
Import ListNotations.
From AgileV Require Import Base.Prelude C05.Model.
Local Open Scope nat_scope.

Section G.
Context {P : Type}.
Definition vclone_op := agent P -> option Z -> agent P.

Definition select_with_gen (cl : vclone_op) (rk : list nat) (c : cfg) (pop : list (agent P))
           (draws : list (list nat)) : option (agent P * list (agent P)) :=
  match pop with
  | [] => None
  | a0 :: rest =>
      let pl := select_plan rk c (max_index a0 rest) draws in
      let elite := cl (nth (p_elite pl) pop a0) None in
      Some (elite,
            map (fun m : nat * option Z =>
                   match snd m with
                   | None => cl elite None
                   | Some i => cl (nth (fst m) pop a0) (Some i)
                   end) (p_members pl))
  end.

(* inner clone under the requested index, then the parent's attributes (index included) copied over *)
Definition clone_index_overwritten (a : agent P) (idx : option Z) : agent P :=
  let inner := clone a idx in
  {| a_index := a_index a; a_fitness := a_fitness inner; a_body := a_body inner |}.
End G.

Definition wp_pop : list (agent nat) :=
  [ {| a_index := 3; a_fitness := [1%Q]; a_body := 0 |}; {| a_index := 1; a_fitness := [2%Q]; a_body := 1 |};
    {| a_index := 4; a_fitness := [0%Q]; a_body := 2 |} ].
Definition wp_cfg : cfg := {| tsize := 2; elitism := true; psize := 5; eval_loop := 1 |}.
Definition wp_draws : list (list nat) := [[0; 1]; [2; 1]; [2; 2]; [0; 2]].
