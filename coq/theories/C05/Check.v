(* C05 — boolean comparison of the model with observations of the implementation (used by K only).
   Tie classes are compared by mean value, never by position: NumPy's argsort is not stable, so among
   agents with equal means the implementation may legitimately pick another one than the stable model
   (Proofs.v, [select_tie_invariant]: all valid rankings agree up to the mean class). *)
From Coq Require Import List Arith Bool ZArith QArith Qabs.
Import ListNotations.
From AgileV Require Import Base.Prelude C05.Model C05.HeapModel.
Local Open Scope nat_scope.

Fixpoint list_eqb {T} (eqb : T -> T -> bool) (a b : list T) : bool :=
  match a, b with
  | [], [] => true
  | x :: a', y :: b' => eqb x y && list_eqb eqb a' b'
  | _, _ => false
  end.

Fixpoint forallb2 {T U} (f : T -> U -> bool) (a : list T) (b : list U) : bool :=
  match a, b with
  | [], [] => true
  | x :: a', y :: b' => f x y && forallb2 f a' b'
  | _, _ => false
  end.

(* an observed agent: position of its parent in the old population (private tag copied by clone),
   its index, its fitness list *)
Definition oagent := (nat * Z * list Q)%type.
Definition o_parent (o : oagent) : nat := fst (fst o).
Definition o_index (o : oagent) : Z := snd (fst o).
Definition o_fitness (o : oagent) : list Q := snd o.

(* a request made to np.random.randint: (low, high, size) *)
Definition rreq := (Z * Z * nat)%type.


(* ---- ownership level: run the heap model on a canonical heap (every agent owns its fitness list and
   one cell) and report (some copy shares an object with the old population or with another copy,
   some old object was written) ---- *)
Definition val_eqb (a b : option val) : bool :=
  match a, b with
  | None, None => true
  | Some (VList x), Some (VList y) => list_eqb Qeq_bool x y
  | Some (VCell x), Some (VCell y) => x =? y
  | _, _ => false
  end.
Fixpoint build (h : heap) (pop : list (agent nat)) : list hagent * heap :=
  match pop with
  | [] => ([], h)
  | a :: t =>
      let (lf, h1) := alloc h (Some (VList (a_fitness a))) in
      let (lc, h2) := alloc h1 (Some (VCell (a_body a))) in
      let (r, h3) := build h2 t in
      ({| h_index := a_index a; h_fit := lf; h_cells := [lc] |} :: r, h3)
  end.
Fixpoint nodupb (l : list nat) : bool :=
  match l with [] => true | x :: t => negb (existsb (Nat.eqb x) t) && nodupb t end.
Definition heap_verdict (c : cfg) (pop : list (agent nat)) (draws : list (list nat)) : option (bool * bool) :=
  let (hp, h) := build {| next := 0; store := fun _ => None |} pop in
  match select_h (ranks (means c pop)) c hp draws h with
  | None => None
  | Some (e, np, h') =>
      let ow := concat (map owned (e :: np)) in
      Some (negb (nodupb ow) || existsb (fun l => l <? next h) ow,
            negb (forallb (fun l => val_eqb (store h' l) (store h l)) (seq 0 (next h))))
  end.

(* [shared], [changed]: observed on the implementation (object identities / snapshots) *)
(* [mobs]: the scores the implementation actually computed (the float64 results of np.mean, imported
   exactly), or [] when they were not observed.  They must agree with the exact window means up to
   float rounding (relative 2^-40); the ranking is then taken on the observed scores, so that no
   assumption on how float rounding orders near-ties is needed
   (props: valid_ranking_transfers_from_float_means). *)
Definition close (a b : Q) : bool :=
  Qle_bool (Qabs (a - b)) ((1 # 1099511627776) * (1 + Qabs b)).
Definition scores (c : cfg) (pop : list (agent nat)) (mobs : list Q) : option (list Q) :=
  match mobs with
  | [] => Some (means c pop)
  | _ => if forallb2 close mobs (means c pop) then Some mobs else None
  end.

Definition check_select_f (c : cfg) (pop : list (agent nat)) (mobs : list Q) (draws : list (list nat))
           (reqs : list rreq) (shared changed : bool) (ob : option (oagent * list oagent)) : bool :=
  match pop, ob, scores c pop mobs with
  | [], None, _ => true
  | a0 :: rest, Some (oe, oms), Some ms =>
      let n := length pop in
      let pl := select_plan (ranks ms) c (max_index a0 rest) draws in
      let same_class p q := (p <? n) && (q <? n) && Qeq_bool (nth p ms 0%Q) (nth q ms 0%Q) in
      let faithful (o : oagent) := list_eqb Qeq_bool (o_fitness o) (a_fitness (nth (o_parent o) pop a0)) in
      let keeps (o : oagent) := Z.eqb (o_index o) (a_index (nth (o_parent o) pop a0)) in
      (* the elite: a copy of an agent of the best mean class, keeping its index *)
      same_class (p_elite pl) (o_parent oe) && keeps oe && faithful oe &&
      (* the generation *)
      forallb2 (fun (m : nat * option Z) (o : oagent) =>
                  same_class (fst m) (o_parent o) && faithful o &&
                  match snd m with
                  | None => keeps o && (o_parent o =? o_parent oe)
                  | Some i => Z.eqb (o_index o) i
                  end) (p_members pl) oms &&
      (* every tournament member descends from one of the agents drawn for it *)
      forallb2 (fun (o : oagent) (ds : list nat) => existsb (Nat.eqb (o_parent o)) ds)
               (skipn (if elitism c then 1 else 0) oms) draws &&
      (* the draws were requested over the whole population, tournament_size at a time *)
      forallb2 (fun (r : rreq) (ds : list nat) =>
                  Z.eqb (fst (fst r)) 0 && Z.eqb (snd (fst r)) (Z.of_nat n) && (snd r =? tsize c) &&
                  (length ds =? tsize c)) reqs draws &&
      (length draws =? nsel c) &&
      match heap_verdict c pop draws with
      | Some (ms, mc) => Bool.eqb ms shared && Bool.eqb mc changed
      | None => false
      end
  | _, _, _ => false
  end.

Definition check_select c pop draws reqs shared changed ob :=
  check_select_f c pop [] draws reqs shared changed ob.

(* a chain of generations: every generation is checked from the population the implementation
   actually had before the call *)
Definition gen_case := (list (agent nat) * list (list nat) * list rreq * (bool * bool) * option (oagent * list oagent))%type.
Definition check_chain (c : cfg) (gs : list gen_case) : bool :=
  forallb (fun g : gen_case => let '(pop, draws, reqs, (shared, changed), ob) := g in check_select c pop draws reqs shared changed ob) gs.

Definition gen_case_f := (list (agent nat) * list Q * list (list nat) * list rreq * (bool * bool) * option (oagent * list oagent))%type.
Definition check_chain_f (c : cfg) (gs : list gen_case_f) : bool :=
  forallb (fun g : gen_case_f => let '(pop, mobs, draws, reqs, (shared, changed), ob) := g in
                                 check_select_f c pop mobs draws reqs shared changed ob) gs.

Definition mk (i : Z) (f : list Q) (tag : nat) : agent nat := {| a_index := i; a_fitness := f; a_body := tag |}.
