(* C05 — with the index-overwriting wrapper clone, [indices_fresh] fails; with the real clone the
   generic select is the model the theorems are about. *)
From Coq Require Import List Arith Bool ZArith QArith Lia.
Import ListNotations.
From AgileV Require Import Base.Prelude C05.Model C05.Proofs C05.WrapperPinnedModel.
Local Open Scope nat_scope.

Lemma select_with_gen_clone {P} rk c (pop : list (agent P)) draws :
  select_with_gen clone rk c pop draws = select_with rk c pop draws.
Proof. destruct pop; reflexivity. Qed.

(* every tournament winner keeps its parent's index: [1,1,1,4,3] for the population [3,1,4] *)
Lemma wrapper_index_overwritten :
  exists e np, select_with_gen clone_index_overwritten (ranks (means wp_cfg wp_pop)) wp_cfg wp_pop wp_draws = Some (e, np) /\
    map a_index np = [1; 1; 1; 4; 3]%Z /\ ~ NoDup (map a_index np) /\
    (exists x, In x (skipn (off wp_cfg) (map a_index np)) /\ In x (map a_index wp_pop)).
Proof.
  eexists _, _. split; [vm_compute; reflexivity|]. split; [reflexivity|]. split.
  - cbn. intros H. inversion H as [|? ? Hn _]; subst. apply Hn. left. reflexivity.
  - exists 1%Z. cbn. intuition.
Qed.
