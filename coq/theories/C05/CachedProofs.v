(* C05 — the caching selector (seeded C05-t1/u2) is indistinguishable from the real one on a single lineage,
   for any number of generations — which is why the ordinary training loop never shows it — and differs as soon
   as the same selector object is handed a population it did not produce. *)
From Coq Require Import List Arith Bool ZArith QArith Lia.
Import ListNotations.
From AgileV Require Import Base.Prelude C05.Model C05.Proofs C05.CachedModel.
Local Open Scope nat_scope.

Section C.
Context {P : Type}.

Lemma select_with_at rk c (pop : list (agent P)) draws :
  select_with rk c pop draws = select_at (max_id pop) rk c pop draws.
Proof. destruct pop; reflexivity. Qed.

Lemma select_at_nsel0 m1 m2 rk c (pop : list (agent P)) draws : nsel c = 0 ->
  select_at m1 rk c pop draws = select_at m2 rk c pop draws.
Proof. intros Hz. destruct pop; [reflexivity|]. unfold select_at, select_plan. rewrite Hz. reflexivity. Qed.

Lemma fold_max_in : forall (l : list Z) z, In (fold_left Z.max l z) (z :: l).
Proof.
  induction l as [|y l IH]; intros z; cbn [fold_left]; [left; reflexivity|].
  destruct (IH (Z.max z y)) as [E|Hin]; [|right; right; exact Hin].
  rewrite <- E. destruct (Z.max_spec z y) as [[_ ->]|[_ ->]]; [right; left; reflexivity|left; reflexivity].
Qed.
Lemma max_id_in (pop : list (agent P)) : pop <> [] -> In (max_id pop) (map a_index pop).
Proof. destruct pop as [|a0 rest]; [congruence|intros _]. cbn [max_id map]. apply fold_max_in. Qed.

Lemma max_id_after rkf c (pop : list (agent P)) g : 0 < nsel c -> pop <> [] ->
  max_id (gen_step rkf c pop g) = (max_id pop + Z.of_nat (nsel c))%Z.
Proof.
  intros Hn Hne. unfold gen_step.
  destruct (select_with (rkf (means c pop)) c pop (fst (fst g))) as [[e np]|] eqn:E;
    [|apply select_none in E; congruence].
  set (r := append_fitness (mutate (snd (fst g)) np) (snd g)).
  assert (Hidx : map a_index r = map a_index np)
    by (unfold r; rewrite append_fitness_indices, mutate_indices; reflexivity).
  destruct (select_shape _ _ _ _ _ _ E) as (a0 & Ha0 & Ee & Enp).
  assert (Hlist : map a_index np =
     (if elitism c then [a_index e] else []) ++ map (fun i => (max_id pop + 1 + Z.of_nat i)%Z) (seq 0 (nsel c))).
  { rewrite Enp, map_app, map_map. f_equal. destruct (elitism c); reflexivity. }
  assert (He : (a_index e <= max_id pop)%Z).
  { rewrite Ee. cbn [clone a_index]. apply max_id_ge. apply nth_In_or_default. exact Ha0. }
  assert (Hub : forall x, In x (map a_index r) -> (x <= max_id pop + Z.of_nat (nsel c))%Z).
  { intros x Hx. rewrite Hidx, Hlist in Hx. apply in_app_or in Hx. destruct Hx as [Hx|Hx].
    - destruct (elitism c); [|destruct Hx]. destruct Hx as [<-|[]]. lia.
    - apply in_map_iff in Hx. destruct Hx as (i & <- & Hi). apply in_seq in Hi. lia. }
  assert (Hin : In (max_id pop + Z.of_nat (nsel c))%Z (map a_index r)).
  { rewrite Hidx, Hlist. apply in_or_app. right. apply in_map_iff. exists (nsel c - 1). split; [lia|].
    apply in_seq. lia. }
  assert (Hrne : r <> []) by (intros Er; rewrite Er in Hin; destruct Hin).
  pose proof (Hub _ (max_id_in r Hrne)). pose proof (max_id_ge_idx r _ Hin). lia.
Qed.

(* what the selector remembers is right whenever it matters *)
Definition counter_ok (c : cfg) (st : option Z) (pop : list (agent P)) : Prop :=
  match st with None => True | Some m => 0 < nsel c -> m = max_id pop end.

Lemma gen_step_cached_agrees rkf c (pop : list (agent P)) st g : 0 < psize c -> pop <> [] -> counter_ok c st pop ->
  fst (gen_step_cached rkf c (pop, st) g) = gen_step rkf c pop g /\
  counter_ok c (snd (gen_step_cached rkf c (pop, st) g)) (gen_step rkf c pop g).
Proof.
  intros Hp Hne Hok. unfold gen_step_cached, select_cached. cbn [fst snd].
  destruct pop as [|a0 rest] eqn:Epop; [congruence|]. rewrite <- Epop in *.
  set (mx := match st with None => max_index a0 rest | Some m => m end).
  assert (Hsel : select_at mx (rkf (means c pop)) c pop (fst (fst g)) =
                 select_with (rkf (means c pop)) c pop (fst (fst g))).
  { rewrite select_with_at. destruct (Nat.eq_dec (nsel c) 0) as [Hz|Hnz]; [apply select_at_nsel0; exact Hz|].
    f_equal. unfold mx. destruct st as [m|]; [apply Hok; lia|rewrite Epop; reflexivity]. }
  assert (Hmx : 0 < nsel c -> mx = max_id pop).
  { intros Hn. unfold mx. destruct st as [m|]; [apply Hok; exact Hn|rewrite Epop; reflexivity]. }
  rewrite Epop at 1. cbn iota. rewrite <- Epop. rewrite Hsel. unfold gen_step.
  destruct (select_with (rkf (means c pop)) c pop (fst (fst g))) as [[e np]|] eqn:E.
  - cbn [fst snd]. split; [reflexivity|]. intros Hn.
    pose proof (max_id_after rkf c pop g Hn Hne) as Hafter. unfold gen_step in Hafter. rewrite E in Hafter.
    rewrite Hafter, (Hmx Hn). reflexivity.
  - apply select_none in E. congruence.
Qed.

Theorem cached_agrees_on_lineage_lemma rkf c : 0 < psize c ->
  forall (gs : list (@generation P)) (pop : list (agent P)) st, pop <> [] -> counter_ok c st pop ->
  fst (fold_left (gen_step_cached rkf c) gs (pop, st)) = run_generations rkf c pop gs.
Proof.
  intros Hp. induction gs as [|g gs IH]; intros pop st Hne Hok; [reflexivity|].
  unfold run_generations. cbn [fold_left]. fold (run_generations rkf c (gen_step rkf c pop g) gs).
  destruct (gen_step_cached_agrees rkf c pop st g Hp Hne Hok) as (H1 & H2).
  destruct (gen_step_cached rkf c (pop, st) g) as [pop' st'] eqn:E. cbn [fst snd] in H1, H2. subst pop'.
  apply IH; [|exact H2].
  destruct (gen_step_inv rkf c pop g Hp Hne) as (_ & Hlen & _). intros En. rewrite En in Hlen. cbn in Hlen. lia.
Qed.

Theorem run_cached_agrees rkf c (gs : list (@generation P)) (pop : list (agent P)) :
  0 < psize c -> pop <> [] -> fst (run_cached rkf c pop gs) = run_generations rkf c pop gs.
Proof. intros Hp Hne. unfold run_cached. apply cached_agrees_on_lineage_lemma; [exact Hp|exact Hne|exact I]. Qed.
End C.

(* ... but handed a population it did not produce (ids 5..8 after it produced 4..6), the caching selector returns
   the elite's index twice and "fresh" indices that belong to agents of the population it was given *)
Lemma cached_reuse_breaks :
  exists r1 st1 e np st2,
    select_cached None (ranks (means cd_cfg cd_first)) cd_cfg cd_first cd_draws = (r1, st1) /\
    select_cached st1 (ranks (means cd_cfg cd_second)) cd_cfg cd_second cd_draws = (Some (e, np), st2) /\
    map a_index np = [8; 7; 8; 9]%Z /\ ~ NoDup (map a_index np) /\
    (exists x, In x (skipn 1 (map a_index np)) /\ In x (map a_index cd_second)).
Proof.
  eexists _, _, _, _, _. split; [vm_compute; reflexivity|]. split; [vm_compute; reflexivity|].
  split; [reflexivity|]. split.
  - cbn. intros H. inversion H as [|? ? Hn _]; subst. apply Hn. right. left. reflexivity.
  - exists 7%Z. cbn. intuition.
Qed.
