(* C05 — ownership-level model of select: agents own mutable objects (the fitness list, parameter
   tensors, optimizer state ...) that live in a heap; clone allocates fresh objects and copies the
   contents.  Used for "the old population is left untouched" and "the copies share nothing".
   Model only (no proofs). *)
From Coq Require Import List Arith Bool ZArith QArith.
Import ListNotations.
From AgileV Require Import Base.Prelude C05.Model.
Local Open Scope nat_scope.

Inductive val := VList (l : list Q) | VCell (content : nat).

(* locations are allocated in increasing order; [next] is the first unused one *)
Record heap := { next : nat; store : nat -> option val }.

Definition alloc (h : heap) (v : option val) : nat * heap :=
  (next h, {| next := S (next h); store := fun l => if l =? next h then v else store h l |}).

Record hagent := { h_index : Z; h_fit : nat; h_cells : list nat }.
Definition owned (a : hagent) : list nat := h_fit a :: h_cells a.

(* deepcopy of a list of objects: one fresh object per original, same content *)
Fixpoint alloc_copies (h : heap) (ls : list nat) : list nat * heap :=
  match ls with
  | [] => ([], h)
  | l :: t => let (l', h1) := alloc h (store h l) in
              let (t', h2) := alloc_copies h1 t in (l' :: t', h2)
  end.

(* EvolvableAlgorithm.clone: new networks/optimizers loaded with the parent's values, attributes
   deep-copied (fitness is a list: [copy.deepcopy(el) for el in attr]) *)
Definition hclone (h : heap) (a : hagent) (idx : option Z) : hagent * heap :=
  let (ls, h') := alloc_copies h (owned a) in
  ({| h_index := match idx with Some i => i | None => h_index a end;
      h_fit := hd 0 ls; h_cells := tl ls |}, h').

Fixpoint hclone_all (h : heap) (pop : list hagent) (a0 : hagent) (ms : list (nat * Z))
  : list hagent * heap :=
  match ms with
  | [] => ([], h)
  | (p, i) :: t => let (a, h1) := hclone h (nth p pop a0) (Some i) in
                   let (r, h2) := hclone_all h1 pop a0 t in (a :: r, h2)
  end.

(* select in program order: elite = model.clone(); [elite.clone()]; then one clone per tournament *)
Definition select_h (rk : list nat) (c : cfg) (pop : list hagent) (draws : list (list nat)) (h : heap)
  : option (hagent * list hagent * heap) :=
  match pop with
  | [] => None
  | a0 :: rest =>
      let mx := fold_left Z.max (map h_index rest) (h_index a0) in
      let (elite, h1) := hclone h (nth (elite_pos rk) pop a0) None in
      let (first, h2) := if elitism c then (let (f, h2) := hclone h1 elite None in ([f], h2)) else ([], h1) in
      let (others, h3) := hclone_all h2 pop a0
            (map (fun i => (tournament rk (nth i draws []), (mx + 1 + Z.of_nat i)%Z)) (seq 0 (nsel c))) in
      Some (elite, first ++ others, h3)
  end.

(* whatever happens to the children afterwards — scores appended in place to their fitness lists
   (agent.fitness.append), gradient steps on their parameters, optimizer updates, mutations — is a
   sequence of in-place writes to objects they own *)
Definition write (h : heap) (l : nat) (v : option val) : heap :=
  {| next := next h; store := fun x => if x =? l then v else store h x |}.
Fixpoint writes (h : heap) (ws : list (nat * option val)) : heap :=
  match ws with [] => h | w :: t => writes (write h (fst w) (snd w)) t end.

(* what an agent looks like to an observer who only reads values *)
Definition abs (h : heap) (a : hagent) : agent (list (option val)) :=
  {| a_index := h_index a;
     a_fitness := match store h (h_fit a) with Some (VList l) => l | _ => [] end;
     a_body := map (store h) (h_cells a) |}.
