(* C05 — model of the pinned (pre-fix) clone: before fix 72877d1 `clone` did
   `opt.load_state_dict(orig_optimizer.state_dict())`, which makes the copy's optimizer-state tensors
   the SAME objects as the parent's.  [select_h_gen] is [select_h] with the clone operation as a
   parameter; with the pinned clone the copies share objects with the old population. *)
From Coq Require Import List Arith Bool ZArith QArith.
Import ListNotations.
From AgileV Require Import Base.Prelude C05.Model C05.HeapModel.
Local Open Scope nat_scope.

Definition clone_op := heap -> hagent -> option Z -> hagent * heap.

(* the last [nshared] cells (optimizer state) are not copied but referenced *)
Definition hclone_pinned (nshared : nat) : clone_op := fun h a idx =>
  let ncopy := length (h_cells a) - nshared in
  let (ls, h') := alloc_copies h (h_fit a :: firstn ncopy (h_cells a)) in
  ({| h_index := match idx with Some i => i | None => h_index a end;
      h_fit := hd 0 ls; h_cells := tl ls ++ skipn ncopy (h_cells a) |}, h').

Fixpoint hclone_all_gen (cl : clone_op) (h : heap) (pop : list hagent) (a0 : hagent) (ms : list (nat * Z))
  : list hagent * heap :=
  match ms with
  | [] => ([], h)
  | (p, i) :: t => let (a, h1) := cl h (nth p pop a0) (Some i) in
                   let (r, h2) := hclone_all_gen cl h1 pop a0 t in (a :: r, h2)
  end.

Definition select_h_gen (cl : clone_op) (rk : list nat) (c : cfg) (pop : list hagent)
           (draws : list (list nat)) (h : heap) : option (hagent * list hagent * heap) :=
  match pop with
  | [] => None
  | a0 :: rest =>
      let mx := fold_left Z.max (map h_index rest) (h_index a0) in
      let (elite, h1) := cl h (nth (elite_pos rk) pop a0) None in
      let (first, h2) := if elitism c then (let (f, h2) := cl h1 elite None in ([f], h2)) else ([], h1) in
      let (others, h3) := hclone_all_gen cl h2 pop a0
            (map (fun i => (tournament rk (nth i draws []), (mx + 1 + Z.of_nat i)%Z)) (seq 0 (nsel c))) in
      Some (elite, first ++ others, h3)
  end.

(* a two-agent population; each agent owns its fitness list (even locations) and two cells:
   a parameter tensor and an optimizer-state tensor *)
Definition pin_heap : heap :=
  {| next := 6;
     store := fun l => match l with
                       | 0 => Some (VList [1%Q]) | 1 => Some (VCell 10) | 2 => Some (VCell 11)
                       | 3 => Some (VList [2%Q]) | 4 => Some (VCell 20) | 5 => Some (VCell 21)
                       | _ => None end |}.
Definition pin_pop : list hagent :=
  [ {| h_index := 0; h_fit := 0; h_cells := [1; 2] |}; {| h_index := 1; h_fit := 3; h_cells := [4; 5] |} ].
Definition pin_cfg : cfg := {| tsize := 1; elitism := true; psize := 2; eval_loop := 1 |}.
