(* C05 — the literal argsort().argsort() equals the counting definition of the ranks. *)
From Coq Require Import List Arith Bool QArith Lia Lqa Permutation Sorted.
Import ListNotations.
From AgileV Require Import Base.Prelude C05.Model C05.Proofs C05.SortModel.
Local Open Scope nat_scope.

Definition lt_m (m : list Q) (a b : nat) : Prop := lexlt m a b = true.

Lemma lexlt_asym m a b : lexlt m a b = true -> lexlt m b a = false.
Proof.
  intros H. destruct (lexlt m b a) eqn:E; auto.
  pose proof (lexlt_trans m a b a H E) as C. rewrite lexlt_irrefl in C. discriminate.
Qed.

Lemma le_is_lexlt m j i : j < i -> Qle_bool (nth j m 0%Q) (nth i m 0%Q) = lexlt m j i.
Proof.
  intros Hji. destruct (lexlt m j i) eqn:E.
  - apply lexlt_iff in E. apply Qle_bool_iff. destruct E as [E|[E _]]; lra.
  - destruct (Qle_bool _ _) eqn:L; auto. apply Qle_bool_iff in L.
    assert (lexlt m j i = true); [|congruence]. apply lexlt_iff.
    destruct (Qlt_le_dec (nth j m 0%Q) (nth i m 0%Q)); [left; auto|right; split; [lra|exact Hji]].
Qed.

Lemma insert_stable_perm m i s : Permutation (insert_stable m i s) (i :: s).
Proof.
  induction s as [|j t IH]; cbn; auto. destruct (Qle_bool _ _); auto.
  rewrite IH. apply perm_swap.
Qed.

Lemma insert_stable_sorted m i s :
  (forall j, In j s -> j < i) -> StronglySorted (lt_m m) s -> StronglySorted (lt_m m) (insert_stable m i s).
Proof.
  induction s as [|j t IH]; intros Hb Hs; cbn.
  - repeat constructor.
  - inversion Hs as [|? ? Hs' Hall]; subst.
    rewrite (le_is_lexlt m j i) by (apply Hb; left; reflexivity).
    destruct (lexlt m j i) eqn:E.
    + constructor; [apply IH; auto; intros x Hx; apply Hb; right; exact Hx|].
      apply Forall_forall. intros x Hx.
      apply (Permutation_in _ (insert_stable_perm m i t)) in Hx. destruct Hx as [<-|Hx]; [exact E|].
      rewrite Forall_forall in Hall. apply Hall. exact Hx.
    + assert (Hij : lexlt m i j = true).
      { assert (Hne : i <> j) by (specialize (Hb j (or_introl eq_refl)); lia).
        destruct (lexlt_total m i j Hne); congruence. }
      constructor; [exact Hs|]. constructor; [exact Hij|].
      apply Forall_forall. intros x Hx. rewrite Forall_forall in Hall.
      eapply lexlt_trans; [exact Hij|apply Hall; exact Hx].
Qed.

Lemma argsort_prefix m : forall k (s : list nat) (base : nat),
  Permutation s (seq 0 base) -> StronglySorted (lt_m m) s ->
  let r := fold_left (fun s i => insert_stable m i s) (seq base k) s in
  Permutation r (seq 0 (base + k)) /\ StronglySorted (lt_m m) r.
Proof.
  induction k as [|k IH]; intros s base Hp Hs; cbn [seq fold_left].
  - rewrite Nat.add_0_r. split; assumption.
  - assert (Hp' : Permutation (insert_stable m base s) (seq 0 (S base))).
    { rewrite insert_stable_perm, seq_S, Hp. cbn. apply Permutation_cons_append. }
    assert (Hs' : StronglySorted (lt_m m) (insert_stable m base s)).
    { apply insert_stable_sorted; auto. intros j Hj. apply (Permutation_in _ Hp) in Hj.
      apply in_seq in Hj. lia. }
    specialize (IH _ (S base) Hp' Hs'). cbn zeta in IH.
    replace (base + S k) with (S base + k) by lia. exact IH.
Qed.

Lemma argsort_stable_spec m :
  Permutation (argsort_stable m) (seq 0 (length m)) /\ StronglySorted (lt_m m) (argsort_stable m).
Proof.
  unfold argsort_stable.
  apply (argsort_prefix m (length m) [] 0); [reflexivity|constructor].
Qed.

Lemma index_of_sorted m : forall s x, StronglySorted (lt_m m) s -> In x s ->
  index_of x s = length (filter (fun j => lexlt m j x) s).
Proof.
  induction s as [|y t IH]; intros x Hs Hx; [destruct Hx|].
  inversion Hs as [|? ? Hs' Hall]; subst. rewrite Forall_forall in Hall. cbn [index_of filter].
  destruct (Nat.eqb_spec x y) as [->|Hne].
  - rewrite lexlt_irrefl.
    assert (E : filter (fun j => lexlt m j y) t = []).
    { clear -Hall. induction t as [|z t IH]; cbn; auto.
      rewrite (lexlt_asym m y z) by (apply Hall; left; reflexivity).
      apply IH. intros w Hw. apply Hall. right. exact Hw. }
    rewrite E. reflexivity.
  - destruct Hx as [E|Hx]; [congruence|].
    assert (Hyx : lexlt m y x = true) by (apply Hall; exact Hx). rewrite Hyx. cbn [length].
    f_equal. apply IH; assumption.
Qed.

Lemma filter_length_perm {A} (f : A -> bool) l l' : Permutation l l' ->
  length (filter f l) = length (filter f l').
Proof.
  induction 1; cbn; auto.
  - destruct (f x); cbn; congruence.
  - destruct (f x), (f y); cbn; reflexivity.
  - congruence.
Qed.

(* np.argsort(x, kind="stable").argsort() is the counting rank *)
Theorem ranks_lit_eq m : ranks_lit m = ranks m.
Proof.
  destruct (argsort_stable_spec m) as (Hp & Hs).
  unfold ranks_lit, inverse_perm, ranks.
  rewrite (Permutation_length Hp), seq_length.
  apply map_ext_in. intros i Hi. unfold rank.
  rewrite (index_of_sorted m _ i Hs) by (apply (Permutation_in _ (Permutation_sym Hp)); exact Hi).
  apply filter_length_perm. exact Hp.
Qed.
