(* C05 — proofs about the ownership-level model: select only allocates (frame), the copies own
   fresh pairwise-disjoint objects, and reading values gives exactly the value-level model. *)
From Coq Require Import List Arith Bool ZArith QArith Lia.
Import ListNotations.
From AgileV Require Import Base.Prelude C05.Model C05.HeapModel.
Local Open Scope nat_scope.

(* h' extends h: nothing that existed in h was written *)
Definition ext (h h' : heap) : Prop :=
  next h <= next h' /\ forall l, l < next h -> store h' l = store h l.

Lemma ext_refl h : ext h h.
Proof. split; auto. Qed.
Lemma ext_trans h1 h2 h3 : ext h1 h2 -> ext h2 h3 -> ext h1 h3.
Proof. intros (A & B) (C & D). split; [lia|]. intros l Hl. rewrite D by lia. apply B. exact Hl. Qed.

Definition wf (h : heap) (a : hagent) : Prop := forall l, In l (owned a) -> l < next h.
Definition wf_pop (h : heap) (pop : list hagent) : Prop := forall a, In a pop -> wf h a.

Lemma wf_ext h h' a : ext h h' -> wf h a -> wf h' a.
Proof. intros (A & _) W l Hl. specialize (W l Hl). lia. Qed.

Lemma abs_ext h h' a : ext h h' -> wf h a -> abs h' a = abs h a.
Proof.
  intros (_ & B) W. unfold abs. f_equal.
  - rewrite B; [reflexivity|]. apply W. left. reflexivity.
  - apply map_ext_in. intros l Hl. apply B. apply W. right. exact Hl.
Qed.

Lemma alloc_copies_spec : forall ls h, (forall l, In l ls -> l < next h) ->
  forall ls' h', alloc_copies h ls = (ls', h') ->
  ext h h' /\ ls' = seq (next h) (length ls) /\ next h' = next h + length ls /\
  map (store h') ls' = map (store h) ls.
Proof.
  induction ls as [|l t IH]; intros h W ls' h' E; cbn [alloc_copies] in E.
  - injection E as <- <-. cbn. repeat split; auto; lia.
  - unfold alloc in E.
    set (h1 := {| next := S (next h); store := fun l0 => if l0 =? next h then store h l else store h l0 |}) in E.
    destruct (alloc_copies h1 t) as [t' h2] eqn:E2. injection E as <- <-.
    assert (W1 : forall x, In x t -> x < next h1) by (intros x Hx; cbn; specialize (W x (or_intror Hx)); lia).
    destruct (IH h1 W1 _ _ E2) as ((N & S2) & Et & Hn & Hm).
    assert (X : ext h h1).
    { split; [cbn; lia|]. intros x Hx. cbn. destruct (Nat.eqb_spec x (next h)); [lia|reflexivity]. }
    split; [apply (ext_trans _ h1); [exact X|split; assumption]|].
    split; [cbn [length seq]; rewrite Et; reflexivity|].
    split; [cbn [length] in *; cbn in Hn; lia|].
    cbn [map]. f_equal.
    + rewrite S2 by (cbn; lia). cbn. rewrite Nat.eqb_refl. reflexivity.
    + rewrite Hm. apply map_ext_in. intros x Hx. cbn.
      destruct (Nat.eqb_spec x (next h)); [specialize (W x (or_intror Hx)); lia|reflexivity].
Qed.

Lemma hclone_spec h a idx a' h' : wf h a -> hclone h a idx = (a', h') ->
  ext h h' /\ owned a' = seq (next h) (length (owned a)) /\ next h' = next h + length (owned a) /\
  abs h' a' = clone (abs h a) idx /\ wf h' a'.
Proof.
  intros W E. unfold hclone in E. destruct (alloc_copies h (owned a)) as [ls h2] eqn:E2.
  injection E as <- <-.
  destruct (alloc_copies_spec _ _ W _ _ E2) as (X & Els & Hn & Hm).
  assert (Hown : owned {| h_index := match idx with Some i => i | None => h_index a end;
                          h_fit := hd 0 ls; h_cells := tl ls |} = ls).
  { unfold owned. cbn [h_fit h_cells]. rewrite Els. cbn [owned length seq hd tl]. reflexivity. }
  split; [exact X|]. split; [rewrite Hown; exact Els|]. split; [exact Hn|]. split.
  - unfold abs, clone. cbn [h_index h_fit h_cells a_index a_fitness a_body].
    rewrite Els in Hm |- *. cbn [owned length seq map hd tl] in Hm |- *.
    injection Hm as H1 H2. rewrite H1, H2. reflexivity.
  - intros l Hl. rewrite Hown, Els in Hl. apply in_seq in Hl. lia.
Qed.

Lemma hclone_all_spec : forall ms h pop a0, wf_pop h pop -> wf h a0 ->
  forall r h', hclone_all h pop a0 ms = (r, h') ->
  ext h h' /\ concat (map owned r) = seq (next h) (next h' - next h) /\
  map (abs h') r = map (fun m : nat * Z => clone (abs h (nth (fst m) pop a0)) (Some (snd m))) ms /\
  (forall a, In a r -> wf h' a).
Proof.
  induction ms as [|[p i] t IH]; intros h pop a0 Wp W0 r h' E; cbn [hclone_all] in E.
  - injection E as <- <-. cbn. rewrite Nat.sub_diag. repeat split; auto; try lia; try (intros ? []); try (intros ? ? []).
  - destruct (hclone h (nth p pop a0) (Some i)) as [a h1] eqn:E1.
    destruct (hclone_all h1 pop a0 t) as [r2 h2] eqn:E2. injection E as <- <-.
    assert (Wn : wf h (nth p pop a0)).
    { destruct (Nat.lt_ge_cases p (length pop)); [apply Wp, nth_In; auto|rewrite nth_overflow; auto]. }
    destruct (hclone_spec _ _ _ _ _ Wn E1) as (X1 & O1 & N1 & A1 & W1).
    assert (Wp1 : wf_pop h1 pop) by (intros x Hx; eapply wf_ext; [exact X1|apply Wp; exact Hx]).
    assert (W01 : wf h1 a0) by (eapply wf_ext; eauto).
    destruct (IH h1 pop a0 Wp1 W01 _ _ E2) as (X2 & O2 & A2 & W2).
    split; [eapply ext_trans; eauto|]. split.
    + cbn [map concat]. rewrite O1, O2, N1. destruct X2 as (L2 & _).
      replace (next h2 - next h) with (length (owned (nth p pop a0)) + (next h2 - (next h + length (owned (nth p pop a0))))) by lia.
      rewrite seq_app. reflexivity.
    + split.
      * cbn [map fst snd]. f_equal.
        -- rewrite (abs_ext h1 h2) by assumption. exact A1.
        -- rewrite A2. apply map_ext_in. intros m _. f_equal. apply abs_ext; [exact X1|].
           destruct (Nat.lt_ge_cases (fst m) (length pop)); [apply Wp, nth_In; auto|rewrite nth_overflow; auto].
      * intros x [<-|Hx]; [eapply wf_ext; eauto|auto].
Qed.

Theorem select_h_spec rk c pop draws h e np h' :
  wf_pop h pop -> select_h rk c pop draws h = Some (e, np, h') ->
  ext h h' /\
  concat (map owned (e :: np)) = seq (next h) (next h' - next h) /\
  select_with rk c (map (abs h) pop) draws = Some (abs h' e, map (abs h') np).
Proof.
  intros Wp E. destruct pop as [|a0 rest]; [discriminate|]. unfold select_h in E.
  set (pop := a0 :: rest) in *.
  set (mx := fold_left Z.max (map h_index rest) (h_index a0)) in E.
  assert (W0 : wf h a0) by (apply Wp; left; reflexivity).
  assert (Wn : forall p hh, ext h hh -> wf hh (nth p pop a0)).
  { intros p hh X. eapply wf_ext; [exact X|].
    destruct (Nat.lt_ge_cases p (length pop)); [apply Wp, nth_In; auto|rewrite nth_overflow; auto]. }
  destruct (hclone h (nth (elite_pos rk) pop a0) None) as [elite h1] eqn:E1.
  destruct (hclone_spec _ _ _ _ _ (Wn _ _ (ext_refl h)) E1) as (X1 & O1 & N1 & A1 & W1).
  destruct (if elitism c then let (f, h2) := hclone h1 elite None in ([f], h2) else ([], h1)) as [first h2] eqn:Ef.
  assert (F : ext h1 h2 /\ concat (map owned first) = seq (next h1) (next h2 - next h1) /\
              map (abs h2) first = (if elitism c then [clone (abs h1 elite) None] else []) /\
              (forall a, In a first -> wf h2 a)).
  { destruct (elitism c).
    - destruct (hclone h1 elite None) as [f hf] eqn:E2. injection Ef as <- <-.
      destruct (hclone_spec _ _ _ _ _ W1 E2) as (X2 & O2 & N2 & A2 & W2).
      split; [exact X2|]. split; [cbn [map concat]; rewrite app_nil_r, O2; f_equal; lia|].
      split; [cbn [map]; rewrite A2; reflexivity|]. intros a [<-|[]]. exact W2.
    - injection Ef as <- <-. split; [apply ext_refl|]. cbn. rewrite Nat.sub_diag.
      repeat split; auto. intros a []. }
  destruct F as (X2 & O2 & A2 & W2).
  destruct (hclone_all h2 pop a0 _) as [others h3] eqn:E3 in E. injection E as <- <- <-.
  assert (X02 : ext h h2) by (eapply ext_trans; eauto).
  assert (Wp2 : wf_pop h2 pop) by (intros x Hx; eapply wf_ext; [exact X02|apply Wp; exact Hx]).
  destruct (hclone_all_spec _ _ _ _ Wp2 (wf_ext _ _ _ X02 W0) _ _ E3) as (X3 & O3 & A3 & W3).
  split; [eapply ext_trans; eauto|]. split.
  - cbn [map concat]. rewrite map_app, concat_app, O1, O2, O3, N1.
    destruct X1 as (L1 & _), X2 as (L2 & _), X3 as (L3 & _).
    rewrite <- N1.
    replace (next h3 - next h) with ((next h1 - next h) + ((next h2 - next h1) + (next h3 - next h2))) by lia.
    rewrite !seq_app. replace (next h + (next h1 - next h)) with (next h1) by lia.
    replace (next h1 + (next h2 - next h1)) with (next h2) by lia.
    replace (length (owned (nth (elite_pos rk) pop a0))) with (next h1 - next h) by lia. reflexivity.
  - unfold select_with, pop. cbn [map]. fold pop.
    assert (Emx : max_index (abs h a0) (map (abs h) rest) = mx).
    { unfold max_index, mx. rewrite map_map. reflexivity. }
    rewrite Emx. unfold select_plan. cbn [p_elite p_members].
    assert (Enth : forall p, nth p (abs h a0 :: map (abs h) rest) (abs h a0) = abs h (nth p pop a0)).
    { intros p. change (abs h a0 :: map (abs h) rest) with (map (abs h) pop). apply map_nth. }
    assert (Ae : abs h3 elite = clone (abs h (nth (elite_pos rk) pop a0)) None).
    { rewrite (abs_ext h1 h3); [exact A1| eapply ext_trans; eauto | exact W1]. }
    assert (X13 : ext h1 h3) by (eapply ext_trans; eauto).
    rewrite Enth, <- Ae. f_equal. f_equal.
    rewrite !map_app. f_equal.
    + transitivity (map (abs h2) first).
      * rewrite A2. destruct (elitism c); [|reflexivity]. cbn [map snd].
        rewrite (abs_ext h1 h3) by assumption. reflexivity.
      * apply map_ext_in. intros a Ha. symmetry. apply abs_ext; [exact X3|apply W2; exact Ha].
    + rewrite A3, !map_map. apply map_ext_in. intros i _. cbn [fst snd]. rewrite Enth.
      f_equal. symmetry. apply abs_ext; [exact X02|]. apply (Wn _ h (ext_refl h)).
Qed.

(* the old population is left untouched: no existing object is written, every old agent reads the same *)
Theorem old_untouched_lemma rk c pop draws h e np h' :
  wf_pop h pop -> select_h rk c pop draws h = Some (e, np, h') ->
  (forall l, l < next h -> store h' l = store h l) /\
  (forall a, In a pop -> abs h' a = abs h a).
Proof.
  intros Wp E. destruct (select_h_spec _ _ _ _ _ _ _ _ Wp E) as (X & _ & _).
  split; [apply X|]. intros a Ha. apply abs_ext; [exact X|apply Wp; exact Ha].
Qed.

(* the elite and the members own fresh objects: pairwise disjoint, and disjoint from everything the
   old population owns *)
Theorem copies_are_fresh_lemma rk c pop draws h e np h' :
  wf_pop h pop -> select_h rk c pop draws h = Some (e, np, h') ->
  NoDup (concat (map owned (e :: np))) /\
  (forall l, In l (concat (map owned (e :: np))) -> next h <= l) /\
  (forall a l, In a pop -> In l (owned a) -> ~ In l (concat (map owned (e :: np)))).
Proof.
  intros Wp E. destruct (select_h_spec _ _ _ _ _ _ _ _ Wp E) as (_ & O & _).
  rewrite O. split; [apply seq_NoDup|]. split.
  - intros l Hl. apply in_seq in Hl. lia.
  - intros a l Ha Hl Hin. apply in_seq in Hin. specialize (Wp a Ha l Hl). lia.
Qed.

Theorem select_h_refines_lemma rk c pop draws h e np h' :
  wf_pop h pop -> select_h rk c pop draws h = Some (e, np, h') ->
  select_with rk c (map (abs h) pop) draws = Some (abs h' e, map (abs h') np).
Proof. intros Wp E. apply (select_h_spec _ _ _ _ _ _ _ _ Wp E). Qed.

Lemma select_h_none rk c pop draws h : select_h rk c pop draws h = None <-> pop = [].
Proof.
  destruct pop as [|a0 rest]; [cbn; split; congruence|]. split; [|discriminate].
  unfold select_h. destruct (hclone _ _ _) as [? ?].
  destruct (if elitism c then _ else _) as [? ?]. destruct (hclone_all _ _ _ _) as [? ?]. discriminate.
Qed.

(* in-place writes above a bound leave everything below it alone *)
Lemma writes_frame : forall ws h n, (forall w, In w ws -> n <= fst w) ->
  forall l, l < n -> store (writes h ws) l = store h l.
Proof.
  induction ws as [|w t IH]; intros h n Hb l Hl; cbn [writes]; [reflexivity|].
  rewrite (IH _ n) by (auto; intros x Hx; apply Hb; right; exact Hx). cbn.
  destruct (Nat.eqb_spec l (fst w)); [|reflexivity]. specialize (Hb w (or_introl eq_refl)). lia.
Qed.

(* the old population stays untouched even when the children are subsequently trained, evaluated
   (scores appended in place) or mutated: any writes to objects owned by the elite / the members *)
Theorem parents_survive_children_lemma rk c pop draws h e np h' :
  wf_pop h pop -> select_h rk c pop draws h = Some (e, np, h') ->
  forall ws, (forall w, In w ws -> In (fst w) (concat (map owned (e :: np)))) ->
  forall a, In a pop -> abs (writes h' ws) a = abs h a.
Proof.
  intros Wp E ws Hws a Ha.
  destruct (copies_are_fresh_lemma _ _ _ _ _ _ _ _ Wp E) as (_ & Hge & _).
  destruct (old_untouched_lemma _ _ _ _ _ _ _ _ Wp E) as (Hfr & Habs).
  rewrite <- (Habs a Ha).
  assert (F : forall l, l < next h -> store (writes h' ws) l = store h' l).
  { apply writes_frame. intros w Hw. apply Hge, Hws, Hw. }
  unfold abs. f_equal.
  - rewrite F; [reflexivity|]. apply (Wp a Ha). left. reflexivity.
  - apply map_ext_in. intros l Hl. apply F. apply (Wp a Ha). right. exact Hl.
Qed.
