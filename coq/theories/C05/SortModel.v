(* C05 — literal transcription of np.argsort(last_fitness, stable).argsort(): a stable insertion
   sort of the positions by value, then the inverse permutation.  Model only (no proofs);
   SortProofs.v shows it equals the counting definition [ranks] of Model.v. *)
From Coq Require Import List Arith Bool QArith.
Import ListNotations.
From AgileV Require Import Base.Prelude C05.Model.
Local Open Scope nat_scope.

(* insert position i after every position whose value is <= its value (stability) *)
Fixpoint insert_stable (m : list Q) (i : nat) (s : list nat) : list nat :=
  match s with
  | [] => [i]
  | j :: t => if Qle_bool (nth j m 0%Q) (nth i m 0%Q) then j :: insert_stable m i t else i :: j :: t
  end.
Definition argsort_stable (m : list Q) : list nat :=
  fold_left (fun s i => insert_stable m i s) (seq 0 (length m)) [].

Fixpoint index_of (x : nat) (s : list nat) : nat :=
  match s with [] => 0 | y :: t => if x =? y then 0 else S (index_of x t) end.
(* argsort of a permutation of 0..n-1 is its inverse: position i receives the place of i *)
Definition inverse_perm (s : list nat) : list nat := map (fun i => index_of i s) (seq 0 (length s)).

Definition ranks_lit (m : list Q) : list nat := inverse_perm (argsort_stable m).
