(* C16 — correspondence (K) side: the call scenarios that are run against the real code, the split of a
   formula into its arithmetic skeleton (evaluated here, in Q) and its primitive atoms (evaluated by the
   small trusted Python evaluator in float64 and passed in as exact rationals), and the comparison with
   the tensors the implementation returned. *)
From Coq Require Import List Arith Bool String QArith Qabs.
Import ListNotations.
From AgileV Require Import C16.Model.
Open Scope string_scope.
Open Scope list_scope.
Open Scope nat_scope.
Local Notation length := List.length.
Local Notation concat := List.concat.

(* ------------------------------------------------------------------ scenarios *)
Inductive scenario :=
| ScFresh      (* actor(obs, mask) -> action, log_prob, entropy *)
| ScReeval     (* head_net.forward(latent, mask) then action_log_prob(the action just returned) *)
| ScStored     (* forward on batch 1, keep the actions, forward on batch 2, action_log_prob(stored actions) *)
| ScPPOGet     (* agent.get_action(obs, mask) in training mode *)
| ScPPOEval    (* agent.get_action(obs, mask), then agent.evaluate_actions(obs2, stored actions) *)
| ScPPOLearn   (* rollout with get_action, then learn(): squeeze / restore axis / evaluate_actions on a minibatch *)
| ScIPPOLearn. (* IPPO._learn_individual: actor(batch_states); actor.action_log_prob(minibatch actions) *)

Definition vec_of (t : tens) : option (list expr) :=
  match t with T1 v => Some v | T2 m => Some (concat m) | TErr => None end.

Definition named (n : string) (t : tens) : option (list (string * list expr)) :=
  match vec_of t with Some v => Some [(n, v)] | None => None end.

Definition oapp {A} (x y : option (list A)) : option (list A) :=
  match x, y with Some a, Some b => Some (a ++ b) | _, _ => None end.

Definition named_ent (e : option tens) : option (list (string * list expr)) :=
  match e with None => Some [("ent", [])] | Some t => named "ent" t end.

(* [hit]: whether the stored action tensor happens to be bit-identical to tanh of the draw of the forward pass that
   precedes its re-evaluation (saturated tanh: both are exactly +-1).  torch.equal is a test on VALUES, so its outcome is
   an input of the model, like the draws: with [hit] the stored tensor IS tanh(sampled2). *)
Definition run_scenario (sc : scenario) (sp : space) (squash masked : bool) (B : nat) (hit : bool)
  : option (list (string * list expr)) :=
  let ac := actor_init sp squash in
  let lg1 := var_t2 "logit" B (flatdim sp) in
  let lg2 := var_t2 "logit2" B (flatdim sp) in
  let m1 := opt_mask masked "mask" sp B in
  let m2 := opt_mask masked "mask2" sp B in
  let d1 := var_draws "sampled" sp B in
  let d2 := var_draws "sampled2" sp B in
  let stored := if hit then match d2 with DrOne t => tmap Tanh t | DrMany _ => var_action "action" sp B end
                else var_action "action" sp B in
  match sc with
  | ScFresh =>
      match actor_forward ac lg1 m1 d1 with
      | Some (_, a, lp, e) => oapp (oapp (named "act" a) (named "lp" lp)) (named_ent e)
      | None => None end
  | ScReeval =>
      match ed_forward (ac_head ac) lg1 m1 d1 with
      | Some (ed', a, lp, _) => oapp (named "lp" lp) (named "lp2" (ed_log_prob ed' a))
      | None => None end
  | ScStored =>
      match actor_forward ac lg1 m1 d1 with
      | Some (ac1, _, _, _) =>
          match actor_forward ac1 lg2 m2 d2 with
          | Some (ac2, _, _, _) => named "lp2" (action_log_prob ac2 stored)
          | None => None end
      | None => None end
  | ScPPOGet =>
      match ppo_get_action ac lg1 m1 d1 with
      | Some (_, a, lp, e) => oapp (oapp (named "act" a) (named "lp" lp)) (named "ent" e)
      | None => None end
  | ScPPOEval =>
      match ppo_get_action ac lg1 m1 d1 with
      | Some (ac1, _, _, _) =>
          match ppo_evaluate_actions ac1 lg2 d2 stored with
          | Some (_, lp, e) => oapp (named "lp2" lp) (named "ent2" e)
          | None => None end
      | None => None end
  | ScPPOLearn =>
      match ppo_get_action ac lg1 m1 d1 with
      | Some (ac1, _, _, _) =>
          match ppo_learn_evaluate ac1 lg2 d2 stored with
          | Some (_, lp, e) => oapp (named "lp2" lp) (named "ent2" e)
          | None => None end
      | None => None end
  | ScIPPOLearn =>
      match actor_forward ac lg1 m1 d1 with
      | Some (ac1, _, _, _) =>
          match ippo_learn_evaluate ac1 lg2 d2 stored with
          | Some (_, lp, e) => oapp (named "lp2" lp) (match e with None => Some [("ent2", [])] | Some t => named "ent2" t end)
          | None => None end
      | None => None end
  end.

(* the same scenarios on the pinned (pre-fix) log_prob, used by the refutation only *)
Definition run_stored_pinned (sp : space) (squash : bool) (B : nat) : option (list expr) :=
  let ac := actor_init sp squash in
  match actor_forward ac (var_t2 "logit" B (flatdim sp)) None (var_draws "sampled" sp B) with
  | Some (ac1, _, _, _) =>
      match actor_forward ac1 (var_t2 "logit2" B (flatdim sp)) None (var_draws "sampled2" sp B) with
      | Some (ac2, _, _, _) => vec_of (action_log_prob_pinned ac2 (var_action "action" sp B))
      | None => None end
  | None => None end.

(* ------------------------------------------------------------------ skeleton / atoms *)
(* atoms: maximal subterms that are not Add/Sub/Neg/SumL/MeanL, left to right *)
Fixpoint atoms (e : expr) : list expr :=
  match e with
  | Add a b => atoms a ++ atoms b
  | Sub a b => atoms a ++ atoms b
  | Neg a => atoms a
  | SumL l => concat (map atoms l)
  | MeanL l => concat (map atoms l)
  | other => [other]
  end.

Definition outputs_atoms (o : option (list (string * list expr))) : list (string * list (list expr)) :=
  match o with
  | Some l => map (fun p => (fst p, map atoms (snd p))) l
  | None => []
  end.

(* evaluate the skeleton in Q, consuming one supplied value per atom *)
Definition ev_sum (ev : expr -> list Q -> option (Q * list Q)) : list expr -> list Q -> option (Q * list Q) :=
  fix go (l : list expr) (vals : list Q) {struct l} : option (Q * list Q) :=
    match l with
    | [] => Some (0%Q, vals)
    | x :: r => match ev x vals with
                | Some (a, v1) => match go r v1 with Some (b, v2) => Some (Qred (a + b)%Q, v2) | None => None end
                | None => None end
    end.

Fixpoint ev (e : expr) (vals : list Q) {struct e} : option (Q * list Q) :=
  match e with
  | Add a b => match ev a vals with
               | Some (x, v1) => match ev b v1 with Some (y, v2) => Some (Qred (x + y)%Q, v2) | None => None end
               | None => None end
  | Sub a b => match ev a vals with
               | Some (x, v1) => match ev b v1 with Some (y, v2) => Some (Qred (x - y)%Q, v2) | None => None end
               | None => None end
  | Neg a => match ev a vals with Some (x, v1) => Some ((- x)%Q, v1) | None => None end
  | SumL l => ev_sum ev l vals
  | MeanL l => match ev_sum ev l vals with       (* batches are non-empty; in Q, x / 0 = 0 *)
               | Some (s, v1) => Some (Qred (s / inject_Z (Z.of_nat (length l)))%Q, v1)
               | None => None end
  | _ => match vals with v :: r => Some (v, r) | [] => None end
  end.

(* the value of a formula when arithmetic is exact rational arithmetic and every primitive atom a has the value phi a *)
Fixpoint denoteQ (phi : expr -> Q) (e : expr) : Q :=
  match e with
  | Add a b => (denoteQ phi a + denoteQ phi b)%Q
  | Sub a b => (denoteQ phi a - denoteQ phi b)%Q
  | Neg a => (- denoteQ phi a)%Q
  | SumL l => fold_right (fun x acc => (denoteQ phi x + acc)%Q) 0%Q l
  | MeanL l => (fold_right (fun x acc => (denoteQ phi x + acc)%Q) 0%Q l / inject_Z (Z.of_nat (length l)))%Q
  | other => phi other
  end.

Definition tol : Q := (1 # 10000)%Q.

(* |model - observed| <= tol + tol*|observed| + slack  (slack: float32 conditioning bound supplied with the atoms) *)
Definition close (m o slack : Q) : bool := Qle_bool (Qabs (m - o)%Q) (tol + tol * Qabs o + slack)%Q.

(* one output vector: formulas es, atom values per entry, observed values, slack per entry *)
Fixpoint check_vec (es : list expr) (vals : list (list Q)) (obs slack : list Q) : bool :=
  match es, vals, obs, slack with
  | [], [], [], [] => true
  | e :: es', v :: vals', o :: obs', s :: slack' =>
      match ev e v with
      | Some (m, []) => close m o s && check_vec es' vals' obs' slack'
      | _ => false
      end
  | _, _, _, _ => false
  end.

Definition datum := (string * (list (list Q) * list Q * list Q))%type.

Fixpoint check_named (outs : list (string * list expr)) (data : list datum) : bool :=
  match outs, data with
  | [], [] => true
  | (n, es) :: outs', (n', (vals, obs, slack)) :: data' =>
      String.eqb n n' && check_vec es vals obs slack && check_named outs' data'
  | _, _ => false
  end.

Definition check_outputs (o : option (list (string * list expr))) (data : list datum) : bool :=
  match o with Some outs => check_named outs data | None => false end.

(* output names for the generated case files (which do not import String) *)
Definition n_act := "act". Definition n_lp := "lp". Definition n_ent := "ent".
Definition n_lp2 := "lp2". Definition n_ent2 := "ent2".

(* ------------------------------------------------------------------ support of the returned action (exact) *)
(* discrete spaces: the returned indices/bits are in range and not masked.  mask row = flat over flatdim. *)
Fixpoint support_md (nv : list nat) (mask : list bool) (a : list nat) : bool :=
  match nv, a with
  | [], [] => true
  | n :: nv', k :: a' => (k <? n) && nth k mask false && support_md nv' (skipn n mask) a'
  | _, _ => false
  end.

Definition support_row (sp : space) (mask : list bool) (a : list nat) : bool :=
  match sp with
  | Discrete n => support_md [n] mask a
  | MultiDiscrete nv => support_md nv mask a
  | MultiBinary n => (length a =? n) && forallb (fun p => (fst p <=? 1) && (snd p || (fst p =? 0))) (combine a mask)
  | Box _ => true
  end.

Definition support_ok (sp : space) (mask : list (list bool)) (a : list (list nat)) : bool :=
  (length mask =? length a) && forallb (fun p => support_row sp (fst p) (snd p)) (combine mask a).

(* squashed Box: the returned (scaled) action lies in [low, high] *)
Definition in_box (low high : list Q) (a : list (list Q)) : bool :=
  forallb (fun row => (length row =? length low) &&
                      forallb (fun p => Qle_bool (fst (fst p)) (snd p) && Qle_bool (snd p) (snd (fst p)))
                              (combine (combine low high) row)) a.

(* ------------------------------------------------------------------ IPPO mask plumbing: model vs the real extract_action_masks *)
(* masks are encoded as numbers (bit i = entry i of the flattened mask of that agent); obs: per policy group the stacked rows *)
From Coq Require Import NArith.
Definition optN_eqb (a b : option N) : bool :=
  match a, b with Some x, Some y => N.eqb x y | None, None => true | _, _ => false end.
Definition check_ippo_masks (ids : list agent) (infos : list (agent * N)) (obs : list (nat * list N)) : bool :=
  forallb (fun p => list_eqb optN_eqb (ippo_masks ids infos (fst p)) (map Some (snd p))) obs.

(* row level (vectorised envs): the [n_agents, E, n] stack viewed as [n_agents*E, n], one number per row *)
Definition check_ippo_rows (ids : list agent) (d : list (agent * list N)) (obs : list (nat * list N)) : bool :=
  forallb (fun p => list_eqb N.eqb (stack_rows ids d (fst p)) (snd p)) obs.
