(* C16 — symbolic model of agilerl.networks.distributions (handlers, TorchDistribution,
   EvolvableDistribution), StochasticActor.forward/action_log_prob/scale_action and
   PPO.get_action/evaluate_actions.

   The model does not compute numbers: it computes FORMULAS (expression trees) by following the data
   flow of the code, tensor operation by tensor operation (split / unbind / stack / sum(dim=1) /
   where / expand_as), including the state the code keeps between calls (the [dist] stored by the last
   forward and the cached pre-squash [sampled_action]).  Network outputs (logits), masks, random
   draws, stored actions, log_std and the Box bounds are variables.  Model only, no proofs. *)
From Coq Require Import List Arith Bool String.
Import ListNotations.
Open Scope string_scope.
Local Notation length := List.length.
Local Notation concat := List.concat.

(* ------------------------------------------------------------------ expressions *)
Inductive expr :=
| Var (name : string) (b i : nat)            (* name[b, i] : row b of the batch, component i *)
| Add (x y : expr) | Sub (x y : expr) | Neg (x : expr)
| SumL (l : list expr)                        (* tensor.sum(dim=1) of one row *)
| MeanL (l : list expr)                       (* tensor.mean() of a rank-1 tensor *)
| Exp (x : expr)
| Tanh (x : expr) | Atanh (x : expr)
| Clamp1 (x : expr)                           (* x.clamp(-1+eps, 1-eps), eps = finfo(float32).eps *)
| Log1mSq (x : expr)                          (* log(1 - x^2 + 1e-6) *)
| Scale (lo hi x : expr)                      (* lo + 0.5*(x+1)*(hi-lo) *)
| MaskFill (m x : expr)                       (* where(m, x, -1e8) *)
| NormalLogPdf (mu sigma x : expr)            (* Normal(mu, sigma).log_prob(x) *)
| NormalEntropy (sigma : expr)                (* Normal(mu, sigma).entropy() *)
| LogSoftmaxAt (logits : list expr) (k : expr)(* Categorical(logits=..).log_prob(k) *)
| CatEntropy (logits : list expr)             (* Categorical(logits=..).entropy() *)
| BernLogP (logit x : expr)                   (* Bernoulli(logits=..).log_prob(x) *)
| BernEntropy (logit : expr).                 (* Bernoulli(logits=..).entropy() *)

(* tensors of rank 1 ([B]) and rank 2 ([B, D]); TErr = the call raises *)
Inductive tens := T1 (v : list expr) | T2 (m : list (list expr)) | TErr.

Definition zipWith {A B C} (f : A -> B -> C) (la : list A) (lb : list B) : list C :=
  map (fun p => f (fst p) (snd p)) (combine la lb).

Definition tmap (f : expr -> expr) (t : tens) : tens :=
  match t with T1 v => T1 (map f v) | T2 m => T2 (map (map f) m) | TErr => TErr end.

Definition dflt : expr := Var "?" 0 0.

(* ------------------------------------------------------------------ syntactic equality (torch.equal on formulas) *)
Fixpoint expr_eqb (x y : expr) {struct x} : bool :=
  let list_eqb := fix go (l l' : list expr) {struct l} : bool :=
    match l, l' with
    | [], [] => true
    | e :: r, e' :: r' => expr_eqb e e' && go r r'
    | _, _ => false
    end in
  match x, y with
  | Var n b i, Var n' b' i' => String.eqb n n' && Nat.eqb b b' && Nat.eqb i i'
  | Add a b, Add a' b' => expr_eqb a a' && expr_eqb b b'
  | Sub a b, Sub a' b' => expr_eqb a a' && expr_eqb b b'
  | Neg a, Neg a' => expr_eqb a a'
  | SumL l, SumL l' => list_eqb l l'
  | MeanL l, MeanL l' => list_eqb l l'
  | Exp a, Exp a' => expr_eqb a a'
  | Tanh a, Tanh a' => expr_eqb a a'
  | Atanh a, Atanh a' => expr_eqb a a'
  | Clamp1 a, Clamp1 a' => expr_eqb a a'
  | Log1mSq a, Log1mSq a' => expr_eqb a a'
  | Scale a b c, Scale a' b' c' => expr_eqb a a' && expr_eqb b b' && expr_eqb c c'
  | MaskFill a b, MaskFill a' b' => expr_eqb a a' && expr_eqb b b'
  | NormalLogPdf a b c, NormalLogPdf a' b' c' => expr_eqb a a' && expr_eqb b b' && expr_eqb c c'
  | NormalEntropy a, NormalEntropy a' => expr_eqb a a'
  | LogSoftmaxAt l k, LogSoftmaxAt l' k' => list_eqb l l' && expr_eqb k k'
  | CatEntropy l, CatEntropy l' => list_eqb l l'
  | BernLogP a b, BernLogP a' b' => expr_eqb a a' && expr_eqb b b'
  | BernEntropy a, BernEntropy a' => expr_eqb a a'
  | _, _ => false
  end.

Fixpoint list_eqb {A} (eqb : A -> A -> bool) (l l' : list A) : bool :=
  match l, l' with
  | [], [] => true
  | e :: r, e' :: r' => eqb e e' && list_eqb eqb r r'
  | _, _ => false
  end.

(* torch.equal(x, y): same shape and same entries *)
Definition tens_eqb (x y : tens) : bool :=
  match x, y with
  | T1 v, T1 v' => list_eqb expr_eqb v v'
  | T2 m, T2 m' => list_eqb (list_eqb expr_eqb) m m'
  | _, _ => false
  end.

(* tensor.shape == tensor.shape *)
Definition shape (t : tens) : option (list nat) :=
  match t with
  | T1 v => Some [length v]
  | T2 m => Some [length m; match m with r :: _ => length r | [] => 0 end]
  | TErr => None
  end.
Definition shape_eqb (x y : tens) : bool :=
  match shape x, shape y with
  | Some s, Some s' => list_eqb Nat.eqb s s'
  | _, _ => false
  end.

(* ------------------------------------------------------------------ torch tensor operations used by the code *)
(* tensor.sum(dim=1): defined for rank 2 only *)
Definition sum_dim1 (t : tens) : tens := match t with T2 m => T1 (map SumL m) | _ => TErr end.

(* sum_independent_tensor: tensor.sum(dim=1) if len(tensor.shape) > 1 else tensor *)
Definition sum_independent_tensor (t : tens) : tens :=
  match t with T2 m => T1 (map SumL m) | other => other end.

(* a - b on rank-1 tensors of the same length *)
Definition tsub (x y : tens) : tens :=
  match x, y with T1 a, T1 b => T1 (zipWith Sub a b) | _, _ => TErr end.

Fixpoint split_sizes {A} (sizes : list nat) (l : list A) : list (list A) :=
  match sizes with [] => [] | n :: r => firstn n l :: split_sizes r (skipn n l) end.

(* torch.split(t, sizes, dim=1): one [B, n_j] tensor per size *)
Definition split_dim1 (sizes : list nat) (t : list (list expr)) : list (list (list expr)) :=
  map (fun j => map (fun row => nth j (split_sizes sizes row) []) t) (seq 0 (length sizes)).

Definition ncols (t : list (list expr)) : nat := match t with r :: _ => length r | [] => 0 end.

(* torch.unbind(t, dim=1): one [B] tensor per column *)
Definition unbind_dim1 (t : list (list expr)) : list (list expr) :=
  map (fun j => map (fun row => nth j row dflt) t) (seq 0 (ncols t)).

(* torch.stack(cols, dim=1): [B] tensors -> [B, len cols] *)
Definition stack_dim1 (cols : list (list expr)) : list (list expr) :=
  map (fun b => map (fun col => nth b col dflt) cols) (seq 0 (ncols cols)).

(* torch.cat(parts, dim=1) *)
Definition cat_dim1 (parts : list (list (list expr))) : list (list expr) :=
  map (fun b => concat (map (fun p => nth b p []) parts)) (seq 0 (match parts with p :: _ => length p | [] => 0 end)).

(* ------------------------------------------------------------------ torch.distributions objects *)
Inductive dist :=
| DNormal (loc scale : list (list expr))
| DCat (logits : list (list expr))
| DMulti (ds : list (list (list expr)))        (* list of Categorical *)
| DBern (logits : list (list expr)).

(* the random draws are inputs: what distribution.sample() returned *)
Inductive draws := DrOne (t : tens) | DrMany (cols : list (list expr)).

Definition cat_log_prob (logits : list (list expr)) (a : list expr) : list expr :=
  zipWith LogSoftmaxAt logits a.

Definition normal_log_prob (loc scale a : list (list expr)) : list (list expr) :=
  zipWith (fun ms ar => zipWith (fun m_s x => NormalLogPdf (fst m_s) (snd m_s) x) ms ar)
          (zipWith (@combine expr expr) loc scale) a.

(* NormalHandler / BernoulliHandler / CategoricalHandler / MultiCategoricalHandler *)
Definition h_sample (d : dist) (dr : draws) : tens :=
  match d, dr with
  | DMulti _, DrMany cols => T2 (stack_dim1 cols)      (* torch.stack([d.sample() for d in dists], dim=1) *)
  | DMulti _, DrOne _ => TErr
  | _, DrOne t => t
  | _, DrMany _ => TErr
  end.

Definition h_log_prob (d : dist) (a : tens) : tens :=
  match d, a with
  | DNormal loc sc, T2 am => sum_independent_tensor (T2 (normal_log_prob loc sc am))
  | DBern lg, T2 am => sum_dim1 (T2 (zipWith (zipWith BernLogP) lg am))
  | DCat lg, T1 av => T1 (cat_log_prob lg av)
  | DMulti ds, T2 am =>
      let unbinded := unbind_dim1 am in
      let multi := zipWith cat_log_prob ds unbinded in
      sum_dim1 (T2 (stack_dim1 multi))
  (* a rank-1 action [B] against [B,1] parameters broadcasts to [B,B]: entry (i,j) pairs row i's
     distribution with row j's action, and sum(dim=1) then adds up the whole batch *)
  | DNormal loc sc, T1 av =>
      if Nat.eqb (ncols loc) 1
      then sum_independent_tensor
             (T2 (zipWith (fun mrow srow => map (fun x => NormalLogPdf (nth 0 mrow dflt) (nth 0 srow dflt) x) av) loc sc))
      else TErr
  | DBern lg, T1 av =>
      if Nat.eqb (ncols lg) 1
      then sum_dim1 (T2 (map (fun lrow => map (fun x => BernLogP (nth 0 lrow dflt) x) av) lg))
      else TErr
  | _, _ => TErr
  end.

Definition h_entropy (d : dist) : tens :=
  match d with
  | DNormal _ sc => sum_independent_tensor (T2 (map (map NormalEntropy) sc))
  | DBern lg => sum_dim1 (T2 (map (map BernEntropy) lg))
  | DCat lg => T1 (map CatEntropy lg)
  | DMulti ds => sum_dim1 (T2 (stack_dim1 (map (map CatEntropy) ds)))
  end.

(* ------------------------------------------------------------------ TorchDistribution *)
Record tdist := { td_dist : dist; td_squash : bool; td_sampled : option tens }.

Definition td_sample (st : tdist) (dr : draws) : tdist * tens :=
  let s := h_sample (td_dist st) dr in
  ({| td_dist := td_dist st; td_squash := td_squash st; td_sampled := Some s |},
   if td_squash st then tmap Tanh s else s).

Definition unsquash (a : tens) : tens := tmap (fun x => Atanh (Clamp1 x)) a.

(* current code (after fix fd023a3) *)
Definition td_log_prob (st : tdist) (action : tens) : tens :=
  let _action :=
    if td_squash st then
      match td_sampled st with
      | Some s => if shape_eqb s action && tens_eqb (tmap Tanh s) action then s else unsquash action
      | None => unsquash action
      end
    else action in
  let lp := h_log_prob (td_dist st) _action in
  if td_squash st then tsub lp (sum_dim1 (tmap Log1mSq action)) else lp.

(* pinned (pre-fix) code: _action = action if not squash_output else self.sampled_action *)
Definition td_log_prob_pinned (st : tdist) (action : tens) : tens :=
  let _action :=
    if td_squash st then match td_sampled st with Some s => s | None => TErr end else action in
  let lp := h_log_prob (td_dist st) _action in
  if td_squash st then tsub lp (sum_dim1 (tmap Log1mSq action)) else lp.

Definition td_entropy (st : tdist) : option tens :=
  if td_squash st then None else Some (h_entropy (td_dist st)).

(* ------------------------------------------------------------------ EvolvableDistribution *)
Inductive space := Discrete (n : nat) | MultiDiscrete (nvec : list nat) | MultiBinary (n : nat) | Box (d : nat).

Definition flatdim (sp : space) : nat :=
  match sp with Discrete n => n | MultiDiscrete nv => list_sum nv | MultiBinary n => n | Box d => d end.
Definition is_box (sp : space) : bool := match sp with Box _ => true | _ => false end.

Record edist := { ed_space : space; ed_squash : bool; ed_log_std : list expr; ed_dist : option tdist }.

(* __init__: squash_output and isinstance(action_space, Box); log_std = ones(1, d) * init *)
Definition ed_init (sp : space) (squash_output : bool) : edist :=
  {| ed_space := sp; ed_squash := squash_output && is_box sp;
     ed_log_std := map (fun i => Var "log_std" 0 i) (seq 0 (flatdim sp)); ed_dist := None |}.

Definition dist_of (sp : space) (log_std_row : list expr) (logits : list (list expr)) : dist :=
  match sp with
  | Box _ => let log_std := map (fun _ => log_std_row) logits in   (* log_std.expand_as(logits) *)
             DNormal logits (map (map Exp) log_std)                (* Normal(loc=logits, scale=exp(log_std)) *)
  | Discrete _ => DCat logits
  | MultiDiscrete nv => DMulti (split_dim1 nv logits)              (* [Categorical(logits=s) for s in split(logits, nvec, dim=1)] *)
  | MultiBinary _ => DBern logits
  end.

Definition get_distribution (ed : edist) (logits : list (list expr)) : tdist :=
  {| td_dist := dist_of (ed_space ed) (ed_log_std ed) logits; td_squash := ed_squash ed; td_sampled := None |}.

(* apply_action_mask_discrete: torch.where(mask, logits, -1e8) *)
Definition mask_discrete (logits mask : list (list expr)) : list (list expr) :=
  zipWith (fun lr mr => zipWith (fun l m => MaskFill m l) lr mr) logits mask.

Definition apply_mask (ed : edist) (logits mask : list (list expr)) : option (list (list expr)) :=
  match ed_space ed with
  | Discrete _ => Some (mask_discrete logits mask)
  | MultiDiscrete nv =>
      Some (cat_dim1 (zipWith mask_discrete (split_dim1 nv logits) (split_dim1 nv mask)))
  | MultiBinary n =>
      Some (cat_dim1 (zipWith mask_discrete (split_dim1 [n] logits) (split_dim1 [n] mask)))
  | Box _ => None                                                      (* NotImplementedError *)
  end.

(* forward(latent, action_mask): logits = wrapped(latent) is an input *)
Definition ed_forward (ed : edist) (logits : list (list expr)) (mask : option (list (list expr))) (dr : draws)
  : option (edist * tens * tens * option tens) :=
  let ml := match mask with None => Some logits | Some m => apply_mask ed logits m end in
  match ml with
  | None => None
  | Some lg =>
      let d0 := get_distribution ed lg in
      let '(d1, action) := td_sample d0 dr in
      let lp := td_log_prob d1 action in
      let ent := td_entropy d1 in
      Some ({| ed_space := ed_space ed; ed_squash := ed_squash ed; ed_log_std := ed_log_std ed; ed_dist := Some d1 |},
            action, lp, ent)
  end.

Definition ed_log_prob (ed : edist) (action : tens) : tens :=
  match ed_dist ed with None => TErr | Some d => td_log_prob d action end.
Definition ed_log_prob_pinned (ed : edist) (action : tens) : tens :=
  match ed_dist ed with None => TErr | Some d => td_log_prob_pinned d action end.

(* ------------------------------------------------------------------ StochasticActor *)
Record actor := { ac_head : edist; ac_squash : bool }.
Definition actor_init (sp : space) (squash_output : bool) : actor :=
  {| ac_head := ed_init sp squash_output; ac_squash := squash_output |}.

Definition zip3With {A B C D} (f : A -> B -> C -> D) (la : list A) (lb : list B) (lc : list C) : list D :=
  zipWith (fun ab c => f (fst ab) (snd ab) c) (combine la lb) lc.

(* scale_action: low + 0.5*(action+1)*(high-low), broadcast over rows *)
Definition scale_action (d : nat) (a : tens) : tens :=
  match a with
  | T2 m => T2 (map (fun row => zip3With Scale (map (fun i => Var "low" 0 i) (seq 0 d))
                                               (map (fun i => Var "high" 0 i) (seq 0 d)) row) m)
  | _ => TErr
  end.

Definition actor_forward (ac : actor) (logits : list (list expr)) (mask : option (list (list expr))) (dr : draws)
  : option (actor * tens * tens * option tens) :=
  match ed_forward (ac_head ac) logits mask dr with
  | None => None
  | Some (ed', action, lp, ent) =>
      let action' := match ed_space ed' with
                     | Box d => if ac_squash ac then scale_action d action else action
                     | _ => action end in
      Some ({| ac_head := ed'; ac_squash := ac_squash ac |}, action', lp, ent)
  end.

Definition action_log_prob (ac : actor) (a : tens) : tens := ed_log_prob (ac_head ac) a.
Definition action_log_prob_pinned (ac : actor) (a : tens) : tens := ed_log_prob_pinned (ac_head ac) a.

(* ------------------------------------------------------------------ PPO *)
(* entropy = -log_prob.mean() if entropy is None else entropy *)
Definition ppo_entropy (lp : tens) (ent : option tens) : tens :=
  match ent with
  | Some e => e
  | None => match lp with T1 v => T1 [Neg (MeanL v)] | _ => TErr end
  end.

(* get_action in training mode: forward_head (no action scaling), then the entropy rule *)
Definition ppo_get_action (ac : actor) (logits : list (list expr)) (mask : option (list (list expr))) (dr : draws)
  : option (actor * tens * tens * tens) :=
  match ed_forward (ac_head ac) logits mask dr with
  | None => None
  | Some (ed', action, lp, ent) => Some ({| ac_head := ed'; ac_squash := ac_squash ac |}, action, lp, ppo_entropy lp ent)
  end.

(* evaluate_actions(obs, actions): a forward WITHOUT mask and with fresh draws, then log_prob of the passed actions *)
Definition ppo_evaluate_actions (ac : actor) (logits : list (list expr)) (dr : draws) (actions : tens)
  : option (actor * tens * tens) :=
  match ed_forward (ac_head ac) logits None dr with
  | None => None
  | Some (ed', _, _, ent) =>
      let ac' := {| ac_head := ed'; ac_squash := ac_squash ac |} in
      let lp := action_log_prob ac' actions in
      Some (ac', lp, ppo_entropy lp ent)
  end.

(* learn(): minibatch actions go through batch_actions.squeeze() (minibatches have > 1 rows), which also
   removes the component axis of one-component spaces; the repaired code puts that axis back for every
   space but Discrete before evaluate_actions / action_log_prob *)
Definition squeeze (t : tens) : tens :=
  match t with
  | T2 m => if Nat.eqb (ncols m) 1 then T1 (map (fun r => nth 0 r dflt) m) else T2 m
  | other => other
  end.
Definition restore_axis (sp : space) (t : tens) : tens :=
  match sp, t with
  | Discrete _, _ => t
  | _, T1 v => T2 (map (fun x => [x]) v)
  | _, _ => t
  end.
Definition learn_actions (sp : space) (a : tens) : tens := restore_axis sp (squeeze a).
Definition learn_actions_pinned (sp : space) (a : tens) : tens := squeeze a.

Definition ppo_learn_evaluate (ac : actor) (logits : list (list expr)) (dr : draws) (stored : tens) :=
  ppo_evaluate_actions ac logits dr (learn_actions (ed_space (ac_head ac)) stored).
Definition ppo_learn_evaluate_pinned (ac : actor) (logits : list (list expr)) (dr : draws) (stored : tens) :=
  ppo_evaluate_actions ac logits dr (learn_actions_pinned (ed_space (ac_head ac)) stored).

(* IPPO._learn_individual: actor(batch_states) then actor.action_log_prob(batch_actions) *)
Definition ippo_learn_evaluate (ac : actor) (logits : list (list expr)) (dr : draws) (stored : tens)
  : option (actor * tens * option tens) :=
  match actor_forward ac logits None dr with
  | None => None
  | Some (ac', _, _, ent) => Some (ac', action_log_prob ac' (learn_actions (ed_space (ac_head ac)) stored), ent)
  end.

(* ------------------------------------------------------------------ the definition (textbook), row by row *)
Definition spec_logprob_row (sp : space) (squash : bool) (logits log_std action : list expr) : expr :=
  match sp with
  | Discrete _ => LogSoftmaxAt logits (nth 0 action dflt)
  | MultiDiscrete nv => SumL (zipWith LogSoftmaxAt (split_sizes nv logits) action)
  | MultiBinary _ => SumL (zipWith BernLogP logits action)
  | Box _ =>
      if squash
      then Sub (SumL (zip3With (fun m s a => NormalLogPdf m (Exp s) (Atanh (Clamp1 a))) logits log_std action))
               (SumL (map Log1mSq action))
      else SumL (zip3With (fun m s a => NormalLogPdf m (Exp s) a) logits log_std action)
  end.

Definition spec_entropy_row (sp : space) (logits log_std : list expr) : expr :=
  match sp with
  | Discrete _ => CatEntropy logits
  | MultiDiscrete nv => SumL (map CatEntropy (split_sizes nv logits))
  | MultiBinary _ => SumL (map BernEntropy logits)
  | Box _ => SumL (map (fun s => NormalEntropy (Exp s)) log_std)
  end.

(* rows of an action tensor: a rank-1 tensor of B indices is B rows of one component *)
Definition rows_of (a : tens) : list (list expr) :=
  match a with T1 v => map (fun x => [x]) v | T2 m => m | TErr => [] end.

(* the rewrite under which a freshly sampled squashed action is compared: atanh(clamp(tanh x)) = x *)
Fixpoint simp (e : expr) : expr :=
  match e with
  | Atanh (Clamp1 (Tanh x)) => simp x
  | Var n b i => Var n b i
  | Add a b => Add (simp a) (simp b) | Sub a b => Sub (simp a) (simp b) | Neg a => Neg (simp a)
  | SumL l => SumL (map simp l) | MeanL l => MeanL (map simp l)
  | Exp a => Exp (simp a) | Tanh a => Tanh (simp a) | Atanh a => Atanh (simp a) | Clamp1 a => Clamp1 (simp a)
  | Log1mSq a => Log1mSq (simp a)
  | Scale a b c => Scale (simp a) (simp b) (simp c)
  | MaskFill a b => MaskFill (simp a) (simp b)
  | NormalLogPdf a b c => NormalLogPdf (simp a) (simp b) (simp c)
  | NormalEntropy a => NormalEntropy (simp a)
  | LogSoftmaxAt l k => LogSoftmaxAt (map simp l) (simp k)
  | CatEntropy l => CatEntropy (map simp l)
  | BernLogP a b => BernLogP (simp a) (simp b)
  | BernEntropy a => BernEntropy (simp a)
  end.

(* ------------------------------------------------------------------ variables of the scenarios used by K *)
Definition var_t2 (name : string) (B D : nat) : list (list expr) :=
  map (fun b => map (fun i => Var name b i) (seq 0 D)) (seq 0 B).
Definition var_t1 (name : string) (B : nat) : list expr := map (fun b => Var name b 0) (seq 0 B).

(* shape of what sample() returns / of a stored action, per space *)
Definition ncomp (sp : space) : nat :=
  match sp with Discrete _ => 1 | MultiDiscrete nv => length nv | MultiBinary n => n | Box d => d end.

Definition var_draws (name : string) (sp : space) (B : nat) : draws :=
  match sp with
  | Discrete _ => DrOne (T1 (var_t1 name B))
  | MultiDiscrete nv => DrMany (map (fun j => map (fun b => Var name b j) (seq 0 B)) (seq 0 (length nv)))
  | _ => DrOne (T2 (var_t2 name B (ncomp sp)))
  end.
Definition var_action (name : string) (sp : space) (B : nat) : tens :=
  match sp with Discrete _ => T1 (var_t1 name B) | _ => T2 (var_t2 name B (ncomp sp)) end.

Definition opt_mask (masked : bool) (name : string) (sp : space) (B : nat) : option (list (list expr)) :=
  if masked then Some (var_t2 name B (flatdim sp)) else None.

(* ------------------------------------------------------------------ the definition lifted to a batch; shape guards *)
Definition spec_logprob (sp : space) (squash : bool) (logits : list (list expr)) (log_std : list expr) (action : tens) : tens :=
  T1 (zipWith (fun lrow arow => spec_logprob_row sp squash lrow log_std arow) logits (rows_of action)).

Definition spec_entropy (sp : space) (logits : list (list expr)) (log_std : list expr) : tens :=
  T1 (map (fun lrow => spec_entropy_row sp lrow log_std) logits).

(* what masking must produce: every logit individually guarded by its own mask bit *)
Definition masked_spec (logits mask : list (list expr)) : list (list expr) :=
  zipWith (fun lr mr => zipWith (fun l m => MaskFill m l) lr mr) logits mask.

Definition wf_rows (B D : nat) (t : list (list expr)) : Prop :=
  length t = B /\ Forall (fun r => length r = D) t.

Definition wf_action (sp : space) (B : nat) (a : tens) : Prop :=
  match sp, a with
  | Discrete _, T1 v => length v = B
  | Discrete _, _ => False
  | _, T2 m => wf_rows B (ncomp sp) m
  | _, _ => False
  end.

Definition wf_draws (sp : space) (B : nat) (dr : draws) : Prop :=
  match sp, dr with
  | MultiDiscrete nv, DrMany cols => length cols = length nv /\ Forall (fun c => length c = B) cols
  | MultiDiscrete _, DrOne _ => False
  | _, DrOne t => wf_action sp B t
  | _, DrMany _ => False
  end.

(* the squashed branch of log_prob reuses the cached sample iff this test succeeds *)
Definition cache_hit (st : tdist) (action : tens) : bool :=
  match td_sampled st with
  | Some s => shape_eqb s action && tens_eqb (tmap Tanh s) action
  | None => false
  end.

(* ------------------------------------------------------------------ which batch rows a formula reads *)
(* parameters shared by all rows (log_std, Box bounds) live in row 0 of their own tensors *)
Definition is_param (n : string) : bool := String.eqb n "log_std" || String.eqb n "low" || String.eqb n "high".

Fixpoint only_row (b : nat) (e : expr) : bool :=
  match e with
  | Var n b' i => is_param n || Nat.eqb b' b
  | Add x y | Sub x y | MaskFill x y | BernLogP x y => only_row b x && only_row b y
  | Neg x | Exp x | Tanh x | Atanh x | Clamp1 x | Log1mSq x | NormalEntropy x | BernEntropy x => only_row b x
  | SumL l | MeanL l | CatEntropy l => forallb (only_row b) l
  | Scale x y z | NormalLogPdf x y z => only_row b x && only_row b y && only_row b z
  | LogSoftmaxAt l k => forallb (only_row b) l && only_row b k
  end.

(* every entry of row b of a rank-2 tensor reads row b only *)
Definition local2 (t : list (list expr)) : Prop :=
  forall b, b < length t -> Forall (fun e => only_row b e = true) (nth b t []).

(* ------------------------------------------------------------------ values: any interpretation of the primitives *)
Section Denote.
  Variable T : Type.
  Record prims := {
    p_add : T -> T -> T; p_sub : T -> T -> T; p_neg : T -> T; p_sum : list T -> T; p_mean : list T -> T;
    p_exp : T -> T; p_tanh : T -> T; p_atanh : T -> T; p_clamp : T -> T; p_log1msq : T -> T;
    p_scale : T -> T -> T -> T; p_maskfill : T -> T -> T; p_nlp : T -> T -> T -> T; p_nent : T -> T;
    p_lsm : list T -> T -> T; p_cent : list T -> T; p_blp : T -> T -> T; p_bent : T -> T }.
  Variable P : prims.
  Variable rho : string -> nat -> nat -> T.

  Fixpoint denote (e : expr) : T :=
    match e with
    | Var n b i => rho n b i
    | Add x y => p_add P (denote x) (denote y)
    | Sub x y => p_sub P (denote x) (denote y)
    | Neg x => p_neg P (denote x)
    | SumL l => p_sum P (map denote l)
    | MeanL l => p_mean P (map denote l)
    | Exp x => p_exp P (denote x)
    | Tanh x => p_tanh P (denote x)
    | Atanh x => p_atanh P (denote x)
    | Clamp1 x => p_clamp P (denote x)
    | Log1mSq x => p_log1msq P (denote x)
    | Scale a b c => p_scale P (denote a) (denote b) (denote c)
    | MaskFill m x => p_maskfill P (denote m) (denote x)
    | NormalLogPdf a b c => p_nlp P (denote a) (denote b) (denote c)
    | NormalEntropy x => p_nent P (denote x)
    | LogSoftmaxAt l k => p_lsm P (map denote l) (denote k)
    | CatEntropy l => p_cent P (map denote l)
    | BernLogP a b => p_blp P (denote a) (denote b)
    | BernEntropy x => p_bent P (denote x)
    end.

  Definition tdenote (t : tens) : option (list T) :=
    match t with T1 v => Some (map denote v) | T2 m => Some (map denote (concat m)) | TErr => None end.
End Denote.

(* ------------------------------------------------------------------ deepening: IPPO's action-mask plumbing (extract_action_masks) *)
(* An agent id "group_member" is (group, member); get_homo_id = fst.  agent_ids is the constructor's list; infos is the
   caller's dictionary as an association list in the CALLER's key order. *)
Definition agent := (nat * nat)%type.
Definition agent_eqb (a b : agent) : bool := Nat.eqb (fst a) (fst b) && Nat.eqb (snd a) (snd b).

Fixpoint lookup_agent {V} (k : agent) (l : list (agent * V)) : option V :=
  match l with
  | [] => None
  | (k', v) :: r => if agent_eqb k k' then Some v else lookup_agent k r
  end.

(* observations of the policy group g are stacked in agent_ids order (preprocess_observation) *)
Definition group_members (ids : list agent) (g : nat) : list agent := filter (fun a => Nat.eqb (fst a) g) ids.

(* current code (after 0c075e0): for agent_id in self.agent_ids: action_masks[homo_id].append(infos.get(agent_id)...) *)
Definition ippo_masks {V} (ids : list agent) (infos : list (agent * V)) (g : nat) : list (option V) :=
  map (fun a => lookup_agent a infos) (group_members ids g).

(* code before 0c075e0: for agent_id, info in infos.items(): action_masks[homo_id].append(...) — the caller's key order *)
Definition ippo_masks_pinned {V} (infos : list (agent * V)) (g : nat) : list (option V) :=
  map (fun p => Some (snd p)) (filter (fun p => Nat.eqb (fst (fst p)) g) infos).

(* ------------------------------------------------------------------ deepening 3: vectorised IPPO — rows of a policy group *)
(* every agent hands in E rows (one per sub-environment); np.array([...per agent...]) is [n_agents, E, n] and .view(logits.shape)
   (masks) / the observation stacking make it [n_agents * E, n]: agent-major, env-minor *)
Definition stack_rows {R} (ids : list agent) (d : list (agent * list R)) (g : nat) : list R :=
  concat (map (fun a => match lookup_agent a d with Some rows => rows | None => [] end) (group_members ids g)).

(* seeded variant (round 3): env-major stacking — row (e, k) instead of (k, e) *)
Definition stack_rows_env_major {R} (E : nat) (ids : list agent) (d : list (agent * list R)) (g : nat) : list (option R) :=
  concat (map (fun e => map (fun a => match lookup_agent a d with Some rows => nth_error rows e | None => None end) (group_members ids g))
              (seq 0 E)).
